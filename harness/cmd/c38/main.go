// C38 — values returned by reads are private to the caller.
//
// Real transactions over real fs backends (txk) with value types []byte, map[string]any, []int, *struct (reference
// kinds) and string, struct (value kinds), values in the node or in value blobs: read, mutate the returned value in
// place, roll back / commit nothing, read again in later transactions of the same process, optionally after
// another transaction committed an unrelated update or after the caches were dropped — all of them (cold restart), only
// the L1 node MRU (evict1: by dropping the entries or by real cache pressure), only the L1 Handles cache (evicth), only
// the L2 cache (evict2) —, update + rollback, and reads by another, cold process (cold k). Each read's content is
// compared with Sop.Model.Alias (a heap model of who shares which cell and which node object, over the three-level
// lookup L1 -> L2 -> blob) and with the committed contents.
package main

import (
	"context"
	"fmt"
	"os"
	"strconv"
	"strings"
	"time"

	"github.com/sharedcode/sop"
	"github.com/sharedcode/sop/btree"
	"github.com/sharedcode/sop/cache"

	"verifharness/hx"
	"verifharness/persistx"
	"verifharness/txk"
)

func main() { hx.Main(run, "", nil, nil) }

type pt struct{ N int }
type sv struct{ N int }

type codec[TV any] struct {
	name  string
	byRef bool
	mk    func(c int) TV
	get   func(v TV) int
	mut   func(v *TV, x int) // write through the value the read returned
}

var cBytes = codec[[]byte]{"bytes", true,
	func(c int) []byte { return []byte(fmt.Sprintf("%02d", c)) },
	func(v []byte) int { n, _ := strconv.Atoi(string(v)); return n },
	func(v *[]byte, x int) { copy(*v, fmt.Sprintf("%02d", x)) }}
var cMap = codec[map[string]any]{"map", true,
	func(c int) map[string]any { return map[string]any{"n": float64(c)} },
	func(v map[string]any) int {
		switch x := v["n"].(type) {
		case float64:
			return int(x)
		case int:
			return x
		}
		return -1
	},
	func(v *map[string]any, x int) { (*v)["n"] = float64(x) }}
var cInts = codec[[]int]{"ints", true,
	func(c int) []int { return []int{c} },
	func(v []int) int {
		if len(v) == 0 {
			return -1
		}
		return v[0]
	},
	func(v *[]int, x int) { (*v)[0] = x }}
var cPtr = codec[*pt]{"ptr", true,
	func(c int) *pt { return &pt{N: c} },
	func(v *pt) int {
		if v == nil {
			return -1
		}
		return v.N
	},
	func(v **pt, x int) { (*v).N = x }}
var cString = codec[string]{"string", false,
	func(c int) string { return strconv.Itoa(c) },
	func(v string) int { n, _ := strconv.Atoi(v); return n },
	func(v *string, x int) { *v = strconv.Itoa(x) }} // a string cannot be written in place: only the caller's variable changes
var cStruct = codec[sv]{"struct", false,
	func(c int) sv { return sv{N: c} },
	func(v sv) int { return v.N },
	func(v *sv, x int) { v.N = x }}

type op struct {
	kind string // begin read mutate update commit rollback clear evict1 evicth evict2 cold
	k, v int    // evict1: v=1 evicts by cache pressure (flooding the MRU) instead of dropping the entries
}

func (o op) line() string {
	switch o.kind {
	case "read":
		return fmt.Sprintf("read %d", o.k)
	case "mutate":
		return fmt.Sprintf("mutate %d", o.v)
	case "update":
		return fmt.Sprintf("update %d %d", o.k, o.v)
	case "cold":
		return fmt.Sprintf("cold %d", o.k)
	}
	return o.kind
}

const storeName = "st"

func runCase[TV any](s *hx.Session, ctx context.Context, c codec[TV], vnf bool, contents [3]int, ops []op, label string) error {
	dir, err := os.MkdirTemp(hx.WorkRoot(), "c38-")
	if err != nil {
		return err
	}
	defer os.RemoveAll(dir)
	e := txk.NewEnv(dir, 3)
	defer e.ColdRestart()
	place := "inNode"
	plName := "inNode"
	if vnf {
		place, plName = "vnf", "active"
	}
	pl, _ := persistx.PlacementByName(plName)
	s.BeginCase(fmt.Sprintf("%s %s %d %d %d", c.name, place, contents[0], contents[1], contents[2]))
	s.Hit("kind:" + c.name)
	s.Hit("place:" + place)
	s.Hit("label:" + label)
	// setup: three items; for vnf an update moves every value into its blob
	rounds := 1
	if vnf {
		rounds = 2
	}
	for r := 0; r < rounds; r++ {
		t, err := e.NewTxn(ctx, sop.ForWriting, time.Minute, nil)
		if err != nil {
			return err
		}
		if err := t.T.Begin(ctx); err != nil {
			return err
		}
		b, err := txk.NewBtree[int, TV](ctx, t, pl.Opts(e, storeName, 8))
		if err != nil {
			return err
		}
		for i := 0; i < 3; i++ {
			var ok bool
			if r == 0 {
				ok, err = b.Add(ctx, i+1, c.mk(contents[i]))
			} else {
				ok, err = b.Update(ctx, i+1, c.mk(contents[i]))
			}
			if err != nil || !ok {
				return fmt.Errorf("setup: %v %v", ok, err)
			}
		}
		if err := t.T.Commit(ctx); err != nil {
			return err
		}
	}
	e.ColdRestart()

	committed := map[int]int{1: contents[0], 2: contents[1], 3: contents[2]}
	var pending map[int]int
	var t *txk.Txn
	var b btree.BtreeInterface[int, TV]
	var last TV
	have := false
	txnMutated := false
	type mutation struct {
		x       int
		cleared bool
	}
	var muts []mutation
	laterReadAfterMutation := false
	var rolledBack []int // values of updates whose transaction rolled back (or is still open)
	evictedSince := ""   // which cache tiers lost the node since the last load
	evictAtLoad := ""    // … at the load of the current transaction
	loaded := false
	readAfterEvict := false
	touch := func() {
		if !loaded {
			loaded, evictAtLoad, evictedSince = true, evictedSince, ""
			if evictAtLoad != "" {
				s.Hit("load_after_evict:" + evictAtLoad)
			}
		}
	}
	judge := func(k, got, want int, who string) {
		sig := "C38/read-mismatch"
		for i := len(muts) - 1; i >= 0; i-- {
			if muts[i].x == got && c.byRef {
				switch {
				case vnf:
					// values fetched from value blobs are private cells (C38_private_fetched): never a known finding
					sig = "C38/fetched-value-mutation-visible-to-later-transaction"
				case muts[i].cleared || who == "cold":
					sig = "C38/in-place-mutation-made-durable-by-a-later-commit"
				default:
					sig = "C38/in-place-mutation-visible-to-later-transaction"
				}
				break
			}
		}
		if sig == "C38/read-mismatch" {
			for _, x := range rolledBack {
				if x == got {
					sig = "C38/uncommitted-update-visible-to-later-transaction"
				}
			}
		}
		s.Fail(sig, "a transaction that did not write the value reads something other than the committed content", fmt.Sprintf("%s %s %s read %d: got %d want %d (tiers evicted before this transaction's load: %q)", c.name, place, who, k, got, want, evictAtLoad))
	}
	for _, o := range ops {
		switch o.kind {
		case "begin":
			t, err = e.NewTxn(ctx, sop.ForWriting, time.Minute, nil)
			if err != nil {
				return err
			}
			if err := t.T.Begin(ctx); err != nil {
				return err
			}
			b, err = txk.OpenBtree[int, TV](ctx, t, storeName)
			if err != nil {
				return err
			}
			pending = map[int]int{}
			txnMutated = false
			loaded = false
			s.Op("begin", "ok")
		case "read":
			touch()
			ok, err := b.Find(ctx, o.k, false)
			if err != nil {
				return err
			}
			out := "none"
			if ok {
				v, err := b.GetCurrentValue(ctx)
				if err != nil {
					return err
				}
				last, have = v, true
				got := c.get(v)
				out = strconv.Itoa(got)
				want, okp := pending[o.k]
				if !okp {
					want = committed[o.k]
				}
				if len(muts) > 0 && !txnMutated {
					laterReadAfterMutation = true
				}
				if evictAtLoad != "" && (len(muts) > 0 || len(rolledBack) > 0) {
					readAfterEvict = true
				}
				if got != want && !txnMutated {
					judge(o.k, got, want, "txn")
				}
			}
			s.Op(o.line(), out)
		case "mutate":
			if have {
				c.mut(&last, o.v)
				muts = append(muts, mutation{x: o.v})
				txnMutated = true
			}
			s.Op(o.line(), "ok")
		case "update":
			touch()
			ok, err := b.Update(ctx, o.k, c.mk(o.v))
			if err != nil || !ok {
				return fmt.Errorf("update: %v %v", ok, err)
			}
			pending[o.k] = o.v
			rolledBack = append(rolledBack, o.v) // until committed
			s.Op(o.line(), "ok")
			s.Hit("update")
		case "commit":
			if err := t.T.Commit(ctx); err != nil {
				return fmt.Errorf("commit: %w", err)
			}
			for k, v := range pending {
				committed[k] = v
				for i := range rolledBack {
					if rolledBack[i] == v {
						rolledBack[i] = -1
					}
				}
			}
			s.Op("commit", "ok")
		case "rollback":
			if err := t.T.Rollback(ctx); err != nil {
				return fmt.Errorf("rollback: %w", err)
			}
			s.Op("rollback", "ok")
		case "clear":
			e.ColdRestart()
			for i := range muts {
				muts[i].cleared = true
			}
			evictedSince = "all"
			s.Op("clear", "ok")
			s.Hit("clear")
		case "evict1":
			// the L1 node MRU loses the node; L2 and the L1 Handles cache keep what they have
			if o.v == 1 {
				cache.VerifC38Flood(cache.GetGlobalL1Cache(e.L2))
				s.Hit("evict1:pressure")
			} else {
				cache.VerifC20DropNodes(cache.GetGlobalL1Cache(e.L2))
				s.Hit("evict1:drop")
			}
			evictedSince += "1"
			s.Op("evict1", "ok")
		case "evicth":
			cache.VerifC20DropHandles(cache.GetGlobalL1Cache(e.L2))
			evictedSince += "h"
			s.Op("evicth", "ok")
		case "evict2":
			if err := e.L2.Clear(ctx); err != nil {
				return err
			}
			evictedSince += "2"
			s.Op("evict2", "ok")
		case "cold":
			// another, freshly started process reads the key
			out := "none"
			err := e.AsOtherProcess(func(o2 *txk.Env) error {
				t2, err := o2.NewTxn(ctx, sop.ForReading, time.Minute, nil)
				if err != nil {
					return err
				}
				if err := t2.T.Begin(ctx); err != nil {
					return err
				}
				b2, err := txk.OpenBtree[int, TV](ctx, t2, storeName)
				if err != nil {
					return err
				}
				ok, err := b2.Find(ctx, o.k, false)
				if err != nil {
					return err
				}
				if ok {
					v, err := b2.GetCurrentValue(ctx)
					if err != nil {
						return err
					}
					got := c.get(v)
					out = strconv.Itoa(got)
					if got != committed[o.k] {
						judge(o.k, got, committed[o.k], "cold")
					}
				}
				return t2.T.Rollback(ctx)
			})
			if err != nil {
				return fmt.Errorf("cold read: %w", err)
			}
			s.Op(o.line(), out)
		}
		s.Hit("op:" + o.kind)
	}
	if laterReadAfterMutation || readAfterEvict {
		s.Nontrivial()
	}
	if laterReadAfterMutation {
		s.Hit("later_read_after_mutation")
	}
	if readAfterEvict {
		s.Hit("read_after_partial_eviction_following_a_private_mutation")
	}
	return nil
}

func dispatch(s *hx.Session, ctx context.Context, kind string, vnf bool, contents [3]int, ops []op, label string) error {
	switch kind {
	case "bytes":
		return runCase(s, ctx, cBytes, vnf, contents, ops, label)
	case "map":
		return runCase(s, ctx, cMap, vnf, contents, ops, label)
	case "ints":
		return runCase(s, ctx, cInts, vnf, contents, ops, label)
	case "ptr":
		return runCase(s, ctx, cPtr, vnf, contents, ops, label)
	case "string":
		return runCase(s, ctx, cString, vnf, contents, ops, label)
	default:
		return runCase(s, ctx, cStruct, vnf, contents, ops, label)
	}
}

var kinds = []string{"bytes", "map", "ints", "ptr", "string", "struct"}

func parseOps(src string) []op {
	var out []op
	for _, f := range strings.Split(src, ";") {
		w := strings.Fields(f)
		if len(w) == 0 {
			continue
		}
		o := op{kind: w[0]}
		switch w[0] {
		case "read", "cold":
			o.k, _ = strconv.Atoi(w[1])
		case "evict1":
			if len(w) > 1 && w[1] == "pressure" {
				o.v = 1
			}
		case "mutate":
			o.v, _ = strconv.Atoi(w[1])
		case "update":
			o.k, _ = strconv.Atoi(w[1])
			o.v, _ = strconv.Atoi(w[2])
		}
		out = append(out, o)
	}
	return out
}

func gen(p *hx.Prng, vnf bool) []op {
	var ops []op
	ntx := 2 + p.Intn(5)
	for i := 0; i < ntx; i++ {
		ops = append(ops, op{kind: "begin"})
		n := 1 + p.Intn(3)
		for j := 0; j < n; j++ {
			ops = append(ops, op{kind: "read", k: 1 + p.Intn(3)})
			if p.Chance(1, 2) {
				ops = append(ops, op{kind: "mutate", v: 10 + p.Intn(90)})
			}
			if !vnf && p.Chance(1, 4) {
				ops = append(ops, op{kind: "update", k: 1 + p.Intn(3), v: 10 + p.Intn(90)})
			}
		}
		if p.Chance(1, 2) {
			ops = append(ops, op{kind: "commit"})
		} else {
			ops = append(ops, op{kind: "rollback"})
		}
		if p.Chance(1, 6) {
			ops = append(ops, op{kind: "mutate", v: 10 + p.Intn(90)}) // the caller still holds the value after its transaction ended
		}
		// between transactions: the cache tiers lose the node, separately or together
		switch p.Intn(12) {
		case 0:
			ops = append(ops, op{kind: "clear"})
		case 1, 2, 3:
			ops = append(ops, op{kind: "evict1", v: p.Intn(2)})
		case 4:
			ops = append(ops, op{kind: "evict2"})
		case 5:
			ops = append(ops, op{kind: "evicth"})
		case 6:
			ops = append(ops, op{kind: "evict1", v: p.Intn(2)}, op{kind: "evict2"})
		case 7:
			ops = append(ops, op{kind: "evict1", v: p.Intn(2)}, op{kind: "evicth"})
		}
		if p.Chance(1, 5) {
			ops = append(ops, op{kind: "cold", k: 1 + p.Intn(3)})
		}
	}
	return ops
}

func run(o hx.RunOpts) error {
	s := hx.NewSession(o, "one case = one store of three items (value type []byte | map[string]any | []int | *struct | string | struct; values in the node, or in value blobs of an actively persisted store) "+
		"and 2-6 real transactions in one process: read (Find+GetCurrentValue), write through the returned value, update a key, commit/rollback; between transactions the caches are dropped (all; only the L1 node MRU, by dropping or by cache pressure; only the L1 Handles; only L2; combinations) and another, cold process reads; every read's content is diffed with the heap model Sop.Model.Alias "+
		"and judged against the committed contents. distinct = canonical op hash; non-trivial = a read in a later transaction after some in-place mutation, or after a partial eviction that follows an in-place mutation / an uncommitted update")
	ctx := context.Background()
	// directed corpus (DESIGN.md §6 C38 and the Lean witnesses)
	jello := parseOps("begin;read 1;mutate 77;rollback;begin;read 1;commit;begin;read 1;rollback")
	durable := parseOps("begin;read 1;mutate 77;rollback;begin;update 2 55;commit;clear;begin;read 1;rollback")
	// the L1 node entry is evicted while L2 keeps the node (the L2-hit fill must install a COPY): update + rollback,
	// in-place mutation, then a reader of the same process and a cold one; L2 payload with the handle's version
	// (after a blob load) and with a stale one (after a commit); only L2 cleared; both; the Handles cache
	evUpd := parseOps("begin;read 1;rollback;evict1;begin;read 1;update 1 55;rollback;begin;read 1;read 2;rollback;cold 1")
	evUpdP := parseOps("begin;read 1;rollback;evict1 pressure;begin;read 2;update 2 55;read 2;rollback;begin;read 2;rollback;cold 2")
	evMut := parseOps("begin;read 1;rollback;evict1;begin;read 1;mutate 77;rollback;begin;read 1;rollback;cold 1")
	evStale := parseOps("begin;read 1;update 2 44;commit;evict1;begin;read 1;mutate 77;update 3 66;rollback;begin;read 1;read 3;rollback;cold 1")
	evL2 := parseOps("begin;read 1;rollback;evict2;begin;read 1;mutate 77;update 2 55;rollback;begin;read 1;read 2;rollback;cold 1")
	evBoth := parseOps("begin;read 1;rollback;evict1;evict2;begin;read 1;mutate 77;update 2 55;rollback;begin;read 1;read 2;rollback")
	evH := parseOps("begin;read 1;update 2 44;commit;evicth;begin;read 1;update 1 55;rollback;evict1;evicth;begin;read 1;read 2;rollback")
	noUpd := func(ops []op) []op { // the model's update does nothing in a store whose values are fetched
		var out []op
		for _, o := range ops {
			if o.kind != "update" {
				out = append(out, o)
			}
		}
		return out
	}
	for _, k := range kinds {
		for _, c := range []struct {
			label string
			ops   []op
		}{{"corpus-evict1-update-rollback", evUpd}, {"corpus-evict1-pressure-update-rollback", evUpdP}, {"corpus-evict1-mutate", evMut},
			{"corpus-evict1-stale-payload", evStale}, {"corpus-evict2", evL2}, {"corpus-evict1+2", evBoth}, {"corpus-evicth", evH}} {
			if err := dispatch(s, ctx, k, false, [3]int{11, 22, 33}, c.ops, c.label); err != nil {
				return err
			}
			if err := dispatch(s, ctx, k, true, [3]int{11, 22, 33}, noUpd(c.ops), c.label+"-vnf"); err != nil {
				return err
			}
		}
	}
	for _, k := range kinds {
		if err := dispatch(s, ctx, k, false, [3]int{11, 22, 33}, jello, "corpus-jello"); err != nil {
			return err
		}
		if err := dispatch(s, ctx, k, false, [3]int{11, 22, 33}, durable, "corpus-durable"); err != nil {
			return err
		}
		if err := dispatch(s, ctx, k, true, [3]int{11, 22, 33}, jello, "corpus-jello-vnf"); err != nil {
			return err
		}
	}
	p := hx.NewPrng(o.Seed)
	n := o.N(1200, 15000)
	for i := 0; i < n; i++ {
		kind := kinds[i%len(kinds)]
		vnf := p.Chance(1, 3)
		contents := [3]int{10 + p.Intn(90), 10 + p.Intn(90), 10 + p.Intn(90)}
		if err := dispatch(s, ctx, kind, vnf, contents, gen(p, vnf), "gen"); err != nil {
			return fmt.Errorf("case %d: %w", s.CaseNo, err)
		}
	}
	return s.Finish()
}
