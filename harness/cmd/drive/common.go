package main

import (
	"bufio"
	"crypto/sha256"
	"encoding/hex"
	"encoding/json"
	"flag"
	"fmt"
	"os"
	"path/filepath"
	"sort"
	"strings"
)

// ---- PRNG: every random choice of a run derives from one splitmix64 state ----

type prng struct{ s uint64 }

func newPrng(seed uint64) *prng { return &prng{s: seed*0x9E3779B97F4A7C15 + 0x1234567} }

func (p *prng) u64() uint64 {
	p.s += 0x9E3779B97F4A7C15
	z := p.s
	z = (z ^ (z >> 30)) * 0xBF58476D1CE4E5B9
	z = (z ^ (z >> 27)) * 0x94D049BB133111EB
	return z ^ (z >> 31)
}
func (p *prng) intn(n int) int {
	if n <= 0 {
		return 0
	}
	return int(p.u64() % uint64(n))
}
func (p *prng) chance(num, den int) bool { return p.intn(den) < num }
func (p *prng) fork() *prng               { return newPrng(p.u64()) }

// ---- run options common to all drivers ----

type runOpts struct {
	tier   string
	seed   uint64
	out    string
	replay string
	scale  int
}

func parseOpts(args []string) runOpts {
	fs := flag.NewFlagSet("drive", flag.ExitOnError)
	var o runOpts
	fs.StringVar(&o.tier, "tier", "quick", "quick|thorough")
	fs.Uint64Var(&o.seed, "seed", 1, "seed")
	fs.StringVar(&o.out, "out", "", "output directory")
	fs.StringVar(&o.replay, "replay", "", "replay file (ops of one case)")
	fs.IntVar(&o.scale, "scale", 1, "multiply case counts")
	fs.Parse(args)
	if o.out == "" {
		fmt.Fprintln(os.Stderr, "-out required")
		os.Exit(2)
	}
	os.MkdirAll(o.out, 0o755)
	if o.scale < 1 {
		o.scale = 1
	}
	return o
}

func (o runOpts) thorough() bool { return o.tier == "thorough" }

// n picks the case count for the tier.
func (o runOpts) n(quick, thorough int) int {
	if o.thorough() {
		return thorough * o.scale
	}
	return quick * o.scale
}

// ---- the line protocol: ops.txt goes to the Lean driver, impl.txt is what the real code answered ----

type oracleFailure struct {
	Signature string   `json:"signature"`
	What      string   `json:"what"`
	Case      int      `json:"case"`
	Ops       []string `json:"ops,omitempty"`
	Detail    string   `json:"detail,omitempty"`
}

type report struct {
	Evaluations        int              `json:"evaluations"`
	DistinctNontrivial int              `json:"distinct_nontrivial"`
	Rule               string           `json:"rule"`
	Samples            [][]string       `json:"samples"`
	Histogram          map[string]int   `json:"histogram"`
	OracleFailures     []oracleFailure  `json:"oracle_failures"`
	Notes              []string         `json:"notes,omitempty"`
	Exhaustive         bool             `json:"exhaustive,omitempty"`
	CoverageGap        []string         `json:"coverage_gap,omitempty"`
	Extra              map[string]any   `json:"extra,omitempty"`
}

type session struct {
	o        runOpts
	ops      *bufio.Writer
	impl     *bufio.Writer
	fops     *os.File
	fimpl    *os.File
	rep      report
	seen     map[string]bool
	caseNo   int
	curOps   []string
	curNontr bool
	maxSamp  int
}

func newSession(o runOpts, rule string) *session {
	fo, err := os.Create(filepath.Join(o.out, "ops.txt"))
	if err != nil {
		panic(err)
	}
	fi, err := os.Create(filepath.Join(o.out, "impl.txt"))
	if err != nil {
		panic(err)
	}
	return &session{o: o, fops: fo, fimpl: fi, ops: bufio.NewWriterSize(fo, 1<<20), impl: bufio.NewWriterSize(fi, 1<<20),
		rep: report{Rule: rule, Histogram: map[string]int{}}, seen: map[string]bool{}, maxSamp: 3}
}

// beginCase starts case n; header carries the per-case configuration for the model.
func (s *session) beginCase(header string) {
	s.endCase()
	s.caseNo++
	s.curOps = s.curOps[:0]
	s.curNontr = false
	line := fmt.Sprintf("case %d %s", s.caseNo, header)
	line = strings.TrimRight(line, " ")
	fmt.Fprintln(s.ops, line)
	fmt.Fprintf(s.impl, "case %d\n", s.caseNo)
	s.curOps = append(s.curOps, line)
}

// op records one operation line and what the implementation answered.
func (s *session) op(opLine, implOut string) {
	if strings.ContainsAny(opLine, "\n\r") || strings.ContainsAny(implOut, "\n\r") {
		panic("newline in protocol line: " + opLine + " / " + implOut)
	}
	fmt.Fprintln(s.ops, opLine)
	fmt.Fprintln(s.impl, implOut)
	s.curOps = append(s.curOps, opLine)
}

func (s *session) hit(k string)         { s.rep.Histogram[k]++ }
func (s *session) hitN(k string, n int) { s.rep.Histogram[k] += n }
func (s *session) nontrivial()          { s.curNontr = true }

func (s *session) fail(sig, what, detail string) {
	ops := append([]string(nil), s.curOps...)
	if len(s.rep.OracleFailures) < 200 {
		s.rep.OracleFailures = append(s.rep.OracleFailures, oracleFailure{Signature: sig, What: what, Case: s.caseNo, Ops: ops, Detail: detail})
	}
	s.hit("oracle_fail:" + sig)
}

func (s *session) endCase() {
	if s.caseNo == 0 || s.curOps == nil || len(s.curOps) == 0 {
		return
	}
	s.rep.Evaluations++
	h := sha256.New()
	for i, l := range s.curOps {
		if i == 0 {
			// drop the case number from the hash
			parts := strings.SplitN(l, " ", 3)
			if len(parts) == 3 {
				l = parts[2]
			} else {
				l = ""
			}
		}
		h.Write([]byte(l))
		h.Write([]byte{'\n'})
	}
	key := hex.EncodeToString(h.Sum(nil)[:12])
	if !s.seen[key] {
		s.seen[key] = true
		if s.curNontr {
			s.rep.DistinctNontrivial++
			if len(s.rep.Samples) < s.maxSamp {
				smp := append([]string(nil), s.curOps...)
				if len(smp) > 40 {
					smp = append(smp[:40], fmt.Sprintf("… (%d more lines)", len(s.curOps)-40))
				}
				s.rep.Samples = append(s.rep.Samples, smp)
			}
		}
	}
	s.curOps = s.curOps[:0]
}

func (s *session) finish() error {
	s.endCase()
	s.ops.Flush()
	s.impl.Flush()
	s.fops.Close()
	s.fimpl.Close()
	keys := make([]string, 0, len(s.rep.Histogram))
	for k := range s.rep.Histogram {
		keys = append(keys, k)
	}
	sort.Strings(keys)
	b, err := json.MarshalIndent(s.rep, "", " ")
	if err != nil {
		return err
	}
	return os.WriteFile(filepath.Join(s.o.out, "report.json"), b, 0o644)
}

// readReplay returns the op lines of a replay file: either a JSON object with an "ops" array or plain lines.
func readReplay(path string) ([]string, error) {
	b, err := os.ReadFile(path)
	if err != nil {
		return nil, err
	}
	var obj struct {
		Ops []string `json:"ops"`
	}
	if json.Unmarshal(b, &obj) == nil && len(obj.Ops) > 0 {
		return obj.Ops, nil
	}
	var out []string
	for _, l := range strings.Split(string(b), "\n") {
		l = strings.TrimRight(l, "\r")
		if l != "" && !strings.HasPrefix(l, "#") {
			out = append(out, l)
		}
	}
	return out, nil
}

func hexb(b []byte) string { return hex.EncodeToString(b) }

// workRoot is where scratch directories go: $VERIF_WORK (set by ./check) or the OS temp dir.
func workRoot() string {
	if w := os.Getenv("VERIF_WORK"); w != "" {
		os.MkdirAll(w, 0o755)
		return w
	}
	return os.TempDir()
}
