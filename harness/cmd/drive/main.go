package main

import (
	"fmt"
	"os"
	"sort"
)

// driver is one property's entry point. args are the remaining command-line arguments.
type driver func(args []string) error

var drivers = map[string]driver{}

func register(id string, d driver) { drivers[id] = d }

func main() {
	if len(os.Args) < 2 {
		ids := make([]string, 0, len(drivers))
		for id := range drivers {
			ids = append(ids, id)
		}
		sort.Strings(ids)
		fmt.Fprintln(os.Stderr, "usage: drive <id> [args]; ids:", ids)
		os.Exit(2)
	}
	d, ok := drivers[os.Args[1]]
	if !ok {
		fmt.Fprintln(os.Stderr, "unknown driver", os.Args[1])
		os.Exit(2)
	}
	if err := d(os.Args[2:]); err != nil {
		fmt.Fprintln(os.Stderr, "drive:", err)
		os.Exit(3)
	}
}
