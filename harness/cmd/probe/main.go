package main

import (
	"context"
	"fmt"
	"os"
	"path/filepath"
	"time"

	"github.com/sharedcode/sop"

	"verifharness/txk"
)

func main() {
	ctx := context.Background()
	dir, _ := os.MkdirTemp("", "probe-")
	defer os.RemoveAll(dir)
	e := txk.NewEnv(dir, 3)
	t, _ := e.NewTxn(ctx, sop.ForWriting, time.Minute, nil)
	t.T.Begin(ctx)
	so := e.StoreOpts("s1", 8, true)
	so.IsValueDataInNodeSegment = false
	b, err := txk.NewBtree[int, string](ctx, t, so)
	if err != nil {
		panic(err)
	}
	for i := 1; i <= 3; i++ {
		b.Add(ctx, i, fmt.Sprint("v", i))
	}
	fmt.Println("commit:", t.T.Commit(ctx))
	for _, f := range txk.ListFiles(dir) {
		ba, _ := os.ReadFile(filepath.Join(dir, f))
		if len(ba) < 600 {
			fmt.Println(f, string(ba))
		} else {
			fmt.Println(f, len(ba))
		}
	}
}
