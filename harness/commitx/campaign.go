package commitx

import (
	"context"
	"fmt"
	"os"

	"verifharness/hx"
	"verifharness/txk"
)

// Campaign runs generated programs, each fault-free and then once per (backend call of Commit, fault kind),
// emits every run as a Model P case and reports the failures of property `prop` found by the direct oracle.
func Campaign(o hx.RunOpts, prop string, rule string) error {
	ctx := context.Background()
	p := hx.NewPrng(o.Seed)
	s := hx.NewSession(o, rule)
	nprog := o.N(8, 80)
	for i := 0; i < nprog; i++ {
		pr := Gen(p.Fork())
		base, err := Run(ctx, pr, "", 0, txk.None, false)
		if err != nil {
			return err
		}
		if base.SetupErr != nil || base.Res.OpenErr != nil {
			fmt.Fprintln(os.Stderr, "skip program:", base.SetupErr)
			s.Hit("skipped_program")
			continue
		}
		emitAndJudge(ctx, s, base, prop, pr.Header()+" nofault")
		calls := CommitCalls(base.Res)
		occ := map[string]int{}
		for ci, name := range calls {
			occ[name]++
			for _, kind := range []txk.Fault{txk.FailBefore, txk.FailAfter} {
				// quick tier: every call of the first programs, then a sample
				if !o.Thorough() && i >= 3 && (ci+int(kind))%3 != i%3 {
					continue
				}
				ob, err := Run(ctx, pr, name, occ[name], kind, true)
				if err != nil {
					return err
				}
				emitAndJudge(ctx, s, ob, prop, fmt.Sprintf("%s %s#%d:%v", pr.Header(), name, occ[name], kind))
			}
		}
	}
	return s.Finish()
}

// EmitAndJudge: one run of the commit campaign replayed on Model P and judged for one property
func EmitAndJudge(ctx context.Context, s *hx.Session, ob *Obs, prop, header string) { emitAndJudge(ctx, s, ob, prop, header) }

func emitAndJudge(ctx context.Context, s *hx.Session, ob *Obs, prop, header string) {
	if ob.Panic != "" && (ob.Res == nil || ob.Res.OpenErr != nil) {
		s.BeginCase(header + " PANIC")
		s.Hit("panic")
		for _, f := range Judge(ob) {
			if f.Prop == prop {
				s.Fail(f.Sig, f.What, f.Detail)
			}
		}
		return
	}
	Emit(ctx, s, ob, header)
	s.Hit("runs")
	if ob.FaultName != "" {
		s.Hit("fault:" + ob.FaultName)
		s.Hit(fmt.Sprintf("fault_step:%d", ob.StepAtFault()))
		s.Nontrivial()
	}
	if ob.Res.CommitErr != nil {
		s.Hit("commit_err")
	} else {
		s.Hit("commit_ok")
	}
	for _, n := range ob.Res.WriteSet {
		s.Hit("ws:" + n.Action)
	}
	if len(ob.Prog.Slot) > 1 {
		s.Hit("multi_store")
	}
	for _, f := range Judge(ob) {
		if f.Prop == prop {
			s.Fail(f.Sig, f.What, f.Detail)
		}
	}
}
