// Package commitx runs generated transaction programs against the real commit code (through txk) with one
// injected fault per run, and observes everything C01/C07/C10/C11 speak about: the commit result, the
// stores as a cold reader sees them, whether the same changes then commit, what is left in the registry,
// the blob folders and the log folders, and the trace of backend calls (which Model P must reproduce).
package commitx

import (
	"context"
	"encoding/json"
	"fmt"
	"os"
	"path/filepath"
	"sort"
	"strings"
	"time"

	"github.com/sharedcode/sop"
	"github.com/sharedcode/sop/btree"
	"github.com/sharedcode/sop/common"
	"github.com/sharedcode/sop/encoding"
	"github.com/sharedcode/sop/fs"

	"verifharness/hx"
	"verifharness/txk"
)

// Op is one B-tree operation of a program.
type Op struct {
	Store int
	Kind  string // add | upd | rm | get
	Key   int
	Val   string
}

func (o Op) String() string { return fmt.Sprintf("s%d.%s(%d)", o.Store, o.Kind, o.Key) }

// Program: stores with their slot lengths, setup transactions (committed fault-free first), then the target
// transaction.
type Program struct {
	Slot    []int  // per store
	Exists  []bool // store created during setup (true) or by the target transaction (false)
	Setup   [][]Op // setup transactions
	Target  []Op
	SepVals bool // values in a separate segment
	Sep     []bool // per store, overrides SepVals when set: stores of both placements in one transaction
	API     int  // rotates which public call performs an update / a remove (see applyOps)
}

func (p Program) Header() string {
	var ss []string
	for i := range p.Slot {
		ss = append(ss, fmt.Sprintf("s%d:slot%d:%v", i, p.Slot[i], p.Exists[i]))
	}
	return strings.Join(ss, ",")
}

func storeName(i int) string { return fmt.Sprintf("st%d", i) }

func (p Program) sep(i int) bool {
	if p.Sep != nil {
		return p.Sep[i]
	}
	return p.SepVals
}

// Gen makes a program. Shapes are chosen so that new stores, first roots, splits, node removals, fetched-only
// nodes and multi-store commits are all common.
func Gen(p *hx.Prng) Program {
	switch p.Intn(7) {
	case 0:
		return genRemoveHeavy(p)
	case 1:
		return genReadWrite(p)
	case 2:
		return genPlacements(p)
	}
	return genMixed(p)
}

// genPlacements: one transaction over two or three stores of DIFFERENT value placements (values in the node /
// in their own segment), opened in either order, writing to each of them.
func genPlacements(p *hx.Prng) Program {
	var pr Program
	ns := 2 + p.Intn(2)
	first := p.Chance(1, 2)
	for i := 0; i < ns; i++ {
		pr.Slot = append(pr.Slot, []int{2, 4}[p.Intn(2)])
		pr.Exists = append(pr.Exists, p.Chance(5, 6))
		pr.Sep = append(pr.Sep, (i%2 == 0) == first)
	}
	var ops []Op
	for i := 0; i < ns; i++ {
		if !pr.Exists[i] {
			continue
		}
		n := 2 + p.Intn(6)
		for j := 0; j < n; j++ {
			ops = append(ops, Op{i, "add", j * 2, fmt.Sprintf("v%d", j)})
		}
	}
	pr.Setup = [][]Op{ops}
	// target: every store in index order (so the opening order is the placement order), then a few more anywhere
	for i := 0; i < ns; i++ {
		switch p.Intn(3) {
		case 0:
			pr.Target = append(pr.Target, Op{i, "add", 1 + 2*p.Intn(6), fmt.Sprintf("w%d", i)})
		case 1:
			pr.Target = append(pr.Target, Op{i, "upd", 2 * p.Intn(3), fmt.Sprintf("u%d", i)})
		default:
			pr.Target = append(pr.Target, Op{i, "add", 1 + 2*p.Intn(6), fmt.Sprintf("w%d", i)}, Op{i, "upd", 2 * p.Intn(3), fmt.Sprintf("u%d", i)})
		}
	}
	for j := 0; j < p.Intn(4); j++ {
		pr.Target = append(pr.Target, Op{p.Intn(ns), []string{"add", "upd", "rm", "get"}[p.Intn(4)], p.Intn(12), fmt.Sprintf("x%d", j)})
	}
	return pr
}

// genRemoveHeavy: a slot-2 tree filled in ascending order (many sparsely filled leaves), then a transaction that
// removes runs of neighbouring keys so that leaves empty out and nodes are removed.
func genRemoveHeavy(p *hx.Prng) Program {
	pr := Program{Slot: []int{2}, Exists: []bool{true}}
	n := 8 + p.Intn(10)
	var ops []Op
	for k := 0; k < n; k++ {
		ops = append(ops, Op{0, "add", k, fmt.Sprintf("v%d", k)})
	}
	if p.Chance(1, 2) {
		h := len(ops) / 2
		pr.Setup = [][]Op{ops[:h], ops[h:]}
	} else {
		pr.Setup = [][]Op{ops}
	}
	start := p.Intn(n - 3)
	cnt := 2 + p.Intn(4)
	for k := start; k < start+cnt && k < n; k++ {
		pr.Target = append(pr.Target, Op{0, "rm", k, ""})
	}
	if p.Chance(1, 3) {
		pr.Target = append(pr.Target, Op{0, "add", n + 1, "w"})
	}
	return pr
}

// genReadWrite: reads of existing keys in some leaves (fetched-only nodes) plus a write elsewhere.
func genReadWrite(p *hx.Prng) Program {
	slot := []int{2, 4}[p.Intn(2)]
	pr := Program{Slot: []int{slot}, Exists: []bool{true}}
	n := 8 + p.Intn(8)
	var ops []Op
	for k := 0; k < n; k++ {
		ops = append(ops, Op{0, "add", k * 2, fmt.Sprintf("v%d", k)})
	}
	pr.Setup = [][]Op{ops}
	for j := 0; j < 1+p.Intn(3); j++ {
		pr.Target = append(pr.Target, Op{0, "get", p.Intn(n) * 2, ""})
	}
	switch p.Intn(3) {
	case 0:
		pr.Target = append(pr.Target, Op{0, "upd", p.Intn(n) * 2, "u"})
	case 1:
		pr.Target = append(pr.Target, Op{0, "add", p.Intn(n)*2 + 1, "w"})
	default:
		pr.Target = append(pr.Target, Op{0, "rm", p.Intn(n) * 2, ""})
	}
	return pr
}

func genMixed(p *hx.Prng) Program {
	var pr Program
	ns := 1
	if p.Chance(1, 3) {
		ns = 2
	}
	for i := 0; i < ns; i++ {
		pr.Slot = append(pr.Slot, []int{2, 2, 4}[p.Intn(3)])
		pr.Exists = append(pr.Exists, p.Chance(3, 4))
	}
	pr.SepVals = p.Chance(1, 5)
	// setup: 0..2 transactions filling the existing stores
	nsetup := p.Intn(3)
	for t := 0; t < nsetup; t++ {
		var ops []Op
		for i := 0; i < ns; i++ {
			if !pr.Exists[i] {
				continue
			}
			n := p.Intn(9)
			for j := 0; j < n; j++ {
				ops = append(ops, Op{i, "add", p.Intn(24), fmt.Sprintf("v%d", p.Intn(100))})
			}
			if t > 0 && p.Chance(1, 2) {
				ops = append(ops, Op{i, "rm", p.Intn(24), ""})
			}
		}
		pr.Setup = append(pr.Setup, ops)
	}
	// target
	n := 1 + p.Intn(7)
	style := p.Intn(5)
	for j := 0; j < n; j++ {
		st := p.Intn(ns)
		k := p.Intn(24)
		switch {
		case style == 0: // adds only
			pr.Target = append(pr.Target, Op{st, "add", k, fmt.Sprintf("w%d", j)})
		case style == 1: // removes heavy
			if p.Chance(2, 3) {
				pr.Target = append(pr.Target, Op{st, "rm", k, ""})
			} else {
				pr.Target = append(pr.Target, Op{st, "add", k, fmt.Sprintf("w%d", j)})
			}
		case style == 2: // updates + reads
			if p.Chance(1, 2) {
				pr.Target = append(pr.Target, Op{st, "upd", k, fmt.Sprintf("u%d", j)})
			} else {
				pr.Target = append(pr.Target, Op{st, "get", k, ""})
			}
		default:
			pr.Target = append(pr.Target, Op{st, []string{"add", "add", "rm", "upd", "get"}[p.Intn(5)], k, fmt.Sprintf("x%d", j)})
		}
	}
	return pr
}

// Dump is what a cold reader sees: per existing store, count and items in scan order.
type Dump map[string]StoreDump
type StoreDump struct {
	Count int64
	Items []string // "k=v"
}

func (d Dump) String() string {
	var names []string
	for n := range d {
		names = append(names, n)
	}
	sort.Strings(names)
	var out []string
	for _, n := range names {
		out = append(out, fmt.Sprintf("%s#%d{%s}", n, d[n].Count, strings.Join(d[n].Items, " ")))
	}
	return strings.Join(out, ";")
}

// ReadAll dumps every store the way a freshly started other process sees them (cold caches); this process's
// caches and lock table are left as they are.
func ReadAll(ctx context.Context, e *txk.Env) (Dump, error) {
	var d Dump
	err := e.AsOtherProcess(func(o *txk.Env) error {
		var err error
		d, err = readAllHere(ctx, o)
		return err
	})
	return d, err
}

func readAllHere(ctx context.Context, e *txk.Env) (Dump, error) {
	t, err := e.NewTxn(ctx, sop.ForReading, time.Minute, nil)
	if err != nil {
		return nil, err
	}
	if err := t.T.Begin(ctx); err != nil {
		return nil, err
	}
	defer t.T.Rollback(ctx)
	names, err := t.P.GetStores(ctx)
	if err != nil {
		return nil, err
	}
	d := Dump{}
	for _, n := range names {
		b, err := txk.OpenBtree[int, string](ctx, t, n)
		if err != nil {
			return nil, fmt.Errorf("open %s: %w", n, err)
		}
		items, err := scan(ctx, b)
		if err != nil {
			return nil, fmt.Errorf("scan %s: %w", n, err)
		}
		d[n] = StoreDump{Count: b.Count(), Items: items}
	}
	return d, nil
}

func scan(ctx context.Context, b btree.BtreeInterface[int, string]) ([]string, error) {
	var items []string
	ok, err := b.First(ctx)
	for ok && err == nil {
		k := b.GetCurrentKey().Key
		v, verr := b.GetCurrentValue(ctx)
		if verr != nil {
			return nil, verr
		}
		items = append(items, fmt.Sprintf("%d=%s", k, v))
		ok, err = b.Next(ctx)
	}
	return items, err
}

// Result of running the target transaction once.
type Result struct {
	CommitErr   error
	OpenErr     error
	Expected    Dump // the transaction's own view right before Commit (nil if it could not be taken)
	WriteSet    []common.VerifNode
	Deltas      [][3]any
	Script      *txk.Script
	CommitStart int                   // index of the first call made by Commit
	N0          int                   // canonical ids named before Commit began
	Items       [][3]any              // per store: name, hasTrackedItems, non-add tracked items
	WriteItems  map[string]int        // per store: tracked items with an update/remove action
	Values      map[string][]sop.UUID // per store: ids of the separate-segment value blobs the commit will write
	OpResults   []string
}

func applyOps(ctx context.Context, t *txk.Txn, pr Program, ops []Op, e *txk.Env) (map[int]btree.BtreeInterface[int, string], []string, error) {
	bs := map[int]btree.BtreeInterface[int, string]{}
	var res []string
	for opi, o := range ops {
		b, ok := bs[o.Store]
		if !ok {
			so := e.StoreOpts(storeName(o.Store), pr.Slot[o.Store], true)
			if pr.sep(o.Store) {
				so.IsValueDataInNodeSegment = false
			}
			var err error
			b, err = txk.NewBtree[int, string](ctx, t, so) // opens when it exists, creates otherwise
			if err != nil {
				return bs, res, err
			}
			bs[o.Store] = b
		}
		var ok2 bool
		var err error
		switch o.Kind {
		case "add":
			ok2, err = b.Add(ctx, o.Key, o.Val)
		case "upd":
			// the public ways to update an item, chosen by position and key: they must be indistinguishable to everybody else
			switch (opi + o.Key/2 + pr.API) % 3 {
			case 1:
				if ok2, err = b.Find(ctx, o.Key, false); ok2 && err == nil {
					ok2, err = b.UpdateCurrentValue(ctx, o.Val)
				}
			case 2:
				if ok2, err = b.Find(ctx, o.Key, false); ok2 && err == nil {
					ok2, err = b.UpdateCurrentItem(ctx, o.Key, o.Val)
				}
			default:
				ok2, err = b.Update(ctx, o.Key, o.Val)
			}
		case "rm":
			if (opi+o.Key/2+pr.API)%2 == 1 {
				if ok2, err = b.Find(ctx, o.Key, false); ok2 && err == nil {
					ok2, err = b.RemoveCurrentItem(ctx)
				}
			} else {
				ok2, err = b.Remove(ctx, o.Key)
			}
		case "get":
			ok2, err = b.Find(ctx, o.Key, false)
			if ok2 && err == nil {
				_, err = b.GetCurrentValue(ctx)
			}
		}
		if err != nil {
			return bs, res, fmt.Errorf("%v: %w", o, err)
		}
		res = append(res, fmt.Sprint(ok2))
	}
	return bs, res, nil
}

// RunSetup commits the setup transactions fault-free.
func RunSetup(ctx context.Context, e *txk.Env, pr Program) error {
	// create the stores that exist beforehand (even if empty)
	t, err := e.NewTxn(ctx, sop.ForWriting, time.Minute, nil)
	if err != nil {
		return err
	}
	if err := t.T.Begin(ctx); err != nil {
		return err
	}
	for i := range pr.Slot {
		if pr.Exists[i] {
			so := e.StoreOpts(storeName(i), pr.Slot[i], true)
			if pr.sep(i) {
				so.IsValueDataInNodeSegment = false
			}
			if _, err := txk.NewBtree[int, string](ctx, t, so); err != nil {
				return err
			}
		}
	}
	if err := t.T.Commit(ctx); err != nil {
		return err
	}
	for _, ops := range pr.Setup {
		if len(ops) == 0 {
			continue
		}
		t, err := e.NewTxn(ctx, sop.ForWriting, time.Minute, nil)
		if err != nil {
			return err
		}
		if err := t.T.Begin(ctx); err != nil {
			return err
		}
		if _, _, err := applyOps(ctx, t, pr, ops, e); err != nil {
			return err
		}
		if err := t.T.Commit(ctx); err != nil {
			return fmt.Errorf("setup commit: %w", err)
		}
	}
	return nil
}

// RunTarget runs the target transaction with the given script (faults already set) and commits it.
func RunTarget(ctx context.Context, e *txk.Env, pr Program, sc *txk.Script) (*Result, error) {
	return runTargetArmed(ctx, e, pr, sc, nil, func() {})
}

// ---- disk state ----

// DiskState is what is physically left in a store folder.
type DiskState struct {
	Handles   map[string][]sop.Handle // registry table -> handles found in segment files (non-nil lids)
	BlobFiles map[string][]sop.UUID   // store folder -> blob file ids
	TLogs     []string
	PLogs     []string
}

// ReadDisk decodes every registry segment file and lists blob and log files.
func ReadDisk(dir string) (*DiskState, error) {
	ds := &DiskState{Handles: map[string][]sop.Handle{}, BlobFiles: map[string][]sop.UUID{}}
	bsz := fs.VerifBlockSize()
	hp := fs.VerifHandlesPerBlock()
	m := encoding.NewHandleMarshaler()
	for _, f := range txk.ListFiles(dir) {
		parts := strings.Split(f, string(os.PathSeparator))
		base := parts[len(parts)-1]
		switch {
		case strings.HasSuffix(base, ".reg"):
			raw, err := os.ReadFile(filepath.Join(dir, f))
			if err != nil {
				return nil, err
			}
			table := parts[0]
			for off := 0; off+bsz <= len(raw); off += bsz {
				for s := 0; s < hp; s++ {
					rec := raw[off+s*sop.HandleSizeInBytes : off+(s+1)*sop.HandleSizeInBytes]
					var h sop.Handle
					if err := m.Unmarshal(rec, &h); err == nil && !h.LogicalID.IsNil() {
						ds.Handles[table] = append(ds.Handles[table], h)
					}
				}
			}
		case strings.HasSuffix(base, ".log"):
			ds.TLogs = append(ds.TLogs, f)
		case strings.HasSuffix(base, ".plg"):
			ds.PLogs = append(ds.PLogs, f)
		default:
			if u, err := sop.ParseUUID(base); err == nil && len(parts) > 2 {
				ds.BlobFiles[parts[0]] = append(ds.BlobFiles[parts[0]], u)
			}
		}
	}
	return ds, nil
}

// nodeRefs extracts the child logical ids and the out-of-node value ids from a node blob (JSON).
func nodeRefs(blob []byte) (children []sop.UUID, values []sop.UUID, err error) {
	var n struct {
		ChildrenIDs []sop.UUID `json:"ChildrenIDs"`
		Slots       []struct {
			ID              sop.UUID `json:"ID"`
			ValueNeedsFetch bool     `json:"ValueNeedsFetch"`
		} `json:"Slots"`
		Count int `json:"Count"`
	}
	if err = json.Unmarshal(blob, &n); err != nil {
		return
	}
	for _, c := range n.ChildrenIDs {
		if !c.IsNil() {
			children = append(children, c)
		}
	}
	for i, s := range n.Slots {
		if i < n.Count && s.ValueNeedsFetch {
			values = append(values, s.ID)
		}
	}
	return
}

// Reach walks every store from its root using the registry files and blob files only (no caches, no B-tree
// code) and reports: reachable logical ids, referenced blob ids, and load problems (dangling references).
type Reach struct {
	Lids     map[sop.UUID]bool
	BlobIDs  map[sop.UUID]bool
	Problems []string
}

func Walk(ctx context.Context, e *txk.Env, ds *DiskState) (*Reach, error) {
	r := &Reach{Lids: map[sop.UUID]bool{}, BlobIDs: map[sop.UUID]bool{}}
	t, err := e.NewTxn(ctx, sop.ForReading, time.Minute, nil)
	if err != nil {
		return nil, err
	}
	names, err := t.P.GetStores(ctx)
	if err != nil {
		return nil, err
	}
	sis, err := t.P.StoreRepository.Get(ctx, names...)
	if err != nil {
		return nil, err
	}
	bs := fs.NewBlobStore(e.Dir, nil, nil)
	for _, si := range sis {
		hs := map[sop.UUID]sop.Handle{}
		for _, h := range ds.Handles[si.RegistryTable] {
			hs[h.LogicalID] = h
		}
		var visit func(lid sop.UUID)
		visit = func(lid sop.UUID) {
			if r.Lids[lid] {
				return
			}
			h, ok := hs[lid]
			if !ok {
				if lid != si.RootNodeID {
					r.Problems = append(r.Problems, fmt.Sprintf("%s: child %s has no registry entry", si.Name, e.Canon.ID(lid)))
				}
				return
			}
			r.Lids[lid] = true
			act := h.GetActiveID()
			r.BlobIDs[act] = true
			ba, err := bs.GetOne(ctx, si.BlobTable, act)
			if err != nil {
				r.Problems = append(r.Problems, fmt.Sprintf("%s: node %s active blob %s missing", si.Name, e.Canon.ID(lid), e.Canon.ID(act)))
				return
			}
			ch, vals, err := nodeRefs(ba)
			if err != nil {
				r.Problems = append(r.Problems, fmt.Sprintf("%s: node %s blob undecodable: %v", si.Name, e.Canon.ID(lid), err))
				return
			}
			for _, v := range vals {
				r.BlobIDs[v] = true
				if _, err := bs.GetOne(ctx, si.BlobTable, v); err != nil {
					r.Problems = append(r.Problems, fmt.Sprintf("%s: value blob %s missing", si.Name, e.Canon.ID(v)))
				}
			}
			for _, c := range ch {
				visit(c)
			}
		}
		visit(si.RootNodeID)
	}
	return r, nil
}

// ---- one observed run ----

// Obs is everything observed about one (program, fault) run.
type Obs struct {
	Prog       Program
	FaultName  string // call class, e.g. reg.UpdateNoLocks
	FaultOcc   int    // occurrence (1-based) of that class since Commit began; 0 = no fault
	FaultKind  txk.Fault
	Before     Dump
	After      Dump
	Res        *Result
	RetryErr   error  // result of committing the same changes again with no faults (only when the first commit failed)
	Panic      string // the code under test panicked (in the target transaction or in the retry)
	RetryDone  bool
	Retry      *Result
	AfterRetry Dump
	Disk       *DiskState
	Reach      *Reach
	Trace      []string // calls made by Commit (from CommitStart on)
	RetryTrace []string
	Pre        *DiskState // disk before the target transaction
	PreReach   *Reach
	Env        *txk.Env
	N0         int        // canonical ids named before Commit began
	PostCommit *DiskState // disk right after the target commit (before any retry)
	PostCounts map[string]int64
	SetupErr   error
	Elapsed    time.Duration
}

// safely runs f, turning a panic of the code under test into a nil result and a recorded message.
func safely(f func() (*Result, error), msg *string) (r *Result, err error) {
	defer func() {
		if x := recover(); x != nil {
			*msg = fmt.Sprint(x)
			r, err = nil, nil
		}
	}()
	return f()
}

// CommitCalls lists the call classes made during a fault-free commit of the program, in order.
func CommitCalls(r *Result) []string {
	var out []string
	for _, c := range r.Script.Calls {
		if c.Idx >= r.CommitStart {
			out = append(out, c.Name)
		}
	}
	return out
}

// Run executes the program in a fresh folder with one fault (faultName=="" for none).
func Run(ctx context.Context, pr Program, faultName string, faultOcc int, kind txk.Fault, retry bool) (*Obs, error) {
	dir, err := os.MkdirTemp(hx.WorkRoot(), "cx-")
	if err != nil {
		return nil, err
	}
	defer os.RemoveAll(dir)
	t0 := time.Now()
	o := &Obs{Prog: pr, FaultName: faultName, FaultOcc: faultOcc, FaultKind: kind}
	e := txk.NewEnv(dir, 3)
	e.ColdRestart()
	if err := RunSetup(ctx, e, pr); err != nil {
		o.SetupErr = err
		return o, nil
	}
	if o.Before, err = ReadAll(ctx, e); err != nil {
		return nil, fmt.Errorf("before dump: %w", err)
	}
	if o.Pre, err = ReadDisk(dir); err != nil {
		return nil, err
	}
	if o.PreReach, err = Walk(ctx, e, o.Pre); err != nil {
		o.PreReach = &Reach{Lids: map[sop.UUID]bool{}, BlobIDs: map[sop.UUID]bool{}}
	}
	o.Env = e
	e.ColdRestart()
	sc := txk.NewScript(e.Canon)
	armed := false
	seen := map[string]int{}
	sc.FaultOn = func(idx int, name string) txk.Fault {
		if !armed || faultName == "" {
			return txk.None
		}
		seen[name]++
		if name == faultName && seen[name] == faultOcc {
			return kind
		}
		return txk.None
	}
	sc.Gate = nil
	// arm the fault counter when Commit starts: RunTarget records CommitStart = N()+1, so arm via a wrapper
	res, err := safely(func() (*Result, error) { return runTargetArmed(ctx, e, pr, sc, o.Pre, func() { armed = true }) }, &o.Panic)
	if err != nil {
		return nil, err
	}
	if res == nil {
		// the transaction under test panicked: keep what is known so the oracle can report it with the input
		res = &Result{Script: sc, OpenErr: fmt.Errorf("panic: %s", o.Panic)}
		o.Res = res
		return o, nil
	}
	o.Res = res
	for _, c := range sc.Calls {
		if c.Idx >= res.CommitStart {
			o.Trace = append(o.Trace, c.String())
		}
	}
	if o.PostCommit, err = ReadDisk(dir); err != nil {
		return nil, err
	}
	if o.After, err = ReadAll(ctx, e); err != nil {
		o.After = Dump{"<unreadable>": StoreDump{Items: []string{err.Error()}}}
	}
	o.PostCounts = map[string]int64{}
	for n, sd := range o.After {
		if strings.HasPrefix(n, "st") {
			o.PostCounts[n] = sd.Count
		}
	}
	if retry && res.OpenErr == nil && res.CommitErr != nil {
		// the later transaction runs in the SAME process: whatever the failed one left in the caches and lock
		// tables is still there, and no clock is advanced
		o.RetryDone = true
		sc2 := txk.NewScript(e.Canon)
		r2, err := safely(func() (*Result, error) { return RunTarget(ctx, e, pr, sc2) }, &o.Panic)
		if err != nil {
			return nil, err
		}
		if r2 == nil {
			r2 = &Result{Script: sc2, OpenErr: fmt.Errorf("panic: %s", o.Panic)}
		}
		for _, c := range sc2.Calls {
			if c.Idx >= r2.CommitStart {
				o.RetryTrace = append(o.RetryTrace, c.String())
			}
		}
		o.Retry = r2
		if r2.OpenErr != nil {
			o.RetryErr = r2.OpenErr
		} else {
			o.RetryErr = r2.CommitErr
		}
		if o.AfterRetry, err = ReadAll(ctx, e); err != nil {
			o.AfterRetry = Dump{"<unreadable>": StoreDump{Items: []string{err.Error()}}}
		}
	}
	if o.Disk, err = ReadDisk(dir); err != nil {
		return nil, err
	}
	if o.Reach, err = Walk(ctx, e, o.Disk); err != nil {
		o.Reach = &Reach{Problems: []string{"walk failed: " + err.Error()}}
	}
	o.Elapsed = time.Since(t0)
	return o, nil
}

func runTargetArmed(ctx context.Context, e *txk.Env, pr Program, sc *txk.Script, pre *DiskState, arm func()) (*Result, error) {
	r := &Result{Script: sc}
	t, err := e.NewTxn(ctx, sop.ForWriting, time.Minute, sc)
	if err != nil {
		return nil, err
	}
	if err := t.T.Begin(ctx); err != nil {
		return nil, err
	}
	bs, res, err := applyOps(ctx, t, pr, pr.Target, e)
	r.OpResults = res
	if err != nil {
		r.OpenErr = err
		t.T.Rollback(ctx)
		return r, nil
	}
	// Expected is derived from the results the B-tree itself reported for each operation (no scan inside the
	// transaction: a scan would turn every item into a tracked read)
	exp := Dump{}
	for i, b := range bs {
		exp[storeName(i)] = StoreDump{Count: b.Count()}
	}
	r.Expected = exp
	r.WriteSet = common.VerifWriteSet(t.P)
	r.Deltas = common.VerifCountDeltas(t.P)
	r.Items = common.VerifItemCounts(t.P)
	r.WriteItems = common.VerifWriteItemCounts(t.P)
	r.Values = common.VerifValueIDs(t.P)
	// name every id the commit can touch, in a fixed order, before Commit begins
	nameWriteSet(e, r.WriteSet, pre)
	r.N0 = e.Canon.Next()
	r.CommitStart = sc.N() + 1
	arm()
	r.CommitErr = t.T.Commit(ctx)
	return r, nil
}

func nameWriteSet(e *txk.Env, ws []common.VerifNode, pre *DiskState) {
	sorted := append([]common.VerifNode(nil), ws...)
	sort.Slice(sorted, func(i, j int) bool {
		if sorted[i].Store != sorted[j].Store {
			return sorted[i].Store < sorted[j].Store
		}
		return sorted[i].ID.String() < sorted[j].ID.String()
	})
	for _, n := range sorted {
		e.Canon.ID(n.ID)
	}
	if pre != nil {
		for _, n := range sorted {
			if h, ok := pre.Find(n.ID); ok {
				e.Canon.ID(h.PhysicalIDA)
				e.Canon.ID(h.PhysicalIDB)
			}
		}
	}
}

// Find looks a logical id up in the decoded registry files.
func (ds *DiskState) Find(lid sop.UUID) (sop.Handle, bool) {
	for _, hs := range ds.Handles {
		for _, h := range hs {
			if h.LogicalID == lid {
				return h, true
			}
		}
	}
	return sop.Handle{}, false
}

// HasBlob reports whether a blob file with this id exists in any store folder.
func (ds *DiskState) HasBlob(id sop.UUID) bool {
	for _, ids := range ds.BlobFiles {
		for _, x := range ids {
			if x == id {
				return true
			}
		}
	}
	return false
}

// ExpectedAfter applies the operations' own reported results to the before-dump: a successful add puts the
// item there, a successful update replaces the value, a successful remove deletes it; Count is what the
// transaction reported before Commit.
func ExpectedAfter(before Dump, pr Program, res *Result) Dump {
	d := Dump{}
	for k, v := range before {
		d[k] = v
	}
	maps := map[int]map[int]string{}
	get := func(st int) map[int]string {
		if m, ok := maps[st]; ok {
			return m
		}
		m := map[int]string{}
		for _, it := range before[storeName(st)].Items {
			var k int
			var v string
			fmt.Sscanf(it, "%d=%s", &k, &v)
			m[k] = v
		}
		maps[st] = m
		return m
	}
	for i, o := range pr.Target {
		if i >= len(res.OpResults) {
			break
		}
		m := get(o.Store)
		if res.OpResults[i] != "true" {
			continue
		}
		switch o.Kind {
		case "add", "upd":
			m[o.Key] = o.Val
		case "rm":
			delete(m, o.Key)
		}
	}
	for st, m := range maps {
		var ks []int
		for k := range m {
			ks = append(ks, k)
		}
		sort.Ints(ks)
		var items []string
		for _, k := range ks {
			items = append(items, fmt.Sprintf("%d=%s", k, m[k]))
		}
		sd := StoreDump{Items: items, Count: int64(len(items))}
		if own, ok := res.Expected[storeName(st)]; ok {
			sd.Count = own.Count
		}
		d[storeName(st)] = sd
	}
	return d
}
