package commitx

import (
	"context"
	"fmt"
	"sort"
	"strconv"
	"strings"

	"github.com/sharedcode/sop"
	"github.com/sharedcode/sop/common"

	"verifharness/hx"
)

// storeIdx maps "st3" to 3.
func storeIdx(name string) int {
	n, _ := strconv.Atoi(strings.TrimPrefix(name, "st"))
	return n
}

func join(xs []string) string {
	if len(xs) == 0 {
		return "-"
	}
	return strings.Join(xs, ",")
}

// Emit writes one observed run as a Model P case: initial handle images, blobs and counts of everything the
// write set names; the write set; the fresh ids the run generated; the fault; `commit`; the resulting state;
// and, when the commit failed, the fault-free retry by a second transaction.
func Emit(ctx context.Context, s *hx.Session, o *Obs, header string) {
	s.BeginCase(header)
	o.emitInitAndWS(s, o.Res, true)
	o.emitRest(ctx, s)
}

func (o *Obs) emitInitAndWS(s *hx.Session, res *Result, initial bool) {
	c := o.Env.Canon
	ws := res.WriteSet
	// --- initial state
	byStore := map[string][]common.VerifNode{}
	var stores []string // in the order the transaction opened them (= the order every per-store loop of the commit uses)
	for _, d := range res.Deltas {
		name := d[0].(string)
		if _, ok := byStore[name]; !ok {
			byStore[name] = nil
			stores = append(stores, name)
		}
	}
	for _, n := range ws {
		if _, ok := byStore[n.Store]; !ok {
			stores = append(stores, n.Store)
		}
		byStore[n.Store] = append(byStore[n.Store], n)
	}
	created := map[string]bool{}
	if initial {
		for _, n := range ws {
			if h, ok := o.Pre.Find(n.ID); ok {
				s.Op("h "+strings.ReplaceAll(c.Handle(h), ":", " "), "ok")
			}
		}
		var blobs []string
		for _, n := range ws {
			if h, ok := o.Pre.Find(n.ID); ok {
				for _, id := range []sop.UUID{h.PhysicalIDA, h.PhysicalIDB} {
					if !id.IsNil() && o.Pre.HasBlob(id) {
						blobs = append(blobs, c.ID(id))
					}
				}
			}
		}
		// value blobs the transaction is going to write under an id that is already on disk (an update of an item
		// whose value sits in the node although the store keeps values in their own segment: same item id)
		for _, name := range stores {
			for _, id := range res.Values[name] {
				if o.Pre.HasBlob(id) {
					blobs = append(blobs, c.ID(id))
				}
			}
		}
		if len(blobs) > 0 {
			s.Op("b "+strings.Join(blobs, ","), "ok")
		}
		var all []string
		for name := range o.Before {
			if strings.HasPrefix(name, "st") {
				all = append(all, name)
			}
		}
		sort.Strings(all)
		for _, name := range all {
			s.Op(fmt.Sprintf("cnt %d %d", storeIdx(name), o.Before[name].Count), "ok")
		}
	} else {
		s.Op("clearws", "ok")
	}
	for _, name := range stores {
		if _, ok := o.Before[name]; !ok {
			if _, ok2 := o.After[name]; !ok2 || initial {
				created[name] = true
			}
		}
	}
	// --- write set
	deltas := map[string]int64{}
	for _, d := range res.Deltas {
		deltas[d[0].(string)] = d[1].(int64) - d[2].(int64)
	}
	itemsOf := map[string]int{}
	tracked := map[string]bool{}
	for _, it := range res.Items {
		itemsOf[it[0].(string)] = it[2].(int)
		tracked[it[0].(string)] = it[1].(bool)
	}
	for _, name := range stores {
		var root, upd, rem, add, fet []string
		for _, n := range byStore[name] {
			id := c.ID(n.ID)
			switch n.Action {
			case "root":
				root = append(root, id)
			case "update":
				upd = append(upd, fmt.Sprintf("%s:%d", id, n.Version))
			case "remove":
				rem = append(rem, fmt.Sprintf("%s:%d", id, n.Version))
			case "add":
				add = append(add, id)
			case "get":
				fet = append(fet, fmt.Sprintf("%s:%d", id, n.Version))
			}
		}
		items := itemsOf[name]
		cr := "0"
		if created[name] {
			cr = "1"
		}
		tr := "0"
		if tracked[name] {
			tr = "1"
		}
		var vals []string
		for _, v := range res.Values[name] {
			vals = append(vals, c.ID(v))
		}
		witems := items
		if res.WriteItems != nil {
			witems = res.WriteItems[name]
		}
		s.Op(fmt.Sprintf("store %d created=%s root=%s upd=%s rem=%s add=%s fet=%s items=%d witems=%d tracked=%s delta=%d vals=%s",
			storeIdx(name), cr, join(root), join(upd), join(rem), join(add), join(fet), items, witems, tr, deltas[name], join(vals)), "ok")
	}
}

// emitFreshOnly emits the `fresh` line of the target commit.
func (o *Obs) emitFreshOnly(s *hx.Session) {
	seen := map[string]bool{}
	var pairs []string
	for _, l := range o.Trace {
		if !strings.HasPrefix(l, "reg.UpdateNoLocks [") {
			continue
		}
		body := strings.TrimSuffix(strings.TrimPrefix(strings.Split(l, "]")[0], "reg.UpdateNoLocks ["), "]")
		for _, img := range strings.Fields(body) {
			f := strings.Split(img, ":")
			if len(f) != 7 {
				continue
			}
			in := f[2]
			if f[3] == "1" {
				in = f[1]
			}
			k, _ := strconv.Atoi(in)
			if k > o.Res.N0 && !seen[in] {
				seen[in] = true
				pairs = append(pairs, f[0]+":"+in)
			}
		}
	}
	if len(pairs) > 0 {
		s.Op("fresh "+strings.Join(pairs, ","), "ok")
	}
}

func (o *Obs) emitRest(ctx context.Context, s *hx.Session) {
	// --- fresh ids: inactive ids first seen in the reservation writes of this commit (and of the retry)
	emitFresh := func(trace []string, n0 int) {
		seen := map[string]bool{}
		var pairs []string
		for _, l := range trace {
			if !strings.HasPrefix(l, "reg.UpdateNoLocks [") {
				continue
			}
			body := strings.TrimSuffix(strings.TrimPrefix(strings.Split(l, "]")[0], "reg.UpdateNoLocks ["), "]")
			for _, img := range strings.Fields(body) {
				f := strings.Split(img, ":")
				if len(f) != 7 {
					continue
				}
				in := f[2]
				if f[3] == "1" {
					in = f[1]
				}
				k, _ := strconv.Atoi(in)
				if k > n0 && !seen[in] {
					seen[in] = true
					pairs = append(pairs, f[0]+":"+in)
				}
			}
		}
		if len(pairs) > 0 {
			s.Op("fresh "+strings.Join(pairs, ","), "ok")
		}
	}
	emitFresh(o.Trace, o.Res.N0)
	if o.FaultName != "" {
		s.Op(fmt.Sprintf("fault %s %d %s", o.FaultName, o.FaultOcc, o.FaultKind), "ok")
	}
	res := "ok"
	if o.Res.CommitErr != nil {
		res = "err"
	}
	tr, conflict := CutAtConflict(o.Trace)
	if conflict {
		// the first round of the commit loop ended in a conflict; what follows is decided by the B-tree layer
		s.Op("commit 1", "conflict | "+strings.Join(tr, " ; "))
		s.Hit("first_round_conflict")
		return
	}
	s.Op("commit 1", res+" | "+strings.Join(o.Trace, " ; "))
	ids := o.knownIDs(s)
	s.Op(o.stateOp(ids), o.stateImpl(ids, o.PostCommit, o.PostCounts))
	if o.RetryDone && o.Retry != nil && o.Retry.OpenErr == nil {
		o.emitInitAndWS(s, o.Retry, false)
		emitFresh(o.RetryTrace, o.Retry.N0)
		r2 := "ok"
		if o.RetryErr != nil {
			r2 = "err"
		}
		tr2, conflict2 := CutAtConflict(o.RetryTrace)
		if conflict2 {
			s.Op("commit 2", "conflict | "+strings.Join(tr2, " ; "))
			s.Hit("retry_first_round_conflict")
		} else {
			s.Op("commit 2", r2+" | "+strings.Join(o.RetryTrace, " ; "))
		}
	}
}

// knownIDs: the canonical ids the model has been told about in this case (handles, blobs, write set, fresh).
func (o *Obs) knownIDs(s *hx.Session) []string {
	seen := map[int]bool{}
	add := func(tok string) {
		if k, err := strconv.Atoi(tok); err == nil && k > 0 {
			seen[k] = true
		}
	}
	for _, l := range s.CurrentOps() {
		f := strings.Fields(l)
		if len(f) == 0 {
			continue
		}
		switch f[0] {
		case "h":
			add(f[1])
			add(f[2])
			add(f[3])
		case "b":
			for _, t := range strings.Split(f[1], ",") {
				add(t)
			}
		case "fresh":
			for _, p := range strings.Split(f[1], ",") {
				for _, t := range strings.Split(p, ":") {
					add(t)
				}
			}
		case "store":
			for _, kv := range f[2:] {
				parts := strings.SplitN(kv, "=", 2)
				if len(parts) != 2 {
					continue
				}
				switch parts[0] {
				case "root", "add", "vals":
					for _, t := range strings.Split(parts[1], ",") {
						add(t)
					}
				case "upd", "rem", "fet":
					for _, p := range strings.Split(parts[1], ",") {
						add(strings.Split(p, ":")[0])
					}
				}
			}
		}
	}
	var ks []int
	for k := range seen {
		ks = append(ks, k)
	}
	sort.Ints(ks)
	out := make([]string, len(ks))
	for i, k := range ks {
		out[i] = strconv.Itoa(k)
	}
	return out
}

func (o *Obs) stateOp(ids []string) string {
	var st []string
	for name := range o.PostCounts {
		st = append(st, strconv.Itoa(storeIdx(name)))
	}
	sort.Strings(st)
	return fmt.Sprintf("state %s %s 1,2", join(ids), join(st))
}

// stateImpl renders the on-disk state in the model's format.
func (o *Obs) stateImpl(ids []string, ds *DiskState, counts map[string]int64) string {
	c := o.Env.Canon
	want := map[string]bool{}
	for _, i := range ids {
		want[i] = true
	}
	type kv struct {
		n int
		s string
	}
	var hs, bl []kv
	for _, tbl := range ds.Handles {
		for _, h := range tbl {
			if nm := c.Name(h.LogicalID); nm != "" && want[nm] {
				k, _ := strconv.Atoi(nm)
				hs = append(hs, kv{k, c.Handle(h)})
			}
		}
	}
	for _, ids := range ds.BlobFiles {
		for _, id := range ids {
			if nm := c.Name(id); nm != "" && want[nm] {
				k, _ := strconv.Atoi(nm)
				bl = append(bl, kv{k, nm})
			}
		}
	}
	sort.Slice(hs, func(i, j int) bool { return hs[i].n < hs[j].n })
	sort.Slice(bl, func(i, j int) bool { return bl[i].n < bl[j].n })
	var hss, bls, cs []string
	for _, x := range hs {
		hss = append(hss, x.s)
	}
	for _, x := range bl {
		bls = append(bls, x.s)
	}
	var names []string
	for n := range counts {
		names = append(names, n)
	}
	sort.Slice(names, func(i, j int) bool { return storeIdx(names[i]) < storeIdx(names[j]) })
	for _, n := range names {
		cs = append(cs, fmt.Sprintf("%s=%d", n, counts[n]))
	}
	return fmt.Sprintf("reg=[%s] blobs=[%s] cnt=[%s] tlog=%d plog=%d", strings.Join(hss, " "), strings.Join(bls, ","), strings.Join(cs, " "), len(ds.TLogs), len(ds.PLogs))
}

// CutAtConflict: a commit whose first loop round was not successful goes round the loop again, and every round
// starts by asking for the node locks ("l2.Lock ..."; nothing else in Commit calls l2.Lock). The part of the trace
// Model P speaks about ends with the live rollback of the first round, i.e. with the last tlog.Remove before that
// second "l2.Lock" (or, when a node lock was held by someone else, with the l2.Unlock that follows the refused
// l2.Lock). What the second round does is decided by refetch-and-merge in the B-tree layer: it may log
// lockTrackedItems again, or fail in the merge before that.
func CutAtConflict(trace []string) ([]string, bool) {
	n := 0
	for i, l := range trace {
		if strings.HasPrefix(l, "l2.Lock ") {
			n++
			if n == 2 {
				for j := i - 1; j >= 0; j-- {
					if strings.HasPrefix(trace[j], "tlog.Remove") || strings.HasPrefix(trace[j], "l2.Unlock") {
						return trace[:j+1], true
					}
				}
				return trace[:i], true
			}
		}
	}
	return trace, false
}
