package commitx

import (
	"sort"
	"fmt"
	"strconv"
	"strings"
)

// Failure is one property-level failure observed on the implementation.
type Failure struct {
	Prop   string
	Sig    string
	What   string
	Detail string
}

// StepAtFault: the committedState in force when the injected fault hit = the last step logged before (or by) the
// failing call. -1 when the run had no fault.
func (o *Obs) StepAtFault() int {
	if o.FaultName == "" {
		return -1
	}
	step := 0
	for _, st := range o.Res.WriteSet {
		_ = st
	}
	for _, l := range o.Trace {
		if strings.HasPrefix(l, "tlog.Add ") {
			f := strings.Fields(l)
			if n, err := strconv.Atoi(f[1]); err == nil {
				step = n
			}
		}
		if strings.HasSuffix(l, "!err") {
			return step
		}
	}
	return step
}

func (o *Obs) faultTag() string {
	if o.FaultName == "" {
		return "nofault"
	}
	return fmt.Sprintf("%s:%v@step%d", o.FaultName, o.FaultKind, o.StepAtFault())
}

// Judge evaluates C01, C07, C10 and C11 on one observed run.
func Judge(o *Obs) []Failure {
	var out []Failure
	if o.Panic != "" {
		d := fmt.Sprintf("program %s setup=%v target=%v fault=%s panic=%s", o.Prog.Header(), o.Prog.Setup, o.Prog.Target, o.faultTag(), o.Panic)
		for _, p := range []string{"C01", "C07", "C10"} {
			out = append(out, Failure{p, p + "/panic/" + o.faultTag(), "the transaction code panicked (in the faulted transaction or in the one that retried its changes)", d})
		}
		return out
	}
	if o.SetupErr != nil || o.Res == nil || o.Res.OpenErr != nil {
		return nil
	}
	exp := ExpectedAfter(o.Before, o.Prog, o.Res).String()
	before := o.Before.String()
	after := o.After.String()
	tag := o.faultTag()
	detail := fmt.Sprintf("program %s setup=%v target=%v fault=%s before=%s after=%s expected=%s", o.Prog.Header(), o.Prog.Setup, o.Prog.Target, tag, before, after, exp)
	// C01
	if o.Res.CommitErr == nil && after != exp {
		out = append(out, Failure{"C01", "C01/ok-but-not-visible/" + tag, "Commit returned success but a later transaction does not see the changes", detail})
	}
	if o.Res.CommitErr != nil && after != before {
		out = append(out, Failure{"C01", "C01/err-but-changed/" + tag, "Commit returned an error but the stores do not read as before", detail})
	}
	// C03: nothing written by a transaction that FAILED is ever read by a later transaction (items; the count is C01's)
	if o.Res.CommitErr != nil {
		itemsOf := func(d Dump) string {
			var names []string
			for n := range d {
				names = append(names, n)
			}
			sort.Strings(names)
			var out []string
			for _, n := range names {
				out = append(out, n+"{"+strings.Join(d[n].Items, " ")+"}")
			}
			return strings.Join(out, ";")
		}
		if itemsOf(o.After) != itemsOf(o.Before) {
			out = append(out, Failure{"C03", "C03/failed-commit-writes-visible/" + tag, "a later transaction reads items written (or misses items removed) by a transaction whose Commit returned an error", detail})
		}
	}
	// C07
	if o.Res.CommitErr != nil {
		if after != before {
			out = append(out, Failure{"C07", "C07/err-but-changed/" + tag, "failed commit left the stores changed", detail})
		}
		if o.RetryDone {
			if o.RetryErr != nil {
				out = append(out, Failure{"C07", "C07/retry-fails/" + tag, "the same changes, retried with no faults and no waiting, do not commit", detail + " retryErr=" + o.RetryErr.Error()})
			} else if o.AfterRetry.String() != exp {
				out = append(out, Failure{"C07", "C07/retry-ok-but-wrong/" + tag, "the fault-free retry reports success but the stores do not hold the changes", detail + " afterRetry=" + o.AfterRetry.String()})
			}
		}
	}
	// C10: every reachable node and out-of-node value loads
	if o.Reach != nil && len(o.Reach.Problems) > 0 {
		// what dangles, and in which kind of transaction: the signature must tell one mechanism from another
		kind := "other"
		allChild := true
		for _, p := range o.Reach.Problems {
			if !(strings.Contains(p, "child ") && strings.Contains(p, "has no registry entry")) {
				allChild = false
			}
		}
		if allChild {
			kind = "child-without-registry-entry"
		}
		hasRoot, hasAdded := false, false
		for _, n := range o.Res.WriteSet {
			if n.Action == "root" {
				hasRoot = true
			}
			if n.Action == "add" {
				hasAdded = true
			}
		}
		shape := "existing-root"
		if hasRoot && hasAdded {
			shape = "new-root+added"
		} else if hasRoot {
			shape = "new-root"
		}
		out = append(out, Failure{"C10", "C10/dangling/" + tag + "/" + kind + "/" + shape, "a live node or value refers to data that does not load", detail + " problems=" + strings.Join(o.Reach.Problems, "; ")})
	}
	// C11: orphans, only for histories whose cleanup was allowed to finish (no fault at or after the commit point's cleanup)
	st := o.StepAtFault()
	cleanupFault := o.FaultName != "" && o.Res.CommitErr == nil
	if !cleanupFault && o.Disk != nil && o.Reach != nil && len(o.Reach.Problems) == 0 {
		// orphans that were not there before the target transaction (what was orphaned earlier is not this history's doing)
		preOrphan := map[string]bool{}
		if o.Pre != nil && o.PreReach != nil {
			for _, hs := range o.Pre.Handles {
				for _, h := range hs {
					if !o.PreReach.Lids[h.LogicalID] {
						preOrphan["r"+h.LogicalID.String()] = true
					}
				}
			}
			for _, ids := range o.Pre.BlobFiles {
				for _, id := range ids {
					if !o.PreReach.BlobIDs[id] {
						preOrphan["b"+id.String()] = true
					}
				}
			}
		}
		isValue := map[string]bool{}
		for _, res := range []*Result{o.Res, o.Retry} {
			if res == nil {
				continue
			}
			for _, ids := range res.Values {
				for _, id := range ids {
					isValue[id.String()] = true
				}
			}
		}
		nReg, nBlob, nVal := 0, 0, 0
		for _, hs := range o.Disk.Handles {
			for _, h := range hs {
				if !o.Reach.Lids[h.LogicalID] && !preOrphan["r"+h.LogicalID.String()] {
					nReg++
				}
			}
		}
		for _, ids := range o.Disk.BlobFiles {
			for _, id := range ids {
				if !o.Reach.BlobIDs[id] && !preOrphan["b"+id.String()] {
					if isValue[id.String()] {
						nVal++
					} else {
						nBlob++
					}
				}
			}
		}
		var kinds []string
		if nReg > 0 {
			kinds = append(kinds, "registry-entry")
		}
		if nBlob > 0 {
			kinds = append(kinds, "blob")
		}
		if len(o.Disk.TLogs) > 0 {
			kinds = append(kinds, "tlog")
		}
		if len(o.Disk.PLogs) > 0 {
			kinds = append(kinds, "plog")
		}
		if len(kinds) > 0 {
			out = append(out, Failure{"C11", "C11/orphan-" + strings.Join(kinds, "+") + "/" + tag, "finished transactions left orphaned data",
				detail + fmt.Sprintf(" orphans: reg=%d blob=%d value-blob=%d tlog=%d plog=%d", nReg, nBlob, nVal, len(o.Disk.TLogs), len(o.Disk.PLogs))})
		}
		if nVal > 0 {
			// value blobs of a transaction whose final attempt committed are unreferenced because the node keeps the
			// value inline (a known finding); value blobs left by a transaction that ended in failure are a leak
			committed := o.Res.CommitErr == nil || (o.RetryDone && o.RetryErr == nil)
			failedLeak := o.Res.CommitErr != nil && (!o.RetryDone || o.RetryErr != nil)
			if failedLeak {
				out = append(out, Failure{"C11", "C11/value-blob-left-by-failed-commit/" + tag, "a failed commit left value blobs it had written", detail + fmt.Sprintf(" value blobs left=%d", nVal)})
			} else if committed {
				out = append(out, Failure{"C11", "C11/value-blob-unreferenced-after-commit", "separate-segment value blobs are written but the node keeps the value inline: the blobs are referenced by nothing", detail + fmt.Sprintf(" value blobs=%d", nVal)})
			}
		}
	}
	_ = st
	return out
}
