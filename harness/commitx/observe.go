package commitx

import (
	"context"
	"fmt"
	"os"
	"strings"
	"time"

	"github.com/sharedcode/sop"
	"github.com/sharedcode/sop/common"

	"verifharness/hx"
	"verifharness/txk"
)

// Pause is what a reader saw while the writer was parked right before one of its backend calls.
type Pause struct {
	Phase   string // work | phase1 | gap | phase2 | rollback
	Name    string // class of the call the writer is about to make ("" for the gap / end)
	Occ     int    // occurrence of that class since Phase1Commit began (0 in the work phase)
	Dump    Dump
	DumpErr error
	Disk    *DiskState
	Flipped bool // the commit point (the all-or-nothing registry update of phase 2) has been passed
}

// Observed is one writer run observed at every backend call.
type Observed struct {
	Prog       Program
	SameProc   bool
	DoRollback bool
	Env        *txk.Env
	Before     Dump
	Pre        *DiskState
	Res        *Result
	Pauses     []Pause
	P1Err      error
	P2Err      error
	RbErr      error
	After      Dump
	SetupErr   error
	Trace      []string
}

func readerDump(ctx context.Context, e *txk.Env, sameProc bool) (Dump, error) {
	if sameProc {
		return readAllHere(ctx, &txk.Env{Dir: e.Dir, HashMod: e.HashMod, L2: e.L2, Canon: e.Canon})
	}
	return ReadAll(ctx, e)
}

// RunObserved runs the program's target transaction through the phased API (Phase1Commit, then Phase2Commit or
// Rollback) and lets a reader transaction scan every store while the writer is parked before each backend call.
func RunObserved(ctx context.Context, pr Program, sameProc, doRollback bool) (*Observed, error) {
	dir, err := os.MkdirTemp(hx.WorkRoot(), "c3-")
	if err != nil {
		return nil, err
	}
	defer os.RemoveAll(dir)
	o := &Observed{Prog: pr, SameProc: sameProc, DoRollback: doRollback}
	e := txk.NewEnv(dir, 3)
	e.ColdRestart()
	o.Env = e
	if err := RunSetup(ctx, e, pr); err != nil {
		o.SetupErr = err
		return o, nil
	}
	if o.Before, err = ReadAll(ctx, e); err != nil {
		return nil, err
	}
	if o.Pre, err = ReadDisk(dir); err != nil {
		return nil, err
	}
	if sameProc {
		// one long-lived process: the caches are as the setup commits and an earlier reader left them (the writer
		// and the readers of this run then share cached node objects)
		if _, err := readerDump(ctx, e, true); err != nil {
			return nil, err
		}
	} else {
		e.ColdRestart()
	}
	sc := txk.NewScript(e.Canon)
	phase := "work"
	occ := map[string]int{}
	flipped := false
	inGate := false
	sc.Gate = func(idx int, name string) {
		if inGate {
			return
		}
		inGate = true
		defer func() { inGate = false }()
		n := 0
		if phase != "work" {
			occ[name]++
			n = occ[name]
		}
		p := Pause{Phase: phase, Name: name, Occ: n, Flipped: flipped}
		p.Dump, p.DumpErr = readerDump(ctx, e, sameProc)
		p.Disk, _ = ReadDisk(dir)
		o.Pauses = append(o.Pauses, p)
	}
	// track the commit point: the aon registry update has been performed once the NEXT call is entered
	sawAon := false
	origGate := sc.Gate
	sc.Gate = func(idx int, name string) {
		if sawAon {
			flipped = true
		}
		origGate(idx, name)
		if name == "reg.UpdateNoLocks" && phase == "phase2" {
			sawAon = true
		}
	}
	res := &Result{Script: sc}
	o.Res = res
	t, err := e.NewTxn(ctx, sop.ForWriting, time.Minute, sc)
	if err != nil {
		return nil, err
	}
	if err := t.T.Begin(ctx); err != nil {
		return nil, err
	}
	bs, opres, err := applyOps(ctx, t, pr, pr.Target, e)
	res.OpResults = opres
	if err != nil {
		res.OpenErr = err
		t.T.Rollback(ctx)
		return o, nil
	}
	exp := Dump{}
	for i, b := range bs {
		exp[storeName(i)] = StoreDump{Count: b.Count()}
	}
	res.Expected = exp
	res.WriteSet = common.VerifWriteSet(t.P)
	res.Deltas = common.VerifCountDeltas(t.P)
	res.Items = common.VerifItemCounts(t.P)
	res.WriteItems = common.VerifWriteItemCounts(t.P)
	res.Values = common.VerifValueIDs(t.P)
	nameWriteSet(e, res.WriteSet, o.Pre)
	res.N0 = e.Canon.Next()
	res.CommitStart = sc.N() + 1
	phase = "phase1"
	o.P1Err = t.P.Phase1Commit(ctx)
	if o.P1Err == nil {
		// the gap between the two phases (where external two-phase participants do their work)
		phase = "gap"
		p := Pause{Phase: "gap"}
		p.Dump, p.DumpErr = readerDump(ctx, e, sameProc)
		p.Disk, _ = ReadDisk(dir)
		o.Pauses = append(o.Pauses, p)
		if doRollback {
			phase = "rollback"
			o.RbErr = t.P.Rollback(ctx, nil)
		} else {
			phase = "phase2"
			o.P2Err = t.P.Phase2Commit(ctx)
		}
	}
	for _, c := range sc.Calls {
		if c.Idx >= res.CommitStart {
			o.Trace = append(o.Trace, c.String())
		}
	}
	if o.After, err = ReadAll(ctx, e); err != nil {
		o.After = Dump{"<unreadable>": StoreDump{Items: []string{err.Error()}}}
	}
	return o, nil
}

// JudgeC03 compares what the reader saw at every pause with the last committed state.
func (o *Observed) JudgeC03() []Failure {
	var out []Failure
	before := o.Before.String()
	exp := ExpectedAfter(o.Before, o.Prog, o.Res).String()
	seen := map[string]bool{}
	for _, p := range o.Pauses {
		if p.DumpErr != nil {
			// why: a first root registered in phase 1 (finding C03-F2) that the writer's rollback is taking apart
			// (blob, then registry entry, then - for a created store - the store) is the one explained cause
			cause := "other"
			for _, n := range o.Res.WriteSet {
				if n.Action == "root" && p.Phase == "rollback" {
					cause = "uncommitted-root-being-removed"
				}
			}
			sig := fmt.Sprintf("C03/reader-error/%s/%s", p.Phase, cause)
			if !seen[sig] {
				seen[sig] = true
				out = append(out, Failure{"C03", sig, "a reader failed while a writer was in flight", fmt.Sprintf("program %s setup=%v target=%v; %s before %s#%d: %v", o.Prog.Header(), o.Prog.Setup, o.Prog.Target, p.Phase, p.Name, p.Occ, p.DumpErr)})
			}
			continue
		}
		got := p.Dump.String()
		committed := p.Flipped && !o.DoRollback
		if got == before || (committed && got == exp) {
			continue
		}
		// classify: count only, or items too; new root or not
		kind := "items"
		same := true
		for name, sd := range p.Dump {
			b := o.Before[name]
			if strings.Join(sd.Items, " ") != strings.Join(b.Items, " ") {
				same = false
			}
		}
		for name := range o.Before {
			if _, ok := p.Dump[name]; !ok {
				same = false
			}
		}
		newStore := false
		for name := range p.Dump {
			if _, ok := o.Before[name]; !ok {
				newStore = true
			}
		}
		if same && !newStore {
			kind = "count-only"
		} else if newStore {
			kind = "store-created-by-writer-visible"
		} else {
			hasRoot := false
			for _, n := range o.Res.WriteSet {
				if n.Action == "root" {
					hasRoot = true
				}
			}
			if hasRoot {
				kind = "items-of-new-root"
			}
		}
		sig := fmt.Sprintf("C03/dirty-read/%s/%s", kind, p.Phase)
		if !seen[sig] {
			seen[sig] = true
			out = append(out, Failure{"C03", sig, "a reader saw uncommitted (or rolled-back) changes of a writer in flight",
				fmt.Sprintf("program %s setup=%v target=%v sameProcess=%v rollback=%v; writer parked in %s before %s#%d; committed state=%s; reader saw=%s",
					o.Prog.Header(), o.Prog.Setup, o.Prog.Target, o.SameProc, o.DoRollback, p.Phase, p.Name, p.Occ, before, got)})
		}
	}
	return out
}

// EmitC03 replays the observed run on Model P: for every pause of the commit phases, the state Model P predicts
// right before that call (registry images, blobs, counts of the ids it knows) against the disk at the pause.
func EmitC03(ctx context.Context, s *hx.Session, o *Observed, header string) {
	s.BeginCase(header)
	ob := &Obs{Prog: o.Prog, Env: o.Env, Before: o.Before, After: o.After, Pre: o.Pre, Res: o.Res, Trace: o.Trace}
	ob.emitInitAndWS(s, o.Res, true)
	// fresh ids as in Emit
	ob2 := *ob
	ob2.emitFreshOnly(s)
	ids := ob.knownIDs(s)
	stores := map[string]int64{}
	for name, sd := range o.Before {
		stores[name] = sd.Count
	}
	for _, p := range o.Pauses {
		if p.Phase == "work" || p.Disk == nil || p.DumpErr != nil {
			continue
		}
		counts := map[string]int64{}
		for name, sd := range p.Dump {
			if strings.HasPrefix(name, "st") {
				counts[name] = sd.Count
			}
		}
		var st []string
		for name := range counts {
			st = append(st, fmt.Sprint(storeIdx(name)))
		}
		op := ""
		switch p.Phase {
		case "gap":
			op = "at gap"
		case "phase1", "phase2":
			op = fmt.Sprintf("at %s %s %d", p.Phase, p.Name, p.Occ)
		default:
			continue // rollback pauses: the model's live rollback is compared through the final state
		}
		sortNumStrings(st)
		s.Op(fmt.Sprintf("%s %s %s", op, join(ids), join(st)), ob.stateImpl(ids, p.Disk, counts))
	}
}

func sortNumStrings(xs []string) {
	for i := 1; i < len(xs); i++ {
		for j := i; j > 0 && lessNumStr(xs[j], xs[j-1]); j-- {
			xs[j], xs[j-1] = xs[j-1], xs[j]
		}
	}
}
func lessNumStr(a, b string) bool {
	if len(a) != len(b) {
		return len(a) < len(b)
	}
	return a < b
}
