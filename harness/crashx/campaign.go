package crashx

import (
	"fmt"
	"os"
	"path/filepath"
	"sort"
	"strings"

	"verifharness/commitx"
	"verifharness/hx"
)

// One crash experiment: program, crash point, everything observed.
type Exp struct {
	Prog  commitx.Program
	K     int
	Mode  string
	Pre   PreInfo
	Crash CrashInfo
	Rec   RecInfo
	// child exit codes
	TargetExit  int
	RecoverExit int
	RecoverOut  string
	Skipped     string
}

// GenProgram: commitx programs in which store 0 always exists beforehand (the recovering transaction opens it).
func GenProgram(p *hx.Prng) commitx.Program {
	pr := commitx.Gen(p)
	pr.SepVals = false
	pr.Exists[0] = true
	return pr
}

// Directed programs that reach the mechanisms by construction.
func Directed() []commitx.Program {
	add := func(st, k int, v string) commitx.Op { return commitx.Op{Store: st, Kind: "add", Key: k, Val: v} }
	return []commitx.Program{
		// update of an existing root node (one updated node): the C08 window needs nothing more
		{Slot: []int{4}, Exists: []bool{true}, Setup: [][]commitx.Op{{add(0, 1, "a"), add(0, 2, "b")}},
			Target: []commitx.Op{add(0, 3, "c")}},
		// split: updated + added nodes
		{Slot: []int{2}, Exists: []bool{true}, Setup: [][]commitx.Op{{add(0, 1, "a"), add(0, 2, "b")}},
			Target: []commitx.Op{add(0, 3, "c"), add(0, 4, "d")}},
		// removals that free a node: updated + removed nodes
		{Slot: []int{2}, Exists: []bool{true}, Setup: [][]commitx.Op{{add(0, 1, "a"), add(0, 2, "b"), add(0, 3, "c"), add(0, 4, "d"), add(0, 5, "e")}},
			Target: []commitx.Op{{Store: 0, Kind: "rm", Key: 5}, {Store: 0, Kind: "rm", Key: 4}, {Store: 0, Kind: "rm", Key: 3}}},
		// first root of an empty store
		{Slot: []int{4}, Exists: []bool{true}, Target: []commitx.Op{add(0, 7, "x")}},
		// removal of nodes that an EARLIER commit had updated (their handles carry both physical ids, the inactive one
		// obsolete with WorkInProgressTimestamp = 1): recovery's rollbackRemovedNodes zeroes the timestamp (C08-F4)
		{Slot: []int{2}, Exists: []bool{true}, Setup: [][]commitx.Op{{add(0, 1, "a"), add(0, 2, "b"), add(0, 3, "c"), add(0, 4, "d"), add(0, 5, "e")},
			{{Store: 0, Kind: "upd", Key: 5, Val: "E"}, {Store: 0, Kind: "upd", Key: 4, Val: "D"}, {Store: 0, Kind: "upd", Key: 3, Val: "C"}}},
			Target: []commitx.Op{{Store: 0, Kind: "rm", Key: 5}, {Store: 0, Kind: "rm", Key: 4}, {Store: 0, Kind: "rm", Key: 3}}},
		// a second store created by the crashed transaction
		{Slot: []int{4, 4}, Exists: []bool{true, false}, Setup: [][]commitx.Op{{add(0, 1, "a")}},
			Target: []commitx.Op{add(0, 2, "b"), add(1, 9, "z")}},
	}
}

// RunOne performs one experiment in a scratch directory. k = 0: the commit is not crashed.
func RunOne(pr commitx.Program, k int, mode string, n int) (*Exp, error) {
	work, err := os.MkdirTemp(hx.WorkRoot(), "crx-")
	if err != nil {
		return nil, err
	}
	defer os.RemoveAll(work)
	x := &Exp{Prog: pr, K: k, Mode: mode}
	if err := writeJSON(filepath.Join(work, "prog.json"), pr); err != nil {
		return nil, err
	}
	code, out := RunChild("cx-target", work, fmt.Sprint(k))
	x.TargetExit = code
	if err := readJSON(filepath.Join(work, "pre.json"), &x.Pre); err != nil {
		return nil, fmt.Errorf("target child (exit %d): %s", code, out)
	}
	if x.Pre.OpenErr != "" {
		x.Skipped = x.Pre.OpenErr
		return x, nil
	}
	if err := readJSON(filepath.Join(work, "crash.json"), &x.Crash); err != nil {
		return nil, fmt.Errorf("target child left no crash record (exit %d): %s", code, out)
	}
	if mode == "" {
		return x, nil
	}
	code, out = RunChild("cx-recover", work, mode, fmt.Sprint(n))
	x.RecoverExit, x.RecoverOut = code, out
	if code == 0 {
		if err := readJSON(filepath.Join(work, "rec.json"), &x.Rec); err != nil {
			return nil, err
		}
	}
	return x, nil
}

// LastStep: the last step logged in the crashed transaction's log before the crash (0 = nothing logged by Commit).
func (x *Exp) LastStep() int {
	last := 0
	for _, l := range x.Crash.Trace {
		if strings.HasPrefix(l, "tlog.Add ") {
			fmt.Sscanf(l, "tlog.Add %d", &last)
		}
	}
	return last
}

// Window names where in the commit the crash fell, from the calls made before it.
func (x *Exp) Window() string {
	last := x.LastStep()
	flipped, plgRemoved := false, false
	for _, l := range x.Crash.Trace {
		if strings.HasPrefix(l, "reg.UpdateNoLocks aon") {
			flipped = true
		}
		if flipped && strings.HasPrefix(l, "plog.Remove") {
			plgRemoved = true
		}
	}
	switch {
	case x.Crash.Completed:
		return "completed"
	case last == 11 && flipped && plgRemoved:
		return "step11-flipped-plog-removed"
	case last == 11 && flipped:
		return "step11-flipped-plog-present"
	default:
		return fmt.Sprintf("step%d", last)
	}
}

// Verdict classifies the cold dump after recovery.
func (x *Exp) Verdict() string {
	if x.Rec.AfterErr != "" {
		return "unreadable"
	}
	a := x.Rec.After.String()
	switch {
	case a == x.Pre.Before.String() && a == x.Pre.Expected.String():
		return "same"
	case a == x.Pre.Before.String():
		return "before"
	case a == x.Pre.Expected.String():
		return "after"
	}
	return "neither"
}

// FollowHolds: the follow-up writer committed and a cold reader sees its values.
func (x *Exp) FollowHolds() (bool, string) {
	if !x.Rec.FollowOK {
		return false, x.Rec.FollowErr
	}
	if x.Rec.After2Err != "" {
		return false, "unreadable after the follow-up writer: " + x.Rec.After2Err
	}
	have := map[string]bool{}
	for name, sd := range x.Rec.After2 {
		for _, it := range sd.Items {
			have[name+":"+it] = true
		}
	}
	var missing []string
	for _, w := range x.Rec.FollowWant {
		if !have[w] {
			missing = append(missing, w)
		}
	}
	sort.Strings(missing)
	if len(missing) > 0 {
		return false, "follow-up values missing: " + strings.Join(missing, " ")
	}
	return true, ""
}

// ---- emission and oracles ----

func storeIdxList(names []string) string {
	var out []string
	for _, n := range names {
		out = append(out, fmt.Sprint(storeIdx(n)))
	}
	return join(out)
}

func (x *Exp) hasRoot() bool {
	for _, l := range x.Pre.InitLines {
		if strings.HasPrefix(l, "store ") && !strings.Contains(l, " root=- ") {
			return true
		}
	}
	return false
}

func (x *Exp) rootRegistered() bool {
	n := 0
	for _, l := range x.Crash.Trace {
		if strings.HasPrefix(l, "tlog.Add 4") {
			n = 1
		}
		if n == 1 && strings.HasPrefix(l, "reg.Add ") {
			return true
		}
		if strings.HasPrefix(l, "tlog.Add 5") {
			break
		}
	}
	return false
}

// countOnlyMismatch: a cold reader sees exactly the old items but a count that is not the old one.
func (x *Exp) countOnlyMismatch() bool {
	if x.Rec.AfterErr != "" {
		return false
	}
	diff := false
	for name, b := range x.Pre.Before {
		a, ok := x.Rec.After[name]
		if !ok || strings.Join(a.Items, " ") != strings.Join(b.Items, " ") {
			return false
		}
		if a.Count != b.Count {
			diff = true
		}
	}
	return diff
}

func (x *Exp) implVerdict() string {
	v := x.Verdict()
	if v == "unreadable" {
		v = "neither"
	}
	d := "loadable"
	for _, p := range x.Rec.Problems {
		if strings.Contains(p, "missing") || strings.Contains(p, "no registry entry") {
			d = "dangling"
		}
	}
	return v + " " + d
}

// Signature names the mechanism of a C08 failure from the case itself.
func (x *Exp) Signature(kind string) string {
	switch {
	case x.Window() == "step11-flipped-plog-removed":
		return "C08/flip-visible-rolled-back"
	case x.hasRoot() && x.rootRegistered() && x.LastStep() < 12:
		return "C08/new-root-handle-left"
	case x.countOnlyMismatch():
		return "C08/count-delta-not-undone"
	}
	return "C08/" + kind + ":" + x.Window()
}

// blockedNodes: nodes of the dead transaction's write set (updated or removed) whose handle, after recovery, can never be
// reserved by a later writer — marked deleted or both physical ids in use, with WorkInProgressTimestamp == 0, so that
// AllocateID returns nil and IsExpiredInactive() is false for ever — and that were not in that condition before the commit.
func (x *Exp) blockedNodes() []string {
	stuck := func(f []string) bool { // lid A B activeB version wip deleted
		return len(f) == 7 && f[5] == "0" && (f[6] == "1" || (f[1] != "0" && f[2] != "0"))
	}
	ws := map[string]bool{}
	before := map[string]bool{}
	for _, l := range x.Pre.InitLines {
		f := strings.Fields(l)
		if len(f) == 8 && f[0] == "h" && stuck(f[1:]) {
			before[f[1]] = true
		}
		if len(f) > 0 && f[0] == "store" {
			for _, kv := range f[1:] {
				if strings.HasPrefix(kv, "upd=") || strings.HasPrefix(kv, "rem=") {
					for _, e := range strings.Split(kv[4:], ",") {
						if e != "-" && e != "" {
							ws[strings.SplitN(e, ":", 2)[0]] = true
						}
					}
				}
			}
		}
	}
	var out []string
	i := strings.Index(x.Rec.RecState, "reg=[")
	if i < 0 {
		return nil
	}
	rest := x.Rec.RecState[i+5:]
	if j := strings.Index(rest, "]"); j >= 0 {
		rest = rest[:j]
	}
	for _, h := range strings.Fields(rest) {
		f := strings.Split(h, ":")
		if len(f) == 7 && ws[f[0]] && !before[f[0]] && stuck(f) {
			out = append(out, h)
		}
	}
	return out
}

func (x *Exp) detail() string {
	return fmt.Sprintf("program %s setup=%v target=%v crash before call %d of Commit (%s); before=%s expected=%s after-recovery=%s err=%q walk=%v follow-up=%v %s recovery=%v",
		x.Prog.Header(), x.Prog.Setup, x.Prog.Target, x.K, x.Window(), x.Pre.Before, x.Pre.Expected, x.Rec.After, x.Rec.AfterErr, x.Rec.Problems, x.Rec.FollowOK, x.Rec.FollowErr, x.Rec.RecTrace)
}

// Emit writes the experiment as a model case and evaluates the direct oracle of `prop`.
func Emit(s *hx.Session, x *Exp, prop string, offsets string) {
	s.BeginCase(fmt.Sprintf("%s k=%d mode=%s", x.Prog.Header(), x.K, x.Mode))
	for _, l := range x.Pre.InitLines {
		s.Op(l, "ok")
	}
	if fl := FreshLine(x.Crash.Trace, x.Pre.N0); fl != "" {
		s.Op(fl, "ok")
	}
	s.Op(fmt.Sprintf("crash %d", x.K), strings.Join(x.Crash.Trace, " ; "))
	s.Hit("window:" + x.Window())
	s.Hit("runs")
	if x.RecoverExit != 0 {
		s.Fail(prop+"/recovery-process-died", "the recovering process exited abnormally", x.RecoverOut)
		return
	}
	stateOp := fmt.Sprintf("state %s %s", join(x.Rec.KnownIDs), storeIdxList(x.Rec.StoreIdx))
	s.Op(stateOp, x.Rec.CrashState)
	if x.K >= 2 {
		s.Nontrivial()
	}
	switch x.Mode {
	case "c08":
		s.Op("recover", strings.Join(x.Rec.RecTrace, " ; "))
		s.Op(stateOp, x.Rec.RecState)
		v := x.implVerdict()
		s.Op("verdict", v)
		s.Hit("verdict:" + v)
		okF, why := x.FollowHolds()
		switch {
		case !strings.HasPrefix(v, "before") && !strings.HasPrefix(v, "after") && !strings.HasPrefix(v, "same"):
			s.Fail(x.Signature("neither"), "after crash + recovery a cold reader sees neither the state before the transaction nor the state after it", x.detail())
		case strings.HasSuffix(v, "dangling"):
			s.Fail(x.Signature("dangling"), "after crash + recovery a live handle points at a missing blob", x.detail())
		case !okF && len(x.blockedNodes()) > 0:
			s.Fail("C08/follow-up-blocked-by-zeroed-timestamp-on-two-id-handle",
				"after crash + recovery a node of the dead transaction's write set can never be reserved again (both physical ids in use, WorkInProgressTimestamp 0): the fault-free follow-up writer fails: "+why,
				"blocked handles "+strings.Join(x.blockedNodes(), " ")+"; "+x.detail())
		case !okF:
			s.Fail(x.Signature("follow-up"), "after crash + recovery a fault-free writer on the same keys does not commit its values: "+why, x.detail())
		case x.Rec.CrashedLog || x.Rec.CrashedPlg:
			s.Fail("C08/logs-remain:"+x.Window(), "the recovery entry points left the dead transaction's log files", x.detail())
		}
		if len(x.blockedNodes()) > 0 {
			s.Hit("blocked_node_after_recovery")
		}
		if okF {
			s.Hit("follow_up_ok")
		} else {
			s.Hit("follow_up_fails")
		}
	case "c09", "c09idle":
		op := "public " + offsets
		if x.Mode == "c09idle" {
			op = "idle " + offsets
		}
		s.Op(op, strings.Join(x.Rec.Idle, " | ")+" || "+strings.Join(x.Rec.RecTrace, " ; "))
		s.Op(stateOp, x.Rec.RecState)
		moved := false
		for _, l := range x.Rec.Idle {
			if strings.Contains(l, "=true") {
				moved = true
			}
			s.Hit("txn:" + l)
		}
		left := x.LastStep() >= 1 || strings.Contains(x.Rec.CrashState, "tlog=1")
		if x.Mode == "c09" {
			if x.Rec.CrashedLog || x.Rec.CrashedPlg {
				sig := "C09/logs-remain"
				if !moved {
					sig = "C09/onidle-never-runs-on-public-path"
				}
				s.Fail(sig, fmt.Sprintf("after %d public Begin+open+Commit transactions in a new process with the clock advanced the dead transaction's log files are still there", len(x.Rec.Idle)), x.detail()+fmt.Sprintf(" idle=%v tlogs=%v plogs=%v reserved=%v", x.Rec.Idle, x.Rec.TLogs, x.Rec.PLogs, x.Rec.Reserved))
			} else if left {
				s.Hit("c09_recovered")
			}
		} else if x.Rec.CrashedLog || x.Rec.CrashedPlg {
			s.Hit("idle_logs_remain")
		} else if left {
			s.Hit("idle_logs_removed")
		}
	}
}

// Campaign: directed programs first, then generated ones; every crash point (quick: sampled for generated programs).
func Campaign(o hx.RunOpts, prop string, rule string) error {
	p := hx.NewPrng(o.Seed)
	s := hx.NewSession(o, rule)
	progs := Directed()
	ndir := len(progs)
	for i := 0; i < o.N(5, 50); i++ {
		progs = append(progs, GenProgram(p.Fork()))
	}
	modes := []string{"c08"}
	offsets := ""
	ntx := 0
	if prop == "C09" {
		modes = []string{"c09", "c09idle"}
		ntx = 4
		var offs []string
		for i := 0; i < ntx; i++ {
			offs = append(offs, fmt.Sprint(i*StepMinutes))
		}
		offsets = strings.Join(offs, ",")
	}
	onlyProg, onlyK := os.Getenv("VERIF_ONLY_PROG"), os.Getenv("VERIF_ONLY_K") // debugging aid: restrict the campaign
	for pi, pr := range progs {
		if onlyProg != "" && fmt.Sprint(pi) != onlyProg {
			continue
		}
		ref, err := RunOne(pr, 0, "", 0)
		if err != nil {
			return err
		}
		if ref.Skipped != "" || ref.Crash.CommitErr != "" || ref.Pre.NoTracked {
			fmt.Fprintln(os.Stderr, "skip program:", ref.Skipped, ref.Crash.CommitErr)
			s.Hit("skipped_program")
			continue
		}
		n := len(ref.Crash.Trace)
		for k := 1; k <= n; k++ {
			for mi, mode := range modes {
				sample := pi < ndir && prop == "C08"
				if !sample {
					stride := 3
					if prop == "C09" {
						stride = 4
					}
					if o.Thorough() {
						stride = 1
						if prop == "C09" {
							stride = 2
						}
					}
					sample = (k+pi+mi)%stride == 0
				}
				if onlyK != "" {
					sample = fmt.Sprint(k) == onlyK
				}
				if !sample {
					continue
				}
				x, err := RunOne(pr, k, mode, ntx)
				if err != nil {
					return err
				}
				if x.Skipped != "" {
					s.Hit("skipped_run")
					continue
				}
				Emit(s, x, prop, offsets)
			}
		}
	}
	return s.Finish()
}
