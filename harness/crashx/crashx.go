// Package crashx is the crash/recovery kit of C08 and C09: a CHILD PROCESS runs a commitx program and dies
// (os.Exit(137) inside the txk decorator) right before backend call k of Commit; a second, FRESH child process
// with the clock advanced (sop.Now is shifted; log files and handle timestamps written by the dead process are
// then three hours old) performs the recovery — for C08 through the overlay entry points of package common, for
// C09 only through public Begin / open store / Commit transactions — and then dumps the stores cold, the disk
// state and the reachability walk, and lets a follow-up writer touch the same keys.
package crashx

import (
	"context"
	"encoding/json"
	"fmt"
	"os"
	"os/exec"
	"path/filepath"
	"sort"
	"strconv"
	"strings"
	"time"

	"github.com/sharedcode/sop"
	"github.com/sharedcode/sop/btree"
	"github.com/sharedcode/sop/common"

	"verifharness/commitx"
	"verifharness/txk"
)

// ClockShift is how far the recovering process's clock is ahead of the dead one's: past the 5-minute priority
// log age, the 70-minute (hour-capped) transaction log age and the one-hour handle reservation window.
const ClockShift = 3 * time.Hour

// PreInfo is written by the target child right before Commit begins.
type PreInfo struct {
	Prog      commitx.Program
	Before    commitx.Dump
	Expected  commitx.Dump
	InitLines []string // model ops: h / b / cnt / store lines
	N0        int
	Tid       string
	OpenErr   string
	Stores    []string
	NoTracked bool
}

// CrashInfo is written by the Gate hook at the crash point (or at the end of a commit that was not crashed).
type CrashInfo struct {
	K         int
	Trace     []string          // calls made by Commit before the crash
	Names     map[string]int    // uuid -> canonical number
	Completed bool              // the commit returned (no crash)
	CommitErr string
}

// RecInfo is written by the recovering child.
type RecInfo struct {
	CrashState string   // disk right after the crash, model format
	CrashLog   string   // last logged step / plog presence as found on disk
	RecTrace   []string // durable calls made by the recovery entry points
	Idle       []string // C09: per public transaction, which maintenance clocks moved
	RecState   string
	After      commitx.Dump
	AfterErr   string
	TLogs      []string
	PLogs      []string
	CrashedLog bool // the crashed transaction's .log still exists
	CrashedPlg bool
	Reserved   []string // handles that still carry a time-stamped reservation / deleted mark
	Problems   []string
	RecErrs    []string // errors returned by the recovery entry points (collected, not acted upon by the code)
	FollowErr  string
	FollowOK   bool
	After2     commitx.Dump
	After2Err  string
	FollowWant []string
	KnownIDs   []string
	StoreIdx   []string
}

func writeJSON(path string, v any) error {
	b, err := json.MarshalIndent(v, "", " ")
	if err != nil {
		return err
	}
	tmp := path + ".tmp"
	if err := os.WriteFile(tmp, b, 0o644); err != nil {
		return err
	}
	return os.Rename(tmp, path)
}

func readJSON(path string, v any) error {
	b, err := os.ReadFile(path)
	if err != nil {
		return err
	}
	return json.Unmarshal(b, v)
}

func storeName(i int) string { return fmt.Sprintf("st%d", i) }
func storeIdx(name string) int {
	n, _ := strconv.Atoi(strings.TrimPrefix(name, "st"))
	return n
}

// Subcommands are the child-process modes (hx.Main extra sub-commands).
func Subcommands() map[string]func(args []string) error {
	return map[string]func(args []string) error{
		"cx-target":  childTarget,
		"cx-recover": childRecover,
	}
}

func applyOps(ctx context.Context, t *txk.Txn, pr commitx.Program, ops []commitx.Op, e *txk.Env) (map[int]btree.BtreeInterface[int, string], []string, error) {
	bs := map[int]btree.BtreeInterface[int, string]{}
	var res []string
	for _, o := range ops {
		b, ok := bs[o.Store]
		if !ok {
			so := e.StoreOpts(storeName(o.Store), pr.Slot[o.Store], true)
			var err error
			b, err = txk.NewBtree[int, string](ctx, t, so)
			if err != nil {
				return bs, res, err
			}
			bs[o.Store] = b
		}
		var ok2 bool
		var err error
		switch o.Kind {
		case "add":
			ok2, err = b.Add(ctx, o.Key, o.Val)
		case "upd":
			ok2, err = b.Update(ctx, o.Key, o.Val)
		case "ups":
			ok2, err = b.Upsert(ctx, o.Key, o.Val)
		case "rm":
			ok2, err = b.Remove(ctx, o.Key)
		case "get":
			ok2, err = b.Find(ctx, o.Key, false)
			if ok2 && err == nil {
				_, err = b.GetCurrentValue(ctx)
			}
		}
		if err != nil {
			return bs, res, fmt.Errorf("%v: %w", o, err)
		}
		res = append(res, fmt.Sprint(ok2))
	}
	return bs, res, nil
}

func nameWriteSet(e *txk.Env, ws []common.VerifNode, pre *commitx.DiskState) {
	sorted := append([]common.VerifNode(nil), ws...)
	sort.Slice(sorted, func(i, j int) bool {
		if sorted[i].Store != sorted[j].Store {
			return sorted[i].Store < sorted[j].Store
		}
		return sorted[i].ID.String() < sorted[j].ID.String()
	})
	for _, n := range sorted {
		e.Canon.ID(n.ID)
	}
	for _, n := range sorted {
		if h, ok := pre.Find(n.ID); ok {
			e.Canon.ID(h.PhysicalIDA)
			e.Canon.ID(h.PhysicalIDB)
		}
	}
}

func join(xs []string) string {
	if len(xs) == 0 {
		return "-"
	}
	return strings.Join(xs, ",")
}

// initLines renders the initial handle images / blobs / counts of everything the write set names and the write
// set itself as Model P input lines (same format as commitx.Emit).
func initLines(c *txk.Canon, ws []common.VerifNode, deltasIn [][3]any, itemsIn [][3]any, pre *commitx.DiskState, before commitx.Dump) ([]string, []string) {
	var out []string
	byStore := map[string][]common.VerifNode{}
	var stores []string
	for _, n := range ws {
		if _, ok := byStore[n.Store]; !ok {
			stores = append(stores, n.Store)
		}
		byStore[n.Store] = append(byStore[n.Store], n)
	}
	for _, d := range deltasIn {
		name := d[0].(string)
		if _, ok := byStore[name]; !ok {
			byStore[name] = nil
			stores = append(stores, name)
		}
	}
	sort.Strings(stores)
	for _, n := range ws {
		if h, ok := pre.Find(n.ID); ok {
			out = append(out, "h "+strings.ReplaceAll(c.Handle(h), ":", " "))
		}
	}
	var blobs []string
	for _, n := range ws {
		if h, ok := pre.Find(n.ID); ok {
			for _, id := range []sop.UUID{h.PhysicalIDA, h.PhysicalIDB} {
				if !id.IsNil() && pre.HasBlob(id) {
					blobs = append(blobs, c.ID(id))
				}
			}
		}
	}
	if len(blobs) > 0 {
		out = append(out, "b "+strings.Join(blobs, ","))
	}
	for _, name := range stores {
		if sd, ok := before[name]; ok {
			out = append(out, fmt.Sprintf("cnt %d %d", storeIdx(name), sd.Count))
		}
	}
	deltas := map[string]int64{}
	for _, d := range deltasIn {
		deltas[d[0].(string)] = d[1].(int64) - d[2].(int64)
	}
	itemsOf := map[string]int{}
	tracked := map[string]bool{}
	for _, it := range itemsIn {
		itemsOf[it[0].(string)] = it[2].(int)
		tracked[it[0].(string)] = it[1].(bool)
	}
	for _, name := range stores {
		var root, upd, rem, add, fet []string
		for _, n := range byStore[name] {
			id := c.ID(n.ID)
			switch n.Action {
			case "root":
				root = append(root, id)
			case "update":
				upd = append(upd, fmt.Sprintf("%s:%d", id, n.Version))
			case "remove":
				rem = append(rem, fmt.Sprintf("%s:%d", id, n.Version))
			case "add":
				add = append(add, id)
			case "get":
				fet = append(fet, fmt.Sprintf("%s:%d", id, n.Version))
			}
		}
		cr := "0"
		if _, ok := before[name]; !ok {
			cr = "1"
		}
		tr := "0"
		if tracked[name] {
			tr = "1"
		}
		out = append(out, fmt.Sprintf("store %d created=%s root=%s upd=%s rem=%s add=%s fet=%s items=%d tracked=%s delta=%d",
			storeIdx(name), cr, join(root), join(upd), join(rem), join(add), join(fet), itemsOf[name], tr, deltas[name]))
	}
	return out, stores
}

func namesOnDisk(dir string, c *txk.Canon, extra ...sop.UUID) map[string]int {
	m := map[string]int{}
	put := func(u sop.UUID) {
		if u.IsNil() {
			return
		}
		if n := c.Name(u); n != "" {
			k, _ := strconv.Atoi(n)
			m[u.String()] = k
		}
	}
	if ds, err := commitx.ReadDisk(dir); err == nil {
		for _, hs := range ds.Handles {
			for _, h := range hs {
				put(h.LogicalID)
				put(h.PhysicalIDA)
				put(h.PhysicalIDB)
			}
		}
		for _, ids := range ds.BlobFiles {
			for _, id := range ids {
				put(id)
			}
		}
	}
	for _, u := range extra {
		put(u)
	}
	return m
}

// childTarget: args = workdir k. Runs setup + target; dies right before call k of Commit (k = 0: no crash).
func childTarget(args []string) error {
	if len(args) < 2 {
		return fmt.Errorf("cx-target <workdir> <k>")
	}
	work := args[0]
	k, _ := strconv.Atoi(args[1])
	var pr commitx.Program
	if err := readJSON(filepath.Join(work, "prog.json"), &pr); err != nil {
		return err
	}
	ctx := context.Background()
	dir := filepath.Join(work, "data")
	e := txk.NewEnv(dir, 3)
	e.ColdRestart()
	if err := commitx.RunSetup(ctx, e, pr); err != nil {
		return writeJSON(filepath.Join(work, "pre.json"), PreInfo{Prog: pr, OpenErr: "setup: " + err.Error()})
	}
	before, err := commitx.ReadAll(ctx, e)
	if err != nil {
		return fmt.Errorf("before dump: %w", err)
	}
	pre, err := commitx.ReadDisk(dir)
	if err != nil {
		return err
	}
	e.ColdRestart()
	sc := txk.NewScript(e.Canon)
	t, err := e.NewTxn(ctx, sop.ForWriting, time.Minute, sc)
	if err != nil {
		return err
	}
	if err := t.T.Begin(ctx); err != nil {
		return err
	}
	bs, opres, err := applyOps(ctx, t, pr, pr.Target, e)
	if err != nil {
		t.T.Rollback(ctx)
		return writeJSON(filepath.Join(work, "pre.json"), PreInfo{Prog: pr, OpenErr: err.Error()})
	}
	exp := commitx.Dump{}
	for i, b := range bs {
		exp[storeName(i)] = commitx.StoreDump{Count: b.Count()}
	}
	res := &commitx.Result{OpResults: opres, Expected: exp}
	ws := common.VerifWriteSet(t.P)
	nameWriteSet(e, ws, pre)
	items := common.VerifItemCounts(t.P)
	lines, stores := initLines(e.Canon, ws, common.VerifCountDeltas(t.P), items, pre, before)
	noTracked := true
	for _, it := range items {
		if it[1].(bool) {
			noTracked = false
		}
	}
	pi := PreInfo{Prog: pr, Before: before, Expected: commitx.ExpectedAfter(before, pr, res), InitLines: lines, N0: e.Canon.Next(),
		Tid: t.P.GetID().String(), Stores: stores, NoTracked: noTracked}
	if err := writeJSON(filepath.Join(work, "pre.json"), pi); err != nil {
		return err
	}
	start := sc.N() + 1
	var wsIDs []sop.UUID
	for _, n := range ws {
		wsIDs = append(wsIDs, n.ID)
	}
	// every id that was on disk BEFORE the commit keeps its name in the recovering process too: cleanup may have deleted
	// a removed node's handle and blob before the crash, and the recovery names them again (finalizeCommit payload)
	for _, hs := range pre.Handles {
		for _, h := range hs {
			wsIDs = append(wsIDs, h.LogicalID, h.PhysicalIDA, h.PhysicalIDB)
		}
	}
	for _, ids := range pre.BlobFiles {
		wsIDs = append(wsIDs, ids...)
	}
	dump := func(completed bool, cerr error) {
		var tr []string
		for _, l := range sc.Calls {
			if l.Idx >= start {
				tr = append(tr, l.String())
			}
		}
		ci := CrashInfo{K: k, Trace: tr, Names: namesOnDisk(dir, e.Canon, append(wsIDs, t.P.GetID())...), Completed: completed}
		if cerr != nil {
			ci.CommitErr = cerr.Error()
		}
		writeJSON(filepath.Join(work, "crash.json"), ci)
	}
	if k > 0 {
		at := start + k - 1
		sc.Gate = func(idx int, name string) {
			if idx == at {
				dump(false, nil)
			}
		}
		sc.CrashAt = at
	}
	cerr := t.T.Commit(ctx)
	dump(true, cerr)
	return nil
}

var durable = map[string]bool{"reg.Add": true, "reg.Update": true, "reg.UpdateNoLocks": true, "reg.Remove": true, "blob.Add": true,
	"blob.Remove": true, "sr.Update": true, "sr.Remove": true, "sr.Add": true, "tlog.Add": true, "tlog.Remove": true, "plog.Add": true, "plog.Remove": true}

// Durable keeps the calls that change what is on disk.
func Durable(lines []string) []string {
	var out []string
	for _, l := range lines {
		if durable[strings.SplitN(l, " ", 2)[0]] {
			out = append(out, l)
		}
	}
	return out
}

var shift = ClockShift

// StepMinutes: clock advance between two public transactions of the recovering process.
const StepMinutes = 3

func installClock() {
	sop.Now = func() time.Time { return time.Now().Add(shift) }
}

// preloadCanon rebuilds the dead process's canonical numbering in this process.
func preloadCanon(names map[string]int) *txk.Canon {
	c := txk.NewCanon()
	byNum := map[int]sop.UUID{}
	max := 0
	for s, n := range names {
		u, err := sop.ParseUUID(s)
		if err != nil {
			continue
		}
		byNum[n] = u
		if n > max {
			max = n
		}
	}
	for i := 1; i <= max; i++ {
		if u, ok := byNum[i]; ok {
			c.ID(u)
		} else {
			c.ID(sop.NewUUID()) // a name whose id is nowhere on disk
		}
	}
	return c
}

// knownIDs: canonical ids mentioned by the model input lines (handles, blobs, write set, fresh).
func knownIDs(lines []string) []string {
	seen := map[int]bool{}
	add := func(tok string) {
		if k, err := strconv.Atoi(tok); err == nil && k > 0 {
			seen[k] = true
		}
	}
	for _, l := range lines {
		f := strings.Fields(l)
		if len(f) == 0 {
			continue
		}
		switch f[0] {
		case "h":
			add(f[1])
			add(f[2])
			add(f[3])
		case "b":
			for _, t := range strings.Split(f[1], ",") {
				add(t)
			}
		case "fresh":
			for _, p := range strings.Split(f[1], ",") {
				for _, t := range strings.Split(p, ":") {
					add(t)
				}
			}
		case "store":
			for _, kv := range f[2:] {
				parts := strings.SplitN(kv, "=", 2)
				if len(parts) != 2 {
					continue
				}
				switch parts[0] {
				case "root", "add":
					for _, t := range strings.Split(parts[1], ",") {
						add(t)
					}
				case "upd", "rem", "fet":
					for _, p := range strings.Split(parts[1], ",") {
						add(strings.Split(p, ":")[0])
					}
				}
			}
		}
	}
	var ks []int
	for k := range seen {
		ks = append(ks, k)
	}
	sort.Ints(ks)
	out := make([]string, len(ks))
	for i, k := range ks {
		out[i] = strconv.Itoa(k)
	}
	return out
}

// FreshLine derives the `fresh` model line from the reservation write of the (crashed) commit, if it was reached.
func FreshLine(trace []string, n0 int) string {
	seen := map[string]bool{}
	var pairs []string
	for _, l := range trace {
		if !strings.HasPrefix(l, "reg.UpdateNoLocks [") {
			continue
		}
		body := strings.TrimPrefix(strings.Split(l, "]")[0], "reg.UpdateNoLocks [")
		for _, img := range strings.Fields(body) {
			f := strings.Split(img, ":")
			if len(f) != 7 {
				continue
			}
			in := f[2]
			if f[3] == "1" {
				in = f[1]
			}
			k, _ := strconv.Atoi(in)
			if k > n0 && !seen[in] {
				seen[in] = true
				pairs = append(pairs, f[0]+":"+in)
			}
		}
	}
	if len(pairs) == 0 {
		return ""
	}
	return "fresh " + strings.Join(pairs, ",")
}

// stateLine renders the on-disk state restricted to the known ids, in the model's format.
func stateLine(c *txk.Canon, ids []string, ds *commitx.DiskState, counts map[string]int64, tid string) string {
	want := map[string]bool{}
	for _, i := range ids {
		want[i] = true
	}
	type kv struct {
		n int
		s string
	}
	var hs, bl []kv
	for _, tbl := range ds.Handles {
		for _, h := range tbl {
			if nm := c.Name(h.LogicalID); nm != "" && want[nm] {
				k, _ := strconv.Atoi(nm)
				hs = append(hs, kv{k, c.Handle(h)})
			}
		}
	}
	for _, ids := range ds.BlobFiles {
		for _, id := range ids {
			if nm := c.Name(id); nm != "" && want[nm] {
				k, _ := strconv.Atoi(nm)
				bl = append(bl, kv{k, nm})
			}
		}
	}
	sort.Slice(hs, func(i, j int) bool { return hs[i].n < hs[j].n })
	sort.Slice(bl, func(i, j int) bool { return bl[i].n < bl[j].n })
	var hss, bls, cs []string
	for _, x := range hs {
		hss = append(hss, x.s)
	}
	for _, x := range bl {
		bls = append(bls, x.s)
	}
	var names []string
	for n := range counts {
		names = append(names, n)
	}
	sort.Slice(names, func(i, j int) bool { return storeIdx(names[i]) < storeIdx(names[j]) })
	for _, n := range names {
		cs = append(cs, fmt.Sprintf("%s=%d", n, counts[n]))
	}
	tl, pl := 0, 0
	for _, f := range ds.TLogs {
		if strings.Contains(f, tid) {
			tl = 1
		}
	}
	for _, f := range ds.PLogs {
		if strings.Contains(f, tid) {
			pl = 1
		}
	}
	return fmt.Sprintf("reg=[%s] blobs=[%s] cnt=[%s] tlog=%d plog=%d", strings.Join(hss, " "), strings.Join(bls, ","), strings.Join(cs, " "), tl, pl)
}

// storeCounts reads the stores' counts from the store repository files (no caches involved: fresh Env).
func storeCounts(ctx context.Context, e *txk.Env, names []string) map[string]int64 {
	out := map[string]int64{}
	_ = e.AsOtherProcess(func(o *txk.Env) error {
		t, err := o.NewTxn(ctx, sop.ForReading, time.Minute, nil)
		if err != nil {
			return err
		}
		have, err := t.P.GetStores(ctx)
		if err != nil {
			return err
		}
		hs := map[string]bool{}
		for _, n := range have {
			hs[n] = true
		}
		for _, n := range names {
			if !hs[n] {
				continue
			}
			sis, err := t.P.StoreRepository.Get(ctx, n)
			if err == nil && len(sis) == 1 {
				out[n] = sis[0].Count
			}
		}
		return nil
	})
	return out
}

// childRecover: args = workdir mode n. A fresh process with the clock advanced.
func childRecover(args []string) error {
	if len(args) < 3 {
		return fmt.Errorf("cx-recover <workdir> c08|c09 <n>")
	}
	work, mode := args[0], args[1]
	n, _ := strconv.Atoi(args[2])
	var pi PreInfo
	var ci CrashInfo
	if err := readJSON(filepath.Join(work, "pre.json"), &pi); err != nil {
		return err
	}
	if err := readJSON(filepath.Join(work, "crash.json"), &ci); err != nil {
		return err
	}
	installClock()
	ctx := context.Background()
	dir := filepath.Join(work, "data")
	e := txk.NewEnv(dir, 3)
	e.Canon = preloadCanon(ci.Names)
	e.ColdRestart()
	ri := RecInfo{}
	lines := append([]string(nil), pi.InitLines...)
	if fl := FreshLine(ci.Trace, pi.N0); fl != "" {
		lines = append(lines, fl)
	}
	ids := knownIDs(lines)
	ri.KnownIDs = ids
	ri.StoreIdx = pi.Stores
	ds0, err := commitx.ReadDisk(dir)
	if err != nil {
		return err
	}
	ri.CrashState = stateLine(e.Canon, ids, ds0, storeCounts(ctx, e, pi.Stores), pi.Tid)

	switch mode {
	case "c08":
		sc := txk.NewScript(e.Canon)
		t, err := e.NewTxn(ctx, sop.ForWriting, time.Minute, sc)
		if err != nil {
			return err
		}
		if err := t.T.Begin(ctx); err != nil {
			return err
		}
		// the recovery helpers need one attached store (t.btreesBackend[0])
		if _, err := txk.OpenBtree[int, string](ctx, t, storeName(0)); err != nil {
			ri.Problems = append(ri.Problems, "recovering transaction cannot open st0: "+err.Error())
		} else {
			if _, err := common.VerifDoPriorityRollbacks(ctx, t.P); err != nil {
				ri.RecErrs = append(ri.RecErrs, "doPriorityRollbacks: "+err.Error())
			}
			for i := 0; i < 3; i++ {
				if err := common.VerifProcessExpiredLogs(ctx, t.P); err != nil {
					ri.RecErrs = append(ri.RecErrs, "processExpiredTransactionLogs: "+err.Error())
				}
			}
		}
		ri.RecTrace = Durable(sc.Lines())
		t.T.Rollback(ctx)
	case "c09", "c09idle":
		for i := 0; i < n; i++ {
			sc := txk.NewScript(e.Canon)
			a0, b0 := common.VerifIdleClocks()
			t, err := e.NewTxn(ctx, sop.ForWriting, time.Minute, sc)
			if err != nil {
				return err
			}
			if err := t.T.Begin(ctx); err != nil {
				return err
			}
			st := ""
			var own []string // calls made before this transaction's own Commit (the maintenance, if any)
			if b, err := txk.OpenBtree[int, string](ctx, t, storeName(0)); err != nil {
				st = " open-err"
				own = sc.Lines()
				t.T.Rollback(ctx)
			} else {
				b.Count()
				if mode == "c09idle" {
					common.VerifOnIdle(ctx, t.P)
				}
				own = sc.Lines()
				if err := t.T.Commit(ctx); err != nil {
					st = " commit-err"
				}
			}
			a1, b1 := common.VerifIdleClocks()
			ri.Idle = append(ri.Idle, fmt.Sprintf("exp=%v prio=%v%s", a1 != a0, b1 != b0, st))
			ri.RecTrace = append(ri.RecTrace, Durable(own)...)
			shift += time.Duration(StepMinutes) * time.Minute
		}
	default:
		return fmt.Errorf("mode %q", mode)
	}

	ds1, err := commitx.ReadDisk(dir)
	if err != nil {
		return err
	}
	ri.RecState = stateLine(e.Canon, ids, ds1, storeCounts(ctx, e, pi.Stores), pi.Tid)
	ri.TLogs, ri.PLogs = ds1.TLogs, ds1.PLogs
	for _, f := range ds1.TLogs {
		if strings.Contains(f, pi.Tid) {
			ri.CrashedLog = true
		}
	}
	for _, f := range ds1.PLogs {
		if strings.Contains(f, pi.Tid) {
			ri.CrashedPlg = true
		}
	}
	for _, hs := range ds1.Handles {
		for _, h := range hs {
			if h.WorkInProgressTimestamp > 1 {
				ri.Reserved = append(ri.Reserved, e.Canon.Handle(h))
			}
		}
	}
	sort.Strings(ri.Reserved)
	if d, err := commitx.ReadAll(ctx, e); err != nil {
		ri.AfterErr = err.Error()
	} else {
		ri.After = d
	}
	if r, err := commitx.Walk(ctx, e, ds1); err != nil {
		ri.Problems = append(ri.Problems, "walk failed: "+err.Error())
	} else {
		ri.Problems = append(ri.Problems, r.Problems...)
	}
	// follow-up writer on the same keys
	e.ColdRestart()
	func() {
		t, err := e.NewTxn(ctx, sop.ForWriting, time.Minute, nil)
		if err != nil {
			ri.FollowErr = err.Error()
			return
		}
		if err := t.T.Begin(ctx); err != nil {
			ri.FollowErr = err.Error()
			return
		}
		var ops []commitx.Op
		seen := map[string]bool{}
		for i, o := range pi.Prog.Target {
			key := fmt.Sprintf("%d/%d", o.Store, o.Key)
			if seen[key] {
				continue
			}
			seen[key] = true
			v := fmt.Sprintf("f%d", i)
			ops = append(ops, commitx.Op{Store: o.Store, Kind: "ups", Key: o.Key, Val: v})
			ri.FollowWant = append(ri.FollowWant, fmt.Sprintf("%s:%d=%s", storeName(o.Store), o.Key, v))
		}
		if _, _, err := applyOps(ctx, t, pi.Prog, ops, e); err != nil {
			ri.FollowErr = "ops: " + err.Error()
			t.T.Rollback(ctx)
			return
		}
		if err := t.T.Commit(ctx); err != nil {
			ri.FollowErr = "commit: " + err.Error()
			return
		}
		ri.FollowOK = true
	}()
	if d, err := commitx.ReadAll(ctx, e); err != nil {
		ri.After2Err = err.Error()
	} else {
		ri.After2 = d
	}
	return writeJSON(filepath.Join(work, "rec.json"), ri)
}

// RunChild re-executes this binary with a sub-command; returns the exit code.
func RunChild(args ...string) (int, string) {
	bin := os.Getenv("VERIF_DRIVE")
	if bin == "" {
		bin = os.Args[0]
	}
	cmd := exec.Command(bin, args...)
	cmd.Env = os.Environ()
	out, err := cmd.CombinedOutput()
	tail := string(out)
	if len(tail) > 1500 {
		tail = tail[len(tail)-1500:]
	}
	if err != nil {
		if ee, ok := err.(*exec.ExitError); ok {
			return ee.ExitCode(), tail
		}
		return -1, err.Error()
	}
	return 0, tail
}
