// Package ecx is the shared Go side of properties C25 and C26: it drives the real fs.BlobStoreWithEC
// (fs.NewBlobStoreWithEC over temp directories, the real fs.NewFileIO behind a fault-injecting
// decorator) in a CHILD PROCESS, because a panic inside sop.TaskRunner's errgroup goroutine cannot be
// recovered by the caller: a child that dies in the middle of a case = outcome "panic".
package ecx

import (
	"bufio"
	"bytes"
	"context"
	"errors"
	"fmt"
	"io"
	"log/slog"
	"os"
	"os/exec"
	"path/filepath"
	"runtime"
	"strconv"
	"strings"
	"sync"

	"github.com/klauspost/reedsolomon"
	"github.com/sharedcode/sop"
	"github.com/sharedcode/sop/fs"
	"github.com/sharedcode/sop/fs/erasure"

	"verifharness/hx"
)

const Table = "tb"

// Case is one scenario: a blob is added (with shard-write faults), shard files are damaged, the blob
// is read; for C26 (Repair) the files are inspected, damaged a second time and read again.
type Case struct {
	D, P   int
	Repair bool
	Size   int
	Salt   int
	Mode   int      // data pattern, see GenData
	FailW  []string // per shard: "-" ok, "w" WriteFile fails, "k" MkdirAll fails
	Dmg    []string // per shard damage before the first read
	Dmg2   []string // per shard damage before the second read (nil: no second read)
}

// Result is what the implementation did. A phase that never reported (child died) is "panic".
type Result struct {
	Add    string // ok | err | panic
	Get    string // ok:eq | ok:wrong:<len> | err | panic | -
	Rep    string // shard indices rewritten during the first read, in call order, csv or "-"
	Files  string // per shard after the first read: g (byte-equal to a fresh encode) | b | m (absent)
	Get2   string
	Detail string // first lines of the child's stderr when it died
}

// GenData is the data pattern both sides compute (the Lean driver has the same definition).
func GenData(size, salt, mode int) []byte {
	b := make([]byte, size)
	for i := range b {
		switch mode {
		case 1:
			b[i] = 0
		default:
			b[i] = byte((i*131 + salt + i/7) % 256)
		}
	}
	if mode == 2 && size > 0 {
		b[size-1] = 0
		if size > 1 {
			b[size-2] = 0
		}
	}
	return b
}

func (c Case) Line() string {
	j := func(x []string) string {
		if len(x) == 0 {
			return "-"
		}
		return strings.Join(x, ",")
	}
	r := 0
	if c.Repair {
		r = 1
	}
	return fmt.Sprintf("%d %d %d %d %d %d %s %s %s", c.D, c.P, r, c.Size, c.Salt, c.Mode, j(c.FailW), j(c.Dmg), j(c.Dmg2))
}

func ParseCase(line string) (Case, error) {
	f := strings.Fields(line)
	if len(f) != 9 {
		return Case{}, fmt.Errorf("bad case line %q", line)
	}
	var n [6]int
	for i := 0; i < 6; i++ {
		v, err := strconv.Atoi(f[i])
		if err != nil {
			return Case{}, err
		}
		n[i] = v
	}
	sp := func(s string) []string {
		if s == "-" {
			return nil
		}
		return strings.Split(s, ",")
	}
	return Case{D: n[0], P: n[1], Repair: n[2] == 1, Size: n[3], Salt: n[4], Mode: n[5], FailW: sp(f[6]), Dmg: sp(f[7]), Dmg2: sp(f[8])}, nil
}

// ---- fault-injecting FileIO over the real one ----

type faultIO struct {
	fs.FileIO
	mu      sync.Mutex
	failW   map[int]bool // shard index -> WriteFile fails
	failDir map[int]bool // drive index -> MkdirAll fails
	drives  []string
	writes  []int // shard indices of WriteFile calls, in order
}

func shardIndexOf(name string) int {
	k := strings.LastIndexByte(name, '_')
	if k < 0 {
		return -1
	}
	v, err := strconv.Atoi(name[k+1:])
	if err != nil {
		return -1
	}
	return v
}

func (f *faultIO) WriteFile(ctx context.Context, name string, data []byte, perm os.FileMode) error {
	i := shardIndexOf(name)
	f.mu.Lock()
	f.writes = append(f.writes, i)
	fail := f.failW[i]
	f.mu.Unlock()
	if fail {
		return errors.New("induced shard write failure")
	}
	return f.FileIO.WriteFile(ctx, name, data, perm)
}

func (f *faultIO) MkdirAll(ctx context.Context, path string, perm os.FileMode) error {
	f.mu.Lock()
	fail := false
	for i, d := range f.drives {
		if f.failDir[i] && strings.HasPrefix(path, d+string(os.PathSeparator)) {
			fail = true
		}
	}
	f.mu.Unlock()
	if fail {
		return errors.New("induced mkdir failure")
	}
	return f.FileIO.MkdirAll(ctx, path, perm)
}

// ---- one case, in-process (only ever called in the child) ----

func shardFile(drive string, id sop.UUID, i int) string {
	base := fmt.Sprintf("%s%c%s", drive, os.PathSeparator, Table)
	fp := fs.DefaultToFilePath(base, id)
	return fmt.Sprintf("%s%c%s_%d", fp, os.PathSeparator, id.String(), i)
}

// ApplyDamage alters one shard file. Kinds: g | m | t<n> | c<k> | k<j> | z<v>.
// A body byte is flipped in a bit that depends on the shard index, so that simultaneous flips in several
// shards never add up to another valid code word (the model's driver uses per-shard deltas with the same property).
func ApplyDamage(path, kind string, shard int, alt, orig func(int) []byte) error {
	if kind == "g" || kind == "" {
		return nil
	}
	if kind == "m" {
		err := os.Remove(path)
		if os.IsNotExist(err) {
			return nil
		}
		return err
	}
	b, err := os.ReadFile(path)
	if err != nil {
		if os.IsNotExist(err) {
			return nil // damage to an absent file: still absent
		}
		return err
	}
	if kind == "o" { // the body of the same shard of ANOTHER blob (first byte changed), old metadata kept
		if len(b) >= erasure.MetaDataSize {
			b = append(append([]byte(nil), b[:erasure.MetaDataSize]...), alt(shard)...)
		}
		return os.WriteFile(path, b, 0o644)
	}
	n, err := strconv.Atoi(kind[1:])
	if err != nil {
		return fmt.Errorf("bad damage %q", kind)
	}
	switch kind[0] {
	case 't':
		if n < len(b) {
			b = b[:n]
		}
	case 'c': // a body byte becomes the original one with one bit flipped (idempotent)
		if len(b) > erasure.MetaDataSize {
			pos := n % (len(b) - erasure.MetaDataSize)
			if o := orig(shard); pos < len(o) {
				b[erasure.MetaDataSize+pos] = o[pos] ^ (byte(1) << (shard % 8))
			} else {
				b[erasure.MetaDataSize+pos] ^= byte(1) << (shard % 8)
			}
		}
	case 'k': // flip a checksum byte
		if len(b) >= erasure.MetaDataSize {
			b[1+n%16]++ // not an involution: the same damage twice is still damage (the model adds 1 mod 256 too)
		}
	case 'z': // set the pad-count byte
		if len(b) >= 1 {
			b[0] = byte(n)
		}
	default:
		return fmt.Errorf("bad damage %q", kind)
	}
	return os.WriteFile(path, b, 0o644)
}

func classify(got []byte, err error, want []byte) string {
	if err != nil {
		return "err"
	}
	if bytes.Equal(got, want) {
		return "ok:eq"
	}
	return fmt.Sprintf("ok:wrong:%d", len(got))
}

// runCase executes c and reports every finished phase through emit (flushed at once, so that the parent
// knows how far the child got when it dies).
type store struct {
	bs     sop.BlobStore
	fio    *faultIO
	drives []string
	ec     *erasure.Erasure
	rs     reedsolomon.Encoder // same construction as erasure.NewErasure, for accidental()
}

// accidental reports whether the shard bodies that are present in full length, although at least one of
// them differs from the original, happen to be mutually consistent (more of them than d, all on one code
// word). The model's corruption never is (see deltas in lean/Sop/Driver/Ecx.lean); the generated flips
// must not be either, or the two sides would legitimately disagree. The code is linear, so it is enough
// to look at the error pattern.
func (st *store) accidental(d int, orig [][]byte, have [][]byte) bool {
	n := len(orig)
	var P []int
	dirty := false
	e := make([][]byte, n)
	for i := 0; i < n; i++ {
		if have[i] == nil || len(have[i]) != len(orig[i]) {
			continue
		}
		P = append(P, i)
		e[i] = make([]byte, len(orig[i]))
		for k := range e[i] {
			e[i][k] = have[i][k] ^ orig[i][k]
			if e[i][k] != 0 {
				dirty = true
			}
		}
	}
	if !dirty || len(P) <= d {
		return false
	}
	sh := make([][]byte, n)
	for _, i := range P[:d] {
		sh[i] = append([]byte(nil), e[i]...)
	}
	if err := st.rs.Reconstruct(sh); err != nil {
		return false
	}
	for _, i := range P[d:] {
		if !bytes.Equal(sh[i], e[i]) {
			return false
		}
	}
	return true
}

// damageAll applies one phase of damage; body flips are re-rolled until they are not accidentally consistent.
func (st *store) damageAll(c Case, dmg []string, id sop.UUID, data []byte, alt func(int) []byte) error {
	n := c.D + c.P
	var orig [][]byte
	if c.Size > 0 {
		var err error
		if orig, err = st.ec.Encode(append([]byte(nil), data...)); err != nil {
			return err
		}
	}
	ob := func(i int) []byte {
		if i < len(orig) {
			return orig[i]
		}
		return nil
	}
	for i, k := range dmg {
		if err := ApplyDamage(shardFile(st.drives[i], id, i), k, i, alt, ob); err != nil {
			return err
		}
	}
	last := -1
	for i, k := range dmg {
		if k != "" && k[0] == 'c' {
			last = i
		}
	}
	if last < 0 || c.Size == 0 {
		return nil
	}
	for try := 0; try < 16; try++ {
		have := make([][]byte, n)
		for i := 0; i < n; i++ {
			b, err := os.ReadFile(shardFile(st.drives[i], id, i))
			if err == nil && len(b) >= erasure.MetaDataSize {
				have[i] = b[erasure.MetaDataSize:]
			}
		}
		if !st.accidental(c.D, orig, have) {
			return nil
		}
		// flip one more bit of the last flipped shard's body (stays different from the original)
		p := shardFile(st.drives[last], id, last)
		b, err := os.ReadFile(p)
		if err != nil || len(b) <= erasure.MetaDataSize {
			return nil
		}
		var k int
		fmt.Sscanf(dmg[last][1:], "%d", &k)
		pos := erasure.MetaDataSize + k%(len(b)-erasure.MetaDataSize)
		b[pos] = orig[last][pos-erasure.MetaDataSize] ^ byte(3+2*try)
		if err := os.WriteFile(p, b, 0o644); err != nil {
			return err
		}
	}
	return fmt.Errorf("could not find a non-accidental corruption for %v", dmg)
}

var stores = map[string]*store{}

// storeFor builds (once per geometry and child: reedsolomon.New is expensive) the blob store under test.
func storeFor(root string, c Case) (*store, error) {
	// shape of the erasure configuration (chosen by the case's salt; the behaviour must not depend on it):
	// 0 the blob table has its own entry; 1 only the default entry ""; 2 the default entry plus another table's
	shape := c.Salt % 3
	key := fmt.Sprintf("%d-%d-%v-%d", c.D, c.P, c.Repair, shape)
	if st, ok := stores[key]; ok {
		return st, nil
	}
	n := c.D + c.P
	dir := filepath.Join(root, key)
	drives := make([]string, n)
	for i := range drives {
		drives[i] = filepath.Join(dir, fmt.Sprintf("d%d", i))
		if err := os.MkdirAll(drives[i], 0o755); err != nil {
			return nil, err
		}
	}
	fio := &faultIO{FileIO: fs.NewFileIO(), failW: map[int]bool{}, failDir: map[int]bool{}, drives: drives}
	entry := sop.ErasureCodingConfig{DataShardsCount: c.D, ParityShardsCount: c.P,
		BaseFolderPathsAcrossDrives: drives, RepairCorruptedShards: c.Repair}
	cfg := map[string]sop.ErasureCodingConfig{Table: entry}
	switch shape {
	case 1:
		cfg = map[string]sop.ErasureCodingConfig{"": entry}
	case 2:
		cfg = map[string]sop.ErasureCodingConfig{"": entry, "zz_other_table": entry}
	}
	bs, err := fs.NewBlobStoreWithEC(nil, fio, cfg)
	if err != nil {
		return nil, err
	}
	ec, err := erasure.NewErasure(c.D, c.P)
	if err != nil {
		return nil, err
	}
	rs, err := reedsolomon.New(c.D, c.P)
	if err != nil {
		return nil, err
	}
	st := &store{bs: bs, fio: fio, drives: drives, ec: ec, rs: rs}
	stores[key] = st
	return st, nil
}

func runCase(root string, seq int, c Case, emit func(string)) error {
	ctx := context.Background()
	n := c.D + c.P
	st, err := storeFor(root, c)
	if err != nil {
		return err
	}
	bs, fio, drives := st.bs, st.fio, st.drives
	fio.mu.Lock()
	fio.failW, fio.failDir, fio.writes = map[int]bool{}, map[int]bool{}, nil
	for i, k := range c.FailW {
		switch k {
		case "w":
			fio.failW[i] = true
		case "k":
			fio.failDir[i] = true
		}
	}
	fio.mu.Unlock()
	var id sop.UUID
	id[0], id[1], id[2], id[3] = byte(seq>>24), byte(seq>>16), byte(seq>>8), byte(seq)
	id[15] = 0x25
	defer func() {
		for i := 0; i < n; i++ {
			os.RemoveAll(filepath.Join(drives[i], Table))
		}
	}()
	data := GenData(c.Size, c.Salt, c.Mode)
	// the blob store may keep (and the encoder may write into spare capacity of) the slice: hand in a copy
	in := append(make([]byte, 0, len(data)), data...)
	err = bs.Add(ctx, []sop.BlobsPayload[sop.KeyValuePair[sop.UUID, []byte]]{{BlobTable: Table,
		Blobs: []sop.KeyValuePair[sop.UUID, []byte]{{Key: id, Value: in}}}})
	if err != nil {
		emit("add=err")
	} else {
		emit("add=ok")
	}
	if !bytes.Equal(in, data) {
		emit("note=add-mutated-input")
	}
	fio.mu.Lock()
	fio.failW, fio.failDir = map[int]bool{}, map[int]bool{}
	fio.writes = nil
	fio.mu.Unlock()
	if len(c.Dmg) == 0 {
		return nil
	}
	alt := func(i int) []byte {
		d2 := append([]byte(nil), data...)
		d2[0]++
		sh, err := st.ec.Encode(d2)
		if err != nil {
			panic(err)
		}
		return sh[i]
	}
	if err := st.damageAll(c, c.Dmg, id, data, alt); err != nil {
		return err
	}
	got, err := bs.GetOne(ctx, Table, id)
	letTheDoomedDie()
	emit("get=" + classify(got, err, data))
	fio.mu.Lock()
	w := make([]string, len(fio.writes))
	for i, x := range fio.writes {
		w[i] = strconv.Itoa(x)
	}
	fio.writes = nil
	fio.mu.Unlock()
	if len(w) == 0 {
		emit("rep=-")
	} else {
		emit("rep=" + strings.Join(w, ","))
	}
	// every shard file against a fresh encode of the original data
	fst := make([]byte, n)
	if c.Size > 0 {
		ec := st.ec
		sh, err := ec.Encode(append([]byte(nil), data...))
		if err != nil {
			return err
		}
		for i := 0; i < n; i++ {
			want := append(ec.ComputeShardMetadata(len(data), sh, i), sh[i]...)
			have, err := os.ReadFile(shardFile(drives[i], id, i))
			switch {
			case err != nil:
				fst[i] = 'm'
			case bytes.Equal(have, want):
				fst[i] = 'g'
			default:
				fst[i] = 'b'
			}
		}
	} else {
		for i := range fst {
			fst[i] = 'm'
		}
	}
	emit("files=" + string(fst))
	if len(c.Dmg2) == 0 {
		return nil
	}
	if err := st.damageAll(c, c.Dmg2, id, data, alt); err != nil {
		return err
	}
	emit(">get2")
	got, err = bs.GetOne(ctx, Table, id)
	letTheDoomedDie()
	emit("get2=" + classify(got, err, data))
	return nil
}

// letTheDoomedDie: when a worker goroutine of GetOne panics, errgroup's deferred wg.Done() runs during
// the unwinding, so GetOne's caller becomes runnable BEFORE the runtime kills the process; if the
// panicking goroutine is descheduled at that moment (GC safepoint, preemption) the caller can run on and
// even return a result from a process that is already dead. The child runs with GOMAXPROCS=1; yielding
// here lets every other runnable goroutine (the dying one) run to its end before anything is reported.
func letTheDoomedDie() {
	for i := 0; i < 8; i++ {
		runtime.Gosched()
	}
}

// ChildMain is the extra sub-command "ecchild": case lines on stdin, one result line per case on stdout.
func ChildMain(args []string) error {
	slog.SetDefault(slog.New(slog.NewTextHandler(io.Discard, nil)))
	// Shard files are tiny and every case creates and removes a directory tree per drive: on the
	// sandbox's disk that is ~15 ms per case, on tmpfs ~3 ms. Nothing about the property depends on the
	// medium (fault injection is explicit), so prefer tmpfs when it is there.
	base := hx.WorkRoot()
	if st, err := os.Stat("/dev/shm"); err == nil && st.IsDir() && os.Getenv("VERIF_EC_ON_DISK") == "" {
		base = "/dev/shm"
	}
	root, err := os.MkdirTemp(base, "ecx-")
	if err != nil {
		return err
	}
	defer os.RemoveAll(root)
	in := bufio.NewScanner(os.Stdin)
	in.Buffer(make([]byte, 1<<20), 1<<20)
	out := os.Stdout
	seq := 0
	if len(args) > 0 {
		seq, _ = strconv.Atoi(args[0])
	}
	for in.Scan() {
		c, err := ParseCase(in.Text())
		if err != nil {
			return err
		}
		seq++
		emit := func(s string) { fmt.Fprint(out, s+" ") }
		if err := runCase(root, seq, c, emit); err != nil {
			os.RemoveAll(root)
			return err
		}
		fmt.Fprintln(out, "end")
	}
	return in.Err()
}

// ---- parent side ----

type Runner struct {
	cmd    *exec.Cmd
	in     io.WriteCloser
	out    *bufio.Reader
	errb   *bytes.Buffer
	seq    int
	Spawns int
}

func (r *Runner) start() error {
	bin := os.Getenv("VERIF_DRIVE")
	if bin == "" {
		bin = os.Args[0]
	}
	r.cmd = exec.Command(bin, "ecchild", strconv.Itoa(r.seq))
	// One P in the child: when a worker goroutine panics, errgroup's deferred wg.Done() runs during the
	// unwinding, i.e. BEFORE the runtime kills the process, and on a second P the caller of GetOne could
	// run on (and even return data) in the microseconds the process still has to live.
	r.cmd.Env = append(os.Environ(), "GOMAXPROCS=1")
	var err error
	if r.in, err = r.cmd.StdinPipe(); err != nil {
		return err
	}
	op, err := r.cmd.StdoutPipe()
	if err != nil {
		return err
	}
	r.out = bufio.NewReaderSize(op, 1<<16)
	r.errb = &bytes.Buffer{}
	r.cmd.Stderr = r.errb
	r.Spawns++
	return r.cmd.Start()
}

func (r *Runner) Close() {
	if r.cmd != nil {
		r.in.Close()
		r.cmd.Wait()
		r.cmd = nil
	}
}

// Run executes one case in the child; a child that dies mid-case yields "panic" for the phase it was in.
func (r *Runner) Run(c Case) (Result, error) {
	if r.cmd == nil {
		if err := r.start(); err != nil {
			return Result{}, err
		}
	}
	r.seq++
	if _, err := fmt.Fprintln(r.in, c.Line()); err != nil {
		return Result{}, err
	}
	line, rerr := r.out.ReadString('\n')
	res := Result{Add: "-", Get: "-", Rep: "-", Files: "-", Get2: "-"}
	complete := false
	second := false
	for _, tok := range strings.Fields(line) {
		switch {
		case tok == ">get2":
			second = true
		case tok == "end":
			complete = true
		case strings.HasPrefix(tok, "add="):
			res.Add = tok[4:]
		case strings.HasPrefix(tok, "get="):
			res.Get = tok[4:]
		case strings.HasPrefix(tok, "rep="):
			res.Rep = tok[4:]
		case strings.HasPrefix(tok, "files="):
			res.Files = tok[6:]
		case strings.HasPrefix(tok, "get2="):
			res.Get2 = tok[5:]
		case strings.HasPrefix(tok, "note="):
			res.Detail += tok + " "
		}
	}
	if complete {
		return res, nil
	}
	// the child died (or failed) in the middle of this case
	r.in.Close()
	werr := r.cmd.Wait()
	stderr := r.errb.String()
	r.cmd = nil
	if !strings.Contains(stderr, "panic:") && !strings.Contains(stderr, "fatal error:") {
		return res, fmt.Errorf("ec child failed without a panic: %v %v: %s", rerr, werr, firstLines(stderr, 6))
	}
	res.Detail += firstLines(stderr, 3)
	// The process is dead: whatever the doomed main goroutine still managed to print for the phase in
	// which the panic happened does not count.
	switch {
	case res.Add == "-":
		res.Add = "panic"
	case !second:
		res.Get, res.Rep, res.Files = "panic", "-", "-"
	default:
		res.Get2 = "panic"
	}
	return res, nil
}

func firstLines(s string, n int) string {
	var out []string
	for _, l := range strings.Split(s, "\n") {
		l = strings.TrimSpace(l)
		if l == "" || strings.HasPrefix(l, "goroutine ") {
			continue
		}
		out = append(out, l)
		if len(out) == n {
			break
		}
	}
	return strings.Join(out, " | ")
}

// Variant probes which Decode/GetOne the tree has: "orig" (a shard file shorter than its 17-byte
// metadata prefix kills the process) or "fixed". The model driver is told, so that the correspondence
// is checked against the transcription of the code that is actually there; the direct oracle does not
// depend on it.
func (r *Runner) Variant() (string, error) {
	res, err := r.Run(Case{D: 2, P: 1, Size: 5, Salt: 1, Dmg: []string{"t5", "g", "g"}})
	if err != nil {
		return "", err
	}
	if res.Get == "panic" {
		return "orig", nil
	}
	return "fixed", nil
}

// ---- generators shared by C25 and C26 ----

var Kinds = []string{"m", "t0", "t5", "t16", "t17", "t18", "c", "k", "z"}

// Configs returns the (d,p) grid of the tier.
func Configs(thorough bool) [][2]int {
	md, mp := 3, 2
	if thorough {
		md, mp = 4, 3
	}
	var out [][2]int
	for d := 1; d <= md; d++ {
		for p := 1; p <= mp; p++ {
			out = append(out, [2]int{d, p})
		}
	}
	return out
}

func Sizes(d int, thorough bool) []int {
	s := []int{1, d - 1, d, d + 1, 4*d + 3, 259}
	if thorough {
		s = append(s, 4099)
	}
	seen := map[int]bool{}
	var out []int
	for _, x := range s {
		if x >= 1 && !seen[x] {
			seen[x] = true
			out = append(out, x)
		}
	}
	return out
}

// PadOf is the pad count the encoder stores for a blob of the given size.
func PadOf(size, d int) int {
	if size%d != 0 {
		return d - size%d
	}
	return 0
}

// ShardLen is the length of every shard body.
func ShardLen(size, d int) int { return (size + d - 1) / d }

// Concrete turns a kind class into a concrete damage token for a blob of this geometry.
func Concrete(p *hx.Prng, kind string, size, d int) string {
	switch kind {
	case "c":
		return "c" + strconv.Itoa(p.Intn(ShardLen(size, d)))
	case "k":
		return "k" + strconv.Itoa(p.Intn(16))
	case "z":
		pad := PadOf(size, d)
		v := p.Intn(6)
		if p.Chance(1, 4) {
			v = 200 + p.Intn(56)
		}
		if v == pad {
			v = pad + 1
		}
		return "z" + strconv.Itoa(v)
	}
	return kind
}

// Effective says whether a damage token changes the shard file at all (t18 on an 18-byte file does not).
func Effective(tok string, size, d int) bool {
	if tok == "g" || tok == "" {
		return false
	}
	if tok[0] == 't' {
		n, _ := strconv.Atoi(tok[1:])
		return n < erasure.MetaDataSize+ShardLen(size, d)
	}
	return true
}
