package ecx

import (
	"fmt"
	"strings"

	"verifharness/hx"
)

// Damage summary of one read, computed from the tokens alone (the oracle's reference, independent of the model).
type Summary struct {
	D         int  // shard files that differ from what was written (or were never written)
	Short     bool // some present file is shorter than the 17-byte metadata prefix
	Missing   int  // absent files
	Body      int  // present files (>= 17 bytes) whose body or checksum field is damaged
	MetaOnly  int  // present files whose body is intact but whose metadata (checksum or pad byte) is not
	PadDecides bool // the first file whose checksum field matches its body carries a changed pad-count byte
	PadAny    bool
	Swapped   int // present files whose body is the (valid) body of another blob's shard
}

// Summarise: state[i] is the token history of shard i since it was last written ("m" for a failed write).
func Summarise(state []string, size, d int) Summary {
	var s Summary
	decided := false
	for _, tok := range state {
		eff := Effective(tok, size, d)
		if eff {
			s.D++
		}
		switch {
		case !eff:
			if !decided {
				decided = true
			}
		case tok == "m":
			s.Missing++
		case tok[0] == 't':
			var n int
			fmt.Sscanf(tok[1:], "%d", &n)
			if n < 17 {
				s.Short = true
			} else {
				s.Body++
			}
		case tok == "o":
			s.Body++
			s.Swapped++
		case tok[0] == 'c':
			s.Body++
		case tok[0] == 'k':
			s.MetaOnly++
		case tok[0] == 'z':
			s.MetaOnly++
			s.PadAny = true
			if !decided {
				decided = true
				s.PadDecides = true
			}
		}
	}
	return s
}

// ReadSignature classifies a read outcome that violates C25 (empty = no violation), from the damage
// summary. Every signature names one mechanism.
func ReadSignature(class string, s Summary, p int) (sig, what string) {
	within := s.D <= p
	switch {
	case class == "ok:eq":
		return "", ""
	case class == "err" && !within:
		return "", ""
	case s.PadDecides && (class == "panic" || class == "err" || strings.HasPrefix(class, "ok:wrong")):
		if class == "panic" {
			return "C25/pad-count-byte-panic", "a changed pad-count byte (first metadata byte, not covered by the checksum) larger than the decoded size makes Decode call make() with a negative length"
		}
		return "C25/pad-count-byte-unprotected", "the pad-count byte (first metadata byte) is not covered by the shard checksum: when it is changed in the shard whose metadata Decode trusts, the blob is returned with the wrong length (or refused)"
	case class == "panic" && s.Short:
		return "C25/panic-short-shard-file", "a shard file shorter than the 17-byte metadata prefix makes a GetOne worker goroutine slice out of range; the process dies"
	case class == "panic":
		return "C25/panic-nil-metadata", "Decode reaches detectBadShardsThenReconstruct with a missing shard (nil metadata) and slices the nil entry; the process dies"
	case strings.HasPrefix(class, "ok:wrong") && !within && s.Swapped > p && s.Missing == 0 && !s.Short:
		return "C25/consistent-corruption-passes-verify", "more than p shard bodies replaced by the bodies of another blob's shards (every one fails its checksum): all shards are present and consistent, Verify passes and Decode never looks at the checksums; the other blob is returned"
	case strings.HasPrefix(class, "ok:wrong") && !within:
		return "C25/wrong-bytes-beyond-parity", "more than p damaged shards: a corrupted shard is used to reconstruct the missing ones, Verify passes trivially and GetOne returns wrong bytes with a nil error"
	case strings.HasPrefix(class, "ok:wrong"):
		return "C25/wrong-bytes-within-parity", "at most p damaged shards but GetOne returns wrong bytes with a nil error"
	case class == "err" && within:
		return "C25/error-within-parity", "at most p damaged shards but GetOne returns an error (a shard truncated at or after its metadata prefix, or a corrupted shard next to a missing one)"
	}
	return "C25/unclassified", "unexpected outcome " + class
}

// SubsetCases enumerates, for one geometry, every subset of damaged shards with `mixes` random kind assignments each.
func SubsetCases(p *hx.Prng, d, par, size, mixes int, kinds []string, f func(dmg []string)) {
	n := d + par
	for mask := 0; mask < 1<<n; mask++ {
		m := mixes
		if mask == 0 {
			m = 1
		}
		for k := 0; k < m; k++ {
			dmg := make([]string, n)
			for i := 0; i < n; i++ {
				if mask&(1<<i) != 0 {
					dmg[i] = Concrete(p, kinds[p.Intn(len(kinds))], size, d)
				} else {
					dmg[i] = "g"
				}
			}
			f(dmg)
		}
	}
}

func Csv(x []string) string {
	if len(x) == 0 {
		return "-"
	}
	return strings.Join(x, ",")
}

func KindClass(tok string) string {
	if tok == "g" || tok == "m" || tok == "o" {
		return tok
	}
	if tok[0] == 't' {
		return tok
	}
	return tok[:1]
}
