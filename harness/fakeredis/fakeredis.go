// Package fakeredis is a small in-process RESP2 server, enough of Redis for the sop adapters/redis client
// (go-redis v9): strings with expiry under a harness-controlled clock. It refuses HELLO so go-redis falls
// back to RESP2. One mutex serialises all commands (Redis is single-threaded); pipelines are executed
// command by command, like Redis does.
//
//	srv, _ := fakeredis.Start()          // listens on 127.0.0.1:<free port>
//	defer srv.Close()
//	srv.Addr()                           // "127.0.0.1:NNNNN" for redis.Options.Address
//	srv.Advance(1500 * time.Millisecond) // move the server clock
//	srv.Dump()                           // visible keys, sorted
//
// Supported: HELLO(→error) AUTH SELECT CLIENT PING ECHO QUIT COMMAND INFO FLUSHDB FLUSHALL DBSIZE
// SET (NX|XX, EX|PX|EXAT|PXAT|KEEPTTL, GET) SETNX SETEX PSETEX GET GETEX (EX|PX|PERSIST) GETDEL MGET DEL UNLINK
// EXISTS EXPIRE PEXPIRE PERSIST TTL PTTL KEYS. Anything else answers an error (and is counted in Unknown()).
package fakeredis

import (
	"bufio"
	"fmt"
	"io"
	"net"
	"sort"
	"strconv"
	"strings"
	"sync"
	"time"
)

type entry struct {
	val   string
	expMs int64 // absolute server time in ms; 0 = no expiry
}

// Server is one fake Redis instance.
type Server struct {
	mu      sync.Mutex
	ln      net.Listener
	data    map[string]entry
	nowMs   int64
	conns   map[net.Conn]bool
	log     []string
	logOn   bool
	unknown map[string]int
	ncmd    int64
	// Hook, when set, runs (under the server mutex) before every command; it may call AdvanceLocked.
	Hook func(s *Server, cmd []string)
}

// Start listens on a free loopback port. The clock starts at 1_000_000 ms.
func Start() (*Server, error) {
	ln, err := net.Listen("tcp", "127.0.0.1:0")
	if err != nil {
		return nil, err
	}
	s := &Server{ln: ln, data: map[string]entry{}, nowMs: 1_000_000, conns: map[net.Conn]bool{}, unknown: map[string]int{}}
	go s.accept()
	return s, nil
}

func (s *Server) Addr() string { return s.ln.Addr().String() }

func (s *Server) Close() {
	s.ln.Close()
	s.mu.Lock()
	for c := range s.conns {
		c.Close()
	}
	s.mu.Unlock()
}

// Advance moves the server clock forward.
func (s *Server) Advance(d time.Duration) {
	s.mu.Lock()
	s.nowMs += d.Milliseconds()
	s.mu.Unlock()
}

// AdvanceLocked is Advance for use inside Hook.
func (s *Server) AdvanceLocked(d time.Duration) { s.nowMs += d.Milliseconds() }

// NowMs is the server clock.
func (s *Server) NowMs() int64 { s.mu.Lock(); defer s.mu.Unlock(); return s.nowMs }

// Reset drops all keys (clock and connections stay).
func (s *Server) Reset() {
	s.mu.Lock()
	s.data = map[string]entry{}
	s.mu.Unlock()
}

// KV is one visible key.
type KV struct {
	Key, Val string
	TTLMs    int64 // -1 = no expiry
}

// Dump returns the visible (unexpired) keys sorted by name.
func (s *Server) Dump() []KV {
	s.mu.Lock()
	defer s.mu.Unlock()
	var out []KV
	for k, e := range s.data {
		if e.expMs != 0 && e.expMs <= s.nowMs {
			continue
		}
		t := int64(-1)
		if e.expMs != 0 {
			t = e.expMs - s.nowMs
		}
		out = append(out, KV{k, e.val, t})
	}
	sort.Slice(out, func(i, j int) bool { return out[i].Key < out[j].Key })
	return out
}

// Lookup reads one key without going through a connection.
func (s *Server) Lookup(key string) (string, bool) {
	s.mu.Lock()
	defer s.mu.Unlock()
	e, ok := s.get(key)
	return e.val, ok
}

// RecordCommands switches the command log on/off; Commands returns and clears it.
func (s *Server) RecordCommands(on bool) { s.mu.Lock(); s.logOn = on; s.log = nil; s.mu.Unlock() }
func (s *Server) Commands() []string {
	s.mu.Lock()
	defer s.mu.Unlock()
	l := s.log
	s.log = nil
	return l
}

// Unknown returns the commands that were refused, with counts.
func (s *Server) Unknown() map[string]int {
	s.mu.Lock()
	defer s.mu.Unlock()
	m := map[string]int{}
	for k, v := range s.unknown {
		m[k] = v
	}
	return m
}

// CommandCount is the number of commands executed so far.
func (s *Server) CommandCount() int64 { s.mu.Lock(); defer s.mu.Unlock(); return s.ncmd }

func (s *Server) accept() {
	for {
		c, err := s.ln.Accept()
		if err != nil {
			return
		}
		s.mu.Lock()
		s.conns[c] = true
		s.mu.Unlock()
		go s.serve(c)
	}
}

func (s *Server) serve(c net.Conn) {
	defer func() {
		c.Close()
		s.mu.Lock()
		delete(s.conns, c)
		s.mu.Unlock()
	}()
	r := bufio.NewReader(c)
	w := bufio.NewWriter(c)
	for {
		cmd, err := readCommand(r)
		if err != nil {
			return
		}
		if len(cmd) == 0 {
			continue
		}
		s.mu.Lock()
		if s.Hook != nil {
			s.Hook(s, cmd)
		}
		reply := s.exec(cmd)
		s.mu.Unlock()
		w.WriteString(reply)
		// flush when the client has nothing more queued (end of a pipeline)
		if r.Buffered() == 0 {
			if w.Flush() != nil {
				return
			}
		}
		if strings.EqualFold(cmd[0], "QUIT") {
			w.Flush()
			return
		}
	}
}

func readCommand(r *bufio.Reader) ([]string, error) {
	line, err := r.ReadString('\n')
	if err != nil {
		return nil, err
	}
	line = strings.TrimRight(line, "\r\n")
	if line == "" {
		return nil, nil
	}
	if line[0] != '*' { // inline command
		return strings.Fields(line), nil
	}
	n, err := strconv.Atoi(line[1:])
	if err != nil || n < 0 {
		return nil, fmt.Errorf("bad multibulk %q", line)
	}
	out := make([]string, 0, n)
	for i := 0; i < n; i++ {
		h, err := r.ReadString('\n')
		if err != nil {
			return nil, err
		}
		h = strings.TrimRight(h, "\r\n")
		if h == "" || h[0] != '$' {
			return nil, fmt.Errorf("bad bulk header %q", h)
		}
		l, err := strconv.Atoi(h[1:])
		if err != nil || l < 0 {
			return nil, fmt.Errorf("bad bulk length %q", h)
		}
		buf := make([]byte, l+2)
		if _, err := io.ReadFull(r, buf); err != nil {
			return nil, err
		}
		out = append(out, string(buf[:l]))
	}
	return out, nil
}

const (
	ok      = "+OK\r\n"
	nilBulk = "$-1\r\n"
)

func bulk(s string) string  { return "$" + strconv.Itoa(len(s)) + "\r\n" + s + "\r\n" }
func integer(n int64) string { return ":" + strconv.FormatInt(n, 10) + "\r\n" }
func errReply(m string) string { return "-" + m + "\r\n" }

// get returns the entry when visible, deleting it lazily when expired (caller holds mu).
func (s *Server) get(k string) (entry, bool) {
	e, found := s.data[k]
	if !found {
		return entry{}, false
	}
	if e.expMs != 0 && e.expMs <= s.nowMs {
		delete(s.data, k)
		return entry{}, false
	}
	return e, true
}

func (s *Server) exec(cmd []string) string {
	s.ncmd++
	name := strings.ToUpper(cmd[0])
	a := cmd[1:]
	if s.logOn {
		s.log = append(s.log, name+" "+strings.Join(a, " "))
	}
	wrong := errReply("ERR wrong number of arguments for '" + strings.ToLower(name) + "' command")
	switch name {
	case "HELLO":
		return errReply("ERR unknown command 'HELLO'")
	case "AUTH", "SELECT", "CLIENT", "FLUSHDB", "FLUSHALL", "QUIT":
		if name == "FLUSHDB" || name == "FLUSHALL" {
			s.data = map[string]entry{}
		}
		return ok
	case "PING":
		if len(a) == 1 {
			return bulk(a[0])
		}
		return "+PONG\r\n"
	case "ECHO":
		if len(a) != 1 {
			return wrong
		}
		return bulk(a[0])
	case "COMMAND":
		return "*0\r\n"
	case "INFO":
		return bulk("# Server\r\nredis_version:7.0.0-fake\r\nrun_id:fakeredis\r\n")
	case "DBSIZE":
		n := int64(0)
		for k := range s.data {
			if _, v := s.get(k); v {
				n++
			}
		}
		return integer(n)
	case "KEYS":
		var ks []string
		for k := range s.data {
			if _, v := s.get(k); v {
				ks = append(ks, k)
			}
		}
		sort.Strings(ks)
		out := "*" + strconv.Itoa(len(ks)) + "\r\n"
		for _, k := range ks {
			out += bulk(k)
		}
		return out
	case "SET":
		return s.cmdSet(a)
	case "SETNX":
		if len(a) != 2 {
			return wrong
		}
		if _, v := s.get(a[0]); v {
			return integer(0)
		}
		s.data[a[0]] = entry{val: a[1]}
		return integer(1)
	case "SETEX", "PSETEX":
		if len(a) != 3 {
			return wrong
		}
		n, err := strconv.ParseInt(a[1], 10, 64)
		if err != nil || n <= 0 {
			return errReply("ERR invalid expire time in '" + strings.ToLower(name) + "' command")
		}
		if name == "SETEX" {
			n *= 1000
		}
		s.data[a[0]] = entry{val: a[2], expMs: s.nowMs + n}
		return ok
	case "GET":
		if len(a) != 1 {
			return wrong
		}
		if e, v := s.get(a[0]); v {
			return bulk(e.val)
		}
		return nilBulk
	case "GETDEL":
		if len(a) != 1 {
			return wrong
		}
		if e, v := s.get(a[0]); v {
			delete(s.data, a[0])
			return bulk(e.val)
		}
		return nilBulk
	case "GETEX":
		if len(a) < 1 {
			return wrong
		}
		e, v := s.get(a[0])
		if !v {
			return nilBulk
		}
		for i := 1; i < len(a); i++ {
			switch strings.ToUpper(a[i]) {
			case "PERSIST":
				e.expMs = 0
			case "EX", "PX", "EXAT", "PXAT":
				if i+1 >= len(a) {
					return errReply("ERR syntax error")
				}
				n, err := strconv.ParseInt(a[i+1], 10, 64)
				if err != nil || n <= 0 {
					return errReply("ERR invalid expire time in 'getex' command")
				}
				e.expMs = s.absExpiry(strings.ToUpper(a[i]), n)
				i++
			default:
				return errReply("ERR syntax error")
			}
		}
		s.data[a[0]] = e
		return bulk(e.val)
	case "MGET":
		out := "*" + strconv.Itoa(len(a)) + "\r\n"
		for _, k := range a {
			if e, v := s.get(k); v {
				out += bulk(e.val)
			} else {
				out += nilBulk
			}
		}
		return out
	case "DEL", "UNLINK":
		n := int64(0)
		for _, k := range a {
			if _, v := s.get(k); v {
				delete(s.data, k)
				n++
			}
		}
		return integer(n)
	case "EXISTS":
		n := int64(0)
		for _, k := range a {
			if _, v := s.get(k); v {
				n++
			}
		}
		return integer(n)
	case "EXPIRE", "PEXPIRE":
		if len(a) < 2 {
			return wrong
		}
		n, err := strconv.ParseInt(a[1], 10, 64)
		if err != nil {
			return errReply("ERR value is not an integer or out of range")
		}
		e, v := s.get(a[0])
		if !v {
			return integer(0)
		}
		if name == "EXPIRE" {
			n *= 1000
		}
		if n <= 0 {
			delete(s.data, a[0])
			return integer(1)
		}
		e.expMs = s.nowMs + n
		s.data[a[0]] = e
		return integer(1)
	case "PERSIST":
		if len(a) != 1 {
			return wrong
		}
		e, v := s.get(a[0])
		if !v || e.expMs == 0 {
			return integer(0)
		}
		e.expMs = 0
		s.data[a[0]] = e
		return integer(1)
	case "TTL", "PTTL":
		if len(a) != 1 {
			return wrong
		}
		e, v := s.get(a[0])
		if !v {
			return integer(-2)
		}
		if e.expMs == 0 {
			return integer(-1)
		}
		rem := e.expMs - s.nowMs
		if name == "TTL" {
			rem = (rem + 999) / 1000
		}
		return integer(rem)
	}
	s.unknown[name]++
	return errReply("ERR unknown command '" + cmd[0] + "'")
}

func (s *Server) absExpiry(unit string, n int64) int64 {
	switch unit {
	case "EX":
		return s.nowMs + n*1000
	case "PX":
		return s.nowMs + n
	case "EXAT":
		return n * 1000
	default: // PXAT
		return n
	}
}

func (s *Server) cmdSet(a []string) string {
	if len(a) < 2 {
		return errReply("ERR wrong number of arguments for 'set' command")
	}
	key, val := a[0], a[1]
	var nx, xx, keepttl, wantOld bool
	var exp int64
	for i := 2; i < len(a); i++ {
		switch u := strings.ToUpper(a[i]); u {
		case "NX":
			nx = true
		case "XX":
			xx = true
		case "KEEPTTL":
			keepttl = true
		case "GET":
			wantOld = true
		case "EX", "PX", "EXAT", "PXAT":
			if i+1 >= len(a) {
				return errReply("ERR syntax error")
			}
			n, err := strconv.ParseInt(a[i+1], 10, 64)
			if err != nil || n <= 0 {
				return errReply("ERR invalid expire time in 'set' command")
			}
			exp = s.absExpiry(u, n)
			i++
		default:
			return errReply("ERR syntax error")
		}
	}
	old, exists := s.get(key)
	oldReply := nilBulk
	if exists {
		oldReply = bulk(old.val)
	}
	if (nx && exists) || (xx && !exists) {
		if wantOld {
			return oldReply
		}
		return nilBulk
	}
	e := entry{val: val, expMs: exp}
	if keepttl && exists {
		e.expMs = old.expMs
	}
	s.data[key] = e
	if wantOld {
		return oldReply
	}
	return ok
}
