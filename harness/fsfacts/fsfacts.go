// Package fsfacts regenerates lean/Sop/Gen/Facts.lean (namespace Sop.Facts): layout constants of the
// filesystem registry, shared by the C21–C24 models.
package fsfacts

import (
	"github.com/sharedcode/sop"
	"github.com/sharedcode/sop/fs"

	"verifharness/hx"
)

func Facts() []hx.Fact {
	return []hx.Fact{
		hx.NatFact("handleSizeInBytes", sop.HandleSizeInBytes),
		hx.NatFact("handlesPerBlock", fs.VerifHandlesPerBlock()),
		hx.NatFact("blockSize", fs.VerifBlockSize()),
	}
}
