module verifharness

go 1.26.4

require (
	github.com/google/uuid v1.6.0
	github.com/klauspost/reedsolomon v1.12.4
	github.com/sethvargo/go-retry v0.3.0
	github.com/sharedcode/sop v0.0.0
	github.com/sharedcode/sop/adapters/redis v0.0.0
	github.com/sharedcode/sop/ai v0.0.0
	github.com/sharedcode/sop/infs v0.0.0
	github.com/sharedcode/sop/jsondb v0.0.0
	github.com/sharedcode/sop/search v0.0.0
)

require (
	cel.dev/expr v0.23.1 // indirect
	github.com/antlr4-go/antlr/v4 v4.13.0 // indirect
	github.com/cespare/xxhash/v2 v2.3.0 // indirect
	github.com/dgryski/go-rendezvous v0.0.0-20200823014737-9f7001d12a5f // indirect
	github.com/goccy/go-json v0.9.11 // indirect
	github.com/gocql/gocql v1.7.0 // indirect
	github.com/golang/snappy v1.0.0 // indirect
	github.com/google/cel-go v0.25.0 // indirect
	github.com/hailocab/go-hostpool v0.0.0-20160125115350-e80d13ce29ed // indirect
	github.com/klauspost/cpuid/v2 v2.3.0 // indirect
	github.com/ncw/directio v1.0.5 // indirect
	github.com/redis/go-redis/v9 v9.8.0 // indirect
	github.com/sharedcode/sop/adapters/cassandra v0.0.0-00010101000000-000000000000 // indirect
	github.com/sharedcode/sop/incfs v0.0.0-00010101000000-000000000000 // indirect
	github.com/stoewer/go-strcase v1.2.0 // indirect
	golang.org/x/exp v0.0.0-20260410095643-746e56fc9e2f // indirect
	golang.org/x/sync v0.20.0 // indirect
	google.golang.org/genproto/googleapis/api v0.0.0-20250303144028-a0af3efb3deb // indirect
	google.golang.org/genproto/googleapis/rpc v0.0.0-20250303144028-a0af3efb3deb // indirect
	google.golang.org/protobuf v1.36.9 // indirect
	gopkg.in/inf.v0 v0.9.1 // indirect
)

replace github.com/sharedcode/sop => /repo

replace github.com/sharedcode/sop/infs => /repo/infs

replace github.com/sharedcode/sop/incfs => /repo/incfs

replace github.com/sharedcode/sop/jsondb => /repo/jsondb

replace github.com/sharedcode/sop/search => /repo/search

replace github.com/sharedcode/sop/ai => /repo/ai

replace github.com/sharedcode/sop/adapters/redis => /repo/adapters/redis

replace github.com/sharedcode/sop/adapters/cassandra => /repo/adapters/cassandra
