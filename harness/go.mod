module verifharness

go 1.26.4

require (
	github.com/sharedcode/sop v0.0.0
	github.com/sharedcode/sop/adapters/redis v0.0.0
	github.com/sharedcode/sop/ai v0.0.0
	github.com/sharedcode/sop/infs v0.0.0
	github.com/sharedcode/sop/jsondb v0.0.0
	github.com/sharedcode/sop/search v0.0.0
)

require (
	github.com/goccy/go-json v0.9.11 // indirect
	github.com/google/uuid v1.6.0 // indirect
	github.com/klauspost/cpuid/v2 v2.3.0 // indirect
	github.com/klauspost/reedsolomon v1.12.4 // indirect
	github.com/ncw/directio v1.0.5 // indirect
	github.com/sethvargo/go-retry v0.3.0 // indirect
	golang.org/x/sync v0.20.0 // indirect
)

replace github.com/sharedcode/sop => /repo

replace github.com/sharedcode/sop/infs => /repo/infs

replace github.com/sharedcode/sop/incfs => /repo/incfs

replace github.com/sharedcode/sop/jsondb => /repo/jsondb

replace github.com/sharedcode/sop/search => /repo/search

replace github.com/sharedcode/sop/ai => /repo/ai

replace github.com/sharedcode/sop/adapters/redis => /repo/adapters/redis

replace github.com/sharedcode/sop/adapters/cassandra => /repo/adapters/cassandra
