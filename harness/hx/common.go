// Package hx is the shared part of the /verif harness: PRNG, the line protocol session, the report
// the orchestrator (/verif/check) reads, and the facts writer.
package hx

import (
	"bufio"
	"crypto/sha256"
	"encoding/hex"
	"encoding/json"
	"flag"
	"fmt"
	"os"
	"path/filepath"
	"sort"
	"strings"
)

// ---- PRNG: every random choice of a run derives from one splitmix64 state ----

type Prng struct{ s uint64 }

func NewPrng(seed uint64) *Prng { return &Prng{s: seed*0x9E3779B97F4A7C15 + 0x1234567} }

func (p *Prng) U64() uint64 {
	p.s += 0x9E3779B97F4A7C15
	z := p.s
	z = (z ^ (z >> 30)) * 0xBF58476D1CE4E5B9
	z = (z ^ (z >> 27)) * 0x94D049BB133111EB
	return z ^ (z >> 31)
}
func (p *Prng) Intn(n int) int {
	if n <= 0 {
		return 0
	}
	return int(p.U64() % uint64(n))
}
func (p *Prng) Chance(num, den int) bool { return p.Intn(den) < num }
func (p *Prng) Fork() *Prng               { return NewPrng(p.U64()) }

// ---- run options common to all drivers ----

type RunOpts struct {
	Tier   string
	Seed   uint64
	Out    string
	Replay string
	Scale  int
}

func ParseOpts(args []string) RunOpts {
	fs := flag.NewFlagSet("drive", flag.ExitOnError)
	var o RunOpts
	fs.StringVar(&o.Tier, "tier", "quick", "quick|thorough")
	fs.Uint64Var(&o.Seed, "seed", 1, "seed")
	fs.StringVar(&o.Out, "out", "", "output directory")
	fs.StringVar(&o.Replay, "replay", "", "replay file (ops of one case)")
	fs.IntVar(&o.Scale, "scale", 1, "multiply case counts")
	fs.Parse(args)
	if o.Out == "" {
		fmt.Fprintln(os.Stderr, "-out required")
		os.Exit(2)
	}
	os.MkdirAll(o.Out, 0o755)
	if o.Scale < 1 {
		o.Scale = 1
	}
	return o
}

func (o RunOpts) Thorough() bool { return o.Tier == "thorough" }

// n picks the case count for the tier.
func (o RunOpts) N(quick, thorough int) int {
	if o.Thorough() {
		return thorough * o.Scale
	}
	return quick * o.Scale
}

// ---- the line protocol: ops.txt goes to the Lean driver, impl.txt is what the real code answered ----

type OracleFailure struct {
	Signature string   `json:"signature"`
	What      string   `json:"what"`
	Case      int      `json:"case"`
	Ops       []string `json:"ops,omitempty"`
	Detail    string   `json:"detail,omitempty"`
}

type Report struct {
	Evaluations        int              `json:"evaluations"`
	DistinctNontrivial int              `json:"distinct_nontrivial"`
	Rule               string           `json:"rule"`
	Samples            [][]string       `json:"samples"`
	Histogram          map[string]int   `json:"histogram"`
	OracleFailures     []OracleFailure  `json:"oracle_failures"`
	Notes              []string         `json:"notes,omitempty"`
	Exhaustive         bool             `json:"exhaustive,omitempty"`
	CoverageGap        []string         `json:"coverage_gap,omitempty"`
	Extra              map[string]any   `json:"extra,omitempty"`
}

type Session struct {
	O        RunOpts
	ops      *bufio.Writer
	impl     *bufio.Writer
	fops     *os.File
	fimpl    *os.File
	Rep      Report
	seen     map[string]bool
	CaseNo   int
	curOps   []string
	curNontr bool
	maxSamp  int
}

func NewSession(o RunOpts, rule string) *Session {
	fo, err := os.Create(filepath.Join(o.Out, "ops.txt"))
	if err != nil {
		panic(err)
	}
	fi, err := os.Create(filepath.Join(o.Out, "impl.txt"))
	if err != nil {
		panic(err)
	}
	return &Session{O: o, fops: fo, fimpl: fi, ops: bufio.NewWriterSize(fo, 1<<20), impl: bufio.NewWriterSize(fi, 1<<20),
		Rep: Report{Rule: rule, Histogram: map[string]int{}}, seen: map[string]bool{}, maxSamp: 3}
}

// beginCase starts case n; header carries the per-case configuration for the model.
func (s *Session) BeginCase(header string) {
	s.EndCase()
	s.CaseNo++
	s.curOps = s.curOps[:0]
	s.curNontr = false
	line := fmt.Sprintf("case %d %s", s.CaseNo, header)
	line = strings.TrimRight(line, " ")
	fmt.Fprintln(s.ops, line)
	fmt.Fprintf(s.impl, "case %d\n", s.CaseNo)
	s.curOps = append(s.curOps, line)
}

// op records one operation line and what the implementation answered.
func (s *Session) Op(opLine, implOut string) {
	if strings.ContainsAny(opLine, "\n\r") || strings.ContainsAny(implOut, "\n\r") {
		panic("newline in protocol line: " + opLine + " / " + implOut)
	}
	fmt.Fprintln(s.ops, opLine)
	fmt.Fprintln(s.impl, implOut)
	s.curOps = append(s.curOps, opLine)
}

// CurrentOps returns the op lines of the case being written (header first).
func (s *Session) CurrentOps() []string { return s.curOps }

func (s *Session) Hit(k string)         { s.Rep.Histogram[k]++ }
func (s *Session) HitN(k string, n int) { s.Rep.Histogram[k] += n }
func (s *Session) Nontrivial()          { s.curNontr = true }

func (s *Session) Fail(sig, what, detail string) {
	// keep a few failures PER SIGNATURE (not the first N overall: a frequent known finding must never crowd out a
	// new signature), and every signature is counted in the histogram
	if s.Rep.Histogram["oracle_fail:"+sig] < 6 && len(s.Rep.OracleFailures) < 3000 {
		ops := append([]string(nil), s.curOps...)
		s.Rep.OracleFailures = append(s.Rep.OracleFailures, OracleFailure{Signature: sig, What: what, Case: s.CaseNo, Ops: ops, Detail: detail})
	}
	s.Hit("oracle_fail:" + sig)
}

func (s *Session) EndCase() {
	if s.CaseNo == 0 || s.curOps == nil || len(s.curOps) == 0 {
		return
	}
	s.Rep.Evaluations++
	h := sha256.New()
	for i, l := range s.curOps {
		if i == 0 {
			// drop the case number from the hash
			parts := strings.SplitN(l, " ", 3)
			if len(parts) == 3 {
				l = parts[2]
			} else {
				l = ""
			}
		}
		h.Write([]byte(l))
		h.Write([]byte{'\n'})
	}
	key := hex.EncodeToString(h.Sum(nil)[:12])
	if !s.seen[key] {
		s.seen[key] = true
		if s.curNontr {
			s.Rep.DistinctNontrivial++
			if len(s.Rep.Samples) < s.maxSamp {
				smp := append([]string(nil), s.curOps...)
				if len(smp) > 40 {
					smp = append(smp[:40], fmt.Sprintf("… (%d more lines)", len(s.curOps)-40))
				}
				s.Rep.Samples = append(s.Rep.Samples, smp)
			}
		}
	}
	s.curOps = s.curOps[:0]
}

func (s *Session) Finish() error {
	s.EndCase()
	s.ops.Flush()
	s.impl.Flush()
	s.fops.Close()
	s.fimpl.Close()
	keys := make([]string, 0, len(s.Rep.Histogram))
	for k := range s.Rep.Histogram {
		keys = append(keys, k)
	}
	sort.Strings(keys)
	b, err := json.MarshalIndent(s.Rep, "", " ")
	if err != nil {
		return err
	}
	return os.WriteFile(filepath.Join(s.O.Out, "report.json"), b, 0o644)
}

// readReplay returns the op lines of a replay file: either a JSON object with an "ops" array or plain lines.
func ReadReplay(path string) ([]string, error) {
	b, err := os.ReadFile(path)
	if err != nil {
		return nil, err
	}
	var obj struct {
		Ops []string `json:"ops"`
	}
	if json.Unmarshal(b, &obj) == nil && len(obj.Ops) > 0 {
		return obj.Ops, nil
	}
	var out []string
	for _, l := range strings.Split(string(b), "\n") {
		l = strings.TrimRight(l, "\r")
		if l != "" && !strings.HasPrefix(l, "#") {
			out = append(out, l)
		}
	}
	return out, nil
}

func Hexb(b []byte) string { return hex.EncodeToString(b) }

// workRoot is where scratch directories go: $VERIF_WORK (set by ./check) or the OS temp dir.
func WorkRoot() string {
	if w := os.Getenv("VERIF_WORK"); w != "" {
		os.MkdirAll(w, 0o755)
		return w
	}
	return os.TempDir()
}
