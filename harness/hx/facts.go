package hx

import (
	"flag"
	"fmt"
	"os"
	"sort"
	"strings"
)

// Fact is one value compiled out of /repo's current source (the harness binary is rebuilt from it on every
// run): exported constants directly, unexported ones through overlay accessors. It becomes a Lean `def`.
type Fact struct {
	Name string
	Val  string // a Lean term
	Typ  string
}

func NatFact(name string, v int) Fact   { return Fact{name, fmt.Sprint(v), "Nat"} }
func IntFact(name string, v int64) Fact { return Fact{name, fmt.Sprintf("(%d)", v), "Int"} }
func StrFact(name, v string) Fact       { return Fact{name, fmt.Sprintf("%q", v), "String"} }
func StrListFact(name string, v []string) Fact {
	q := make([]string, len(v))
	for i, s := range v {
		q[i] = fmt.Sprintf("%q", s)
	}
	return Fact{name, "[" + strings.Join(q, ", ") + "]", "List String"}
}
func NatListFact(name string, v []int) Fact {
	q := make([]string, len(v))
	for i, s := range v {
		q[i] = fmt.Sprint(s)
	}
	return Fact{name, "[" + strings.Join(q, ", ") + "]", "List Nat"}
}

// WriteFacts renders `namespace <ns> … end <ns>` and writes it only when the content changed.
func WriteFacts(path, ns string, facts []Fact) error {
	sort.SliceStable(facts, func(i, j int) bool { return facts[i].Name < facts[j].Name })
	var b strings.Builder
	b.WriteString("-- GENERATED from /repo by the harness `extract` sub-command on every run. Do not edit.\nnamespace " + ns + "\n")
	for _, f := range facts {
		fmt.Fprintf(&b, "def %s : %s := %s\n", f.Name, f.Typ, f.Val)
	}
	b.WriteString("end " + ns + "\n")
	if path == "" {
		fmt.Print(b.String())
		return nil
	}
	old, _ := os.ReadFile(path)
	if string(old) == b.String() {
		return nil
	}
	return os.WriteFile(path, []byte(b.String()), 0o644)
}

// Main dispatches the sub-commands every property binary has:
//
//	run     -tier T -seed N -out DIR   generate cases, run the real code, write ops.txt / impl.txt / report.json
//	extract -o FILE                    write the regenerated Lean facts (optional)
//
// plus any extra sub-commands (child-process modes) the property needs.
func Main(runFn func(o RunOpts) error, ns string, facts func() []Fact, extra map[string]func(args []string) error) {
	if len(os.Args) < 2 {
		fmt.Fprintln(os.Stderr, "usage: <bin> run|extract [flags]")
		os.Exit(2)
	}
	var err error
	switch os.Args[1] {
	case "run":
		err = runFn(ParseOpts(os.Args[2:]))
	case "extract":
		fl := flag.NewFlagSet("extract", flag.ExitOnError)
		out := fl.String("o", "", "output .lean file")
		fl.Parse(os.Args[2:])
		if facts == nil {
			err = fmt.Errorf("this property has no regenerated facts")
		} else {
			err = WriteFacts(*out, ns, facts())
		}
	default:
		f, ok := extra[os.Args[1]]
		if !ok {
			fmt.Fprintln(os.Stderr, "unknown sub-command", os.Args[1])
			os.Exit(2)
		}
		err = f(os.Args[2:])
	}
	if err != nil {
		fmt.Fprintln(os.Stderr, "harness:", err)
		os.Exit(3)
	}
}
