package occ4

import (
	"context"
	"errors"
	"fmt"
	"sort"
	"strings"

	"verifharness/commitx"
	"verifharness/hx"
	"verifharness/txk"
)

// Outcome is what one driven scenario showed.
type Outcome struct {
	Results []string // per writer: ok | aborted | err:<class>
	Passes  []int    // per writer: times its commit loop reached commitNewRootNodes
	Refused []int    // per writer: node-lock calls that were refused
	Counts  []int64  // cold reader: count after every finished writer (the first entry is the initial state)
	Items   [][]string
	After   []int // which writer finished right before Counts[i] (-1 for the initial dump)
	Steps   int
	// Foreign: at some step the item tracker held an update/remove/add for a key the writer did not update/remove/add
	// (or an operation that reported success was not tracked under its key): the B-tree registered ANOTHER item's
	// identity. This was finding C04-F4 (inner-node removal tracked the leaf successor; repaired in /repo a8e6b837).
	// It is evidence for the direct oracle only: the case is tied to the model like every other. Tracked READS are
	// not looked at (their key is seen through a slot pointer, see trackedArg).
	Foreign bool
	// ReadAliased: at some step the tracked READS of a writer did not name exactly the keys it read. The tracker keeps
	// a pointer into the node's slot array for a read, and the merge replay (Go map order) may replay an add/remove
	// after the read and shift the slots under it; a further refetch then looks the item up under the wrong key and
	// fails "failed to find item" (slot-pointer aliasing: C38's/C17's defect, open). The outcome depends on map
	// order, so such a case is outside the commit-loop model: its protocol lines are not emitted (the direct oracle
	// still judges it).
	ReadAliased bool
	Unfinished  bool
	// ReaderPanics: panics of the real code inside the cold reader (one entry per dump that panicked).
	ReaderPanics []ReaderPanic
	// ProbeCounts / ProbeItems: cold dumps taken while a writer stood at a sub-gate (Scenario.ProbeAtSubPark); for the
	// direct oracle only, never tied to the model (the writer is in the middle of a step).
	Probes int
	// OrphanBlobs: blob files left on disk after all writers finished that nothing reachable from the root refers to.
	OrphanBlobs int
	WalkProblem string
}

func pagesArg(ps []string) string {
	if len(ps) == 0 {
		return "-"
	}
	return strings.Join(ps, ",")
}

// trackedArg renders the tracked actions. Tracked READS are only counted: the tracker keeps a pointer into the node's
// slot array for them, so the key seen through it changes when a later add/remove (or the merge replay, in Go map
// order) shifts the slots (the aliasing defect owned by C17/C38).
func trackedArg(ts []string) string {
	var out []string
	gets := 0
	for _, t := range ts {
		if strings.Contains(t, ":get:") {
			gets++
		} else {
			out = append(out, t)
		}
	}
	out = append(out, fmt.Sprintf("gets*%d", gets))
	return strings.Join(out, ",")
}

func (w *Writer) faultArg() string {
	f := w.Spec.Fault
	switch {
	case f == nil:
		return "none"
	case f.Name == "sr.Update" && f.Kind == txk.FailBefore:
		return "clean"
	case f.Name == "sr.Update" && f.Kind == txk.FailAfter:
		return "count"
	case f.Name == "plog.Add" && f.Kind == txk.FailBefore:
		return "late"
	}
	return "unknown"
}

func (w *Writer) stateArg() string {
	if w.State == "done" {
		if w.Spec.Abort && w.Err == nil {
			return "done:aborted"
		}
		return "done:" + ErrClass(w.Err)
	}
	switch w.ParkedAt {
	case "l2.Lock":
		return "L"
	case "l2.IsLocked":
		return "H"
	case "l2.DualLock":
		return "D"
	case "blob.Add":
		return "B"
	}
	return "?" + w.ParkedAt
}

func resArg(rs []string) string {
	if len(rs) == 0 {
		return "-"
	}
	out := make([]string, len(rs))
	for i, r := range rs {
		out[i] = map[string]string{"true": "t", "false": "f"}[r]
	}
	return strings.Join(out, ",")
}

// InitArg renders the setup transactions for the case header.
func InitArg(init [][]Op) string {
	var ts []string
	for _, ops := range init {
		if len(ops) > 0 {
			ts = append(ts, OpsString(ops))
		}
	}
	if len(ts) == 0 {
		return "-"
	}
	return strings.Join(ts, ";")
}

func dumpLine(c int64, items []string) string {
	out := make([]string, len(items))
	for i, it := range items {
		out[i] = strings.Replace(it, "=v", "=", 1)
	}
	if len(out) == 0 {
		return fmt.Sprintf("count=%d items=-", c)
	}
	return fmt.Sprintf("count=%d items=%s", c, strings.Join(out, ","))
}

// Drive runs the scenario under the schedule (then round-robin until every writer finished), writing one
// protocol line per step: `begin`/`step` lines answered by the writer's observable state, `dump` lines answered by
// what a cold reader sees. rootRace selects the first-root-race protocol (gate at blob.Add).
func Drive(ctx context.Context, s *hx.Session, sc Scenario, sched []int, header string, rootRace bool) (*Outcome, error) {
	r, err := NewRun(ctx, sc)
	if err != nil {
		return nil, err
	}
	defer r.Close()
	caseHeader := strings.TrimSpace(fmt.Sprintf("%s vals=%s maxretry=%d init=%s", header, sc.ValMode(), MaxRetry(), InitArg(sc.Init)))
	o := &Outcome{}
	type pair struct{ op, out string }
	var lines []pair
	var hits []string
	emit := func(op, out string) { lines = append(lines, pair{op, out}) }
	defer func() {
		if o.ReadAliased {
			s.BeginCase(caseHeader + " not-modelled=tracked-read-aliases-slot")
			s.Hit("excluded:tracked_read_aliases_slot")
			return
		}
		s.BeginCase(caseHeader)
		for _, l := range lines {
			s.Op(l.op, l.out)
		}
		for _, h := range hits {
			s.Hit(h)
		}
	}()
	countStruck := false
	dump := func(after int) error {
		if after >= 0 {
			w := r.W[after]
			if w.faultArg() == "count" && ErrClass(w.Err) == "err:injected" {
				countStruck = true
			}
		}
		c, items, err := r.Dump()
		var rp *ReaderPanic
		if errors.As(err, &rp) {
			// the real code panicked inside the cold reader: recorded for the direct oracle; the count was read before
			// the scan, the items read so far are kept and the key being read is marked
			o.ReaderPanics = append(o.ReaderPanics, *rp)
			items = append(items, "!panic")
			err = nil
		}
		if err != nil {
			return err
		}
		if countStruck {
			// the count delta of a failed commit stayed (finding C06-F1): from here on a scan of an EMPTY tree is no
			// longer meaningful (Count > 0 makes First() hand out the zero item of the empty root), so only the stored
			// count is compared with the model; the direct oracle still sees the real scan
			emit("dumpc", fmt.Sprintf("count=%d", c))
		} else {
			emit("dump", dumpLine(c, items))
		}
		o.Counts = append(o.Counts, c)
		o.Items = append(o.Items, items)
		o.After = append(o.After, after)
		return nil
	}
	if err := dump(-1); err != nil {
		return nil, err
	}
	midWas := map[int]string{}
	one := func(i int) error {
		w := r.W[i]
		was := w.State
		if mw, ok := midWas[i]; ok {
			was = mw // the writer resumes from a sub-gate: this completes the step it was in
			delete(midWas, i)
		}
		moved, err := r.Step(i)
		if err != nil {
			return err
		}
		if !moved {
			return nil
		}
		if w.State == "parked" && strings.HasPrefix(w.ParkedAt, "sub:") {
			// parked INSIDE a model step (holding its node locks): the step's protocol line is written when the writer
			// reaches its next model gate; the steps other writers make meanwhile are written in their real order
			midWas[i] = was
			hits = append(hits, "sub_park:"+w.ParkedAt[4:])
			if sc.ProbeAtSubPark {
				// what a cold reader meets while this writer stands there (oracle only)
				o.Probes++
				_, _, perr := r.Dump()
				var rp *ReaderPanic
				if errors.As(perr, &rp) {
					o.ReaderPanics = append(o.ReaderPanics, *rp)
				} else if perr != nil {
					return perr
				}
			}
			return nil
		}
		o.Steps++
		if w.OpenErr != nil {
			return fmt.Errorf("writer %d could not run its operations: %w", i, w.OpenErr)
		}
		c1, c0 := w.Counts()
		obs := fmt.Sprintf("state=%s tracked=%s count=%d/%d", w.stateArg(), trackedArg(w.Tracked()), c1, c0)
		if !rootRace {
			obs += fmt.Sprintf(" passes=%d", w.LoopPasses())
		}
		if w.stateArg() == "done:err:merge" {
			// the tracker and the counters are left half replayed (Go map order): only the result is compared
			obs = "state=done:err:merge"
		}
		pages := pagesArg(w.Pages(r.Env.Canon))
		switch {
		case was == "new" && rootRace:
			emit(fmt.Sprintf("rbegin %d ops=%s pages=%s", i, OpsString(w.Spec.Ops), pages), "res="+resArg(w.OpRes)+" "+obs)
		case was == "new":
			ab := 0
			if w.Spec.Abort {
				ab = 1
			}
			emit(fmt.Sprintf("begin %d ops=%s fault=%s abort=%d pages=%s", i, OpsString(w.Spec.Ops), w.faultArg(), ab, pages), "res="+resArg(w.OpRes)+" "+obs)
		case rootRace:
			emit(fmt.Sprintf("rfinish %d", i), obs)
		default:
			emit(fmt.Sprintf("step %d pages=%s", i, pages), obs)
		}
		hits = append(hits, "step:"+w.stateArg())
		{
			var seen, want []int
			for _, tr := range w.Tracked() {
				f := strings.Split(tr, ":")
				if f[1] == "get" {
					var k int
					fmt.Sscan(f[0], &k)
					seen = append(seen, k)
				}
			}
			for j, op := range w.Spec.Ops {
				if op.Kind == "get" && j < len(w.OpRes) && w.OpRes[j] == "true" {
					dup := false
					for _, x := range want {
						dup = dup || x == op.Key
					}
					if !dup {
						want = append(want, op.Key)
					}
				}
			}
			sort.Ints(seen)
			sort.Ints(want)
			if len(seen) > 0 && fmt.Sprint(seen) != fmt.Sprint(want) {
				o.ReadAliased = true
			}
		}
		for _, tr := range w.Tracked() {
			f := strings.Split(tr, ":")
			var k int
			fmt.Sscan(f[0], &k)
			own := false
			for _, op := range w.Spec.Ops {
				if op.Key != k {
					continue
				}
				switch f[1] {
				case "add":
					own = own || op.Kind == "add"
				case "rm":
					own = own || op.Kind == "rm"
				case "upd":
					own = own || op.Kind == "upd"
				case "get":
					own = true // reads are not judged
				}
			}
			if f[1] == "get" {
				own = true
			}
			if !own {
				o.Foreign = true
			}
		}
		if was == "new" && !w.Spec.Abort {
			// every update/remove/add that reported success must be tracked under its own key (before a8e6b837 an
			// inner-node removal was tracked under the successor's identity; if the writer then updated that successor
			// the removal was not tracked at all)
			tr := w.Tracked()
			for j, op := range w.Spec.Ops {
				if j >= len(w.OpRes) || w.OpRes[j] != "true" || op.Kind == "get" {
					continue
				}
				found := false
				for _, t := range tr {
					if strings.HasPrefix(t, fmt.Sprintf("%d:", op.Key)) {
						found = true
					}
				}
				if !found {
					o.Foreign = true
				}
			}
		}
		if w.State == "done" {
			return dump(i)
		}
		return nil
	}
	for _, i := range sched {
		if i < 0 || i >= len(r.W) {
			continue
		}
		if err := one(i); err != nil {
			return nil, err
		}
	}
	for n := 0; !r.AllDone() && n < 120; n++ {
		for i := range r.W {
			if err := one(i); err != nil {
				return nil, err
			}
		}
	}
	o.Unfinished = !r.AllDone()
	if !o.Unfinished {
		// blob files that nothing reachable from the store's root refers to (node blobs and separate-segment value blobs)
		if ds, err := commitx.ReadDisk(r.Dir); err == nil {
			var reach *commitx.Reach
			werr := r.Env.AsOtherProcess(func(oe *txk.Env) error {
				var e2 error
				reach, e2 = commitx.Walk(ctx, oe, ds)
				return e2
			})
			items, ierr := r.ItemIDs()
			if werr == nil && ierr == nil && reach != nil && len(reach.Problems) == 0 {
				for _, ids := range ds.BlobFiles {
					for _, id := range ids {
						if !reach.BlobIDs[id] && !items[id] {
							o.OrphanBlobs++
						}
					}
				}
			} else {
				o.WalkProblem = fmt.Sprint(werr, " ", func() []string {
					if reach != nil {
						return reach.Problems
					}
					return nil
				}())
			}
		}
	}
	for _, w := range r.W {
		res := ErrClass(w.Err)
		if w.Spec.Abort && w.Err == nil {
			res = "aborted"
		}
		if w.State != "done" {
			res = "unfinished"
		}
		o.Results = append(o.Results, res)
		o.Passes = append(o.Passes, w.LoopPasses())
		o.Refused = append(o.Refused, w.RefusedLocks())
	}
	return o, nil
}

// RefusedLocks counts the writer's node-lock calls that were refused.
func (w *Writer) RefusedLocks() int {
	if w.Sc == nil {
		return 0
	}
	n := 0
	for _, l := range w.Sc.Lines() {
		if (strings.HasPrefix(l, "l2.Lock ") || strings.HasPrefix(l, "l2.DualLock ")) && strings.HasSuffix(l, "-> false") {
			n++
		}
	}
	return n
}

// Expected computes, with a Go map, the store after the setup and after the given writers' operations that
// reported success (the direct reference for "init ∪ writes").
func Expected(sc Scenario, writers []int, opRes func(w int) []string) []string {
	m := map[int]int{}
	apply := func(ops []Op, res []string) {
		for j, op := range ops {
			if res != nil && (j >= len(res) || res[j] != "true") {
				continue
			}
			switch op.Kind {
			case "add":
				if _, ok := m[op.Key]; !ok || res != nil {
					m[op.Key] = op.Val
				}
			case "upd":
				if _, ok := m[op.Key]; ok {
					m[op.Key] = op.Val
				}
			case "rm":
				delete(m, op.Key)
			}
		}
	}
	for _, ops := range sc.Init {
		apply(ops, nil)
	}
	for _, w := range writers {
		if opRes == nil {
			apply(sc.Writers[w].Ops, nil)
		} else {
			apply(sc.Writers[w].Ops, opRes(w))
		}
	}
	var keys []int
	for k := range m {
		keys = append(keys, k)
	}
	sort.Ints(keys)
	out := make([]string, len(keys))
	for i, k := range keys {
		out[i] = fmt.Sprintf("%d=v%d", k, m[k])
	}
	return out
}

// OrderOps puts a writer's operations in the order remove, update, add, get. It is kept for ONE reason: the item
// tracker keeps, for a tracked READ, a pointer into the node's slot array, so a get followed by an add/remove in the
// same node makes the tracked read name another key (slot-pointer aliasing, C38's/C17's finding; after a conflict the
// replay then looks for the wrong key). With reads last nothing shifts under them during the operations. (It is not
// needed for the inner-node removal defect, former C04-F4, which is repaired in /repo a8e6b837.)
func OrderOps(ops []Op) []Op {
	rank := map[string]int{"rm": 0, "upd": 1, "add": 2, "get": 3}
	out := append([]Op(nil), ops...)
	sort.SliceStable(out, func(i, j int) bool { return rank[out[i].Kind] < rank[out[j].Kind] })
	return out
}

// DetectVariant asks the repository under test, by the directed two-conflict-rounds schedule, which
// refetchAndMergeClosure it has: "legacy" (the replayed add is dropped from the tracker: the writer's key is missing
// at the end) or "repaired". C06's theorems hold for both; its cases carry the answer to the model driver.
func DetectVariant(ctx context.Context) (string, error) {
	sc := Scenario{Slot: 8, Init: [][]Op{Adds(10, 20)}, Writers: []WriterSpec{{Ops: Adds(1)}, {Ops: Adds(2)}, {Ops: Adds(3)}}}
	r, err := NewRun(ctx, sc)
	if err != nil {
		return "", err
	}
	defer r.Close()
	sched := []int{0, 1, 1, 1, 0, 0, 0, 0, 2, 2, 2}
	for n := 0; n < 40; n++ {
		sched = append(sched, 0)
	}
	for _, i := range sched {
		if _, err := r.Step(i); err != nil {
			return "", err
		}
	}
	_, items, err := r.Dump()
	if err != nil {
		return "", err
	}
	for _, it := range items {
		if strings.HasPrefix(it, "1=") {
			return "repaired", nil
		}
	}
	return "legacy", nil
}

// PanicSlug is a short, mechanism-specific name of a reader panic: "<what the reader did>:<panic class>@<function>",
// e.g. "find:index-out-of-range[-1]@getCurrentItem".
func PanicSlug(rp ReaderPanic) string {
	what := rp.During
	if i := strings.Index(what, ":"); i > 0 {
		what = what[:i]
	}
	msg := strings.TrimPrefix(rp.Msg, "runtime error: ")
	msg = strings.ReplaceAll(msg, " ", "-")
	if len(msg) > 40 {
		msg = msg[:40]
	}
	fn := rp.Stack
	if i := strings.Index(fn, "<"); i > 0 {
		fn = fn[:i]
	}
	if i := strings.LastIndex(fn, "."); i >= 0 {
		fn = fn[i+1:]
	}
	return what + ":" + msg + "@" + fn
}
