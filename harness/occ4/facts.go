package occ4

import "verifharness/hx"

// Facts regenerated into lean/Sop/Gen/FactsMerge.lean on every run.
func Facts() []hx.Fact {
	return []hx.Fact{hx.NatFact("phase1MaxRetry", MaxRetry())}
}
