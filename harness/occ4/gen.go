package occ4

import (
	"verifharness/hx"
	"verifharness/txk"
)

// Adds makes add operations (value = key).
func Adds(ks ...int) []Op {
	var o []Op
	for _, k := range ks {
		o = append(o, Op{Kind: "add", Key: k, Val: k})
	}
	return o
}

// Gen makes a scenario: a store with 0..9 initial items, 2-4 writers with pairwise disjoint keys (existing keys are
// dealt out, fresh keys cluster around one or two base keys so that the writers meet in the same leaf and force the
// same split), and a schedule. With history=true (C06) some writers also abort, get an injected commit failure, or
// are add-only writers whose keys overlap another add-only writer's.
func Gen(p *hx.Prng, thorough bool, history bool) (Scenario, []int) {
	slot := []int{2, 4, 4, 8}[p.Intn(4)]
	pool := []int{10, 20, 30, 40, 50, 60, 70, 80, 90}
	for i := len(pool) - 1; i > 0; i-- {
		j := p.Intn(i + 1)
		pool[i], pool[j] = pool[j], pool[i]
	}
	nInit := p.Intn(10)
	if p.Chance(1, 8) {
		nInit = 0
	}
	keys := append([]int(nil), pool[:nInit]...)
	var init [][]Op
	if nInit > 0 {
		cut := nInit
		if nInit > 2 && p.Chance(1, 2) {
			cut = 1 + p.Intn(nInit-1)
		}
		init = append(init, Adds(keys[:cut]...))
		if cut < nInit {
			init = append(init, Adds(keys[cut:]...))
		}
		if p.Chance(1, 3) { // raise an item version, drop an item
			var ops []Op
			ops = append(ops, Op{Kind: "upd", Key: keys[0], Val: 500 + keys[0]})
			if len(keys) > 3 {
				ops = append(ops, Op{Kind: "rm", Key: keys[len(keys)-1]})
				keys = keys[:len(keys)-1]
			}
			init = append(init, ops)
		}
	}
	n := 2 + p.Intn(2)
	if thorough && p.Chance(1, 4) {
		n = 4
	}
	// existing keys are dealt out to the writers; fresh keys cluster around one or two base keys so the writers
	// meet in the same leaf and force the same split
	own := make([][]int, n)
	for _, k := range keys {
		w := p.Intn(n)
		own[w] = append(own[w], k)
	}
	bases := []int{10 * (1 + p.Intn(9))}
	if p.Chance(1, 3) {
		if b := 10 * (1 + p.Intn(9)); b != bases[0] {
			bases = append(bases, b)
		}
	}
	used := map[int]bool{}
	room := func() bool { return len(used) < 9*len(bases)-1 }
	fresh := func() int {
		for {
			k := bases[p.Intn(len(bases))] + 1 + p.Intn(9)
			if !used[k] {
				used[k] = true
				return k
			}
		}
	}
	var ws []WriterSpec
	for w := 0; w < n; w++ {
		nops := 1 + p.Intn(3)
		if slot == 2 && p.Chance(1, 3) {
			nops += 2
		}
		var ops []Op
		for j := 0; j < nops; j++ {
			if len(own[w]) > 0 && p.Chance(1, 2) {
				k := own[w][0]
				own[w] = own[w][1:]
				kind := []string{"rm", "upd", "upd", "get"}[p.Intn(4)]
				ops = append(ops, Op{Kind: kind, Key: k, Val: 100*(w+1) + k})
			} else if room() {
				k := fresh()
				ops = append(ops, Op{Kind: "add", Key: k, Val: 100*(w+1) + k})
			}
		}
		if len(ops) == 0 && room() {
			ops = Adds(fresh())
		}
		if len(ops) == 0 {
			ops = []Op{{Kind: "add", Key: 200 + w, Val: 200 + w}}
		}
		ws = append(ws, WriterSpec{Ops: OrderOps(ops)})
	}
	if history {
		for w := range ws {
			switch p.Intn(8) {
			case 0:
				ws[w].Abort = true
			case 1:
				ws[w].Fault = &Fault{Name: "sr.Update", Occ: 1, Kind: txk.FailBefore}
			case 2:
				// on a store that has no root node yet this leaves count > 0 without a root: every later operation
				// then fails "can't retrieve root node" (shown by the directed case count-kept-no-root), so a history
				// cannot go on from there
				if nInit > 0 {
					ws[w].Fault = &Fault{Name: "sr.Update", Occ: 1, Kind: txk.FailAfter}
				}
			case 3:
				ws[w].Fault = &Fault{Name: "plog.Add", Occ: 1, Kind: txk.FailBefore}
			}
		}
		// an extra add-only writer repeating keys another add-only writer adds (duplicate-key exit of the merge)
		if p.Chance(1, 3) {
			for w := range ws {
				onlyAdds := true
				for _, op := range ws[w].Ops {
					if op.Kind != "add" {
						onlyAdds = false
					}
				}
				if onlyAdds {
					dup := append([]Op(nil), ws[w].Ops...)
					for i := range dup {
						dup[i].Val += 7000
					}
					if room() {
						k := fresh()
						dup = append(dup, Op{Kind: "add", Key: k, Val: 7000 + k})
					}
					ws = append(ws, WriterSpec{Ops: dup})
					n++
					break
				}
			}
		}
	}
	var sched []int
	ln := 2*n + p.Intn(8*n)
	cur := p.Intn(n)
	for i := 0; i < ln; i++ {
		if p.Chance(1, 2) {
			cur = p.Intn(n)
		}
		sched = append(sched, cur)
	}
	sc := Scenario{Slot: slot, Init: init, Writers: ws}
	// a third of the stores keep values in a separate segment, half of those also in the global cache
	if p.Chance(1, 3) {
		sc.SepVals = true
		sc.ValCache = p.Chance(1, 2)
	}
	return sc, sched
}
