// Package occ4 runs several REAL writer transactions of SharedCode/sop against one store under a deterministic
// schedule (C04, C06). Every writer is a goroutine running the real Begin / B-tree operations / Commit; its
// backend calls go through txk decorators whose Gate parks the writer right before each node-lock attempt of the
// phase-1 commit loop (l2.Lock, l2.DualLock; optionally other calls). A schedule is a list of writer indices:
// "let this writer run to its next gate, or to the end of its Commit". Between steps the writers are all blocked on
// channels, so their state can be inspected race-free and the store can be dumped by a cold reader.
package occ4

import (
	"context"
	"errors"
	"fmt"
	"os"
	"runtime/debug"
	"sort"
	"strings"
	"time"

	"github.com/sharedcode/sop"
	"github.com/sharedcode/sop/btree"
	"github.com/sharedcode/sop/common"

	"verifharness/hx"
	"verifharness/txk"
)

const StoreName = "st0"

// Op is one B-tree operation: add | rm | upd | get.
type Op struct {
	Kind string
	Key  int
	Val  int
}

func (o Op) String() string { return fmt.Sprintf("%s:%d:%d", o.Kind, o.Key, o.Val) }

func OpsString(ops []Op) string {
	if len(ops) == 0 {
		return "-"
	}
	s := make([]string, len(ops))
	for i, o := range ops {
		s[i] = o.String()
	}
	return strings.Join(s, ",")
}

// Fault: one injected backend fault during the writer's Commit (the occ-th call named Name, counted from Commit).
type Fault struct {
	Name string
	Occ  int
	Kind txk.Fault
}

type WriterSpec struct {
	Ops   []Op
	Abort bool   // Rollback instead of Commit
	Fault *Fault // optional
}

// SubGate parks one writer right before the Occ-th call named Name of its Commit, in the middle of a model step:
// e.g. after its node Lock+IsLocked and before the registry Get / the reserving UpdateNoLocks / the flip of
// commitUpdatedNodes. Other writers can then be stepped while it HOLDS the node lock.
type SubGate struct {
	Writer int
	Name   string
	Occ    int
}

type Scenario struct {
	Slot           int
	Init           [][]Op // setup transactions (committed one after the other, fault-free)
	Writers        []WriterSpec
	Gates          []string      // call names that park a writer during Commit (default l2.Lock, l2.IsLocked, l2.DualLock)
	SubGates       []SubGate     // extra park points INSIDE a step of one writer (it then holds whatever it holds there)
	ProbeAtSubPark bool          // take a cold dump (for the direct oracle only) whenever a writer parks at a sub-gate
	SepVals        bool          // values in a separate segment (IsValueDataInNodeSegment=false, not actively persisted)
	ValCache       bool          // with SepVals: values also globally cached (IsValueDataGloballyCached)
	Deadline       time.Duration // per-writer context deadline for Commit (0 = none)
	MaxTime        time.Duration // transaction maxTime (default 1 minute)
}

// Writer is the run-time state of one writer.
type Writer struct {
	Idx      int
	Spec     WriterSpec
	T        *txk.Txn
	B        btree.BtreeInterface[int, string]
	Sc       *txk.Script
	State    string // new | parked | done
	ParkedAt string
	Err      error // commit (or open / op) error
	OpRes    []string
	OpenErr  error
	resume   chan struct{}
	events   chan string
	armed    bool
	seen     map[string]int
	gateSeen map[string]int
	Rounds   int // times the writer passed through the conflict branch (observed via tlog steps)
}

type Run struct {
	Ctx context.Context
	Sc  Scenario
	Env *txk.Env
	Dir string
	W   []*Writer
}

// ValMode names where the store keeps values: node | segment | segment+cache.
func (sc Scenario) ValMode() string {
	switch {
	case sc.SepVals && sc.ValCache:
		return "segment+cache"
	case sc.SepVals:
		return "segment"
	}
	return "node"
}

func val(v int) string { return fmt.Sprintf("v%d", v) }

// NewRun creates the folder, the store (an empty store exists before any writer starts) and commits the setup.
func NewRun(ctx context.Context, sc Scenario) (*Run, error) {
	dir, err := os.MkdirTemp(hx.WorkRoot(), "occ4-")
	if err != nil {
		return nil, err
	}
	if len(sc.Gates) == 0 {
		sc.Gates = []string{"l2.Lock", "l2.IsLocked", "l2.DualLock"}
	}
	if sc.MaxTime == 0 {
		sc.MaxTime = time.Minute
	}
	e := txk.NewEnv(dir, 3)
	e.ColdRestart()
	r := &Run{Ctx: ctx, Sc: sc, Env: e, Dir: dir}
	t, err := e.NewTxn(ctx, sop.ForWriting, time.Minute, nil)
	if err != nil {
		return nil, err
	}
	if err := t.T.Begin(ctx); err != nil {
		return nil, err
	}
	so := e.StoreOpts(StoreName, sc.Slot, true)
	if sc.SepVals {
		so.IsValueDataInNodeSegment = false
		so.IsValueDataActivelyPersisted = false
		so.IsValueDataGloballyCached = sc.ValCache
	}
	if _, err := txk.NewBtree[int, string](ctx, t, so); err != nil {
		return nil, err
	}
	if err := t.T.Commit(ctx); err != nil {
		return nil, err
	}
	for _, ops := range sc.Init {
		if len(ops) == 0 {
			continue
		}
		t, err := e.NewTxn(ctx, sop.ForWriting, time.Minute, nil)
		if err != nil {
			return nil, err
		}
		if err := t.T.Begin(ctx); err != nil {
			return nil, err
		}
		b, err := txk.OpenBtree[int, string](ctx, t, StoreName)
		if err != nil {
			return nil, err
		}
		if _, err := ApplyOps(ctx, b, ops); err != nil {
			return nil, err
		}
		if err := t.T.Commit(ctx); err != nil {
			return nil, fmt.Errorf("setup commit: %w", err)
		}
	}
	for i, ws := range sc.Writers {
		r.W = append(r.W, &Writer{Idx: i, Spec: ws, State: "new", resume: make(chan struct{}), events: make(chan string, 4), seen: map[string]int{}, gateSeen: map[string]int{}})
	}
	return r, nil
}

func (r *Run) Close() { os.RemoveAll(r.Dir) }

// ApplyOps runs the operations and returns what each reported ("true"/"false").
func ApplyOps(ctx context.Context, b btree.BtreeInterface[int, string], ops []Op) ([]string, error) {
	var res []string
	for _, o := range ops {
		var ok bool
		var err error
		switch o.Kind {
		case "add":
			ok, err = b.Add(ctx, o.Key, val(o.Val))
		case "upd":
			ok, err = b.Update(ctx, o.Key, val(o.Val))
		case "rm":
			ok, err = b.Remove(ctx, o.Key)
		case "get":
			ok, err = b.Find(ctx, o.Key, false)
			if ok && err == nil {
				_, err = b.GetCurrentValue(ctx)
			}
		default:
			err = fmt.Errorf("unknown op %q", o.Kind)
		}
		if err != nil {
			return res, fmt.Errorf("%v: %w", o, err)
		}
		res = append(res, fmt.Sprint(ok))
	}
	return res, nil
}

func (r *Run) isGate(name string) bool {
	for _, g := range r.Sc.Gates {
		if g == name {
			return true
		}
	}
	return false
}

func (r *Run) body(w *Writer) {
	defer func() {
		if p := recover(); p != nil {
			w.Err = fmt.Errorf("panic: %v", p)
		}
		w.events <- "done"
	}()
	ctx := r.Ctx
	sc := txk.NewScript(r.Env.Canon)
	w.Sc = sc
	last := ""
	sc.Gate = func(idx int, name string) {
		prev := last
		last = name
		if w.armed {
			w.gateSeen[name]++
			for _, sg := range r.Sc.SubGates {
				if sg.Writer == w.Idx && sg.Name == name && sg.Occ == w.gateSeen[name] {
					w.ParkedAt = "sub:" + name
					w.events <- "parked"
					<-w.resume
					return
				}
			}
		}
		if !w.armed || !r.isGate(name) {
			return
		}
		// l2.IsLocked is a gate only as the confirmation that directly follows a node-lock call
		if name == "l2.IsLocked" && prev != "l2.Lock" {
			return
		}
		w.ParkedAt = name
		w.events <- "parked"
		<-w.resume
	}
	sc.FaultOn = func(idx int, name string) txk.Fault {
		if !w.armed || w.Spec.Fault == nil {
			return txk.None
		}
		w.seen[name]++
		if name == w.Spec.Fault.Name && w.seen[name] == w.Spec.Fault.Occ {
			return w.Spec.Fault.Kind
		}
		return txk.None
	}
	t, err := r.Env.NewTxn(ctx, sop.ForWriting, r.Sc.MaxTime, sc)
	if err != nil {
		w.OpenErr = err
		return
	}
	w.T = t
	if err := t.T.Begin(ctx); err != nil {
		w.OpenErr = err
		return
	}
	b, err := txk.OpenBtree[int, string](ctx, t, StoreName)
	if err != nil {
		w.OpenErr = err
		return
	}
	w.B = b
	w.OpRes, err = ApplyOps(ctx, b, w.Spec.Ops)
	if err != nil {
		w.OpenErr = err
		t.T.Rollback(ctx)
		return
	}
	if w.Spec.Abort {
		w.Err = t.T.Rollback(ctx)
		return
	}
	cctx := ctx
	if r.Sc.Deadline > 0 {
		var cancel context.CancelFunc
		cctx, cancel = context.WithTimeout(ctx, r.Sc.Deadline)
		defer cancel()
	}
	w.armed = true
	w.Err = t.T.Commit(cctx)
	w.armed = false
}

// Step lets writer i run to its next gate or to the end. It returns false when the writer was already done.
func (r *Run) Step(i int) (bool, error) {
	w := r.W[i]
	switch w.State {
	case "done":
		return false, nil
	case "new":
		go r.body(w)
	case "parked":
		w.resume <- struct{}{}
	}
	select {
	case ev := <-w.events:
		if ev == "done" {
			w.State = "done"
			w.ParkedAt = ""
		} else {
			w.State = "parked"
		}
	case <-time.After(3 * time.Minute):
		return false, fmt.Errorf("writer %d neither parked nor finished within 3 minutes", i)
	}
	return true, nil
}

// AllDone reports whether every writer finished.
func (r *Run) AllDone() bool {
	for _, w := range r.W {
		if w.State != "done" {
			return false
		}
	}
	return true
}

// ErrClass maps a commit error to a small enum.
func ErrClass(err error) string {
	if err == nil {
		return "ok"
	}
	s := err.Error()
	var te sop.ErrTimeout
	switch {
	case strings.HasPrefix(s, "panic: "):
		return "err:panic"
	case errors.Is(err, txk.ErrInjected) || strings.Contains(s, "injected fault"):
		return "err:injected"
	case errors.As(err, &te) || strings.Contains(s, "deadline") || strings.Contains(s, "timed out") || strings.Contains(s, "timeout"):
		return "err:timeout"
	case strings.Contains(s, "exceeded retry limit"):
		return "err:retries"
	case strings.Contains(s, "refetchAndMergeModifications"):
		return "err:merge"
	case strings.Contains(s, "call detected conflict") || strings.Contains(s, "can't attain a lock"):
		return "err:itemlock"
	}
	return "err:other"
}

// Tracked is the writer's tracked item actions "key:action:versionInDB" (sorted by key).
func (w *Writer) Tracked() []string {
	if w.T == nil {
		return nil
	}
	return common.VerifC04Tracked(w.T.P)
}

// Counts returns (Count inside the transaction, count loaded at open / last refetch).
func (w *Writer) Counts() (int64, int64) {
	if w.T == nil {
		return 0, 0
	}
	c := common.VerifC04Counts(w.T.P)
	if len(c) == 0 {
		return 0, 0
	}
	return c[0][0], c[0][1]
}

// Pages is the writer's transaction-local node cache: canonical "id:action" sorted by id, versions left out (the
// model keeps its own version counters); ids are named by txk.Canon.
func (w *Writer) Pages(c *txk.Canon) []string {
	if w.T == nil {
		return nil
	}
	ws := common.VerifWriteSet(w.T.P)
	type row struct {
		n int
		s string
	}
	var rows []row
	for _, n := range ws {
		id := c.ID(n.ID)
		var k int
		fmt.Sscan(id, &k)
		rows = append(rows, row{k, id + ":" + n.Action})
	}
	sort.Slice(rows, func(i, j int) bool { return rows[i].n < rows[j].n })
	out := make([]string, len(rows))
	for i, r := range rows {
		out[i] = r.s
	}
	return out
}

// ConflictRounds counts how often the writer's commit loop went through "rollback partial changes" = the number of
// times it logged commitNewRootNodes (step 4) minus one, never below zero.
func (w *Writer) LoopPasses() int {
	if w.Sc == nil {
		return 0
	}
	n := 0
	for _, l := range w.Sc.Lines() {
		if l == "tlog.Add 4" {
			n++
		}
	}
	return n
}

// ReaderPanic: the real code panicked inside the cold reader (Dump).
type ReaderPanic struct {
	Msg    string // the panic value
	Stack  string // the innermost frames inside github.com/sharedcode/sop
	During string // what the reader was doing: scan | find:<key> | value:<key>
}

func (e *ReaderPanic) Error() string {
	return "panic in cold reader during " + e.During + ": " + e.Msg + " at " + e.Stack
}

// doing is what the cold reader is doing right now (one reader at a time: the scheduler is single-threaded).
var doing string

// panicSite keeps the first few sop frames of a stack trace: "btree.(*Btree).getCurrentItem<btree.(*Btree).Find".
func panicSite(stack []byte) string {
	var fr []string
	for _, l := range strings.Split(string(stack), "\n") {
		if strings.HasPrefix(l, "github.com/sharedcode/sop/") {
			f := strings.TrimPrefix(l, "github.com/sharedcode/sop/")
			if i := strings.LastIndex(f, "("); i > 0 {
				f = f[:i]
			}
			f = strings.ReplaceAll(f, "[...]", "")
			fr = append(fr, f)
			if len(fr) == 3 {
				break
			}
		}
	}
	return strings.Join(fr, "<")
}

// Dump is what a cold reader (another, freshly started process) sees of the store: Count() and the items "k=v" of
// a First/Next scan. A scan that cannot even load the root node (count > 0 but no root: a failed first commit whose
// count delta stayed) yields no items.
func (r *Run) Dump() (int64, []string, error) {
	var count int64
	var items []string
	err := r.Env.AsOtherProcess(func(o *txk.Env) (rerr error) {
		// a panic of the real code inside the cold reader must not void the run: it is handed back as a ReaderPanic
		defer func() {
			if p := recover(); p != nil {
				rerr = &ReaderPanic{Msg: fmt.Sprint(p), Stack: panicSite(debug.Stack()), During: doing}
			}
		}()
		open := func() (*txk.Txn, btree.BtreeInterface[int, string], error) {
			t, err := o.NewTxn(r.Ctx, sop.ForReading, time.Minute, nil)
			if err != nil {
				return nil, nil, err
			}
			if err := t.T.Begin(r.Ctx); err != nil {
				return nil, nil, err
			}
			b, err := txk.OpenBtree[int, string](r.Ctx, t, StoreName)
			if err != nil {
				t.T.Rollback(r.Ctx)
				return nil, nil, err
			}
			return t, b, nil
		}
		// pass 1: Count() and the keys of a First/Next scan
		t, b, err := open()
		if err != nil {
			return err
		}
		count = b.Count()
		var keys []int
		doing = "scan"
		ok, err := b.First(r.Ctx)
		if err != nil {
			t.T.Rollback(r.Ctx)
			if strings.Contains(err.Error(), "can't retrieve root node") {
				return nil
			}
			return err
		}
		for ok {
			keys = append(keys, b.GetCurrentKey().Key)
			if ok, err = b.Next(r.Ctx); err != nil {
				t.T.Rollback(r.Ctx)
				return err
			}
		}
		t.T.Rollback(r.Ctx)
		// pass 2: every key's VALUE. A value that cannot be read (its separate-segment blob is missing) ends the
		// reading transaction, so the remaining keys are read by a new one; the item is reported as "k=!lost"
		t, b = nil, nil
		defer func() {
			if t != nil {
				t.T.Rollback(r.Ctx)
			}
		}()
		for _, k := range keys {
			if t == nil {
				if t, b, err = open(); err != nil {
					return err
				}
			}
			doing = fmt.Sprintf("find:%d", k)
			found, ferr := b.Find(r.Ctx, k, false)
			var v string
			var verr error
			if ferr == nil && found {
				doing = fmt.Sprintf("value:%d", k)
				v, verr = b.GetCurrentValue(r.Ctx)
			}
			switch {
			case ferr != nil || verr != nil:
				items = append(items, fmt.Sprintf("%d=!lost", k))
				t.T.Rollback(r.Ctx)
				t, b = nil, nil
			case !found:
				items = append(items, fmt.Sprintf("%d=!notfound", k))
			default:
				items = append(items, fmt.Sprintf("%d=%s", k, v))
			}
		}
		return nil
	})
	return count, items, err
}

// MaxRetry is phase1CommitMaxRetryCount compiled out of the repository under test.
func MaxRetry() int { return common.VerifPhase1MaxRetry() }

// ItemIDs is the set of item ids a cold reader finds in the store (a separate-segment value blob is stored under its
// item's id).
func (r *Run) ItemIDs() (map[sop.UUID]bool, error) {
	ids := map[sop.UUID]bool{}
	err := r.Env.AsOtherProcess(func(o *txk.Env) error {
		t, err := o.NewTxn(r.Ctx, sop.ForReading, time.Minute, nil)
		if err != nil {
			return err
		}
		if err := t.T.Begin(r.Ctx); err != nil {
			return err
		}
		defer t.T.Rollback(r.Ctx)
		b, err := txk.OpenBtree[int, string](r.Ctx, t, StoreName)
		if err != nil {
			return err
		}
		ok, err := b.First(r.Ctx)
		if err != nil {
			return nil
		}
		for ok {
			ids[b.GetCurrentKey().ID] = true
			if ok, err = b.Next(r.Ctx); err != nil {
				return err
			}
		}
		return nil
	})
	return ids, err
}
