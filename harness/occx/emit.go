package occx

import (
	"fmt"
	"sort"
	"strings"

	"verifharness/hx"
)

// Case is one generated (or directed) schedule of 2..4 transactions over one seeded store.
type Case struct {
	Label  string
	Slot   int
	Keys   []int
	Val    int
	Progs  []Prog
	Sched  []int // transaction index per scheduler step; afterwards the rest is drained round-robin
	Drain  int   // max drain rounds (default 60)
	OracleOnly string // non-empty: the case is outside Model L for this reason whatever happens
	Segment bool // values in a separate segment (then the case is oracle-only: Model L is the in-node placement)
}

type Event struct {
	Kind   string // overwrite | foreign-delete
	By     int    // transaction that did it
	Victim int    // transaction whose record it was
	Item   int
}

type Outcome struct {
	Procs   []*Proc
	Final   []Row
	Count   int64
	Events  []Event
	Order   []int // commit-point order of the committed transactions
	Steps   int
	Split   bool
	Stuck   bool
	Panicked bool
	Forced  string
	lines   [][2]string
	W       *World
}

func hintStr(h []int) string {
	if len(h) == 0 {
		return ""
	}
	s := make([]string, len(h))
	for i, x := range h {
		s[i] = fmt.Sprint(x)
	}
	return " " + strings.Join(s, " ")
}

func ints(l []int) string {
	s := make([]string, len(l))
	for i, x := range l {
		s[i] = fmt.Sprint(x)
	}
	return "[" + strings.Join(s, " ") + "]"
}

func ownerTxn(owner string) int {
	var t, g int
	if _, err := fmt.Sscanf(owner, "%d.%d", &t, &g); err != nil {
		return -1
	}
	return t
}

// stateLine is the implementation's answer to one `step` line (mirrors OccProto.showState).
func (p *Proc) stateLine(w *World, procs []*Proc, withResults bool) string {
	s := fmt.Sprintf("at=%s res=%s", p.At, p.Result())
	if p.At == "ldel" {
		// on its way through unlock(): only the isLockOwner flags matter from here on
		s += fmt.Sprintf(" own=%s", ints(p.OwnAfter))
	} else if !p.Done() {
		s += fmt.Sprintf(" own=%s tr=%s pg=%s", ints(p.OwnAfter), p.Tracked, p.PageSets)
	}
	s += " recs=" + RecsString(w.LockRecords(procs))
	if withResults {
		var rs []string
		for i, r := range p.Results {
			op := p.Prog.Ops[i]
			switch {
			case op.Kind == "get" && r.OK:
				rs = append(rs, fmt.Sprintf("ok:%d:%d", r.Val, r.Ver))
			case op.Kind == "updf" && r.OK:
				rs = append(rs, fmt.Sprintf("ok:%d:%d", r.Val, r.Ver))
			case r.OK:
				rs = append(rs, "ok:0:0")
			default:
				rs = append(rs, "no")
			}
		}
		s += " r=" + strings.Join(rs, ",")
	}
	return s
}

var keepTracker = -1

// KeepTracker probes the code under test once: does refetchAndMergeClosure keep the lock ids of re-tracked items
// (the repaired closure) or issue fresh ones (the pinned tree)? The answer goes into every case header, Model L
// has both behaviours.
func KeepTracker() (bool, error) {
	if keepTracker >= 0 {
		return keepTracker == 1, nil
	}
	w, err := NewWorld(8, true, []int{10, 20, 30}, func(int) int { return 1 })
	if err != nil {
		return false, err
	}
	defer w.Close()
	a, err := w.Spawn(0, Prog{Ops: []Op{{Kind: "upd", Key: 10, Val: 2}}})
	if err != nil {
		return false, err
	}
	b, err := w.Spawn(1, Prog{Ops: []Op{{Kind: "upd", Key: 20, Val: 3}}})
	if err != nil {
		return false, err
	}
	for i := 0; i < 4; i++ { // b: work, first read, set, verify -> parked at its page lock
		if err := b.Step(); err != nil {
			return false, err
		}
	}
	for i := 0; i < 40 && !a.Done(); i++ {
		if err := a.Step(); err != nil {
			return false, err
		}
	}
	// b: lock ok, validation fails, unlock, lock(nil), refetch -> parked at the first read of the second lock()
	for i := 0; i < 6 && !b.Done(); i++ {
		if err := b.Step(); err != nil {
			return false, err
		}
	}
	keep := true
	for _, n := range b.gens {
		if n > 1 {
			keep = false
		}
	}
	for i := 0; i < 40 && !b.Done(); i++ {
		if err := b.Step(); err != nil {
			return false, err
		}
	}
	keepTracker = 0
	if keep {
		keepTracker = 1
	}
	return keep, nil
}

// Run executes the case on the real code and buffers the protocol lines.
func Run(c Case) (*Outcome, error) {
	w, err := NewWorldPlaced(c.Slot, true, c.Keys, func(int) int { return c.Val }, c.Segment)
	if err != nil {
		return nil, err
	}
	o := &Outcome{W: w, Forced: c.OracleOnly}
	if c.Segment && o.Forced == "" {
		o.Forced = "value-placement"
	}
	for i, pr := range c.Progs {
		p, err := w.Spawn(i, pr)
		if err != nil {
			return o, err
		}
		o.Procs = append(o.Procs, p)
	}
	step := func(i int) error {
		p := o.Procs[i]
		if p.Done() {
			return nil
		}
		from := p.At
		// what the coming lock-record write/delete will hit
		if from == "lset" || from == "ldel" {
			before := w.LockRecords(o.Procs)
			own := map[int]bool{}
			for _, it := range p.OwnAfter {
				own[it] = true
			}
			for _, r := range before {
				vt := ownerTxn(r.Owner)
				if vt == p.Idx || vt < 0 {
					continue
				}
				if from == "ldel" && own[r.Item] {
					o.Events = append(o.Events, Event{Kind: "foreign-delete", By: p.Idx, Victim: vt, Item: r.Item})
				}
				if from == "lset" && p.tracksLocked(r.Item) {
					o.Events = append(o.Events, Event{Kind: "overwrite", By: p.Idx, Victim: vt, Item: r.Item})
				}
			}
		}
		if err := p.Step(); err != nil {
			return err
		}
		o.Steps++
		hint := p.OwnAfter
		if from == "begin" {
			hint = p.extraPages()
		}
		if len(p.Added) > 0 { // also when a merge replay splits a node that filled up meanwhile
			o.Split = true
		}
		if (from == "install" || (from != "begin" && p.Done())) && p.Result() == "ok" && !contains(o.Order, p.Idx) {
			o.Order = append(o.Order, p.Idx)
		}
		if from == "begin" && p.Done() && p.Result() == "ok" {
			o.Order = append(o.Order, p.Idx)
		}
		o.lines = append(o.lines, [2]string{fmt.Sprintf("step %d%s", i, hintStr(hint)), p.stateLine(w, o.Procs, from == "begin")})
		return nil
	}
	for _, i := range c.Sched {
		if i < 0 || i >= len(o.Procs) {
			continue
		}
		if err := step(i); err != nil {
			return o, err
		}
	}
	drain := c.Drain
	if drain == 0 {
		drain = 60
	}
	for n := 0; n < drain; n++ {
		all := true
		for i := range o.Procs {
			if !o.Procs[i].Done() {
				all = false
				if err := step(i); err != nil {
					return o, err
				}
			}
		}
		if all {
			break
		}
	}
	for _, p := range o.Procs {
		if !p.Done() {
			o.Stuck = true
		}
	}
	for _, p := range o.Procs {
		if p.Panic != "" {
			o.Panicked = true
		}
	}
	if o.Stuck && !o.Panicked {
		return o, fmt.Errorf("transactions still running after the drain")
	}
	o.Final, o.Count, err = w.ColdScan()
	return o, err
}

func contains(l []int, x int) bool {
	for _, y := range l {
		if y == x {
			return true
		}
	}
	return false
}

// tracksLocked: item is one the transaction takes a lock record for.
func (p *Proc) tracksLocked(item int) bool {
	for _, d := range strings.Split(p.Tracked, ",") {
		var it, ver int
		var act string
		parts := strings.Split(d, ":")
		if len(parts) == 3 {
			fmt.Sscan(parts[0], &it)
			act = parts[1]
			fmt.Sscan(parts[2], &ver)
			if it == item && act != "add" {
				return true
			}
		}
	}
	return false
}

// extraPages: updated pages that are not the page of an item the program wrote (B-tree structure changes).
func (p *Proc) extraPages() []int {
	written := map[int]bool{}
	for i, r := range p.Results {
		k := p.Prog.Ops[i].Kind
		if r.OK && k != "get" && r.Page != 0 && r.Alias == 0 {
			written[r.Page] = true
		}
		if r.Alias != 0 {
			written[p.W.InitPage(r.Alias)] = true
		}
	}
	var out []int
	for _, u := range p.upages {
		if !written[u] {
			out = append(out, u)
		}
	}
	return out
}

// OutOfScope names the reason why Model L (fixed item->page partition, no slot-level B-tree state) does not cover
// this run; such cases are judged by the direct oracle only. "" = in scope.
//   structure-change : a transaction created B-tree nodes (split / new root)
//   inner-remove     : a remove hit an item of an inner node: the tree moves the in-order successor up into that
//                      node, i.e. an item changes page
//   successor-alias  : (legacy, before repo commit a8e6b837) on top of that the tracker registered the SUCCESSOR as
//                      the removed item
//   slot-alias       : a transaction that added/removed an item and tracks other items (other keys) too went through a
//                      refetch: the tracker's item pointers alias the node's slot array, which the add/remove shifted
//   value-placement  : the store keeps values in a separate segment (Model L is the in-node placement)
func (o *Outcome) OutOfScope() string {
	if o.Panicked {
		return "panic"
	}
	if o.Forced != "" {
		return o.Forced
	}
	if o.Split {
		return "structure-change"
	}
	for _, p := range o.Procs {
		structural := false
		keys := map[int]bool{}
		for i, r := range p.Results {
			if r.OK {
				keys[p.Prog.Ops[i].Key] = true
				if p.Prog.Ops[i].Kind == "updf" {
					keys[p.Prog.Ops[i].Src] = true
				}
			}
			k := p.Prog.Ops[i].Kind
			if r.Alias != 0 && !p.Aborted {
				return "successor-alias"
			}
			if r.Inner && r.OK && !p.Aborted {
				return "inner-remove"
			}
			if r.OK && (k == "rm" || ((k == "add" || k == "addne" || k == "ups") && r.Item >= 1000)) {
				structural = true
			}
		}
		plocks := 0
		for _, t := range p.Trace {
			if t == "plock" {
				plocks++
			}
		}
		if structural && len(keys) > 1 && plocks >= 2 {
			return "slot-alias"
		}
	}
	return ""
}

// Emit writes the buffered case into the session (header, items, programs, steps, end).
func (o *Outcome) Emit(s *hx.Session, c Case) {
	kt := 0
	if keepTracker == 1 {
		kt = 1
	}
	s.BeginCase(fmt.Sprintf("unique=1 maxretry=30 keeptracker=%d slot=%d label=%s", kt, c.Slot, c.Label))
	for _, it := range o.W.Init {
		s.Op(fmt.Sprintf("item %d %d %d %d %d", it.Item, it.Key, it.Val, it.Ver, it.Page), "ok")
	}
	for _, p := range o.Procs {
		for i, r := range p.Results {
			k := p.Prog.Ops[i].Kind
			if (k == "add" || k == "addne" || k == "ups") && r.OK && r.Item >= 1000 {
				s.Op(fmt.Sprintf("pg %d %d", r.Item, r.Page), "ok")
			}
		}
	}
	for i, p := range o.Procs {
		mode, fin := "w", "commit"
		if p.Prog.Reader {
			mode = "r"
		}
		if p.Prog.Abort {
			fin = "abort"
		}
		var ops []string
		for j, op := range p.Prog.Ops {
			m := modelOp(i, j, op)
			if op.Kind == "rm" && j < len(p.Results) && p.Results[j].Alias > 0 {
				m = fmt.Sprintf("rmx:%d:%d", op.Key, p.Results[j].Alias)
			}
			ops = append(ops, m)
		}
		s.Op(fmt.Sprintf("txn %d %s %s %s", i, mode, fin, strings.Join(ops, " ")), "ok")
	}
	for _, l := range o.lines {
		s.Op(l[0], l[1])
	}
	var rows []string
	for _, r := range o.Final {
		rows = append(rows, fmt.Sprintf("%d=%d@%d#%d", r.Key, r.Val, r.Ver, r.Item))
	}
	s.Op("end", "db=["+strings.Join(rows, " ")+"]")
}

func modelOp(t, j int, op Op) string {
	id := 1000*(t+1) + j
	switch op.Kind {
	case "get", "rm":
		return fmt.Sprintf("%s:%d", op.Kind, op.Key)
	case "updkey":
		return fmt.Sprintf("touch:%d", op.Key)
	case "upd":
		return fmt.Sprintf("upd:%d:%d", op.Key, op.Val)
	case "updf":
		return fmt.Sprintf("updf:%d:%d:%d", op.Key, op.Src, op.Delta)
	}
	return fmt.Sprintf("%s:%d:%d:%d", op.Kind, id, op.Key, op.Val)
}

// ---- direct oracle: exact serializability of the committed transactions ----

type refRes struct {
	ok  bool
	val int
}

func refRun(db map[int]int, pr Prog) []refRes {
	var out []refRes
	for _, op := range pr.Ops {
		var r refRes
		switch op.Kind {
		case "get":
			r.val, r.ok = db[op.Key]
		case "upd":
			if _, ok := db[op.Key]; ok {
				db[op.Key] = op.Val
				r.ok = true
			}
		case "updkey":
			_, r.ok = db[op.Key]
		case "updf":
			if v, ok := db[op.Src]; ok {
				r.val = v
				if _, ok2 := db[op.Key]; ok2 {
					db[op.Key] = v + op.Delta
					r.ok = true
				}
			}
		case "add", "addne":
			if _, ok := db[op.Key]; !ok {
				db[op.Key] = op.Val
				r.ok = true
			}
		case "ups":
			db[op.Key] = op.Val
			r.ok = true
		case "rm":
			if _, ok := db[op.Key]; ok {
				delete(db, op.Key)
				r.ok = true
			}
		}
		out = append(out, r)
	}
	return out
}

// refRunTolerant: ops the real run refused (negative results: key not found / key exists) are skipped — a
// negative read is not tracked by the code and is outside the stated workload (phantoms).
func refRunTolerant(db map[int]int, p *Proc) bool {
	for i, op := range p.Prog.Ops {
		if i >= len(p.Results) || !p.Results[i].OK {
			continue
		}
		rr := refRun(db, Prog{Ops: []Op{op}})
		if !rr[0].ok {
			return false
		}
		if (op.Kind == "get" || op.Kind == "updf") && p.Results[i].Val != rr[0].val {
			return false
		}
	}
	return true
}

func sameResults(p *Proc, rr []refRes) bool {
	if len(rr) != len(p.Results) {
		return false
	}
	for i, r := range p.Results {
		k := p.Prog.Ops[i].Kind
		if r.OK != rr[i].ok {
			return false
		}
		if (k == "get" || k == "updf") && r.OK && r.Val != rr[i].val {
			return false
		}
	}
	return true
}

// Serializable: is there an order of the committed transactions whose one-at-a-time run gives every one of
// them the results it saw and ends in the final scan? Returns the explaining order.
func (o *Outcome) Serializable(c Case) (bool, []int) { return o.serializable(c, false) }

// SerializableIgnoringNegativeReads: as Serializable, but refused ops are wildcards.
func (o *Outcome) SerializableIgnoringNegativeReads(c Case) (bool, []int) { return o.serializable(c, true) }

func (o *Outcome) serializable(c Case, tolerant bool) (bool, []int) {
	var committed []int
	for i, p := range o.Procs {
		if p.Result() == "ok" {
			committed = append(committed, i)
		}
	}
	final := map[int]int{}
	for _, r := range o.Final {
		final[r.Key] = r.Val
	}
	dup := len(final) != len(o.Final)
	var perm func(rest, acc []int) (bool, []int)
	perm = func(rest, acc []int) (bool, []int) {
		if len(rest) == 0 {
			db := map[int]int{}
			for _, k := range c.Keys {
				db[k] = c.Val
			}
			for _, i := range acc {
				if tolerant {
					if !refRunTolerant(db, o.Procs[i]) {
						return false, nil
					}
				} else if !sameResults(o.Procs[i], refRun(db, o.Procs[i].Prog)) {
					return false, nil
				}
			}
			if dup || len(db) != len(final) {
				return false, nil
			}
			for k, v := range db {
				if fv, ok := final[k]; !ok || fv != v {
					return false, nil
				}
			}
			return true, append([]int(nil), acc...)
		}
		for j := range rest {
			r2 := append(append([]int(nil), rest[:j]...), rest[j+1:]...)
			if ok, ord := perm(r2, append(acc, rest[j])); ok {
				return true, ord
			}
		}
		return false, nil
	}
	return perm(committed, nil)
}

// DupKeys: equal adjacent keys in the final ordered scan.
func (o *Outcome) DupKeys() []int {
	var out []int
	for i := 1; i < len(o.Final); i++ {
		if o.Final[i].Key == o.Final[i-1].Key {
			out = append(out, o.Final[i].Key)
		}
	}
	return out
}

// Signature classifies a non-serializable outcome from the recorded schedule: each known mechanism is recognised
// by what the harness saw happen, anything else stays "C02/not-serializable" (= a new violation).
func (o *Outcome) Signature(c Case) string {
	committed := map[int]bool{}
	for i, p := range o.Procs {
		if p.Result() == "ok" {
			committed[i] = true
		}
	}
	// (1) both transactions' lock-record set calls interleaved (one overwrote the other's record) and the first
	// finisher's unlock() deleted a record whose LockID was not its own
	over, del := false, false
	for _, e := range o.Events {
		if !committed[e.By] || !committed[e.Victim] {
			continue
		}
		if e.Kind == "overwrite" {
			over = true
		}
		if e.Kind == "foreign-delete" {
			del = true
		}
	}
	if over && del {
		return "C02/write-skew-lock-record-overwritten-then-deleted-by-other-unlock"
	}
	// (2) a committed transaction removed an item of an inner node: the tracker registered the in-order successor
	for i, p := range o.Procs {
		if !committed[i] {
			continue
		}
		for _, r := range p.Results {
			if r.Alias != 0 {
				return "C02/inner-node-remove-tracks-successor-item"
			}
		}
	}
	// (3) a committed transaction's add is missing from the final scan (nobody removed that key) and the
	// transaction went through refetch-and-merge rounds
	final := map[int]bool{}
	for _, r := range o.Final {
		final[r.Item] = true
	}
	removed := map[int]bool{}
	for i, p := range o.Procs {
		if committed[i] {
			for j, op := range p.Prog.Ops {
				if op.Kind == "rm" && p.Results[j].OK {
					removed[op.Key] = true
				}
			}
		}
	}
	for i, p := range o.Procs {
		if !committed[i] {
			continue
		}
		plocks := 0
		for _, t := range p.Trace {
			if t == "plock" {
				plocks++
			}
		}
		for j, op := range p.Prog.Ops {
			if (op.Kind == "add" || op.Kind == "addne" || op.Kind == "ups") && p.Results[j].OK && p.Results[j].Item >= 1000 &&
				!final[p.Results[j].Item] && !removed[op.Key] && plocks >= 3 {
				return "C02/add-lost-after-second-refetch"
			}
		}
	}
	// (4) a committed transaction wrote again to an item it had added itself, went through a refetch-and-merge, and the
	// item ended up with the value of the add (the replay inserts the tracker's copy of the added item, which the
	// later update did not touch)
	for i, p := range o.Procs {
		if !committed[i] {
			continue
		}
		plocks := 0
		for _, t := range p.Trace {
			if t == "plock" {
				plocks++
			}
		}
		if plocks < 2 {
			continue
		}
		for j, op := range p.Prog.Ops {
			if !((op.Kind == "add" || op.Kind == "addne" || op.Kind == "ups") && p.Results[j].OK && p.Results[j].Item >= 1000) {
				continue
			}
			rewritten := false
			for j2 := j + 1; j2 < len(p.Prog.Ops); j2++ {
				o2 := p.Prog.Ops[j2]
				if o2.Key == op.Key && p.Results[j2].OK && (o2.Kind == "ups" || o2.Kind == "upd" || o2.Kind == "updf") && p.Results[j2].Written != op.Val {
					rewritten = true
				}
			}
			if !rewritten {
				continue
			}
			for _, r := range o.Final {
				if r.Item == p.Results[j].Item && r.Val == op.Val {
					return "C02/update-of-own-add-lost-after-refetch"
				}
			}
		}
	}
	return "C02/not-serializable"
}

func (o *Outcome) Summary() string {
	var rs []string
	for i, p := range o.Procs {
		rs = append(rs, fmt.Sprintf("t%d=%s%v", i, p.Result(), p.Trace))
	}
	var ev []string
	for _, e := range o.Events {
		ev = append(ev, fmt.Sprintf("%s:t%d->t%d#%d", e.Kind, e.By, e.Victim, e.Item))
	}
	sort.Strings(ev)
	return strings.Join(rs, " ") + " events=" + strings.Join(ev, ",") + fmt.Sprintf(" final=%v", o.Final)
}

// Describe renders programs and schedule on one line (for oracle-only cases, whose steps are not emitted).
func Describe(c Case) string {
	var ps []string
	for _, pr := range c.Progs {
		var ops []string
		if pr.Reader {
			ops = append(ops, "r")
		}
		if pr.Abort {
			ops = append(ops, "abort")
		}
		for _, op := range pr.Ops {
			ops = append(ops, op.String())
		}
		ps = append(ps, strings.Join(ops, ","))
	}
	var sc []string
	for _, x := range c.Sched {
		sc = append(sc, fmt.Sprint(x))
	}
	return "progs=" + strings.Join(ps, ";") + " sched=" + strings.Join(sc, ",")
}
