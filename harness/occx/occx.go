// Package occx is the shared Go side of properties C02 (serializability) and C05 (unique keys): real
// transactions of ONE process (one txk.Env) run in goroutines, each parked by its txk.Script gate at named
// backend calls of Commit; a deterministic scheduler releases exactly one parked transaction at a time, so a
// schedule (a list of transaction indices) determines the interleaving. After every step the lock-record table in
// the L2 cache is read back. Histories (reads, writes, results) feed an exact serializability checker.
package occx

import (
	"context"
	"fmt"
	"os"
	"sort"
	"strconv"
	"strings"
	"time"

	"github.com/sharedcode/sop"
	"github.com/sharedcode/sop/btree"
	"github.com/sharedcode/sop/common"

	"verifharness/hx"
	"verifharness/txk"
)

// ---- programs ----

type Op struct {
	Kind  string // get | upd | updf | add | addne | ups | rm | updkey
	Key   int
	Val   int
	Src   int // updf: new value = value read under Src + Delta
	Delta int
}

func (o Op) String() string {
	switch o.Kind {
	case "get", "rm", "updkey":
		return fmt.Sprintf("%s:%d", o.Kind, o.Key)
	case "updf":
		return fmt.Sprintf("updf:%d:%d:%d", o.Key, o.Src, o.Delta)
	}
	return fmt.Sprintf("%s:%d:%d", o.Kind, o.Key, o.Val)
}

type Prog struct {
	Reader bool
	Abort  bool
	Ops    []Op
}

// OpResult is what the public API answered for one op.
type OpResult struct {
	OK      bool  // found / performed
	Val     int   // value read (get, updf source)
	Ver     int32 // item version read (get)
	Item    int   // canonical item number the op touched (0 = none)
	Page    int   // canonical page (node) number of that item
	Written int   // value written (upd/updf/add/ups)
	Inner   bool  // rm: the item found sits in a node with children (its in-order successor moves up = changes page)
	Alias   int   // rm (legacy, before repo commit a8e6b837): the item the tracker registered as removed when that is not the item found (0 = same, -1 = none)
	Err     bool
}

// ---- world: one store folder, one process ----

type World struct {
	Ctx    context.Context
	Dir    string
	Env    *txk.Env
	Store  string
	Slot   int
	Unique bool
	items  map[sop.UUID]int // canonical item numbers
	pages  map[sop.UUID]int
	Init   []InitItem
	nextIt int
}

type InitItem struct {
	Item, Key, Val int
	Ver            int32
	Page           int
}

const MaxTime = 10 * time.Minute

func NewWorld(slot int, unique bool, keys []int, val func(k int) int) (*World, error) {
	return NewWorldPlaced(slot, unique, keys, val, false)
}

// NewWorldPlaced: segment = the store keeps values in a separate segment (IsValueDataInNodeSegment=false) instead of
// inside the B-tree nodes.
func NewWorldPlaced(slot int, unique bool, keys []int, val func(k int) int, segment bool) (*World, error) {
	dir, err := os.MkdirTemp(hx.WorkRoot(), "occx-")
	if err != nil {
		return nil, err
	}
	w := &World{Ctx: context.Background(), Dir: dir, Store: "st", Slot: slot, Unique: unique, items: map[sop.UUID]int{}, pages: map[sop.UUID]int{}}
	w.Env = txk.NewEnv(dir, 3)
	w.Env.ColdRestart()
	t, err := w.Env.NewTxn(w.Ctx, sop.ForWriting, MaxTime, nil)
	if err != nil {
		return nil, err
	}
	if err := t.T.Begin(w.Ctx); err != nil {
		return nil, err
	}
	so := w.Env.StoreOpts(w.Store, slot, unique)
	if segment {
		so.IsValueDataInNodeSegment = false
	}
	b, err := txk.NewBtree[int, string](w.Ctx, t, so)
	if err != nil {
		return nil, err
	}
	for _, k := range keys {
		if _, err := b.Add(w.Ctx, k, strconv.Itoa(val(k))); err != nil {
			return nil, err
		}
	}
	if err := t.T.Commit(w.Ctx); err != nil {
		return nil, err
	}
	if len(keys) > 0 {
		if err := w.mapInitial(); err != nil {
			return nil, err
		}
	}
	return w, nil
}

func (w *World) Close() { os.RemoveAll(w.Dir) }

// mapInitial numbers the items (in key order) and their nodes with a throw-away reader.
func (w *World) mapInitial() error {
	t, err := w.Env.NewTxn(w.Ctx, sop.ForReading, MaxTime, nil)
	if err != nil {
		return err
	}
	if err := t.T.Begin(w.Ctx); err != nil {
		return err
	}
	b, err := txk.OpenBtree[int, string](w.Ctx, t, w.Store)
	if err != nil {
		return err
	}
	ok, err := b.First(w.Ctx)
	for ok && err == nil {
		it, e := b.GetCurrentItem(w.Ctx)
		if e != nil {
			return e
		}
		n := w.ItemNo(it.ID)
		pg := w.PageNo(common.VerifOccCurrentNode(t.P, 0))
		w.Init = append(w.Init, InitItem{Item: n, Key: it.Key, Val: atoi(it.Value), Ver: it.Version, Page: pg})
		ok, err = b.Next(w.Ctx)
	}
	if err != nil {
		return err
	}
	return t.T.Rollback(w.Ctx)
}

func (w *World) ItemNo(id sop.UUID) int {
	if id.IsNil() {
		return 0
	}
	if n, ok := w.items[id]; ok {
		return n
	}
	w.nextIt++
	w.items[id] = w.nextIt
	return w.nextIt
}

// InitPage is the page a seeded item lives on.
func (w *World) InitPage(item int) int {
	for _, it := range w.Init {
		if it.Item == item {
			return it.Page
		}
	}
	return 0
}
func (w *World) NameItem(id sop.UUID, n int) { w.items[id] = n }
func (w *World) itemID(n int) sop.UUID {
	for id, m := range w.items {
		if m == n {
			return id
		}
	}
	return sop.NilUUID
}
func (w *World) PageNo(id sop.UUID) int {
	if id.IsNil() {
		return 0
	}
	if n, ok := w.pages[id]; ok {
		return n
	}
	n := len(w.pages) + 1
	w.pages[id] = n
	return n
}
func (w *World) ItemIDs() []sop.UUID {
	out := make([]sop.UUID, 0, len(w.items))
	for id := range w.items {
		out = append(out, id)
	}
	sort.Slice(out, func(i, j int) bool { return w.items[out[i]] < w.items[out[j]] })
	return out
}

// ---- one transaction in a goroutine ----

type Proc struct {
	W       *World
	Idx     int
	Prog    Prog
	Txn     *txk.Txn
	Script  *txk.Script
	B       btree.BtreeInterface[int, string]
	park    chan string
	resume  chan struct{}
	done    chan struct{}
	At      string // begin | lget | lset | ldel | plock | validate | install | done
	Results []OpResult
	Err     error // commit (or begin/open) error
	Aborted bool
	Panic   string // non-empty: Commit (or an op) panicked
	gating  bool
	round5  bool
	rdPark  bool
	// observations
	lockIDs  map[sop.UUID]string // LockID -> "<txn>.<gen>" (generation per item, by first appearance)
	gens     map[sop.UUID]int    // item id -> generations seen
	Trace    []string            // park points in order
	OwnAfter []int               // items with isLockOwner set (sorted), refreshed at every park
	PageSets string              // "f[..] u[..]" node sets of the write set at the last observation
	upages   []int
	Added    []int // nodes the transaction created (structure change: outside the model's scope)
	Tracked  string
}

const stepTimeout = 120 * time.Second

func (w *World) Spawn(idx int, pr Prog) (*Proc, error) {
	p := &Proc{W: w, Idx: idx, Prog: pr, park: make(chan string), resume: make(chan struct{}), done: make(chan struct{}),
		lockIDs: map[sop.UUID]string{}, gens: map[sop.UUID]int{}}
	sc := txk.NewScript(w.Env.Canon)
	sc.Gate = p.gate
	p.Script = sc
	mode := sop.ForWriting
	if pr.Reader {
		mode = sop.ForReading
	}
	t, err := w.Env.NewTxn(w.Ctx, mode, MaxTime, sc)
	if err != nil {
		return nil, err
	}
	p.Txn = t
	go p.run()
	select {
	case pt := <-p.park:
		p.At = pt
	case <-time.After(stepTimeout):
		return nil, fmt.Errorf("spawn timeout")
	}
	return p, nil
}

func (p *Proc) run() {
	defer close(p.done)
	defer func() {
		// a panic inside Commit (same goroutine) would kill the harness: keep it as the transaction's outcome
		if r := recover(); r != nil {
			p.Panic = fmt.Sprint(r)
			p.Err = fmt.Errorf("panic: %v", r)
			p.gating = false
		}
	}()
	p.park <- "begin"
	<-p.resume
	ctx := p.W.Ctx
	if err := p.Txn.T.Begin(ctx); err != nil {
		p.Err = err
		return
	}
	b, err := txk.OpenBtree[int, string](ctx, p.Txn, p.W.Store)
	if err != nil {
		p.Err = err
		return
	}
	p.B = b
	for i, op := range p.Prog.Ops {
		r := p.exec(i, op)
		p.Results = append(p.Results, r)
		if r.Err {
			// the wrapper rolled the transaction back
			p.Err = fmt.Errorf("op %d failed", i)
			return
		}
	}
	p.observe()
	if p.Prog.Abort {
		p.Aborted = true
		p.Err = p.Txn.T.Rollback(ctx)
		return
	}
	p.gating = true
	p.Err = p.Txn.T.Commit(ctx)
	p.gating = false
}

func atoi(s *string) int {
	if s == nil {
		return 0
	}
	n, _ := strconv.Atoi(*s)
	return n
}

func (p *Proc) trackedActions() map[sop.UUID]int {
	m := map[sop.UUID]int{}
	for _, ti := range common.VerifOccTracked(p.Txn.P) {
		m[ti.ID] = ti.Action
	}
	return m
}

func (p *Proc) exec(i int, op Op) OpResult {
	ctx := p.W.Ctx
	b := p.B
	var r OpResult
	here := func() {
		it := b.GetCurrentKey()
		r.Item = p.W.ItemNo(it.ID)
		r.Page = p.W.PageNo(common.VerifOccCurrentNode(p.Txn.P, 0))
	}
	switch op.Kind {
	case "get":
		ok, err := b.Find(ctx, op.Key, false)
		if err != nil {
			r.Err = true
			return r
		}
		if ok {
			it, err := b.GetCurrentItem(ctx)
			if err != nil {
				r.Err = true
				return r
			}
			r.OK, r.Val, r.Ver = true, atoi(it.Value), it.Version
			here()
		}
	case "upd":
		ok, err := b.Update(ctx, op.Key, strconv.Itoa(op.Val))
		r.OK, r.Err, r.Written = ok, err != nil, op.Val
		if ok {
			here()
		}
	case "updf":
		ok, err := b.Find(ctx, op.Src, false)
		if err != nil {
			r.Err = true
			return r
		}
		if ok {
			it, err := b.GetCurrentItem(ctx)
			if err != nil {
				r.Err = true
				return r
			}
			r.Val, r.Ver = atoi(it.Value), it.Version
			nv := r.Val + op.Delta
			ok2, err := b.Update(ctx, op.Key, strconv.Itoa(nv))
			r.OK, r.Err, r.Written = ok2, err != nil, nv
			if ok2 {
				here()
			}
		}
	case "add", "addne", "ups":
		before := p.trackedActions()
		var ok bool
		var err error
		switch op.Kind {
		case "add":
			ok, err = b.Add(ctx, op.Key, strconv.Itoa(op.Val))
		case "addne":
			ok, err = b.AddIfNotExist(ctx, op.Key, strconv.Itoa(op.Val))
		default:
			ok, err = b.Upsert(ctx, op.Key, strconv.Itoa(op.Val))
		}
		r.OK, r.Err, r.Written = ok, err != nil, op.Val
		if ok && err == nil {
			for _, ti := range common.VerifOccTracked(p.Txn.P) {
				if _, had := before[ti.ID]; !had && ti.Action == 2 {
					n := 1000*(p.Idx+1) + i
					p.W.NameItem(ti.ID, n)
					r.Item = n
				}
			}
			if f, _ := b.Find(ctx, op.Key, false); f {
				if r.Item == 0 {
					r.Item = p.W.ItemNo(b.GetCurrentKey().ID)
				}
				r.Page = p.W.PageNo(common.VerifOccCurrentNode(p.Txn.P, 0))
			}
		}
	case "rm":
		if f, err := b.Find(ctx, op.Key, false); err != nil {
			r.Err = true
			return r
		} else if f {
			here()
			r.Inner = common.VerifOccCurrentNodeIsInner(ctx, p.Txn.P, 0)
		}
		before := p.trackedActions()
		ok, err := b.Remove(ctx, op.Key)
		r.OK, r.Err = ok, err != nil
		if ok {
			// which item did the tracker register as removed? (an item of an inner node is swapped with its
			// in-order successor and the SUCCESSOR is what gets tracked; when the successor is an item this
			// transaction added, that add is simply un-tracked)
			foundID := p.W.itemID(r.Item)
			wasOwnAdd := before[foundID] == 2
			foundTracked, other := false, 0
			for _, ti := range common.VerifOccTracked(p.Txn.P) {
				if ti.Action == 4 && before[ti.ID] != 4 {
					if ti.ID == foundID {
						foundTracked = true
					} else {
						other = p.W.ItemNo(ti.ID)
					}
				}
			}
			if !foundTracked && !wasOwnAdd {
				r.Alias = other
				if other == 0 {
					r.Alias = -1
				}
			}
		}
	case "updkey":
		// UpdateKey(key): replaces the key of the item found under an equal key (for int keys: an update
		// that keeps the value)
		ok, err := b.UpdateKey(ctx, op.Key)
		r.OK, r.Err = ok, err != nil
		if ok {
			here()
		}
	}
	return r
}

// gate runs in the transaction's goroutine before every decorated backend call.
func (p *Proc) gate(idx int, name string) {
	if !p.gating {
		return
	}
	pt := ""
	switch name {
	case "l2.GetStructs":
		pt = "lget"
	case "l2.SetStructs":
		pt = "lset"
	case "l2.Delete":
		// unlock() of the item lock records runs after unlockNodesKeys; the earlier Deletes of a rollback
		// (rollbackUpdatedNodes dropping cached node copies) are not lock-record calls
		if len(common.VerifNodesKeys(p.Txn.P)) == 0 {
			pt = "ldel"
		}
	case "l2.Lock", "l2.DualLock":
		pt = "plock"
	case "tlog.Add":
		if common.VerifCommittedState(p.Txn.P) == 5 {
			p.round5 = true
		}
	case "reg.Get":
		if p.Prog.Reader {
			if !p.rdPark {
				p.rdPark = true
				pt = "validate"
			}
		} else if p.round5 && common.VerifCommittedState(p.Txn.P) == 5 {
			p.round5 = false
			pt = "validate"
		}
	case "reg.UpdateNoLocks":
		if common.VerifCommittedState(p.Txn.P) == 11 {
			pt = "install"
		}
	}
	if pt == "" {
		return
	}
	p.observe()
	p.park <- pt
	<-p.resume
}

// observe refreshes what the harness knows about the transaction's tracker (called while no one else runs).
func (p *Proc) observe() {
	tr := common.VerifOccTracked(p.Txn.P)
	var own []int
	var desc []string
	sort.Slice(tr, func(i, j int) bool { return p.W.ItemNo(tr[i].ID) < p.W.ItemNo(tr[j].ID) })
	for _, ti := range tr {
		n := p.W.ItemNo(ti.ID)
		if _, ok := p.lockIDs[ti.LockID]; !ok {
			g := p.gens[ti.ID]
			p.gens[ti.ID] = g + 1
			p.lockIDs[ti.LockID] = fmt.Sprintf("%d.%d", p.Idx, g)
		}
		if ti.IsLockOwner {
			own = append(own, n)
		}
		desc = append(desc, fmt.Sprintf("%d:%s:%d", n, actName(ti.Action), ti.VersionInDB))
	}
	sort.Ints(own)
	p.OwnAfter = own
	p.Tracked = strings.Join(desc, ",")
	var f, u, a []int
	for _, n := range common.VerifWriteSet(p.Txn.P) {
		switch n.Action {
		case "get":
			f = append(f, p.W.PageNo(n.ID))
		case "update", "remove":
			u = append(u, p.W.PageNo(n.ID))
		case "add", "root":
			a = append(a, p.W.PageNo(n.ID))
		}
	}
	sort.Ints(f)
	sort.Ints(u)
	sort.Ints(a)
	p.PageSets = fmt.Sprintf("f%v u%v", f, u)
	p.upages = u
	p.Added = a
}

func actName(a int) string {
	switch a {
	case 1:
		return "get"
	case 2:
		return "add"
	case 3:
		return "update"
	case 4:
		return "remove"
	}
	return "default"
}

// Step releases the transaction from its park point and waits until it parks again or finishes.
func (p *Proc) Step() error {
	if p.At == "done" {
		return nil
	}
	p.resume <- struct{}{}
	select {
	case pt := <-p.park:
		p.At = pt
	case <-p.done:
		p.At = "done"
		if p.Txn != nil && !p.Prog.Abort {
			p.observeDone()
		}
	case <-time.After(stepTimeout):
		return fmt.Errorf("txn %d: step timeout at %s", p.Idx, p.At)
	}
	p.Trace = append(p.Trace, p.At)
	return nil
}

func (p *Proc) observeDone() {
	defer func() { recover() }()
	p.observe()
}

func (p *Proc) Done() bool { return p.At == "done" }

// Result: "-" running, "ok" committed, "err" failed, "abort" rolled back by the program.
func (p *Proc) Result() string {
	if !p.Done() {
		return "-"
	}
	if p.Aborted {
		return "abort"
	}
	if p.Err != nil {
		return "err"
	}
	return "ok"
}

// ---- lock-record table ----

type Rec struct {
	Item  int
	Owner string // "<txn>.<gen>" or "?" for an id no transaction of the case has used
	Act   string
}

func (w *World) LockRecords(procs []*Proc) []Rec {
	var out []Rec
	for _, id := range w.ItemIDs() {
		found, lid, act := common.VerifOccLockRecord(w.Ctx, w.Env.L2, id)
		if !found {
			continue
		}
		owner := "?"
		for _, p := range procs {
			if o, ok := p.lockIDs[lid]; ok {
				owner = o
			}
		}
		out = append(out, Rec{Item: w.items[id], Owner: owner, Act: actName(act)})
	}
	return out
}

func RecsString(rs []Rec) string {
	s := make([]string, len(rs))
	for i, r := range rs {
		s[i] = fmt.Sprintf("%d=%s:%s", r.Item, r.Owner, r.Act)
	}
	return "[" + strings.Join(s, " ") + "]"
}

// ---- final cold scan ----

type Row struct {
	Key, Val int
	Ver      int32
	Item     int
}

// ColdScan reads the whole store as a freshly started other process would.
func (w *World) ColdScan() ([]Row, int64, error) {
	var rows []Row
	var count int64
	err := w.Env.AsOtherProcess(func(o *txk.Env) error {
		t, err := o.NewTxn(w.Ctx, sop.ForReading, MaxTime, nil)
		if err != nil {
			return err
		}
		if err := t.T.Begin(w.Ctx); err != nil {
			return err
		}
		b, err := txk.OpenBtree[int, string](w.Ctx, t, w.Store)
		if err != nil {
			return err
		}
		count = b.Count()
		ok, err := b.First(w.Ctx)
		for ok && err == nil {
			it, e := b.GetCurrentItem(w.Ctx)
			if e != nil {
				return e
			}
			rows = append(rows, Row{Key: it.Key, Val: atoi(it.Value), Ver: it.Version, Item: w.ItemNo(it.ID)})
			ok, err = b.Next(w.Ctx)
		}
		if err != nil {
			return err
		}
		return t.T.Rollback(w.Ctx)
	})
	return rows, count, err
}
