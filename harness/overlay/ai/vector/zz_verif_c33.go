//go:build verif

package vector

// Accessors for the C33 harness (compiled into ai/vector by `go build -overlay`; the tree is never written).
// The harness uses the package's own float32 routines so that the oracle inputs handed to the Lean model
// are exactly the values the store computes.

// VerifCosine is the score function Query uses.
func VerifCosine(a, b []float32) float32 { return cosine(a, b) }

// VerifEuclid is the distance function used for centroid assignment.
func VerifEuclid(a, b []float32) float32 { return euclideanDistance(a, b) }
