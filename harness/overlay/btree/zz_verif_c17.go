//go:build verif

package btree

import "github.com/sharedcode/sop"

// VerifCursor exposes the B-tree cursor to the /verif harness without moving it: the (node id, slot index)
// pair, whether an item pointer is cached, and what that pointer currently sees (it aliases the node's slot array).
func VerifCursor[TK Ordered, TV any](b *Btree[TK, TV]) (nodeID sop.UUID, idx int, cached bool, item Item[TK, TV]) {
	nodeID, idx = b.currentItemRef.nodeID, b.currentItemRef.nodeItemIndex
	if b.currentItem != nil {
		cached, item = true, *b.currentItem
	}
	return
}

// VerifIndexOfNode exposes a node's memoised position among its parent's children.
func VerifIndexOfNode[TK Ordered, TV any](n *Node[TK, TV]) int { return n.indexOfNode }
