//go:build verif

package btree

import (
	"context"

	"github.com/sharedcode/sop"
)

// VerifOccCurrentNodeID is the logical id of the node the cursor is on (C02/C05 harness: item -> page map).
func VerifOccCurrentNodeID[TK Ordered, TV any](b *Btree[TK, TV]) sop.UUID { return b.currentItemRef.nodeID }

// VerifOccCurrentNodeHasChildren: the cursor is on an item of an inner node (removing it moves the in-order
// successor up into this node, i.e. the successor item changes page).
func VerifOccCurrentNodeHasChildren[TK Ordered, TV any](ctx context.Context, b *Btree[TK, TV]) bool {
	if b.currentItemRef.nodeID.IsNil() {
		return false
	}
	n, err := b.getNode(ctx, b.currentItemRef.nodeID)
	return err == nil && n != nil && n.hasChildren()
}
