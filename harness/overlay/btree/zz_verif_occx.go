//go:build verif

package btree

import "github.com/sharedcode/sop"

// VerifOccCurrentNodeID is the logical id of the node the cursor is on (C02/C05 harness: item -> page map).
func VerifOccCurrentNodeID[TK Ordered, TV any](b *Btree[TK, TV]) sop.UUID { return b.currentItemRef.nodeID }
