//go:build verif

package btree

// VerifStoreInterface exposes a B-tree's repositories to the /verif harness (read-only use).
func VerifStoreInterface[TK Ordered, TV any](b *Btree[TK, TV]) *StoreInterface[TK, TV] { return b.storeInterface }
