//go:build verif

package cache

import (
	"sort"
	"time"

	"github.com/sharedcode/sop"
)

// C15 accessor: read-only view of the struct entries (SetStruct/GetStruct data) of the in-memory L2 cache.

// VerifC15DataEntry is one physical entry of the data map (expired ones included).
type VerifC15DataEntry struct {
	Key        string
	Data       []byte
	Expiration time.Time // zero = no expiry
}

// VerifC15DataEntries lists the entries of the data map whose key starts with prefix, sorted by key.
func VerifC15DataEntries(c sop.L2Cache, prefix string) []VerifC15DataEntry {
	m, ok := c.(*L2InMemoryCache)
	if !ok {
		return nil
	}
	var out []VerifC15DataEntry
	for _, sh := range m.data.shards {
		sh.mu.RLock()
		for k, v := range sh.items {
			if len(k) < len(prefix) || k[:len(prefix)] != prefix {
				continue
			}
			if it, ok := v.(item); ok {
				out = append(out, VerifC15DataEntry{Key: k, Data: append([]byte(nil), it.data...), Expiration: it.expiration})
			}
		}
		sh.mu.RUnlock()
	}
	sort.Slice(out, func(i, j int) bool { return out[i].Key < out[j].Key })
	return out
}
