//go:build verif

package cache

import "github.com/sharedcode/sop"

// C20 accessors (compiled in by the /verif harness only).

// VerifC20DropNodes empties the L1 node MRU of this process (an eviction of everything), leaving the L2 cache and
// the L1 Handles cache alone.
func VerifC20DropNodes(c *L1Cache) {
	c.locker.Lock()
	defer c.locker.Unlock()
	for id, v := range c.lookup {
		if v.dllNode != nil {
			c.mru.remove(v.dllNode)
		}
		v.nodeData = nil
		v.dllNode = nil
		delete(c.lookup, id)
	}
}

// VerifC20DropHandles empties the L1 Handles cache of this process.
func VerifC20DropHandles(c *L1Cache) { c.Handles.Clear() }

// VerifC20Counts: (node entries, handle entries) of an L1 cache.
func VerifC20Counts(c *L1Cache) (int, int) {
	c.locker.Lock()
	defer c.locker.Unlock()
	return len(c.lookup), c.Handles.Count()
}

// VerifC20Registry returns the map of L1 singletons of this process (by L2 cache type).
func VerifC20Registry() map[sop.L2CacheType]*L1Cache {
	globalL1Locker.RLock()
	defer globalL1Locker.RUnlock()
	return globalL1CacheRegistry
}
