//go:build verif

package cache

import (
	"hash/fnv"
	"sort"
	"time"

	"github.com/sharedcode/sop"
)

// Accessors compiled into package cache by the /verif harness (C28). Read-only views of the lock map.

// VerifLockEntry is one physical entry of the in-memory lock map (expired ones included).
type VerifLockEntry struct {
	Key        string
	LockID     sop.UUID
	Expiration time.Time
}

// VerifShardIndex is the shard a key of the sharded map lives in (same computation as getShard).
func VerifShardIndex(key string) int {
	h := fnv.New32a()
	h.Write([]byte(key))
	return int(h.Sum32() % shardCount)
}

// VerifShardOfKeyIs reports whether getShard(key) really is shard number idx of the cache's lock map.
func VerifShardOfKeyIs(c sop.L2Cache, key string, idx int) bool {
	m := c.(*L2InMemoryCache).locks
	return m.getShard(key) == m.shards[idx]
}

// VerifLockEntries lists every entry of the lock map, sorted by key.
func VerifLockEntries(c sop.L2Cache) []VerifLockEntry {
	m := c.(*L2InMemoryCache).locks
	var out []VerifLockEntry
	for _, sh := range m.shards {
		sh.mu.RLock()
		for k, v := range sh.items {
			if li, ok := v.(lockItem); ok {
				out = append(out, VerifLockEntry{k, li.lockID, li.expiration})
			}
		}
		sh.mu.RUnlock()
	}
	sort.Slice(out, func(i, j int) bool { return out[i].Key < out[j].Key })
	return out
}

// VerifLockCapacity is the per-shard capacity the cache was built with.
func VerifLockCapacity(c sop.L2Cache) int { return c.(*L2InMemoryCache).locks.maxItemsPerShard }
