//go:build verif

package cache

import (
	"context"

	"github.com/sharedcode/sop"
	"github.com/sharedcode/sop/btree"
)

// C38 accessors (compiled in by the /verif harness only).

// VerifC38Flood evicts everything the L1 node MRU holds the way production does: by cache pressure. It pushes
// 2*maxCapacity+1 unrelated nodes through SetNodeToMRU, so the real mru.evict() drops the older entries (the L2 cache and
// the L1 Handles cache are not touched).
func VerifC38Flood(c *L1Cache) {
	ctx := context.Background()
	n := 2*c.mru.maxCapacity + 1
	for i := 0; i < n; i++ {
		c.SetNodeToMRU(ctx, sop.NewUUID(), &btree.Node[int, int]{}, 0)
	}
}
