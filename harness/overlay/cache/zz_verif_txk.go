//go:build verif

package cache

import "github.com/sharedcode/sop"

// VerifResetGlobalL1 drops the process-wide L1 cache singletons: the next GetGlobalL1Cache builds a fresh one.
// Used by the /verif harness to emulate a cold process without spawning one.
func VerifResetGlobalL1() {
	globalL1Locker.Lock()
	globalL1CacheRegistry = make(map[sop.L2CacheType]*L1Cache)
	globalL1Locker.Unlock()
}

// VerifSwapGlobalL1 installs the given registry of L1 singletons and returns the previous one, so the harness
// can run a "different process" (cold caches) and then put this process's caches back.
func VerifSwapGlobalL1(m map[sop.L2CacheType]*L1Cache) map[sop.L2CacheType]*L1Cache {
	globalL1Locker.Lock()
	defer globalL1Locker.Unlock()
	old := globalL1CacheRegistry
	if m == nil {
		m = make(map[sop.L2CacheType]*L1Cache)
	}
	globalL1CacheRegistry = m
	return old
}

// VerifLoseLocks makes the in-memory L2 cache forget every lock it has granted (what a Redis restart, an eviction
// or a TTL expiry under a slow holder does): the harness uses it to explore lock loss between commit phases.
func VerifLoseLocks(c sop.L2Cache) bool {
	m, ok := c.(*L2InMemoryCache)
	if !ok {
		return false
	}
	for _, sh := range m.locks.shards {
		sh.mu.Lock()
		sh.items = make(map[string]interface{})
		sh.mu.Unlock()
	}
	return true
}
