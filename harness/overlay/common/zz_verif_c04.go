//go:build verif

package common

import (
	"fmt"
	"sort"

	"github.com/sharedcode/sop/btree"
)

// VerifC04Tracked lists the tracked item actions of every opened [int,string] store of a transaction, sorted by
// key: "key:action:versionInDB". Read-only; compiled in by the /verif harness (go build -overlay, tag verif).
func VerifC04Tracked(t *Transaction) []string {
	var out []string
	for _, s := range t.btreesBackend {
		b3, ok := s.btree.(*btree.Btree[int, string])
		if !ok {
			continue
		}
		iat, ok := btree.VerifStoreInterface(b3).ItemActionTracker.(*itemActionTracker[int, string])
		if !ok {
			continue
		}
		type row struct {
			k int
			s string
		}
		var rows []row
		for _, ci := range iat.items {
			a := "default"
			switch ci.Action {
			case getAction:
				a = "get"
			case addAction:
				a = "add"
			case updateAction:
				a = "upd"
			case removeAction:
				a = "rm"
			}
			rows = append(rows, row{ci.item.Key, fmt.Sprintf("%d:%s:%d", ci.item.Key, a, ci.versionInDB)})
		}
		sort.Slice(rows, func(i, j int) bool { return rows[i].s < rows[j].s })
		sort.SliceStable(rows, func(i, j int) bool { return rows[i].k < rows[j].k })
		for _, r := range rows {
			out = append(out, r.s)
		}
	}
	return out
}

// VerifC04Counts: per opened store (Count inside the transaction, count loaded from the store repository at open
// or at the last refetch).
func VerifC04Counts(t *Transaction) [][2]int64 {
	var out [][2]int64
	for _, s := range t.btreesBackend {
		out = append(out, [2]int64{s.getStoreInfo().Count, s.nodeRepository.count})
	}
	return out
}
