//go:build verif

package common

// VerifC14State is a read-only view of the lifecycle fields of a transaction (compiled in by the /verif harness
// via `go build -overlay`, tag verif): phaseDone, committed, and the logger's committedState.
func VerifC14State(t *Transaction) (phaseDone int, committed bool, logState int) {
	return t.phaseDone, t.committed, int(t.logger.committedState)
}
