//go:build verif

package common

import (
	"sort"

	"github.com/sharedcode/sop"
	"github.com/sharedcode/sop/btree"
)

// C15 accessors (read-only views of unexported values).

// VerifC15Phase1MaxRetry is the retry cap of the phase-1 commit loop.
func VerifC15Phase1MaxRetry() int { return phase1CommitMaxRetryCount }

// VerifC15NodesKeys returns the transaction's current node lock keys (nil when it has none).
func VerifC15NodesKeys(t *Transaction) []*sop.LockKey { return t.nodesKeys }

// VerifC15Tracked is one entry of an item action tracker: the item, the identity of its lock record and
// whether the tracker believes it owns the record in the L2 cache.
type VerifC15Tracked struct {
	Key    int
	ID     sop.UUID
	LockID sop.UUID
	Action int // 1 get, 2 add, 3 update, 4 remove (the actionType enum)
	Owner  bool
}

// VerifC15TrackedItems lists the tracker entries of every opened [int,string] store, sorted by key.
func VerifC15TrackedItems(t *Transaction) []VerifC15Tracked {
	var out []VerifC15Tracked
	for _, s := range t.btreesBackend {
		b3, ok := s.btree.(*btree.Btree[int, string])
		if !ok {
			continue
		}
		iat, ok := btree.VerifStoreInterface(b3).ItemActionTracker.(*itemActionTracker[int, string])
		if !ok {
			continue
		}
		for id, ci := range iat.items {
			k := 0
			if ci.item != nil {
				k = ci.item.Key
			}
			out = append(out, VerifC15Tracked{Key: k, ID: id, LockID: ci.LockID, Action: int(ci.Action), Owner: ci.isLockOwner})
		}
	}
	sort.Slice(out, func(i, j int) bool { return out[i].Key < out[j].Key })
	return out
}

// VerifC15Actions is the actionType enum in numeric order (get, add, update, remove).
func VerifC15Actions() [4]int {
	return [4]int{int(getAction), int(addAction), int(updateAction), int(removeAction)}
}
