//go:build verif

package common

import "github.com/sharedcode/sop"

// C15 accessors (read-only views of unexported values).

// VerifC15Phase1MaxRetry is the retry cap of the phase-1 commit loop.
func VerifC15Phase1MaxRetry() int { return phase1CommitMaxRetryCount }

// VerifC15NodesKeys returns the transaction's current node lock keys (nil when it has none).
func VerifC15NodesKeys(t *Transaction) []*sop.LockKey { return t.nodesKeys }
