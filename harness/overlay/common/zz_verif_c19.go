//go:build verif

package common

import (
	"context"

	"github.com/sharedcode/sop"
	"github.com/sharedcode/sop/btree"
)

// C19 accessors (compiled into package common by the /verif harness only: go build -overlay, tag verif).

// VerifC19Event is one call the B-tree made into the item action tracker: which item it handed over, and
// what the tracker left in that item when it returned.
type VerifC19Event struct {
	Op        string // add | get | update | remove
	Key       any
	ID        sop.UUID // item id at entry
	IDAfter   sop.UUID
	VNFBefore bool
	VNFAfter  bool
	HasValue  bool // item.Value != nil at return
	Err       bool
}

type verifC19Spy[TK btree.Ordered, TV any] struct {
	in  btree.ItemActionTracker[TK, TV]
	rec func(VerifC19Event)
}

func (d *verifC19Spy[TK, TV]) ev(op string, it *btree.Item[TK, TV], f func() error) error {
	e := VerifC19Event{Op: op, Key: it.Key, ID: it.ID, VNFBefore: it.ValueNeedsFetch}
	err := f()
	e.IDAfter, e.VNFAfter, e.HasValue, e.Err = it.ID, it.ValueNeedsFetch, it.Value != nil, err != nil
	d.rec(e)
	return err
}
func (d *verifC19Spy[TK, TV]) Add(ctx context.Context, it *btree.Item[TK, TV]) error {
	return d.ev("add", it, func() error { return d.in.Add(ctx, it) })
}
func (d *verifC19Spy[TK, TV]) Get(ctx context.Context, it *btree.Item[TK, TV]) error {
	return d.ev("get", it, func() error { return d.in.Get(ctx, it) })
}
func (d *verifC19Spy[TK, TV]) Update(ctx context.Context, it *btree.Item[TK, TV]) error {
	return d.ev("update", it, func() error { return d.in.Update(ctx, it) })
}
func (d *verifC19Spy[TK, TV]) Remove(ctx context.Context, it *btree.Item[TK, TV]) error {
	return d.ev("remove", it, func() error { return d.in.Remove(ctx, it) })
}

func verifC19Btree[TK btree.Ordered, TV any](t *Transaction, store string) *btree.Btree[TK, TV] {
	for _, s := range t.btreesBackend {
		if s.getStoreInfo().Name == store {
			if b3, ok := s.btree.(*btree.Btree[TK, TV]); ok {
				return b3
			}
		}
	}
	return nil
}

// VerifC19Spy puts a recording pass-through in front of the item action tracker of an open store. (A commit
// that has to refetch-and-merge type-asserts the tracker and would panic: only for conflict-free histories.)
func VerifC19Spy[TK btree.Ordered, TV any](t *Transaction, store string, rec func(VerifC19Event)) bool {
	b3 := verifC19Btree[TK, TV](t, store)
	if b3 == nil {
		return false
	}
	si := btree.VerifStoreInterface(b3)
	if _, already := si.ItemActionTracker.(*verifC19Spy[TK, TV]); already {
		return true
	}
	si.ItemActionTracker = &verifC19Spy[TK, TV]{in: si.ItemActionTracker, rec: rec}
	return true
}

// VerifC19Unspy takes the pass-through out again (before Commit, so that the commit code sees its own type).
func VerifC19Unspy[TK btree.Ordered, TV any](t *Transaction, store string) {
	if b3 := verifC19Btree[TK, TV](t, store); b3 != nil {
		si := btree.VerifStoreInterface(b3)
		if d, ok := si.ItemActionTracker.(*verifC19Spy[TK, TV]); ok {
			si.ItemActionTracker = d.in
		}
	}
}

// VerifC19Tracked reports (number of tracked items, number of ids queued for value deletion) of a store.
func VerifC19Tracked(t *Transaction, store string) (tracked bool, found bool) {
	for _, s := range t.btreesBackend {
		if s.getStoreInfo().Name == store {
			return s.hasTrackedItems(), true
		}
	}
	return false, false
}
