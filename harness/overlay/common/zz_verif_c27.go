//go:build verif

package common

import "github.com/sharedcode/sop"

// VerifCommitHandles returns what the last Commit of t handed to Registry.Replicate / StoreRepository.Replicate /
// LogCommitChanges: the handles of new roots, added, updated and removed nodes and the updated store infos.
// Accessor for the /verif C27 harness; add-only.
func VerifCommitHandles(t *Transaction) (roots, added, updated, removed []sop.RegistryPayload[sop.Handle], stores []sop.StoreInfo) {
	return t.newRootNodeHandles, t.addedNodeHandles, t.updatedNodeHandles, t.removedNodeHandles, t.updatedStoresInfo
}
