//go:build verif

package common

import (
	"context"

	"github.com/sharedcode/sop"
	"github.com/sharedcode/sop/btree"
)

// Accessors for the C02/C05 harness (package verifharness/occx): the tracked item actions of a transaction
// and the item lock records in the L2 cache. Read-only.

type VerifOccItem struct {
	ID          sop.UUID
	Key         int
	Action      int // 1 get, 2 add, 3 update, 4 remove (the actionType enum)
	VersionInDB int32
	LockID      sop.UUID
	IsLockOwner bool
}

// VerifOccTracked lists the tracked items of every opened [int,string] store of t (Go map order).
func VerifOccTracked(t *Transaction) []VerifOccItem {
	var out []VerifOccItem
	for _, s := range t.btreesBackend {
		b3, ok := s.btree.(*btree.Btree[int, string])
		if !ok {
			continue
		}
		iat, ok := btree.VerifStoreInterface(b3).ItemActionTracker.(*itemActionTracker[int, string])
		if !ok {
			continue
		}
		for id, ci := range iat.items {
			k := 0
			if ci.item != nil {
				k = ci.item.Key
			}
			out = append(out, VerifOccItem{ID: id, Key: k, Action: int(ci.Action), VersionInDB: ci.versionInDB, LockID: ci.LockID, IsLockOwner: ci.isLockOwner})
		}
	}
	return out
}

// VerifOccLockRecord reads the lock record stored for an item id (found, LockID, action).
func VerifOccLockRecord(ctx context.Context, l2 sop.L2Cache, itemID sop.UUID) (bool, sop.UUID, int) {
	var r lockRecord
	found, err := l2.GetStruct(ctx, l2.FormatLockKey(itemID.String()), &r)
	if err != nil || !found {
		return false, sop.NilUUID, 0
	}
	return true, r.LockID, int(r.Action)
}

// VerifOccActionNames is the actionType enum in numeric order.
func VerifOccActionNames() []string {
	return []string{defaultAction: "default", getAction: "get", addAction: "add", updateAction: "update", removeAction: "remove"}
}

// VerifOccCurrentNode: logical id of the node under the cursor of the i-th opened [int,string] store.
func VerifOccCurrentNode(t *Transaction, i int) sop.UUID {
	if i < 0 || i >= len(t.btreesBackend) {
		return sop.NilUUID
	}
	if b3, ok := t.btreesBackend[i].btree.(*btree.Btree[int, string]); ok {
		return btree.VerifOccCurrentNodeID(b3)
	}
	return sop.NilUUID
}

// VerifOccCurrentNodeIsInner: the cursor of the i-th opened [int,string] store is on an item of a node with children.
func VerifOccCurrentNodeIsInner(ctx context.Context, t *Transaction, i int) bool {
	if i < 0 || i >= len(t.btreesBackend) {
		return false
	}
	if b3, ok := t.btreesBackend[i].btree.(*btree.Btree[int, string]); ok {
		return btree.VerifOccCurrentNodeHasChildren(ctx, b3)
	}
	return false
}
