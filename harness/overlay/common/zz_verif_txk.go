//go:build verif

package common

import (
	"context"

	"github.com/sharedcode/sop"
	"github.com/sharedcode/sop/btree"
)

// Accessors compiled into package common by the /verif harness (go build -overlay, tag verif). Read-only
// views of a transaction's state plus entry points to unexported recovery routines.

// VerifNode is one locally cached node of a transaction: which store, logical id, the version it was read at and its action.
type VerifNode struct {
	Store   string
	ID      sop.UUID
	Version int32
	Action  string // get | add | update | remove | root | default
}

// VerifWriteSet lists what classifyModifiedNodes would hand to the commit steps (order is Go map order: unspecified).
func VerifWriteSet(t *Transaction) []VerifNode {
	var out []VerifNode
	for _, s := range t.btreesBackend {
		for _, cn := range s.nodeRepository.localCache {
			md := cn.node.(btree.MetaDataType)
			a := "default"
			switch cn.action {
			case getAction:
				a = "get"
			case addAction:
				a = "add"
				if s.nodeRepository.count == 0 && s.getStoreInfo().RootNodeID == md.GetID() {
					a = "root"
				}
			case updateAction:
				a = "update"
			case removeAction:
				a = "remove"
			}
			out = append(out, VerifNode{Store: s.getStoreInfo().Name, ID: md.GetID(), Version: md.GetVersion(), Action: a})
		}
	}
	return out
}

// VerifCountDeltas: per opened store, (name, Count in the transaction, count when the store was opened).
func VerifCountDeltas(t *Transaction) [][3]any {
	var out [][3]any
	for _, s := range t.btreesBackend {
		out = append(out, [3]any{s.getStoreInfo().Name, s.getStoreInfo().Count, s.nodeRepository.count})
	}
	return out
}

func VerifCommittedState(t *Transaction) int { return int(t.logger.committedState) }
func VerifPhaseDone(t *Transaction) int      { return t.phaseDone }
func VerifNodesKeys(t *Transaction) []string {
	var out []string
	for _, k := range t.nodesKeys {
		out = append(out, k.Key)
	}
	return out
}

// VerifCommitSteps is the commitFunction enum in numeric order.
func VerifCommitSteps() map[string]int {
	return map[string]int{
		"unknown": int(unknown), "createStore": int(createStore), "lockTrackedItems": int(lockTrackedItems),
		"commitTrackedItemsValues": int(commitTrackedItemsValues), "commitNewRootNodes": int(commitNewRootNodes),
		"areFetchedItemsIntact": int(areFetchedItemsIntact), "commitUpdatedNodes": int(commitUpdatedNodes),
		"commitRemovedNodes": int(commitRemovedNodes), "commitAddedNodes": int(commitAddedNodes),
		"commitStoreInfo": int(commitStoreInfo), "beforeFinalize": int(beforeFinalize), "finalizeCommit": int(finalizeCommit),
		"deleteObsoleteEntries": int(deleteObsoleteEntries), "deleteTrackedItemsValues": int(deleteTrackedItemsValues),
		"addActivelyPersistedItem": int(addActivelyPersistedItem),
	}
}

func VerifPhase1MaxRetry() int { return phase1CommitMaxRetryCount }

// Recovery entry points (unreachable through Begin on the unchanged tree, see C09).
func VerifProcessExpiredLogs(ctx context.Context, t *Transaction) error {
	return t.logger.processExpiredTransactionLogs(ctx, t)
}
func VerifDoPriorityRollbacks(ctx context.Context, t *Transaction) (bool, error) {
	return t.logger.doPriorityRollbacks(ctx, t)
}
func VerifOnIdle(ctx context.Context, t *Transaction) { t.onIdle(ctx) }

// VerifResetIdleClocks puts the process-wide maintenance scheduling state back to "just started".
func VerifResetIdleClocks() {
	lastOnIdleRunTime = 0
	lastPriorityOnIdleTime = 0
	priorityLogFound = false
	onStartUpFlag = true
	hourBeingProcessed = ""
}
func VerifIdleClocks() (int64, int64) { return lastOnIdleRunTime, lastPriorityOnIdleTime }

// VerifItemCounts: per opened [int,string] store: (name, hasTrackedItems, number of tracked items with a non-add action).
func VerifItemCounts(t *Transaction) [][3]any {
	var out [][3]any
	for _, s := range t.btreesBackend {
		n := -1
		if b3, ok := s.btree.(*btree.Btree[int, string]); ok {
			if iat, ok := btree.VerifStoreInterface(b3).ItemActionTracker.(*itemActionTracker[int, string]); ok {
				n = 0
				for _, ci := range iat.items {
					if ci.Action != addAction {
						n++
					}
				}
			}
		}
		out = append(out, [3]any{s.getStoreInfo().Name, s.hasTrackedItems(), n})
	}
	return out
}

// VerifWriteItemCounts: per opened [int,string] store name: number of tracked items with an update or remove action
// (their lock records are exclusive; the records of items that were only read are compatible with other readers').
func VerifWriteItemCounts(t *Transaction) map[string]int {
	out := map[string]int{}
	for _, s := range t.btreesBackend {
		if b3, ok := s.btree.(*btree.Btree[int, string]); ok {
			if iat, ok := btree.VerifStoreInterface(b3).ItemActionTracker.(*itemActionTracker[int, string]); ok {
				n := 0
				for _, ci := range iat.items {
					if ci.Action == updateAction || ci.Action == removeAction {
						n++
					}
				}
				out[s.getStoreInfo().Name] = n
			}
		}
	}
	return out
}

// VerifValueIDs: per opened [int,string] store whose values live in their own segment (not actively persisted):
// the ids under which commitTrackedItemsValues will write value blobs (tracked add/update items that carry a value).
func VerifValueIDs(t *Transaction) map[string][]sop.UUID {
	out := map[string][]sop.UUID{}
	for _, s := range t.btreesBackend {
		si := s.getStoreInfo()
		if si.IsValueDataInNodeSegment || si.IsValueDataActivelyPersisted {
			continue
		}
		b3, ok := s.btree.(*btree.Btree[int, string])
		if !ok {
			continue
		}
		iat, ok := btree.VerifStoreInterface(b3).ItemActionTracker.(*itemActionTracker[int, string])
		if !ok {
			continue
		}
		for _, ci := range iat.items {
			if ci.persisted {
				continue
			}
			if (ci.Action == addAction || ci.Action == updateAction) && ci.item.Value != nil && !(ci.Action == updateAction && ci.item.ValueNeedsFetch) {
				out[si.Name] = append(out[si.Name], ci.item.ID)
			}
		}
	}
	return out
}
