//go:build verif

package fs

// Accessor compiled into package fs by the /verif harness (C13): the in-place numeric patch of storeinfo.txt.
func VerifPatchJSONNumericField(data []byte, field string, value int64) ([]byte, error) {
	return patchJSONNumericField(data, field, value)
}
