//go:build verif

package fs

import "time"

// C15 accessors.

// VerifC15LockSectorRetryTimeout is the cap of one registry sector-lock wait loop.
func VerifC15LockSectorRetryTimeout() time.Duration { return lockSectorRetryTimeoutDuration }

// VerifC15SetLockSectorRetryTimeout changes the cap (package variable) and returns the previous value.
func VerifC15SetLockSectorRetryTimeout(d time.Duration) time.Duration {
	old := lockSectorRetryTimeoutDuration
	lockSectorRetryTimeoutDuration = d
	return old
}

// VerifC15LockFileRegionKeyPrefix is the prefix of sector lock key names.
func VerifC15LockFileRegionKeyPrefix() string { return lockFileRegionKeyPrefix }
