//go:build verif

package fs

import "time"

// C21: adding an id that is already in the registry makes findAndAdd retry until
// lockSectorRetryTimeoutDuration (3 minutes) lapses. The harness shortens the wait; the timeout is only
// consulted after a failed attempt, so successful paths are unaffected. Returns the previous value.
func VerifSetLockRetryTimeout(d time.Duration) time.Duration {
	old := lockSectorRetryTimeoutDuration
	lockSectorRetryTimeoutDuration = d
	return old
}
