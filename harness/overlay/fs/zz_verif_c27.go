//go:build verif

package fs

import (
	"context"
	"fmt"
)

// Accessors for the /verif C27 harness: the phases of ReinstateFailedDrives one at a time (so commits can be
// scheduled between them) and the tracker's flags. Add-only; nothing here changes behaviour.

func verifRT(x any) (*replicationTracker, error) {
	rt, ok := x.(*replicationTracker)
	if !ok {
		return nil, fmt.Errorf("not a replication tracker: %T", x)
	}
	return rt, nil
}

// VerifReinstatePhase runs one phase: 1 startLoggingCommitChanges, 2 copyStores, 3 fastForward until no log is
// left, 4 turnOnReplication, 5 fastForward until no log is left (ReinstateFailedDrives = 1;2;3;4;5).
func VerifReinstatePhase(ctx context.Context, x any, phase int) error {
	r, err := verifRT(x)
	if err != nil {
		return err
	}
	switch phase {
	case 0:
		if !r.replicate {
			return fmt.Errorf("replicate flag is off")
		}
		if !r.ReplicationTrackedDetails.FailedToReplicate {
			return fmt.Errorf("FailedToReplicate is false")
		}
		return nil
	case 1:
		return r.startLoggingCommitChanges(ctx)
	case 2:
		return r.copyStores(ctx)
	case 3, 5:
		for {
			found, err := r.fastForward(ctx)
			if err != nil {
				return err
			}
			if !found {
				return nil
			}
		}
	case 4:
		return r.turnOnReplication(ctx)
	}
	return fmt.Errorf("unknown phase %d", phase)
}

// VerifTrackerFlags returns (FailedToReplicate, ActiveFolderToggler, LogCommitChanges) of a tracker.
func VerifTrackerFlags(x any) (bool, bool, bool) {
	r, err := verifRT(x)
	if err != nil {
		return false, false, false
	}
	return r.FailedToReplicate, r.ActiveFolderToggler, r.LogCommitChanges
}
