//go:build verif

package fs

import "github.com/sharedcode/sop"

// Accessors compiled into package fs by the /verif harness via `go build -overlay` (tag verif).
// They only read unexported constants and call unexported pure functions; nothing here is part of the tree.

func VerifHandlesPerBlock() int { return handlesPerBlock }
func VerifBlockSize() int       { return blockSize }

func VerifOffsets(id sop.UUID, hashMod int) (int64, int64) {
	hm := &hashmap{hashModValue: hashMod}
	return hm.getBlockOffsetAndHandleInBlockOffset(id)
}

func VerifMarshalData(payload, block []byte) []byte { return marshalData(payload, block) }
func VerifUnmarshalData(block []byte) ([]byte, error) { return unmarshalData(block) }
