//go:build verif

package jsondb

// Accessor compiled into package jsondb by the /verif harness via `go build -overlay` (tag verif); nothing here
// is part of the tree. It returns the comparer a JsonDBMapKey hands to its B-tree (the unexported
// proxyComparer bound to a new instance): IndexSpecification.Comparer when spec != nil, else defaultComparer.
func VerifNewMapKeyComparer(spec *IndexSpecification) func(x, y map[string]any) int {
	j := &JsonDBMapKey{indexSpecification: spec}
	return j.proxyComparer
}
