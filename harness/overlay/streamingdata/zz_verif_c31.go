//go:build verif

package streamingdata

import (
	"context"
	"io"

	"github.com/sharedcode/sop/btree"
)

// VerifNewReader returns the unexported chunk reader exactly as GetCurrentValue builds it (before it is
// wrapped in a json.Decoder), so the /verif harness can call Read with buffer sizes of its own choosing.
// Compiled in with `go build -overlay` (tag verif); not part of the tree.
func VerifNewReader[TK btree.Ordered](ctx context.Context, s *StreamingDataStore[TK]) io.Reader {
	ck := s.BtreeInterface.GetCurrentKey().Key
	return newReader(ctx, ck.Key, ck.ChunkIndex, s.BtreeInterface)
}
