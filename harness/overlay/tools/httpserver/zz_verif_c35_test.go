//go:build verif

package main

// Compiled into package main of tools/httpserver by the /verif harness with `go test -overlay` (tag verif);
// not part of the tree. It replays an op script (env VERIF_C35_SCRIPT) against the real SessionStore on a
// fresh temp database per case and writes one canonical output line per op (env VERIF_C35_OUT).
//
// Time: the code under test reads time.Now(). A script line carries the model instant T (seconds). When T
// moves forward by d the world is shifted instead of slept through: every record's IssuedAt / ExpiresAt /
// RefreshExpiresAt moves back by d and every issued access token is re-issued by the package's own
// signAccessToken with iat-d / exp-d under the secret it was issued with (same subject, role, jti), the
// table keys following. Only differences `instant - now` enter the code's decisions, so this is the state the
// server would be in d seconds later.

import (
	"bufio"
	"context"
	"crypto/hmac"
	"crypto/sha256"
	"encoding/json"
	"fmt"
	"math"
	"os"
	"sort"
	"strconv"
	"strings"
	"sync"
	"testing"
	"time"
)

type c35case struct {
	dir       string
	store     *SessionStore
	T         int64
	j         int
	reg       map[string]string // name -> current token string
	regSecret map[string]string // access token name -> config.SessionSecret value it was issued under
}

func c35SecretName(n int) string {
	if n == 0 {
		return "" // the built-in default secret is in effect
	}
	return fmt.Sprintf("s3cr3t-%d", n)
}

func c35User(u int) string {
	if u == 0 {
		return ""
	}
	return fmt.Sprintf("user%d", u)
}

var c35Roles = []string{"", "admin", "user", "guest"}

func c35UserNo(s string) string {
	if s == "" {
		return "0"
	}
	if strings.HasPrefix(s, "user") {
		if _, err := strconv.Atoi(s[4:]); err == nil {
			return s[4:]
		}
	}
	return "?" + s
}

func c35RoleNo(s string) string {
	for i, r := range c35Roles {
		if r == s {
			return strconv.Itoa(i)
		}
	}
	return "?" + s
}

func c35NewCase(tmp string, hdr []string) (*c35case, error) {
	dir, err := os.MkdirTemp(tmp, "c35db-")
	if err != nil {
		return nil, err
	}
	sec, _ := strconv.Atoi(hdr[0])
	ttl, _ := strconv.Atoi(hdr[1])
	rttl, _ := strconv.Atoi(hdr[2])
	config = Config{
		SystemDB:      &DatabaseConfig{Name: SystemDBName, Path: dir, Mode: "standalone"},
		SessionSecret: c35SecretName(sec),
	}
	tokenFacade = nil
	tokenFacadeOnce = sync.Once{}
	st := NewSessionStore(time.Duration(ttl) * time.Second)
	st.refreshTTL = time.Duration(rttl) * time.Second
	return &c35case{dir: dir, store: st, reg: map[string]string{}, regSecret: map[string]string{}}, nil
}

func c35Sign(secret string, claims signedAccessClaims) string {
	key := []byte(secret)
	if secret == "" {
		key = []byte("sop-session-default-secret")
	}
	header := base64urlEncode([]byte(`{"alg":"HS256","typ":"JWT"}`))
	cj, _ := json.Marshal(claims)
	input := header + "." + base64urlEncode(cj)
	m := hmac.New(sha256.New, key)
	m.Write([]byte(input))
	return input + "." + base64urlEncode(m.Sum(nil))
}

func c35Claims(tok string) (signedAccessClaims, []string, bool) {
	var cl signedAccessClaims
	parts := strings.Split(tok, ".")
	if len(parts) != 3 {
		return cl, parts, false
	}
	raw, err := base64urlDecode(parts[1])
	if err != nil || json.Unmarshal(raw, &cl) != nil {
		return cl, parts, false
	}
	return cl, parts, true
}

func (c *c35case) mutate(tok, m string) (string, bool) {
	cl, parts, ok := c35Claims(tok)
	if !ok {
		if m == "x" && len(parts) != 3 {
			return tok + "0", true
		}
		return "", false
	}
	alter := func() signedAccessClaims { a := cl; a.ExpiresAt += 86400; a.Role = "admin"; return a }
	switch {
	case m == "sig":
		s := []byte(parts[2])
		if s[len(s)-1] == 'A' {
			s[len(s)-1] = 'B'
		} else {
			s[len(s)-1] = 'A'
		}
		return parts[0] + "." + parts[1] + "." + string(s), true
	case m == "pay":
		a := cl
		a.ExpiresAt += 86400
		cj, _ := json.Marshal(a)
		return parts[0] + "." + base64urlEncode(cj) + "." + parts[2], true
	case m == "hdr":
		return base64urlEncode([]byte(`{"typ":"JWT","alg":"HS256"}`)) + "." + parts[1] + "." + parts[2], true
	case m == "ws":
		cj, _ := json.Marshal(cl)
		return parts[0] + "." + base64urlEncode(append([]byte(" "), cj...)) + "." + parts[2], true
	case m == "trunc2":
		return parts[0] + "." + parts[1], true
	case m == "resignD":
		return c35Sign("", alter()), true
	case strings.HasPrefix(m, "resignS"):
		n, err := strconv.Atoi(m[7:])
		if err != nil {
			return "", false
		}
		return c35Sign(c35SecretName(n), alter()), true
	}
	return "", false
}

func (c *c35case) resolve(e string) (string, bool) {
	bm := strings.Split(e, "~")
	if len(bm) > 2 {
		return "", false
	}
	var base string
	if strings.HasPrefix(bm[0], "X") {
		n, err := strconv.Atoi(bm[0][1:])
		if err != nil {
			return "", false
		}
		base = fmt.Sprintf("deadbeef%040d", n)
	} else {
		t, ok := c.reg[bm[0]]
		if !ok {
			return "", false
		}
		base = t
	}
	if len(bm) == 1 {
		return base, true
	}
	if strings.HasPrefix(bm[0], "X") && bm[1] != "x" {
		return "", false
	}
	return c.mutate(base, bm[1])
}

// shift moves the world d seconds into the past (= the clock d seconds forward).
func (c *c35case) shift(ctx context.Context, d int64) error {
	dd := time.Duration(d) * time.Second
	remap := map[string]string{}
	for name, tok := range c.reg {
		if !strings.HasPrefix(name, "A") {
			continue
		}
		cl, _, ok := c35Claims(tok)
		if !ok {
			return fmt.Errorf("registered access token %s does not parse", name)
		}
		old := config.SessionSecret
		config.SessionSecret = c.regSecret[name]
		nt, err := signAccessToken(cl.Subject, cl.Role, time.Unix(cl.IssuedAt-d, 0), time.Unix(cl.ExpiresAt-d, 0), cl.TokenID)
		config.SessionSecret = old
		if err != nil {
			return err
		}
		remap[tok] = nt
		c.reg[name] = nt
	}
	st, tx, err := c.store.getStore(ctx)
	if err != nil {
		return err
	}
	defer tx.Rollback(ctx)
	type kv struct {
		k string
		r SessionRecord
	}
	var all []kv
	ok, err := st.First(ctx)
	for ok && err == nil {
		k := st.GetCurrentKey().Key
		v, e2 := st.GetCurrentValue(ctx)
		if e2 != nil {
			return e2
		}
		all = append(all, kv{k, v})
		ok, err = st.Next(ctx)
	}
	if err != nil {
		return err
	}
	for _, e := range all {
		if ok, err := st.Remove(ctx, e.k); err != nil || !ok {
			return fmt.Errorf("shift: remove failed: %v", err)
		}
	}
	for _, e := range all {
		r := e.r
		r.IssuedAt = r.IssuedAt.Add(-dd)
		r.ExpiresAt = r.ExpiresAt.Add(-dd)
		if !r.RefreshExpiresAt.IsZero() {
			r.RefreshExpiresAt = r.RefreshExpiresAt.Add(-dd)
		}
		if nt, ok := remap[r.Token]; ok {
			r.Token = nt
		}
		k := e.k
		if nt, ok := remap[k]; ok {
			k = nt
		}
		if ok, err := st.Add(ctx, k, r); err != nil || !ok {
			return fmt.Errorf("shift: add failed: %v", err)
		}
	}
	return tx.Commit(ctx)
}

func c35Err(err error) string {
	m := err.Error()
	switch {
	case m == "invalid session":
		return "err:invalid"
	case m == "expired session":
		return "err:expired"
	case m == "invalid refresh token":
		return "err:invalid-refresh"
	case m == "expired refresh token":
		return "err:expired-refresh"
	case strings.Contains(m, "collision") || strings.Contains(m, "already exist"):
		return "err:collision"
	}
	return "err:other:" + strings.ReplaceAll(strings.ReplaceAll(m, "\n", " "), "\t", " ")
}

func (c *c35case) step(ctx context.Context, f []string) string {
	if len(f) < 2 {
		return "bad-op"
	}
	T, err := strconv.ParseInt(f[1], 10, 64)
	if err != nil {
		return "bad-op"
	}
	if T > c.T {
		if err := c.shift(ctx, T-c.T); err != nil {
			return "harness-error:" + err.Error()
		}
		c.T = T
	}
	switch {
	case (f[0] == "ct" || f[0] == "cs") && len(f) == 4:
		u, _ := strconv.Atoi(f[2])
		r, _ := strconv.Atoi(f[3])
		if r < 0 || r >= len(c35Roles) {
			return "bad-op"
		}
		c.j++
		var a, rt string
		if f[0] == "ct" {
			a, err = c.store.CreateToken(ctx, c35User(u), c35Roles[r])
		} else {
			a, rt, err = c.store.CreateSession(ctx, c35User(u), c35Roles[r])
		}
		if err != nil {
			return c35Err(err)
		}
		c.reg[fmt.Sprintf("A%d", c.j)] = a
		c.regSecret[fmt.Sprintf("A%d", c.j)] = config.SessionSecret
		if f[0] == "cs" {
			c.reg[fmt.Sprintf("R%d", c.j)] = rt
		}
		return "ok"
	case f[0] == "ref" && len(f) == 3:
		c.j++
		tok, ok := c.resolve(f[2])
		if !ok {
			return "undef"
		}
		a, rt, err := c.store.Refresh(ctx, tok)
		if err != nil {
			return c35Err(err)
		}
		c.reg[fmt.Sprintf("A%d", c.j)] = a
		c.regSecret[fmt.Sprintf("A%d", c.j)] = config.SessionSecret
		c.reg[fmt.Sprintf("R%d", c.j)] = rt
		return "ok"
	case f[0] == "val" && len(f) == 3:
		tok, ok := c.resolve(f[2])
		if !ok {
			return "undef"
		}
		u, err := c.store.ValidateToken(ctx, tok)
		if err != nil {
			return c35Err(err)
		}
		return "user " + c35UserNo(u.Username) + " " + c35RoleNo(u.Role)
	case f[0] == "rev" && len(f) == 3:
		tok, ok := c.resolve(f[2])
		if !ok {
			return "undef"
		}
		c.store.RevokeToken(ctx, tok)
		return "unit"
	case f[0] == "secret" && len(f) == 3:
		n, err := strconv.Atoi(f[2])
		if err != nil {
			return "bad-op"
		}
		config.SessionSecret = c35SecretName(n)
		return "unit"
	case f[0] == "dump" && len(f) == 2:
		st, tx, err := c.store.getStore(ctx)
		if err != nil {
			return "harness-error:" + err.Error()
		}
		defer tx.Rollback(ctx)
		rev := map[string]string{}
		for n, t := range c.reg {
			rev[t] = n
		}
		var items []string
		now := time.Now()
		ok, err := st.First(ctx)
		for ok && err == nil {
			k := st.GetCurrentKey().Key
			v, e2 := st.GetCurrentValue(ctx)
			if e2 != nil {
				return "harness-error:" + e2.Error()
			}
			name, found := rev[k]
			if !found {
				name = "?"
			}
			exp := c.T + int64(math.Round(v.ExpiresAt.Sub(now).Seconds()/60))*60
			items = append(items, fmt.Sprintf("%s=%d", name, exp))
			ok, err = st.Next(ctx)
		}
		if err != nil {
			return "harness-error:" + err.Error()
		}
		if len(items) == 0 {
			return "empty"
		}
		sort.Strings(items)
		return strings.Join(items, " ")
	}
	return "bad-op"
}

func TestVerifC35(t *testing.T) {
	script, outPath, tmp := os.Getenv("VERIF_C35_SCRIPT"), os.Getenv("VERIF_C35_OUT"), os.Getenv("VERIF_C35_TMP")
	if script == "" || outPath == "" || tmp == "" {
		t.Skip("driven by the /verif harness only")
	}
	os.Unsetenv("SOP_SESSION_SECRET")
	in, err := os.Open(script)
	if err != nil {
		t.Fatal(err)
	}
	defer in.Close()
	out, err := os.Create(outPath)
	if err != nil {
		t.Fatal(err)
	}
	defer out.Close()
	w := bufio.NewWriter(out)
	defer w.Flush()
	oldConfig, oldFacade := config, tokenFacade
	defer func() { config, tokenFacade = oldConfig, oldFacade }()
	ctx := context.Background()
	var c *c35case
	sc := bufio.NewScanner(in)
	sc.Buffer(make([]byte, 1<<20), 1<<20)
	for sc.Scan() {
		f := strings.Fields(sc.Text())
		if len(f) == 0 {
			continue
		}
		if f[0] == "case" {
			if c != nil {
				os.RemoveAll(c.dir)
			}
			if len(f) != 5 {
				t.Fatalf("bad case header %q", sc.Text())
			}
			c, err = c35NewCase(tmp, f[2:])
			if err != nil {
				t.Fatal(err)
			}
			fmt.Fprintf(w, "case %s\n", f[1])
			continue
		}
		if c == nil {
			t.Fatal("op before the first case")
		}
		fmt.Fprintln(w, c.step(ctx, f))
	}
	if c != nil {
		os.RemoveAll(c.dir)
	}
}
