// Package persistx is the shared Go side of C19/C20/C38: stores under the five value placements, abstract
// values (token, size) rendered as real strings, a tracker spy, a cold reader through the B-tree API and a raw
// disk walker that says where each value is actually kept.
package persistx

import (
	"context"
	"encoding/json"
	"fmt"
	"os"
	"path/filepath"
	"sort"
	"strconv"
	"strings"
	"time"

	"github.com/sharedcode/sop"
	"github.com/sharedcode/sop/btree"
	"github.com/sharedcode/sop/common"
	"github.com/sharedcode/sop/fs"

	"verifharness/commitx"
	"verifharness/txk"
)

// Placement is one combination of the three value-placement options of sop.StoreOptions.
type Placement struct {
	Name                   string
	InNode, Active, Cached bool
}

// The five meaningful combinations: ConfigureStore's SmallData / MediumData / BigData presets are inNode,
// sepCache and active; sep and activeCache are reachable by setting the flags directly.
var Placements = []Placement{
	{"inNode", true, false, false},
	{"sep", false, false, false},
	{"sepCache", false, false, true},
	{"active", false, true, false},
	{"activeCache", false, true, true},
}

func PlacementByName(n string) (Placement, bool) {
	for _, p := range Placements {
		if p.Name == n {
			return p, true
		}
	}
	return Placement{}, false
}

// Opts builds the store options of a placement (through sop.ConfigureStore for the three presets).
func (p Placement) Opts(e *txk.Env, name string, slot int) sop.StoreOptions {
	var so sop.StoreOptions
	switch p.Name {
	case "inNode":
		so = sop.ConfigureStore(name, true, slot, "", sop.SmallData, "")
	case "sepCache":
		so = sop.ConfigureStore(name, true, slot, "", sop.MediumData, "")
	case "active":
		so = sop.ConfigureStore(name, true, slot, "", sop.BigData, "")
	default:
		so = sop.ConfigureStore(name, true, slot, "", sop.SmallData, "")
		so.IsValueDataInNodeSegment = p.InNode
		so.IsValueDataActivelyPersisted = p.Active
		so.IsValueDataGloballyCached = p.Cached
	}
	so.DisableRegistryStoreFormatting = true
	so.DisableBlobStoreFormatting = true
	so.BlobStoreBaseFolderPath = e.Dir
	return so
}

// Val is an abstract value: a token and a size. The real value is "v<tok>:" padded with 'x' to Size bytes.
type Val struct{ Tok, Size int }

func (v Val) Real() string {
	if v.Tok < 0 {
		return "!"
	}
	p := fmt.Sprintf("v%d:", v.Tok)
	if v.Size <= len(p) {
		return p
	}
	return p + strings.Repeat("x", v.Size-len(p))
}

// Size of Real().
func (v Val) Len() int { return len(v.Real()) }

func (v Val) Canon() string {
	if v.Tok < 0 {
		return "!"
	}
	return v.canon()
}
func (v Val) canon() string { return fmt.Sprintf("%d:%d", v.Tok, v.Len()) }

// CanonReal maps a real value string back to "tok:len" ("corrupt:<len>" when it is not a rendered Val).
func CanonReal(s string) string {
	if s == "!" {
		return "!"
	}
	i := strings.IndexByte(s, ':')
	if i < 2 || s[0] != 'v' {
		return fmt.Sprintf("corrupt:%d", len(s))
	}
	tok, err := strconv.Atoi(s[1:i])
	if err != nil {
		return fmt.Sprintf("corrupt:%d", len(s))
	}
	for j := i + 1; j < len(s); j++ {
		if s[j] != 'x' {
			return fmt.Sprintf("corrupt:%d", len(s))
		}
	}
	return fmt.Sprintf("%d:%d", tok, len(s))
}

// ---- cold reader through the B-tree API ----

// ColdDump reads a store as a freshly started other process would: "count=<Count()> k=tok:len …", with "k=!" for
// an item whose value cannot be read. (A failed read rolls the reading transaction back, so the scan resumes after
// that key in a new transaction.)
func ColdDump(ctx context.Context, e *txk.Env, store string) (string, error) {
	var out string
	err := e.AsOtherProcess(func(o *txk.Env) error {
		var parts []string
		resume, have := 0, false
		for round := 0; round < 10000; round++ {
			t, err := o.NewTxn(ctx, sop.ForReading, time.Minute, nil)
			if err != nil {
				return err
			}
			if err := t.T.Begin(ctx); err != nil {
				return err
			}
			b, err := txk.OpenBtree[int, string](ctx, t, store)
			if err != nil {
				t.T.Rollback(ctx)
				return err
			}
			if round == 0 {
				parts = append(parts, fmt.Sprintf("count=%d", b.Count()))
			}
			var ok bool
			if !have {
				ok, err = b.First(ctx)
			} else {
				ok, err = b.Find(ctx, resume, false)
				if err == nil {
					// positioned at resume (or at its neighbour when it vanished): step to the first key > resume
					for ok && err == nil && b.GetCurrentKey().Key <= resume {
						ok, err = b.Next(ctx)
					}
					if !ok && err == nil {
						// Find on a missing key may leave the cursor unset: fall back to a scan from the start
						ok, err = b.First(ctx)
						for ok && err == nil && b.GetCurrentKey().Key <= resume {
							ok, err = b.Next(ctx)
						}
					}
				}
			}
			failed := false
			for ok && err == nil {
				k := b.GetCurrentKey().Key
				v, verr := b.GetCurrentValue(ctx)
				if verr != nil {
					parts = append(parts, fmt.Sprintf("%d=!", k))
					resume, have, failed = k, true, true
					break
				}
				parts = append(parts, fmt.Sprintf("%d=%s", k, CanonReal(v)))
				ok, err = b.Next(ctx)
			}
			t.T.Rollback(ctx)
			if err != nil {
				return err
			}
			if !failed {
				break
			}
		}
		out = strings.Join(parts, " ")
		return nil
	})
	return out, err
}

// ---- raw disk walk: where every value is actually kept ----

type diskNode struct {
	ChildrenIDs []sop.UUID `json:"ChildrenIDs"`
	Slots       []struct {
		ID              sop.UUID `json:"ID"`
		Key             int      `json:"Key"`
		Value           *string  `json:"Value"`
		ValueNeedsFetch bool     `json:"ValueNeedsFetch"`
	} `json:"Slots"`
	Count int `json:"Count"`
}

// DiskDump walks the store from its root using registry segment files and blob files only. Per live item, in
// key order: "k:i=tok:len" (value inline in the node), "k:b=tok:len" (node says fetch; blob decoded),
// "k:b=missing", "k:n" (neither); then "vblobs=<number of value blob files in the store's blob folder>".
func DiskDump(ctx context.Context, e *txk.Env, store string) (string, error) {
	var out string
	err := e.AsOtherProcess(func(o *txk.Env) error {
		ds, err := commitx.ReadDisk(o.Dir)
		if err != nil {
			return err
		}
		t, err := o.NewTxn(ctx, sop.ForReading, time.Minute, nil)
		if err != nil {
			return err
		}
		sis, err := t.P.StoreRepository.Get(ctx, store)
		if err != nil {
			return err
		}
		if len(sis) == 0 {
			return fmt.Errorf("store %s not found", store)
		}
		si := sis[0]
		hs := map[sop.UUID]sop.Handle{}
		for _, h := range ds.Handles[si.RegistryTable] {
			hs[h.LogicalID] = h
		}
		bs := fs.NewBlobStore(o.Dir, nil, nil)
		type it struct {
			k int
			s string
		}
		var items []it
		nodeBlobs := map[sop.UUID]bool{}
		seen := map[sop.UUID]bool{}
		var visit func(lid sop.UUID) error
		visit = func(lid sop.UUID) error {
			if seen[lid] || lid.IsNil() {
				return nil
			}
			seen[lid] = true
			h, ok := hs[lid]
			if !ok {
				if lid == si.RootNodeID {
					return nil
				}
				return fmt.Errorf("node without registry entry")
			}
			nodeBlobs[h.GetActiveID()] = true
			ba, err := bs.GetOne(ctx, si.BlobTable, h.GetActiveID())
			if err != nil {
				return fmt.Errorf("node blob missing: %w", err)
			}
			var n diskNode
			if err := json.Unmarshal(ba, &n); err != nil {
				return err
			}
			for i, s := range n.Slots {
				if i >= n.Count {
					break
				}
				switch {
				case s.ValueNeedsFetch:
					vb, err := bs.GetOne(ctx, si.BlobTable, s.ID)
					if err != nil {
						items = append(items, it{s.Key, fmt.Sprintf("%d:b=missing", s.Key)})
						break
					}
					var v string
					if err := json.Unmarshal(vb, &v); err != nil {
						items = append(items, it{s.Key, fmt.Sprintf("%d:b=undecodable", s.Key)})
						break
					}
					items = append(items, it{s.Key, fmt.Sprintf("%d:b=%s", s.Key, CanonReal(v))})
				case s.Value != nil:
					items = append(items, it{s.Key, fmt.Sprintf("%d:i=%s", s.Key, CanonReal(*s.Value))})
				default:
					items = append(items, it{s.Key, fmt.Sprintf("%d:n", s.Key)})
				}
			}
			for _, c := range n.ChildrenIDs {
				if err := visit(c); err != nil {
					return err
				}
			}
			return nil
		}
		if err := visit(si.RootNodeID); err != nil {
			return err
		}
		sort.SliceStable(items, func(i, j int) bool { return items[i].k < items[j].k })
		parts := make([]string, 0, len(items)+1)
		for _, x := range items {
			parts = append(parts, x.s)
		}
		// value blob files: every file in the store's blob folder that is not a live node blob and whose
		// content is a JSON string
		vb := 0
		filepath.Walk(filepath.Join(o.Dir, si.BlobTable), func(p string, info os.FileInfo, err error) error {
			if err != nil || info.IsDir() {
				return nil
			}
			id, perr := sop.ParseUUID(info.Name())
			if perr != nil || nodeBlobs[id] {
				return nil
			}
			if f, err := os.Open(p); err == nil {
				var b [1]byte
				if n, _ := f.Read(b[:]); n == 1 && b[0] == '"' {
					vb++
				}
				f.Close()
			}
			return nil
		})
		parts = append(parts, fmt.Sprintf("vblobs=%d", vb))
		out = strings.Join(parts, " ")
		return nil
	})
	return out, err
}

// ---- tracker spy ----

// Spy installs the tracker pass-through of the C19 overlay on an open [int,string] store and returns the list the
// events of the next operations are appended to.
type Spy struct {
	Events []common.VerifC19Event
}

func (s *Spy) Install(t *txk.Txn, store string) bool {
	return common.VerifC19Spy[int, string](t.P, store, func(e common.VerifC19Event) { s.Events = append(s.Events, e) })
}
func (s *Spy) Remove(t *txk.Txn, store string) { common.VerifC19Unspy[int, string](t.P, store) }

// Take returns the events recorded since the last Take as "a:<key>", "u:<key>", "r:<key>", "g:<key>".
func (s *Spy) Take() []string {
	var out []string
	for _, e := range s.Events {
		out = append(out, fmt.Sprintf("%c:%v", e.Op[0], e.Key))
	}
	s.Events = s.Events[:0]
	return out
}

var _ = btree.Item[int, string]{}
