// Store-info cache kit (C20): a hookable L2 cache around the store-info keys, a recording StoreRepository decorator,
// real faults on a storeinfo.txt file, a transaction constructor that takes both, and readers of the three views of a
// store's info (shared cache, cold process, file).
package persistx

import (
	"context"
	"encoding/json"
	"fmt"
	"os"
	"path/filepath"
	"strings"
	"syscall"
	"time"
	"unsafe"

	"github.com/sharedcode/sop"
	"github.com/sharedcode/sop/common"
	"github.com/sharedcode/sop/fs"

	"verifharness/txk"
)

// HookL2 passes everything through to the wrapped L2 cache and reports the calls on store-info keys
// ("<stores base folder>:<store name>", see StoreRepository.formatCacheKey).
type HookL2 struct {
	sop.L2Cache
	Dir   string
	OnGet func(name string)       // before GetStruct / GetStructEx of a store-info key
	OnSet func(name string) error // before SetStruct of a store-info key; an error is returned to the caller, nothing is stored
}

func (h *HookL2) storeOf(key string) (string, bool) {
	p := h.Dir + ":"
	if strings.HasPrefix(key, p) {
		return key[len(p):], true
	}
	return "", false
}

// Key is the cache key of a store's info.
func (h *HookL2) Key(name string) string { return h.Dir + ":" + name }

func (h *HookL2) GetStruct(ctx context.Context, key string, target interface{}) (bool, error) {
	if n, ok := h.storeOf(key); ok && h.OnGet != nil {
		h.OnGet(n)
	}
	return h.L2Cache.GetStruct(ctx, key, target)
}

func (h *HookL2) GetStructEx(ctx context.Context, key string, target interface{}, exp time.Duration) (bool, error) {
	if n, ok := h.storeOf(key); ok && h.OnGet != nil {
		h.OnGet(n)
	}
	return h.L2Cache.GetStructEx(ctx, key, target, exp)
}

func (h *HookL2) SetStruct(ctx context.Context, key string, value interface{}, exp time.Duration) error {
	if n, ok := h.storeOf(key); ok && h.OnSet != nil {
		if err := h.OnSet(n); err != nil {
			return err
		}
	}
	return h.L2Cache.SetStruct(ctx, key, value, exp)
}

// NewRepo builds a real fs StoreRepository on folder dir whose cache calls go to l2 (the tracker uses raw).
func NewRepo(ctx context.Context, dir string, raw, l2 sop.L2Cache, hashMod int) (*fs.StoreRepository, error) {
	rt, err := fs.NewReplicationTracker(ctx, []string{dir}, false, raw)
	if err != nil {
		return nil, err
	}
	return fs.NewStoreRepository(ctx, rt, fs.NewManageStoreFolder(fs.NewFileIO()), l2, hashMod)
}

// RecRepo records the mutating calls of a StoreRepository with their full arguments.
type RecRepo struct {
	In     sop.StoreRepository
	Before func(stores []sop.StoreInfo)                         // before an Update (argument in the caller's order)
	After  func(in, out []sop.StoreInfo, err error)             // after it; `in` is a copy taken before the call
	Added  func(stores []sop.StoreInfo, err error)              // after an Add
	Gone   func(names []string, err error)                      // after a Remove
}

func (r *RecRepo) Get(ctx context.Context, names ...string) ([]sop.StoreInfo, error) {
	return r.In.Get(ctx, names...)
}
func (r *RecRepo) GetWithTTL(ctx context.Context, b bool, d time.Duration, names ...string) ([]sop.StoreInfo, error) {
	return r.In.GetWithTTL(ctx, b, d, names...)
}
func (r *RecRepo) GetAll(ctx context.Context) ([]string, error) { return r.In.GetAll(ctx) }
func (r *RecRepo) Add(ctx context.Context, ss ...sop.StoreInfo) error {
	cp := append([]sop.StoreInfo(nil), ss...)
	err := r.In.Add(ctx, ss...)
	if r.Added != nil {
		r.Added(cp, err)
	}
	return err
}
func (r *RecRepo) Remove(ctx context.Context, names ...string) error {
	err := r.In.Remove(ctx, names...)
	if r.Gone != nil {
		r.Gone(names, err)
	}
	return err
}
func (r *RecRepo) Update(ctx context.Context, ss []sop.StoreInfo) ([]sop.StoreInfo, error) {
	cp := append([]sop.StoreInfo(nil), ss...)
	if r.Before != nil {
		r.Before(cp)
	}
	out, err := r.In.Update(ctx, ss)
	if r.After != nil {
		r.After(cp, out, err)
	}
	return out, err
}
func (r *RecRepo) Replicate(ctx context.Context, ss []sop.StoreInfo) error { return r.In.Replicate(ctx, ss) }
func (r *RecRepo) GetStoresBaseFolder() string {
	if x, ok := r.In.(interface{ GetStoresBaseFolder() string }); ok {
		return x.GetStoresBaseFolder()
	}
	return ""
}

// NewTxnWithRepo builds a transaction as txk.Env.NewTxn / infs do, with the store repository's cache calls going to
// srL2 and the repository itself wrapped by wrap (both optional).
func NewTxnWithRepo(ctx context.Context, e *txk.Env, mode sop.TransactionMode, maxTime time.Duration, srL2 sop.L2Cache,
	wrap func(sop.StoreRepository) sop.StoreRepository) (*txk.Txn, error) {
	rt, err := fs.NewReplicationTracker(ctx, []string{e.Dir}, false, e.L2)
	if err != nil {
		return nil, err
	}
	if srL2 == nil {
		srL2 = e.L2
	}
	sr, err := fs.NewStoreRepository(ctx, rt, fs.NewManageStoreFolder(fs.NewFileIO()), srL2, e.HashMod)
	if err != nil {
		return nil, err
	}
	hm := e.HashMod
	if i, err := sr.GetRegistryHashModValue(ctx); err != nil {
		return nil, err
	} else if i > 0 {
		hm = i
	}
	tl := fs.NewTransactionLog(e.L2, rt)
	var srd sop.StoreRepository = sr
	if wrap != nil {
		srd = wrap(sr)
	}
	p, err := common.NewTwoPhaseCommitTransaction(mode, maxTime, fs.NewBlobStore(e.Dir, nil, nil), srd,
		fs.NewRegistry(mode == sop.ForWriting, hm, rt, e.L2), e.L2, tl)
	if err != nil {
		return nil, err
	}
	rt.SetTransactionID(p.GetID())
	t, err := sop.NewTransaction(mode, p)
	if err != nil {
		return nil, err
	}
	return &txk.Txn{T: t, P: p, Env: e}, nil
}

// StoreInfoPath is the file of a store's info.
func StoreInfoPath(dir, name string) string { return filepath.Join(dir, name, fs.StoreInfoFilename) }

// ReadStoreInfoFile decodes storeinfo.txt (nil when there is no such file).
func ReadStoreInfoFile(dir, name string) (*sop.StoreInfo, error) {
	ba, err := os.ReadFile(StoreInfoPath(dir, name))
	if err != nil {
		if os.IsNotExist(err) {
			return nil, nil
		}
		return nil, err
	}
	var si sop.StoreInfo
	if err := json.Unmarshal(ba, &si); err != nil {
		return nil, err
	}
	return &si, nil
}

// ---- real faults on one file ----

const (
	fsIocGetFlags = 0x80086601
	fsIocSetFlags = 0x40086602
	fsImmutableFl = 0x00000010
)

func setImmutable(path string, on bool) error {
	f, err := os.Open(path)
	if err != nil {
		return err
	}
	defer f.Close()
	var flags int64
	if _, _, e := syscall.Syscall(syscall.SYS_IOCTL, f.Fd(), fsIocGetFlags, uintptr(unsafe.Pointer(&flags))); e != 0 {
		return e
	}
	if on {
		flags |= fsImmutableFl
	} else {
		flags &^= fsImmutableFl
	}
	if _, _, e := syscall.Syscall(syscall.SYS_IOCTL, f.Fd(), fsIocSetFlags, uintptr(unsafe.Pointer(&flags))); e != 0 {
		return e
	}
	return nil
}

// ImmutableSupported reports whether files under dir can be made immutable (needs CAP_LINUX_IMMUTABLE and a file
// system with inode flags): then a file can be made readable but not writable even for root.
func ImmutableSupported(dir string) bool {
	p := filepath.Join(dir, ".verif-immutable-probe")
	if err := os.WriteFile(p, []byte("x"), 0o644); err != nil {
		return false
	}
	defer os.Remove(p)
	if err := setImmutable(p, true); err != nil {
		return false
	}
	werr := os.WriteFile(p, []byte("y"), 0o644)
	if err := setImmutable(p, false); err != nil {
		return false
	}
	return werr != nil
}

// BreakFile makes a file fail for real: "unreadable" = a directory stands in its place (reads and writes fail with
// EISDIR, the content is kept aside), "readonly" = the immutable flag (reads work, writes fail with EPERM).
// The returned function heals it.
func BreakFile(path, mode string) (func(), error) {
	switch mode {
	case "unreadable":
		aside := path + ".verif-aside"
		if err := os.Rename(path, aside); err != nil {
			return nil, err
		}
		if err := os.Mkdir(path, 0o755); err != nil {
			os.Rename(aside, path)
			return nil, err
		}
		return func() {
			os.Remove(path)
			os.Rename(aside, path)
		}, nil
	case "readonly":
		if err := setImmutable(path, true); err != nil {
			return nil, err
		}
		return func() { setImmutable(path, false) }, nil
	}
	return nil, fmt.Errorf("unknown fault mode %q", mode)
}
