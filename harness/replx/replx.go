// Package replx holds what the C27 (and the replicated half of the C12) harness needs on top of storex:
// decoding of the metadata one side of a replicated layout carries (store list, store infos, registry handle
// images), real filesystem faults on the passive side (a path component replaced by a regular file, or a file
// by a directory: every write under it fails with ENOTDIR / EISDIR, which the repository code classifies as
// non-retryable), and the process-wide replication status reset.
package replx

import (
	"encoding/json"
	"fmt"
	"os"
	"path/filepath"
	"sort"
	"strings"
	"sync"

	"github.com/sharedcode/sop"
	"github.com/sharedcode/sop/encoding"
	"github.com/sharedcode/sop/fs"
)

// Canon names UUIDs u1,u2,… by first appearance.
type Canon struct {
	mu    sync.Mutex
	names map[sop.UUID]string
}

func NewCanon() *Canon { return &Canon{names: map[sop.UUID]string{}} }

func (c *Canon) ID(u sop.UUID) string {
	if u.IsNil() {
		return "0"
	}
	c.mu.Lock()
	defer c.mu.Unlock()
	if n, ok := c.names[u]; ok {
		return n
	}
	n := fmt.Sprint(len(c.names) + 1)
	c.names[u] = n
	return n
}

// Handle renders the final image of a handle: lid, active physical id, inactive physical id, version, deleted,
// work-in-progress marker (0/1; the timestamp value itself is never compared).
func (c *Canon) Handle(h sop.Handle) string {
	del, wip := 0, 0
	if h.IsDeleted {
		del = 1
	}
	if h.WorkInProgressTimestamp != 0 {
		wip = 1
	}
	return fmt.Sprintf("%s/%s/%s/%d/%d/%d", c.ID(h.LogicalID), c.ID(h.GetActiveID()), c.ID(h.GetInActiveID()), h.Version, del, wip)
}

// Meta is the metadata one base folder carries.
type Meta struct {
	List    []string            // store list file (sorted); nil when absent
	HasList bool                // the store list file exists
	Infos   map[string]string   // store name -> "slot unique count root" for every sub-folder with a storeinfo.txt
	Handles map[string][]sop.Handle // registry table -> live handle records decoded from its segment files
	HashMod string              // reghashmod.txt content (the persisted registry hash modulus) or "-"
	Status  string              // replstat.txt content or "-"
	Logs    []string            // commit-change log files
}

// ReadMeta decodes the metadata files under base.
func ReadMeta(base string) (*Meta, error) {
	m := &Meta{Infos: map[string]string{}, Handles: map[string][]sop.Handle{}, Status: "-", HashMod: "-"}
	if b, err := os.ReadFile(filepath.Join(base, fs.RegistryHashModValueFilename)); err == nil {
		m.HashMod = strings.TrimSpace(string(b))
		if m.HashMod == "" || strings.ContainsAny(m.HashMod, " \t\n") {
			m.HashMod = "unreadable"
		}
	}
	if b, err := os.ReadFile(filepath.Join(base, "storelist.txt")); err == nil {
		m.HasList = true
		if err := json.Unmarshal(b, &m.List); err != nil {
			return nil, fmt.Errorf("store list: %w", err)
		}
		sort.Strings(m.List)
	}
	if b, err := os.ReadFile(filepath.Join(base, "replstat.txt")); err == nil {
		m.Status = string(b)
	}
	ents, _ := os.ReadDir(base)
	bsz := fs.VerifBlockSize()
	hp := fs.VerifHandlesPerBlock()
	hm := encoding.NewHandleMarshaler()
	for _, en := range ents {
		if !en.IsDir() {
			continue
		}
		dir := filepath.Join(base, en.Name())
		// a store folder that is currently "broken" lives aside under <name>.verif-sav
		name := strings.TrimSuffix(en.Name(), ".verif-sav")
		if en.Name() == "commitlogs" {
			fe, _ := os.ReadDir(dir)
			for _, f := range fe {
				m.Logs = append(m.Logs, f.Name())
			}
			continue
		}
		if b, err := os.ReadFile(filepath.Join(dir, fs.StoreInfoFilename)); err == nil {
			var si sop.StoreInfo
			if err := json.Unmarshal(b, &si); err != nil {
				m.Infos[name] = "unreadable"
			} else {
				m.Infos[name] = fmt.Sprintf("%d %v %d", si.SlotLength, si.IsUnique, si.Count)
			}
		}
		fe, _ := os.ReadDir(dir)
		for _, f := range fe {
			if f.IsDir() || !strings.HasSuffix(f.Name(), ".reg") {
				continue
			}
			raw, err := os.ReadFile(filepath.Join(dir, f.Name()))
			if err != nil {
				return nil, err
			}
			for off := 0; off+bsz <= len(raw); off += bsz {
				for s := 0; s < hp; s++ {
					rec := raw[off+s*sop.HandleSizeInBytes : off+(s+1)*sop.HandleSizeInBytes]
					var h sop.Handle
					if err := hm.Unmarshal(rec, &h); err == nil && !h.LogicalID.IsNil() {
						m.Handles[name] = append(m.Handles[name], h)
					}
				}
			}
		}
	}
	return m, nil
}

// Render gives the canonical one-line form: list | infos | handles per table (sorted by canonical handle text).
func (m *Meta) Render(c *Canon) string {
	var b strings.Builder
	if !m.HasList {
		b.WriteString("list=<absent>")
	} else {
		b.WriteString("list=[" + strings.Join(m.List, ",") + "]")
	}
	var names []string
	for n := range m.Infos {
		names = append(names, n)
	}
	sort.Strings(names)
	b.WriteString(" infos=[")
	for i, n := range names {
		if i > 0 {
			b.WriteString(",")
		}
		b.WriteString(n + ":" + strings.ReplaceAll(m.Infos[n], " ", ":"))
	}
	b.WriteString("] reg=[")
	var tabs []string
	for t := range m.Handles {
		tabs = append(tabs, t)
	}
	sort.Strings(tabs)
	for i, t := range tabs {
		if i > 0 {
			b.WriteString(";")
		}
		var hs []string
		for _, h := range m.Handles[t] {
			hs = append(hs, c.Handle(h))
		}
		sort.Strings(hs)
		b.WriteString(t + "=" + strings.Join(hs, ","))
	}
	b.WriteString("] hm=" + m.HashMod)
	b.WriteString(" st=" + FlagBits(m.Status))
	return b.String()
}

// FlagBits renders a replication status JSON as three bits failed/toggler/logCommitChanges ("nil" when absent).
func FlagBits(js string) string {
	if js == "-" || js == "" {
		return "nil"
	}
	var d fs.ReplicationTrackedDetails
	if err := json.Unmarshal([]byte(js), &d); err != nil {
		return "unreadable"
	}
	return Bits(d)
}

func Bits(d fs.ReplicationTrackedDetails) string {
	b := func(x bool) string {
		if x {
			return "1"
		}
		return "0"
	}
	return b(d.FailedToReplicate) + b(d.ActiveFolderToggler) + b(d.LogCommitChanges)
}

// Image is the handle image without the logical id.
func (c *Canon) Image(h sop.Handle) string {
	s := c.Handle(h)
	return s[strings.Index(s, "/")+1:]
}

// ---- the folder as a set of files, by kind ----

// FileKind classifies a path relative to a base folder. Replicated kinds: "list" (storelist.txt), "hashmod"
// (reghashmod.txt), "info" (<store>/storeinfo.txt), "segment" (<table>/*.reg). Per-folder by design: "status"
// (replstat.txt), "log" (commitlogs/*). Anything else is "other": a file the code persisted that this harness does
// not know — it is compared too, so a new kind of file that is not replicated shows up.
func FileKind(rel string) string {
	rel = filepath.ToSlash(rel)
	switch {
	case rel == "storelist.txt":
		return "list"
	case rel == fs.RegistryHashModValueFilename:
		return "hashmod"
	case rel == "replstat.txt":
		return "status"
	case strings.HasPrefix(rel, "commitlogs/"):
		return "log"
	case strings.HasSuffix(rel, "/"+fs.StoreInfoFilename) && strings.Count(rel, "/") == 1:
		return "info"
	case strings.HasSuffix(rel, ".reg") && strings.Count(rel, "/") == 1:
		return "segment"
	}
	return "other"
}

// FileSet lists the regular files under base as "kind:relative path" (sorted), and the raw content of the small
// whole-file kinds (list, hashmod) keyed the same way.
func FileSet(base string) (paths []string, content map[string]string) {
	content = map[string]string{}
	filepath.Walk(base, func(p string, st os.FileInfo, err error) error {
		if err != nil || st.IsDir() {
			return nil
		}
		rel, _ := filepath.Rel(base, p)
		rel = filepath.ToSlash(rel)
		k := FileKind(rel)
		key := k + ":" + rel
		paths = append(paths, key)
		if k == "list" || k == "hashmod" {
			b, _ := os.ReadFile(p)
			content[key] = string(b)
		}
		return nil
	})
	sort.Strings(paths)
	return
}

// DiffFileSets compares two base folders by replicated kind ("list", "hashmod", "info", "segment", and "other"):
// the sets of relative paths must be equal and the whole-file kinds byte-identical. "" = equal; otherwise the first
// few differences.
func DiffFileSets(a, b string) string {
	pa, ca := FileSet(a)
	pb, cb := FileSet(b)
	rep := func(k string) bool { return !strings.HasPrefix(k, "status:") && !strings.HasPrefix(k, "log:") }
	sa, sb := map[string]bool{}, map[string]bool{}
	for _, k := range pa {
		if rep(k) {
			sa[k] = true
		}
	}
	for _, k := range pb {
		if rep(k) {
			sb[k] = true
		}
	}
	var out []string
	for _, k := range pa {
		if rep(k) && !sb[k] {
			out = append(out, "only in first folder "+k)
		}
	}
	for _, k := range pb {
		if rep(k) && !sa[k] {
			out = append(out, "only in second folder "+k)
		}
	}
	for k, v := range ca {
		if w, ok := cb[k]; ok && w != v {
			out = append(out, fmt.Sprintf("content of %s differs: %q vs %q", k, v, w))
		}
	}
	sort.Strings(out)
	if len(out) > 6 {
		out = append(out[:6], fmt.Sprintf("… %d more", len(out)-6))
	}
	return strings.Join(out, "; ")
}

// ---- real filesystem faults ----

// Break replaces path by an object of the wrong kind: a directory (or a missing path) becomes a regular file, so
// everything addressed below it fails with ENOTDIR; a regular file becomes a directory, so writing it fails with
// EISDIR. The original is kept aside (path + ".verif-sav") for HealKeep.
func Break(path string) error {
	st, err := os.Stat(path)
	sav := path + ".verif-sav"
	os.RemoveAll(sav)
	if err == nil {
		if err := os.Rename(path, sav); err != nil {
			return err
		}
		if !st.IsDir() {
			return os.Mkdir(path, 0o755)
		}
	}
	return os.WriteFile(path, []byte("broken"), 0o644)
}

// BreakAsDir makes path a directory (used for files that do not exist yet).
func BreakAsDir(path string) error {
	sav := path + ".verif-sav"
	os.RemoveAll(sav)
	if _, err := os.Stat(path); err == nil {
		if err := os.Rename(path, sav); err != nil {
			return err
		}
	}
	return os.MkdirAll(path, 0o755)
}

// HealKeep puts the original back (the drive comes back with the contents it had when it failed); when nothing
// was kept aside the wrong-kind object is just removed.
func HealKeep(path string) error {
	os.RemoveAll(path)
	sav := path + ".verif-sav"
	if _, err := os.Stat(sav); err == nil {
		return os.Rename(sav, path)
	}
	return nil
}

// HealEmpty replaces the broken folder by an empty one (the drive was swapped for a new one).
func HealEmpty(path string) error {
	os.RemoveAll(path)
	os.RemoveAll(path + ".verif-sav")
	return os.MkdirAll(path, 0o755)
}

// ResetProcessState forgets the process-wide replication status (fs.GlobalReplicationDetails): the next tracker
// reads replstat.txt / the L2 cache again, as a freshly started process does.
func ResetProcessState() { fs.GlobalReplicationDetails = nil }
