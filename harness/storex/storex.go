// Package storex is the store-catalogue kit shared by the C12 and C27 harnesses: real fs backends of
// SharedCode/sop on one scratch folder (single layout) or on an active/passive folder pair plus three
// erasure-coding drives (replicated layout, built exactly as infs.NewTwoPhaseCommitTransactionWithReplication
// does), with a thin decorator around the StoreRepository (gates: park a transaction right before a
// catalogue call) and around the blob store (make the next commit fail). Everything a transaction does still
// goes through the real code.
package storex

import (
	"context"
	"fmt"
	"os"
	"path/filepath"
	"sort"
	"strings"
	"sync"
	"time"

	"github.com/sharedcode/sop"
	"github.com/sharedcode/sop/btree"
	"github.com/sharedcode/sop/cache"
	"github.com/sharedcode/sop/common"
	"github.com/sharedcode/sop/fs"
)

// Env is one "process" working on a store layout.
type Env struct {
	Root    string
	Folders []string // 1 folder = single layout; 2 = replicated (Folders[0] starts as the active side)
	ECDirs  []string // replicated layout only: 2 data + 1 parity drive folders for blobs
	HashMod int
	L2      sop.L2Cache
}

// NewEnv lays out the folders under root.
func NewEnv(root string, replicated bool, hashMod int) *Env {
	e := &Env{Root: root, HashMod: hashMod, L2: cache.NewL2InMemoryCache()}
	if replicated {
		e.Folders = []string{filepath.Join(root, "a"), filepath.Join(root, "p")}
		e.ECDirs = []string{filepath.Join(root, "d1"), filepath.Join(root, "d2"), filepath.Join(root, "d3")}
	} else {
		e.Folders = []string{filepath.Join(root, "a")}
	}
	for _, d := range append(append([]string{}, e.Folders...), e.ECDirs...) {
		os.MkdirAll(d, 0o755)
	}
	cache.GetGlobalL1Cache(e.L2)
	return e
}

func (e *Env) Replicated() bool { return len(e.Folders) >= 2 }

// EC is the erasure-coding configuration of the replicated layout (2 data + 1 parity shard).
func (e *Env) EC() map[string]sop.ErasureCodingConfig {
	if !e.Replicated() {
		return nil
	}
	return map[string]sop.ErasureCodingConfig{"": {DataShardsCount: 2, ParityShardsCount: 1,
		BaseFolderPathsAcrossDrives: e.ECDirs, RepairCorruptedShards: false}}
}

// Hooks steer one transaction's decorated backends.
type Hooks struct {
	mu sync.Mutex
	// BeforeSR, when set, is called before the transaction's StoreRepository call `call` (Get, Add, Remove,
	// Update) on `names` is performed; it may block (gate).
	BeforeSR func(call string, names []string)
	// AfterSR, when set, is called when that StoreRepository call has returned.
	AfterSR func(call string, names []string, err error)
	// OnAdd, when set, sees the store infos handed to StoreRepository.Add (the pre-assigned RootNodeID).
	OnAdd func(ss []sop.StoreInfo)
	// WrapL2, when set, wraps the L2 cache handed to this transaction's StoreRepository (and to nothing else).
	WrapL2 func(sop.L2Cache) sop.L2Cache
	// failBlobAdd makes every blob Add of this transaction fail from now on (a commit that cannot persist).
	failBlobAdd bool
	// Calls is the sequence of catalogue-changing calls this transaction made ("Add a", "Remove a", …).
	Calls []string
}

func (h *Hooks) FailBlobAdds(on bool) { h.mu.Lock(); h.failBlobAdd = on; h.mu.Unlock() }
func (h *Hooks) blobFails() bool       { h.mu.Lock(); defer h.mu.Unlock(); return h.failBlobAdd }
func (h *Hooks) note(call string, names []string, err error) {
	h.mu.Lock()
	s := call + " " + strings.Join(names, ",")
	if err != nil {
		s += " !err"
	}
	h.Calls = append(h.Calls, s)
	h.mu.Unlock()
}
func (h *Hooks) CallLines() []string {
	h.mu.Lock()
	defer h.mu.Unlock()
	return append([]string(nil), h.Calls...)
}

var ErrInjected = fmt.Errorf("verif: injected fault")

type srW struct {
	in sop.StoreRepository
	h  *Hooks
}

func (d *srW) gate(call string, names []string) {
	if d.h != nil && d.h.BeforeSR != nil {
		d.h.BeforeSR(call, names)
	}
}
func (d *srW) after(call string, names []string, err error) {
	if d.h != nil && d.h.AfterSR != nil {
		d.h.AfterSR(call, names, err)
	}
}
func (d *srW) Get(ctx context.Context, names ...string) ([]sop.StoreInfo, error) {
	d.gate("Get", names)
	r, err := d.in.Get(ctx, names...)
	d.after("Get", names, err)
	return r, err
}
func (d *srW) GetWithTTL(ctx context.Context, b bool, dur time.Duration, names ...string) ([]sop.StoreInfo, error) {
	d.gate("Get", names)
	r, err := d.in.GetWithTTL(ctx, b, dur, names...)
	d.after("Get", names, err)
	return r, err
}
func (d *srW) GetAll(ctx context.Context) ([]string, error) { return d.in.GetAll(ctx) }
func (d *srW) Add(ctx context.Context, ss ...sop.StoreInfo) error {
	var names []string
	for _, s := range ss {
		names = append(names, s.Name)
	}
	if d.h != nil && d.h.OnAdd != nil {
		d.h.OnAdd(ss)
	}
	d.gate("Add", names)
	err := d.in.Add(ctx, ss...)
	d.h.note("Add", names, err)
	d.after("Add", names, err)
	return err
}
func (d *srW) Remove(ctx context.Context, names ...string) error {
	d.gate("Remove", names)
	err := d.in.Remove(ctx, names...)
	d.h.note("Remove", names, err)
	d.after("Remove", names, err)
	return err
}
func (d *srW) Update(ctx context.Context, ss []sop.StoreInfo) ([]sop.StoreInfo, error) {
	var names []string
	for _, s := range ss {
		names = append(names, s.Name)
	}
	d.gate("Update", names)
	return d.in.Update(ctx, ss)
}
func (d *srW) Replicate(ctx context.Context, ss []sop.StoreInfo) error { return d.in.Replicate(ctx, ss) }

type blobW struct {
	in sop.BlobStore
	h  *Hooks
}

func (d *blobW) GetOne(ctx context.Context, table string, id sop.UUID) ([]byte, error) {
	return d.in.GetOne(ctx, table, id)
}
func (d *blobW) Add(ctx context.Context, bs []sop.BlobsPayload[sop.KeyValuePair[sop.UUID, []byte]]) error {
	if d.h != nil && d.h.blobFails() {
		return ErrInjected
	}
	return d.in.Add(ctx, bs)
}
func (d *blobW) Update(ctx context.Context, bs []sop.BlobsPayload[sop.KeyValuePair[sop.UUID, []byte]]) error {
	return d.in.Update(ctx, bs)
}
func (d *blobW) Remove(ctx context.Context, ids []sop.BlobsPayload[sop.UUID]) error {
	return d.in.Remove(ctx, ids)
}

// Tracker is what the harness needs from the (unexported) fs replication tracker.
type Tracker interface {
	ReinstateFailedDrives(ctx context.Context) error
	SetTransactionID(tid sop.UUID)
}

// Txn is a real transaction over the real backends of the environment's layout.
type Txn struct {
	T   sop.Transaction
	P   *common.Transaction
	H   *Hooks
	Env *Env
}

// NewTxn builds a transaction as infs.NewTwoPhaseCommitTransaction (single layout) or
// infs.NewTwoPhaseCommitTransactionWithReplication (replicated layout) does.
func (e *Env) NewTxn(ctx context.Context, mode sop.TransactionMode, maxTime time.Duration, h *Hooks) (*Txn, error) {
	if h == nil {
		h = &Hooks{}
	}
	rt, err := fs.NewReplicationTracker(ctx, e.Folders, e.Replicated(), e.L2)
	if err != nil {
		return nil, err
	}
	fio := fs.NewFileIO()
	srL2 := e.L2
	if h.WrapL2 != nil {
		srL2 = h.WrapL2(e.L2)
	}
	sr, err := fs.NewStoreRepository(ctx, rt, fs.NewManageStoreFolder(fio), srL2, e.HashMod)
	if err != nil {
		return nil, err
	}
	hm := e.HashMod
	if i, err := sr.GetRegistryHashModValue(ctx); err != nil {
		return nil, err
	} else if i > 0 {
		hm = i
	}
	tl := fs.NewTransactionLog(e.L2, rt)
	var bs sop.BlobStore
	if e.Replicated() {
		bs, err = fs.NewBlobStoreWithEC(nil, fio, e.EC())
		if err != nil {
			return nil, err
		}
	} else {
		bs = fs.NewBlobStore(e.Folders[0], nil, nil)
	}
	reg := fs.NewRegistry(mode == sop.ForWriting, hm, rt, e.L2)
	p, err := common.NewTwoPhaseCommitTransaction(mode, maxTime, &blobW{in: bs, h: h}, &srW{in: sr, h: h}, reg, e.L2, tl)
	if err != nil {
		return nil, err
	}
	if e.Replicated() {
		p.HandleReplicationRelatedError = rt.HandleReplicationRelatedError
	}
	rt.SetTransactionID(p.GetID())
	t, err := sop.NewTransaction(mode, p)
	if err != nil {
		return nil, err
	}
	return &Txn{T: t, P: p, H: h, Env: e}, nil
}

// NewStoreRepo is a bare fs.StoreRepository on this environment's folders (as one more process would build it),
// talking to the L2 cache l2 (the environment's own, or a pass-through decorator of it).
func (e *Env) NewStoreRepo(ctx context.Context, l2 sop.L2Cache) (*fs.StoreRepository, error) {
	rt, err := fs.NewReplicationTracker(ctx, e.Folders, e.Replicated(), e.L2)
	if err != nil {
		return nil, err
	}
	return fs.NewStoreRepository(ctx, rt, fs.NewManageStoreFolder(fs.NewFileIO()), l2, e.HashMod)
}

// Opts are the store options a case varies.
type Opts struct {
	Slot   int
	Unique bool
}

func (o Opts) String() string {
	u := 0
	if o.Unique {
		u = 1
	}
	return fmt.Sprintf("%d %d", o.Slot, u)
}

func (e *Env) storeOptions(name string, o Opts) sop.StoreOptions {
	so := sop.ConfigureStore(name, o.Unique, o.Slot, "", sop.SmallData, "")
	so.DisableRegistryStoreFormatting = true
	so.DisableBlobStoreFormatting = true
	if !e.Replicated() {
		so.BlobStoreBaseFolderPath = e.Folders[0] // what infs.NewBtree does; NewBtreeWithReplication leaves it empty
	}
	return so
}

// StoreOptions are the options NewBtree hands to the repository for (name, o) on this layout.
func (e *Env) StoreOptions(name string, o Opts) sop.StoreOptions { return e.storeOptions(name, o) }

func NewBtree(ctx context.Context, t *Txn, name string, o Opts) (btree.BtreeInterface[int, string], error) {
	return common.NewBtree[int, string](ctx, t.Env.storeOptions(name, o), t.T, nil)
}

func OpenBtree(ctx context.Context, t *Txn, name string) (btree.BtreeInterface[int, string], error) {
	return common.OpenBtree[int, string](ctx, name, t.T, nil)
}

// RemoveBtree does what infs.RemoveBtree does, on this environment's L2 cache (infs takes the process-wide
// cache singleton; the rest is the same code path: a fresh StoreRepository, Remove(name), EC blob folders).
func (e *Env) RemoveBtree(ctx context.Context, name string) error {
	rt, err := fs.NewReplicationTracker(ctx, e.Folders, e.Replicated(), e.L2)
	if err != nil {
		return err
	}
	if !e.Replicated() {
		sr, err := fs.NewStoreRepository(ctx, rt, nil, e.L2, 0)
		if err != nil {
			return err
		}
		return sr.Remove(ctx, name)
	}
	sr, err := fs.NewStoreRepository(ctx, rt, fs.NewManageStoreFolder(fs.NewFileIO()), e.L2, fs.MinimumModValue)
	if err != nil {
		return err
	}
	rerr := sr.Remove(ctx, name)
	bswec, err := fs.NewBlobStoreWithEC(fs.DefaultToFilePath, nil, e.EC())
	if err != nil {
		return err
	}
	if bs, ok := bswec.(*fs.BlobStoreWithEC); ok {
		bs.RemoveStore(ctx, name)
	}
	return rerr
}

// ---- cold observation ----

// StoreDump is what a freshly started process sees of one store.
type StoreDump struct {
	Name   string
	Slot   int
	Unique bool
	Count  int64
	Items  []string // "k=v" in scan order
	Err    string   // non-empty when the store is listed but cannot be opened / scanned
}

// AsOtherProcess runs f with cold caches (empty L1 singletons, a fresh L2, no process-wide replication status)
// on the same folders, then restores this process's caches.
func (e *Env) AsOtherProcess(f func(o *Env) error) error {
	old := cache.VerifSwapGlobalL1(nil)
	oldG := fs.GlobalReplicationDetails
	fs.GlobalReplicationDetails = nil
	defer func() {
		cache.VerifSwapGlobalL1(old)
		fs.GlobalReplicationDetails = oldG
	}()
	o := &Env{Root: e.Root, Folders: e.Folders, ECDirs: e.ECDirs, HashMod: e.HashMod, L2: cache.NewL2InMemoryCache()}
	cache.GetGlobalL1Cache(o.L2)
	return f(o)
}

// ColdDump lists the stores and their contents through a fresh reading transaction of another process.
func (e *Env) ColdDump(ctx context.Context) ([]StoreDump, error) {
	var out []StoreDump
	err := e.AsOtherProcess(func(o *Env) error {
		var err error
		out, err = o.DumpHere(ctx)
		return err
	})
	return out, err
}

// DumpHere dumps through a reading transaction of THIS process (warm caches).
func (e *Env) DumpHere(ctx context.Context) ([]StoreDump, error) {
	t, err := e.NewTxn(ctx, sop.ForReading, time.Minute, nil)
	if err != nil {
		return nil, err
	}
	if err := t.T.Begin(ctx); err != nil {
		return nil, err
	}
	names, err := t.P.GetStores(ctx)
	if err != nil {
		t.T.Rollback(ctx)
		return nil, err
	}
	sort.Strings(names)
	t.T.Rollback(ctx)
	var out []StoreDump
	for _, n := range names {
		// one transaction per store: a failed OpenBtree rolls its transaction back
		t, err := e.NewTxn(ctx, sop.ForReading, time.Minute, nil)
		if err != nil {
			return nil, err
		}
		if err := t.T.Begin(ctx); err != nil {
			return nil, err
		}
		d := StoreDump{Name: n}
		b, err := OpenBtree(ctx, t, n)
		if err != nil {
			d.Err = "open"
			out = append(out, d)
			continue
		}
		si := b.GetStoreInfo()
		d.Slot, d.Unique, d.Count = si.SlotLength, si.IsUnique, b.Count()
		ok, err := b.First(ctx)
		for ok && err == nil {
			k := b.GetCurrentKey().Key
			v, verr := b.GetCurrentValue(ctx)
			if verr != nil {
				err = verr
				break
			}
			d.Items = append(d.Items, fmt.Sprintf("%d=%s", k, v))
			ok, err = b.Next(ctx)
		}
		if err != nil {
			d.Err = "scan"
		}
		t.T.Rollback(ctx)
		out = append(out, d)
	}
	return out, nil
}

func (d StoreDump) String() string {
	if d.Err != "" {
		return fmt.Sprintf("%s:ERR-%s", d.Name, d.Err)
	}
	u := 0
	if d.Unique {
		u = 1
	}
	return fmt.Sprintf("%s:%d:%d:%d:[%s]", d.Name, d.Slot, u, d.Count, strings.Join(d.Items, ","))
}

func DumpString(ds []StoreDump) string {
	if len(ds) == 0 {
		return "-"
	}
	var p []string
	for _, d := range ds {
		p = append(p, d.String())
	}
	return strings.Join(p, " ")
}

// StoreFolders lists, for one base folder, the sub-folders that carry a storeinfo.txt (sorted) and the content of
// the store list file ("<absent>" when there is none).
func StoreFolders(base string) (withInfo []string, list string) {
	ents, _ := os.ReadDir(base)
	for _, en := range ents {
		if en.IsDir() {
			if _, err := os.Stat(filepath.Join(base, en.Name(), fs.StoreInfoFilename)); err == nil {
				withInfo = append(withInfo, en.Name())
			}
		}
	}
	sort.Strings(withInfo)
	b, err := os.ReadFile(filepath.Join(base, "storelist.txt"))
	if err != nil {
		return withInfo, "<absent>"
	}
	return withInfo, string(b)
}

// ListFiles returns relative paths of regular files under dir (sorted).
func ListFiles(dir string) []string {
	var out []string
	filepath.Walk(dir, func(p string, info os.FileInfo, err error) error {
		if err == nil && !info.IsDir() {
			r, _ := filepath.Rel(dir, p)
			out = append(out, r)
		}
		return nil
	})
	sort.Strings(out)
	return out
}
