// Package txk is the transaction kit of the /verif harness: real filesystem backends of SharedCode/sop on a
// scratch folder, wrapped in decorators that record every call a transaction makes into a backend, inject an
// error before/after call k, park a transaction at a named call (deterministic interleavings) or kill the
// process there (crash). Everything a transaction does still goes through the real code.
package txk

import (
	"context"
	"fmt"
	"os"
	"path/filepath"
	"sort"
	"strings"
	"sync"
	"sync/atomic"
	"time"

	"github.com/sharedcode/sop"
	"github.com/sharedcode/sop/btree"
	"github.com/sharedcode/sop/cache"
	"github.com/sharedcode/sop/common"
	"github.com/sharedcode/sop/fs"
)

// Fault kinds for one backend call.
type Fault int

const (
	None       Fault = iota
	FailBefore       // return an error, no effect
	FailAfter        // perform the call, then return an error
)

func (f Fault) String() string { return [...]string{"none", "failBefore", "failAfter"}[f] }

// Call is one recorded backend call.
type Call struct {
	Seq    int64 // global order over all scripts of the process
	Idx    int
	Name   string // e.g. reg.Get, blob.Add, tlog.Add, l2.Lock
	Args   string // canonical
	Err    bool
	Fault  Fault
	Result string // canonical (reads only)
}

func (c Call) String() string {
	s := c.Name
	if c.Args != "" {
		s += " " + c.Args
	}
	if c.Result != "" {
		s += " -> " + c.Result
	}
	if c.Err {
		s += " !err"
	}
	return strings.TrimSpace(s)
}

// Script controls and records the calls of ONE transaction (or of anything else that shares it).
type Script struct {
	mu      sync.Mutex
	next    int
	Faults  map[int]Fault                 // by call index
	FaultOn func(idx int, name string) Fault // optional, consulted when Faults has no entry
	Gate    func(idx int, name string)    // optional: called before the call is performed (may block)
	CrashAt int                           // >0: os.Exit(137) right before performing call CrashAt
	CrashAfter int                        // >0: os.Exit(137) right after performing call CrashAfter
	Calls   []Call
	Canon   *Canon
	Quiet   map[string]bool // call names not recorded / not counted (e.g. cache reads)
}

func NewScript(c *Canon) *Script { return &Script{Faults: map[int]Fault{}, Canon: c, Quiet: map[string]bool{}} }

var ErrInjected = fmt.Errorf("verif: injected fault")

var globalSeq int64

// NextSeq stamps an event of the harness itself (e.g. a lock loss) in the global order of backend calls.
func NextSeq() int64 { return atomic.AddInt64(&globalSeq, 1) }

// enter registers a call; returns its index (0 when the call is quiet) and the fault to apply.
func (s *Script) enter(name string) (int, Fault) {
	if s == nil {
		return 0, None
	}
	s.mu.Lock()
	if s.Quiet[name] {
		s.mu.Unlock()
		return 0, None
	}
	s.next++
	idx := s.next
	f, ok := s.Faults[idx]
	if !ok && s.FaultOn != nil {
		f = s.FaultOn(idx, name)
	}
	gate := s.Gate
	crash := s.CrashAt
	s.mu.Unlock()
	if gate != nil {
		gate(idx, name)
	}
	if crash > 0 && idx == crash {
		os.Exit(137)
	}
	return idx, f
}

func (s *Script) leave(idx int, name, args, result string, err error, f Fault) {
	if s == nil || idx == 0 {
		return
	}
	s.mu.Lock()
	s.Calls = append(s.Calls, Call{Seq: atomic.AddInt64(&globalSeq, 1), Idx: idx, Name: name, Args: args, Err: err != nil, Fault: f, Result: result})
	ca := s.CrashAfter
	s.mu.Unlock()
	if ca > 0 && idx == ca {
		os.Exit(137)
	}
}

// N is the number of (non-quiet) calls made so far.
func (s *Script) N() int { s.mu.Lock(); defer s.mu.Unlock(); return s.next }

func (s *Script) Lines() []string {
	s.mu.Lock()
	defer s.mu.Unlock()
	out := make([]string, len(s.Calls))
	for i, c := range s.Calls {
		out[i] = c.String()
	}
	return out
}

// ---- canonical names for UUIDs ----

type Canon struct {
	mu    sync.Mutex
	names map[sop.UUID]string
	next  int
}

func NewCanon() *Canon { return &Canon{names: map[sop.UUID]string{}} }

func (c *Canon) ID(u sop.UUID) string {
	if u.IsNil() {
		return "0"
	}
	c.mu.Lock()
	defer c.mu.Unlock()
	if n, ok := c.names[u]; ok {
		return n
	}
	c.next++
	n := fmt.Sprint(c.next)
	c.names[u] = n
	return n
}

// Next is the number of ids named so far.
func (c *Canon) Next() int { c.mu.Lock(); defer c.mu.Unlock(); return c.next }

// Name returns the canonical name of an already named id ("" otherwise), without naming it.
func (c *Canon) Name(u sop.UUID) string {
	if u.IsNil() {
		return "0"
	}
	c.mu.Lock()
	defer c.mu.Unlock()
	return c.names[u]
}

func (c *Canon) Known(u sop.UUID) bool { c.mu.Lock(); defer c.mu.Unlock(); _, ok := c.names[u]; return ok }

func (c *Canon) IDs(us []sop.UUID) string {
	out := make([]string, len(us))
	for i, u := range us {
		out[i] = c.ID(u)
	}
	sort.Slice(out, func(i, j int) bool { return lessNum(out[i], out[j]) })
	return "[" + strings.Join(out, ",") + "]"
}

func lessNum(a, b string) bool {
	if len(a) != len(b) {
		return len(a) < len(b)
	}
	return a < b
}

// Handle renders a handle image: lid:A:B:activeB:version:wipclass:deleted. The WIP timestamp is a wall-clock
// value; only its class is canonical: 0, 1, or t (a real time).
func (c *Canon) Handle(h sop.Handle) string {
	w := "t"
	if h.WorkInProgressTimestamp == 0 {
		w = "0"
	} else if h.WorkInProgressTimestamp == 1 {
		w = "1"
	}
	b := func(x bool) string {
		if x {
			return "1"
		}
		return "0"
	}
	return fmt.Sprintf("%s:%s:%s:%s:%d:%s:%s", c.ID(h.LogicalID), c.ID(h.PhysicalIDA), c.ID(h.PhysicalIDB), b(h.IsActiveIDB), h.Version, w, b(h.IsDeleted))
}

func (c *Canon) Handles(ps []sop.RegistryPayload[sop.Handle]) string {
	var out []string
	for _, p := range ps {
		for _, h := range p.IDs {
			out = append(out, c.Handle(h))
		}
	}
	sort.Slice(out, func(i, j int) bool { return lessNum(strings.SplitN(out[i], ":", 2)[0], strings.SplitN(out[j], ":", 2)[0]) })
	return "[" + strings.Join(out, " ") + "]"
}

func (c *Canon) Lids(ps []sop.RegistryPayload[sop.UUID]) string {
	var us []sop.UUID
	for _, p := range ps {
		us = append(us, p.IDs...)
	}
	return c.IDs(us)
}


// ---- environment: real fs backends on one folder ----

type Env struct {
	Dir     string
	HashMod int
	L2      sop.L2Cache
	Canon   *Canon
}

// NewEnv creates (or reopens) a store folder. Each Env has its own in-memory L2 cache (= one "process").
func NewEnv(dir string, hashMod int) *Env {
	os.MkdirAll(dir, 0o755)
	e := &Env{Dir: dir, HashMod: hashMod, L2: cache.NewL2InMemoryCache(), Canon: NewCanon()}
	cache.GetGlobalL1Cache(e.L2) // bind the process-wide L1 to the raw L2, never to a decorator
	return e
}

// ColdRestart emulates a process restart: fresh L1 singleton, fresh L2 (locks and cached handles/nodes gone).
func (e *Env) ColdRestart() {
	cache.VerifResetGlobalL1()
	e.L2 = cache.NewL2InMemoryCache()
	cache.GetGlobalL1Cache(e.L2)
}

// AsOtherProcess runs f with cold caches (empty L1 singletons, a fresh L2) on the same folder, then restores
// this environment's caches: what another, freshly started process would see, without disturbing this one.
func (e *Env) AsOtherProcess(f func(o *Env) error) error {
	old := cache.VerifSwapGlobalL1(nil)
	defer cache.VerifSwapGlobalL1(old)
	o := &Env{Dir: e.Dir, HashMod: e.HashMod, L2: cache.NewL2InMemoryCache(), Canon: e.Canon}
	cache.GetGlobalL1Cache(o.L2)
	return f(o)
}

// Txn is a real transaction over decorated real backends.
type Txn struct {
	T      sop.Transaction
	P      *common.Transaction
	Script *Script
	Env    *Env
}

// NewTxn builds a transaction exactly as infs.NewTwoPhaseCommitTransaction does, with every backend wrapped.
// A nil script means undecorated-but-recorded-nowhere (plain pass-through).
func (e *Env) NewTxn(ctx context.Context, mode sop.TransactionMode, maxTime time.Duration, sc *Script) (*Txn, error) {
	rt, err := fs.NewReplicationTracker(ctx, []string{e.Dir}, false, e.L2)
	if err != nil {
		return nil, err
	}
	l2 := sop.L2Cache(e.L2)
	if sc != nil {
		l2 = &l2Deco{L2Cache: e.L2, s: sc}
	}
	fio := fs.NewFileIO()
	sr, err := fs.NewStoreRepository(ctx, rt, fs.NewManageStoreFolder(fio), e.L2, e.HashMod)
	if err != nil {
		return nil, err
	}
	hm := e.HashMod
	if i, err := sr.GetRegistryHashModValue(ctx); err != nil {
		return nil, err
	} else if i > 0 {
		hm = i
	}
	tl := fs.NewTransactionLog(e.L2, rt)
	var bs sop.BlobStore = fs.NewBlobStore(e.Dir, nil, nil)
	var reg sop.Registry = fs.NewRegistry(mode == sop.ForWriting, hm, rt, e.L2)
	var srd sop.StoreRepository = sr
	var tld sop.TransactionLog = tl
	if sc != nil {
		bs = &blobDeco{in: bs, s: sc}
		reg = &regDeco{in: reg, s: sc}
		srd = &srDeco{in: sr, s: sc}
		tld = &tlDeco{in: tl, s: sc, pl: &plDeco{in: tl.PriorityLog(), s: sc}}
	}
	p, err := common.NewTwoPhaseCommitTransaction(mode, maxTime, bs, srd, reg, l2, tld)
	if err != nil {
		return nil, err
	}
	rt.SetTransactionID(p.GetID())
	t, err := sop.NewTransaction(mode, p)
	if err != nil {
		return nil, err
	}
	return &Txn{T: t, P: p, Script: sc, Env: e}, nil
}

// StoreOpts mimics infs.NewBtree's adjustments of the store options.
func (e *Env) StoreOpts(name string, slotLength int, unique bool) sop.StoreOptions {
	so := sop.ConfigureStore(name, unique, slotLength, "", sop.SmallData, "")
	so.DisableRegistryStoreFormatting = true
	so.DisableBlobStoreFormatting = true
	so.BlobStoreBaseFolderPath = e.Dir
	return so
}

func NewBtree[TK btree.Ordered, TV any](ctx context.Context, t *Txn, so sop.StoreOptions) (btree.BtreeInterface[TK, TV], error) {
	so.DisableRegistryStoreFormatting = true
	so.DisableBlobStoreFormatting = true
	so.BlobStoreBaseFolderPath = t.Env.Dir
	return common.NewBtree[TK, TV](ctx, so, t.T, nil)
}

func OpenBtree[TK btree.Ordered, TV any](ctx context.Context, t *Txn, name string) (btree.BtreeInterface[TK, TV], error) {
	return common.OpenBtree[TK, TV](ctx, name, t.T, nil)
}

// ---- decorators ----

type blobDeco struct {
	in sop.BlobStore
	s  *Script
}

func blobKeys(c *Canon, bs []sop.BlobsPayload[sop.KeyValuePair[sop.UUID, []byte]]) string {
	var us []sop.UUID
	for _, p := range bs {
		for _, b := range p.Blobs {
			us = append(us, b.Key)
		}
	}
	return c.IDs(us)
}
func blobIDs(c *Canon, bs []sop.BlobsPayload[sop.UUID]) string {
	var us []sop.UUID
	for _, p := range bs {
		us = append(us, p.Blobs...)
	}
	return c.IDs(us)
}

func (d *blobDeco) GetOne(ctx context.Context, table string, id sop.UUID) ([]byte, error) {
	idx, f := d.s.enter("blob.GetOne")
	if f == FailBefore {
		d.s.leave(idx, "blob.GetOne", d.s.Canon.ID(id), "", ErrInjected, f)
		return nil, ErrInjected
	}
	b, err := d.in.GetOne(ctx, table, id)
	if f == FailAfter && err == nil {
		err = ErrInjected
	}
	d.s.leave(idx, "blob.GetOne", d.s.Canon.ID(id), "", err, f)
	return b, err
}
func (d *blobDeco) Add(ctx context.Context, bs []sop.BlobsPayload[sop.KeyValuePair[sop.UUID, []byte]]) error {
	idx, f := d.s.enter("blob.Add")
	args := blobKeys(d.s.Canon, bs)
	if f == FailBefore {
		d.s.leave(idx, "blob.Add", args, "", ErrInjected, f)
		return ErrInjected
	}
	err := d.in.Add(ctx, bs)
	if f == FailAfter && err == nil {
		err = ErrInjected
	}
	d.s.leave(idx, "blob.Add", args, "", err, f)
	return err
}
func (d *blobDeco) Update(ctx context.Context, bs []sop.BlobsPayload[sop.KeyValuePair[sop.UUID, []byte]]) error {
	idx, f := d.s.enter("blob.Update")
	args := blobKeys(d.s.Canon, bs)
	if f == FailBefore {
		d.s.leave(idx, "blob.Update", args, "", ErrInjected, f)
		return ErrInjected
	}
	err := d.in.Update(ctx, bs)
	if f == FailAfter && err == nil {
		err = ErrInjected
	}
	d.s.leave(idx, "blob.Update", args, "", err, f)
	return err
}
func (d *blobDeco) Remove(ctx context.Context, ids []sop.BlobsPayload[sop.UUID]) error {
	idx, f := d.s.enter("blob.Remove")
	args := blobIDs(d.s.Canon, ids)
	if f == FailBefore {
		d.s.leave(idx, "blob.Remove", args, "", ErrInjected, f)
		return ErrInjected
	}
	err := d.in.Remove(ctx, ids)
	if f == FailAfter && err == nil {
		err = ErrInjected
	}
	d.s.leave(idx, "blob.Remove", args, "", err, f)
	return err
}

type regDeco struct {
	in sop.Registry
	s  *Script
}

func (d *regDeco) Get(ctx context.Context, lids []sop.RegistryPayload[sop.UUID]) ([]sop.RegistryPayload[sop.Handle], error) {
	idx, f := d.s.enter("reg.Get")
	args := d.s.Canon.Lids(lids)
	if f == FailBefore {
		d.s.leave(idx, "reg.Get", args, "", ErrInjected, f)
		return nil, ErrInjected
	}
	r, err := d.in.Get(ctx, lids)
	res := ""
	if err == nil {
		res = d.s.Canon.Handles(r)
	}
	if f == FailAfter && err == nil {
		err = ErrInjected
	}
	d.s.leave(idx, "reg.Get", args, res, err, f)
	if err != nil {
		return nil, err
	}
	return r, nil
}
func (d *regDeco) Add(ctx context.Context, hs []sop.RegistryPayload[sop.Handle]) error {
	idx, f := d.s.enter("reg.Add")
	args := d.s.Canon.Handles(hs)
	if f == FailBefore {
		d.s.leave(idx, "reg.Add", args, "", ErrInjected, f)
		return ErrInjected
	}
	err := d.in.Add(ctx, hs)
	if f == FailAfter && err == nil {
		err = ErrInjected
	}
	d.s.leave(idx, "reg.Add", args, "", err, f)
	return err
}
func (d *regDeco) Update(ctx context.Context, hs []sop.RegistryPayload[sop.Handle]) error {
	idx, f := d.s.enter("reg.Update")
	args := d.s.Canon.Handles(hs)
	if f == FailBefore {
		d.s.leave(idx, "reg.Update", args, "", ErrInjected, f)
		return ErrInjected
	}
	err := d.in.Update(ctx, hs)
	if f == FailAfter && err == nil {
		err = ErrInjected
	}
	d.s.leave(idx, "reg.Update", args, "", err, f)
	return err
}
func (d *regDeco) UpdateNoLocks(ctx context.Context, allOrNothing bool, hs []sop.RegistryPayload[sop.Handle]) error {
	name := "reg.UpdateNoLocks"
	idx, f := d.s.enter(name)
	args := d.s.Canon.Handles(hs)
	if allOrNothing {
		args = "aon " + args
	}
	if f == FailBefore {
		d.s.leave(idx, name, args, "", ErrInjected, f)
		return ErrInjected
	}
	err := d.in.UpdateNoLocks(ctx, allOrNothing, hs)
	if f == FailAfter && err == nil {
		err = ErrInjected
	}
	d.s.leave(idx, name, args, "", err, f)
	return err
}
func (d *regDeco) Remove(ctx context.Context, lids []sop.RegistryPayload[sop.UUID]) error {
	idx, f := d.s.enter("reg.Remove")
	args := d.s.Canon.Lids(lids)
	if f == FailBefore {
		d.s.leave(idx, "reg.Remove", args, "", ErrInjected, f)
		return ErrInjected
	}
	err := d.in.Remove(ctx, lids)
	if f == FailAfter && err == nil {
		err = ErrInjected
	}
	d.s.leave(idx, "reg.Remove", args, "", err, f)
	return err
}
func (d *regDeco) Replicate(ctx context.Context, a, b, c, e []sop.RegistryPayload[sop.Handle]) error {
	return d.in.Replicate(ctx, a, b, c, e)
}
func (d *regDeco) Close() error {
	if c, ok := d.in.(interface{ Close() error }); ok {
		return c.Close()
	}
	return nil
}

type srDeco struct {
	in sop.StoreRepository
	s  *Script
}

func storeArgs(ss []sop.StoreInfo) string {
	var out []string
	for _, s := range ss {
		out = append(out, fmt.Sprintf("%s:%+d", s.Name, s.CountDelta))
	}
	sort.Strings(out)
	return "[" + strings.Join(out, " ") + "]"
}
func (d *srDeco) Get(ctx context.Context, names ...string) ([]sop.StoreInfo, error) {
	return d.in.Get(ctx, names...)
}
func (d *srDeco) GetWithTTL(ctx context.Context, b bool, dur time.Duration, names ...string) ([]sop.StoreInfo, error) {
	return d.in.GetWithTTL(ctx, b, dur, names...)
}
func (d *srDeco) GetAll(ctx context.Context) ([]string, error) { return d.in.GetAll(ctx) }
func (d *srDeco) Add(ctx context.Context, ss ...sop.StoreInfo) error {
	idx, f := d.s.enter("sr.Add")
	var names []string
	for _, s := range ss {
		names = append(names, s.Name)
	}
	args := "[" + strings.Join(names, " ") + "]"
	if f == FailBefore {
		d.s.leave(idx, "sr.Add", args, "", ErrInjected, f)
		return ErrInjected
	}
	err := d.in.Add(ctx, ss...)
	if f == FailAfter && err == nil {
		err = ErrInjected
	}
	d.s.leave(idx, "sr.Add", args, "", err, f)
	return err
}
func (d *srDeco) Remove(ctx context.Context, names ...string) error {
	idx, f := d.s.enter("sr.Remove")
	args := "[" + strings.Join(names, " ") + "]"
	if f == FailBefore {
		d.s.leave(idx, "sr.Remove", args, "", ErrInjected, f)
		return ErrInjected
	}
	err := d.in.Remove(ctx, names...)
	if f == FailAfter && err == nil {
		err = ErrInjected
	}
	d.s.leave(idx, "sr.Remove", args, "", err, f)
	return err
}
func (d *srDeco) Update(ctx context.Context, ss []sop.StoreInfo) ([]sop.StoreInfo, error) {
	idx, f := d.s.enter("sr.Update")
	args := storeArgs(ss)
	if f == FailBefore {
		d.s.leave(idx, "sr.Update", args, "", ErrInjected, f)
		return nil, ErrInjected
	}
	r, err := d.in.Update(ctx, ss)
	if f == FailAfter && err == nil {
		err = ErrInjected
	}
	d.s.leave(idx, "sr.Update", args, "", err, f)
	return r, err
}
func (d *srDeco) Replicate(ctx context.Context, ss []sop.StoreInfo) error { return d.in.Replicate(ctx, ss) }

// GetStoresBaseFolder lets infs-style callers keep working with a decorated repository.
func (d *srDeco) GetStoresBaseFolder() string {
	if x, ok := d.in.(interface{ GetStoresBaseFolder() string }); ok {
		return x.GetStoresBaseFolder()
	}
	return ""
}

type tlDeco struct {
	in sop.TransactionLog
	s  *Script
	pl *plDeco
}

func (d *tlDeco) PriorityLog() sop.TransactionPriorityLog { return d.pl }
func (d *tlDeco) Add(ctx context.Context, tid sop.UUID, fn int, payload []byte) error {
	idx, f := d.s.enter("tlog.Add")
	args := fmt.Sprint(fn)
	if f == FailBefore {
		d.s.leave(idx, "tlog.Add", args, "", ErrInjected, f)
		return ErrInjected
	}
	err := d.in.Add(ctx, tid, fn, payload)
	if f == FailAfter && err == nil {
		err = ErrInjected
	}
	d.s.leave(idx, "tlog.Add", args, "", err, f)
	return err
}
func (d *tlDeco) Remove(ctx context.Context, tid sop.UUID) error {
	idx, f := d.s.enter("tlog.Remove")
	if f == FailBefore {
		d.s.leave(idx, "tlog.Remove", "", "", ErrInjected, f)
		return ErrInjected
	}
	err := d.in.Remove(ctx, tid)
	if f == FailAfter && err == nil {
		err = ErrInjected
	}
	d.s.leave(idx, "tlog.Remove", "", "", err, f)
	return err
}
func (d *tlDeco) GetOne(ctx context.Context) (sop.UUID, string, []sop.KeyValuePair[int, []byte], error) {
	return d.in.GetOne(ctx)
}
func (d *tlDeco) GetOneOfHour(ctx context.Context, hour string) (sop.UUID, []sop.KeyValuePair[int, []byte], error) {
	return d.in.GetOneOfHour(ctx, hour)
}
func (d *tlDeco) NewUUID() sop.UUID { return d.in.NewUUID() }

type plDeco struct {
	in sop.TransactionPriorityLog
	s  *Script
}

func (d *plDeco) IsEnabled() bool { return d.in.IsEnabled() }
func (d *plDeco) Add(ctx context.Context, tid sop.UUID, payload []byte) error {
	idx, f := d.s.enter("plog.Add")
	if f == FailBefore {
		d.s.leave(idx, "plog.Add", "", "", ErrInjected, f)
		return ErrInjected
	}
	err := d.in.Add(ctx, tid, payload)
	if f == FailAfter && err == nil {
		err = ErrInjected
	}
	d.s.leave(idx, "plog.Add", "", "", err, f)
	return err
}
func (d *plDeco) Remove(ctx context.Context, tid sop.UUID) error {
	idx, f := d.s.enter("plog.Remove")
	if f == FailBefore {
		d.s.leave(idx, "plog.Remove", "", "", ErrInjected, f)
		return ErrInjected
	}
	err := d.in.Remove(ctx, tid)
	if f == FailAfter && err == nil {
		err = ErrInjected
	}
	d.s.leave(idx, "plog.Remove", "", "", err, f)
	return err
}
func (d *plDeco) Get(ctx context.Context, tid sop.UUID) ([]sop.RegistryPayload[sop.Handle], error) {
	return d.in.Get(ctx, tid)
}
func (d *plDeco) GetBatch(ctx context.Context, n int) ([]sop.KeyValuePair[sop.UUID, []sop.RegistryPayload[sop.Handle]], error) {
	return d.in.GetBatch(ctx, n)
}
func (d *plDeco) ProcessNewer(ctx context.Context, p func(tid sop.UUID, payload []sop.RegistryPayload[sop.Handle]) error) error {
	return d.in.ProcessNewer(ctx, p)
}
func (d *plDeco) LogCommitChanges(ctx context.Context, stores []sop.StoreInfo, a, b, c, e []sop.RegistryPayload[sop.Handle]) error {
	return d.in.LogCommitChanges(ctx, stores, a, b, c, e)
}

// l2Deco decorates the lock and lock-record calls of the L2 cache; everything else passes through (embedding).
type l2Deco struct {
	sop.L2Cache
	s *Script
}

func keysOf(c *Canon, ks []*sop.LockKey) string {
	out := make([]string, len(ks))
	for i, k := range ks {
		out[i] = canonKey(c, k.Key)
	}
	sort.Slice(out, func(i, j int) bool { return lessNum(out[i], out[j]) })
	return "[" + strings.Join(out, " ") + "]"
}

// canonKey replaces a UUID inside a lock key name by its canonical name.
func canonKey(c *Canon, k string) string {
	if len(k) >= 36 {
		if u, err := sop.ParseUUID(k[len(k)-36:]); err == nil {
			return k[:len(k)-36] + c.ID(u)
		}
	}
	return k
}

func (d *l2Deco) Lock(ctx context.Context, dur time.Duration, ks []*sop.LockKey) (bool, sop.UUID, error) {
	idx, f := d.s.enter("l2.Lock")
	args := keysOf(d.s.Canon, ks)
	if f == FailBefore {
		d.s.leave(idx, "l2.Lock", args, "", ErrInjected, f)
		return false, sop.NilUUID, ErrInjected
	}
	ok, u, err := d.L2Cache.Lock(ctx, dur, ks)
	if f == FailAfter && err == nil {
		err = ErrInjected
	}
	d.s.leave(idx, "l2.Lock", args, fmt.Sprint(ok), err, f)
	return ok, u, err
}
func (d *l2Deco) DualLock(ctx context.Context, dur time.Duration, ks []*sop.LockKey) (bool, sop.UUID, error) {
	idx, f := d.s.enter("l2.DualLock")
	args := keysOf(d.s.Canon, ks)
	if f == FailBefore {
		d.s.leave(idx, "l2.DualLock", args, "", ErrInjected, f)
		return false, sop.NilUUID, ErrInjected
	}
	ok, u, err := d.L2Cache.DualLock(ctx, dur, ks)
	if f == FailAfter && err == nil {
		err = ErrInjected
	}
	d.s.leave(idx, "l2.DualLock", args, fmt.Sprint(ok), err, f)
	return ok, u, err
}
func (d *l2Deco) IsLocked(ctx context.Context, ks []*sop.LockKey) (bool, error) {
	idx, f := d.s.enter("l2.IsLocked")
	args := keysOf(d.s.Canon, ks)
	if f == FailBefore {
		d.s.leave(idx, "l2.IsLocked", args, "", ErrInjected, f)
		return false, ErrInjected
	}
	ok, err := d.L2Cache.IsLocked(ctx, ks)
	if f == FailAfter && err == nil {
		err = ErrInjected
	}
	d.s.leave(idx, "l2.IsLocked", args, fmt.Sprint(ok), err, f)
	return ok, err
}
func (d *l2Deco) Unlock(ctx context.Context, ks []*sop.LockKey) error {
	idx, f := d.s.enter("l2.Unlock")
	args := keysOf(d.s.Canon, ks)
	if f == FailBefore {
		d.s.leave(idx, "l2.Unlock", args, "", ErrInjected, f)
		return ErrInjected
	}
	err := d.L2Cache.Unlock(ctx, ks)
	if f == FailAfter && err == nil {
		err = ErrInjected
	}
	d.s.leave(idx, "l2.Unlock", args, "", err, f)
	return err
}
func (d *l2Deco) GetStructs(ctx context.Context, keys []string, targets []interface{}, exp time.Duration) ([]bool, error) {
	idx, f := d.s.enter("l2.GetStructs")
	if f == FailBefore {
		d.s.leave(idx, "l2.GetStructs", fmt.Sprint(len(keys)), "", ErrInjected, f)
		return nil, ErrInjected
	}
	r, err := d.L2Cache.GetStructs(ctx, keys, targets, exp)
	if f == FailAfter && err == nil {
		err = ErrInjected
	}
	d.s.leave(idx, "l2.GetStructs", fmt.Sprint(len(keys)), "", err, f)
	return r, err
}
func (d *l2Deco) SetStructs(ctx context.Context, keys []string, values []interface{}, exp time.Duration) error {
	idx, f := d.s.enter("l2.SetStructs")
	if f == FailBefore {
		d.s.leave(idx, "l2.SetStructs", fmt.Sprint(len(keys)), "", ErrInjected, f)
		return ErrInjected
	}
	err := d.L2Cache.SetStructs(ctx, keys, values, exp)
	if f == FailAfter && err == nil {
		err = ErrInjected
	}
	d.s.leave(idx, "l2.SetStructs", fmt.Sprint(len(keys)), "", err, f)
	return err
}

func (d *l2Deco) Delete(ctx context.Context, keys []string) (bool, error) {
	idx, f := d.s.enter("l2.Delete")
	args := fmt.Sprint(len(keys))
	if f == FailBefore {
		d.s.leave(idx, "l2.Delete", args, "", ErrInjected, f)
		return false, ErrInjected
	}
	ok, err := d.L2Cache.Delete(ctx, keys)
	if f == FailAfter && err == nil {
		err = ErrInjected
	}
	d.s.leave(idx, "l2.Delete", args, "", err, f)
	return ok, err
}

// ---- disk inspection ----

// ListFiles returns relative paths of regular files under dir (sorted).
func ListFiles(dir string) []string {
	var out []string
	filepath.Walk(dir, func(p string, info os.FileInfo, err error) error {
		if err == nil && !info.IsDir() {
			r, _ := filepath.Rel(dir, p)
			out = append(out, r)
		}
		return nil
	})
	sort.Strings(out)
	return out
}
