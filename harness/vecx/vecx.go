// Package vecx holds the small fixed domains of the C33 harness: the vector table, the query vectors, the id
// names, and the order-preserving map from float32 to integers used for every oracle input.
package vecx

import (
	"fmt"
	"math"
)

// Table[0] is the empty vector (what a deleted buffered item holds). Several rows are scalar multiples of
// others (equal cosine against every query, different distances).
var Table = [][]float32{
	nil,
	{1.13, 0.27},
	{2.26, 0.54},
	{-0.41, 1.9},
	{0.05, -1.3},
	{3.1, 2.9},
	{-2.2, -0.7},
	{0.9, 0.95},
	{1.8, 1.9},
	{-0.82, 3.8},
}

var Queries = [][]float32{
	{1, 0.2},
	{-0.3, 1.1},
	{0.7, 0.8},
	{-1, -0.4},
	{0.1, -1},
}

func IDName(i int) string { return fmt.Sprintf("i%03d", i) }

func IDNum(s string) int {
	var n int
	if _, err := fmt.Sscanf(s, "i%03d", &n); err != nil {
		return -1
	}
	return n
}

func CopyVec(i int) []float32 {
	if i == 0 {
		return nil
	}
	return append([]float32(nil), Table[i]...)
}

// VecIndex maps a vector read back from the store to its row in Table (-1: not a table vector).
func VecIndex(v []float32) int {
	if len(v) == 0 {
		return 0
	}
	for i := 1; i < len(Table); i++ {
		if len(Table[i]) == len(v) {
			same := true
			for j := range v {
				if v[j] != Table[i][j] {
					same = false
				}
			}
			if same {
				return i
			}
		}
	}
	return -1
}

// FKey is strictly monotone on float32 (-0 and +0 both map to 0; NaN maps above +Inf).
func FKey(f float32) int64 {
	b := math.Float32bits(f)
	if b&0x80000000 != 0 {
		return -int64(b & 0x7fffffff)
	}
	return int64(b)
}
