import Sop.Props.C24
