import Sop.Model.BTree
import Sop.Model.OrderedColl
import Sop.Driver.Util
/-! Line protocol of Model B (shared by the C17 and C18 drivers). One op line in, one answer line out:
`<ret> c=<count> root=<id> cur=<node>:<idx>:<cached>:<key>:<val>:<id> | <node> | <node> …`.
After every step the driver also evaluates the verified checker `checkWF` and the specification relation
`Spec.accepts` on `abs` before/after, and annotates the first deviation of a case (`\t#signature`). -/
namespace Sop.Driver.BTreeProto
open Sop.Driver Sop.BTree

structure St where
  t : BTree := {}
  im : Bool := false
  fixFast : Bool := true
  fixErr : Bool := true
  fixId : Bool := true
  pfx : String := "C17"
  reported : Bool := false
  dead : Bool := false

def kvOf (s : String) : Option (String × String) :=
  match s.splitOn "=" with
  | [k, v] => some (k, v)
  | _ => none

def reset (pfx : String) (ff fe fi : Bool) (hdr : List String) : St :=
  let kv := hdr.filterMap kvOf
  let get (k : String) : Int := ((kv.find? (·.1 == k)).bind (·.2.toInt?)).getD 0
  let im := get "im" == 1
  { t := { BTree.new (if im then 8 else get "sl") (get "u" == 1) (if im then false else get "lb" == 1) true with
             fixFast := ff, fixErr := fe, fixId := fi },
    im := im, fixFast := ff, fixErr := fe, fixId := fi, pfx := pfx }

def showVal (v : Nat) : String := if v = 0 then "-" else toString v
def showItem (i : Item) : String := s!"{i.key}:{showVal i.val}:{i.id}"
def joinWith (sep : String) (l : List String) : String := sep.intercalate l

def showNode (nd : Node) : String :=
  let slots := joinWith "," (nd.slots.toList.map showItem)
  let kids := match nd.children with
    | none => "-"
    | some cs => joinWith "," (cs.toList.map toString)
  s!"n{nd.id} p{nd.parent} c{nd.count} i{nd.ion} [{slots}] <{kids}>"

partial def reachAll (t : BTree) (fuel : Nat) (n : NodeId) (seen : List NodeId) : List NodeId :=
  if fuel = 0 ∨ n = 0 ∨ seen.contains n then seen else
  match t.get? n with
  | none => seen
  | some nd => (nd.children.getD #[]).toList.foldl (fun s c => reachAll t (fuel - 1) c s) (n :: seen)

def insertById (nd : Node) : List Node → List Node
  | [] => [nd]
  | x :: xs => if nd.id ≤ x.id then nd :: x :: xs else x :: insertById nd xs

def sortNodes (l : List Node) : List Node := l.foldl (fun acc nd => insertById nd acc) []

def dump (s : St) (ret : String) : String :=
  let t := s.t
  let nodes := if s.im then
      let r := reachAll t (t.nodes.length + 2) t.root []
      t.nodes.filter (fun nd => r.contains nd.id)
    else t.nodes
  let cur := if t.cur.cached then
      let i := t.curItem
      s!"{i.key}:{showVal i.val}:{i.id}"
    else "-:-:-"
  let head := s!"{ret} c={t.count} root={t.root} cur={t.cur.node}:{t.cur.idx}:{b01 t.cur.cached}:{cur}"
  joinWith " | " (head :: (sortNodes nodes).map showNode)

def parseOp (ws : List String) : Option Op :=
  let i (s : String) := s.toInt?
  let n (s : String) := s.toNat?
  match ws with
  | ["add", k, v] => do pure (.add (← i k) (← n v))
  | ["addne", k, v] => do pure (.addIfNotExist (← i k) (← n v))
  | ["upsert", k, v] => do pure (.upsert (← i k) (← n v))
  | ["update", k, v] => do pure (.update (← i k) (← n v))
  | ["updkey", k] => do pure (.updateKey (← i k))
  | ["rm", k] => do pure (.remove (← i k))
  | ["find", k, f] => do pure (.find (← i k) (← boolOf f))
  | ["findd", k] => do pure (.findDesc (← i k))
  | ["findid", k, id] => do pure (.findWithID (← i k) (← n id))
  | ["first"] => some .first
  | ["last"] => some .last
  | ["next"] => some .next
  | ["prev"] => some .prev
  | ["rmcur"] => some .removeCurrent
  | ["updcurkey", k] => do pure (.updateCurrentKey (← i k))
  | ["updcur", k, v] => do pure (.updateCurrentItem (← i k) (← n v))
  | ["updcurval", v] => do pure (.updateCurrentValue (← n v))
  | ["range", a, b] => do pure (.range (← i a) (← i b))
  | ["rangedesc", a, b] => do pure (.rangeDesc (← i a) (← i b))
  | _ => none

def showRet : Ret → String
  | .ok b => b01 b
  | .err => "err"
  -- a range yields `GetCurrentValue()`, which turns a nil `*Value` into the zero int
  | .items l => "[" ++ joinWith "," (l.map fun i => s!"{i.key}:{i.val}") ++ "]"

def step (s : St) (ws : List String) : St × String :=
  if s.dead then (s, "dead") else
  match parseOp ws with
  | none => (s, "bad-op")
  | some op =>
    let before := s.t.abs
    let (t', ret) := s.t.step op
    if t'.panicked then ({ s with t := t', dead := true }, "panic")
    else
      let s' := { s with t := t' }
      let line := dump s' (showRet ret)
      if s.reported then (s', line)
      else
        let lbs := if t'.lb then "lb=1" else "lb=0"
        if !checkWF t' then ({ s' with reported := true }, line ++ s!"\t#{s.pfx}/wf-broken:{lbs}")
        else if !Spec.accepts s.t.unique before op ret t'.abs then
          ({ s' with reported := true }, line ++ s!"\t#{s.pfx}/spec-mismatch:{lbs}:{ws.headD ""}")
        else (s', line)

def run (pfx : String) (args : List String) : IO Unit :=
  -- default: the code with all three proposed repairs; `--legacy` = the pinned tree; or switch one off
  let legacy := args.contains "--legacy"
  let ff := !(legacy || args.contains "--no-fix-fast")
  let fe := !(legacy || args.contains "--no-fix-err")
  let fi := !(legacy || args.contains "--no-fix-id")
  runLoop (reset pfx ff fe fi) step

end Sop.Driver.BTreeProto
