import Sop.Model.BlockCow
import Sop.Driver.Util
/-! Line-protocol helpers shared by the C22 and C23 drivers (parsing/printing only; no model logic). -/
namespace Sop.Driver.BlockCowIO
open Sop.Driver Sop.Handle Sop.BlockCow

/-- run-length form of a block: maximal zero runs as `z<count>`, maximal non-zero runs as hex, joined by `.`;
`-` is the empty byte string -/
def encTokens : Nat → List Nat → List String
  | 0, _ => []
  | _, [] => []
  | f + 1, b :: rest =>
    if b = 0 then
      let p := (b :: rest).span (· == 0)
      s!"z{p.1.length}" :: encTokens f p.2
    else
      let p := (b :: rest).span (· != 0)
      hexOfBytes p.1 :: encTokens f p.2

def encBlk (bs : List Nat) : String :=
  if bs.isEmpty then "-" else ".".intercalate (encTokens bs.length bs)

def decTok (t : String) : Option (List Nat) :=
  match t.toList with
  | 'z' :: ds => (String.ofList ds).toNat?.map fun n => List.replicate n 0
  | _ => bytesOfHex t

def decBlk (s : String) : Option (List Nat) :=
  if s == "-" then some [] else
  (s.splitOn ".").foldr (fun t acc => do
    let a ← acc
    let x ← decTok t
    pure (x ++ a)) (some [])

def showHandle (h : Handle) : String :=
  s!"{hexOfBytes h.lid} {hexOfBytes h.idA} {hexOfBytes h.idB} {b01 h.activeB} {h.version} {h.wip} {b01 h.deleted}"

def parseHandle (ws : List String) : Option Handle :=
  match ws with
  | [lid, a, b, act, ver, wip, del] =>
    match bytesOfHex lid, bytesOfHex a, bytesOfHex b, boolOf act, ver.toInt?, wip.toInt?, boolOf del with
    | some lid, some a, some b, some act, some ver, some wip, some del => some ⟨lid, a, b, act, ver, wip, del⟩
    | _, _, _, _, _, _, _ => none
  | _ => none

def showCow : Option (List Nat) → String
  | none => "none"
  | some [] => "empty"
  | some d => encBlk d

def showDisk (d : Disk) : String := s!"{encBlk d.blk} cow={showCow d.cow}"

def showOpRes : OpRes → String
  | .handle h => "ok " ++ showHandle h
  | .none => "none"
  | .ok => "ok"
  | .err => "err"
  | .elsewhere => "elsewhere"
  | .spin => "spin"

def rwOf (s : String) : Option Bool :=
  if s == "rw" then some true else if s == "ro" then some false else none

end Sop.Driver.BlockCowIO
