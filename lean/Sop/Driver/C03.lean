import Sop.Driver.CommitProto
def main : IO Unit := Sop.Driver.runLoop Sop.Driver.CommitProto.reset Sop.Driver.CommitProto.step
