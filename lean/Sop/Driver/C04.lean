import Sop.Driver.MergeProto
/-! Driver for C04: the commit-loop model `Sop.Merge` over the line protocol of `MergeProto`. -/
def main (args : List String) : IO Unit := Sop.Driver.MergeProto.run args
