import Sop.Driver.OccProto
def main : IO Unit := Sop.Driver.OccProto.run
