import Sop.Driver.CrashProto
def main : IO Unit := Sop.Driver.runLoop Sop.Driver.CrashProto.reset Sop.Driver.CrashProto.step
