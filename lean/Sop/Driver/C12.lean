import Sop.Model.StoreRepo
import Sop.Driver.Util
/-! Line protocol of C12 over `Sop.StoreRepo`. `drv_c12 --legacy` runs the model of the unrepaired `NewBtree`. -/
namespace Sop.Driver.C12
open Sop.Driver Sop.StoreRepo

def parseOpts (slot uniq : String) : Option Opts := do
  let s ← slot.toNat?
  let u ← boolOf uniq
  pure { slot := s, unique := u }

def parseOp (ws : List String) : Option Op :=
  match ws with
  | ["begin", t] => do pure (.begin (← t.toNat?))
  | ["new", t, n, slot, u] => do pure (.new (← t.toNat?) n (← parseOpts slot u))
  | ["lookup", t, n, slot, u] => do pure (.lookupNew (← t.toNat?) n (← parseOpts slot u))
  | ["resume", t] => do pure (.resume (← t.toNat?))
  | ["open", t, n] => do pure (.open_ (← t.toNat?) n)
  | ["add", t, n, k, v] => do pure (.add (← t.toNat?) n (← k.toInt?) v)
  | ["failnext", t] => do pure (.failNext (← t.toNat?))
  | ["commit", t] => do pure (.commit (← t.toNat?))
  | ["rollback", t] => do pure (.rollback (← t.toNat?))
  | ["remove", n] => some (.remove n)
  | _ => none

def stepLine (fixed : Bool) (s : State) (ws : List String) : State × String :=
  match ws with
  | ["dump"] => (s, dump s)
  | _ => match parseOp ws with
    | some op => step fixed s op
    | none => (s, "bad-op")

def run (fixed : Bool) : IO Unit := runLoop (fun _ => ({} : State)) (stepLine fixed)
end Sop.Driver.C12

def main (args : List String) : IO Unit := Sop.Driver.C12.run (!args.contains "--legacy")
