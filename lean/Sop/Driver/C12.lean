import Sop.Model.StoreRepo
import Sop.Model.StoreRepoLock
import Sop.Model.StoreRepoCommit
import Sop.Driver.Util
/-! Line protocol of C12 over `Sop.StoreRepo` (cases `single` / `repl`) and over `Sop.StoreRepoLock` (cases
`lock single` / `lock repl`: schedules of `StoreRepository.Add` / `Remove` / `NewBtree` parked at their L2 cache calls).
Cases `tx …` run over `Sop.StoreRepoCommit` (one creating transaction's Commit round by round). `drv_c12 --legacy` runs the model of the unrepaired `NewBtree`. -/
namespace Sop.Driver.C12
open Sop.Driver Sop.StoreRepo

def parseOpts (slot uniq : String) : Option Opts := do
  let s ← slot.toNat?
  let u ← boolOf uniq
  pure { slot := s, unique := u }

def parseOp (ws : List String) : Option Op :=
  match ws with
  | ["begin", t] => do pure (.begin (← t.toNat?))
  | ["new", t, n, slot, u] => do pure (.new (← t.toNat?) n (← parseOpts slot u))
  | ["lookup", t, n, slot, u] => do pure (.lookupNew (← t.toNat?) n (← parseOpts slot u))
  | ["resume", t] => do pure (.resume (← t.toNat?))
  | ["open", t, n] => do pure (.open_ (← t.toNat?) n)
  | ["add", t, n, k, v] => do pure (.add (← t.toNat?) n (← k.toInt?) v)
  | ["failnext", t] => do pure (.failNext (← t.toNat?))
  | ["commit", t] => do pure (.commit (← t.toNat?))
  | ["rollback", t] => do pure (.rollback (← t.toNat?))
  | ["remove", n] => some (.remove n)
  | _ => none

def stepLine (fixed : Bool) (s : State) (ws : List String) : State × String :=
  match ws with
  | ["dump"] => (s, dump s)
  | _ => match parseOp ws with
    | some op => step fixed s op
    | none => (s, "bad-op")

/-! the lock-level cases -/
namespace L
open Sop.StoreRepoLock

def kindOf : String → Option Kind
  | "add" => some .add | "remove" => some .remove | "get" => some .get | "new" => some .new | _ => none

def fuel : Nat := 200

def stepLine (s : StoreRepoLock.State) (ws : List String) : StoreRepoLock.State × String :=
  match ws with
  | ["spawn", i, k, n, slot, u] =>
    match i.toNat?, kindOf k, slot.toNat?, boolOf u with
    | some i, some k, some slot, some u => (spawn s i k n slot u, "ok")
    | _, _, _, _ => (s, "bad-op")
  | ["to", i, p] =>
    match i.toNat? with
    | some i => let s' := runTo false p fuel s i; (s', status s' i)
    | none => (s, "bad-op")
  | ["finish", i] =>
    match i.toNat? with
    | some i => let s' := runTo false "" fuel s i; (s', status s' i)
    | none => (s, "bad-op")
  | ["observe"] => (s, observe s)
  | _ => (s, "bad-op")
end L

/-! the commit-round cases (header `tx`) -/
namespace T
open Sop.StoreRepoCommit

def faultOf : String → Option Fault
  | "none" => some .none | "before" => some .before | "after" => some .after | _ => none

def parseOp (ws : List String) : Option StoreRepoCommit.Op :=
  match ws with
  | ["begin"] => some .begin
  | ["newlog", n, slot, u, f] => do pure (.newLog n (← parseOpts slot u) (← faultOf f))
  | ["newadd", n, slot, u, f] => do pure (.newAdd n (← parseOpts slot u) (← faultOf f))
  | ["crash"] => some .crash
  | ["recover"] => some .recover
  | ["new", n, slot, u] => do pure (.new n (← parseOpts slot u))
  | ["open", n] => some (.open_ n)
  | ["add", n, k, v] => do pure (.add n (← k.toInt?) v)
  | ["conflict"] => some .conflict
  | ["finish", ok, re] => do pure (.finish (← boolOf ok) (← boolOf re))
  | ["rollback"] => some .rollback
  | ["otheradd", n, k, v] => do pure (.otherAdd n (← k.toInt?) v)
  | ["othernew", n, slot, u] => do pure (.otherNew n (← parseOpts slot u))
  | ["otherremove", n] => some (.otherRemove n)
  | _ => none

def stepLine (s : StoreRepoCommit.State) (ws : List String) : StoreRepoCommit.State × String :=
  match ws with
  | ["dump"] => (s, StoreRepoCommit.dump s)
  | _ => match parseOp ws with
    | some op => StoreRepoCommit.step {} s op
    | none => (s, "bad-op")
end T

structure DS where
  fine : Bool := false
  tx : Bool := false
  t : StoreRepoCommit.State := {}
  c : State := {}
  l : StoreRepoLock.State := {}

def run (fixed : Bool) : IO Unit :=
  runLoop (fun hdr => ({ fine := hdr.head? == some "lock", tx := hdr.head? == some "tx" } : DS)) fun d ws =>
    if d.tx then let r := T.stepLine d.t ws; ({ d with t := r.1 }, r.2)
    else if d.fine then let r := L.stepLine d.l ws; ({ d with l := r.1 }, r.2)
    else let r := stepLine fixed d.c ws; ({ d with c := r.1 }, r.2)
end Sop.Driver.C12

def main (args : List String) : IO Unit := Sop.Driver.C12.run (!args.contains "--legacy")
