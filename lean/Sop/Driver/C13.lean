import Sop.Model.JsonPatch
import Sop.Model.StoreInfoHistory
import Sop.Model.StoreInfoGet
import Sop.Driver.Util
/-! Line-protocol driver for C13 (`Sop/Model/JsonPatch.lean`). Strings travel as hex of their UTF-8 bytes. -/
namespace Sop.Driver.C13
open Sop.Driver Sop.JsonPatch

def charsOfBytes (bs : List Nat) : Option (List Char) :=
  match String.fromUTF8? (ByteArray.mk (bs.map UInt8.ofNat).toArray) with
  | some s => some s.toList
  | none => none

/-- "-" and "." stand for the empty string -/
def strOfHex (s : String) : Option (List Char) :=
  if s == "-" || s == "." then some [] else
  match bytesOfHexChars s.toList with
  | some bs => charsOfBytes bs
  | none => none

def hexOfChars (cs : List Char) : String :=
  let ba := (String.ofList cs).toUTF8
  hexOrDash (ba.toList.map UInt8.toNat)

def allSome {α : Type} : List (Option α) → Option (List α)
  | [] => some []
  | none :: _ => none
  | some x :: r => match allSome r with
    | some l => some (x :: l)
    | none => none

/-- `~` nil slice, `_` empty slice, else items joined by `,` -/
def strList (s : String) : Option (Option (List (List Char))) :=
  if s == "~" then some none
  else if s == "_" then some (some [])
  else match allSome ((s.splitOn ",").map strOfHex) with
    | some l => some (some l)
    | none => none

def relationOf (s : String) : Option Relation :=
  match s.splitOn "|" with
  | [a, b, c] =>
    match strList a, strOfHex b, strList c with
    | some a, some b, some c => some { sourceFields := a, targetStore := b, targetFields := c }
    | _, _, _ => none
  | _ => none

def relationsOf (s : String) : Option (List Relation) :=
  if s == "-" then some [] else allSome ((s.splitOn ";").map relationOf)

def pairOf (s : String) : Option (List Char × List Char) :=
  match s.splitOn "=" with
  | [k, v] => match strOfHex k, strOfHex v with
    | some k, some v => some (k, v)
    | _, _ => none
  | _ => none

def schemaOf (s : String) : Option (List (List Char × List Char)) :=
  if s == "-" then some [] else allSome ((s.splitOn ",").map pairOf)

def optionsOf (ws : List String) : Option Options :=
  match ws with
  | [b1, b2, b3, b4, rd, rt, nd, nt, vd, vt, sd, st, mk, cel, prim, rels, schema, kf, vf, cd, ver] =>
    match boolOf b1, boolOf b2, boolOf b3, boolOf b4, rd.toInt?, boolOf rt, nd.toInt?, boolOf nt,
          vd.toInt?, boolOf vt, sd.toInt?, boolOf st with
    | some b1, some b2, some b3, some b4, some rd, some rt, some nd, some nt, some vd, some vt, some sd, some st =>
      match strOfHex mk, strOfHex cel, boolOf prim, relationsOf rels, schemaOf schema, strList kf, strList vf,
            strOfHex cd, strOfHex ver with
      | some mk, some cel, some prim, some rels, some schema, some kf, some vf, some cd, some ver =>
        some { inNode := b1, activelyPersisted := b2, globallyCached := b3, leafLoadBalancing := b4,
               cache := { registryDur := rd, registryTTL := rt, nodeDur := nd, nodeTTL := nt, valueDur := vd,
                          valueTTL := vt, storeInfoDur := sd, storeInfoTTL := st },
               mapKeyIndexSpec := mk, celExpression := cel, isPrimitiveKey := prim, relations := rels,
               schema := schema, keyFields := kf.getD [], valueFields := vf.getD [], customData := cd, version := ver }
      | _, _, _, _, _, _, _, _, _ => none
    | _, _, _, _, _, _, _, _, _, _, _, _ => none
  | _ => none

/-- name slot uniq desc reg blob root count ts, then the 21 option words -/
def storeInfoOf (ws : List String) : Option StoreInfo :=
  match ws with
  | name :: slot :: uniq :: desc :: reg :: blob :: root :: count :: ts :: rest =>
    match strOfHex name, slot.toInt?, boolOf uniq, strOfHex desc, strOfHex reg, strOfHex blob, strOfHex root,
          count.toInt?, ts.toInt?, optionsOf rest with
    | some name, some slot, some uniq, some desc, some reg, some blob, some root, some count, some ts, some o =>
      some { name := name, slotLength := slot, isUnique := uniq, description := desc, registryTable := reg,
             blobTable := blob, rootNodeId := root, count := count, timestamp := ts, tail := encodeTail o }
    | _, _, _, _, _, _, _, _, _, _ => none
  | _ => none

structure St where
  cfg : Option StoreInfo := none
  file : List Char := []
  /-- history cases (`hist`): files + shared cache + ghost, and the store names in the order they were added -/
  hist : Sop.SIHist.H := ⟨fun _ => {}, fun _ => 0⟩
  names : List String := []
  /-- configuration cases (`cfg`): `Sop.Model.StoreInfoGet` -/
  g : Sop.SIGet.St := []

/-! ### history cases: `Sop.Model.StoreInfoHistory` over the `Update` model `Sop.Model.StoreInfoCache` -/
section Hist
open Sop.SICache Sop.SIHist

def showRec : Option Rec → String
  | none => "none"
  | some r => s!"{r.count},{r.ts},{r.info}"

/-- every store's file and cache entry -/
def showState (names : List String) (s : Sop.SICache.St) : String :=
  " ".intercalate (names.map fun n => s!"{n}={showRec (s n).disk}/{showRec (s n).cache}")

def showDisk (names : List String) (s : Sop.SICache.St) : String :=
  " ".intercalate (names.map fun n => s!"{n}={showRec (s n).disk}")

/-- flags: `s` NeedsMetaDataSave; `u` the file is unreadable and unwritable during the call (a directory in its place);
`r` the file is readable but not writable; `e` the cache entry is evicted right before the forward pass reads it;
`v` … right before the undo pass reads it -/
def updOf (w : String) : Option Upd :=
  match w.splitOn ":" with
  | [n, d, t, i, fl] =>
    match d.toInt?, t.toNat?, i.toNat? with
    | some d, some t, some i =>
      let has (c : Char) := fl.toList.contains c
      let fwd : Flt :=
        if has 'u' then { evict := has 'e', getErr := true, fastRead := true, fastWrite := .before, fullWrite := .before }
        else if has 'r' then { evict := has 'e', fastWrite := .before, fullWrite := .before }
        else { evict := has 'e' }
      some { name := n, delta := d, ts := t, info := i, needsSave := has 's', fwd := fwd, und := { evict := has 'v' } }
    | _, _, _ => none
  | _ => none

def showRes : Res → String
  | .ok => "ok" | .okNil => "oknil" | .err => "err"

/-- `SICache.St` is a function; every `set` wraps it in one more closure. Rebuild it from the evaluated cells of the
known stores after every line, so that a lookup never walks the history of the case (same function on every name). -/
def norm (names : List String) (h : H) : H :=
  let cells := names.map fun n => (n, h.s n)
  let comm := names.map fun n => (n, h.committed n)
  ⟨fun m => (cells.lookup m).getD {}, fun m => (comm.lookup m).getD 0⟩

def histStep0 (st : St) (ws : List String) : Option (St × String) :=
  match ws with
  | ["hadd", n, c, t, i] =>
    match c.toInt?, t.toNat?, i.toNat? with
    | some c, some t, some i =>
      some ({ st with hist := { st.hist with s := st.hist.s.add n ⟨c, t, i⟩ }, names := st.names ++ [n] }, "ok")
    | _, _, _ => none
  | "hupd" :: specs =>
    match allSome (specs.map updOf) with
    | some l =>
      let r := st.hist.step update (.commit l)
      some ({ st with hist := r.1 }, s!"{(r.2.map showRes).getD "-"} {showDisk st.names r.1.s}")
    | none => none
  -- the in-memory L2 cache evicts entries on its own (tiny shards): the harness reports which entries are present
  -- (one bit per store, in the order the stores were added); the model evicts the others. An entry the model does
  -- not have cannot be present.
  | ["hsync", bits] =>
    let pairs := st.names.zip bits.toList
    let unexpected := pairs.filter fun (n, b) => b == '1' && (st.hist.s n).cache.isNone
    let h' := pairs.foldl (fun (h : H) (n, b) => if b == '0' then (h.step update (.evict n)).1 else h) st.hist
    some ({ st with hist := h' },
      if unexpected.isEmpty then "ok" else "unexpected-entry:" ++ ",".intercalate (unexpected.map (·.1)))
  | ["hcache"] => some (st, " ".intercalate (st.names.map fun n => s!"{n}={showRec (st.hist.s n).cache}"))
  | ["hget", n] =>
    let v := (st.hist.s.read n).2
    some ({ st with hist := (st.hist.step update (.read n)).1 }, showRec v)
  | ["hevict", n] => some ({ st with hist := (st.hist.step update (.evict n)).1 }, "ok")
  | ["hcold"] => some (st, showDisk st.names st.hist.s)
  | _ => none

def histStep (st : St) (ws : List String) : Option (St × String) :=
  match histStep0 st ws with
  | some (st', out) => some ({ st' with hist := norm st'.names st'.hist }, out)
  | none => none
end Hist

def showFile (o : Option (List Char)) : String :=
  match o with
  | some f => hexOfChars f
  | none => "err"

/-! ### configuration cases: multi-name `Get`, commits, process restarts (`Sop.Model.StoreInfoGet`) -/
section Cfg
open Sop.SIGet

def sortNat (l : List Nat) : List Nat :=
  l.foldl (fun acc x => (acc.filter (· < x)) ++ [x] ++ (acc.filter (· > x))) []

def showKeys (l : List Nat) : String := if l.isEmpty then "0" else "+".intercalate ((sortNat l).map toString)

def showCfg (c : Cfg) : String :=
  s!"{c.base}:{c.cel}:{c.rel}:{c.kf}:{c.vf}:{c.ver}:{showKeys c.schema}:{showKeys c.cd}"

def keysOf (w : String) : List Nat := if w == "0" then [] else (w.splitOn "+").filterMap String.toNat?

def cfgOf (ws : List String) : Option Cfg :=
  match ws with
  | [b, cel, rel, kf, vf, ver, sch, cd] =>
    match b.toNat?, cel.toNat?, rel.toNat?, kf.toNat?, vf.toNat?, ver.toNat? with
    | some b, some cel, some rel, some kf, some vf, some ver =>
      some { base := b, cel := cel, rel := rel, kf := kf, vf := vf, ver := ver, schema := keysOf sch, cd := keysOf cd }
    | _, _, _, _, _, _ => none
  | _ => none

/-- printed in name order: which entries hit the cache (and so come first in the real result) is the cache's business -/
def sortPairs (l : List (String × Cfg)) : List (String × Cfg) :=
  l.foldl (fun acc x => (acc.filter (fun y => y.1 < x.1 || y.1 == x.1)) ++ [x] ++ (acc.filter (fun y => x.1 < y.1))) []

def showPairs (l : List (String × Cfg)) : String :=
  if l.isEmpty then "-" else " ".intercalate ((sortPairs l).map fun p => s!"{p.1}={showCfg p.2}")

def showOpt : Option Cfg → String
  | none => "none"
  | some c => showCfg c

def cfgStep (st : St) (ws : List String) : Option (St × String) :=
  match ws with
  | "gadd" :: n :: rest =>
    match cfgOf rest with
    | some c => some ({ st with g := st.g.add n c, names := st.names ++ [n] }, "ok")
    | none => none
  | "gget" :: names =>
    let r := getWith false st.g names
    some ({ st with g := r.1 }, showPairs r.2)
  | ["gcommit", n, full] =>
    let g' := commitWith false st.g n (full == "1")
    some ({ st with g := g' }, showOpt (g'.cell n).disk)
  -- the in-memory L2 cache evicts on its own: the harness reports which entries are present (see `hsync`)
  | ["gsync", bits] =>
    let pairs := st.names.zip bits.toList
    let unexpected := pairs.filter fun (n, b) => b == '1' && (st.g.cell n).cache.isNone
    let g' := pairs.foldl (fun (g : Sop.SIGet.St) (n, b) => if b == '0' then g.evict n else g) st.g
    some ({ st with g := g' }, if unexpected.isEmpty then "ok" else "unexpected-entry:" ++ ",".intercalate (unexpected.map (·.1)))
  | ["gevict", n] => some ({ st with g := st.g.evict n }, "ok")
  | ["gnewproc"] => some ({ st with g := st.g.coldStart st.names }, "ok")
  | ["gdisk"] => some (st, " ".intercalate (st.names.map fun n => s!"{n}={showOpt (st.g.cell n).disk}"))
  | _ => none
end Cfg

def step (st : St) (ws : List String) : St × String :=
  match cfgStep st ws with
  | some r => r
  | none =>
  match histStep st ws with
  | some r => r
  | none =>
  match ws with
  | "enc" :: rest =>
    match storeInfoOf rest with
    | some si => (st, hexOfChars (encodeSI si))
    | none => (st, "bad-op")
  | ["patch", d, f, v] =>
    match strOfHex d, strOfHex f, v.toInt? with
    | some d, some f, some v => (st, showFile (patch d f v))
    | _, _, _ => (st, "bad-op")
  | ["esc", s] =>
    match strOfHex s with
    | some s => (st, hexOfChars (quoted s))
    | none => (st, "bad-op")
  -- end-to-end: the case header carries the record
  | ["add"] =>
    match st.cfg with
    | some cfg => let f := encodeSI cfg; ({ st with file := f }, hexOfChars f)
    | none => (st, "bad-op")
  | ["upd", c, ts] =>          -- fast path, else fallback
    match st.cfg, c.toInt?, ts.toInt? with
    | some cfg, some c, some ts =>
      let f := updateFile patch cfg st.file c ts
      ({ st with file := f }, hexOfChars f)
    | _, _, _ => (st, "bad-op")
  | ["updfull", c, ts] =>      -- NeedsMetaDataSave: straight to the re-marshal
    match st.cfg, c.toInt?, ts.toInt? with
    | some cfg, some c, some ts =>
      let f := encodeSI { cfg with count := c, timestamp := ts }
      ({ st with file := f }, hexOfChars f)
    | _, _, _ => (st, "bad-op")
  | ["get"] =>                 -- reopen: what does the file read back as (re-encoded)
    match parseSI st.file with
    | some si => (st, hexOfChars (encodeSI si))
    | none => (st, "err")
  | _ => (st, "bad-op")

def reset (hdr : List String) : St :=
  match hdr with
  | "e2e" :: rest => { cfg := storeInfoOf rest }
  | _ => {}

def run : IO Unit := runLoop reset step
end Sop.Driver.C13

def main : IO Unit := Sop.Driver.C13.run
