import Sop.Model.Lifecycle
import Sop.Driver.Util
/-! Line-protocol driver for C14. Case header: `<mode> <init>`; op lines are the call names; `observe` is the
end-of-case look from a separate later transaction. -/
namespace Sop.Driver.C14
open Sop.Driver Sop.Lifecycle

def modeOf : String → Mode
  | "write" => .forWriting
  | "read" => .forReading
  | _ => .noCheck

def initOf : String → Init
  | "empty" => .empty
  | "one" => .one
  | _ => .absent

def reset : List String → FSt
  | [m, i] => initF (modeOf m) (initOf i)
  | _ => initF .noCheck .absent

def opOf : String → Option Op
  | "begin" => some .begin
  | "phase1" => some .phase1
  | "phase2" => some .phase2
  | "commit" => some .commit
  | "rollback" => some .rollback
  | "close" => some .close
  | "newbtree" => some .newBtree
  | "openbtree" => some .openBtree
  | "add" => some (.store .add)
  | "find" => some (.store .find)
  | "update" => some (.store .update)
  | "remove" => some (.store .remove)
  | "get" => some (.store .get)
  | _ => none

def showErr : Err → String
  | .notBegun => "notbegun" | .ongoing => "ongoing" | .done => "done" | .committed => "committed"
  | .readOnly => "readonly" | .noStore => "nostore" | .noPhase1 => "nophase1" | .rollbackFailed => "rollbackfailed"
  | .other => "other"

def showRes : Res → String
  | .ok => "ok"
  | .okB true => "ok true"
  | .okB false => "ok false"
  | .noHandle => "nohandle"
  | .err e => "err:" ++ showErr e
  | .panic => "panic"

def showW : W → String
  | .srAdd => "sr.add" | .srUpd => "sr.upd" | .srRem => "sr.rem" | .regAdd => "reg.add" | .regUpd => "reg.upd"
  | .regUpdNL => "reg.updnl" | .regRem => "reg.rem" | .blobAdd => "blob.add" | .blobUpd => "blob.upd" | .blobRem => "blob.rem"

def showWs (w : List W) : String := if w.isEmpty then "-" else ",".intercalate (w.map showW)

def showSeen (s : FSt) : String :=
  if s.st.dirty then "skipped"
  else if s.blur then "*"
  else match seen s.st with
    | .absent => "absent"
    | .present c => s!"exists count={c}"

/-- `op` or `op!<plan>`: the plan (which backend call was failed) is for the replay file; the model reads the
failure pattern from the second word -/
def opName (tok : String) : String := (tok.splitOn "!").headD ""

def fxOf (w : String) : Fx :=
  let cs := w.splitOn ","
  { work := cs.contains "work", work2 := cs.contains "work2", undo := cs.contains "undo", quiet := cs.contains "quiet" }

def showOut (s' : FSt) (r : Res) (w : Option (List W)) : String :=
  let ws := match w with | none => "*" | some l => showWs l
  s!"{showRes r} pd={s'.st.pd} c={b01 s'.st.committed} dirty={b01 s'.st.dirty} w={ws}"

def step' (s : FSt) (ws : List String) : FSt × String :=
  match ws with
  | ["observe"] => (s, showSeen s)
  | [o] =>
    match opOf (opName o) with
    | none => (s, "bad-op")
    | some op =>
      let (s', r, w) := stepF s op Fx.none
      (s', showOut s' r w)
  | [o, f] =>
    match opOf (opName o) with
    | none => (s, "bad-op")
    | some op =>
      let (s', r, w) := stepF s op (fxOf f)
      (s', showOut s' r w)
  | _ => (s, "bad-op")

def run : IO Unit := runLoop reset step'
end Sop.Driver.C14

def main : IO Unit := Sop.Driver.C14.run
