import Sop.Model.Lifecycle
import Sop.Driver.Util
/-! Line-protocol driver for C14. Case header: `<mode> <init>`; op lines are the call names; `observe` is the
end-of-case look from a separate later transaction. -/
namespace Sop.Driver.C14
open Sop.Driver Sop.Lifecycle

def modeOf : String → Mode
  | "write" => .forWriting
  | "read" => .forReading
  | _ => .noCheck

def initOf : String → Init
  | "empty" => .empty
  | "one" => .one
  | _ => .absent

def reset : List String → St
  | [m, i] => init (modeOf m) (initOf i)
  | _ => init .noCheck .absent

def opOf : String → Option Op
  | "begin" => some .begin
  | "phase1" => some .phase1
  | "phase2" => some .phase2
  | "commit" => some .commit
  | "rollback" => some .rollback
  | "close" => some .close
  | "newbtree" => some .newBtree
  | "openbtree" => some .openBtree
  | "add" => some (.store .add)
  | "find" => some (.store .find)
  | "update" => some (.store .update)
  | "remove" => some (.store .remove)
  | "get" => some (.store .get)
  | _ => none

def showErr : Err → String
  | .notBegun => "notbegun" | .ongoing => "ongoing" | .done => "done" | .committed => "committed"
  | .readOnly => "readonly" | .noStore => "nostore" | .noPhase1 => "nophase1" | .rollbackFailed => "rollbackfailed"
  | .other => "other"

def showRes : Res → String
  | .ok => "ok"
  | .okB true => "ok true"
  | .okB false => "ok false"
  | .noHandle => "nohandle"
  | .err e => "err:" ++ showErr e

def showW : W → String
  | .srAdd => "sr.add" | .srUpd => "sr.upd" | .srRem => "sr.rem" | .regAdd => "reg.add" | .regUpd => "reg.upd"
  | .regUpdNL => "reg.updnl" | .regRem => "reg.rem" | .blobAdd => "blob.add" | .blobUpd => "blob.upd" | .blobRem => "blob.rem"

def showWs (w : List W) : String := if w.isEmpty then "-" else ",".intercalate (w.map showW)

def showSeen (s : St) : String :=
  if s.dirty then "skipped"
  else match seen s with
    | .absent => "absent"
    | .present c => s!"exists count={c}"

def step' (s : St) (ws : List String) : St × String :=
  match ws with
  | ["observe"] => (s, showSeen s)
  | [o] =>
    match opOf o with
    | none => (s, "bad-op")
    | some op =>
      let (s', r, w) := step s op
      (s', s!"{showRes r} pd={s'.pd} c={b01 s'.committed} dirty={b01 s'.dirty} w={showWs w}")
  | _ => (s, "bad-op")

def run : IO Unit := runLoop reset step'
end Sop.Driver.C14

def main : IO Unit := Sop.Driver.C14.run
