import Sop.Model.Retry
import Sop.Gen.FactsC15
import Sop.Driver.Util
/-! Line protocol of C15 (Model R).

`case <n> loop <maxTime> <deadline|-> <start> <hasKeys01>` — state := `init`; the answer to every event line
is the state summary `next=<pc> iter=<n> held=<0|1|-> clock=<c>`.
Events: `lock <dt> granted|refused|error`, `islocked <dt> 0|1`, `refetch <dt> <hasKeys01>`, `duallock <dt> 0|1`,
`sector <dt> <busy01> <rec01>`, `body <dt> ok|conflict`, `handle <dt> 0|1`, `fail <dt>`.
`start` alone prints the summary of the initial state. `final` prints `exit=<reason> iter=<n> retry=<n>`.

Item lock records (Model R-items): the header may carry three more fields `<trk> <cache0> <w0>`: the tracker in its
iteration order (`<item><g|a|u|r>,…` or `-`; LockID of item i = own i), the other transactions' records present
before the commit (`<item><g|u|r>,…`, LockID = foreign 100+i) and the window of the first `lock` call
(`-`, or `p<item><act>` / `d<item>` / `!` (the verifying read fails) joined by `;`). Every loop answer then ends
with ` items=<i>:<rec>/<trk>,…` — rec: `-` none, `c<act>` under the tracker's current LockID, `s<act>` under another
LockID of the transaction, `f<act>` foreign; trk: `<act><owner01>` or `x`. More events: `refetch <dt> <hk> <w>`,
a trailing ` ~` on a loop event → `items=~` (not observable), `env p<item><act>|d<item>` → `items=…`, `refetchfail <dt> <items|->`, `tail ok|early|late` → `items=…`.

`case <n> table` — lock-table cases: `lockall <now> <ttl> <owner> k1,k2,…` → `1|0 <mask>` (mask: per key, held by
the owner now); `unlock <now> <owner> k1,…` → `<mask>`; `islocked <now> <owner> k1,…` → `1|0 <mask>`.
`case <n> bound` — `bound <maxTime> <deadline|->` → the model's bound on the start of the last iteration and the
cap of one inner wait, in ms.
-/
namespace Sop.Driver.C15
open Sop.Driver Sop.Retry

inductive S
  | loop (c : Cfg) (s : RSt) (items : List Nat)
  | table (t : Table)
  | none

def cfgOf (maxTime : Nat) (deadline : Option Nat) : Cfg :=
  ⟨maxTime, deadline, Sop.FactsC15.phase1MaxRetry, Sop.FactsC15.lockSectorRetryTimeoutMs⟩

def showExit : Exit → String
  | .success => "success" | .timeout => "timeout" | .retryCap => "retrycap" | .error => "error" | .protocol => "protocol"

def showPc : Pc → String
  | .wantLock => "lock" | .wantIsLocked => "islocked" | .wantRefetch => "refetch" | .wantDualLock => "duallock"
  | .inBody none => "body" | .inBody (some _) => "wait" | .wantHandle _ => "handle"
  | .done e => "exit:" ++ showExit e

/-- `held` is observable on the real run only at the entry of the next decorated call: not after a refetch
(nothing is observed before the DualLock) and not when the next thing is a derived event (body end, refetch). -/
def summary (s : St) (showHeld : Bool) : String :=
  let obs := match s.pc with | .inBody none => false | .wantRefetch => false | .done .success => false | _ => true
  let h := if showHeld && obs then b01 s.held else "-"
  s!"next={showPc s.pc} iter={s.iter} held={h} clock={s.clock}"

def optNat (s : String) : Option (Option Nat) :=
  if s == "-" then some none else (s.toNat?).map some


def actOf : Char → Option Act
  | 'g' => some .get | 'a' => some .add | 'u' => some .update | 'r' => some .remove | _ => none

def actCh : Act → String
  | .get => "g" | .add => "a" | .update => "u" | .remove => "r"

/-- `<digits><letter>` -/
def itemAct (tok : String) : Option (Nat × Act) :=
  match tok.toList.reverse with
  | ch :: ds => do let a ← actOf ch; let n ← (String.ofList ds.reverse).toNat?; pure (n, a)
  | [] => none

def listOf (s : String) (sep : String) : List String := if s == "-" then [] else s.splitOn sep

def trkOf (s : String) : Option (List Trk) :=
  (listOf s ",").mapM fun tok => (itemAct tok).map fun (i, a) => ⟨i, ⟨true, i⟩, a, false⟩

def cacheOf (s : String) : Option RCache :=
  ((listOf s ",").mapM itemAct).map fun l =>
    l.foldl (fun (c : RCache) (ia : Nat × Act) => c.put ia.1 (⟨false, 100 + ia.1⟩, ia.2)) (fun _ => none)

def envOpOf (tok : String) : Option EnvOp :=
  match tok.toList with
  | 'p' :: rest => (itemAct (String.ofList rest)).map fun (i, a) => .put i (100 + i) a
  | 'd' :: rest => (String.ofList rest).toNat?.map .del
  | _ => none

def windowOf (s : String) : Option Window :=
  let toks := listOf s ";"
  ((toks.filter (· != "!")).mapM envOpOf).map fun ops => ⟨ops, toks.contains "!"⟩

def insertNat (k : Nat) : List Nat → List Nat
  | [] => [k]
  | x :: xs => if k ≤ x then k :: x :: xs else x :: insertNat k xs

def showItems (i : ISt) (items : List Nat) : String :=
  if items.isEmpty then "items=-" else
  "items=" ++ ",".intercalate (items.map fun j =>
    let t? := i.trk.find? (fun t => t.item == j)
    let r := match i.cache j with
      | none => "-"
      | some (l, a) =>
        if l.own then (match t? with | some t => if t.lid = l then "c" else "s" | none => "s") ++ actCh a
        else "f" ++ actCh a
    let t := match t? with | some t => actCh t.act ++ b01 t.owner | none => "x"
    s!"{j}:{r}/{t}")

def reset (hdr : List String) : S :=
  match hdr with
  | ["loop", mt, dl, st, hk] =>
    match mt.toNat?, optNat dl, st.toNat?, boolOf hk with
    | some mt, some dl, some st, some hk =>
      let c := cfgOf mt dl; .loop c (initR c st hk [] (fun _ => none) 1000 .none) []
    | _, _, _, _ => .none
  | ["loop", mt, dl, st, hk, trk, c0, w0] =>
    match mt.toNat?, optNat dl, st.toNat?, boolOf hk, trkOf trk, cacheOf c0, windowOf w0 with
    | some mt, some dl, some st, some hk, some trk, some c0, some w0 =>
      let c := cfgOf mt dl
      .loop c (initR c st hk trk c0 1000 w0) ((trk.map (·.item)).foldr insertNat [])
    | _, _, _, _, _, _, _ => .none
  | ["table"] => .table []
  | _ => .none

def parseEv (ws : List String) : Option Ev :=
  match ws with
  | ["lock", dt, r] =>
    match dt.toNat?, r with
    | some dt, "granted" => some (.lock dt .granted)
    | some dt, "refused" => some (.lock dt .refused)
    | some dt, "error" => some (.lock dt .error)
    | _, _ => none
  | ["islocked", dt, b] => do let dt ← dt.toNat?; let b ← boolOf b; pure (.isLocked dt b)
  | ["refetch", dt, b] => do let dt ← dt.toNat?; let b ← boolOf b; pure (.refetch dt b)
  | ["duallock", dt, b] => do let dt ← dt.toNat?; let b ← boolOf b; pure (.dualLock dt b)
  | ["sector", dt, b, r] => do let dt ← dt.toNat?; let b ← boolOf b; let r ← boolOf r; pure (.sector dt b r)
  | ["body", dt, "ok"] => do let dt ← dt.toNat?; pure (.body dt .ok)
  | ["body", dt, "conflict"] => do let dt ← dt.toNat?; pure (.body dt .conflict)
  | ["handle", dt, b] => do let dt ← dt.toNat?; let b ← boolOf b; pure (.handle dt b)
  | ["fail", dt] => do let dt ← dt.toNat?; pure (.fail dt)
  | _ => none

def keysOf (s : String) : List String := if s == "-" then [] else s.splitOn ","

def mask (t : Table) (now o : Nat) (ks : List String) : String :=
  if ks.isEmpty then "-" else String.ofList (ks.map fun k => if t.heldBy now k o then '1' else '0')

def stepLine (st : S) (ws : List String) : S × String :=
  match st, ws with
  | .loop _ s its, ["start"] => (st, summary s.l true ++ " " ++ showItems s.i its)
  | .loop _ s _, ["final"] =>
    let ex := match s.l.pc with | .done e => showExit e | _ => "running"
    (st, s!"exit={ex} iter={s.l.iter} retry={s.l.retry}")
  | .loop c s its, ["env", op] =>
    match envOpOf op with
    | some op => let s' := stepR keepAll c s (.env op); (.loop c s' its, showItems s'.i its)
    | none => (st, "bad-op")
  | .loop c s its, ["refetchfail", dt, rs] =>
    match dt.toNat?, (listOf rs ",").mapM String.toNat? with
    | some dt, some rs =>
      let s' := stepR keepAll c s (.refetchFail dt rs)
      (.loop c s' its, summary s'.l true ++ " " ++ showItems s'.i its)
    | _, _ => (st, "bad-op")
  | .loop c s its, ["tail", r] =>
    let r? : Option TailR := match r with | "ok" => some .ok | "early" => some .failEarly | "late" => some .failLate | _ => none
    match r? with
    | some r => let s' := stepR keepAll c s (.tail r); (.loop c s' its, showItems s'.i its)
    | none => (st, "bad-op")
  | .loop c s its, _ =>
    -- a trailing `~`: the records are not observable on the real run after this decision
    let (ws, hide) := if ws.getLast? == some "~" then (ws.dropLast, true) else (ws, false)
    let (ws', w?) := match ws with
      | ["refetch", dt, hk, w] => (["refetch", dt, hk], windowOf w)
      | _ => (ws, some Window.none)
    match parseEv ws', w? with
    | some e, some w =>
      let s' := stepR keepAll c s (.ev e w)
      let sh := match e with | .refetch _ _ => false | _ => true
      (.loop c s' its, summary s'.l sh ++ " " ++ (if hide then "items=~" else showItems s'.i its))
    | _, _ => (st, "bad-op")
  | .table t, ["lockall", now, ttl, o, ks] =>
    match now.toNat?, ttl.toNat?, o.toNat? with
    | some now, some ttl, some o =>
      let r := lockAll t now ttl o (keysOf ks)
      (.table r.2, s!"{b01 r.1} {mask r.2 now o (keysOf ks)}")
    | _, _, _ => (st, "bad-op")
  | .table t, ["unlock", now, o, ks] =>
    match now.toNat?, o.toNat? with
    | some now, some o => let t' := unlockAll t o (keysOf ks); (.table t', mask t' now o (keysOf ks))
    | _, _ => (st, "bad-op")
  | .table t, ["islocked", now, o, ks] =>
    match now.toNat?, o.toNat? with
    | some now, some o => (st, s!"{b01 (isLockedAll t now o (keysOf ks))} {mask t now o (keysOf ks)}")
    | _, _ => (st, "bad-op")
  | _, ["bound", mt, dl] =>
    match mt.toNat?, optNat dl with
    | some mt, some dl =>
      let b := match dl with | some d => min mt d | none => mt
      (st, s!"{b} {Sop.FactsC15.lockSectorRetryTimeoutMs} {Sop.FactsC15.phase1MaxRetry}")
    | _, _ => (st, "bad-op")
  | _, _ => (st, "bad-op")

def run : IO Unit := runLoop reset stepLine
end Sop.Driver.C15

def main : IO Unit := Sop.Driver.C15.run
