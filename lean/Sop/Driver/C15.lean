import Sop.Model.Retry
import Sop.Gen.FactsC15
import Sop.Driver.Util
/-! Line protocol of C15 (Model R).

`case <n> loop <maxTime> <deadline|-> <start> <hasKeys01>` — state := `init`; the answer to every event line
is the state summary `next=<pc> iter=<n> held=<0|1|-> clock=<c>`.
Events: `lock <dt> granted|refused|error`, `islocked <dt> 0|1`, `refetch <dt> <hasKeys01>`, `duallock <dt> 0|1`,
`sector <dt> <busy01> <rec01>`, `body <dt> ok|conflict`, `handle <dt> 0|1`, `fail <dt>`.
`start` alone prints the summary of the initial state. `final` prints `exit=<reason> iter=<n> retry=<n>`.

`case <n> table` — lock-table cases: `lockall <now> <ttl> <owner> k1,k2,…` → `1|0 <mask>` (mask: per key, held by
the owner now); `unlock <now> <owner> k1,…` → `<mask>`; `islocked <now> <owner> k1,…` → `1|0 <mask>`.
`case <n> bound` — `bound <maxTime> <deadline|->` → the model's bound on the start of the last iteration and the
cap of one inner wait, in ms.
-/
namespace Sop.Driver.C15
open Sop.Driver Sop.Retry

inductive S
  | loop (c : Cfg) (s : St)
  | table (t : Table)
  | none

def cfgOf (maxTime : Nat) (deadline : Option Nat) : Cfg :=
  ⟨maxTime, deadline, Sop.FactsC15.phase1MaxRetry, Sop.FactsC15.lockSectorRetryTimeoutMs⟩

def showExit : Exit → String
  | .success => "success" | .timeout => "timeout" | .retryCap => "retrycap" | .error => "error" | .protocol => "protocol"

def showPc : Pc → String
  | .wantLock => "lock" | .wantIsLocked => "islocked" | .wantRefetch => "refetch" | .wantDualLock => "duallock"
  | .inBody none => "body" | .inBody (some _) => "wait" | .wantHandle _ => "handle"
  | .done e => "exit:" ++ showExit e

/-- `held` is observable on the real run only at the entry of the next decorated call: not after a refetch
(nothing is observed before the DualLock) and not when the next thing is a derived event (body end, refetch). -/
def summary (s : St) (showHeld : Bool) : String :=
  let obs := match s.pc with | .inBody none => false | .wantRefetch => false | .done .success => false | _ => true
  let h := if showHeld && obs then b01 s.held else "-"
  s!"next={showPc s.pc} iter={s.iter} held={h} clock={s.clock}"

def optNat (s : String) : Option (Option Nat) :=
  if s == "-" then some none else (s.toNat?).map some

def reset (hdr : List String) : S :=
  match hdr with
  | ["loop", mt, dl, st, hk] =>
    match mt.toNat?, optNat dl, st.toNat?, boolOf hk with
    | some mt, some dl, some st, some hk => let c := cfgOf mt dl; .loop c (init c st hk)
    | _, _, _, _ => .none
  | ["table"] => .table []
  | _ => .none

def parseEv (ws : List String) : Option Ev :=
  match ws with
  | ["lock", dt, r] =>
    match dt.toNat?, r with
    | some dt, "granted" => some (.lock dt .granted)
    | some dt, "refused" => some (.lock dt .refused)
    | some dt, "error" => some (.lock dt .error)
    | _, _ => none
  | ["islocked", dt, b] => do let dt ← dt.toNat?; let b ← boolOf b; pure (.isLocked dt b)
  | ["refetch", dt, b] => do let dt ← dt.toNat?; let b ← boolOf b; pure (.refetch dt b)
  | ["duallock", dt, b] => do let dt ← dt.toNat?; let b ← boolOf b; pure (.dualLock dt b)
  | ["sector", dt, b, r] => do let dt ← dt.toNat?; let b ← boolOf b; let r ← boolOf r; pure (.sector dt b r)
  | ["body", dt, "ok"] => do let dt ← dt.toNat?; pure (.body dt .ok)
  | ["body", dt, "conflict"] => do let dt ← dt.toNat?; pure (.body dt .conflict)
  | ["handle", dt, b] => do let dt ← dt.toNat?; let b ← boolOf b; pure (.handle dt b)
  | ["fail", dt] => do let dt ← dt.toNat?; pure (.fail dt)
  | _ => none

def keysOf (s : String) : List String := if s == "-" then [] else s.splitOn ","

def mask (t : Table) (now o : Nat) (ks : List String) : String :=
  if ks.isEmpty then "-" else String.ofList (ks.map fun k => if t.heldBy now k o then '1' else '0')

def stepLine (st : S) (ws : List String) : S × String :=
  match st, ws with
  | .loop c s, ["start"] => (st, summary s true)
  | .loop c s, ["final"] =>
    let ex := match s.pc with | .done e => showExit e | _ => "running"
    (st, s!"exit={ex} iter={s.iter} retry={s.retry}")
  | .loop c s, _ =>
    match parseEv ws with
    | some e =>
      let s' := step c s e
      let sh := match e with | .refetch _ _ => false | _ => true
      (.loop c s', summary s' sh)
    | none => (st, "bad-op")
  | .table t, ["lockall", now, ttl, o, ks] =>
    match now.toNat?, ttl.toNat?, o.toNat? with
    | some now, some ttl, some o =>
      let r := lockAll t now ttl o (keysOf ks)
      (.table r.2, s!"{b01 r.1} {mask r.2 now o (keysOf ks)}")
    | _, _, _ => (st, "bad-op")
  | .table t, ["unlock", now, o, ks] =>
    match now.toNat?, o.toNat? with
    | some now, some o => let t' := unlockAll t o (keysOf ks); (.table t', mask t' now o (keysOf ks))
    | _, _ => (st, "bad-op")
  | .table t, ["islocked", now, o, ks] =>
    match now.toNat?, o.toNat? with
    | some now, some o => (st, s!"{b01 (isLockedAll t now o (keysOf ks))} {mask t now o (keysOf ks)}")
    | _, _ => (st, "bad-op")
  | _, ["bound", mt, dl] =>
    match mt.toNat?, optNat dl with
    | some mt, some dl =>
      let b := match dl with | some d => min mt d | none => mt
      (st, s!"{b} {Sop.FactsC15.lockSectorRetryTimeoutMs} {Sop.FactsC15.phase1MaxRetry}")
    | _, _ => (st, "bad-op")
  | _, _ => (st, "bad-op")

def run : IO Unit := runLoop reset stepLine
end Sop.Driver.C15

def main : IO Unit := Sop.Driver.C15.run
