import Sop.Model.TwoPC
import Sop.Driver.Util
/-! Line protocol for C16.
`case <n> ps=<ids,comma separated or -> <bits of id 0> <bits of id 1> …` — bits are four characters
`begin phase1 phase2 rollback`, `1` = the call succeeds. Ops: `begin`, `commit`, `rollback`; the answer is
the call log and the method's result: `P0.phase1+ P1.phase1- P0.rollback+ … => err P1.phase1 rb=P2`. -/
namespace Sop.Driver.C16
open Sop.Driver Sop.TwoPC

structure St where
  ps : List Nat
  bits : List (List Bool)

def kindIx : Kind → Nat
  | .begin => 0 | .phase1 => 1 | .phase2 => 2 | .rollback => 3

def kindName : Kind → String
  | .begin => "begin" | .phase1 => "phase1" | .phase2 => "phase2" | .rollback => "rollback"

def St.script (st : St) : Script := fun p k => ((st.bits.getD p []).getD (kindIx k) true)

def showCall (c : Call) : String := s!"P{c.who}.{kindName c.kind}{if c.ok then "+" else "-"}"

def showRet : Ret → String
  | .ok => "ok"
  | .err w k rb => s!"err P{w}.{kindName k} rb={match rb with | none => "-" | some q => s!"P{q}"}"

def showOut (log : List Call) (r : String) : String :=
  let l := " ".intercalate (log.map showCall)
  (if l.isEmpty then "-" else l) ++ " => " ++ r

def parsePs (s : String) : List Nat :=
  match s.splitOn "=" with
  | [_, v] => if v == "-" then [] else (v.splitOn ",").filterMap String.toNat?
  | _ => []

def reset (hdr : List String) : St :=
  match hdr with
  | [] => ⟨[], []⟩
  | p :: bits => ⟨parsePs p, bits.map (fun w => w.toList.map (· == '1'))⟩

def step (st : St) (ws : List String) : St × String :=
  match ws with
  | ["begin"] => let r := begin st.script st.ps; (st, showOut r.1 (showRet r.2))
  | ["commit"] => let r := commit st.script st.ps; (st, showOut r.1 (showRet r.2))
  | ["rollback"] => (st, showOut (rollback st.script st.ps).1 (showRet (rollbackRet st.script st.ps)))
  | _ => (st, "bad-op")

def run : IO Unit := runLoop reset step
end Sop.Driver.C16

def main : IO Unit := Sop.Driver.C16.run
