import Sop.Model.TwoPC
import Sop.Driver.Util
/-! Line protocol for C16.
`case <n> ps=<ids,comma separated or -> <bits of id 0> <bits of id 1> …` — bits are four characters
`begin phase1 phase2 rollback`, `1` = the call succeeds. Ops: `begin`, `commit`, `rollback`; the answer is
the call log and the method's result: `P0.phase1+ P1.phase1- P0.rollback+ … => err P1.phase1 rb=P2`.

Faithful-lifecycle cases: `case <n> lc=<W|R|N>:<phaseDone>:<committed 0|1> ps=… <work bits of SOP> <bits of id 1> …`.
SOP's side is then the state machine `Sop.TwoPC.sopCall` (threaded through the ops of the case) and its four bits say
whether the internal work of Begin/Phase1Commit/Phase2Commit/Rollback succeeds when reached; every logged call carries
what SOP's `HasBegun()` answers right after it: `P0.phase2-e` (`b` = begun, `e` = not begun / ended). -/
namespace Sop.Driver.C16
open Sop.Driver Sop.TwoPC

structure St where
  ps : List Nat
  bits : List (List Bool)
  life : Option SopSt := none
  done : Bool := false      -- the wrapper's `committed` flag (set by a Commit that returned nil)

def kindIx : Kind → Nat
  | .begin => 0 | .phase1 => 1 | .phase2 => 2 | .rollback => 3

def kindName : Kind → String
  | .begin => "begin" | .phase1 => "phase1" | .phase2 => "phase2" | .rollback => "rollback"

def St.script (st : St) : Script := fun p k => ((st.bits.getD p []).getD (kindIx k) true)

def showCall (c : Call) : String := s!"P{c.who}.{kindName c.kind}{if c.ok then "+" else "-"}"

def showRet : Ret → String
  | .ok => "ok"
  | .err w k rb => s!"err P{w}.{kindName k} rb={match rb with | none => "-" | some q => s!"P{q}"}"

def showOut (log : List Call) (r : String) : String :=
  let l := " ".intercalate (log.map showCall)
  (if l.isEmpty then "-" else l) ++ " => " ++ r

def parsePs (s : String) : List Nat :=
  match s.splitOn "=" with
  | [_, v] => if v == "-" then [] else (v.splitOn ",").filterMap String.toNat?
  | _ => []

def showCallL (c : CallL) : String :=
  s!"P{c.who}.{kindName c.kind}{if c.ok then "+" else "-"}{if c.hb then "b" else "e"}"

def showOutL (o : OutL) : String :=
  let l := " ".intercalate (o.log.map showCallL)
  (if l.isEmpty then "-" else l) ++ " => " ++ showRet o.ret

def parseLife (s : String) : Option SopSt :=
  match s.splitOn "=" with
  | ["lc", v] =>
    match v.splitOn ":" with
    | [m, pd, c] =>
      let mode := if m == "W" then Mode.forWriting else if m == "R" then Mode.forReading else Mode.noCheck
      some ⟨mode, (pd.toInt?).getD (-1), c == "1"⟩
    | _ => none
  | _ => none

def St.work (st : St) : Work := fun k => ((st.bits.getD 0 []).getD (kindIx k) true)

def parseBits (bits : List String) : List (List Bool) := bits.map (fun w => w.toList.map (· == '1'))

def reset (hdr : List String) : St :=
  match hdr with
  | [] => ⟨[], [], none, false⟩
  | p :: rest =>
    match parseLife p, rest with
    | some σ, q :: bits => ⟨parsePs q, parseBits bits, some σ, false⟩
    | _, _ => ⟨parsePs p, parseBits rest, none, false⟩

def stepL (st : St) (σ : SopSt) (ws : List String) : St × String :=
  let fin (o : OutL) : St × String := ({ st with life := some o.st, done := o.done }, showOutL o)
  match ws with
  | ["begin"] => fin (beginL st.work st.script st.ps σ st.done)
  | ["commit"] => fin (commitL .asIs st.work st.script st.ps σ st.done)
  | ["rollback"] => fin (rollbackOutL .asIs st.work st.script st.ps σ st.done)
  | _ => (st, "bad-op")

def step (st : St) (ws : List String) : St × String :=
  match st.life with
  | some σ => stepL st σ ws
  | none =>
  match ws with
  | ["begin"] => let r := begin st.script st.ps; (st, showOut r.1 (showRet r.2))
  | ["commit"] =>
    -- black-box cases make one Commit per object: the flag is unset when it starts, set when it returns nil
    let r := commit st.script st.ps; ({ st with done := st.done || r.2 == .ok }, showOut r.1 (showRet r.2))
  | ["rollback"] => (st, showOut (rollbackC st.done st.script st.ps).1 (showRet (rollbackRetC st.done st.script st.ps)))
  | _ => (st, "bad-op")

def run : IO Unit := runLoop reset step
end Sop.Driver.C16

def main : IO Unit := Sop.Driver.C16.run
