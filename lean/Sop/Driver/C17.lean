import Sop.Driver.BTreeProto
def main (args : List String) : IO Unit := Sop.Driver.BTreeProto.run "C17" args
