import Sop.Model.ValuePlacementX
import Sop.Driver.Util
/-! Line protocol of C19 (see harness/cmd/c19/main.go).

    case n <label> <placement> slot=<n>
    begin                              -> ok
    add k tok len [ev a:k]             -> 1 | 0      (the `ev` part is what the B-tree handed the tracker)
    upd k tok len [ev u:k]             -> 1 | 0
    ups k tok len [ev a:k | ev u:k]    -> 1 | 0
    rm k [ev r:s]                      -> 1 | 0      (s = key of the item handed to tracker.Remove; s = k since
                                                      /repo a8e6b837, anything else is annotated as a deviation)
    upk k [ev u:k]                     -> 1 | 0      UpdateKey: key-only update, the value is not fetched
    gupk k [ev g:k u:k]                -> 1 | 0      Find + GetCurrentValue + UpdateCurrentKey
    park | resume                      -> ok         the open transaction is put aside while a rival transaction runs
    commit [retry=n] | rollback        -> ok         retry=1: the commit went through one conflict / refetch-and-merge round
    dump                               -> count=<n> k=tok:len … (k=! unreadable)
    disk                               -> k:i=tok:len | k:b=tok:len | k:b=missing | k:n … vblobs=<n>

The B-tree layer's answer (did it find / accept the key, which item did it hand over) is an input: the model's
tree is the ordered-collection specification.  Where that answer contradicts the specification the model says so
in an annotation. -/
namespace Sop.Driver.C19
open Sop.Driver Sop.ValuePlacement

def placementOf (s : String) : Placement :=
  if s == "inNode" then ⟨true, false, false⟩
  else if s == "sep" then ⟨false, false, false⟩
  else if s == "sepCache" then ⟨false, false, true⟩
  else if s == "active" then ⟨false, true, false⟩
  else ⟨false, true, true⟩

def reset (hdr : List String) : XSt :=
  match hdr with
  | _ :: p :: rest => { s := { place := placementOf p, trackRemoves := rest.contains "rmtracked=1" }, hoisted := rest.contains "hoisted=1" }
  | _ => { s := { place := ⟨true, false, false⟩ } }

def showVal (v : Val) : String := s!"{v.tok}:{v.len}"

def showRead (b : Blobs) (it : Item) : String :=
  match it.val with
  | some v => showVal v
  | none => if it.vnf then (match b.get? it.id with | some v => showVal v | none => "!") else "corrupt:0"

def showDisk (b : Blobs) (it : Item) : String :=
  if it.vnf then
    match b.get? it.id with
    | some v => s!"{it.key}:b={showVal v}"
    | none => s!"{it.key}:b=missing"
  else match it.val with
    | some v => s!"{it.key}:i={showVal v}"
    | none => s!"{it.key}:n"

/-- the event words after `ev` -/
def events (ws : List String) : List (String × Int) :=
  (ws.dropWhile (· ≠ "ev")).drop 1 |>.filterMap fun w =>
    match w.splitOn ":" with
    | [a, k] => k.toInt?.map (fun k => (a, k))
    | _ => none

def hasEv (evs : List (String × Int)) (a : String) : Option Int := (evs.find? (·.1 == a)).map (·.2)

def deviates (sig : String) (dev : Bool) (out : String) : String := if dev then out ++ "\t#" ++ sig else out

def stepS (s : St) (ws : List String) : St × String :=
  match ws with
  | ["begin"] => (s.apply .begin, "ok")
  | ["rollback"] => if s.work.isSome then (s.apply .rollback, "ok") else (s, "bad-op")
  | ["dump"] =>
    let items := (sortByKey s.slots).map fun it => s!"{it.key}={showRead s.blobs it}"
    (s, " ".intercalate (s!"count={s.count}" :: items))
  | ["disk"] =>
    let items := (sortByKey s.slots).map (showDisk s.blobs)
    let inl := !s.place.inNode && s.slots.any (fun it => !it.vnf && it.val.isSome)
    (s, deviates "C19/value-inline-in-out-of-node-store" inl (" ".intercalate (items ++ [s!"vblobs={s.blobs.length}"])))
  | op :: k :: rest =>
    match s.work, k.toInt? with
    | some w, some k =>
      let evs := events rest
      let present := hasKey w.slots k
      let val : Option Val := match rest with
        | tok :: len :: _ => match tok.toInt?, len.toNat? with
          | some t, some l => some ⟨t, l⟩
          | _, _ => none
        | _ => none
      if op == "rm" then
        match hasEv evs "r" with
        | some via =>
          -- since /repo a8e6b837 the item handed to `tracker.Remove` is the item removed; the model does not use `via`
          if via != k && !s.legacyRemove then (s.apply (.remove k via), deviates "C19/remove-hands-other-item-to-tracker" true "1")
          else (s.apply (.remove k via), deviates "C19/op-result-deviates-from-map" (!present) "1")
        | none => (s, deviates "C19/remove-false-on-existing-key" present "0")
      else match val with
        | none => (s, "bad-op")
        | some v =>
          if op == "add" then
            match hasEv evs "a" with
            | some _ => (s.apply (.add k v), deviates "C19/op-result-deviates-from-map" present "1")
            | none => (s, deviates "C19/op-result-deviates-from-map" (!present) "0")
          else if op == "upd" then
            match hasEv evs "u" with
            | some _ => (s.apply (.update k v), deviates "C19/op-result-deviates-from-map" (!present) "1")
            | none => (s, deviates "C19/op-result-deviates-from-map" present "0")
          else if op == "ups" then
            match hasEv evs "a", hasEv evs "u" with
            | some _, _ => (s.apply (.add k v), deviates "C19/op-result-deviates-from-map" present "1")
            | none, some _ => (s.apply (.update k v), deviates "C19/op-result-deviates-from-map" (!present) "1")
            | none, none => (s, deviates "C19/op-result-deviates-from-map" true "0")
          else (s, "bad-op")
    | _, _ => (s, "bad-op")
  | _ => (s, "bad-op")

def step (x : XSt) (ws : List String) : XSt × String :=
  match ws with
  | ["commit"] | ["commit", "retry=0"] => if x.s.work.isSome then (x.apply (.base .commit), "ok") else (x, "bad-op")
  | ["commit", "retry=1"] => if x.s.work.isSome then (x.apply .commitAfterConflict, "ok") else (x, "bad-op")
  | ["park"] => if x.s.work.isSome && x.parked.isNone then (x.apply .park, "ok") else (x, "bad-op")
  | ["resume"] => if x.s.work.isNone && x.parked.isSome then (x.apply .resume, "ok") else (x, "bad-op")
  | op :: k :: rest =>
    if op == "upk" || op == "gupk" then
      match x.s.work, k.toInt? with
      | some w, some k =>
        let present := hasKey w.slots k
        match hasEv (events rest) "u" with
        | some _ => (x.apply (.updateKey k (op == "gupk")), deviates "C19/op-result-deviates-from-map" (!present) "1")
        | none => (x, deviates "C19/op-result-deviates-from-map" present "0")
      | _, _ => (x, "bad-op")
    else
      let (s', out) := stepS x.s ws
      ({ x with s := s' }, out)
  | _ =>
    let (s', out) := stepS x.s ws
    ({ x with s := s' }, out)

def run : IO Unit := runLoop reset step
end Sop.Driver.C19

def main : IO Unit := Sop.Driver.C19.run
