import Sop.Model.Cache
import Sop.Model.StoreInfoCache
import Sop.Model.RegistryGet
import Sop.Driver.Util
/-! Line protocol of C20 (see harness/cmd/c20/main.go).

    case n <label> c0                 the item holds content c0; every cache is cold
    read p nocheck|forreading|forwriting   -> <content|!> ok|err
    write p c                              -> ok|err
    abort p c                              -> <content|!> rb      read + update to c + ROLLBACK: the cache footprint
                                                                  of `read p nocheck` (the node is fetched, nothing is
                                                                  committed), the update reaches no cache
    dropmru p | droph p | flushl2          -> ok

    case n si <label>                 store-info cache cases (Sop.Model.StoreInfoCache): no store exists
    add <name> <count> <ts> <info>         -> ok          (StoreRepository.Add: file + cache entry)
    upd <item> …                           -> ok|oknil|err   one StoreRepository.Update call, items in the caller's order
         item = name:delta:ts:info:needsSave:fwd:und ; fwd/und = "-" or letters g(one) e(vict) r(getErr) R(fastRead)
         w/W (fast write fails before/after effect) f/F (full write fails before/after effect) s(etStruct fails)
    get <name>                             -> <count> <ts> <info> | none     cache-first read (Get / GetWithTTL)
    disk <name>                            -> <count> <ts> <info> | none     the file (= what a cold process reads)
    evict <name> | remove <name>           -> ok

    case n rg <label> <nids> <wbAll 0|1>   registry Get cases (Sop.Model.RegistryGet): ids 0..nids-1 added (file + L2, version 0)
    gs p i j …                             -> ok|busy      process p starts Get over the ids
    g p                                    -> hit i v | miss i | disk i | set i v | ret i:v,… | idle    next step of p's Get
    us l|n i j …                           -> ok|busy      updater starts (l = Update, n = UpdateNoLocks)
    u                                      -> wd i v | wl i v | done | idle          next step of the updater
    ev i                                   -> ok           L2 entry evicted
    obs i                                  -> l2 <v|-> disk <v>
    warm i                                 -> <v>          a whole single-id Get by a bystander process (steps of process 99)
-/
namespace Sop.Driver.C20
open Sop.Driver Sop.Cache

def reset (hdr : List String) : St :=
  match hdr with
  | _ :: c0 :: _ => init (c0.toNat?.getD 0)
  | _ => init 0

def modeOf (s : String) : Option Mode :=
  if s == "nocheck" then some .noCheck else if s == "forreading" then some .forReading
  else if s == "forwriting" then some .forWriting else none

def showOut : Out → String
  | .read c ok => s!"{match c with | some c => toString c | none => "!"} {if ok then "ok" else "err"}"
  | .write ok => if ok then "ok" else "err"
  | .done => "ok"

def step (s : St) (ws : List String) : St × String :=
  let go (op : Op) : St × String := let (s', o) := s.apply op; (s', showOut o)
  match ws with
  | ["read", p, m] => match p.toNat?, modeOf m with | some p, some m => go (.read p m) | _, _ => (s, "bad-op")
  | ["write", p, c] => match p.toNat?, c.toNat? with | some p, some c => go (.write p c) | _, _ => (s, "bad-op")
  | ["abort", p, _] =>
    match p.toNat? with
    | some p =>
      match s.apply (.read p .noCheck) with
      | (s', .read c _) => (s', s!"{match c with | some c => toString c | none => "!"} rb")
      | (s', _) => (s', "bad-op")
    | none => (s, "bad-op")
  | ["dropmru", p] => match p.toNat? with | some p => go (.dropMru p) | none => (s, "bad-op")
  | ["droph", p] => match p.toNat? with | some p => go (.dropHandles p) | none => (s, "bad-op")
  | ["flushl2"] => go .flushL2
  | _ => (s, "bad-op")

/-! ### store-info cache cases -/
open Sop.SICache in
def fltOf (w : String) : Flt :=
  let has (c : Char) := w.toList.contains c
  { gone := has 'g', evict := has 'e', getErr := has 'r', fastRead := has 'R',
    fastWrite := if has 'W' then .after else if has 'w' then .before else .ok,
    fullWrite := if has 'F' then .after else if has 'f' then .before else .ok,
    setErr := has 's' }

def intOf (w : String) : Option Int :=
  match w.toList with
  | '-' :: r => (String.ofList r).toNat?.map (fun n => -(Int.ofNat n))
  | '+' :: r => (String.ofList r).toNat?.map Int.ofNat
  | _ => w.toNat?.map Int.ofNat

open Sop.SICache in
def updOf (w : String) : Option Upd :=
  match w.splitOn ":" with
  | [n, d, t, i, ns, f, u] =>
    match intOf d, t.toNat?, i.toNat? with
    | some d, some t, some i => some { name := n, delta := d, ts := t, info := i, needsSave := ns == "1", fwd := fltOf f, und := fltOf u }
    | _, _, _ => none
  | _ => none

open Sop.SICache in
def showRec : Option Rec → String
  | some r => s!"{r.count} {r.ts} {r.info}"
  | none => "none"

open Sop.SICache in
def stepSI (s : SICache.St) (ws : List String) : SICache.St × String :=
  match ws with
  | ["add", n, c, t, i] =>
    match intOf c, t.toNat?, i.toNat? with
    | some c, some t, some i => (s.add n ⟨c, t, i⟩, "ok")
    | _, _, _ => (s, "bad-op")
  | "upd" :: items =>
    match items.mapM updOf with
    | some l =>
      let (s', r) := update s l
      (s', match r with | .ok => "ok" | .okNil => "oknil" | .err => "err")
    | none => (s, "bad-op")
  | ["get", n] => let (s', r) := s.read n; (s', showRec r)
  | ["disk", n] => (s, showRec (s n).disk)
  | ["evict", n] => (s.evict n, "ok")
  | ["remove", n] => (s.remove n, "ok")
  | _ => (s, "bad-op")

/-! ### registry Get cases -/
open Sop.RegGet in
def showRG : RegGet.Out → String
  | .ok => "ok" | .busy => "busy" | .idle => "idle" | .done => "done"
  | .hit i v => s!"hit {i} {v}" | .miss i => s!"miss {i}" | .disk i => s!"disk {i}" | .set i v => s!"set {i} {v}"
  | .ret l => "ret " ++ ",".intercalate (l.map fun (i, v) => s!"{i}:{v}")
  | .wd i v => s!"wd {i} {v}" | .wl i v => s!"wl {i} {v}"

def natsOf (ws : List String) : Option (List Nat) := ws.mapM String.toNat?

/-- run process `g`'s Get to its return (at most `fuel` steps) -/
def finishGet (s : RegGet.St) (g : Nat) : Nat → RegGet.St × String
  | 0 => (s, "stuck")
  | fuel + 1 =>
    match RegGet.step s (.get g) with
    | (s', .ret l) => (s', " ".intercalate (l.map fun (_, v) => toString v))
    | (s', .idle) => (s', "idle")
    | (s', _) => finishGet s' g fuel

def stepRG (s : RegGet.St) (ws : List String) : RegGet.St × String :=
  let go (op : RegGet.Op) : RegGet.St × String := let (s', o) := RegGet.step s op; (s', showRG o)
  match ws with
  | "gs" :: p :: ids => match p.toNat?, natsOf ids with | some p, some ids => go (.getStart p ids) | _, _ => (s, "bad-op")
  | ["g", p] => match p.toNat? with | some p => go (.get p) | none => (s, "bad-op")
  | "us" :: k :: ids => match natsOf ids with | some ids => go (.updStart (k == "l") ids) | none => (s, "bad-op")
  | ["u"] => go .upd
  | ["ev", i] => match i.toNat? with | some i => go (.evict i) | none => (s, "bad-op")
  | ["obs", i] =>
    match i.toNat? with
    | some i => (s, s!"l2 {match s.l2 i with | some v => toString v | none => "-"} disk {s.disk i}")
    | none => (s, "bad-op")
  | ["warm", i] =>
    match i.toNat? with
    | some i =>
      match RegGet.step s (.getStart 99 [i]) with
      | (s', .ok) => finishGet s' 99 8
      | (s', _) => (s', "busy")
    | none => (s, "bad-op")
  | _ => (s, "bad-op")

inductive DSt
  | node (s : St)
  | si (s : SICache.St)
  | rg (s : RegGet.St)

def resetD (hdr : List String) : DSt :=
  match hdr with
  | "si" :: _ => .si (fun _ => {})
  | "rg" :: _ :: n :: w :: _ => .rg (RegGet.init (w == "1") (n.toNat?.getD 0))
  | _ => .node (reset hdr)

def stepD (s : DSt) (ws : List String) : DSt × String :=
  match s with
  | .node s => let (s', o) := step s ws; (.node s', o)
  | .si s => let (s', o) := stepSI s ws; (.si s', o)
  | .rg s => let (s', o) := stepRG s ws; (.rg s', o)

def run : IO Unit := runLoop resetD stepD
end Sop.Driver.C20

def main : IO Unit := Sop.Driver.C20.run
