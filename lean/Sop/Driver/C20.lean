import Sop.Model.Cache
import Sop.Driver.Util
/-! Line protocol of C20 (see harness/cmd/c20/main.go).

    case n <label> c0                 the item holds content c0; every cache is cold
    read p nocheck|forreading|forwriting   -> <content|!> ok|err
    write p c                              -> ok|err
    dropmru p | droph p | flushl2          -> ok
-/
namespace Sop.Driver.C20
open Sop.Driver Sop.Cache

def reset (hdr : List String) : St :=
  match hdr with
  | _ :: c0 :: _ => init (c0.toNat?.getD 0)
  | _ => init 0

def modeOf (s : String) : Option Mode :=
  if s == "nocheck" then some .noCheck else if s == "forreading" then some .forReading
  else if s == "forwriting" then some .forWriting else none

def showOut : Out → String
  | .read c ok => s!"{match c with | some c => toString c | none => "!"} {if ok then "ok" else "err"}"
  | .write ok => if ok then "ok" else "err"
  | .done => "ok"

def step (s : St) (ws : List String) : St × String :=
  let go (op : Op) : St × String := let (s', o) := s.apply op; (s', showOut o)
  match ws with
  | ["read", p, m] => match p.toNat?, modeOf m with | some p, some m => go (.read p m) | _, _ => (s, "bad-op")
  | ["write", p, c] => match p.toNat?, c.toNat? with | some p, some c => go (.write p c) | _, _ => (s, "bad-op")
  | ["dropmru", p] => match p.toNat? with | some p => go (.dropMru p) | none => (s, "bad-op")
  | ["droph", p] => match p.toNat? with | some p => go (.dropHandles p) | none => (s, "bad-op")
  | ["flushl2"] => go .flushL2
  | _ => (s, "bad-op")

def run : IO Unit := runLoop reset step
end Sop.Driver.C20

def main : IO Unit := Sop.Driver.C20.run
