import Sop.Model.RegistryMW
import Sop.Driver.Util
/-!
Line protocol of C21. Case header: `md <hashMod>`. Ops (ids are `high:low` in decimal, a payload is one token):
  add  id payload [id payload …]    registryOnDisk.Add          -> ok | err | err:full
  set  id payload [id payload …]    registryOnDisk.UpdateNoLocks (one payload, one registryMap.set)
  upd  id payload [id payload …]    registryOnDisk.Update (one registryMap.set per handle, stops at the first error)
  rm   id [id …]                    registryOnDisk.Remove (one payload)
  gets id [id …]                    cold Get: `id=payload …` of the ids found, in request order, or `-`
  dump                              `nseg=<n> seg.block.slot=id …` (occupied cells in address order)
Several writers (Sop.RegistryMW; one registry object each, one lock cache, one folder), one line per call a
writer makes on the lock cache or a segment file:
  spawn add|set|upd id payload      a writer starts registryOnDisk.Add / UpdateNoLocks / Update of one handle and runs
  spawn rm id                       up to its first call (Remove for rm)                 -> start [=> result]
  step <i>                          writer i makes its next call and runs up to the one after -> <event> [=> result]
  giveup <i>                        the same, and its lock-retry time has lapsed
events: `lk+ <key>` `lk- <key>` (DualLock granted / refused), `ul <key>`, `rd <seg>.<block>`, `wr <seg>.<block>`,
`mk <seg>` (Open with O_CREATE + Truncate of a segment file found missing);
keys: `S<block>.<slot>` (findAndAdd), `B<seg>.<block>.<slot>` (updateFileBlockRegion; slot 0 = the block),
`I<id>` (Update), `P<seg>` (setupNewFile). result: ok | err | err:full | err:busy (preallocation lock refused).
Started with `--legacy` the driver runs the write probe of the unrepaired tree; with `--perslot` the block
read-modify-write locks the slot instead of the block, with `--trunc` setupNewFile opens with O_TRUNC (the seeded
changes of the mutation trials).
-/
namespace Sop.Driver.C21
open Sop.Driver Sop.RegistryMap

abbrev S := RegistryMW.MCfg × RegistryMW.Sys String

def showKey : RegistryMW.Key → String
  | .slot b s => s!"S{b}.{s}"
  | .blk seg b s => s!"B{seg}.{b}.{s}"
  | .id i => s!"I{i.1}:{i.2}"
  | .prealloc seg => s!"P{seg}"

def showEv : RegistryMW.Ev → String
  | .lk true k => s!"lk+ {showKey k}"
  | .lk false k => s!"lk- {showKey k}"
  | .ul k => s!"ul {showKey k}"
  | .rd seg b => s!"rd {seg}.{b}"
  | .wr seg b => s!"wr {seg}.{b}"
  | .mk seg => s!"mk {seg}"
  | .none => "idle"

def showRes : Option RegistryMW.Res → String
  | none => ""
  | some .ok => " => ok"
  | some .err => " => err"
  | some .full => " => err:full"
  | some .busy => " => err:busy"

def parseKind : String → Option RegistryMW.Kind
  | "add" => some .add
  | "set" => some .set
  | "upd" => some .upd
  | "rm" => some .rm
  | _ => none

def parseId (s : String) : Option Id :=
  match s.splitOn ":" with
  | [a, b] => match a.toNat?, b.toNat? with
    | some a, some b => some (a, b)
    | _, _ => none
  | _ => none

def showId (i : Id) : String := s!"{i.1}:{i.2}"

def parseRecs : List String → Option (List (Rec String))
  | [] => some []
  | i :: p :: rest => do
    let id ← parseId i
    let rs ← parseRecs rest
    pure (⟨id, p⟩ :: rs)
  | _ => none

def parseIds (ws : List String) : Option (List Id) := ws.mapM parseId

def showOut : Out String → String
  | .ok => "ok"
  | .err => "err"
  | .full => "err:full"
  | .got none => "-"
  | .got (some r) => s!"{showId r.id}={r.val}"
  | .gots rs => if rs.isEmpty then "-" else " ".intercalate (rs.map fun r => s!"{showId r.id}={r.val}")

/-- `registryOnDisk.Update`: handle by handle -/
def updSeq (c : Cfg) : St String → List (Rec String) → St String × Out String
  | st, [] => (st, .ok)
  | st, r :: rs =>
    match setMany c st [r] with
    | (st', .ok) => updSeq c st' rs
    | (st', o) => (st', o)

def stepSeq (s : Cfg × St String) (ws : List String) : (Cfg × St String) × String :=
  let (c, st) := s
  match ws with
  | "add" :: rest =>
    match parseRecs rest with
    | some rs => let (st', o) := addMany c st rs; ((c, st'), showOut o)
    | none => (s, "bad-op")
  | "set" :: rest =>
    match parseRecs rest with
    | some rs => let (st', o) := setMany c st rs; ((c, st'), showOut o)
    | none => (s, "bad-op")
  | "upd" :: rest =>
    match parseRecs rest with
    | some rs => let (st', o) := updSeq c st rs; ((c, st'), showOut o)
    | none => (s, "bad-op")
  | "rm" :: rest =>
    match parseIds rest with
    | some ids => let (st', o) := removeMany c st ids; ((c, st'), showOut o)
    | none => (s, "bad-op")
  | "gets" :: rest =>
    match parseIds rest with
    | some ids => (s, showOut (.gots (getMany c st ids)))
    | none => (s, "bad-op")
  | ["dump"] =>
    let cells := (dump c st).map fun (sg, b, sl, r) => s!"{sg}.{b}.{sl}={showId r.id}"
    (s, " ".intercalate (s!"nseg={st.nseg}" :: cells))
  | _ => (s, "bad-op")

def step (s : S) (ws : List String) : S × String :=
  let (mc, sys) := s
  match ws with
  | ["spawn", k, i, p] =>
    match parseKind k, parseId i with
    | some k, some id =>
      let sys' := RegistryMW.spawn mc sys k ⟨id, p⟩
      ((mc, sys'), "start" ++ showRes (RegistryMW.result sys' sys.ws.length))
    | _, _ => (s, "bad-op")
  | ["spawn", "rm", i] =>
    match parseId i with
    | some id =>
      let sys' := RegistryMW.spawn mc sys .rm ⟨id, ""⟩
      ((mc, sys'), "start" ++ showRes (RegistryMW.result sys' sys.ws.length))
    | none => (s, "bad-op")
  | [op, i] =>
    if op == "step" || op == "giveup" then
      match i.toNat? with
      | some i =>
        let (sys', ev) := RegistryMW.step mc (op == "giveup") sys i
        ((mc, sys'), showEv ev ++ showRes (RegistryMW.result sys' i))
      | none => (s, "bad-op")
    else
      let ((_, st'), o) := stepSeq (mc.c, sys.st) ws
      ((mc, { sys with st := st' }), o)
  | _ =>
    let ((_, st'), o) := stepSeq (mc.c, sys.st) ws
    ((mc, { sys with st := st' }), o)

def reset (legacy perSlot trunc : Bool) (hdr : List String) : S :=
  match hdr with
  | ["md", n] => ({ c := { md := (n.toNat?).getD 1, legacy := legacy }, perSlot, trunc }, { st := St.init })
  | _ => ({ c := { md := 1, legacy := legacy }, perSlot, trunc }, { st := St.init })

end Sop.Driver.C21

def main (args : List String) : IO Unit :=
  Sop.Driver.runLoop (Sop.Driver.C21.reset (args.contains "--legacy") (args.contains "--perslot") (args.contains "--trunc")) Sop.Driver.C21.step
