import Sop.Model.RegistryMap
import Sop.Driver.Util
/-!
Line protocol of C21. Case header: `md <hashMod>`. Ops (ids are `high:low` in decimal, a payload is one token):
  add  id payload [id payload …]    registryOnDisk.Add          -> ok | err | err:full
  set  id payload [id payload …]    registryOnDisk.UpdateNoLocks (one payload, one registryMap.set)
  upd  id payload [id payload …]    registryOnDisk.Update (one registryMap.set per handle, stops at the first error)
  rm   id [id …]                    registryOnDisk.Remove (one payload)
  gets id [id …]                    cold Get: `id=payload …` of the ids found, in request order, or `-`
  dump                              `nseg=<n> seg.block.slot=id …` (occupied cells in address order)
Started with `--legacy` the driver runs the write probe of the unrepaired tree.
-/
namespace Sop.Driver.C21
open Sop.Driver Sop.RegistryMap

abbrev S := Cfg × St String

def parseId (s : String) : Option Id :=
  match s.splitOn ":" with
  | [a, b] => match a.toNat?, b.toNat? with
    | some a, some b => some (a, b)
    | _, _ => none
  | _ => none

def showId (i : Id) : String := s!"{i.1}:{i.2}"

def parseRecs : List String → Option (List (Rec String))
  | [] => some []
  | i :: p :: rest => do
    let id ← parseId i
    let rs ← parseRecs rest
    pure (⟨id, p⟩ :: rs)
  | _ => none

def parseIds (ws : List String) : Option (List Id) := ws.mapM parseId

def showOut : Out String → String
  | .ok => "ok"
  | .err => "err"
  | .full => "err:full"
  | .got none => "-"
  | .got (some r) => s!"{showId r.id}={r.val}"
  | .gots rs => if rs.isEmpty then "-" else " ".intercalate (rs.map fun r => s!"{showId r.id}={r.val}")

/-- `registryOnDisk.Update`: handle by handle -/
def updSeq (c : Cfg) : St String → List (Rec String) → St String × Out String
  | st, [] => (st, .ok)
  | st, r :: rs =>
    match setMany c st [r] with
    | (st', .ok) => updSeq c st' rs
    | (st', o) => (st', o)

def step (s : S) (ws : List String) : S × String :=
  let (c, st) := s
  match ws with
  | "add" :: rest =>
    match parseRecs rest with
    | some rs => let (st', o) := addMany c st rs; ((c, st'), showOut o)
    | none => (s, "bad-op")
  | "set" :: rest =>
    match parseRecs rest with
    | some rs => let (st', o) := setMany c st rs; ((c, st'), showOut o)
    | none => (s, "bad-op")
  | "upd" :: rest =>
    match parseRecs rest with
    | some rs => let (st', o) := updSeq c st rs; ((c, st'), showOut o)
    | none => (s, "bad-op")
  | "rm" :: rest =>
    match parseIds rest with
    | some ids => let (st', o) := removeMany c st ids; ((c, st'), showOut o)
    | none => (s, "bad-op")
  | "gets" :: rest =>
    match parseIds rest with
    | some ids => (s, showOut (.gots (getMany c st ids)))
    | none => (s, "bad-op")
  | ["dump"] =>
    let cells := (dump c st).map fun (sg, b, sl, r) => s!"{sg}.{b}.{sl}={showId r.id}"
    (s, " ".intercalate (s!"nseg={st.nseg}" :: cells))
  | _ => (s, "bad-op")

def reset (legacy : Bool) (hdr : List String) : S :=
  match hdr with
  | ["md", n] => ({ md := (n.toNat?).getD 1, legacy := legacy }, St.init)
  | _ => ({ md := 1, legacy := legacy }, St.init)

end Sop.Driver.C21

def main (args : List String) : IO Unit :=
  Sop.Driver.runLoop (Sop.Driver.C21.reset (args.contains "--legacy")) Sop.Driver.C21.step
