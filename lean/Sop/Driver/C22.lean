import Sop.Model.BlockCow
import Sop.Driver.Util
import Sop.Driver.BlockCowIO
namespace Sop.Driver.C22
open Sop.Driver Sop.Driver.BlockCowIO Sop.Handle Sop.BlockCow

structure St where
  disk : Disk := ⟨[], none⟩
  old : Block := []
  new : Block := []
  readers : List Reader := []
  ids : List (List Nat) := []

/-- a writer operation run to completion on `(old, no backup)` gives the image `new` it would put on disk -/
def writerImage (st : St) (r : OpRes × Disk) : St × String :=
  match r.1 with
  | .ok => ({ st with new := r.2.blk }, encBlk r.2.blk)
  | o => (st, showOpRes o)

def showReader (r : Reader) (id : List Nat) : String :=
  match r.pc with
  | .start => "start"
  | .haveBuf => "haveBuf"
  | .restoring => "restoring"
  | .done => "done " ++ (match r.res with
    | some res => showOpRes (lookupRes res id)
    | none => "?")

def step (st : St) (ws : List String) : St × String :=
  match ws with
  | ["init", blk] =>
    match decBlk blk with
    | some b => ({ disk := ⟨b, none⟩, old := b, new := b }, "ok")
    | none => (st, "bad-op")
  | "wset" :: hw =>
    match parseHandle hw with
    | some h => writerImage st (setOp real ⟨st.old, none⟩ h)
    | none => (st, "bad-op")
  | "wadd" :: hw =>
    match parseHandle hw with
    | some h => writerImage st (addOp real ⟨st.old, none⟩ h)
    | none => (st, "bad-op")
  | ["wrm", id] =>
    match bytesOfHex id with
    | some id => writerImage st (rmOp real ⟨st.old, none⟩ id)
    | none => (st, "bad-op")
  | ["crash", "before"] =>
    let d : Disk := ⟨st.old, none⟩
    ({ st with disk := d }, showDisk d)
  | ["crash", "cow", k] =>
    match k.toNat? with
    | some k => let d : Disk := ⟨st.old, some (st.old.take k)⟩; ({ st with disk := d }, showDisk d)
    | none => (st, "bad-op")
  | ["crash", "torn", l] =>
    match l.toNat? with
    | some l => let d : Disk := ⟨torn st.old st.new l, some st.old⟩; ({ st with disk := d }, showDisk d)
    | none => (st, "bad-op")
  | ["crash", "mask", s, bits] =>
    match s.toNat? with
    | some s =>
      let d : Disk := ⟨tornMask st.old st.new s (bits.toList.map (· == '1')), some st.old⟩
      ({ st with disk := d }, showDisk d)
    | none => (st, "bad-op")
  | ["crash", "after"] =>
    let d : Disk := ⟨st.new, none⟩
    ({ st with disk := d }, showDisk d)
  | ["read", rw, id] =>
    match rwOf rw, bytesOfHex id with
    | some rw, some id =>
      let r := getOp real rw st.disk id
      ({ st with disk := r.2 }, showOpRes r.1)
    | _, _ => (st, "bad-op")
  | ["dump"] => (st, showDisk st.disk)
  | ["spawn", rw, id] =>
    match rwOf rw, bytesOfHex id with
    | some rw, some id => ({ st with readers := st.readers ++ [{ rw := rw }], ids := st.ids ++ [id] }, "ok")
    | _, _ => (st, "bad-op")
  | ["step", i] =>
    match i.toNat? with
    | some i =>
      let r := stepAt real st.readers st.disk i
      let st' := { st with readers := r.1, disk := r.2 }
      match st'.readers[i]?, st'.ids[i]? with
      | some rd, some id => (st', showReader rd id)
      | _, _ => (st', "bad-op")
    | none => (st, "bad-op")
  | _ => (st, "bad-op")

def run : IO Unit := runLoop (fun _ => ({} : St)) step
end Sop.Driver.C22

def main : IO Unit := Sop.Driver.C22.run
