import Sop.Model.BlockCow
import Sop.Driver.Util
import Sop.Driver.BlockCowIO
namespace Sop.Driver.C22
open Sop.Driver Sop.Driver.BlockCowIO Sop.Handle Sop.BlockCow

structure St where
  disk : Disk := ⟨[], none⟩
  old : Block := []
  new : Block := []
  readers : List Reader := []
  ids : List (List Nat) := []
  lock : Option Nat := none
  actors : List Actor := []

/-- a writer operation run to completion on `(old, no backup)` gives the image `new` it would put on disk -/
def writerImage (st : St) (r : OpRes × Disk) : St × String :=
  match r.1 with
  | .ok => ({ st with new := r.2.blk }, encBlk r.2.blk)
  | o => (st, showOpRes o)

def showReader (r : Reader) (id : List Nat) : String :=
  match r.pc with
  | .start => "start"
  | .haveBuf => "haveBuf"
  | .restoring => "restoring"
  | .done => "done " ++ (match r.res with
    | some res => showOpRes (lookupRes res id)
    | none => "?")

/-! several actors on the block -/

def toSys (st : St) : Sys := ⟨⟨st.disk, st.lock⟩, fun j => st.actors.getD j {}⟩

def ofSys (st : St) (s : Sys) : St :=
  { st with disk := s.sh.disk, lock := s.sh.lock, actors := (List.range st.actors.length).map s.as }

def showLock : Option Nat → String
  | none => "lock=-"
  | some i => s!"lock={i}"

def showPoint (a : Actor) : String :=
  match a.pc with
  | .aRead | .bRead => "rd?"
  | .aHave | .bHave => "rd!"
  | .aRestore | .bRestore | .wPre => "wr?"
  | .wMid => "wr~"
  | .aRestored | .bRestored | .wPost => "wr!"
  | .lockPre => "lk?"
  | .lockNo => "lk-"
  | .lockOk => "lk+"
  | .uPre => "ul?"
  | .uPost => "ul!"
  | .cowNew | .cowFill => "cow"
  | .done => "done " ++ (match a.res with
    | some r => showOpRes r
    | none => "?")

def parseWOp (ws : List String) : Option WOp :=
  match ws with
  | "set" :: hw => (parseHandle hw).map WOp.set
  | "add" :: hw => (parseHandle hw).map WOp.add
  | ["rm", id] => (bytesOfHex id).map WOp.rm
  | ["get", id] => (bytesOfHex id).map WOp.get
  | _ => none

def step (st : St) (ws : List String) : St × String :=
  match ws with
  | "actor" :: _ :: cut :: opw =>
    match cut.toNat?, parseWOp opw with
    | some cut, some op =>
      let a : Actor := { op := op, cut := cut }
      ({ st with actors := st.actors ++ [a] }, showPoint a)
    | _, _ => (st, "bad-op")
  | ["go", i] =>
    match i.toNat? with
    | some i =>
      let st' := ofSys st ((toSys st).go real false i)
      (st', s!"{showPoint (st'.actors.getD i {})} {showDisk st'.disk} {showLock st'.lock}")
    | none => (st, "bad-op")
  | ["kill", i] =>
    match i.toNat? with
    | some i => (ofSys st ((toSys st).ev real false (.kill i)), "ok")
    | none => (st, "bad-op")
  | ["killcow", i, k] =>
    match i.toNat?, k.toNat? with
    | some i, some k =>
      let st' := ofSys st ((toSys st).ev real false (.killCow i k))
      (st', showDisk st'.disk)
    | _, _ => (st, "bad-op")
  | ["expire"] =>
    let st' := ofSys st ((toSys st).ev real false .expire)
    (st', showLock st'.lock)
  | "late" :: "set" :: hw =>
    match parseHandle hw with
    | some h =>
      let r := setOp real st.disk h
      ({ st with disk := r.2 }, showOpRes r.1)
    | none => (st, "bad-op")
  | ["init", blk] =>
    match decBlk blk with
    | some b => ({ disk := ⟨b, none⟩, old := b, new := b }, "ok")
    | none => (st, "bad-op")
  | "wset" :: hw =>
    match parseHandle hw with
    | some h => writerImage st (setOp real ⟨st.old, none⟩ h)
    | none => (st, "bad-op")
  | "wadd" :: hw =>
    match parseHandle hw with
    | some h => writerImage st (addOp real ⟨st.old, none⟩ h)
    | none => (st, "bad-op")
  | ["wrm", id] =>
    match bytesOfHex id with
    | some id => writerImage st (rmOp real ⟨st.old, none⟩ id)
    | none => (st, "bad-op")
  | ["crash", "before"] =>
    let d : Disk := ⟨st.old, none⟩
    ({ st with disk := d }, showDisk d)
  | ["crash", "cow", k] =>
    match k.toNat? with
    | some k => let d : Disk := ⟨st.old, some (st.old.take k)⟩; ({ st with disk := d }, showDisk d)
    | none => (st, "bad-op")
  | ["crash", "torn", l] =>
    match l.toNat? with
    | some l => let d : Disk := ⟨torn st.old st.new l, some st.old⟩; ({ st with disk := d }, showDisk d)
    | none => (st, "bad-op")
  | ["crash", "mask", s, bits] =>
    match s.toNat? with
    | some s =>
      let d : Disk := ⟨tornMask st.old st.new s (bits.toList.map (· == '1')), some st.old⟩
      ({ st with disk := d }, showDisk d)
    | none => (st, "bad-op")
  | ["crash", "after"] =>
    let d : Disk := ⟨st.new, none⟩
    ({ st with disk := d }, showDisk d)
  | ["read", rw, id] =>
    match rwOf rw, bytesOfHex id with
    | some rw, some id =>
      let r := getOp real rw st.disk id
      ({ st with disk := r.2 }, showOpRes r.1)
    | _, _ => (st, "bad-op")
  | ["dump"] => (st, showDisk st.disk)
  | ["spawn", rw, id] =>
    match rwOf rw, bytesOfHex id with
    | some rw, some id => ({ st with readers := st.readers ++ [{ rw := rw }], ids := st.ids ++ [id] }, "ok")
    | _, _ => (st, "bad-op")
  | ["step", i] =>
    match i.toNat? with
    | some i =>
      let r := stepAt real st.readers st.disk i
      let st' := { st with readers := r.1, disk := r.2 }
      match st'.readers[i]?, st'.ids[i]? with
      | some rd, some id => (st', showReader rd id)
      | _, _ => (st', "bad-op")
    | none => (st, "bad-op")
  | _ => (st, "bad-op")

def run : IO Unit := runLoop (fun _ => ({} : St)) step
end Sop.Driver.C22

def main : IO Unit := Sop.Driver.C22.run
