import Sop.Model.BlockCow
import Sop.Driver.Util
import Sop.Driver.BlockCowIO
namespace Sop.Driver.C23
open Sop.Driver Sop.Driver.BlockCowIO Sop.Handle Sop.BlockCow

structure St where
  base : Block := []
  disk : Disk := ⟨[], none⟩
  /-- the image a writer run to completion on `(base, no backup)` puts on disk -/
  new : Block := []

def flipBit (b : Block) (bit : Nat) : Block :=
  b.set (bit / 8) ((b.getD (bit / 8) 0) ^^^ (2 ^ (bit % 8)))

/-- `flip:<bit>` | `burst:<off>:<hex>` | `raw:<enc>` | `same` applied to the base block -/
def applyBlkSpec (base : Block) (spec : String) : Option Block :=
  match spec.splitOn ":" with
  | ["same"] => some base
  | ["flip", i] => i.toNat?.map (flipBit base)
  | ["burst", off, hex] =>
    match off.toNat?, bytesOfHex hex with
    | some off, some bs => some (writeAt base off bs)
    | _, _ => none
  | ["raw", enc] => decBlk enc
  | _ => none

/-- `none` | `empty` | `base` (a full valid copy of the base block) | `pre:<k>` (first k bytes of the base block)
| `raw:<enc>` -/
def applyCowSpec (base : Block) (spec : String) : Option (Option (List Nat)) :=
  match spec.splitOn ":" with
  | ["none"] => some none
  | ["empty"] => some (some [])
  | ["base"] => some (some base)
  | ["pre", k] => k.toNat?.map fun k => some (base.take k)
  | ["raw", enc] => (decBlk enc).map some
  | _ => none

/-- a writer operation run to completion on `(base, no backup)`: the image it writes -/
def writerImage (st : St) (r : OpRes × Disk) : St × String :=
  match r.1 with
  | .ok => ({ st with new := r.2.blk }, encBlk r.2.blk)
  | o => (st, showOpRes o)

def crashTo (st : St) (cp : CrashPoint) : St × String :=
  let d := crashDisk false st.base st.new cp
  ({ st with disk := d }, showDisk d)

def answer (st : St) (r : OpRes × Disk) : St × String := ({ st with disk := r.2 }, showOpRes r.1)

def step (st : St) (ws : List String) : St × String :=
  match ws with
  | ["base", blk] =>
    match decBlk blk with
    | some b => ({ base := b, disk := ⟨b, none⟩, new := b }, "ok")
    | none => (st, "bad-op")
  | ["st", bs, cs] =>
    match applyBlkSpec st.base bs, applyCowSpec st.base cs with
    | some b, some c => let d : Disk := ⟨b, c⟩; ({ st with disk := d }, showDisk d)
    | _, _ => (st, "bad-op")
  | ["get", rw, id] =>
    match rwOf rw, bytesOfHex id with
    | some rw, some id => answer st (getOp real rw st.disk id)
    | _, _ => (st, "bad-op")
  | "set" :: hw =>
    match parseHandle hw with
    | some h => answer st (setOp real st.disk h)
    | none => (st, "bad-op")
  | "add" :: hw =>
    match parseHandle hw with
    | some h => answer st (addOp real st.disk h)
    | none => (st, "bad-op")
  | ["rm", id] =>
    match bytesOfHex id with
    | some id => answer st (rmOp real st.disk id)
    | none => (st, "bad-op")
  | "wadd" :: hw =>
    match parseHandle hw with
    | some h => writerImage st (addOp real ⟨st.base, none⟩ h)
    | none => (st, "bad-op")
  | "wset" :: hw =>
    match parseHandle hw with
    | some h => writerImage st (setOp real ⟨st.base, none⟩ h)
    | none => (st, "bad-op")
  | ["crash", "before"] => crashTo st .before
  | ["crash", "after"] => crashTo st .after
  | ["crash", "cow", k] =>
    match k.toNat? with
    | some k => crashTo st (.cow k)
    | none => (st, "bad-op")
  | ["crash", "torn", l] =>
    match l.toNat? with
    | some l => crashTo st (.torn l)
    | none => (st, "bad-op")
  | ["crash", "mask", s, bits] =>
    match s.toNat? with
    | some s => crashTo st (.mask s (bits.toList.map (· == '1')))
    | none => (st, "bad-op")
  | ["dump"] => (st, showDisk st.disk)
  | ["valid"] => (st, b01 (valid real st.disk.blk))
  | _ => (st, "bad-op")

def run : IO Unit := runLoop (fun _ => ({} : St)) step
end Sop.Driver.C23

def main : IO Unit := Sop.Driver.C23.run
