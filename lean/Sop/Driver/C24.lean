import Sop.Model.Handle
import Sop.Driver.Util
namespace Sop.Driver.C24
open Sop.Driver Sop.Handle

def showHandle (h : Handle) : String :=
  s!"{hexOfBytes h.lid} {hexOfBytes h.idA} {hexOfBytes h.idB} {b01 h.activeB} {h.version} {h.wip} {b01 h.deleted}"

def step (_ : Unit) (ws : List String) : Unit × String :=
  match ws with
  | ["enc", lid, a, b, act, ver, wip, del] =>
    match bytesOfHex lid, bytesOfHex a, bytesOfHex b, boolOf act, ver.toInt?, wip.toInt?, boolOf del with
    | some lid, some a, some b, some act, some ver, some wip, some del =>
      ((), hexOfBytes (encode ⟨lid, a, b, act, ver, wip, del⟩))
    | _, _, _, _, _, _, _ => ((), "bad-op")
  | ["dec", bs] =>
    match bytesOfHex bs with
    | some bs => match decode bs with
      | some h => ((), showHandle h)
      | none => ((), "none")
    | none => ((), "bad-op")
  | ["off", hi, lo, md] =>
    match hi.toNat?, lo.toNat?, md.toNat? with
    | some hi, some lo, some md =>
      if md = 0 then ((), "bad-op") else
      let r := offsets hi lo md
      ((), s!"{r.1} {r.2}")
    | _, _, _ => ((), "bad-op")
  | ["slot", blk, i, rec] =>
    -- write record `rec` at slot i of block `blk`; print the resulting block
    match bytesOfHex blk, i.toNat?, bytesOfHex rec with
    | some blk, some i, some rec => ((), hexOrDash (writeAt blk (i * Facts.handleSizeInBytes) rec))
    | _, _, _ => ((), "bad-op")
  | _ => ((), "bad-op")

def run : IO Unit := runLoop (fun _ => ()) step
end Sop.Driver.C24

def main : IO Unit := Sop.Driver.C24.run
