import Sop.Driver.Ecx
def main : IO Unit := Sop.Driver.Ecx.run
