import Sop.Model.Replication
import Sop.Driver.Util
/-! Line protocol of C27 over `Sop.Replication`. -/
namespace Sop.Driver.C27
open Sop.Driver Sop.Replication

/-- "-" = empty; otherwise comma separated `table|lid|image` -/
def parseHandles (f : String) : Option (List (RKey × String)) :=
  if f == "-" then some [] else
  (f.splitOn ",").mapM fun tok =>
    match tok.splitOn "|" with
    | [t, l, img] => some ((t, l), img)
    | _ => none

def parseKeys (f : String) : Option (List RKey) :=
  if f == "-" then some [] else
  (f.splitOn ",").mapM fun tok =>
    match tok.splitOn "|" with
    | [t, l] => some (t, l)
    | _ => none

def field (pfx : String) (w : String) : Option String :=
  if w.startsWith pfx then some (w.drop pfx.length).toString else none

def parseOp (ws : List String) : Option Op :=
  match ws with
  | ["create", n, slot, u] => do pure (.create n (← slot.toNat?) (← boolOf u))
  | ["commit", n, c, r, a, u, d] => do
    let cnt ← (if c == "-" then some none else (c.toInt?).map some)
    pure (.commit n cnt (← parseHandles (← field "R=" r)) (← parseHandles (← field "A=" a))
      (← parseHandles (← field "U=" u)) (← parseKeys (← field "D=" d)))
  | ["remove", n] => some (.remove n)
  | ["open", v] => do pure (.openv (← v.toNat?))
  | ["break", "drive"] => some (.brk .drive)
  | ["break", "store", n] => some (.brk (.store n))
  | ["heal", "keep"] => some (.heal true)
  | ["heal", "empty"] => some (.heal false)
  | ["rphase", k] => do pure (.rphase (← k.toNat?))
  | ["reinstate"] => some .reinstate
  | ["failover"] => some .failover
  | ["cold"] => some .cold
  | _ => none

def stepLine (s : State) (ws : List String) : State × String :=
  match ws with
  | ["meta"] => (s, showMeta s)
  | ["colddump"] => (s, showCold s)
  | _ => match parseOp ws with
    | some op => step s op
    | none => (s, "bad-op")

def run : IO Unit := runLoop (fun _ => ({} : State)) stepLine
end Sop.Driver.C27

def main : IO Unit := Sop.Driver.C27.run
