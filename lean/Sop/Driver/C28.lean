import Sop.Model.Locks
import Sop.Driver.Util
/-! Line-protocol driver for C28. Case header: `mem <cap> <readCost> <fix01>` or `redis`.
Keys are numbers; in-memory shard of key k = k / 100000. Lists are comma separated, `-` = empty. -/
namespace Sop.Driver.C28
open Sop.Driver Sop.Locks

inductive St where
  | mem (cfg : MemCfg) (s : Mem)
  | redis (s : Redis)

def natList (s : String) : Option (List Nat) :=
  if s == "-" then some [] else (s.splitOn ",").mapM (·.toNat?)

def fillerOwner : Nat := 99

def insertEntry (e : Entry) : List Entry → List Entry
  | [] => [e]
  | x :: xs => if e.key ≤ x.key then e :: x :: xs else x :: insertEntry e xs
def sortEntries (es : List Entry) : List Entry := es.foldr insertEntry []

def showEntries (es : List Entry) : String :=
  let shown := (sortEntries (es.filter (·.owner != fillerOwner))).map (fun e => s!"{e.key}:{e.owner}")
  let fill := (es.filter (·.owner == fillerOwner)).length
  (if shown.isEmpty then "-" else ",".intercalate shown) ++ s!" fill={fill}"

def pairs (os ks : List Nat) (f : Nat → Nat → Bool) : String :=
  let l := os.flatMap (fun o => (ks.filter (f o)).map (fun k => s!"{o}:{k}"))
  if l.isEmpty then "-" else ",".intercalate l

def mkCfg (cap rc : Nat) (fix : Bool) : MemCfg :=
  { cap := cap, shardOf := fun k => k / 100000, protectLive := fix, readCost := rc, defaultTtl := 900000000000 }

def reset (hdr : List String) : St :=
  match hdr with
  | ["mem", cap, rc, fix] => .mem (mkCfg (cap.toNat?.getD 1) (rc.toNat?.getD 0) (fix == "1")) {}
  | _ => .redis {}

def showOut (o : Out) : String := if o.bad then "bad-victim" else s!"{b01 o.ok} {o.owner}"

def memOp (ws : List String) : Option MemOp :=
  match ws with
  | ["adv", d] => do pure (.adv (← d.toNat?))
  | ["lock", o, d, ks, hs] => do pure (.lock (← o.toNat?) (← d.toNat?) (← natList ks) (← natList hs))
  | ["dlock", o, d, ks, hs] => do pure (.dualLock (← o.toNat?) (← d.toNat?) (← natList ks) (← natList hs))
  | ["islocked", o, ks] => do pure (.isLocked (← o.toNat?) (← natList ks))
  | ["ttl", o, d, ks] => do pure (.isLockedTTL (← o.toNat?) (← d.toNat?) (← natList ks))
  | ["unlock", o, ks] => do pure (.unlock (← o.toNat?) (← natList ks))
  | _ => none

def redisOp (ws : List String) : Option RedisOp :=
  match ws with
  | ["adv", d] => do pure (.adv (← d.toNat?))
  | ["lock", o, d, ks] => do pure (.lock (← o.toNat?) (← d.toNat?) (← natList ks))
  | ["dlock", o, d, ks] => do pure (.dualLock (← o.toNat?) (← d.toNat?) (← natList ks))
  | ["islocked", o, ks] => do pure (.isLocked (← o.toNat?) (← natList ks))
  | ["ttl", o, d, ks] => do pure (.isLockedTTL (← o.toNat?) (← d.toNat?) (← natList ks))
  | ["unlock", o, ks] => do pure (.unlock (← o.toNat?) (← natList ks))
  | _ => none

def step (st : St) (ws : List String) : St × String :=
  match st with
  | .mem cfg s =>
    match ws with
    | ["obs", os, ks] =>
      match natList os, natList ks with
      | some os, some ks =>
        (st, s!"E {showEntries s.entries} L {pairs os ks (memHolds s)}")
      | _, _ => (st, "bad-op")
    | _ =>
      match memOp ws with
      | some op => let (s2, o) := memStep cfg s op; (.mem cfg s2, showOut o)
      | none => (st, "bad-op")
  | .redis s =>
    match ws with
    | ["obs", os, ks] =>
      match natList os, natList ks with
      | some os, some ks =>
        let vis := s.entries.filter (fun e => decide (s.now < e.exp))
        (st, s!"E {showEntries vis} L {pairs os ks (redisHolds s)} F {pairs os ks (flagged s)}")
      | _, _ => (st, "bad-op")
    | _ =>
      match redisOp ws with
      | some op => let (s2, o) := redisStep s op; (.redis s2, showOut o)
      | none => (st, "bad-op")

def run : IO Unit := runLoop reset step
end Sop.Driver.C28

def main : IO Unit := Sop.Driver.C28.run
