import Sop.Model.Compare
import Sop.Driver.Util
/-!
Driver for C29. A key is one token:
`i<t>:<int>` `u<t>:<nat>` `f:<bits>` (float32) `d:<bits>` (float64) `s:<hex|->` (string) `g:<hex>` (uuid.UUID)
`q:<hex>` (sop.UUID) `t:<unix sec>:<nsec>:<mono|n>` `b:<hex|->` ([]byte) `S[<hex|->,…]` `I[<int>,…]` `D[<bits>,…]`
`F[<bits>,…]` `A[<key>,…]` ([]any, nested) `N` (nil).
-/
namespace Sop.Driver.C29
open Sop.Driver Sop.Compare

/-- characters up to (not including) the first of `stops` -/
def takeUntil (stops : List Char) : List Char → List Char × List Char
  | [] => ([], [])
  | c :: cs => if stops.contains c then ([], c :: cs) else
    let (a, b) := takeUntil stops cs
    (c :: a, b)

def natOf (cs : List Char) : Option Nat := (String.ofList cs).toNat?
def intOf (cs : List Char) : Option Int := (String.ofList cs).toInt?
def hexOf (cs : List Char) : Option (List Nat) := bytesOfHex (String.ofList cs)

/-- `[x,y,…]` with atoms parsed by `f`; input starts after `[` -/
partial def atomList {α : Type} (f : List Char → Option α) (cs : List Char) (acc : List α) : Option (List α × List Char) :=
  match cs with
  | ']' :: rest => some (acc.reverse, rest)
  | ',' :: rest => atomList f rest acc
  | _ =>
    let (a, rest) := takeUntil [',', ']'] cs
    match f a with
    | some v => atomList f rest (v :: acc)
    | none => none

mutual
partial def parseKey (cs : List Char) : Option (Key × List Char) :=
  match cs with
  | 'N' :: rest => some (.nil, rest)
  | 'i' :: t :: ':' :: rest =>
    let (a, r) := takeUntil [',', ']'] rest
    match natOf [t], intOf a with
    | some t, some v => some (.sint t v, r)
    | _, _ => none
  | 'u' :: t :: ':' :: rest =>
    let (a, r) := takeUntil [',', ']'] rest
    match natOf [t], natOf a with
    | some t, some v => some (.uint t v, r)
    | _, _ => none
  | 'f' :: ':' :: rest =>
    let (a, r) := takeUntil [',', ']'] rest
    (natOf a).map fun v => (.f32 v, r)
  | 'd' :: ':' :: rest =>
    let (a, r) := takeUntil [',', ']'] rest
    (natOf a).map fun v => (.f64 v, r)
  | 's' :: ':' :: rest =>
    let (a, r) := takeUntil [',', ']'] rest
    (hexOf a).map fun v => (.str v, r)
  | 'g' :: ':' :: rest =>
    let (a, r) := takeUntil [',', ']'] rest
    (hexOf a).map fun v => (.guuid v, r)
  | 'q' :: ':' :: rest =>
    let (a, r) := takeUntil [',', ']'] rest
    (hexOf a).map fun v => (.suuid v, r)
  | 'b' :: ':' :: rest =>
    let (a, r) := takeUntil [',', ']'] rest
    (hexOf a).map fun v => (.bytes v, r)
  | 't' :: ':' :: rest =>
    let (a, r) := takeUntil [',', ']'] rest
    match (String.ofList a).splitOn ":" with
    | [s, n, mo] =>
      match s.toInt?, n.toNat? with
      | some s, some n =>
        if mo == "n" then some (.time s n none, r)
        else mo.toInt?.map fun m => (.time s n (some m), r)
      | _, _ => none
    | _ => none
  | 'S' :: '[' :: rest => (atomList hexOf rest []).map fun (l, r) => (.strs l, r)
  | 'I' :: '[' :: rest => (atomList intOf rest []).map fun (l, r) => (.ints l, r)
  | 'D' :: '[' :: rest => (atomList natOf rest []).map fun (l, r) => (.f64s l, r)
  | 'F' :: '[' :: rest => (atomList natOf rest []).map fun (l, r) => (.f32s l, r)
  | 'A' :: '[' :: rest => (parseKeys rest []).map fun (l, r) => (.anys l, r)
  | _ => none
partial def parseKeys (cs : List Char) (acc : List Key) : Option (List Key × List Char) :=
  match cs with
  | ']' :: rest => some (acc.reverse, rest)
  | ',' :: rest => parseKeys rest acc
  | _ =>
    match parseKey cs with
    | some (k, rest) => parseKeys rest (k :: acc)
    | none => none
end

def keyOf (s : String) : Option Key :=
  match parseKey s.toList with
  | some (k, []) => some k
  | _ => none

def step (_ : Unit) (ws : List String) : Unit × String :=
  match ws with
  | ["cmp", a, b] =>
    match keyOf a, keyOf b with
    | some a, some b => ((), s!"{cmp a b} {b01 (compat a b)}")
    | _, _ => ((), "bad-op")
  | ["coe", x, a, b] =>
    match keyOf x, keyOf a, keyOf b with
    | some x, some a, some b =>
      match coerce x a b with
      | some r => ((), s!"{r}")
      | none => ((), "unmodelled")
    | _, _, _ => ((), "bad-op")
  | ["fk", w, a, b] =>
    -- the float key map against the language's `<`: NaN flags and, for two non-NaN values, the order of the keys
    match w.toNat?, a.toNat?, b.toNat? with
    | some w, some a, some b =>
      let (e, m) := if w == 32 then (8, 23) else (11, 52)
      let na := fIsNaN e m a
      let nb := fIsNaN e m b
      let o := if na || nb then "x" else s!"{cmpInt (fKey e m a) (fKey e m b)}"
      ((), s!"{b01 na} {b01 nb} {o}")
    | _, _, _ => ((), "bad-op")
  | _ => ((), "bad-op")

def run : IO Unit := runLoop (fun _ => ()) step
end Sop.Driver.C29

def main : IO Unit := Sop.Driver.C29.run
