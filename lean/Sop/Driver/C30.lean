import Sop.Model.MapKey
import Sop.Driver.Util
/-!
Driver for C30. `case <n> idx a:1;b:0` (field:ascending) or `case <n> def` starts a new comparer instance.
A key is `{a=n:<float64 bits>:<hex of its %v text>;b=s:<hex|->;c=z;d=t;e=f;g=i:<int>}` (z null, t/f bool;
absent fields are simply not listed). `c X Y` compares on the case's instance, `f X Y` on a new one.
-/
namespace Sop.Driver.C30
open Sop.Driver Sop.Compare Sop.MapKey

inductive St where
  | idx (spec : List (String × Bool)) (fs : List Field)
  | dflt (st : Option (List Field))
  | bad

def parseVal (s : String) : Option JVal :=
  match s.splitOn ":" with
  | ["z"] => some .null
  | ["t"] => some (.bool true)
  | ["f"] => some (.bool false)
  | ["n", b, r] => do
    let b ← b.toNat?
    let r ← bytesOfHex r
    pure (.num b r)
  | ["i", v] => v.toInt?.map .int
  | ["s", h] => (bytesOfHex h).map .str
  | _ => none

def parseDoc (s : String) : Option Doc :=
  let cs := s.toList
  if cs.head? != some '{' || cs.getLast? != some '}' then none else
  let inner := String.ofList (cs.drop 1).dropLast
  if inner.isEmpty then some [] else
  (inner.splitOn ";").mapM fun kv =>
    match kv.splitOn "=" with
    | [k, v] => (parseVal v).map fun v => (k, v)
    | _ => none

def parseSpec (s : String) : Option (List (String × Bool)) :=
  (s.splitOn ";").mapM fun fa =>
    match fa.splitOn ":" with
    | [f, a] => (boolOf a).map fun a => (f, a)
    | _ => none

def reset (hdr : List String) : St :=
  match hdr with
  | ["idx", sp] => match parseSpec sp with
    | some sp => .idx sp (fresh sp)
    | none => .bad
  | ["def"] => .dflt none
  | _ => .bad

def specOf (fs : List Field) : List (String × Bool) := fs.map fun f => (f.name, f.asc)

def step (st : St) (ws : List String) : St × String :=
  match ws with
  | [op, x, y] =>
    match parseDoc x, parseDoc y with
    | some x, some y =>
      match st, op with
      | .idx sp fs, "c" =>
        let r := cmpIdx fs x y
        let f := (cmpIdx (fresh sp) x y).1
        -- the only memory of an index comparer is the cached per-field closure
        let note := if r.1 ≠ f then "\t#C30/field-comparer-fixed-by-first-key" else ""
        (.idx sp r.2, s!"{r.1}{note}")
      | .idx sp _, "f" => (st, s!"{(cmpIdx (fresh sp) x y).1}")
      | .dflt d, "c" =>
        let r := cmpDefault d x y
        let f := (cmpDefault none x y).1
        let sameFields := match d with
          | some fs => specOf fs == (sortedKeys x).map fun k => (k, true)
          | none => true
        let note := if r.1 ≠ f then
            (if sameFields then "\t#C30/field-comparer-fixed-by-first-key" else "\t#C30/default-field-list-fixed-by-first-key")
          else ""
        (.dflt r.2, s!"{r.1}{note}")
      | .dflt _, "f" => (st, s!"{(cmpDefault none x y).1}")
      | _, _ => (st, "bad-op")
    | _, _ => (st, "bad-op")
  | _ => (st, "bad-op")

def run : IO Unit := runLoop reset step
end Sop.Driver.C30

def main : IO Unit := Sop.Driver.C30.run
