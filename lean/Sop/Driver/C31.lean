import Sop.Model.Stream
import Sop.Driver.Util
/-! Line-protocol driver for C31 over `Sop.Stream`. Values travel as descriptors (`s<len>:<seed>` a
JSON string of `len` letters, `n<count>:<seed>` a JSON array of small integers); both sides expand
them with the same generator, and byte strings are printed as `length:fnv1a32`. -/
namespace Sop.Driver.C31
open Sop.Driver Sop.Stream

def letters (len seed : Nat) : List Nat :=
  (List.range len).map fun j => 97 + (seed + j + j / 31) % 26

def digits (n : Nat) : List Nat := (toString n).toList.map Char.toNat

def numsBody : Nat → Nat → Nat → List Nat
  | 0, _, _ => []
  | c + 1, j, seed =>
    let v := (seed * 7 + j * 13) % 1000
    (if j = 0 then [] else [44]) ++ digits v ++ numsBody c (j + 1) seed

/-- the bytes `json.Encoder.Encode` hands to `Write` for the described value -/
def chunkOf (d : String) : Option Chunk :=
  match d.toList with
  | kind :: rest =>
    match (String.ofList rest).splitOn ":" with
    | [a, b] =>
      match a.toNat?, b.toNat? with
      | some len, some seed =>
        if kind = 's' then some ([34] ++ letters len seed ++ [34, 10])
        else if kind = 'n' then some ([91] ++ numsBody len 0 seed ++ [93, 10])
        else none
      | _, _ => none
    | _ => none
  | [] => none

def chunksOf (ds : List String) : Option (List Chunk) := ds.mapM chunkOf

def fnv (bs : List Nat) : Nat :=
  bs.foldl (fun h b => ((h ^^^ b) * 16777619) % 4294967296) 2166136261

def hex8 (n : Nat) : String :=
  String.ofList ((List.range 8).reverse.map fun i => hexDigit (n / 16 ^ i % 16))

def dig (bs : List Nat) : String := s!"{bs.length}:{hex8 (fnv bs)}"

/-- split a byte stream after every newline (one JSON value per line) -/
def splitLines (bs : List Nat) : List (List Nat) :=
  let (acc, cur) := bs.foldl (fun (st : List (List Nat) × List Nat) b =>
    if b = 10 then ((b :: st.2).reverse :: st.1, []) else (st.1, b :: st.2)) ([], [])
  (if cur.isEmpty then acc else cur.reverse :: acc).reverse

def showOut : Out → String
  | .ok => "ok" | .err => "err" | .notFound => "notfound"
  | .removed b => s!"removed {b01 b}"

def totalBytes (t : Tree) : Nat := t.items.foldl (fun a e => a + e.2.length) 0

/-- call the model's `Read` with each buffer size until EOF; report every returned count and where the
store (its cursor) is left -/
def readSteps (t : Tree) (r : Reader) : List Nat → List Nat → List (List Nat) → Tree × List Nat × List Nat × Bool
  | [], counts, acc => (t, counts.reverse, acc.reverse.flatten, false)
  | n :: ns, counts, acc =>
    match r.read true t n with
    | (t', _, .eof) => (t', counts.reverse, acc.reverse.flatten, true)
    | (t', r', .data out) => readSteps t' r' ns (out.length :: counts) (out :: acc)

def getOp (t : Tree) (k : Nat) : Tree × String :=
  match opOpen t k with
  | (t0, none) => (t0, "notfound")
  | (t0, some r) =>
    let fuel := totalBytes t0 / 65536 + 2 * t0.items.length + 2
    let (t1, _, bytes, eof) := readSteps t0 r (List.replicate fuel 65536) [] []
    let vals := splitLines bytes
    (t1, s!"n={vals.length} " ++ " ".intercalate (vals.map dig) ++ (if eof then " eof" else " noeof"))

def readOp (t : Tree) (k : Nat) (bufs : List Nat) : Tree × String :=
  match opOpen t k with
  | (t0, none) => (t0, "notfound")
  | (t0, some r) =>
    let (t1, counts, bytes, eof) := readSteps t0 r bufs [] []
    (t1, ",".intercalate (counts.map toString) ++ (if eof then " eof " else " more ") ++ dig bytes)

def dumpOp (t : Tree) : String :=
  if t.items.isEmpty then "empty"
  else " ".intercalate (t.items.map fun e => s!"{e.1.key}:{e.1.idx}:{dig e.2}")

def natList (s : String) : Option (List Nat) := (s.splitOn ",").mapM String.toNat?

/-! ### several open readers / writers on one store (`Sess`) -/

def showKey (k : SKey) : String := s!"{k.key}:{k.idx}"

/-- `Read` calls of reader `j` with each buffer size until EOF; report every returned count -/
def rdSteps (s : Sess) (j : Nat) : List Nat → List Nat → List (List Nat) → Sess × List Nat × List Nat × Bool
  | [], counts, acc => (s, counts.reverse, acc.reverse.flatten, false)
  | n :: ns, counts, acc =>
    match s.rd j n with
    | (s', some (.data out)) => rdSteps s' j ns (out.length :: counts) (out :: acc)
    | (s', _) => (s', counts.reverse, acc.reverse.flatten, true)

def rdOp (s : Sess) (j : Nat) (bufs : List Nat) : Sess × String :=
  match s.readers[j]? with
  | none => (s, "bad-slot")
  | some _ =>
    let (s', counts, bytes, eof) := rdSteps s j bufs [] []
    (s', ",".intercalate (counts.map toString) ++ (if eof then " eof " else " more ") ++ dig bytes)

def decOp (s : Sess) (j : Nat) : Sess × Option (List Nat) := Sess.decode 64 s j 512 []

def kindOf : String → Option EncKind
  | "add" => some .add | "upd" => some .update | "ups" => some .upsert | "addne" => some .addIfNotExist
  | _ => none

def showOB : Option Bool → String
  | some true => "ok" | some false => "err" | none => "bad-slot"

/-- `Find(k,i)` on the underlying B-tree, then (on a hit) up to `n` times `Next`, naming where the cursor goes -/
def nexts : Nat → Tree → List String → Tree × List String
  | 0, t, acc => (t, acc.reverse)
  | n + 1, t, acc =>
    match t.next with
    | (t', true) => nexts n t' (showKey t'.currentKey :: acc)
    | (t', false) => (t', ("end" :: acc).reverse)

def curFind (t : Tree) (k i n : Nat) : Tree × String :=
  match t.find ⟨k, i⟩ with
  | (t', true) => let (t2, ks) := nexts n t' []; (t2, " ".intercalate ("1" :: ks))
  | (t', false) => (t', "0")

def curFirst (t : Tree) (n : Nat) : Tree × String :=
  match t.first with
  | (t', true) => let (t2, ks) := nexts n t' []; (t2, " ".intercalate (showKey t'.currentKey :: ks))
  | (t', false) => (t', "empty")

def onTree (s : Sess) (r : Tree × String) : Sess × String := ({ s with tree := r.1 }, r.2)

def sessStep (s : Sess) (ws : List String) : Option (Sess × String) :=
  match ws with
  | ["open", _, k] => do
    let k ← k.toNat?
    let (s', ok) := s.openReader k
    pure (s', if ok then "ok" else "notfound")
  | ["dec", j] => do
    let j ← j.toNat?
    if (s.readers[j]?).isNone then pure (s, "bad-slot") else
    match decOp s j with
    | (s', some bytes) => pure (s', "v " ++ dig bytes)
    | (s', none) => pure (s', "eof")
  | ["rd", j, bufs] => do
    let j ← j.toNat?
    let bufs ← natList bufs
    pure (rdOp s j bufs)
  | ["enc", _, kind, k] => do
    let kind ← kindOf kind
    let k ← k.toNat?
    let (s', ok) := s.openWriter kind k
    pure (s', if ok then "ok" else "notfound")
  | ["put", j, d] => do
    let j ← j.toNat?
    let c ← chunkOf d
    let (s', r) := s.put j c
    pure (s', showOB r)
  | ["cls", j] => do
    let j ← j.toNat?
    let (s', r) := s.closeWriter j
    pure (s', showOB r)
  | ["cp", jd, je] => do
    let jd ← jd.toNat?
    let je ← je.toNat?
    if (s.readers[jd]?).isNone then pure (s, "bad-slot") else
    match decOp s jd with
    | (s', some bytes) =>
      let (s2, r) := s'.put je bytes
      pure (s2, "v " ++ dig bytes ++ " " ++ showOB r)
    | (s', none) => pure (s', "eof")
  | ["cur", "find", k, i, n] => do
    let k ← k.toNat?
    let i ← i.toNat?
    let n ← n.toNat?
    pure (onTree s (curFind s.tree k i n))
  | ["cur", "first", n] => do
    let n ← n.toNat?
    pure (onTree s (curFirst s.tree n))
  | ["txn"] =>
    -- commit, new transaction, store reopened: what is stored stays, nothing is selected, the old
    -- transaction's readers and writers are gone
    pure ({ tree := { s.tree with cur := none }, readers := [], writers := [] }, "ok")
  | _ => none

def step (t : Tree) (ws : List String) : Tree × String :=
  match ws with
  | "add" :: k :: ds =>
    match k.toNat?, chunksOf ds with
    | some k, some cs => let (t', o) := opAdd t k cs; (t', showOut o)
    | _, _ => (t, "bad-op")
  | "upd" :: k :: ds =>
    match k.toNat?, chunksOf ds with
    | some k, some cs => let (t', o) := opUpdate t k cs; (t', showOut o)
    | _, _ => (t, "bad-op")
  | "ups" :: k :: ds =>
    match k.toNat?, chunksOf ds with
    | some k, some cs => let (t', o) := opUpsert t k cs; (t', showOut o)
    | _, _ => (t, "bad-op")
  | "addne" :: k :: ds =>
    match k.toNat?, chunksOf ds with
    | some k, some cs => let (t', o) := opAddIfNotExist t k cs; (t', showOut o)
    | _, _ => (t, "bad-op")
  | ["rm", k] =>
    match k.toNat? with
    | some k => let (t', o) := opRemove t k; (t', showOut o)
    | none => (t, "bad-op")
  | ["get", k] =>
    match k.toNat? with
    | some k => getOp t k
    | none => (t, "bad-op")
  | ["read", k, bufs] =>
    match k.toNat?, natList bufs with
    | some k, some bufs => readOp t k bufs
    | _, _ => (t, "bad-op")
  | ["dump"] => (t, dumpOp t)
  | _ => (t, "bad-op")

def stepS (s : Sess) (ws : List String) : Sess × String :=
  match sessStep s ws with
  | some r => r
  | none =>
    match ws with
    | "open" :: _ | "dec" :: _ | "rd" :: _ | "enc" :: _ | "put" :: _ | "cls" :: _ | "cp" :: _ | "cur" :: _ => (s, "bad-op")
    | _ => onTree s (step s.tree ws)

def run : IO Unit := runLoop (fun _ => Sess.empty) stepS
end Sop.Driver.C31

def main : IO Unit := Sop.Driver.C31.run
