import Sop.Model.SearchInst
import Sop.Driver.Util
namespace Sop.Driver.C32
open Sop.Driver Sop.Search

/-- a string travels as its code points joined by '.', "-" is the empty string -/
def decStr (s : String) : Option Str :=
  if s == "-" then some [] else (s.splitOn ".").mapM (·.toNat?)

def encStr (s : Str) : String :=
  if s.isEmpty then "-" else ".".intercalate (s.map toString)

def encList (l : List Str) : String :=
  if l.isEmpty then "-" else ",".intercalate (l.map encStr)

def encMap (m : OMap) : String :=
  if m.isEmpty then "-" else ",".intercalate (m.map fun e => s!"{encStr e.1}={e.2}")

/-- "id=key,id=key" : the order keys of the float64 scores the Go code computed -/
def decScores (s : String) : Option (List (Str × Int)) :=
  if s == "-" then some [] else
  (s.splitOn ",").mapM fun kv =>
    match kv.splitOn "=" with
    | [k, v] => do
      let k ← decStr k
      let v ← v.toInt?
      pure (k, v)
    | _ => none

def scoreOf (tbl : List (Str × Int)) (d : Str) : Int :=
  match tbl.find? (fun e => e.1 == d) with
  | some e => e.2
  | none => -1   -- a document the implementation did not return ranks last (and shows up in the diff)

def step (ix : Index) (ws : List String) : Index × String :=
  match ws with
  | ["tok", t] =>
    match decStr t with
    | some t => (ix, encList (tokenizeX t))
    | none => (ix, "bad-op")
  | ["add", d, t] =>
    match decStr d, decStr t with
    | some d, some t => (addDoc tokenizeX ix d t, "ok")
    | _, _ => (ix, "bad-op")
  | ["commit"] => (ix, "ok")
  | ["dump"] =>
    (ix, s!"{encMap ix.postings} ; {encMap ix.termStats} ; {encMap ix.docStats} ; {encMap ix.global}")
  | ["search", q, sc] =>
    match decStr q, decScores sc with
    | some q, some tbl => (ix, encList (search tokenizeX ix q (scoreOf tbl)))
    | _, _ => (ix, "bad-op")
  | _ => (ix, "bad-op")

def run : IO Unit := runLoop (fun _ => Index.empty) step
end Sop.Driver.C32

def main : IO Unit := Sop.Driver.C32.run
