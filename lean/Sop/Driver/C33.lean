import Sop.Model.Vector
import Sop.Driver.Util
/-! Line-protocol driver for C33 (see harness/cmd/c33/main.go for the op lines). -/
namespace Sop.Driver.C33
open Sop.Driver Sop.Vector

structure St where
  cfg : Cfg := ⟨false, true, false⟩
  s : State := {}
  dead : Bool := false

def reset (hdr : List String) : St :=
  match hdr with
  | ["mode", m, "buffer", b, "dedup", d] => { cfg := ⟨b == "1", d == "1", m == "trk"⟩ }
  | _ => {}

def splitOnC (s : String) (c : Char) : List String := (s.splitOn (String.singleton c)).filter (· ≠ "")

def ints (l : List String) : Option (List Int) := l.mapM (·.toInt?)

def listOf (s : String) : List String := if s == "-" then [] else splitOnC s ','

/-- "a:b:c,a:b:c" -> rows of ints -/
def rows (s : String) : Option (List (List Int)) := (listOf s).mapM (fun r => ints (splitOnC r ':'))

def showInts (l : List Int) : String := ":".intercalate (l.map toString)

def showDump (s : State) : String :=
  let c := s.content.map (fun x => showInts [x.1, x.2.1.cid, x.2.1.dist, x.2.1.ver, if x.2.1.del then 1 else 0, x.2.1.ncid, x.2.1.ndist, x.2.1.nver, x.2.2])
  let v := s.vectors.map (fun e => showInts [e.cid, e.dist, e.id, if e.del then 1 else 0, e.vec])
  let t := s.temp.map (fun x => showInts [x.1, x.2])
  let k := s.cents.map (fun x => showInts [x.1, x.2])
  s!"v{s.ver} C[{" ".intercalate c}] V[{" ".intercalate v}] T[{" ".intercalate t}] K[{" ".intercalate k}]"

def showGet : GetRes → String
  | .ok v p c => s!"ok:{v}:{p}:{c}"
  | .nf => "nf"
  | .nfTemp => "nf-temp"
  | .cid0 => "cid0"
  | .nfVec => "nf-vec"

def filterOf (f : String) : Payload → Bool :=
  if f == "1" then fun p => p % 2 == 0 else if f == "2" then fun p => p % 2 == 1 else fun _ => true

def parseItems : List Int → Option (List Item)
  | [] => some []
  | id :: v :: p :: e :: c :: d :: r => do
    let rest ← parseItems r
    pure (⟨id.toNat, v, p, e, c, d⟩ :: rest)
  | _ => none

def parseRw (ws : List String) : Option (List (Id × Vec)) :=
  match ws with
  | [] => some []
  | ["rw", l] => do
    let rs ← rows l
    rs.mapM (fun r => match r with | [i, v] => some (i.toNat, v) | _ => none)
  | _ => none

def lookup2 (tbl : List (List Int)) (i : Id) : Int × Int :=
  match tbl.find? (fun r => r.head? == some (i : Int)) with
  | some [_, c, d] => (c, d)
  | _ => (0, 0)

def lookup3 (tbl : List (List Int)) (i : Id) (v : Vec) : Int × Int :=
  match tbl.find? (fun r => r.take 2 == [(i : Int), v]) with
  | some [_, _, c, d] => (c, d)
  | _ => (0, 0)

/-- the directed "more than 100 buffered ids" case, run entirely on the model -/
def bigCase (n : Nat) : String :=
  let cfg : Cfg := ⟨true, true, false⟩
  let items : List Item := (List.range n).map (fun i => ⟨i, 1, i, 0, 0, 0⟩)
  let (s1, r1) := upsertBatch cfg {} items []
  if r1 != "ok" then "ingest " ++ r1 else
  -- no centroid comes out of k-means (its samples are read from the emptied buffer): every migrated vector
  -- gets findClosestCentroid's "none" answer (-1, MaxFloat32)
  let (s2, r2) := optimize cfg s1 (fun _ => (1, 0)) (fun _ _ => (-1, 2139095039)) []
  if r2 != "ok" then "optimize " ++ r2 else
  let cfg2 : Cfg := { cfg with buffer := false }
  let rs := (List.range n).map (fun i => get cfg2 s2 i)
  let good := (rs.filter (fun r => match r with | .ok v _ _ => v != 0 | _ => false)).length
  if good == n then s!"ok {good}" else
  let cnt (g : GetRes) : Nat := (rs.filter (· == g)).length
  let cls := [("cid0", cnt .cid0), ("nf", cnt .nf), ("nf-temp", cnt .nfTemp), ("nf-vec", cnt .nfVec)].filter (·.2 > 0)
  s!"ok {good} of {n} {",".intercalate (cls.map (fun c => s!"{c.1}={c.2}"))}"

def step (st : St) (ws : List String) : St × String :=
  if st.dead then (st, "dead") else
  match ws with
  | "up" :: rest =>
    match ints (rest.take 6), parseRw (rest.drop 6) with
    | some nums, some rw =>
      match parseItems nums with
      | some [it] => let (s, r) := upsert st.cfg st.s it rw; ({ st with s := s }, r)
      | _ => (st, "bad-op")
    | _, _ => (st, "bad-op")
  | "batch" :: n :: rest =>
    match n.toNat? with
    | some n =>
      match ints (rest.take (6 * n)), parseRw (rest.drop (6 * n)) with
      | some nums, some rw =>
        match parseItems nums with
        | some items => let (s, r) := upsertBatch st.cfg st.s items rw; ({ st with s := s }, r)
        | none => (st, "bad-op")
      | _, _ => (st, "bad-op")
    | none => (st, "bad-op")
  | ["del", i] =>
    match i.toNat? with
    | some i => let (s, r) := delete st.cfg st.s i; ({ st with s := s }, r)
    | none => (st, "bad-op")
  | ["cfg", "buffer", b] => ({ st with cfg := { st.cfg with buffer := b == "1" } }, "ok")
  | ["opt", cons, mig, cents] =>
    match rows cons, rows mig, ints (listOf cents) with
    | some cons, some mig, some cents =>
      let (s, r) := optimize st.cfg st.s (lookup2 cons) (lookup3 mig) cents
      ({ st with s := s, dead := r != "ok" }, r)
    | _, _, _ => (st, "bad-op")
  | ["dump"] => (st, showDump st.s)
  | ["get", i] =>
    match i.toNat? with
    | some i => (st, showGet (get st.cfg st.s i))
    | none => (st, "bad-op")
  | ["query", k, f, targets, scores] =>
    match k.toInt?, ints (listOf targets), ints (listOf scores) with
    | some k, some targets, some scores =>
      let score : Vec → Int := fun v => if v < 0 then 0 else scores.getD v.toNat 0
      let hits := query st.cfg st.s k (filterOf f) targets score
      let out := hits.map (fun h => showInts [h.id, h.score, h.payload])
      (st, "hits " ++ (if out.isEmpty then "-" else ",".intercalate out))
    | _, _, _ => (st, "bad-op")
  | ["big", n] =>
    match n.toNat? with
    | some n => (st, bigCase n)
    | none => (st, "bad-op")
  | _ => (st, "bad-op")

def run : IO Unit := runLoop reset step
end Sop.Driver.C33

def main : IO Unit := Sop.Driver.C33.run
