import Sop.Model.Rbac
import Sop.Driver.Util
/-! Line protocol for C34.
`case <n> u=<user> r=<roles> s=<0|1> v=<vis> o=<owner> R=<role grants> U=<user grants>`; `~` is the
empty string, `-` the empty list / nil map; lists are comma separated, grant maps `key:a,b;key:c`.
Ops: `auth <actions>` → one `0/1` per action; `pol <names> <actions>` → per name a word of `o/r/u`;
`map <name> <acc|nil> <actions> <-|ev:allowed actions>` or `map <name> <acc|nil> none` → `cap=0/1,…` sorted. -/
namespace Sop.Driver.C34
open Sop.Driver Sop.Rbac

def untok (s : String) : String := if s == "~" then "" else s

def parseList (s : String) : List String :=
  if s == "-" then [] else (s.splitOn ",").map untok

def field (w : String) : String :=
  match w.splitOn "=" with
  | _ :: rest => "=".intercalate rest
  | [] => ""

def parseMap (s : String) : List (String × List String) :=
  if s == "-" then []
  else (s.splitOn ";").map fun e =>
    match e.splitOn ":" with
    | [k, v] => (untok k, parseList v)
    | _ => ("?", [])

structure St where
  c : Caller
  acc : Access
deriving Inhabited

def reset (hdr : List String) : St :=
  match hdr with
  | [u, r, s, v, o, rm, um] =>
    ⟨⟨untok (field u), parseList (field r), field s == "1"⟩,
     ⟨untok (field v), untok (field o), parseMap (field rm), parseMap (field um)⟩⟩
  | _ => default

def showDecision : Decision → Char
  | .ok => 'o' | .systemReadOnly => 'r' | .unauthorized => 'u'

/-- insertion sort of the distinct keys (small lists) -/
def insertSorted (k : String) : List String → List String
  | [] => [k]
  | x :: xs => if k < x then k :: x :: xs else if k == x then x :: xs else x :: insertSorted k xs

def showMap (m : List (String × Bool)) : String :=
  let keys := m.foldl (fun ks e => insertSorted e.1 ks) []
  if keys.isEmpty then "-"
  else ",".intercalate (keys.map fun k => (if k == "" then "~" else k) ++ "=" ++ b01 ((m.lookup k).getD false))

def step (st : St) (ws : List String) : St × String :=
  match ws with
  | ["auth", acts] =>
    (st, String.ofList ((parseList acts).map fun a => if authorize st.c st.acc a then '1' else '0'))
  | ["pol", names, acts] =>
    let acts := parseList acts
    (st, " ".intercalate ((parseList names).map fun n =>
      String.ofList (acts.map fun a => showDecision (checkPolicy n st.c st.acc a))))
  | "map" :: name :: accTok :: rest =>
    let acc := if accTok == "nil" then none else some st.acc
    match rest with
    | ["none"] => (st, showMap (resolveMap none st.c (untok name) acc))
    | [acts, ev] =>
      let evf : Option (String → Bool) :=
        if ev == "-" then none
        else
          let allowed := parseList (field' ev)
          some fun a => allowed.contains a
      (st, showMap (resolveMap (some ⟨parseList acts, evf⟩) st.c (untok name) acc))
    | _ => (st, "bad-op")
  | _ => (st, "bad-op")
where
  field' (w : String) : String :=
    match w.splitOn ":" with
    | _ :: rest => ":".intercalate rest
    | [] => ""

def run : IO Unit := runLoop reset step
end Sop.Driver.C34

def main : IO Unit := Sop.Driver.C34.run
