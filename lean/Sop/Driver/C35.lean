import Sop.Model.Auth
import Sop.Driver.Util
/-! Line-protocol driver for C35 over `Sop.Auth` (repaired code, ideal MAC `dmac`).

Tokens are referred to by name: the `j`-th create/refresh line of a case defines `A<j>` (access) and
`R<j>` (refresh) when it succeeds; `X<n>` is a string the server never issued; `~mutation` derives an
attacker-made variant. Secrets are numbered (0 = the built-in default secret). -/
namespace Sop.Driver.C35
open Sop.Driver Sop.Auth

abbrev Tok := Token DTag

structure DState where
  s : State DTag
  reg : List (String × Tok)
  j : Nat

def lookupName (reg : List (String × Tok)) (n : String) : Option Tok :=
  (reg.find? (·.1 == n)).map (·.2)

def nameOf (reg : List (String × Tok)) (t : Tok) : String :=
  match reg.find? (·.2 == t) with
  | some e => e.1
  | none => "?"

def alter (c : Claims) : Claims := { c with exp := c.exp + 86400, role := 1 }

def mutate (t : Tok) (m : String) : Option Tok :=
  match t with
  | .jwt h p sig =>
    if m == "sig" then some (.jwt h p (.junk 1))
    else if m == "pay" then p.claims.map fun c => .jwt h ⟨0, some { c with exp := c.exp + 86400 }⟩ sig
    else if m == "hdr" then some (.jwt 1 p sig)
    else if m == "ws" then some (.jwt h ⟨1, p.claims⟩ sig)
    else if m == "trunc2" then p.claims.map fun c => .opaque (4000000 + c.jti)
    else if m == "resignD" then p.claims.map fun c => sign dmac 0 (alter c)
    else if m.startsWith "resignS" then
      match (m.drop 7).toNat?, p.claims with
      | some n, some c => some (sign dmac n (alter c))
      | _, _ => none
    else none
  | .opaque n => if m == "x" then some (.opaque (3000000 + n)) else none

def resolve (reg : List (String × Tok)) (e : String) : Option Tok :=
  match e.splitOn "~" with
  | [b] => if b.startsWith "X" then (b.drop 1).toNat?.map fun n => .opaque (1000000 + n) else lookupName reg b
  | [b, m] =>
    let base := if b.startsWith "X" then (b.drop 1).toNat?.map fun n => Token.opaque (1000000 + n) else lookupName reg b
    base.bind fun t => mutate t m
  | _ => none

def showErr : Err → String
  | .invalidSession => "err:invalid" | .expiredSession => "err:expired"
  | .invalidRefresh => "err:invalid-refresh" | .expiredRefresh => "err:expired-refresh"
  | .collision => "err:collision"

/-- register the tokens an issuing line returned under the line's ordinal -/
def issue (d : DState) (r : State DTag × Out DTag) : DState × String :=
  let j := d.j + 1
  match r.2 with
  | .token a => ({ s := r.1, reg := d.reg ++ [(s!"A{j}", a)], j := j }, "ok")
  | .session a rt => ({ s := r.1, reg := d.reg ++ [(s!"A{j}", a), (s!"R{j}", rt)], j := j }, "ok")
  | .err e => ({ d with s := r.1, j := j }, showErr e)
  | _ => ({ d with s := r.1, j := j }, "bad-out")

def sortStrings (l : List String) : List String := (l.toArray.qsort (· < ·)).toList

def step (d : DState) (ws : List String) : DState × String :=
  match ws with
  | ["ct", t, u, r] =>
    match t.toInt?, u.toNat?, r.toNat? with
    | some t, some u, some r => issue d (createToken dmac d.s t u r)
    | _, _, _ => (d, "bad-op")
  | ["cs", t, u, r] =>
    match t.toInt?, u.toNat?, r.toNat? with
    | some t, some u, some r => issue d (createSession dmac d.s t u r)
    | _, _, _ => (d, "bad-op")
  | ["ref", t, e] =>
    match t.toInt? with
    | some t =>
      match resolve d.reg e with
      | some tok => issue d (refresh true dmac d.s t tok)
      | none => ({ d with j := d.j + 1 }, "undef")
    | none => (d, "bad-op")
  | ["val", t, e] =>
    match t.toInt? with
    | some t =>
      match resolve d.reg e with
      | some tok =>
        let r := validate true dmac d.s t tok
        ({ d with s := r.1 }, match r.2 with
          | .user u ro => s!"user {u} {ro}"
          | .err e => showErr e
          | _ => "bad-out")
      | none => (d, "undef")
    | none => (d, "bad-op")
  | ["rev", _, e] =>
    match resolve d.reg e with
    | some tok => ({ d with s := (revoke d.s tok).1 }, "unit")
    | none => (d, "undef")
  | ["secret", _, n] =>
    match n.toNat? with
    | some n => ({ d with s := { d.s with secret := n } }, "unit")
    | none => (d, "bad-op")
  | ["dump", _] =>
    let items := d.s.table.map fun e => s!"{nameOf d.reg e.1}={e.2.expiresAt}"
    (d, if items.isEmpty then "empty" else " ".intercalate (sortStrings items))
  | _ => (d, "bad-op")

def reset (hdr : List String) : DState :=
  match hdr with
  | [sec, ttl, rttl] =>
    { s := init (sec.toNat?.getD 0) (ttl.toInt?.getD 1800) (rttl.toInt?.getD 604800), reg := [], j := 0 }
  | _ => { s := init 0 1800 604800, reg := [], j := 0 }

def run : IO Unit := runLoop reset step
end Sop.Driver.C35

def main : IO Unit := Sop.Driver.C35.run
