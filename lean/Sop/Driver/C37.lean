import Sop.Model.HandleProto
import Sop.Driver.CommitProto
/-! Line protocol over the node-version protocol model (one handle, several transactions). -/
namespace Sop.Driver.C37
open Sop.Driver Sop.Commit Sop.HandleProto

def emptySys : Sys := { h := { lid := 0, idA := 0 }, blob := fun _ => false, txns := fun _ => { readVersion := 0, fresh := 0 } }

def showSys (s : Sys) : String :=
  let holder := match s.lock with | none => "-" | some t => toString t
  s!"{Sop.Driver.CommitProto.showHandle s.h} holder={holder} installs={s.flips.length}"

def step1 (disc : Bool) (s : Sys) (ws : List String) : Sys × String :=
  match ws with
  | ["init", lid, a, b, act, ver, wip, del] =>
    match lid.toNat?, a.toNat?, b.toNat?, boolOf act, ver.toInt?, boolOf del with
    | some lid, some a, some b, some act, some ver, some del =>
      let h : Handle := ⟨lid, a, b, act, ver, Sop.Driver.CommitProto.wipOf wip s.now, del⟩
      let s' := { s with h := h }
      (s', showSys s')
    | _, _, _, _, _, _ => (s, "bad-op")
  | ["txn", t, rv, f] =>
    match t.toNat?, rv.toInt?, f.toNat? with
    | some t, some rv, some f =>
      let s' := s.setTxn t { s.txns t with readVersion := rv, fresh := f }
      (s', "ok")
    | _, _, _ => (s, "bad-op")
  | [op, t] =>
    match t.toNat? with
    | none => (s, "bad-op")
    | some t =>
      let o : Option Op := match op with
        | "lock" => some (.lock t) | "unlock" => some (.unlock t) | "get" => some (.get t) | "reserve" => some (.reserve t)
        | "stage" => some (.stage t) | "logpre" => some (.logPre t) | "flip" => some (.flip t) | "undo" => some (.undo t)
        | "crash" => some (.crash t) | "recover" => some (.recover t) | "restore" => some (.restore t) | _ => none
      match o with
      | none => (s, "bad-op")
      | some o => let s' := HandleProto.step disc s o; (s', showSys s')
  | ["lose"] => let s' := HandleProto.step disc s .lose; (s', showSys s')
  | _ => (s, "bad-op")

/-- the state carries the mode: `free` switches the lock discipline off for the rest of the case (lock-loss cases) -/
def step (st : Sys × Bool) (ws : List String) : (Sys × Bool) × String :=
  match ws with
  | ["free"] => ((st.1, false), "ok")
  | _ => let (s', out) := step1 st.2 st.1 ws; ((s', st.2), out)

end Sop.Driver.C37

def main : IO Unit := Sop.Driver.runLoop (fun _ => (Sop.Driver.C37.emptySys, true)) Sop.Driver.C37.step
