import Sop.Model.Alias
import Sop.Driver.Util
/-! Line protocol of C38 (see harness/cmd/c38/main.go).

    case n <kind> <place> c1 c2 c3     kind: bytes|map|ints|ptr (reference kinds) | string|struct (value kinds);
                                       place: inNode | vnf; keys 1,2,3 hold contents c1,c2,c3
    begin | commit | rollback | clear | mutate x | update k v   -> ok
    read k                                                     -> <content> | none
-/
namespace Sop.Driver.C38
open Sop.Driver Sop.Alias

structure DSt where
  s : St
  kind : Kind

def reset (hdr : List String) : DSt :=
  match hdr with
  | kind :: place :: cs =>
    let contents := cs.filterMap String.toNat?
    let disk := (List.range contents.length).zip contents |>.map (fun (i, c) => (i + 1, c))
    { s := { vnf := place == "vnf", disk := disk },
      kind := if kind == "string" || kind == "struct" then .byValue else .byRef }
  | _ => { s := { vnf := false, disk := [] }, kind := .byRef }

def showOut : Option Nat → String
  | some c => toString c
  | none => "none"

def step (d : DSt) (ws : List String) : DSt × String :=
  let go (op : Op) (isRead : Bool) : DSt × String :=
    let (s', o) := d.s.apply op
    ({ d with s := s' }, if isRead then showOut o else "ok")
  match ws with
  | ["begin"] => go .begin false
  | ["commit"] => go .commit false
  | ["rollback"] => go .rollback false
  | ["clear"] => go .clear false
  | ["mutate", x] => match x.toNat? with | some x => go (.mutate x) false | none => (d, "bad-op")
  | ["update", k, v] => match k.toNat?, v.toNat? with | some k, some v => go (.update k v) false | _, _ => (d, "bad-op")
  | ["read", k] => match k.toNat? with | some k => go (.read k d.kind) true | none => (d, "bad-op")
  | _ => (d, "bad-op")

def run : IO Unit := runLoop reset step
end Sop.Driver.C38

def main : IO Unit := Sop.Driver.C38.run
