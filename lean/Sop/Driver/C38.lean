import Sop.Model.Alias
import Sop.Driver.Util
/-! Line protocol of C38 (see harness/cmd/c38/main.go).

    case n <kind> <place> c1 c2 c3     kind: bytes|map|ints|ptr (reference kinds) | string|struct (value kinds);
                                       place: inNode | vnf; keys 1,2,3 hold contents c1,c2,c3
    begin | commit | rollback | clear | evict1 | evicth | evict2 | mutate x | update k v   -> ok
    read k | cold k                                            -> <content> | none
A `read`/`update` that loads the node is annotated with the lookup level that served it (`%fill:l1|l2|l2stale|blob`,
statistics only). -/
namespace Sop.Driver.C38
open Sop.Driver Sop.Alias

structure DSt where
  s : St
  kind : Kind

def reset (hdr : List String) : DSt :=
  match hdr with
  | kind :: place :: cs =>
    let contents := cs.filterMap String.toNat?
    let disk := (List.range contents.length).zip contents |>.map (fun (i, c) => (i + 1, c))
    { s := { vnf := place == "vnf", disk := disk },
      kind := if kind == "string" || kind == "struct" then .byValue else .byRef }
  | _ => { s := { vnf := false, disk := [] }, kind := .byRef }

def showOut : Option Nat → String
  | some c => toString c
  | none => "none"

def step (d : DSt) (ws : List String) : DSt × String :=
  let fill : String :=
    match d.s.txn with
    | some t =>
      if t.node.isSome then "" else
      match d.s.l1, d.s.l2 with
      | some (_, true), _ => "\t%fill:l1"
      | _, some (_, true) => "\t%fill:l2"
      | _, some (_, false) => "\t%fill:l2stale"
      | _, none => "\t%fill:blob"
    | none => ""
  let go (op : Op) (isRead : Bool) : DSt × String :=
    let (s', o) := d.s.apply op
    ({ d with s := s' }, if isRead then showOut o else "ok")
  let goLoad (op : Op) (isRead : Bool) : DSt × String :=
    let (d', out) := go op isRead
    (d', out ++ fill)
  match ws with
  | ["begin"] => go .begin false
  | ["commit"] => go .commit false
  | ["rollback"] => go .rollback false
  | ["clear"] => go .clear false
  | ["evict1"] => go .evict1 false
  | ["evicth"] => go .evicth false
  | ["evict2"] => go .evict2 false
  | ["cold", k] => match k.toNat? with | some k => go (.cold k) true | none => (d, "bad-op")
  | ["mutate", x] => match x.toNat? with | some x => go (.mutate x) false | none => (d, "bad-op")
  | ["update", k, v] => match k.toNat?, v.toNat? with | some k, some v => (if d.s.vnf then go else goLoad) (.update k v) false | _, _ => (d, "bad-op")
  | ["read", k] => match k.toNat? with | some k => goLoad (.read k d.kind) true | none => (d, "bad-op")
  | _ => (d, "bad-op")

def run : IO Unit := runLoop reset step
end Sop.Driver.C38

def main : IO Unit := Sop.Driver.C38.run
