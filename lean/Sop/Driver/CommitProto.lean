import Sop.Model.Commit
import Sop.Model.CommitPre
import Sop.Driver.Util
/-! Line protocol over Model P, shared by the drivers of C01, C07, C10, C11 (and others built on the commit model). -/
namespace Sop.Driver.CommitProto
open Sop.Driver Sop.Commit

def showIds (ids : List UUID) : String :=
  "[" ++ ",".intercalate ((ids.mergeSort (· ≤ ·)).map toString) ++ "]"
def wipClass (h : Handle) : String := if h.wip = 0 then "0" else if h.wip = 1 then "1" else "t"
def showHandle (h : Handle) : String :=
  s!"{h.lid}:{h.idA}:{h.idB}:{b01 h.activeB}:{h.version}:{wipClass h}:{b01 h.deleted}"
def showHandles (hs : List Handle) : String :=
  "[" ++ " ".intercalate ((hs.mergeSort (fun a b => a.lid ≤ b.lid)).map showHandle) ++ "]"
def showKeys (ids : List UUID) : String :=
  "[" ++ " ".intercalate ((ids.mergeSort (· ≤ ·)).map (fun i => s!"lock:{i}")) ++ "]"
def showDeltas (ds : List (Nat × Int)) : String :=
  "[" ++ " ".intercalate ((ds.mergeSort (fun a b => a.1 ≤ b.1)).map (fun (s, d) => s!"st{s}:{if d ≥ 0 then "+" else ""}{d}")) ++ "]"

def clsName : Cls → String
  | .tlogAdd => "tlog.Add" | .tlogRemove => "tlog.Remove" | .plogAdd => "plog.Add" | .plogRemove => "plog.Remove"
  | .regGet => "reg.Get" | .regAdd => "reg.Add" | .regUpdate => "reg.Update" | .regUpdateNoLocks => "reg.UpdateNoLocks"
  | .regRemove => "reg.Remove" | .blobAdd => "blob.Add" | .blobRemove => "blob.Remove" | .srUpdate => "sr.Update"
  | .srRemove => "sr.Remove" | .l2GetStructs => "l2.GetStructs" | .l2SetStructs => "l2.SetStructs" | .l2Delete => "l2.Delete"
  | .l2Lock => "l2.Lock" | .l2DualLock => "l2.DualLock" | .l2IsLocked => "l2.IsLocked" | .l2Unlock => "l2.Unlock"

def clsOfName (s : String) : Option Cls :=
  [Cls.tlogAdd, .tlogRemove, .plogAdd, .plogRemove, .regGet, .regAdd, .regUpdate, .regUpdateNoLocks, .regRemove, .blobAdd,
   .blobRemove, .srUpdate, .srRemove, .l2GetStructs, .l2SetStructs, .l2Delete, .l2Lock, .l2DualLock, .l2IsLocked, .l2Unlock].find? (fun c => clsName c == s)

def showArgs : Args → String
  | .none => ""
  | .ids l => showIds l
  | .keys l => showKeys l
  | .handles l => showHandles l
  | .aon l => "aon " ++ showHandles l
  | .num n => toString n
  | .deltas l => showDeltas l
  | .store n => s!"[st{n}]"
  | .bool b => if b then "true" else "false"

def showEv (e : Ev) : String :=
  let a := showArgs e.args
  let r := showArgs e.res
  clsName e.cls ++ (if a.isEmpty then "" else " " ++ a) ++ (if r.isEmpty then "" else " -> " ++ r) ++ (if e.err then " !err" else "")

structure St where
  s : State := {}
  ws : List StoreWS := []
  fresh : List (UUID × UUID) := []
  fault : Option Fault := none
  maxRetry : Nat := 30
  last : Option Run := none
  lids : List UUID := []          -- every logical id the case has registered (`h` lines and what commits registered)
deriving Inhabited

def natList (s : String) : List Nat :=
  if s == "-" then [] else (s.splitOn ",").filterMap String.toNat?

def pairList (s : String) : List (Nat × Int) :=
  if s == "-" then [] else (s.splitOn ",").filterMap fun p =>
    match p.splitOn ":" with
    | [a, b] => match a.toNat?, b.toInt? with
      | some a, some b => some (a, b)
      | _, _ => none
    | _ => none

def natPairList (s : String) : List (Nat × Nat) :=
  (pairList s).map (fun (a, b) => (a, b.toNat))

def kv (ws : List String) (k : String) : String :=
  match ws.find? (fun w => w.startsWith (k ++ "=")) with
  | some w => (w.drop (k.length + 1)).toString
  | none => "-"

def wipOf (c : String) (now : Int) : Int := if c == "0" then 0 else if c == "1" then 1 else now

def showState (s : State) (ids : List Nat) (stores : List Nat) (tids : List Nat) : String :=
  let hs := ids.filterMap s.reg
  let bl := ids.filter s.blob
  let cn := stores.map (fun st => s!"st{st}={s.cnt st}")
  let tl := (tids.filter s.tlog).length
  let pl := (tids.filter s.plog).length
  s!"reg={showHandles hs} blobs={showIds bl} cnt=[{" ".intercalate cn}] tlog={tl} plog={pl}"

def runCommit (st : St) (tid : Nat) : St × String :=
  -- a store created by this transaction (NewBtree) has already logged `createStore` before Commit begins
  let created := st.ws.any (·.created)
  let s0 := if created then { st.s with tlog := fun k => if k = tid then true else st.s.tlog k } else st.s
  let r0 : Run := { s := s0, tid := tid, fault := st.fault, fresh := st.fresh, cs := if created then .createStore else .unknown }
  let (o, r) := commit { stores := st.ws } st.maxRetry r0
  let out := (match o with | .ok => "ok" | .err => "err" | .conflict => "conflict") ++ " | " ++ " ; ".intercalate (r.trace.reverse.map showEv)
  -- do this commit's inputs satisfy the premises of the Model P theorems? (a statistic for the evidence, not compared)
  let viol := hypViolations st.lids s0 { stores := st.ws } st.fresh
  let note := if viol.isEmpty then "\t%hyp:ok" else "\t%hyp:violated:" ++ ",".intercalate viol
  let newLids := ({ stores := st.ws } : WS).newIds'
  ({ st with s := r.s, fresh := r.fresh, fault := none, last := some r, lids := st.lids ++ newLids }, out ++ note)

/-- the state right before the `occ`-th call of class `cls` of the commit (none: at the end of phase 1) -/
def prefixState (st : St) (tid : Nat) (stop : Option (Cls × Nat)) : State :=
  let created := st.ws.any (·.created)
  let s0 := if created then { st.s with tlog := fun k => if k = tid then true else st.s.tlog k } else st.s
  let r0 : Run := { s := s0, tid := tid, fault := none, fresh := st.fresh, stopAt := stop,
                    cs := if created then .createStore else .unknown }
  match phase1 { stores := st.ws } st.maxRetry r0 with
  | .error r1 => r1.s
  | .ok (_, r1) =>
    match stop with
    | none => r1.s
    | some _ =>
      match phase2 { stores := st.ws } r1 with
      | .error r2 => r2.s
      | .ok (_, r2) => r2.s

def step (st : St) (ws : List String) : St × String :=
  match ws with
  | ["h", lid, a, b, act, ver, wip, del] =>
    match lid.toNat?, a.toNat?, b.toNat?, boolOf act, ver.toInt?, boolOf del with
    | some lid, some a, some b, some act, some ver, some del =>
      ({ st with s := st.s.setReg ⟨lid, a, b, act, ver, wipOf wip st.s.now, del⟩, lids := lid :: st.lids }, "ok")
    | _, _, _, _, _, _ => (st, "bad-op")
  | ["b", ids] => ({ st with s := st.s.addBlobs (natList ids) }, "ok")
  | ["cnt", store, n] =>
    match store.toNat?, n.toInt? with
    | some store, some n =>
      let s0 := st.s
      let s1 : State := { s0 with cnt := (fun k => if k = store then n else s0.cnt k),
                                  storeExists := (fun k => if k = store then true else s0.storeExists k) }
      ({ st with s := s1 }, "ok")
    | _, _ => (st, "bad-op")
  | "store" :: idx :: rest =>
    match idx.toNat? with
    | some idx =>
      let w : StoreWS := {
        store := idx
        created := kv rest "created" == "1"
        root := natList (kv rest "root")
        updated := pairList (kv rest "upd")
        removed := pairList (kv rest "rem")
        added := natList (kv rest "add")
        fetched := pairList (kv rest "fet")
        items := ((kv rest "items").toNat?).getD 0
        writeItems := ((kv rest "witems").toNat?).getD (((kv rest "items").toNat?).getD 0)
        tracked := kv rest "tracked" != "0"
        delta := ((kv rest "delta").toInt?).getD 0
        values := natList (kv rest "vals")
        obsoleteValues := natList (kv rest "obs") }
      ({ st with ws := st.ws ++ [w] }, "ok")
    | none => (st, "bad-op")
  | ["clearws"] => ({ st with ws := [], fresh := [] }, "ok")
  | ["fresh", ps] => ({ st with fresh := st.fresh ++ natPairList ps }, "ok")
  | ["maxretry", n] => ({ st with maxRetry := (n.toNat?).getD 30 }, "ok")
  | ["fault", cls, occ, kind] =>
    match occ.toNat?, clsOfName cls with
    | some occ, some c => ({ st with fault := some ⟨c, occ, if kind == "failAfter" then .failAfter else .failBefore⟩ }, "ok")
    | _, _ => (st, "bad-op")
  | ["commit", tid] =>
    match tid.toNat? with
    | some tid => runCommit st tid
    | none => (st, "bad-op")
  | ["at", "gap", ids, stores] =>
    (st, showState (prefixState st 1 none) (natList ids) (natList stores) [1])
  | ["at", _phase, cls, occ, ids, stores] =>
    match occ.toNat?, clsOfName cls with
    | some occ, some c => (st, showState (prefixState st 1 (some (c, occ))) (natList ids) (natList stores) [1])
    | _, _ => (st, "bad-op")
  | ["state", ids, stores, tids] =>
    (st, showState st.s (natList ids) (natList stores) (natList tids))
  | _ => (st, "bad-op")

def reset (_ : List String) : St := {}

end Sop.Driver.CommitProto
