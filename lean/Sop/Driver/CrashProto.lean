import Sop.Model.Recovery
import Sop.Driver.CommitProto
/-! Line protocol over the crash/recovery model, shared by the drivers of C08 and C09.
Input lines `h` / `b` / `cnt` / `store` / `fresh` are Model P's (CommitProto). Then:
* `crash k`   — the commit dies right before its k-th backend call. Output: the calls made before (Model P's own
  trace of the fault-free commit, cut), after checking that `Recovery.commitOps` is exactly the durable part of it.
* `state ids stores` — the disk state (registry images, blobs, counts, the dead transaction's log files).
* `recover`   — priority rollback + expired-log rollback; output: the durable calls they make.
* `verdict`   — before | after | same | neither, and loadable | dangling (annotated `#C08/follow-up-blocked-…` when the
  recovery left a node of the write set that no later writer can reserve).
* `public t1,t2,…` — C09: public transactions (Begin, open, Commit) at clock offsets (minutes) in a new process;
  `idle t1,t2,…` — the same with `onIdle` invoked once a store is attached. Output: per transaction which
  maintenance clocks moved.
-/
namespace Sop.Driver.CrashProto
open Sop.Driver Sop.Commit Sop.Recovery Sop.Driver.CommitProto

structure St where
  c : CommitProto.St := {}
  d : Option DState := none          -- the crashed (then recovered) state
  s0 : State := {}                   -- state before the commit
  glob : Globals := {}
deriving Inhabited

def tidC : Nat := 1

def ws (st : St) : WS := { stores := st.c.ws }

def showD (d : DState) (ids stores : List Nat) : String :=
  let s := d.s
  let hs := ids.filterMap s.reg
  let bl := ids.filter s.blob
  let cn := (stores.filter s.storeExists).map (fun st => s!"st{st}={s.cnt st}")
  s!"reg={showHandles hs} blobs={showIds bl} cnt=[{" ".intercalate cn}] tlog={if s.tlog d.tid then 1 else 0} plog={if d.plg.isSome then 1 else 0}"

def doCrash (st : St) (k : Nat) : St × String :=
  let w := ws st
  let created := w.stores.any (·.created)
  let s0 := st.c.s
  let sP := if created then { s0 with tlog := fun k => if k = tidC then true else s0.tlog k } else s0
  let r0 : Run := { s := sP, tid := tidC, fresh := st.c.fresh, cs := if created then .createStore else .unknown }
  let (o, r) := commit w st.c.maxRetry r0
  let evs := r.trace.reverse
  let dur := evs.filter (fun e => durable e.cls)
  let mine := (commitOps s0 st.c.fresh w).map DOp.ev
  if o != .ok then (st, "model: the fault-free commit does not succeed | " ++ " ; ".intercalate (evs.map showEv))
  else if dur != mine then
    (st, "model: commitOps differs from Model P's durable trace | " ++ " ; ".intercalate (mine.map showEv) ++ " | " ++ " ; ".intercalate (dur.map showEv))
  else
    let pre := evs.take (k - 1)
    let m := (pre.filter (fun e => durable e.cls)).length
    let d := crashAt s0 tidC st.c.fresh w m
    ({ st with d := some d, s0 := s0 }, " ; ".intercalate (pre.map showEv))

def verdict (st : St) (d : DState) : String :=
  let w := ws st
  let fin := (committed st.s0 tidC st.c.fresh w).s
  let isB := isBefore d.s st.s0 w
  let isA := isAfter d.s fin w
  let v := if isB && isA then "same" else if isB then "before" else if isA then "after" else "neither"
  -- a node of the write set that was reservable before the commit and can never be reserved again (C08-F4):
  -- reported by the model itself as a deviation from the specification (annotation, not part of the compared line)
  let blocked := (stuckLids d.s w).any (fun i => !(stuckLids st.s0 w).contains i)
  v ++ (if reachableOk d.s fin w then " loadable" else " dangling")
    ++ (if blocked then "\t#C08/follow-up-blocked-by-zeroed-timestamp-on-two-id-handle" else "")

def minutes (s : String) : List Int := (natList s).map (fun (n : Nat) => Int.ofNat n)

def runTxns (stores : Nat) (st : St) (d : DState) (ts : List Int) : St × String :=
  let now0 : Int := d.s.now + 3 * 3600000
  let rec go (g : Globals) (x : DState × List Ev) (ts : List Int) (acc : List String) : Globals × (DState × List Ev) × List String :=
    match ts with
    | [] => (g, x, acc.reverse)
    | t :: rest =>
      let i : Idle := onIdle stores (now0 + t * 60000) { g := g, x := x }
      go i.g i.x rest (s!"exp={i.ranExpired} prio={i.ranPriority}" :: acc)
  let (g, x, out) := go st.glob (d, []) ts []
  ({ st with d := some x.1, glob := g }, " | ".intercalate out ++ " || " ++ " ; ".intercalate (x.2.reverse.map showEv))

def step (st : St) (wsl : List String) : St × String :=
  match wsl with
  | ["crash", k] =>
    match k.toNat? with
    | some k => doCrash st k
    | none => (st, "bad-op")
  | ["state", ids, stores] =>
    match st.d with
    | some d => (st, showD d (natList ids) (natList stores))
    | none => (st, "no-crash-state")
  | ["recover"] =>
    match st.d with
    | some d =>
      let (d', t) := recover d
      ({ st with d := some d' }, " ; ".intercalate (t.map showEv))
    | none => (st, "no-crash-state")
  | ["verdict"] =>
    match st.d with
    | some d => (st, verdict st d)
    | none => (st, "no-crash-state")
  | ["public", ts] =>
    match st.d with
    | some d => runTxns 0 st d (minutes ts)
    | none => (st, "no-crash-state")
  | ["idle", ts] =>
    match st.d with
    | some d => runTxns 1 st d (minutes ts)
    | none => (st, "no-crash-state")
  | _ =>
    let (c, o) := CommitProto.step st.c wsl
    ({ st with c := c }, o)

def reset (_ : List String) : St := {}

end Sop.Driver.CrashProto
