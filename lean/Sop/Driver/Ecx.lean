import Sop.Model.Erasure
import Sop.Driver.Util
/-!
Shared line-protocol driver of C25 and C26 over `Sop.Model.Erasure`.

The model is parametric in the erasure code and the checksum. The driver instantiates them with a
real Reed–Solomon code over the prime field 257 (Lagrange interpolation at the points `0..d+p-1`;
systematic, MDS) and a polynomial hash. Neither is the code/checksum of the Go side (GF(2^8) matrix
code, MD5): what is compared is the outcome class, the repaired-index list and which files equal a
fresh encode — never parity bytes or checksum bytes.
-/
namespace Sop.Driver.Ecx
open Sop.Driver Sop.Erasure

def P : Nat := 257

def powMod (a : Nat) : Nat → Nat
  | 0 => 1
  | e+1 => powMod a e * a % P

def inv (a : Nat) : Nat := powMod (a % P) 255
def sub (a b : Nat) : Nat := (a + P - b % P) % P

def lagCoef (xs : List Nat) (xi x : Nat) : Nat :=
  xs.foldl (fun acc xj => if xj = xi then acc else acc * sub x xj % P * inv (sub xi xj) % P) 1

/-- the value at point `x` of the polynomial through `(xs[i], ys[i])`, column by column -/
def evalAt (xs : List Nat) (ys : List Bytes) (x : Nat) : Bytes :=
  let L := (ys.headD []).length
  (xs.zip ys).foldl (fun acc (xi, y) =>
    let c := lagCoef xs xi x
    List.zipWith (fun a b => (a + c * b) % P) acc y) (List.replicate L 0)

def rsCode (d p : Nat) : Code where
  d := d
  p := p
  parity ds := (List.range p).map fun j => evalAt (List.range d) ds (d + j)
  recon mask :=
    let have_ := ((mask.zipIdx.filterMap fun (m, i) => m.map fun b => (i, b)).take d)
    (List.range (d + p)).map fun i => evalAt (have_.map (·.1)) (have_.map (·.2)) i

/-- stand-in for md5: 16 "bytes" of a polynomial hash that also depends on the length -/
def hash (bs : Bytes) : Bytes :=
  let h := bs.foldl (fun h b => (h * 1000003 + b + 1) % 2305843009213693951) (7 + bs.length)
  let g := bs.foldl (fun h b => (h * 16777619 + b + 3) % 4611686018427387847) (11 + 31 * bs.length)
  (List.range 8).map (fun i => h / 256 ^ i % 256) ++ (List.range 8).map (fun i => g / 256 ^ i % 256)

/-- the data pattern of `ecx.GenData` -/
def genData (size salt mode : Nat) : Bytes :=
  let b := (List.range size).map fun i => if mode = 1 then 0 else (i * 131 + salt + i / 7) % 256
  if mode = 2 && size > 0 then
    let b := b.set (size - 1) 0
    if size > 1 then b.set (size - 2) 0 else b
  else b

def splitOnComma (s : String) : List String := if s == "-" then [] else s.splitOn ","

/-- per-shard deltas such that, for every d ≤ 4, p ≤ 3, every set of present shards and every non-empty
subset of corrupted ones among them, the error pattern is not a (punctured) code word of `rsCode`
(found by brute force): corrupted shards are never accidentally consistent. The Go side checks the same
of its own flips with the real encoder (`ecx.accidental`). -/
def deltas : List Nat := [7, 46, 84, 45, 35, 131, 131]

/-- `ecx.ApplyDamage` on a model file -/
def applyDamage (alt orig : Nat → Bytes) (i : Nat) (f : Option Bytes) (tok : String) : Option (Option Bytes) :=
  if tok == "g" then some f
  else if tok == "m" then some none
  else if tok == "o" then some (f.map fun b => if b.length ≥ metaSize then b.take metaSize ++ alt i else b)
  else match f with
    | none => some none
    | some b =>
      match (tok.drop 1).toNat? with
      | none => none
      | some n =>
        match tok.front with
        | 't' => some (some (if n < b.length then b.take n else b))
        | 'c' =>
          if b.length > metaSize then
            let k := metaSize + n % (b.length - metaSize)
            some (some (b.set k (((orig i).getD (k - metaSize) 0 + deltas.getD i 1) % P)))
          else some (some b)
        | 'k' =>
          if b.length ≥ metaSize then
            let k := 1 + n % 16
            some (some (b.set k ((b.getD k 0 + 1) % 256)))
          else some (some b)
        | 'z' => if b.length ≥ 1 then some (some (b.set 0 n)) else some (some b)
        | _ => none

def applyFrom (alt orig : Nat → Bytes) (i : Nat) : List (Option Bytes) → List String → Option (List (Option Bytes))
  | f :: fs, t :: ts => do
    let x ← applyDamage alt orig i f t
    let xs ← applyFrom alt orig (i + 1) fs ts
    pure (x :: xs)
  | fs, _ => some fs

structure St where
  d : Nat := 1
  p : Nat := 1
  repair : Bool := false
  v : Variant := .fixed
  data : Bytes := []
  files : List (Option Bytes) := []

def reset (hdr : List String) : St :=
  match hdr with
  | [d, p, r, v] =>
    let d := d.toNat!
    let p := p.toNat!
    { d := d, p := p, repair := r == "1", v := if v == "orig" then .orig else .fixed,
      files := List.replicate (d + p) none }
  | _ => {}

/-- body of shard `i` of the blob that differs from the stored one in its first byte -/
def altBody (st : St) (i : Nat) : Bytes :=
  let d2 := st.data.set 0 ((st.data.headD 0 + 1) % 256)
  (((encodeFiles (rsCode st.d st.p) hash d2).getD []).getD i []).drop metaSize

/-- body of shard `i` as written -/
def origBody (st : St) (i : Nat) : Bytes :=
  (((encodeFiles (rsCode st.d st.p) hash st.data).getD []).getD i []).drop metaSize

def applyAll (st : St) (dmg : List String) : Option (List (Option Bytes)) :=
  applyFrom (altBody st) (origBody st) 0 st.files dmg

def showIdx (l : List Nat) : String :=
  if l.isEmpty then "-" else ",".intercalate (l.map toString)

/-- per shard: g = equals the fresh encode, b = differs, m = absent -/
def fileStatus (st : St) : String :=
  match encodeFiles (rsCode st.d st.p) hash st.data with
  | none => String.ofList (st.files.map fun _ => 'm')
  | some fresh => String.ofList ((st.files.zip fresh).map fun (f, n) =>
      match f with
      | none => 'm'
      | some b => if b == n then 'g' else 'b')

def classOf (st : St) (r : DecodeResult) : String :=
  match r with
  | .ok data _ => if data == st.data then "ok:eq" else s!"ok:wrong:{data.length}"
  | .err => "err"
  | .panic => "panic"

def step (st : St) (ws : List String) : St × String :=
  let C := rsCode st.d st.p
  match ws with
  | ["add", size, salt, mode, fails] =>
    let data := genData size.toNat! salt.toNat! mode.toNat!
    let fl := splitOnComma fails
    let fail := (List.range (st.d + st.p)).map fun i => (fl.getD i "-") != "-"
    let (ok, files) := add C hash data fail st.files
    ({ st with data := data, files := files }, if ok then "ok" else "err")
  | ["get", dmg] =>
    match applyAll st (splitOnComma dmg) with
    | none => (st, "bad-op")
    | some files =>
      let (r, files', written) := getOne st.v C hash st.repair files
      let st' := { st with files := files' }
      match r with
      | .panic => (st', "panic")
      | _ => (st', s!"{classOf st r} rep={showIdx written} files={fileStatus st'}")
  | ["get2", dmg] =>
    match applyAll st (splitOnComma dmg) with
    | none => (st, "bad-op")
    | some files =>
      let (r, files', _) := getOne st.v C hash st.repair files
      ({ st with files := files' }, classOf st r)
  | _ => (st, "bad-op")

def run : IO Unit := runLoop reset step
end Sop.Driver.Ecx
