import Sop.Driver.C24

def main (args : List String) : IO UInt32 := do
  match args with
  | "C24" :: _ => Sop.Driver.C24.run; return 0
  | _ => IO.eprintln "usage: sopdriver <property-id>"; return 2
