import Sop.Model.Merge
import Sop.Driver.Util
/-! Line protocol over the commit-loop model `Sop.Merge` (shared by the C04 and C06 drivers). -/
namespace Sop.Driver.MergeProto
open Sop.Driver Sop.Merge

structure St where
  fixed : Bool := true
  s : State := {}

def kv (ws : List String) (k : String) : String :=
  match ws.find? (fun w => w.startsWith (k ++ "=")) with
  | some w => (w.drop (k.length + 1)).toString
  | none => ""

def listOf (s : String) (sep : String) : List String :=
  if s == "" || s == "-" then [] else s.splitOn sep

def parseOp (s : String) : Option Op :=
  match s.splitOn ":" with
  | [k, key, v] =>
    match key.toNat?, v.toNat? with
    | some key, some v =>
      let kind := if k == "add" then some OpKind.add else if k == "upd" then some OpKind.upd
        else if k == "rm" then some OpKind.rm else if k == "get" then some OpKind.get else none
      kind.map fun kd => { kind := kd, key := key, val := v }
    | _, _ => none
  | _ => none

def parseOps (s : String) : List Op := (listOf s ",").filterMap parseOp

def parsePage (s : String) : Option (Nat × PAct) :=
  match s.splitOn ":" with
  | [id, a] =>
    match id.toNat? with
    | some id =>
      if a == "get" then some (id, .get) else if a == "update" then some (id, .upd)
      else if a == "remove" then some (id, .rm) else if a == "add" then some (id, .add)
      else if a == "root" then some (id, .root) else none
    | none => none
  | _ => none

def parsePages (s : String) : List (Nat × PAct) := (listOf s ",").filterMap parsePage

def parseFault (s : String) : Fault :=
  if s == "clean" then .clean else if s == "count" then .count else if s == "late" then .late else .none

def showAct : Act → String
  | .get => "get" | .add => "add" | .upd => "upd" | .rm => "rm"

def insertSorted (t : Tr) : List Tr → List Tr
  | [] => [t]
  | x :: r => if t.key < x.key || (t.key == x.key && showAct t.act < showAct x.act) then t :: x :: r else x :: insertSorted t r

/-- tracked reads are only counted (the real tracker sees their key through an aliased slot pointer) -/
def showTracked (ts : List Tr) : String :=
  let sorted := (ts.filter (fun t => t.act != .get)).foldl (fun acc t => insertSorted t acc) []
  let gets := (ts.filter (fun t => t.act == .get)).length
  ",".intercalate (sorted.map (fun t => s!"{t.key}:{showAct t.act}:{t.verInDB}") ++ [s!"gets*{gets}"])

def showRes : Res → String
  | .ok => "ok" | .aborted => "aborted" | .errMerge => "err:merge" | .errItemLock => "err:itemlock"
  | .errRetries => "err:retries" | .errInjected => "err:injected" | .errTimeout => "err:timeout"

def showPc : Pc → String
  | .atLock => "L" | .atHold => "H" | .atDual => "D" | .done r => "done:" ++ showRes r

/-- after a merge failure the tracker and the counters are left half replayed (Go map order): only the result is compared -/
def showW (w : Writer) : String :=
  if w.pc = .done .errMerge then "state=done:err:merge"
  else s!"state={showPc w.pc} tracked={showTracked w.tracked} count={w.count}/{w.count0} passes={w.passes}"

/-- first-root race lines: the writer stands before `blobStore.Add` ("B"); loop passes are not compared -/
def showW0 (w : Writer) : String :=
  let st := match w.pc with | .atLock => "B" | pc => showPc pc
  s!"state={st} tracked={showTracked w.tracked} count={w.count}/{w.count0}"

def insertItem (t : Item) : List Item → List Item
  | [] => [t]
  | x :: r => if t.key < x.key then t :: x :: r else x :: insertItem t r

def showDump (s : State) : String :=
  let sorted := s.db.foldl (fun acc t => insertItem t acc) []
  let items := if sorted.isEmpty then "-" else ",".intercalate (sorted.map fun t => s!"{t.key}={t.val}")
  s!"count={s.count} items={items}"

def showBools (bs : List Bool) : String :=
  if bs.isEmpty then "-" else ",".intercalate (bs.map fun b => if b then "t" else "f")

/-- a setup transaction: operations, then a conflict-free install -/
def setupTxn (s : State) (ops : List Op) : State :=
  let o := applyOps s.db s.nextId s.nextLock ops
  { s with db := applyAll s.db o.tracked, count := s.count + net o.tracked, nextId := o.nextId, nextLock := o.nextLock }

/-- `variant=legacy` in a case header (C06: the harness found the pinned merge in the tree under test)
or the `--legacy` argument select the model of the unrepaired `refetchAndMergeClosure` -/
def reset (fixed0 : Bool) (hdr : List String) : St :=
  let fixed := fixed0 && kv hdr "variant" != "legacy"
  let maxRetry := (kv hdr "maxretry").toNat?.getD 30
  let s0 : State := { maxRetry := maxRetry }
  let s := (listOf (kv hdr "init") ";").foldl (fun s t => setupTxn s (parseOps t)) s0
  { fixed := fixed, s := s }

def step (st : St) (ws : List String) : St × String :=
  match ws with
  | "begin" :: w :: rest =>
    match w.toNat? with
    | none => (st, "bad-op")
    | some i =>
      let o := applyOps st.s.db st.s.nextId st.s.nextLock (parseOps (kv rest "ops"))
      let s1 := { st.s with nextId := o.nextId, nextLock := o.nextLock }
      let s2 := begin s1 i o.tracked (parsePages (kv rest "pages")) (parseFault (kv rest "fault")) (kv rest "abort" == "1")
      ({ st with s := s2 }, s!"res={showBools o.results} {showW (s2.ws i)}")
  | "step" :: w :: rest =>
    match w.toNat? with
    | none => (st, "bad-op")
    | some i =>
      let s2 := Merge.step st.fixed st.s i (parsePages (kv rest "pages"))
      ({ st with s := s2 }, showW (s2.ws i))
  | "rbegin" :: w :: rest =>
    -- first-root race: the writer runs up to its `blobStore.Add` of the new root node
    match w.toNat? with
    | none => (st, "bad-op")
    | some i =>
      let o := applyOps st.s.db st.s.nextId st.s.nextLock (parseOps (kv rest "ops"))
      let s1 := { st.s with nextId := o.nextId, nextLock := o.nextLock }
      let s2 := begin s1 i o.tracked (parsePages (kv rest "pages")) .none false
      ({ st with s := s2 }, s!"res={showBools o.results} {showW0 (s2.ws i)}")
  | ["rfinish", w] =>
    match w.toNat? with
    | none => (st, "bad-op")
    | some i =>
      let s2 := rootFinish st.s i
      ({ st with s := s2 }, showW0 (s2.ws i))
  | ["dump"] => (st, showDump st.s)
  | ["dumpc"] => (st, s!"count={st.s.count}")
  | _ => (st, "bad-op")

/-- `--legacy` runs the model of the unrepaired `refetchAndMergeClosure` -/
def run (args : List String) : IO Unit := runLoop (reset (!args.contains "--legacy")) step
end Sop.Driver.MergeProto
