import Sop.Model.Occ
import Sop.Model.OccFresh
import Sop.Props.C02
import Sop.Driver.Util
/-! Line protocol over Model L (shared by the C02 and C05 drivers). See harness/occx/emit.go for the Go side.

  case n unique=<0|1> maxretry=<n>
  item <id> <key> <val> <ver> <page>       -> ok
  pg <id> <page>                           -> ok      (page of an item a transaction will add)
  txn <t> <w|r> <commit|abort> <op>...     -> ok      ops: get:k upd:k:v updf:k:src:d add:id:k:v addne:id:k:v ups:id:k:v rm:k touch:k
  step <t> <hint>...                       -> state line of transaction t after the step
  end                                      -> final committed state, then `\t%hyp:good|not-good(<first failing conjunct>)+goodU|not-goodU`: whether every step of the case met
                                              C02's hypotheses (`GoodN`) and C05's install-freshness hypothesis (`InstallFreshN`)
-/
namespace Sop.Driver.OccProto
open Sop.Driver Sop.Occ

def parseOp (s : String) : Option Op :=
  match s.splitOn ":" with
  | ["get", k] => k.toInt?.map Op.get
  | ["rm", k] => k.toInt?.map (Op.rm · 0)
  | ["rmx", k, j] => do pure (Op.rm (← k.toInt?) (← j.toNat?))
  | ["touch", k] => k.toInt?.map Op.touch
  | ["upd", k, v] => do pure (Op.upd (← k.toInt?) (← v.toInt?))
  | ["updf", k, s, d] => do pure (Op.updf (← k.toInt?) (← s.toInt?) (← d.toInt?))
  | ["add", i, k, v] => do pure (Op.add (← i.toNat?) (← k.toInt?) (← v.toInt?))
  | ["addne", i, k, v] => do pure (Op.addne (← i.toNat?) (← k.toInt?) (← v.toInt?))
  | ["ups", i, k, v] => do pure (Op.ups (← i.toNat?) (← k.toInt?) (← v.toInt?))
  | _ => none

def actName : Act → String
  | .get => "get" | .add => "add" | .update => "update" | .remove => "remove"

def pcName : Pc → String
  | .begin => "begin" | .lget => "lget" | .lset => "lset" | .lverify => "lget" | .plock => "plock"
  | .validate => "validate" | .check => "lget" | .install => "install" | .ldel _ => "ldel" | .done => "done"

def resName : Res → String
  | .running => "-" | .ok => "ok" | .err => "err" | .abort => "abort"

def insertBy {α : Type} (lt : α → α → Bool) (x : α) : List α → List α
  | [] => [x]
  | y :: ys => if lt x y then x :: y :: ys else y :: insertBy lt x ys

def sortBy {α : Type} (lt : α → α → Bool) (l : List α) : List α := l.foldl (fun acc x => insertBy lt x acc) []

def natList (l : List Nat) : String := "[" ++ " ".intercalate (l.map toString) ++ "]"

def showRecs (g : G) : String :=
  let ids := sortBy (· < ·) (dedup g.ids)
  let rs := ids.filterMap fun i => (g.recs i).map fun r => s!"{i}={r.txn}.{r.gen}:{actName r.act}"
  "[" ++ " ".intercalate rs ++ "]"

def showState (g : G) (i : Nat) (withResults : Bool) : String :=
  let t := g.txns i
  let base := s!"at={pcName t.pc} res={resName t.res}"
  let detail :=
    if t.pc = .done then "" else
    if (match t.pc with | .ldel _ => true | _ => false) then
      let live := sortBy (fun a b => a.item < b.item) (t.tracked.filter (·.live))
      s!" own={natList ((live.filter (fun tr => tr.own)).map (·.item))}"
    else
      let live := sortBy (fun a b => a.item < b.item) (t.tracked.filter (·.live))
      let own := (live.filter (fun tr => tr.own)).map (·.item)
      let trs := ",".intercalate (live.map fun tr => s!"{tr.item}:{actName tr.act}:{tr.ent.ver}")
      let u := sortBy (· < ·) (t.upages g)
      let f := sortBy (· < ·) ((t.seen.map (·.1)).filter fun p => !u.contains p)
      s!" own={natList own} tr={trs} pg=f{natList f} u{natList u}"
  let rs := if withResults then
      " r=" ++ ",".intercalate (t.results.map fun r => if r.ok then s!"ok:{r.val}:{r.ver}" else "no")
    else ""
  base ++ detail ++ s!" recs={showRecs g}" ++ rs

def showDb (g : G) : String :=
  let rows := (dedup g.ids).filterMap fun i => (g.db i).map fun e => (i, e)
  let rows := sortBy (fun a b => a.2.key < b.2.key || (a.2.key == b.2.key && a.1 < b.1)) rows
  "db=[" ++ " ".intercalate (rows.map fun (i, e) => s!"{e.key}={e.val}@{e.ver}#{i}") ++ "]"

def kv (ws : List String) (k : String) : Option String :=
  ws.findSome? fun w => match w.splitOn "=" with
    | [a, b] => if a = k then some b else none
    | _ => none

def reset (hdr : List String) : G :=
  { unique := (kv hdr "unique").getD "1" == "1", keepTracker := (kv hdr "keeptracker").getD "0" == "1", maxRetry := ((kv hdr "maxretry").bind String.toNat?).getD 30 }

def step (g : G) (ws : List String) : G × String :=
  match ws with
  | ["item", id, k, v, ver, pg] =>
    match id.toNat?, k.toInt?, v.toInt?, ver.toNat?, pg.toNat? with
    | some id, some k, some v, some ver, some pg =>
      let pageOf := g.pageOf
      ({ g with ids := g.ids ++ [id], db := fset g.db id (some ⟨k, v, ver⟩), pageOf := fun x => if x = id then pg else pageOf x }, "ok")
    | _, _, _, _, _ => (g, "bad-op")
  | ["pg", id, pg] =>
    match id.toNat?, pg.toNat? with
    | some id, some pg => let pageOf := g.pageOf; ({ g with pageOf := fun x => if x = id then pg else pageOf x }, "ok")
    | _, _ => (g, "bad-op")
  | "txn" :: t :: mode :: fin :: ops =>
    match t.toNat?, ops.mapM parseOp with
    | some t, some ops =>
      (setTxn g t { reader := mode == "r", abort := fin == "abort", prog := ops }, "ok")
    | _, _ => (g, "bad-op")
  | "step" :: t :: hint =>
    match t.toNat?, hint.mapM String.toNat? with
    | some t, some hint =>
      let wasBegin := (g.txns t).pc = .begin
      let g' := Occ.step g t hint
      (g', showState g' t wasBegin)
    | _, _ => (g, "bad-op")
  | ["end"] => (g, showDb g)
  | "note" :: _ => (g, "ok")
  | _ => (g, "bad-op")

/-- driver state: the model state and whether every step so far met `InstallFreshN` -/
structure St where
  g : G
  goodU : Bool := true
  good : Bool := true     -- C02's hypotheses (`Sop.C02.GoodN`: Covered, Shape, ChecksAll, BeginSound) held before every step
  n : Nat := 0            -- transactions 0 .. n-1 exist
  bad : String := ""      -- the first conjunct of `GoodN` that failed

def resetSt (hdr : List String) : St := { g := reset hdr }

def stepSt (s : St) (ws : List String) : St × String :=
  let (g', out) := step s.g ws
  match ws with
  | "step" :: t :: _ =>
    match t.toNat? with
    | some t =>
      let items := s.g.ids ++ ((s.g.txns t).tracked.map (·.item))
      let hint := (ws.drop 2).filterMap String.toNat?
      let why := if !decide (Sop.C02.CoveredN s.n s.g) then "covered" else if !decide (Sop.C02.ShapeN s.n s.g) then "shape"
        else if !decide (ChecksAll s.g) then "checks" else if !decide (Sop.C02.BeginSoundD s.g t hint) then "beginsound" else ""
      ({ s with g := g', goodU := s.goodU && decide (InstallFreshN items s.g t), good := s.good && why.isEmpty,
                bad := if s.bad.isEmpty then why else s.bad }, out)
    | none => ({ s with g := g' }, out)
  | "txn" :: t :: _ => ({ s with g := g', n := max s.n ((t.toNat?.getD 0) + 1) }, out)
  | ["end"] =>
    let why := if !s.bad.isEmpty then s.bad else if !decide (Sop.C02.CoveredN s.n s.g) then "covered" else if !decide (Sop.C02.ShapeN s.n s.g) then "shape"
      else if !decide (ChecksAll s.g) then "checks" else ""
    let u := if s.goodU then "goodU" else "not-goodU"
    ({ s with g := g' }, out ++ (if why.isEmpty then s!"\t%hyp:good+{u}" else s!"\t%hyp:not-good({why})+{u}"))
  | _ => ({ s with g := g' }, out)

def run : IO Unit := runLoop resetSt stepSt
end Sop.Driver.OccProto
