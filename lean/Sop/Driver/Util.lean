/-! Line-protocol helpers shared by the per-property drivers (core Lean only). -/
namespace Sop.Driver

def hexDigit (n : Nat) : Char :=
  if n < 10 then Char.ofNat (48 + n) else Char.ofNat (87 + n)

def hexOfBytes (bs : List Nat) : String :=
  String.ofList (bs.flatMap fun b => [hexDigit (b / 16 % 16), hexDigit (b % 16)])

def hexVal (c : Char) : Option Nat :=
  if '0' ≤ c ∧ c ≤ '9' then some (c.toNat - 48)
  else if 'a' ≤ c ∧ c ≤ 'f' then some (c.toNat - 87)
  else if 'A' ≤ c ∧ c ≤ 'F' then some (c.toNat - 55)
  else none

def bytesOfHexChars : List Char → Option (List Nat)
  | [] => some []
  | [_] => none
  | a :: b :: rest => do
    let x ← hexVal a
    let y ← hexVal b
    let r ← bytesOfHexChars rest
    pure ((x * 16 + y) :: r)

/-- "-" stands for the empty byte string -/
def bytesOfHex (s : String) : Option (List Nat) :=
  if s == "-" then some [] else bytesOfHexChars s.toList

def hexOrDash (bs : List Nat) : String := if bs.isEmpty then "-" else hexOfBytes bs

def words (line : String) : List String :=
  (line.splitOn " ").filter (· ≠ "")

def stripEol (line : String) : String :=
  let l := line.toList.reverse.dropWhile (fun c => c == '\n' || c == '\r')
  String.ofList l.reverse

/-- Generic loop: `reset header` makes a fresh state at every `case` line, `step` handles one op. -/
partial def loop {σ : Type} (h : IO.FS.Stream) (out : IO.FS.Stream) (reset : List String → σ) (step : σ → List String → σ × String) (st : σ) : IO Unit := do
  let line ← h.getLine
  if line.isEmpty then
    out.flush
    return ()
  let ws := words (stripEol line)
  match ws with
  | [] => loop h out reset step st
  | "case" :: n :: hdr =>
    out.putStrLn s!"case {n}"
    loop h out reset step (reset hdr)
  | _ =>
    let (st', o) := step st ws
    out.putStrLn o
    loop h out reset step st'

def runLoop {σ : Type} (reset : List String → σ) (step : σ → List String → σ × String) : IO Unit := do
  let i ← IO.getStdin
  let o ← IO.getStdout
  loop i o reset step (reset [])

def boolOf (s : String) : Option Bool :=
  if s == "1" then some true else if s == "0" then some false else none

def b01 (b : Bool) : String := if b then "1" else "0"

end Sop.Driver
