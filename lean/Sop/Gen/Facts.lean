-- GENERATED from /repo by the harness `extract` sub-command on every run. Do not edit.
namespace Sop.Facts
def blockSize : Nat := 4096
def handleSizeInBytes : Nat := 62
def handlesPerBlock : Nat := 66
end Sop.Facts
