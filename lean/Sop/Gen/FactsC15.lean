-- GENERATED from /repo by the harness `extract` sub-command on every run. Do not edit.
namespace Sop.FactsC15
def lockFileRegionDurationMs : Nat := 300000
def lockSectorRetryTimeoutMs : Nat := 180000
def phase1MaxRetry : Nat := 30
def retryAttempts : Nat := 6
def retryStartMs : Nat := 1000
def retryTotalSleepMs : Nat := 12000
end Sop.FactsC15
