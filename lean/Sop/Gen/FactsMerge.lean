-- GENERATED from /repo by the harness `extract` sub-command on every run. Do not edit.
namespace Sop.FactsMerge
def phase1MaxRetry : Nat := 30
end Sop.FactsMerge
