-- GENERATED from /repo by the harness `extract` sub-command on every run. Do not edit.
namespace Sop.FactsRbac
def actionAISelect : String := "ai_select"
def actionDelete : String := "delete"
def actionList : String := "list"
def actionRead : String := "read"
def actionWrite : String := "write"
def capAISelect : String := "can_ai_select"
def capDelete : String := "can_delete"
def capEdit : String := "can_edit"
def capRead : String := "can_read"
def coreNames : List String := ["SOP", "LongTermMemory"]
def roleAdmin : String := "Admin"
def roleGuest : String := "Guest"
def roleUser : String := "User"
def visPrivate : String := "private"
def visPublic : String := "public"
def visSystem : String := "system"
def wildcard : String := "*"
end Sop.FactsRbac
