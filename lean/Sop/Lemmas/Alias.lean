import Sop.Model.Alias
/-! # Lemmas behind C38: node objects, fetched values, uncommitted work (`Sop.Props.C38` states the theorems) -/
namespace Sop.C38
open Sop.Alias

/-- contents returned by the reads of a history (also the reads of another, cold process) -/
def reads (s : St) : List Op → List (Option Nat)
  | [] => []
  | .read k kind :: rest => (s.apply (.read k kind)).2 :: reads (s.apply (.read k kind)).1 rest
  | .cold k :: rest => (s.apply (.cold k)).2 :: reads (s.apply (.cold k)).1 rest
  | op :: rest => reads (s.apply op).1 rest

def isMutate : Op → Bool
  | .mutate _ => true
  | _ => false

/-! ## node objects: the L1 entry is never the node a transaction works on -/

/-- the open transaction works on the very node object the L1 cache holds -/
def sharesNode (s : St) : Bool :=
  match s.txn, s.l1 with
  | some t, some (a, _) => t.node == some a
  | _, _ => false

/-- every node object was allocated below the address counter; the L1 entry and the open transaction's node are
allocated; and they are DIFFERENT objects -/
structure Priv (s : St) : Prop where
  code : s.uncloned = false
  nodes : ∀ e ∈ s.nodes, e.1 < s.next
  l1 : ∀ a v, s.l1 = some (a, v) → a < s.next
  txn : ∀ t a, s.txn = some t → t.node = some a → a < s.next ∧ ∀ a' v, s.l1 = some (a', v) → a' ≠ a

theorem unmarshalCells_next (d : Disk) : ∀ (h : Heap) (nx : Nat), nx ≤ (unmarshalCells d h nx).2.2 := by
  induction d with
  | nil => intro h nx; exact Nat.le_refl _
  | cons e rest ih =>
    intro h nx
    simp only [unmarshalCells]
    exact Nat.le_trans (Nat.le_succ _) (ih _ _)

theorem unmarshal_next (vnf : Bool) (d : Disk) (h : Heap) (nx : Nat) : nx ≤ (unmarshal vnf d h nx).2.2 := by
  unfold unmarshal; split
  · exact Nat.le_refl _
  · exact unmarshalCells_next d h nx

/-- what `load` guarantees about node objects, whatever it finds in the caches -/
theorem load_priv (s : St) (hc : s.uncloned = false) (hn : ∀ e ∈ s.nodes, e.1 < s.next)
    (hl : ∀ a v, s.l1 = some (a, v) → a < s.next) :
    s.load.1.uncloned = false ∧ s.load.1.txn = s.txn ∧ s.load.1.ret = s.ret ∧ s.load.1.vnf = s.vnf ∧ s.next ≤ s.load.1.next ∧
    (∀ e ∈ s.load.1.nodes, e.1 < s.load.1.next) ∧ s.load.2 < s.load.1.next ∧
    (∀ a v, s.load.1.l1 = some (a, v) → a < s.load.1.next ∧ a ≠ s.load.2) := by
  have mono : ∀ {x y z : Nat}, x < y → y ≤ z → x < z := fun h1 h2 => Nat.lt_of_lt_of_le h1 h2
  unfold St.load
  split
  · -- L1 hit: CopyTo into a new node object
    rename_i a heq
    simp only [St.clone, St.newNode]
    refine ⟨(by first | trivial | rfl | exact hc), (by first | trivial | rfl | exact hc), (by first | trivial | rfl | exact hc), (by first | trivial | rfl | exact hc), Nat.le_succ _, ?_, Nat.lt_succ_self _, ?_⟩
    · intro e he
      rcases List.mem_cons.1 he with h1 | h1
      · rw [h1]; exact Nat.lt_succ_self _
      · exact Nat.lt_succ_of_lt (hn e h1)
    · intro a' v h'
      have := hl a' v h'
      exact ⟨Nat.lt_succ_of_lt this, Nat.ne_of_lt this⟩
  · split
    · -- L2 hit: unmarshal into a new node object, a CLONE of it goes into L1
      rename_i snap vok heq2
      simp only [hc, St.clone, St.newNode]
      generalize hu : unmarshal s.vnf snap s.heap s.next = r
      obtain ⟨n, h, nx⟩ := r
      have hnx : s.next ≤ nx := by have := unmarshal_next s.vnf snap s.heap s.next; rw [hu] at this; exact this
      simp only [Bool.false_eq_true, if_false]
      refine ⟨(by first | trivial | rfl | exact hc), (by first | trivial | rfl | exact hc), (by first | trivial | rfl | exact hc), (by first | trivial | rfl | exact hc), by omega, ?_, by omega, ?_⟩
      · intro e he
        rcases List.mem_cons.1 he with h1 | h1
        · rw [h1]; exact Nat.lt_succ_self _
        · rcases List.mem_cons.1 h1 with h2 | h2
          · rw [h2]; exact Nat.lt_succ_of_lt (Nat.lt_succ_self _)
          · have := hn e h2; omega
      · intro a' v h'
        simp only [Option.some.injEq, Prod.mk.injEq] at h'
        omega
    · -- blob: unmarshal into a new node object, `SetNode` puts a CLONE of it into L1
      simp only [St.clone, St.newNode]
      generalize hu : unmarshal s.vnf s.disk s.heap s.next = r
      obtain ⟨n, h, nx⟩ := r
      have hnx : s.next ≤ nx := by have := unmarshal_next s.vnf s.disk s.heap s.next; rw [hu] at this; exact this
      dsimp only
      refine ⟨(by first | trivial | rfl | exact hc), (by first | trivial | rfl | exact hc), (by first | trivial | rfl | exact hc), (by first | trivial | rfl | exact hc), by omega, ?_, by omega, ?_⟩
      · intro e he
        rcases List.mem_cons.1 he with h1 | h1
        · rw [h1]; exact Nat.lt_succ_self _
        · rcases List.mem_cons.1 h1 with h2 | h2
          · rw [h2]; exact Nat.lt_succ_of_lt (Nat.lt_succ_self _)
          · have := hn e h2; omega
      · intro a' v h'
        simp only [Option.some.injEq, Prod.mk.injEq] at h'
        omega

/-- the facts about `s.node t` (the transaction's node object, loaded on first use) -/
structure NodeFacts (s s1 : St) (a : Nat) : Prop where
  code : s1.uncloned = false
  txn : s1.txn = s.txn
  ret : s1.ret = s.ret
  vnf : s1.vnf = s.vnf
  mono : s.next ≤ s1.next
  nodes : ∀ e ∈ s1.nodes, e.1 < s1.next
  lt : a < s1.next
  l1 : ∀ a' v, s1.l1 = some (a', v) → a' < s1.next ∧ a' ≠ a

theorem node_priv (s : St) (h : Priv s) (t : Txn) (ht : s.txn = some t) : NodeFacts s (s.node t).1 (s.node t).2 := by
  unfold St.node
  split
  · rename_i a ha
    obtain ⟨h1, h2⟩ := h.txn t a ht ha
    exact ⟨h.code, rfl, rfl, rfl, Nat.le_refl _, h.nodes, h1, fun a' v h' => ⟨h.l1 a' v h', h2 a' v h'⟩⟩
  · obtain ⟨p1, p2, p3, p4, p5, p6, p7, p8⟩ := load_priv s h.code h.nodes h.l1
    exact ⟨p1, p2, p3, p4, p5, p6, p7, p8⟩

/-- a write to the transaction's own node object keeps the invariant -/
theorem priv_of_write {s1 s2 : St} {a : Nat} {n : Node} {t' : Txn} (hc : s2.uncloned = false)
    (hn : s2.nodes = (a, n) :: s1.nodes) (hnodes : ∀ e ∈ s1.nodes, e.1 < s1.next) (hlt : a < s1.next)
    (hl1 : ∀ a' v, s1.l1 = some (a', v) → a' < s1.next ∧ a' ≠ a)
    (hmono : s1.next ≤ s2.next) (hl : s2.l1 = s1.l1) (ht : s2.txn = some t') (hta : t'.node = some a) : Priv s2 := by
  refine ⟨hc, ?_, ?_, ?_⟩
  · intro e he
    rw [hn] at he
    rcases List.mem_cons.1 he with h1 | h1
    · rw [h1]; exact Nat.lt_of_lt_of_le hlt hmono
    · exact Nat.lt_of_lt_of_le (hnodes e h1) hmono
  · intro a' v h'
    rw [hl] at h'
    exact Nat.lt_of_lt_of_le (hl1 a' v h').1 hmono
  · intro t a0 h1 h2
    rw [ht] at h1
    cases h1
    rw [hta] at h2
    cases h2
    refine ⟨Nat.lt_of_lt_of_le hlt hmono, fun a' v h' => ?_⟩
    rw [hl] at h'
    exact (hl1 a' v h').2

/-- **Node objects are private.**  Whatever a history does (any kind, any placement, evictions of any cache tier), the
node object in the process-wide L1 cache is never the node object a transaction works on: every path into L1 —
the L1-miss/L2-hit fill, the fill after a blob load, `populateMru` — installs a COPY, and every path out of it makes one. -/
theorem step_priv (s : St) (h : Priv s) (op : Op) : Priv (s.apply op).1 := by
  cases op with
  | begin =>
    exact ⟨h.code, h.nodes, h.l1, fun t a ht hta => by simp [St.apply] at ht; rw [← ht] at hta; cases hta⟩
  | read k kind =>
    simp only [St.apply]
    split
    · exact h
    · rename_i t ht
      have nf := node_priv s h t ht
      generalize s.node t = p at nf
      obtain ⟨s1, a⟩ := p
      simp only at nf ⊢
      split
      · exact priv_of_write (s1 := s1) nf.code rfl nf.nodes nf.lt nf.l1 (Nat.le_refl _) rfl rfl rfl
      · split
        · exact priv_of_write (s1 := s1) nf.code rfl nf.nodes nf.lt nf.l1 (Nat.le_succ _) rfl rfl rfl
        · exact priv_of_write (s1 := s1) nf.code rfl nf.nodes nf.lt nf.l1 (Nat.le_refl _) rfl rfl rfl
      · exact priv_of_write (s1 := s1) nf.code rfl nf.nodes nf.lt nf.l1 (Nat.le_refl _) rfl rfl rfl
  | mutate x =>
    simp only [St.apply]
    split
    · exact ⟨h.code, h.nodes, h.l1, h.txn⟩
    · exact h
  | update k v =>
    simp only [St.apply]
    split
    · exact h
    · rename_i t ht
      split
      · exact h
      · have nf := node_priv s h t ht
        generalize s.node t = p at nf
        obtain ⟨s1, a⟩ := p
        exact priv_of_write (s1 := s1) nf.code rfl nf.nodes nf.lt nf.l1 (Nat.le_succ _) rfl rfl rfl
  | commit =>
    simp only [St.apply]
    split
    · exact h
    · rename_i t ht
      split
      · -- `populateMru`: a clone of the transaction's node goes into L1; the transaction is over
        simp only [St.clone, St.newNode]
        refine ⟨h.code, ?_, ?_, ?_⟩
        · intro e he
          rcases List.mem_cons.1 he with h1 | h1
          · rw [h1]; exact Nat.lt_succ_self _
          · exact Nat.lt_succ_of_lt (h.nodes e h1)
        · intro a' v h'
          simp only [Option.some.injEq, Prod.mk.injEq] at h'
          rw [← h'.1]; exact Nat.lt_succ_self _
        · intro t' a' h1; cases h1
      · exact ⟨h.code, h.nodes, h.l1, fun t' a' h1 => by cases h1⟩
  | rollback => exact ⟨h.code, h.nodes, h.l1, fun t' a' h1 => by simp [St.apply] at h1⟩
  | clear => exact ⟨h.code, h.nodes, fun a v h' => by simp [St.apply] at h', fun t a ht hta => ⟨(h.txn t a ht hta).1, fun a' v h' => by simp [St.apply] at h'⟩⟩
  | evict1 => exact ⟨h.code, h.nodes, fun a v h' => by simp [St.apply] at h', fun t a ht hta => ⟨(h.txn t a ht hta).1, fun a' v h' => by simp [St.apply] at h'⟩⟩
  | evicth => exact ⟨h.code, h.nodes, h.l1, h.txn⟩
  | evict2 => exact ⟨h.code, h.nodes, h.l1, h.txn⟩
  | cold k => exact h

theorem run_priv (ops : List Op) : ∀ s, Priv s → Priv (runFrom s ops).1 := by
  induction ops with
  | nil => intro s h; exact h
  | cons op rest ih =>
    intro s h
    simp only [runFrom]
    exact ih _ (step_priv s h op)

theorem priv_init (vnf : Bool) (disk : Disk) : Priv { vnf := vnf, disk := disk } :=
  ⟨rfl, (fun _ h => by cases h), (fun _ _ h => by cases h), (fun _ _ h => by cases h)⟩

theorem priv_not_shared (s : St) (h : Priv s) : sharesNode s = false := by
  unfold sharesNode
  split
  · rename_i t a v ht hl
    cases hn : t.node with
    | none => rfl
    | some a' =>
      have := (h.txn t a' ht hn).2 a v hl
      simp
      exact fun hEq => this hEq.symm
  · rfl

/-! ## stores whose values are fetched from value blobs: a fetched value is hung on the transaction's own node only -/

theorem getNode_cons (b : Nat) (n : Node) (ns : Nodes) (a : Nat) :
    getNode ((b, n) :: ns) a = if b = a then n else getNode ns a := rfl

theorem getNode_cons_ne {b : Nat} {n : Node} {ns : Nodes} {a : Nat} (h : b ≠ a) : getNode ((b, n) :: ns) a = getNode ns a := by
  rw [getNode_cons, if_neg h]

theorem getNode_cons_self (b : Nat) (n : Node) (ns : Nodes) : getNode ((b, n) :: ns) b = n := by
  rw [getNode_cons, if_pos rfl]

theorem setSlot_keys (n : Node) (k : Nat) (v : Option Nat) : (setSlot n k v).map Prod.fst = n.map Prod.fst := by
  unfold setSlot
  rw [List.map_map]
  apply List.map_congr_left
  intro e _
  simp only [Function.comp]
  split
  · rename_i h; exact h.symm
  · rfl

theorem mem_setSlot {n : Node} {k : Nat} {v : Option Nat} {e : Nat × Option Nat} (h : e ∈ setSlot n k v) :
    e = (k, v) ∨ (e ∈ n ∧ e.1 ≠ k) := by
  unfold setSlot at h
  obtain ⟨e0, he0, hee⟩ := List.mem_map.1 h
  by_cases hk : e0.1 = k
  · left; rw [if_pos hk] at hee; exact hee.symm
  · right; rw [if_neg hk] at hee; subst hee; exact ⟨he0, hk⟩

theorem getSlot_mem {n : Node} {k : Nat} {sl : Option Nat} (h : getSlot n k = some sl) : (k, sl) ∈ n := by
  induction n with
  | nil => cases h
  | cons e rest ih =>
    simp only [getSlot] at h
    split at h
    · rename_i hk
      cases h
      have : e = (k, e.2) := by rw [← hk]
      rw [this]; exact List.mem_cons_self ..
    · exact List.mem_cons_of_mem _ (ih h)

theorem getSlot_none {n : Node} {k : Nat} (h : getSlot n k = none) : ∀ e ∈ n, e.1 ≠ k := by
  induction n with
  | nil => intro e he; cases he
  | cons e0 rest ih =>
    simp only [getSlot] at h
    split at h
    · cases h
    · rename_i hk
      intro e he
      rcases List.mem_cons.1 he with h1 | h1
      · rw [h1]; exact hk
      · exact ih h e h1

theorem keys_get {n : Node} {d : Disk} {k : Nat} : n.map Prod.fst = d.map Prod.fst →
    ((getSlot n k = none) ↔ (Alias.get d k = none)) := by
  induction n generalizing d with
  | nil =>
    intro h
    cases d with
    | nil => simp [getSlot, Alias.get]
    | cons f drest => simp at h
  | cons e rest ih =>
    intro h
    cases d with
    | nil => simp at h
    | cons f drest =>
      simp only [List.map_cons, List.cons.injEq] at h
      simp only [getSlot, Alias.get]
      rw [← h.1]
      split
      · simp
      · exact ih h.2

/-- the invariant of a store whose values live in value blobs (`update` does nothing there in the model: the harness
never updates such a store inside a scenario): the node object in L1 and the L2 payload carry no value; in the
open transaction's own node object only the slot under the cursor may have a value hung on it -/
structure VInv (s : St) : Prop where
  vnf : s.vnf = true
  priv : Priv s
  clean : ∀ t, s.txn = some t → t.dirty = false
  snap : ∀ d v, s.l2 = some (d, v) → d = s.disk
  l1 : ∀ a v, s.l1 = some (a, v) →
    (getNode s.nodes a).map Prod.fst = s.disk.map Prod.fst ∧ ∀ e ∈ getNode s.nodes a, e.2 = none
  tnode : ∀ t a, s.txn = some t → t.node = some a →
    (getNode s.nodes a).map Prod.fst = s.disk.map Prod.fst ∧ ∀ e ∈ getNode s.nodes a, e.2 ≠ none → t.cur = some e.1

theorem unmarshal_vnf (d : Disk) (h : Heap) (nx : Nat) :
    unmarshal true d h nx = (d.map (fun e => (e.1, none)), h, nx) := by simp [unmarshal]

theorem blank_keys (d : Disk) : (d.map (fun e => ((e.1, none) : Nat × Option Nat))).map Prod.fst = d.map Prod.fst := by
  rw [List.map_map]; rfl

theorem blank_none (d : Disk) : ∀ e ∈ d.map (fun e => ((e.1, none) : Nat × Option Nat)), e.2 = none := by
  intro e he
  obtain ⟨f, _, hf⟩ := List.mem_map.1 he
  rw [← hf]

/-- what `load` guarantees in such a store -/
theorem load_vnf (s : St) (h : VInv s) :
    s.load.1.disk = s.disk ∧ (∀ d v, s.load.1.l2 = some (d, v) → d = s.disk) ∧
    (∀ a v, s.load.1.l1 = some (a, v) →
      (getNode s.load.1.nodes a).map Prod.fst = s.disk.map Prod.fst ∧ ∀ e ∈ getNode s.load.1.nodes a, e.2 = none) ∧
    (getNode s.load.1.nodes s.load.2).map Prod.fst = s.disk.map Prod.fst ∧ (∀ e ∈ getNode s.load.1.nodes s.load.2, e.2 = none) := by
  have hv := h.vnf
  unfold St.load
  split
  · rename_i a heq
    obtain ⟨k1, k2⟩ := h.l1 a true heq
    have hlt := h.priv.l1 a true heq
    simp only [St.clone, St.newNode]
    refine ⟨trivial, h.snap, ?_, ?_, ?_⟩
    · intro a' v h'
      rw [heq] at h'
      simp only [Option.some.injEq, Prod.mk.injEq] at h'
      rw [← h'.1, getNode_cons_ne (Nat.ne_of_gt hlt)]
      exact ⟨k1, k2⟩
    · rw [getNode_cons_self]; exact k1
    · rw [getNode_cons_self]; exact k2
  · split
    · rename_i d vok heq2
      have hd := h.snap d vok heq2
      subst hd
      simp only [h.priv.code, hv, unmarshal_vnf, St.clone, St.newNode, Bool.false_eq_true, if_false]
      refine ⟨trivial, ?_, ?_, ?_, ?_⟩
      · intro d' v' h'; exact h.snap d' v' h' 
      · intro a' v h'
        simp only [Option.some.injEq, Prod.mk.injEq] at h'
        rw [← h'.1, getNode_cons_self, getNode_cons_self]
        exact ⟨blank_keys _, blank_none _⟩
      · rw [getNode_cons_ne (Nat.succ_ne_self _), getNode_cons_self]; exact blank_keys _
      · rw [getNode_cons_ne (Nat.succ_ne_self _), getNode_cons_self]; exact blank_none _
    · simp only [hv, unmarshal_vnf, St.clone, St.newNode]
      refine ⟨trivial, ?_, ?_, ?_, ?_⟩
      · intro d' v' h'
        simp only [Option.some.injEq, Prod.mk.injEq] at h'
        exact h'.1.symm
      · intro a' v h'
        simp only [Option.some.injEq, Prod.mk.injEq] at h'
        rw [← h'.1, getNode_cons_self, getNode_cons_self]
        exact ⟨blank_keys _, blank_none _⟩
      · rw [getNode_cons_ne (Nat.succ_ne_self _), getNode_cons_self]; exact blank_keys _
      · rw [getNode_cons_ne (Nat.succ_ne_self _), getNode_cons_self]; exact blank_none _

theorem unfetched_spec {n : Node} {cur : Option Nat} (k : Nat) (hq : ∀ e ∈ n, e.2 ≠ none → cur = some e.1) :
    (unfetched n cur k).map Prod.fst = n.map Prod.fst ∧
    ∀ e ∈ unfetched n cur k, e.2 ≠ none → e.1 = k ∧ cur = some k := by
  unfold unfetched
  cases cur with
  | none => exact ⟨rfl, fun e he hne => by cases hq e he hne⟩
  | some k' =>
    simp only
    split
    · rename_i hk
      refine ⟨rfl, fun e he hne => ?_⟩
      have := hq e he hne
      simp only [Option.some.injEq] at this
      exact ⟨by rw [← this]; exact hk, by rw [hk]⟩
    · refine ⟨setSlot_keys _ _ _, fun e he hne => ?_⟩
      rcases mem_setSlot he with h1 | h1
      · rw [h1] at hne; exact absurd rfl hne
      · have := hq e h1.1 hne
        simp only [Option.some.injEq] at this
        exact absurd this.symm h1.2

theorem node_vnf (s : St) (h : VInv s) (t : Txn) (ht : s.txn = some t) :
    (s.node t).1.disk = s.disk ∧ (∀ d v, (s.node t).1.l2 = some (d, v) → d = s.disk) ∧
    (∀ a v, (s.node t).1.l1 = some (a, v) →
      (getNode (s.node t).1.nodes a).map Prod.fst = s.disk.map Prod.fst ∧ ∀ e ∈ getNode (s.node t).1.nodes a, e.2 = none) ∧
    (getNode (s.node t).1.nodes (s.node t).2).map Prod.fst = s.disk.map Prod.fst ∧
    (∀ e ∈ getNode (s.node t).1.nodes (s.node t).2, e.2 ≠ none → t.cur = some e.1) := by
  unfold St.node
  split
  · rename_i a ha
    obtain ⟨k1, k2⟩ := h.tnode t a ht ha
    exact ⟨rfl, h.snap, h.l1, k1, k2⟩
  · obtain ⟨l1, l2, l3, l4, l5⟩ := load_vnf s h
    exact ⟨l1, l2, l3, l4, fun e he hne => absurd (l5 e he) hne⟩

/-- nothing a history does to such a store changes the value blobs, and the invariant is kept — also by in-place
writes through returned values, by whoever and whenever -/
theorem step_vinv (s : St) (h : VInv s) (op : Op) : VInv (s.apply op).1 ∧ (s.apply op).1.disk = s.disk := by
  have hp := step_priv s h.priv op
  cases op with
  | begin =>
    exact ⟨⟨h.vnf, hp, (fun t ht => by simp [St.apply] at ht; rw [← ht]), h.snap, h.l1,
      (fun t a ht hta => by simp [St.apply] at ht; rw [← ht] at hta; cases hta)⟩, rfl⟩
  | read k kind =>
    simp only [St.apply]
    split
    · exact ⟨h, rfl⟩
    · rename_i t ht
      have nf := node_priv s h.priv t ht
      obtain ⟨v1, v2, v3, v4, v5⟩ := node_vnf s h t ht
      have hdirty := h.clean t ht
      generalize s.node t = p at nf v1 v2 v3 v4 v5
      obtain ⟨s1, a⟩ := p
      simp only at nf v1 v2 v3 v4 v5 ⊢
      have hv1 : s1.vnf = true := by rw [nf.vnf]; exact h.vnf
      simp only [hv1, if_true]
      obtain ⟨u1, u2⟩ := unfetched_spec (n := getNode s1.nodes a) (cur := t.cur) k v5
      -- the L1 entry's node object is another object: writes to the transaction's node do not reach it
      have hl1 : ∀ (nX : Node) a' v, s1.l1 = some (a', v) →
          (getNode ((a, nX) :: s1.nodes) a').map Prod.fst = s1.disk.map Prod.fst ∧ ∀ e ∈ getNode ((a, nX) :: s1.nodes) a', e.2 = none := by
        intro nX a' v h'
        rw [getNode_cons_ne (fun hEq => (nf.l1 a' v h').2 hEq.symm), v1]
        exact v3 a' v h'
      have hsnap : ∀ d v, s1.l2 = some (d, v) → d = s1.disk := by intro d v h'; rw [v1]; exact v2 d v h'
      split
      · -- a value is hung on the slot: the cursor was on `k` already
        refine ⟨⟨(by first | rfl | exact hv1), priv_of_write (s1 := s1) nf.code rfl nf.nodes nf.lt nf.l1 (Nat.le_refl _) rfl rfl rfl, ?_, hsnap, hl1 _, ?_⟩, v1⟩
        · intro t' ht'; simp only [Option.some.injEq] at ht'; rw [← ht']; exact hdirty
        · intro t' a' ht' hta'
          simp only [Option.some.injEq] at ht'; rw [← ht'] at hta' ⊢
          simp only [Option.some.injEq] at hta'; rw [← hta', getNode_cons_self]
          exact ⟨by rw [u1, v4, v1], fun e he hne => by rw [(u2 e he hne).1]⟩
      · split
        · -- fetch: a fresh cell is hung on the slot of the transaction's own node
          refine ⟨⟨(by first | rfl | exact hv1), priv_of_write (s1 := s1) nf.code rfl nf.nodes nf.lt nf.l1 (Nat.le_succ _) rfl rfl rfl, ?_, hsnap, hl1 _, ?_⟩, v1⟩
          · intro t' ht'; simp only [Option.some.injEq] at ht'; rw [← ht']; exact hdirty
          · intro t' a' ht' hta'
            simp only [Option.some.injEq] at ht'; rw [← ht'] at hta' ⊢
            simp only [Option.some.injEq] at hta'; rw [← hta', getNode_cons_self]
            refine ⟨by rw [setSlot_keys, u1, v4, v1], fun e he hne => ?_⟩
            rcases mem_setSlot he with h1 | h1
            · rw [h1]
            · rw [(u2 e h1.1 hne).1]
        · rename_i hslot _ hdisk
          -- cannot happen: the key is in the node, so it is in the store
          have hk : getSlot (unfetched (getNode s1.nodes a) t.cur k) k ≠ none := by rw [hslot]; simp
          have := (keys_get (n := unfetched (getNode s1.nodes a) t.cur k) (d := s1.disk) (k := k) (by rw [u1, v4, v1])).2 hdisk
          exact absurd this hk
      · rename_i hslot
        refine ⟨⟨(by first | rfl | exact hv1), priv_of_write (s1 := s1) nf.code rfl nf.nodes nf.lt nf.l1 (Nat.le_refl _) rfl rfl rfl, ?_, hsnap, hl1 _, ?_⟩, v1⟩
        · intro t' ht'; simp only [Option.some.injEq] at ht'; rw [← ht']; exact hdirty
        · intro t' a' ht' hta'
          simp only [Option.some.injEq] at ht'; rw [← ht'] at hta' ⊢
          simp only [Option.some.injEq] at hta'; rw [← hta', getNode_cons_self]
          exact ⟨by rw [u1, v4, v1], fun e he hne => absurd (u2 e he hne).1 (getSlot_none hslot e he)⟩
  | mutate x =>
    simp only [St.apply] at hp ⊢
    split
    · rename_i a ha
      exact ⟨⟨h.vnf, ⟨h.priv.code, h.priv.nodes, h.priv.l1, h.priv.txn⟩, h.clean, h.snap, h.l1, h.tnode⟩, rfl⟩
    · exact ⟨h, rfl⟩
  | update k v =>
    simp only [St.apply]
    split
    · exact ⟨h, rfl⟩
    · simp only [h.vnf, if_true]; exact ⟨h, trivial⟩
  | commit =>
    simp only [St.apply] at hp ⊢
    split
    · exact ⟨h, rfl⟩
    · rename_i t ht
      simp only [ht] at hp
      have hdt := h.clean t ht
      split
      · rename_i a _ hdirty; rw [hdt] at hdirty; cases hdirty
      · exact ⟨⟨h.vnf, ⟨h.priv.code, h.priv.nodes, h.priv.l1, (fun _ _ h1 => by cases h1)⟩, (fun t' ht' => by cases ht'), h.snap, h.l1,
          (fun t' a' ht' => by cases ht')⟩, rfl⟩
  | rollback =>
    exact ⟨⟨h.vnf, hp, (fun t' ht' => by simp [St.apply] at ht'), h.snap, h.l1, (fun t' a' ht' => by simp [St.apply] at ht')⟩, rfl⟩
  | clear =>
    exact ⟨⟨h.vnf, hp, h.clean, (fun d v h' => by simp [St.apply] at h'), (fun a v h' => by simp [St.apply] at h'), h.tnode⟩, rfl⟩
  | evict1 =>
    exact ⟨⟨h.vnf, hp, h.clean, h.snap, (fun a v h' => by simp [St.apply] at h'), h.tnode⟩, rfl⟩
  | evicth => exact ⟨⟨h.vnf, hp, h.clean, h.snap, h.l1, h.tnode⟩, rfl⟩
  | evict2 =>
    exact ⟨⟨h.vnf, hp, h.clean, (fun d v h' => by simp [St.apply] at h'), h.l1, h.tnode⟩, rfl⟩
  | cold k => exact ⟨h, rfl⟩

theorem run_vinv (ops : List Op) : ∀ s, VInv s → VInv (runFrom s ops).1 ∧ (runFrom s ops).1.disk = s.disk := by
  induction ops with
  | nil => intro s h; exact ⟨h, rfl⟩
  | cons op rest ih =>
    intro s h
    obtain ⟨h1, h2⟩ := step_vinv s h op
    obtain ⟨h3, h4⟩ := ih _ h1
    simp only [runFrom]
    exact ⟨h3, by rw [h4, h2]⟩

theorem vinv_init (disk : Disk) : VInv { vnf := true, disk := disk } :=
  ⟨rfl, priv_init true disk, (fun _ h => by cases h), (fun _ _ h => by cases h), (fun _ _ h => by cases h), (fun _ _ h => by cases h)⟩

/-- a read of key `k` by a transaction whose cursor is not on `k` returns the durable content -/
theorem read_fetches (s : St) (h : VInv s) (t : Txn) (ht : s.txn = some t) (k : Nat) (kind : Kind)
    (hcur : t.cur ≠ some k) : (s.apply (.read k kind)).2 = Alias.get s.disk k := by
  simp only [St.apply, ht]
  have nf := node_priv s h.priv t ht
  obtain ⟨v1, v2, v3, v4, v5⟩ := node_vnf s h t ht
  generalize s.node t = p at nf v1 v2 v3 v4 v5
  obtain ⟨s1, a⟩ := p
  simp only at nf v1 v2 v3 v4 v5 ⊢
  have hv1 : s1.vnf = true := by rw [nf.vnf]; exact h.vnf
  simp only [hv1, if_true]
  obtain ⟨u1, u2⟩ := unfetched_spec (n := getNode s1.nodes a) (cur := t.cur) k v5
  split
  · rename_i c hslot
    exact absurd (u2 _ (getSlot_mem hslot) (by simp)).2 hcur
  · split
    · rename_i x hx; rw [← v1, hx]
    · rename_i hx; rw [← v1, hx]
  · rename_i hslot
    rw [← v1]
    exact ((keys_get (n := unfetched (getNode s1.nodes a) t.cur k) (d := s1.disk) (k := k) (by rw [u1, v4, v1])).1 hslot).symm

/-! ## stores whose values are in the node: what a transaction did to its node and did not commit is invisible -/

/-- the specification: a key/content map, updated transaction by transaction -/
structure SpecSt where
  committed : Disk
  work : Option Disk := none
deriving Repr, Inhabited

def SpecSt.apply (sp : SpecSt) : Op → SpecSt × Option Nat
  | .begin => ({ sp with work := some sp.committed }, none)
  | .read k _ => (sp, match sp.work with | some w => Alias.get w k | none => none)
  | .update k v => match sp.work with
    | some w => ({ sp with work := some (w.map (fun e => if e.1 = k then (k, v) else e)) }, none)
    | none => (sp, none)
  | .commit => match sp.work with
    | some w => ({ committed := w, work := none }, none)
    | none => (sp, none)
  | .rollback => ({ sp with work := none }, none)
  | .cold k => (sp, Alias.get sp.committed k)
  | _ => (sp, none)

def specReads (sp : SpecSt) : List Op → List (Option Nat)
  | [] => []
  | .read k kind :: rest => (sp.apply (.read k kind)).2 :: specReads (sp.apply (.read k kind)).1 rest
  | .cold k :: rest => (sp.apply (.cold k)).2 :: specReads (sp.apply (.cold k)).1 rest
  | op :: rest => specReads (sp.apply op).1 rest

/-- what a node's slots hold, through the heap -/
def cellView (heap : Heap) (n : Node) : List (Nat × Option Nat) := n.map (fun e => (e.1, e.2.bind (Alias.get heap)))

def specView (d : Disk) : List (Nat × Option Nat) := d.map (fun e => (e.1, some e.2))

theorem get_cons_ne {a c x : Nat} {heap : Heap} (h : a ≠ c) : Alias.get ((a, x) :: heap) c = Alias.get heap c := by
  simp [Alias.get, h]

theorem get_cons_self (a x : Nat) (heap : Heap) : Alias.get ((a, x) :: heap) a = some x := by
  simp [Alias.get]

theorem get_mem {heap : Heap} {c x : Nat} (h : Alias.get heap c = some x) : ∃ e ∈ heap, e.1 = c := by
  induction heap with
  | nil => cases h
  | cons e rest ih =>
    simp only [Alias.get] at h
    split at h
    · rename_i hk; exact ⟨e, List.mem_cons_self .., hk⟩
    · obtain ⟨e', he', hk⟩ := ih h
      exact ⟨e', List.mem_cons_of_mem _ he', hk⟩

/-- a node that reads back a map only points to allocated cells -/
theorem cells_below {heap : Heap} {nx : Nat} (hf : ∀ e ∈ heap, e.1 < nx) :
    ∀ (n : Node) (d : Disk), cellView heap n = specView d → ∀ e ∈ n, ∀ c, e.2 = some c → c < nx := by
  intro n
  induction n with
  | nil => intro d _ e he; cases he
  | cons e0 rest ih =>
    intro d hv e he c hc
    cases d with
    | nil => simp [cellView, specView] at hv
    | cons f drest =>
      simp only [cellView, specView, List.map_cons, List.cons.injEq] at hv
      rcases List.mem_cons.1 he with h1 | h1
      · subst h1
        have := congrArg Prod.snd hv.1
        simp only [hc, Option.bind_some] at this
        obtain ⟨e', he', hk⟩ := get_mem this
        rw [← hk]; exact hf e' he'
      · exact ih drest hv.2 e h1 c hc

/-- the view of a node does not depend on cells allocated later -/
theorem cellView_ext {h h' : Heap} {nx : Nat} (hext : ∀ c, c < nx → Alias.get h' c = Alias.get h c) (n : Node)
    (hb : ∀ e ∈ n, ∀ c, e.2 = some c → c < nx) : cellView h' n = cellView h n := by
  unfold cellView
  apply List.map_congr_left
  intro e he
  cases hc : e.2 with
  | none => rfl
  | some c => simp only [Option.bind_some]; rw [hext c (hb e he c hc)]

theorem cellView_fresh {heap : Heap} {nx x : Nat} (hf : ∀ e ∈ heap, e.1 < nx) {n : Node} {d : Disk}
    (hv : cellView heap n = specView d) : cellView ((nx, x) :: heap) n = specView d := by
  rw [← hv]
  exact cellView_ext (nx := nx) (fun c hc => get_cons_ne (Nat.ne_of_gt hc)) n (cells_below hf n d hv)

theorem unmarshalCells_spec (d : Disk) : ∀ (h : Heap) (nx : Nat), (∀ e ∈ h, e.1 < nx) →
    (∀ e ∈ (unmarshalCells d h nx).2.1, e.1 < (unmarshalCells d h nx).2.2) ∧
    (∀ c, c < nx → Alias.get (unmarshalCells d h nx).2.1 c = Alias.get h c) ∧
    cellView (unmarshalCells d h nx).2.1 (unmarshalCells d h nx).1 = specView d := by
  induction d with
  | nil => intro h nx hf; exact ⟨hf, fun _ _ => rfl, rfl⟩
  | cons e rest ih =>
    intro h nx hf
    have hf' : ∀ e' ∈ (nx, e.2) :: h, e'.1 < nx + 1 := by
      intro e' he'
      rcases List.mem_cons.1 he' with h1 | h1
      · rw [h1]; exact Nat.lt_succ_self _
      · exact Nat.lt_succ_of_lt (hf e' h1)
    obtain ⟨i1, i2, i3⟩ := ih ((nx, e.2) :: h) (nx + 1) hf'
    simp only [unmarshalCells]
    refine ⟨i1, ?_, ?_⟩
    · intro c hc
      rw [i2 c (Nat.lt_succ_of_lt hc), get_cons_ne (Nat.ne_of_gt hc)]
    · simp only [cellView, specView, List.map_cons, List.cons.injEq] at i3 ⊢
      refine ⟨?_, i3⟩
      simp only [Option.bind_some]
      rw [i2 nx (Nat.lt_succ_self _), get_cons_self]

/-- a read through a node that reads back the map `w` returns `w`'s content -/
theorem view_getSlot {heap : Heap} {k : Nat} : ∀ (n : Node) (w : Disk), cellView heap n = specView w →
    (match getSlot n k with | some sl => sl.bind (Alias.get heap) | none => none) = Alias.get w k := by
  intro n
  induction n with
  | nil => intro w hv; cases w with
    | nil => rfl
    | cons f r => simp [cellView, specView] at hv
  | cons e rest ih =>
    intro w hv
    cases w with
    | nil => simp [cellView, specView] at hv
    | cons f drest =>
      simp only [cellView, specView, List.map_cons, List.cons.injEq] at hv
      have hk : e.1 = f.1 := congrArg Prod.fst hv.1
      have hc : e.2.bind (Alias.get heap) = some f.2 := congrArg Prod.snd hv.1
      simp only [getSlot, Alias.get, ← hk]
      by_cases hek : e.1 = k
      · simp only [hek, if_true]; exact hc
      · simp only [hek, if_false]; exact ih drest hv.2

theorem view_update {heap : Heap} {nx k v : Nat} (hf : ∀ e ∈ heap, e.1 < nx) : ∀ (n : Node) (w : Disk),
    cellView heap n = specView w →
    cellView ((nx, v) :: heap) (setSlot n k (some nx)) = specView (w.map (fun e => if e.1 = k then (k, v) else e)) := by
  intro n
  induction n with
  | nil => intro w hv; cases w with
    | nil => rfl
    | cons f r => simp [cellView, specView] at hv
  | cons e rest ih =>
    intro w hv
    cases w with
    | nil => simp [cellView, specView] at hv
    | cons f drest =>
      have hb := cells_below hf (e :: rest) (f :: drest) hv
      simp only [cellView, specView, List.map_cons, List.cons.injEq] at hv
      have hk : e.1 = f.1 := congrArg Prod.fst hv.1
      have hc : e.2.bind (Alias.get heap) = some f.2 := congrArg Prod.snd hv.1
      have ih' := ih drest hv.2
      simp only [cellView, specView, setSlot, List.map_cons, List.cons.injEq] at ih' ⊢
      refine ⟨?_, ih'⟩
      by_cases hek : e.1 = k
      · have : f.1 = k := by rw [← hk]; exact hek
        simp [hek, this, get_cons_self]
      · have hfk : ¬ f.1 = k := by rw [← hk]; exact hek
        simp only [hek, hfk, if_false]
        cases he2 : e.2 with
        | none => rw [he2] at hc; simp at hc
        | some c =>
          rw [he2] at hc
          simp only [Option.bind_some] at hc ⊢
          rw [get_cons_ne (Nat.ne_of_gt (hb e (List.mem_cons_self ..) c he2)), hc, hk]

theorem view_marshal {heap : Heap} : ∀ (n : Node) (w : Disk), cellView heap n = specView w → marshal heap n = w := by
  intro n
  induction n with
  | nil => intro w hv; cases w with
    | nil => rfl
    | cons f r => simp [cellView, specView] at hv
  | cons e rest ih =>
    intro w hv
    cases w with
    | nil => simp [cellView, specView] at hv
    | cons f drest =>
      simp only [cellView, specView, List.map_cons, List.cons.injEq] at hv
      have hk : e.1 = f.1 := congrArg Prod.fst hv.1
      have hc : e.2.bind (Alias.get heap) = some f.2 := congrArg Prod.snd hv.1
      have := ih drest hv.2
      unfold marshal at this ⊢
      simp only [List.filterMap_cons, hc, Option.map_some, this, hk]

def WorkU (s : St) (sp : SpecSt) : Prop :=
  match s.txn, sp.work with
  | none, none => True
  | some t, some w =>
    (t.dirty = false → w = sp.committed) ∧ (t.node = none → t.dirty = false) ∧
    ∀ a, t.node = some a → cellView s.heap (getNode s.nodes a) = specView w
  | _, _ => False

/-- the invariant of a store whose values are in the node, along a history without in-place writes: the blob, the L2
payload and the node object in L1 hold the COMMITTED map; the open transaction's own node object holds its working
map — and (`Priv`) it is another object than the one in L1 -/
structure UInv (s : St) (sp : SpecSt) : Prop where
  inNode : s.vnf = false
  priv : Priv s
  heap : ∀ e ∈ s.heap, e.1 < s.next
  disk : s.disk = sp.committed
  snap : ∀ d v, s.l2 = some (d, v) → d = sp.committed
  l1 : ∀ a v, s.l1 = some (a, v) → cellView s.heap (getNode s.nodes a) = specView sp.committed
  work : WorkU s sp

/-- what `load` guarantees: the node object the transaction gets, and the one in L1, hold the committed map -/
theorem load_u (s : St) (sp : SpecSt) (h : UInv s sp) :
    (∀ e ∈ s.load.1.heap, e.1 < s.load.1.next) ∧ s.load.1.disk = s.disk ∧
    (∀ d v, s.load.1.l2 = some (d, v) → d = sp.committed) ∧
    (∀ a v, s.load.1.l1 = some (a, v) → cellView s.load.1.heap (getNode s.load.1.nodes a) = specView sp.committed) ∧
    cellView s.load.1.heap (getNode s.load.1.nodes s.load.2) = specView sp.committed := by
  have hv := h.inNode
  unfold St.load
  split
  · rename_i a heq
    have k1 := h.l1 a true heq
    have hlt := h.priv.l1 a true heq
    simp only [St.clone, St.newNode]
    refine ⟨fun e he => Nat.lt_succ_of_lt (h.heap e he), trivial, h.snap, ?_, ?_⟩
    · intro a' v h'
      rw [heq] at h'
      simp only [Option.some.injEq, Prod.mk.injEq] at h'
      rw [← h'.1, getNode_cons_ne (Nat.ne_of_gt hlt)]
      exact k1
    · rw [getNode_cons_self]; exact k1
  · split
    · rename_i d vok heq2
      have hd := h.snap d vok heq2
      subst hd
      obtain ⟨u1, _, u3⟩ := unmarshalCells_spec sp.committed s.heap s.next h.heap
      simp only [h.priv.code, hv, unmarshal, St.clone, St.newNode, Bool.false_eq_true, if_false]
      refine ⟨fun e he => Nat.lt_succ_of_lt (Nat.lt_succ_of_lt (u1 e he)), trivial, ?_, ?_, ?_⟩
      · intro d' v' h'; exact h.snap d' v' h'
      · intro a' v h'
        simp only [Option.some.injEq, Prod.mk.injEq] at h'
        rw [← h'.1, getNode_cons_self, getNode_cons_self]
        exact u3
      · rw [getNode_cons_ne (Nat.succ_ne_self _), getNode_cons_self]; exact u3
    · obtain ⟨u1, _, u3⟩ := unmarshalCells_spec s.disk s.heap s.next h.heap
      simp only [hv, unmarshal, St.clone, St.newNode, Bool.false_eq_true, if_false]
      refine ⟨fun e he => Nat.lt_succ_of_lt (Nat.lt_succ_of_lt (u1 e he)), trivial, ?_, ?_, ?_⟩
      · intro d' v' h'
        simp only [Option.some.injEq, Prod.mk.injEq] at h'
        rw [← h'.1]; exact h.disk
      · intro a' v h'
        simp only [Option.some.injEq, Prod.mk.injEq] at h'
        rw [← h'.1, getNode_cons_self, getNode_cons_self, ← h.disk]
        exact u3
      · rw [getNode_cons_ne (Nat.succ_ne_self _), getNode_cons_self, ← h.disk]; exact u3

theorem node_u (s : St) (sp : SpecSt) (h : UInv s sp) (t : Txn) (w : Disk) (ht : s.txn = some t) (hw : sp.work = some w) :
    (∀ e ∈ (s.node t).1.heap, e.1 < (s.node t).1.next) ∧ (s.node t).1.disk = s.disk ∧
    (∀ d v, (s.node t).1.l2 = some (d, v) → d = sp.committed) ∧
    (∀ a v, (s.node t).1.l1 = some (a, v) → cellView (s.node t).1.heap (getNode (s.node t).1.nodes a) = specView sp.committed) ∧
    cellView (s.node t).1.heap (getNode (s.node t).1.nodes (s.node t).2) = specView w := by
  have hwk := h.work
  simp only [WorkU, ht, hw] at hwk
  unfold St.node
  split
  · rename_i a ha
    exact ⟨h.heap, rfl, h.snap, h.l1, hwk.2.2 a ha⟩
  · rename_i hn
    obtain ⟨l1, l2, l3, l4, l5⟩ := load_u s sp h
    have : w = sp.committed := hwk.1 (hwk.2.1 hn)
    rw [this]
    exact ⟨l1, l2, l3, l4, l5⟩

theorem step_u (s : St) (sp : SpecSt) (h : UInv s sp) (op : Op) (hm : isMutate op = false) :
    UInv (s.apply op).1 (sp.apply op).1 ∧ (s.apply op).2 = (sp.apply op).2 := by
  have hp := step_priv s h.priv op
  have hwk := h.work
  unfold WorkU at hwk
  cases op with
  | mutate x => cases hm
  | begin =>
    refine ⟨⟨h.inNode, hp, h.heap, h.disk, h.snap, h.l1, ?_⟩, rfl⟩
    simp [WorkU, St.apply, SpecSt.apply]
  | read k kind =>
    cases hst : s.txn with
    | none =>
      cases hsw : sp.work with
      | some w => simp [hst, hsw] at hwk
      | none =>
        simp only [St.apply, hst, SpecSt.apply, hsw]
        exact ⟨h, (by first | rfl | trivial)⟩
    | some t =>
      cases hsw : sp.work with
      | none => simp [hst, hsw] at hwk
      | some w =>
        simp only [hst, hsw] at hwk
        have nf := node_priv s h.priv t hst
        obtain ⟨v1, v2, v3, v4, v5⟩ := node_u s sp h t w hst hsw
        simp only [St.apply, hst, SpecSt.apply, hsw]
        generalize s.node t = p at nf v1 v2 v3 v4 v5
        obtain ⟨s1, a⟩ := p
        simp only at nf v1 v2 v3 v4 v5 ⊢
        have hv1 : s1.vnf = false := by rw [nf.vnf]; exact h.inNode
        simp only [hv1, Bool.false_eq_true, if_false]
        have hout := view_getSlot (k := k) (getNode s1.nodes a) w v5
        have hl1 : ∀ (nX : Node) a' v, s1.l1 = some (a', v) →
            cellView s1.heap (getNode ((a, nX) :: s1.nodes) a') = specView sp.committed := by
          intro nX a' v h'
          rw [getNode_cons_ne (fun hEq => (nf.l1 a' v h').2 hEq.symm)]
          exact v4 a' v h'
        have hdisk : s1.disk = sp.committed := by rw [v2]; exact h.disk
        have hwork : ∀ (s2 : St) (cur : Option Nat), s2.heap = s1.heap → s2.nodes = (a, getNode s1.nodes a) :: s1.nodes →
            s2.txn = some { node := some a, dirty := t.dirty, cur := cur } → WorkU s2 sp := by
          intro s2 cur e1 e2 e3
          simp only [WorkU, hsw, e3, e1, e2]
          refine ⟨hwk.1, (fun hn => by cases hn), fun a' ha' => ?_⟩
          simp only [Option.some.injEq] at ha'
          rw [← ha', getNode_cons_self]; exact v5
        split
        · rename_i c hslot
          rw [hslot] at hout
          simp only [Option.bind_some] at hout
          refine ⟨⟨(by first | rfl | exact hv1), priv_of_write (s1 := s1) nf.code rfl nf.nodes nf.lt nf.l1 (Nat.le_refl _) rfl rfl rfl,
            v1, hdisk, v3, hl1 _, hwork _ _ rfl rfl rfl⟩, hout⟩
        · rename_i hslot
          rw [hslot] at hout
          refine ⟨⟨(by first | rfl | exact hv1), priv_of_write (s1 := s1) nf.code rfl nf.nodes nf.lt nf.l1 (Nat.le_refl _) rfl rfl rfl,
            v1, hdisk, v3, hl1 _, hwork _ _ rfl rfl rfl⟩, hout⟩
        · rename_i hslot
          rw [hslot] at hout
          refine ⟨⟨(by first | rfl | exact hv1), priv_of_write (s1 := s1) nf.code rfl nf.nodes nf.lt nf.l1 (Nat.le_refl _) rfl rfl rfl,
            v1, hdisk, v3, hl1 _, hwork _ _ rfl rfl rfl⟩, hout⟩
  | update k v =>
    cases hst : s.txn with
    | none =>
      cases hsw : sp.work with
      | some w => simp [hst, hsw] at hwk
      | none =>
        simp only [St.apply, hst, SpecSt.apply, hsw]
        exact ⟨h, (by first | rfl | trivial)⟩
    | some t =>
      cases hsw : sp.work with
      | none => simp [hst, hsw] at hwk
      | some w =>
        simp only [hst, hsw] at hwk
        have nf := node_priv s h.priv t hst
        obtain ⟨v1, v2, v3, v4, v5⟩ := node_u s sp h t w hst hsw
        simp only [St.apply, hst, SpecSt.apply, hsw, h.inNode, Bool.false_eq_true, if_false]
        generalize s.node t = p at nf v1 v2 v3 v4 v5
        obtain ⟨s1, a⟩ := p
        simp only at nf v1 v2 v3 v4 v5 ⊢
        have hv1 : s1.vnf = false := by rw [nf.vnf]; exact h.inNode
        refine ⟨⟨(by first | rfl | exact hv1), priv_of_write (s1 := s1) nf.code rfl nf.nodes nf.lt nf.l1 (Nat.le_succ _) rfl rfl rfl, ?_,
          by rw [← h.disk]; exact v2, v3, ?_, ?_⟩, (by first | rfl | trivial)⟩
        · intro e he
          rcases List.mem_cons.1 he with h1 | h1
          · rw [h1]; exact Nat.lt_succ_self _
          · exact Nat.lt_succ_of_lt (v1 e h1)
        · intro a' v' h'
          show cellView ((s1.next, v) :: s1.heap) (getNode ((a, _) :: s1.nodes) a') = _
          rw [getNode_cons_ne (fun hEq => (nf.l1 a' v' h').2 hEq.symm)]
          exact cellView_fresh v1 (v4 a' v' h')
        · simp only [WorkU]
          refine ⟨(fun hd => by cases hd), (fun hn => by cases hn), fun a' ha' => ?_⟩
          simp only [Option.some.injEq] at ha'
          rw [← ha', getNode_cons_self]
          exact view_update v1 _ _ v5
  | commit =>
    cases hst : s.txn with
    | none =>
      cases hsw : sp.work with
      | some w => simp [hst, hsw] at hwk
      | none =>
        simp only [St.apply, hst, SpecSt.apply, hsw]
        exact ⟨h, (by first | rfl | trivial)⟩
    | some t =>
      cases hsw : sp.work with
      | none => simp [hst, hsw] at hwk
      | some w =>
        simp only [hst, hsw] at hwk
        simp only [St.apply, hst, SpecSt.apply, hsw] at hp ⊢
        split
        · -- a dirty node: marshalled as it is to the blob and to L2, a clone goes into L1
          rename_i a hnode hdirty
          have hview := hwk.2.2 a hnode
          have hm := view_marshal _ _ hview
          have halt := (h.priv.txn t a hst hnode).1
          simp only [hnode, hdirty] at hp
          simp only [St.clone, St.newNode] at hp ⊢
          refine ⟨⟨h.inNode, hp, fun e he => Nat.lt_succ_of_lt (h.heap e he), hm, ?_, ?_, by simp [WorkU]⟩, (by first | rfl | trivial)⟩
          · intro d v h'
            simp only [Option.some.injEq, Prod.mk.injEq] at h'
            rw [← h'.1]; exact hm
          · intro a' v h'
            simp only [Option.some.injEq, Prod.mk.injEq] at h'
            rw [← h'.1, getNode_cons_self]; exact hview
        · rename_i hnd
          have hclean : t.dirty = false := by
            cases hd : t.dirty with
            | false => rfl
            | true =>
              cases hn : t.node with
              | none => have := hwk.2.1 hn; rw [hd] at this; cases this
              | some a => exact absurd hd (by intro hd'; exact hnd a hn hd')
          have hwc := hwk.1 hclean
          subst hwc
          exact ⟨⟨h.inNode, ⟨h.priv.code, h.priv.nodes, h.priv.l1, (fun _ _ h1 => by cases h1)⟩, h.heap, h.disk, h.snap, h.l1,
            by simp [WorkU]⟩, rfl⟩
  | rollback =>
    refine ⟨⟨h.inNode, hp, h.heap, h.disk, h.snap, h.l1, by simp [WorkU, St.apply, SpecSt.apply]⟩, rfl⟩
  | clear =>
    refine ⟨⟨h.inNode, hp, h.heap, h.disk, (fun d v h' => by simp [St.apply] at h'), (fun a v h' => by simp [St.apply] at h'), ?_⟩, rfl⟩
    simpa [WorkU, St.apply, SpecSt.apply] using h.work
  | evict1 =>
    refine ⟨⟨h.inNode, hp, h.heap, h.disk, h.snap, (fun a v h' => by simp [St.apply] at h'), ?_⟩, rfl⟩
    simpa [WorkU, St.apply, SpecSt.apply] using h.work
  | evicth =>
    refine ⟨⟨h.inNode, hp, h.heap, h.disk, h.snap, h.l1, ?_⟩, rfl⟩
    simpa [WorkU, St.apply, SpecSt.apply] using h.work
  | evict2 =>
    refine ⟨⟨h.inNode, hp, h.heap, h.disk, (fun d v h' => by simp [St.apply] at h'), h.l1, ?_⟩, rfl⟩
    simpa [WorkU, St.apply, SpecSt.apply] using h.work
  | cold k =>
    refine ⟨h, ?_⟩
    simp only [St.apply, SpecSt.apply, h.disk]

theorem run_u (ops : List Op) : ∀ (s : St) (sp : SpecSt), UInv s sp → (∀ op ∈ ops, isMutate op = false) →
    reads s ops = specReads sp ops := by
  induction ops with
  | nil => intros; rfl
  | cons op rest ih =>
    intro s sp h hm
    obtain ⟨h1, h2⟩ := step_u s sp h op (hm op (List.mem_cons_self ..))
    have ih' := ih _ _ h1 (fun o ho => hm o (List.mem_cons_of_mem _ ho))
    cases op <;> simp only [reads, specReads, ih', h2]

theorem uinv_init (disk : Disk) : UInv { vnf := false, disk := disk } { committed := disk } :=
  ⟨rfl, priv_init false disk, (fun _ h => by cases h), rfl, (fun _ _ h => by cases h), (fun _ _ h => by cases h), by simp [WorkU]⟩

/-! ## value kinds: the caller's copy is unreachable, so the theorem extends to histories with in-place writes -/

def allByValue : List Op → Bool
  | [] => true
  | .read _ kind :: rest => (kind == .byValue) && allByValue rest
  | _ :: rest => allByValue rest

theorem load_ret (s : St) : s.load.1.ret = s.ret := by
  unfold St.load
  split
  · rfl
  · split
    · simp only [St.clone, St.newNode]
      generalize unmarshal s.vnf _ s.heap s.next = r
      obtain ⟨n, h, nx⟩ := r
      dsimp only
      split <;> rfl
    · rfl

theorem node_ret (s : St) (t : Txn) : (s.node t).1.ret = s.ret := by
  unfold St.node; split
  · rfl
  · exact load_ret s

theorem apply_ret_none (s : St) (op : Op) (h : s.ret = none)
    (hv : ∀ k kind, op = .read k kind → kind = .byValue) : (s.apply op).1.ret = none := by
  cases op with
  | read k kind =>
    have hk := hv k kind rfl
    subst hk
    simp only [St.apply]
    split
    · exact h
    · rename_i t _
      have hl := node_ret s t
      generalize s.node t = p at hl
      obtain ⟨s1, a⟩ := p
      simp only at hl ⊢
      split
      · simp [retOf]
      · split <;> simp [retOf]
      · rfl
  | mutate x => simp [St.apply, h]
  | update k v =>
    simp only [St.apply]
    split
    · exact h
    · rename_i t _
      split
      · exact h
      · have hl := node_ret s t
        generalize s.node t = p at hl
        obtain ⟨s1, a⟩ := p
        simpa using (hl.trans h)
  | commit =>
    simp only [St.apply]
    split
    · exact h
    · split <;> simpa [St.clone, St.newNode] using h
  | begin => simpa [St.apply] using h
  | rollback => simpa [St.apply] using h
  | clear => simpa [St.apply] using h
  | evict1 => simpa [St.apply] using h
  | evicth => simpa [St.apply] using h
  | evict2 => simpa [St.apply] using h
  | cold k => simpa [St.apply] using h

theorem filter_keep (op : Op) (rest : List Op) (h : isMutate op = false) :
    (op :: rest).filter (fun o => !isMutate o) = op :: rest.filter (fun o => !isMutate o) := by
  simp [List.filter, h]

theorem filter_drop (op : Op) (rest : List Op) (h : isMutate op = true) :
    (op :: rest).filter (fun o => !isMutate o) = rest.filter (fun o => !isMutate o) := by
  simp [List.filter, h]

end Sop.C38
