import Sop.Model.BTree
import Sop.Model.OrderedColl
/-! Helper lemmas for C17/C18: the Prop-level well-formedness `WF`, soundness of the executable checker
`checkWF`, and "the in-order abstraction of a well-formed tree is key-sorted, inside its bounds, and live". -/
namespace Sop.BTree

/-! ### Prop-level well-formedness (what `checkWF` decides) -/

def LeO (lo : Option Int) (k : Int) : Prop := ∀ l, lo = some l → l ≤ k
def OLe (k : Int) (hi : Option Int) : Prop := ∀ h, hi = some h → k ≤ h

def ItemsOk (lo hi : Option Int) : List Item → Prop
  | [] => True
  | i :: is => LeO lo i.key ∧ OLe i.key hi ∧ i.id ≠ 0 ∧ ItemsOk (some i.key) hi is

def KidsOk (P : NodeId → Option Int → Option Int → Prop) (lo hi : Option Int) : List NodeId → List Item → Prop
  | [], _ => True
  | c :: cs, [] => (c = 0 ∨ P c lo hi) ∧ cs = []
  | c :: cs, i :: is =>
    (c = 0 ∨ P c lo (some i.key)) ∧ LeO lo i.key ∧ OLe i.key hi ∧ i.id ≠ 0 ∧ KidsOk P (some i.key) hi cs is

/-- slot/children arrays have the configured length, `count` fits, the memoised child index is `-1` or
    an index into a children array, everything past `count` is zeroed -/
def NodeShape (t : BTree) (nd : Node) : Prop :=
  nd.slots.size = t.sl ∧ nd.count ≤ t.sl ∧ (-1 ≤ nd.ion ∧ nd.ion ≤ (t.sl : Int)) ∧
  (∀ i ∈ nd.slots.toList.drop nd.count, i = ({} : Item)) ∧
  (∀ cs, nd.children = some cs → cs.size = t.sl + 1 ∧ ∀ c ∈ cs.toList.drop (nd.count + 1), c = 0)

/-- the subtree at `n`: parent link is `parent`, shape, per-node sortedness, all keys in `[lo, hi]`,
    separator bounds for every child (nil children allowed), every occupied slot holds a live item -/
def WFNode (t : BTree) : Nat → NodeId → NodeId → Option Int → Option Int → Prop
  | 0, _, _, _, _ => False
  | fuel + 1, n, parent, lo, hi =>
    n ≠ 0 ∧ ∃ nd, t.get? n = some nd ∧ nd.parent = parent ∧ NodeShape t nd ∧ (parent = 0 ∨ 1 ≤ nd.count) ∧
      match nd.children with
      | none => ItemsOk lo hi nd.items
      | some cs => KidsOk (fun c l h => WFNode t fuel c n l h) lo hi (cs.toList.take (nd.count + 1)) nd.items

/-- tree-shaped heap (every node reached exactly once from the root, nothing else in the repository),
    well-formed from the root with no outer bounds, and the store count equals the number of items -/
def WF (t : BTree) : Prop :=
  (2 ≤ t.sl ∧ t.sl % 2 = 0) ∧
  if t.root = 0 then t.nodes = [] ∧ t.count = 0
  else
    WFNode t (t.nodes.length + 1) t.root 0 none none ∧
    (reach t (t.nodes.length + 1) t.root).Nodup ∧
    (reach t (t.nodes.length + 1) t.root).length = t.nodes.length ∧
    t.count = (t.abs.length : Int)

/-! ### soundness of the checker -/

theorem leOpt_sound {lo k} (h : leOpt lo k = true) : LeO lo k := by
  intro l hl; subst hl; simpa [leOpt] using h

theorem optLe_sound {k hi} (h : optLe k hi = true) : OLe k hi := by
  intro l hl; subst hl; simpa [optLe] using h

theorem itemsOk_sound : ∀ (l : List Item) (lo hi : Option Int), itemsOk lo hi l = true → ItemsOk lo hi l
  | [], _, _, _ => trivial
  | i :: is, lo, hi, h => by
    simp only [itemsOk, Bool.and_eq_true, bne_iff_ne, ne_eq] at h
    exact ⟨leOpt_sound h.1.1.1, optLe_sound h.1.1.2, h.1.2, itemsOk_sound is _ _ h.2⟩

theorem kidsOk_sound {chk : NodeId → Option Int → Option Int → Bool} {P : NodeId → Option Int → Option Int → Prop}
    (hP : ∀ c l h, chk c l h = true → P c l h) :
    ∀ (cs : List NodeId) (is : List Item) (lo hi : Option Int), kidsOk chk lo hi cs is = true → KidsOk P lo hi cs is
  | [], _, _, _, _ => trivial
  | c :: cs, [], lo, hi, h => by
    simp only [kidsOk, Bool.and_eq_true, Bool.or_eq_true, beq_iff_eq, List.isEmpty_iff] at h
    exact ⟨h.1.imp id (hP _ _ _), h.2⟩
  | c :: cs, i :: is, lo, hi, h => by
    simp only [kidsOk, Bool.and_eq_true, Bool.or_eq_true, beq_iff_eq, bne_iff_ne, ne_eq] at h
    exact ⟨h.1.1.1.1.imp id (hP _ _ _), leOpt_sound h.1.1.1.2, optLe_sound h.1.1.2, h.1.2,
      kidsOk_sound hP cs is _ _ h.2⟩

theorem nodeShapeOk_sound {t : BTree} {nd : Node} (h : nodeShapeOk t nd = true) : NodeShape t nd := by
  simp only [nodeShapeOk, Bool.and_eq_true, beq_iff_eq, decide_eq_true_eq, List.all_eq_true] at h
  refine ⟨h.1.1.1.1.1, h.1.1.1.1.2, ⟨h.1.1.1.2, h.1.1.2⟩, fun i hi => by simpa using h.1.2 i hi, ?_⟩
  intro cs hcs
  rw [hcs] at h
  simp only [Bool.and_eq_true, beq_iff_eq, List.all_eq_true] at h
  exact ⟨h.2.1, fun c hc => by simpa using h.2.2 c hc⟩

theorem checkNode_sound (t : BTree) : ∀ (fuel : Nat) (n parent : NodeId) (lo hi : Option Int),
    checkNode t fuel n parent lo hi = true → WFNode t fuel n parent lo hi
  | 0, _, _, _, _, h => by simp [checkNode] at h
  | fuel + 1, n, parent, lo, hi, h => by
    simp only [checkNode, Bool.and_eq_true, bne_iff_ne, ne_eq] at h
    obtain ⟨hn, h⟩ := h
    cases hg : t.get? n with
    | none => simp [hg] at h
    | some nd =>
      rw [hg] at h
      simp only [Bool.and_eq_true, beq_iff_eq, Bool.or_eq_true, decide_eq_true_eq] at h
      refine ⟨hn, nd, hg, h.1.1.1, nodeShapeOk_sound h.1.1.2, h.1.2, ?_⟩
      cases hc : nd.children with
      | none =>
        have h2 := h.2; rw [hc] at h2
        exact itemsOk_sound _ _ _ h2
      | some cs =>
        have h2 := h.2; rw [hc] at h2
        exact kidsOk_sound (fun c l h' hh => checkNode_sound t fuel c n l h' hh) _ _ _ _ h2

theorem checkWF_sound (t : BTree) (h : checkWF t = true) : WF t := by
  unfold checkWF at h
  unfold WF
  rw [Bool.and_eq_true, Bool.and_eq_true, decide_eq_true_eq, beq_iff_eq] at h
  refine ⟨h.1, ?_⟩
  replace h := h.2
  by_cases hr : t.root = 0
  · simp only [hr, beq_self_eq_true, if_true, Bool.and_eq_true, List.isEmpty_iff, beq_iff_eq] at h
    simp only [hr, if_true]
    exact h
  · have hr' : (t.root == 0) = false := by simpa using hr
    simp only [hr', Bool.false_eq_true, if_false, Bool.and_eq_true, decide_eq_true_eq, beq_iff_eq] at h
    simp only [hr, if_false]
    exact ⟨checkNode_sound t _ _ _ _ _ h.1.1.1, h.1.1.2, h.1.2, h.2⟩

/-! ### the abstraction of a well-formed tree is sorted -/

def Sorted (l : List Item) : Prop := l.Pairwise (fun a b => a.key ≤ b.key)

/-- `l` is sorted, inside `[lo, hi]`, and holds only live items -/
def Good (lo hi : Option Int) (l : List Item) : Prop :=
  Sorted l ∧ ∀ x ∈ l, LeO lo x.key ∧ OLe x.key hi ∧ x.id ≠ 0

theorem LeO.trans {lo : Option Int} {a b : Int} (h : LeO lo a) (hab : a ≤ b) : LeO lo b :=
  fun l hl => Int.le_trans (h l hl) hab

theorem OLe.trans' {hi : Option Int} {a b : Int} (hab : a ≤ b) (h : OLe b hi) : OLe a hi :=
  fun l hl => Int.le_trans hab (h l hl)

theorem itemsOk_good : ∀ (l : List Item) (lo hi : Option Int), ItemsOk lo hi l → Good lo hi l
  | [], _, _, _ => ⟨List.Pairwise.nil, by simp⟩
  | i :: is, lo, hi, h => by
    obtain ⟨h1, h2, h3, h4⟩ := h
    have ih := itemsOk_good is _ _ h4
    refine ⟨List.Pairwise.cons (fun x hx => (ih.2 x hx).1 _ rfl) ih.1, ?_⟩
    intro x hx
    rcases List.mem_cons.mp hx with rfl | hx
    · exact ⟨h1, h2, h3⟩
    · exact ⟨h1.trans ((ih.2 x hx).1 _ rfl), (ih.2 x hx).2.1, (ih.2 x hx).2.2⟩

theorem good_append_cons {lo hi : Option Int} {i : Item} {a b : List Item}
    (ha : Good lo (some i.key) a) (h1 : LeO lo i.key) (h2 : OLe i.key hi) (h3 : i.id ≠ 0)
    (hb : Good (some i.key) hi b) : Good lo hi (a ++ i :: b) := by
  refine ⟨?_, ?_⟩
  · refine List.pairwise_append.mpr ⟨ha.1, List.Pairwise.cons (fun x hx => (hb.2 x hx).1 _ rfl) hb.1, ?_⟩
    intro x hx y hy
    have hxi : x.key ≤ i.key := (ha.2 x hx).2.1 _ rfl
    rcases List.mem_cons.mp hy with rfl | hy
    · exact hxi
    · exact Int.le_trans hxi ((hb.2 y hy).1 _ rfl)
  · intro x hx
    rcases List.mem_append.mp hx with hx | hx
    · exact ⟨(ha.2 x hx).1, OLe.trans' ((ha.2 x hx).2.1 _ rfl) h2, (ha.2 x hx).2.2⟩
    · rcases List.mem_cons.mp hx with rfl | hx
      · exact ⟨h1, h2, h3⟩
      · exact ⟨h1.trans ((hb.2 x hx).1 _ rfl), (hb.2 x hx).2.1, (hb.2 x hx).2.2⟩

theorem good_nil (lo hi : Option Int) : Good lo hi [] := ⟨List.Pairwise.nil, by simp⟩

theorem weave_good {g : NodeId → List Item} {P : NodeId → Option Int → Option Int → Prop}
    (g0 : g 0 = []) (hP : ∀ c l h, P c l h → Good l h (g c)) :
    ∀ (cs : List NodeId) (is : List Item) (lo hi : Option Int), KidsOk P lo hi cs is → Good lo hi (weave g cs is)
  | [], _, lo, hi, _ => by simpa [weave] using good_nil lo hi
  | c :: cs, [], lo, hi, h => by
    obtain ⟨h1, h2⟩ := h
    subst h2
    simp only [weave, List.append_nil]
    rcases h1 with rfl | h1
    · rw [g0]; exact good_nil lo hi
    · exact hP _ _ _ h1
  | c :: cs, i :: is, lo, hi, h => by
    obtain ⟨h1, h2, h3, h4, h5⟩ := h
    simp only [weave]
    have ih := weave_good g0 hP cs is _ _ h5
    have hc : Good lo (some i.key) (g c) := by
      rcases h1 with rfl | h1
      · rw [g0]; exact good_nil _ _
      · exact hP _ _ _ h1
    exact good_append_cons hc h2 h3 h4 ih

theorem absNode_zero (t : BTree) : ∀ fuel, absNode t fuel 0 = []
  | 0 => rfl
  | _ + 1 => by simp [absNode]

theorem wfNode_good (t : BTree) : ∀ (fuel : Nat) (n parent : NodeId) (lo hi : Option Int),
    WFNode t fuel n parent lo hi → Good lo hi (absNode t fuel n)
  | 0, _, _, _, _, h => absurd h (by simp [WFNode])
  | fuel + 1, n, parent, lo, hi, h => by
    obtain ⟨hn, nd, hg, _, _, _, hbody⟩ := h
    simp only [absNode, hn, if_false, hg]
    cases hc : nd.children with
    | none =>
      rw [hc] at hbody
      exact itemsOk_good _ _ _ hbody
    | some cs =>
      rw [hc] at hbody
      exact weave_good (absNode_zero t fuel) (fun c l h' hh => wfNode_good t fuel c n l h' hh) _ _ _ _ hbody

/-- READ SIDE, for every well-formed tree (any size, any slot length): the in-order abstraction is
    key-sorted, every item in it is live, and `Count` is its length. -/
theorem abs_sorted_of_WF (t : BTree) (h : WF t) :
    Sorted t.abs ∧ (∀ x ∈ t.abs, x.id ≠ 0) ∧ t.count = (t.abs.length : Int) := by
  unfold WF at h
  replace h := h.2
  by_cases hr : t.root = 0
  · simp only [hr, if_true] at h
    have : t.abs = [] := by simp [BTree.abs, hr, absNode_zero]
    rw [this]
    exact ⟨List.Pairwise.nil, by simp, by simpa using h.2⟩
  · simp only [hr, if_false] at h
    have g := wfNode_good t _ _ _ _ _ h.1
    exact ⟨g.1, fun x hx => (g.2 x hx).2.2, h.2.2.2⟩

/-! ### spec-level lemmas -/

theorem keysSorted_iff : ∀ (l : List Item), keysSorted l = true ↔ Sorted l
  | [] => by simp [keysSorted, Sorted]
  | [a] => by simp [keysSorted, Sorted]
  | a :: b :: rest => by
    have ih := keysSorted_iff (b :: rest)
    simp only [keysSorted, Bool.and_eq_true, decide_eq_true_eq, ih, Sorted, List.pairwise_cons]
    constructor
    · rintro ⟨hab, hb, hrest⟩
      refine ⟨?_, hb, hrest⟩
      intro x hx
      rcases List.mem_cons.mp hx with rfl | hx
      · exact hab
      · exact Int.le_trans hab (hb x hx)
    · rintro ⟨ha, hb, hrest⟩
      exact ⟨ha b (List.mem_cons_self), hb, hrest⟩

theorem mem_insertSorted (it : Item) : ∀ (l : List Item) (x : Item), x ∈ insertSorted it l ↔ x = it ∨ x ∈ l
  | [], x => by simp [insertSorted]
  | y :: ys, x => by
    unfold insertSorted
    split
    · simp only [List.mem_cons, mem_insertSorted it ys x]
      constructor
      · rintro (h | h | h) <;> simp [h]
      · rintro (h | h | h) <;> simp [h]
    · simp [List.mem_cons]

/-- the specification's insert keeps the list key-sorted -/
theorem insertSorted_sorted (it : Item) : ∀ (l : List Item), Sorted l → Sorted (insertSorted it l)
  | [], _ => by simp [insertSorted, Sorted]
  | y :: ys, h => by
    unfold insertSorted
    have h' := List.pairwise_cons.mp h
    split
    · rename_i hle
      refine List.pairwise_cons.mpr ⟨?_, insertSorted_sorted it ys h'.2⟩
      intro x hx
      rcases (mem_insertSorted it ys x).mp hx with rfl | hx
      · exact hle
      · exact h'.1 x hx
    · rename_i hnle
      have hlt : it.key ≤ y.key := by omega
      refine List.pairwise_cons.mpr ⟨?_, h⟩
      intro x hx
      rcases List.mem_cons.mp hx with rfl | hx
      · exact hlt
      · exact Int.le_trans hlt (h'.1 x hx)

/-- … and adds exactly the new item -/
theorem insertSorted_perm (it : Item) : ∀ (l : List Item), (insertSorted it l).Perm (it :: l)
  | [] => by simp [insertSorted]
  | y :: ys => by
    unfold insertSorted
    split
    · exact ((insertSorted_perm it ys).cons y).trans (List.Perm.swap it y ys)
    · exact List.Perm.refl _

/-- removing an item keeps the list key-sorted -/
theorem erase_sorted (l : List Item) (x : Item) (h : Sorted l) : Sorted (l.erase x) :=
  List.Pairwise.sublist List.erase_sublist h

/-- C18 at the specification level: on a key-sorted list, starting at the first item whose key is
    `≥ a` (where a search for `a` lands, hit or miss) and walking forward while the key is `≤ b` visits
    exactly the items with `a ≤ key ≤ b`, in order. -/
theorem scan_from_lower_bound_exact (a b : Int) : ∀ (l : List Item), Sorted l →
    (l.dropWhile (fun i => decide (i.key < a))).takeWhile (fun i => decide (i.key ≤ b)) = l.filter (inRange a b)
  | [], _ => by simp
  | x :: xs, h => by
    have h' := List.pairwise_cons.mp h
    have ih := scan_from_lower_bound_exact a b xs h'.2
    by_cases hxa : x.key < a
    · have : inRange a b x = false := by simp [inRange]; intro; omega
      simp [hxa, this, ih]
    · simp only [List.dropWhile_cons, hxa, decide_false, Bool.false_eq_true, if_false]
      -- nothing after x is below a: dropWhile on the tail is the identity
      have hdrop : xs.dropWhile (fun i => decide (i.key < a)) = xs := by
        cases xs with
        | nil => rfl
        | cons y ys =>
          have : ¬ y.key < a := by have := h'.1 y (List.mem_cons_self); omega
          simp [this]
      rw [hdrop] at ih
      by_cases hxb : x.key ≤ b
      · have : inRange a b x = true := by simp [inRange]; omega
        simp [hxb, this, ih]
      · have hx : inRange a b x = false := by simp [inRange]; intro; omega
        have hall : xs.filter (inRange a b) = [] := by
          apply List.filter_eq_nil_iff.mpr
          intro y hy
          have := h'.1 y hy
          simp [inRange]; intro; omega
        simp [hxb, hx, hall]

/-! ### the transcribed binary search -/

/-- Go's `sort.Search` as transcribed: for a monotone predicate it returns the least index where the
    predicate holds (or `n`). -/
theorem sortSearchAux_spec (f : Nat → Bool) (n : Nat)
    (hmono : ∀ a b, a ≤ b → b < n → f a = true → f b = true) :
    ∀ (fuel i j : Nat), i ≤ j → j ≤ n → j - i < fuel →
      (∀ x, x < i → f x = false) → (∀ x, j ≤ x → x < n → f x = true) →
      i ≤ sortSearchAux f fuel i j ∧ sortSearchAux f fuel i j ≤ j ∧
      (∀ x, x < sortSearchAux f fuel i j → f x = false) ∧
      (∀ x, sortSearchAux f fuel i j ≤ x → x < n → f x = true)
  | 0, i, j, _, _, hf, _, _ => by omega
  | fuel + 1, i, j, hij, hjn, hf, hlo, hhi => by
    unfold sortSearchAux
    by_cases hlt : i < j
    · simp only [hlt, if_true]
      by_cases hfh : f ((i + j) / 2) = true
      · simp only [hfh, Bool.not_true, Bool.false_eq_true, if_false]
        have ih := sortSearchAux_spec f n hmono fuel i ((i + j) / 2) (by omega) (by omega) (by omega) hlo
          (fun x hx hxn => hmono _ _ hx hxn hfh)
        exact ⟨ih.1, by omega, ih.2.2.1, ih.2.2.2⟩
      · have hfh' : f ((i + j) / 2) = false := by simpa using hfh
        simp only [hfh', Bool.not_false, if_true]
        have ih := sortSearchAux_spec f n hmono fuel ((i + j) / 2 + 1) j (by omega) hjn (by omega)
          (fun x hx => by
            cases hfx : f x with
            | false => rfl
            | true => exact absurd (hmono x ((i + j) / 2) (by omega) (by omega) hfx) (by simp [hfh']))
          hhi
        exact ⟨by omega, ih.2.1, ih.2.2.1, ih.2.2.2⟩
    · simp only [hlt, if_false]
      have : i = j := by omega
      subst this
      exact ⟨Nat.le_refl _, Nat.le_refl _, hlo, hhi⟩

theorem sortSearch_spec (f : Nat → Bool) (n : Nat) (hmono : ∀ a b, a ≤ b → b < n → f a = true → f b = true) :
    sortSearch n f ≤ n ∧ (∀ x, x < sortSearch n f → f x = false) ∧
      (∀ x, sortSearch n f ≤ x → x < n → f x = true) := by
  have h := sortSearchAux_spec f n hmono (n + 1) 0 n (Nat.zero_le _) (Nat.le_refl _) (by omega) (fun x hx => by omega)
    (fun x hx hxn => by omega)
  exact ⟨h.2.1, h.2.2.1, h.2.2.2⟩


/-- inside a node whose occupied slots are key-sorted, the transcribed binary search of `find` /
    `getIndexToInsertTo` returns the lower bound of `k`: every slot before it has a smaller key, every
    occupied slot from it on has a key `≥ k`. -/
theorem node_search_lower_bound (nd : Node) (k : Int) (hc : nd.count ≤ nd.slots.size)
    (hs : nd.items.Pairwise (fun a b => a.key ≤ b.key)) :
    let i := sortSearch nd.count (fun i => decide ((nd.slot i).key ≥ k))
    i ≤ nd.count ∧ (∀ x, x < i → (nd.slot x).key < k) ∧ (∀ x, i ≤ x → x < nd.count → k ≤ (nd.slot x).key) := by
  have hitem : ∀ x, x < nd.count → nd.items[x]? = some (nd.slot x) := by
    intro x hx
    have hx' : x < nd.slots.size := by omega
    simp [Node.items, Node.slot, hx, Array.getD, hx']
  have hmono : ∀ a b, a ≤ b → b < nd.count →
      (fun i => decide ((nd.slot i).key ≥ k)) a = true → (fun i => decide ((nd.slot i).key ≥ k)) b = true := by
    intro a b hab hb ha
    simp only [ge_iff_le, decide_eq_true_eq] at ha ⊢
    rcases Nat.lt_or_ge a b with hlt | hge
    · have hlen : nd.items.length = nd.count := by simp [Node.items]; omega
      have := (List.pairwise_iff_getElem.mp hs) a b (by omega) (by omega) hlt
      have ha' := hitem a (by omega)
      have hb' := hitem b hb
      rw [List.getElem?_eq_getElem (by omega)] at ha' hb'
      simp only [Option.some.injEq] at ha' hb'
      rw [ha', hb'] at this
      omega
    · have : a = b := by omega
      subst this; exact ha
  have h := sortSearch_spec _ nd.count hmono
  refine ⟨h.1, ?_, ?_⟩
  · intro x hx
    have := h.2.1 x hx
    simp only [ge_iff_le, decide_eq_false_iff_not] at this
    omega
  · intro x hx hxc
    have := h.2.2 x hx hxc
    simpa using this

end Sop.BTree
