import Sop.Lemmas.BTreeRun
import Sop.Lemmas.BTreeInsert3
/-! The descent of `node.add` (`Ins.addTarget`) and key existence: on a well-formed tree the descent ends in
`dup` only in a unique store that holds the key, and in a unique store it ends in `nilc`/`leaf` only if the key
is absent; it never gets stuck or runs out of fuel. Reuses the search step of `find` (`find_step`). -/
namespace Sop.BTree
set_option linter.unusedVariables false
set_option linter.unusedSimpArgs false
open Sop.BTree.Ins

/-- what the end of the descent says about the key -/
def TargetKeyOk (T : BTree) (key : Int) : Target → Prop
  | .dup n i => T.unique = true ∧ (∃ x ∈ T.abs, x.key = key) ∧ ∃ nd, T.get? n = some nd ∧ i < nd.count
  | .nilc _ _ => T.unique = true → ∀ x ∈ T.abs, x.key ≠ key
  | .leaf _ _ => T.unique = true → ∀ x ∈ T.abs, x.key ≠ key
  | .stuck => False
  | .fuel => False

theorem getIndexToInsertTo_fst (T : BTree) (nd : Node) (key : Int) :
    (getIndexToInsertTo T nd key).1 = searchIdx nd key := by
  unfold getIndexToInsertTo searchIdx
  by_cases hc : nd.count = 0
  · simp [hc]
  · have : nd.count > 0 := by omega
    simp only [hc, if_false, this, if_true]
    split <;> rfl

theorem getIndexToInsertTo_snd (T : BTree) (nd : Node) (key : Int) :
    (getIndexToInsertTo T nd key).2 = true ↔
      (nd.count ≠ 0 ∧ T.unique = true ∧
        (nd.slot (if searchIdx nd key ≥ nd.count then searchIdx nd key - 1 else searchIdx nd key)).key = key) := by
  unfold getIndexToInsertTo searchIdx
  by_cases hc : nd.count = 0
  · simp [hc]
  · have : nd.count > 0 := by omega
    simp only [hc, if_false, this, if_true, ne_eq, not_false_eq_true, true_and]
    cases T.unique <;> simp

theorem slot_mem_items {t : BTree} {nd : Node} (hs : NodeShape t nd) {i : Nat} (hi : i < nd.count) :
    nd.slot i ∈ nd.items := by
  rw [← Node.items_getD hs hi, List.getD_eq_getElem?_getD]
  have : i < nd.items.length := by rw [Node.items_length hs]; exact hi
  rw [List.getElem?_eq_getElem this]; simp

theorem addTarget_key {T : BTree} (hw : WFR T) (hsorted : Sorted T.abs) (key : Int) :
    ∀ (fuel f : Nat) (m p : NodeId) (pre post : List Item), Ctx T f m p pre post → f ≤ fuel →
    (∀ x ∈ pre, x.key < key) → (∀ x ∈ post, key ≤ x.key) → (T.unique = true → ∀ x ∈ post, x.key ≠ key) →
    TargetKeyOk T key (addTarget key fuel T m)
  | 0, f, m, p, pre, post, hctx, hfuel, hpre, hpost, hinv => by
    obtain ⟨_, lo, hi, hwf⟩ := hctx.wf hw
    cases f with
    | zero => exact absurd hwf (by simp [WFNode])
    | succ f => omega
  | fuel + 1, f, m, p, pre, post, hctx, hfuel, hpre, hpost, hinv => by
    obtain ⟨nd, hg⟩ : ∃ nd, T.get? m = some nd := by
      obtain ⟨_, lo, hi, hwf⟩ := hctx.wf hw
      cases f with
      | zero => exact absurd hwf (by simp [WFNode])
      | succ f => obtain ⟨_, nd, hg, _⟩ := hwf; exact ⟨nd, hg⟩
    obtain ⟨hsh, hpar, hnonempty, hm0, f', hf'⟩ := hctx.shape hw hg
    subst hf'
    obtain ⟨hf, lo, hi, hwf⟩ := hctx.wf hw
    obtain ⟨hidx, hA, hB, hC⟩ := find_step hw hsorted hctx hg key hpre hpost
    have habs := hctx.abs hw
    have hsplit := A_split T hwf hf hg hidx
    -- the node's items are in the contents
    have hitem_abs : ∀ i, i < nd.count → nd.slot i ∈ T.abs := by
      intro i hi
      rw [habs, A_unfold T hwf hf hg]
      exact List.mem_append_left _ (List.mem_append_right _
        ((items_sublist_weave _ _ _ (by rw [Node.kids_length hsh, Node.items_length hsh])).subset (slot_mem_items hsh hi)))
    -- the slot just before the search index is smaller than the key
    have hprev : ∀ j, j + 1 = searchIdx nd key → (nd.slot j).key < key := by
      intro j hj
      have hjc : j < nd.count := by omega
      apply hA
      rw [← hj, Node.pre_succ hsh _ hjc]
      simp
    rw [addTarget]
    simp only [get_of_get? hg, getIndexToInsertTo_fst]
    generalize hidxdef : searchIdx nd key = idx at *
    -- the existence test is the hit test
    have hex : (getIndexToInsertTo T nd key).2 = true ↔ (T.unique = true ∧ idx < nd.count ∧ (nd.slot idx).key = key) := by
      rw [getIndexToInsertTo_snd, hidxdef]
      constructor
      · rintro ⟨hc0, hu, hk⟩
        by_cases hge : idx ≥ nd.count
        · exfalso
          simp only [hge, if_true] at hk
          have := hprev (idx - 1) (by omega)
          omega
        · simp only [hge, if_false] at hk
          exact ⟨hu, by omega, hk⟩
      · rintro ⟨hu, hlt, hk⟩
        have hge : ¬ idx ≥ nd.count := by omega
        simp only [hge, if_false]
        exact ⟨by omega, hu, hk⟩
    by_cases hdup : (getIndexToInsertTo T nd key).2 = true
    · simp only [hdup, if_true]
      obtain ⟨hu, hlt, hk⟩ := hex.mp hdup
      exact ⟨hu, ⟨nd.slot idx, hitem_abs idx hlt, hk⟩, nd, hg, hlt⟩
    · have hdup' : (getIndexToInsertTo T nd key).2 = false := by simpa using hdup
      simp only [hdup', Bool.false_eq_true, if_false]
      have hnohit : T.unique = true → ¬ (idx < nd.count ∧ (nd.slot idx).key = key) :=
        fun hu hh => hdup (hex.mpr ⟨hu, hh.1, hh.2⟩)
      -- in a unique store nothing from the search index on equals the key
      have hpost' : T.unique = true → ∀ x ∈ nd.post (A T) idx ++ post, x.key ≠ key := by
        intro hu x hx
        rcases List.mem_append.mp hx with hx | hx
        · have := hC (hnohit hu) x hx; omega
        · exact hinv hu x hx
      have hend : nd.child idx = 0 → T.unique = true → ∀ x ∈ T.abs, x.key ≠ key := by
        intro hc0 hu x hx
        rw [habs, hsplit, hc0, A_zero] at hx
        simp only [List.append_nil, List.append_assoc, List.mem_append] at hx
        rcases hx with hx | hx | hx | hx
        · have := hpre x hx; omega
        · have := hA x (List.mem_append_right _ hx); omega
        · exact hpost' hu x (List.mem_append_left _ hx)
        · exact hpost' hu x (List.mem_append_right _ hx)
      cases hch : nd.hasChildren with
      | true =>
        simp only [if_true]
        by_cases hc : nd.child idx = 0
        · simp only [hc, beq_self_eq_true, if_true]
          exact hend hc
        · have : (nd.child idx == 0) = false := by simpa using hc
          simp only [this, Bool.false_eq_true, if_false]
          obtain ⟨cn, hgc⟩ := hctx.kid_some hw hg hidx hc
          have hco : T.childOf m idx = nd.child idx := childOf_eq (HeapEq.refl T) hg hc hgc
          rw [hco]
          simp only [hc, if_false]
          exact addTarget_key hw hsorted key fuel f' (nd.child idx) m _ _ (Ctx.child hctx hg hidx rfl hc) (by omega)
            hA hB hpost'
      | false =>
        simp only [Bool.false_eq_true, if_false]
        cases hld : leafDup T nd key idx with
        | some ci =>
          simp only
          unfold leafDup at hld
          by_cases hg1 : (T.unique && decide (nd.count > 0)) = true
          · simp only [hg1, if_true] at hld
            simp only [Bool.and_eq_true, decide_eq_true_eq] at hg1
            generalize hci0 : (if (decide (idx > 0) && decide (idx ≥ nd.count)) = true then idx - 1 else idx) = ci0 at hld
            have hci0' : ci0 < nd.count := by
              rw [← hci0]
              by_cases hcc : idx > 0 ∧ idx ≥ nd.count
              · have : (decide (idx > 0) && decide (idx ≥ nd.count)) = true := by simp [hcc.1, hcc.2]
                rw [if_pos this]; omega
              · have : ¬ ((decide (idx > 0) && decide (idx ≥ nd.count)) = true) := by simpa using hcc
                rw [if_neg this]; omega
            by_cases hk : ((nd.slot ci0).key == key) = true
            · simp only [hk, if_true, Option.some.injEq] at hld
              subst hld
              exact ⟨hg1.1, ⟨nd.slot ci0, hitem_abs ci0 hci0', by simpa using hk⟩, nd, hg, hci0'⟩
            · simp [hk] at hld
          · simp [hg1] at hld
        | none =>
          simp only
          exact hend (leaf_child_zero hch _)

/-- the state `node.add` starts from carries the call's uniqueness flag -/
theorem addStart_unique (t : BTree) (uniq : Bool) : (addStart t uniq).1.unique = uniq := rfl

/-- what the end of the descent of this `Add` says about the key -/
theorem addTargetOf_key (t : BTree) (uniq : Bool) (key : Int) (hwf : WF t) :
    match addTargetOf t uniq key with
    | .dup n i => uniq = true ∧ hasKey t.abs key = true ∧ ∃ nd, (addStart t uniq).1.get? n = some nd ∧ i < nd.count
    | .nilc _ _ => uniq = true → hasKey t.abs key = false
    | .leaf _ _ => uniq = true → hasKey t.abs key = false
    | .stuck => False
    | .fuel => False := by
  have so := addStart_ok t uniq hwf
  have hw := so.wf.wfr so.root
  have hsorted := (abs_sorted_of_WF _ so.wf).1
  have h := addTarget_key hw hsorted key (addStart t uniq).1.fuel _ _ 0 [] [] Ctx.root (by simp [BTree.fuel])
    (by simp) (by simp) (by simp)
  rw [← so.rootEq] at h
  unfold addTargetOf
  generalize addTarget key (addStart t uniq).1.fuel (addStart t uniq).1 (addStart t uniq).2 = tg at h ⊢
  cases tg with
  | dup n i =>
    obtain ⟨hu, ⟨x, hx, hk⟩, hnd⟩ := h
    rw [so.abs] at hx
    exact ⟨hu, hasKey_of_mem hx hk, hnd⟩
  | nilc n i =>
    intro hu
    have := h hu
    rw [so.abs] at this
    exact hasKey_false this
  | leaf n i =>
    intro hu
    have := h hu
    rw [so.abs] at this
    exact hasKey_false this
  | stuck => exact h
  | fuel => exact h

end Sop.BTree
