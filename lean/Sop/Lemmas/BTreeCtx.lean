import Sop.Lemmas.BTreeHeap
/-! Read-side infrastructure for C18: `HeapEq` (same tree up to memoised child indices, cursor),
root-to-node contexts `Ctx` with the in-order lists before/after the subtree, and the three kinds of
in-order positions inside a node (`Pre`: before child `s`, `Gap`: between child `s` and separator `s`,
`At`: a `Gap` whose separator exists). -/
namespace Sop.BTree
set_option linter.unusedVariables false
set_option linter.unusedSimpArgs false

/-! ### same tree up to `ion` / cursor -/

def Node.core (nd : Node) : Node := { nd with ion := -1 }

/-- everything except the repository and the cursor -/
def BTree.frame (t : BTree) : BTree := { t with nodes := [], cur := {} }

structure HeapEq (t t' : BTree) : Prop where
  frame : t'.frame = t.frame
  len : t'.nodes.length = t.nodes.length
  get : ∀ n, (t'.get? n).map Node.core = (t.get? n).map Node.core
  ion : ∀ n nd nd', t.get? n = some nd → t'.get? n = some nd' →
    (-1 ≤ nd.ion ∧ nd.ion ≤ (t.sl : Int)) → (-1 ≤ nd'.ion ∧ nd'.ion ≤ (t.sl : Int))

theorem HeapEq.refl (t : BTree) : HeapEq t t :=
  ⟨rfl, rfl, fun _ => rfl, fun n nd nd' h h' hi => by rw [h] at h'; cases h'; exact hi⟩

theorem HeapEq.sl {t t' : BTree} (h : HeapEq t t') : t'.sl = t.sl := by
  have := congrArg BTree.sl h.frame; exact this
theorem HeapEq.root {t t' : BTree} (h : HeapEq t t') : t'.root = t.root := by
  have := congrArg BTree.root h.frame; exact this
theorem HeapEq.count {t t' : BTree} (h : HeapEq t t') : t'.count = t.count := by
  have := congrArg BTree.count h.frame; exact this
theorem HeapEq.panicked {t t' : BTree} (h : HeapEq t t') : t'.panicked = t.panicked := by
  have := congrArg BTree.panicked h.frame; exact this
theorem HeapEq.fixFast {t t' : BTree} (h : HeapEq t t') : t'.fixFast = t.fixFast := by
  have := congrArg BTree.fixFast h.frame; exact this
theorem HeapEq.fuel {t t' : BTree} (h : HeapEq t t') : t'.fuel = t.fuel := by simp [BTree.fuel, h.len]

theorem HeapEq.get_some {t t' : BTree} (h : HeapEq t t') {n : NodeId} {nd : Node} (hg : t.get? n = some nd) :
    ∃ nd', t'.get? n = some nd' ∧ nd'.core = nd.core := by
  have := h.get n
  rw [hg] at this
  cases h' : t'.get? n with
  | none => rw [h'] at this; simp at this
  | some nd' => rw [h'] at this; exact ⟨nd', rfl, by simpa using this⟩

theorem HeapEq.get_none {t t' : BTree} (h : HeapEq t t') {n : NodeId} (hg : t.get? n = none) : t'.get? n = none := by
  have := h.get n
  rw [hg] at this
  cases h' : t'.get? n with
  | none => rfl
  | some nd' => rw [h'] at this; simp at this

theorem HeapEq.trans {a b c : BTree} (h1 : HeapEq a b) (h2 : HeapEq b c) : HeapEq a c := by
  refine ⟨h2.frame.trans h1.frame, h2.len.trans h1.len, fun n => (h2.get n).trans (h1.get n), ?_⟩
  intro n nd nd'' hg hg'' hi
  obtain ⟨nd', hg', _⟩ := h1.get_some hg
  have := h2.ion n nd' nd'' hg' hg'' (by rw [h1.sl]; exact h1.ion n nd nd' hg hg' hi)
  rwa [h1.sl] at this

theorem HeapEq.setCur {t t' : BTree} (h : HeapEq t t') (n : NodeId) (i : Int) : HeapEq t (t'.setCur n i) :=
  ⟨h.frame, h.len, h.get, h.ion⟩

theorem core_eq {a b : Node} (h : a.core = b.core) :
    a.id = b.id ∧ a.parent = b.parent ∧ a.slots = b.slots ∧ a.count = b.count ∧ a.children = b.children := by
  cases a; cases b; simp [Node.core] at h; simp [h]

theorem core_eq_kids {a b : Node} (h : a.core = b.core) : a.kids = b.kids := by
  obtain ⟨_, _, _, h4, h5⟩ := core_eq h; simp [Node.kids, h4, h5]
theorem core_eq_items {a b : Node} (h : a.core = b.core) : a.items = b.items := by
  obtain ⟨_, _, h3, h4, _⟩ := core_eq h; simp [Node.items, h3, h4]
theorem core_eq_child {a b : Node} (h : a.core = b.core) (i : Nat) : a.child i = b.child i := by
  obtain ⟨_, _, _, _, h5⟩ := core_eq h; simp [Node.child, h5]
theorem core_eq_slot {a b : Node} (h : a.core = b.core) (i : Nat) : a.slot i = b.slot i := by
  obtain ⟨_, _, h3, _, _⟩ := core_eq h; simp [Node.slot, h3]
theorem core_eq_hasChildren {a b : Node} (h : a.core = b.core) : a.hasChildren = b.hasChildren := by
  obtain ⟨_, _, _, _, h5⟩ := core_eq h; simp [Node.hasChildren, h5]
theorem core_eq_isRoot {a b : Node} (h : a.core = b.core) : a.isRoot = b.isRoot := by
  obtain ⟨_, h2, _, _, _⟩ := core_eq h; simp [Node.isRoot, h2]

/-- the node the algorithms read in `t'` agrees with the one of `t` on every field but `ion` -/
theorem HeapEq.node {t t' : BTree} (h : HeapEq t t') {n : NodeId} {nd : Node} (hg : t.get? n = some nd) :
    (t'.get n).core = nd.core ∧ (t'.get? n).isSome = true := by
  obtain ⟨nd', hg', hc⟩ := h.get_some hg
  simp [BTree.get, hg', hc]

theorem flatMap_congr' {α β} {f g : α → List β} : ∀ (l : List α), (∀ x ∈ l, f x = g x) → l.flatMap f = l.flatMap g
  | [], _ => rfl
  | x :: xs, h => by
    rw [List.flatMap_cons, List.flatMap_cons, h x (List.mem_cons_self),
      flatMap_congr' xs (fun y hy => h y (List.mem_cons_of_mem _ hy))]

theorem absNode_heapEq {t t' : BTree} (h : HeapEq t t') : ∀ (f : Nat) (n : NodeId), absNode t' f n = absNode t f n
  | 0, _ => rfl
  | f + 1, n => by
    rw [absNode, absNode]
    by_cases hn : n = 0
    · simp [hn]
    · simp only [hn, if_false]
      cases hg : t.get? n with
      | none => rw [h.get_none hg]
      | some nd =>
        obtain ⟨nd', hg', hc⟩ := h.get_some hg
        rw [hg']
        obtain ⟨_, _, _, h4, h5⟩ := core_eq hc
        simp only [h5, core_eq_items hc, h4]
        cases nd.children with
        | none => rfl
        | some cs =>
          simp only
          exact weave_congr _ _ (fun c _ => absNode_heapEq h f c)

theorem A_heapEq {t t' : BTree} (h : HeapEq t t') (n : NodeId) : A t' n = A t n := by
  unfold A; rw [h.len]; exact absNode_heapEq h _ n

theorem abs_heapEq {t t' : BTree} (h : HeapEq t t') : t'.abs = t.abs := by
  rw [abs_eq_A, abs_eq_A, h.root]; exact A_heapEq h _

theorem reach_heapEq {t t' : BTree} (h : HeapEq t t') : ∀ (f : Nat) (n : NodeId), reach t' f n = reach t f n
  | 0, _ => rfl
  | f + 1, n => by
    rw [reach, reach]
    by_cases hn : n = 0
    · simp [hn]
    · simp only [hn, if_false]
      cases hg : t.get? n with
      | none => rw [h.get_none hg]
      | some nd =>
        obtain ⟨nd', hg', hc⟩ := h.get_some hg
        rw [hg']
        obtain ⟨_, _, _, h4, h5⟩ := core_eq hc
        simp only [h5, h4]
        congr 1
        exact flatMap_congr' _ (fun c _ => reach_heapEq h f c)

theorem nodeShape_heapEq {t t' : BTree} (h : HeapEq t t') {n : NodeId} {nd nd' : Node}
    (hg : t.get? n = some nd) (hg' : t'.get? n = some nd') (hc : nd'.core = nd.core) (hs : NodeShape t nd) :
    NodeShape t' nd' := by
  obtain ⟨_, _, h3, h4, h5⟩ := core_eq hc
  obtain ⟨s1, s2, s3, s4, s5⟩ := hs
  have hi := h.ion n nd nd' hg hg' s3
  refine ⟨by rw [h3, h.sl]; exact s1, by rw [h4, h.sl]; exact s2, by rw [h.sl]; exact hi, by rw [h3, h4]; exact s4, ?_⟩
  intro cs hcs
  rw [h5] at hcs
  rw [h.sl, h4]
  exact s5 cs hcs

theorem WFNode_heapEq {t t' : BTree} (h : HeapEq t t') : ∀ (f : Nat) (n p : NodeId) (lo hi : Option Int),
    WFNode t f n p lo hi → WFNode t' f n p lo hi
  | 0, _, _, _, _, hw => absurd hw (by simp [WFNode])
  | f + 1, n, p, lo, hi, hw => by
    obtain ⟨hn, nd, hg, hp, hs, hne, hbody⟩ := hw
    obtain ⟨nd', hg', hc⟩ := h.get_some hg
    obtain ⟨_, h2, h3, h4, h5⟩ := core_eq hc
    refine ⟨hn, nd', hg', by rw [h2]; exact hp, nodeShape_heapEq h hg hg' hc hs, by rw [h4]; exact hne, ?_⟩
    rw [h5, core_eq_items hc, h4]
    cases hcs : nd.children with
    | none => rw [hcs] at hbody; exact hbody
    | some cs =>
      rw [hcs] at hbody
      exact KidsOk.imp (fun c l h' hh => WFNode_heapEq h f c n l h' hh) _ _ _ _ hbody

theorem WF_heapEq {t t' : BTree} (h : HeapEq t t') (hw : WF t) : WF t' := by
  unfold WF at hw ⊢
  rw [h.sl, h.root, h.len, h.count, abs_heapEq h, reach_heapEq h]
  refine ⟨hw.1, ?_⟩
  by_cases hr : t.root = 0
  · simp only [hr, if_true] at hw ⊢
    refine ⟨?_, hw.2.2⟩
    have := h.len
    rw [hw.2.1] at this
    exact List.eq_nil_of_length_eq_zero this
  · simp only [hr, if_false] at hw ⊢
    exact ⟨WFNode_heapEq h _ _ _ _ _ hw.2.1, hw.2.2.1, hw.2.2.2.1, hw.2.2.2.2⟩

/-! ### contexts -/

/-- in-order contents of node `nd` before child `i` -/
def Node.pre (g : NodeId → List Item) (nd : Node) (i : Nat) : List Item := weave g (nd.kids.take i) (nd.items.take i)
/-- in-order contents of node `nd` after child `i` (starting with separator `i`) -/
def Node.post (g : NodeId → List Item) (nd : Node) (i : Nat) : List Item := weaveTail g (nd.kids.drop (i + 1)) (nd.items.drop i)

/-- `Ctx t f n p pre post`: node `n` (with parent `p`) is reachable from the root, its subtree is
    well-formed with fuel `f`, and the in-order contents of the tree are `pre ++ A t n ++ post` -/
inductive Ctx (t : BTree) : Nat → NodeId → NodeId → List Item → List Item → Prop
  | root : Ctx t (t.nodes.length + 1) t.root 0 [] []
  | child {f : Nat} {p pp : NodeId} {pre post : List Item} {pn : Node} {i : Nat} {c : NodeId} :
      Ctx t (f + 1) p pp pre post → t.get? p = some pn → i ≤ pn.count → pn.child i = c → c ≠ 0 →
      Ctx t f c p (pre ++ pn.pre (A t) i) (pn.post (A t) i ++ post)

/-- the root-level facts of a well-formed non-empty repository -/
structure WFR (t : BTree) : Prop where
  rootNZ : t.root ≠ 0
  wf : WFNode t (t.nodes.length + 1) t.root 0 none none
  nodup : (reach t (t.nodes.length + 1) t.root).Nodup

theorem WF.wfr {t : BTree} (h : WF t) (hr : t.root ≠ 0) : WFR t := by
  unfold WF at h
  simp only [hr, if_false] at h
  exact ⟨hr, h.2.1, h.2.2.1⟩

theorem Ctx.wf {t : BTree} (hw : WFR t) {f : Nat} {n p : NodeId} {pre post : List Item}
    (h : Ctx t f n p pre post) : f ≤ t.nodes.length + 1 ∧ ∃ lo hi, WFNode t f n p lo hi := by
  induction h with
  | root => exact ⟨Nat.le_refl _, none, none, hw.wf⟩
  | child hctx hg hi hc hc0 ih =>
    obtain ⟨hf, lo, hi', hwf⟩ := ih
    refine ⟨by omega, ?_⟩
    rcases WFNode.kid hwf hg hi with h0 | ⟨l, h', hk⟩
    · rw [hc] at h0; exact absurd h0 hc0
    · rw [hc] at hk; exact ⟨l, h', hk⟩

theorem A_split (t : BTree) {f : Nat} {n p : NodeId} {lo hi : Option Int} {nd : Node}
    (h : WFNode t f n p lo hi) (hf : f ≤ t.nodes.length + 1) (hg : t.get? n = some nd) {i : Nat} (hi' : i ≤ nd.count) :
    A t n = nd.pre (A t) i ++ A t (nd.child i) ++ nd.post (A t) i := by
  have hs : NodeShape t nd := by
    cases f with
    | zero => exact absurd h (by simp [WFNode])
    | succ f => obtain ⟨_, nd', hg', _, hs, _⟩ := h; rw [hg] at hg'; cases hg'; exact hs
  rw [A_unfold t h hf hg, weave_split (A t) i nd.kids nd.items (by rw [Node.kids_length hs, Node.items_length hs])
    (by rw [Node.items_length hs]; exact hi'), Node.kids_getD hs hi']
  rfl

theorem Ctx.abs {t : BTree} (hw : WFR t) {f : Nat} {n p : NodeId} {pre post : List Item}
    (h : Ctx t f n p pre post) : t.abs = pre ++ A t n ++ post := by
  induction h with
  | root => simp [abs_eq_A]
  | child hctx hg hi hc hc0 ih =>
    obtain ⟨hf, lo, hi', hwf⟩ := hctx.wf hw
    rw [ih, A_split t hwf hf hg hi, hc]
    simp [List.append_assoc]

theorem Ctx.shape {t : BTree} (hw : WFR t) {f : Nat} {n p : NodeId} {pre post : List Item}
    (h : Ctx t f n p pre post) {nd : Node} (hg : t.get? n = some nd) :
    NodeShape t nd ∧ nd.parent = p ∧ (p = 0 ∨ 1 ≤ nd.count) ∧ n ≠ 0 ∧ ∃ f', f = f' + 1 := by
  obtain ⟨hf, lo, hi', hwf⟩ := h.wf hw
  cases f with
  | zero => exact absurd hwf (by simp [WFNode])
  | succ f =>
    obtain ⟨hn, nd', hg', hp, hs, hne, _⟩ := hwf
    rw [hg] at hg'; cases hg'
    exact ⟨hs, hp, hne, hn, f, rfl⟩

/-- a non-nil child entry is in the repository -/
theorem Ctx.kid_some {t : BTree} (hw : WFR t) {f : Nat} {n p : NodeId} {pre post : List Item}
    (h : Ctx t (f + 1) n p pre post) {nd : Node} (hg : t.get? n = some nd) {i : Nat} (hi : i ≤ nd.count)
    (hc : nd.child i ≠ 0) : ∃ cn, t.get? (nd.child i) = some cn := by
  obtain ⟨hf, lo, hi', hwf⟩ := h.wf hw
  rcases WFNode.kid hwf hg hi with h0 | ⟨l, h', hk⟩
  · exact absurd h0 hc
  · cases f with
    | zero => exact absurd hk (by simp [WFNode])
    | succ f => obtain ⟨_, cn, hgc, _⟩ := hk; exact ⟨cn, hgc⟩

theorem mem_reach_self {t : BTree} {f : Nat} {n : NodeId} {nd : Node} (hn : n ≠ 0) (hg : t.get? n = some nd) :
    n ∈ reach t (f + 1) n := by
  rw [reach]; simp [hn, hg]

theorem Ctx.nodup {t : BTree} (hw : WFR t) {f : Nat} {n p : NodeId} {pre post : List Item}
    (h : Ctx t f n p pre post) : (reach t f n).Nodup := by
  induction h with
  | root => exact hw.nodup
  | @child f p pp pre post pn i c hctx hg hi hc hc0 ih =>
    obtain ⟨hs, _, _, hp0, _⟩ := hctx.shape hw hg
    rw [reach] at ih
    simp only [hp0, if_false, hg] at ih
    have hnd := (List.nodup_cons.mp ih).2
    cases hcs : pn.children with
    | none => simp [Node.child, hcs] at hc; exact absurd hc.symm hc0
    | some cs =>
      rw [hcs] at hnd
      simp only [Option.getD_some] at hnd
      have hmem : c ∈ cs.toList.take (pn.count + 1) := by
        have hk : pn.kids = cs.toList.take (pn.count + 1) := by simp [Node.kids, hcs]
        rw [← hk, ← hc, ← Node.kids_getD hs hi, List.getD_eq_getElem?_getD]
        have : i < pn.kids.length := by rw [Node.kids_length hs]; omega
        rw [List.getElem?_eq_getElem this]; simp
      exact (List.pairwise_flatMap.mp hnd).1 c hmem

/-- in a reachable node the non-nil child entries are pairwise distinct -/
theorem Ctx.kid_inj {t : BTree} (hw : WFR t) {f : Nat} {n p : NodeId} {pre post : List Item}
    (h : Ctx t (f + 1) n p pre post) {nd : Node} (hg : t.get? n = some nd) {i j : Nat} (hi : i ≤ nd.count)
    (hj : j ≤ nd.count) (hc : nd.child i ≠ 0) (heq : nd.child i = nd.child j) : i = j := by
  obtain ⟨hs, _, _, hp0, _⟩ := h.shape hw hg
  have hnd := h.nodup hw
  rw [reach] at hnd
  simp only [hp0, if_false, hg] at hnd
  have hnd := (List.nodup_cons.mp hnd).2
  cases hcs : nd.children with
  | none => simp [Node.child, hcs] at hc
  | some cs =>
    rw [hcs] at hnd
    simp only [Option.getD_some] at hnd
    have hk : nd.kids = cs.toList.take (nd.count + 1) := by simp [Node.kids, hcs]
    rw [← hk] at hnd
    have hpw := (List.pairwise_flatMap.mp hnd).2
    have hlen := Node.kids_length hs
    obtain ⟨cn, hgc⟩ := h.kid_some hw hg hi hc
    obtain ⟨_, _, _, hwf⟩ := h.wf hw
    have hf1 : ∃ f', f = f' + 1 := by
      rcases WFNode.kid hwf hg hi with h0 | ⟨l, h', hk⟩
      · exact absurd h0 hc
      · cases f with
        | zero => exact absurd hk (by simp [WFNode])
        | succ f => exact ⟨f, rfl⟩
    obtain ⟨f', rfl⟩ := hf1
    have key : ∀ a b, a < b → b ≤ nd.count → nd.child a ≠ 0 → nd.child a = nd.child b → False := by
      intro a b hab hb hca hce
      have ha' : a < nd.kids.length := by omega
      have hb' : b < nd.kids.length := by omega
      have := (List.pairwise_iff_getElem.mp hpw) a b ha' hb' hab
      have ea : nd.kids[a] = nd.child a := by
        have := Node.kids_getD hs (show a ≤ nd.count by omega)
        rwa [List.getD_eq_getElem?_getD, List.getElem?_eq_getElem ha', Option.getD_some] at this
      have eb : nd.kids[b] = nd.child b := by
        have := Node.kids_getD hs hb
        rwa [List.getD_eq_getElem?_getD, List.getElem?_eq_getElem hb', Option.getD_some] at this
      rw [ea, eb, ← hce] at this
      obtain ⟨cn', hgc'⟩ := h.kid_some hw hg (show a ≤ nd.count by omega) hca
      exact this _ (mem_reach_self hca hgc') _ (mem_reach_self hca hgc') rfl
    rcases Nat.lt_trichotomy i j with hlt | heq' | hgt
    · exact (key i j hlt hj hc heq).elim
    · exact heq'
    · exact (key j i hgt hi (by rw [← heq]; exact hc) heq.symm).elim

end Sop.BTree
