import Sop.Lemmas.BTreeScan
/-! `node.findInDescendingOrder` and the descending `RangeDesc` of Model B on a well-formed tree (mirror image
of `BTreeFind`/`BTreeScan`): the descent keeps "everything before the current subtree is `≤ k`, everything
after is `> k`" and remembers the LAST item of key `k`. -/
namespace Sop.BTree
set_option linter.unusedVariables false
set_option linter.unusedSimpArgs false

/-- inside a node whose occupied slots are key-sorted, the binary search of `findInDescendingOrder` returns
    the upper bound of `k` -/
theorem node_search_upper_bound (nd : Node) (k : Int) (hc : nd.count ≤ nd.slots.size)
    (hs : nd.items.Pairwise (fun a b => a.key ≤ b.key)) :
    let i := sortSearch nd.count (fun i => decide ((nd.slot i).key > k))
    i ≤ nd.count ∧ (∀ x, x < i → (nd.slot x).key ≤ k) ∧ (∀ x, i ≤ x → x < nd.count → k < (nd.slot x).key) := by
  have hitem : ∀ x, x < nd.count → nd.items[x]? = some (nd.slot x) := by
    intro x hx
    have hx' : x < nd.slots.size := by omega
    simp [Node.items, Node.slot, hx, Array.getD, hx']
  have hmono : ∀ a b, a ≤ b → b < nd.count →
      (fun i => decide ((nd.slot i).key > k)) a = true → (fun i => decide ((nd.slot i).key > k)) b = true := by
    intro a b hab hb ha
    simp only [gt_iff_lt, decide_eq_true_eq] at ha ⊢
    rcases Nat.lt_or_ge a b with hlt | hge
    · have hlen : nd.items.length = nd.count := by simp [Node.items]; omega
      have := (List.pairwise_iff_getElem.mp hs) a b (by omega) (by omega) hlt
      have ha' := hitem a (by omega)
      have hb' := hitem b hb
      rw [List.getElem?_eq_getElem (by omega)] at ha' hb'
      simp only [Option.some.injEq] at ha' hb'
      rw [ha', hb'] at this
      omega
    · have : a = b := by omega
      subst this; exact ha
  have h := sortSearch_spec _ nd.count hmono
  refine ⟨h.1, ?_, ?_⟩
  · intro x hx
    have := h.2.1 x hx
    simp only [gt_iff_lt, decide_eq_false_iff_not] at this
    omega
  · intro x hx hxc
    have := h.2.2 x hx hxc
    simpa using this

/-- outcome of `findInDescendingOrder`: a hit with the cursor on the LAST item of key `k` in order, or a miss
    with the cursor on the first greater item or on the item just before it -/
def FindDescResult (t₀ : BTree) (k : Int) (r : BTree × Bool) : Prop :=
  HeapEq t₀ r.1 ∧ r.1.panicked = false ∧
  ((r.2 = true ∧ ∃ (f : Nat) (m : NodeId) (s : Nat) (L : List Item) (y : Item) (R : List Item),
      r.1.cur = ⟨m, (s : Int), false⟩ ∧ At t₀ f m s L (y :: R) ∧ y.key = k ∧ (∀ x ∈ L, x.key ≤ k) ∧ (∀ x ∈ R, k < x.key)) ∨
   (r.2 = false ∧ ∃ (Lo Hi : List Item), (∀ x ∈ Lo, x.key < k) ∧ (∀ x ∈ Hi, k < x.key) ∧
      ∃ (f : Nat) (m : NodeId) (s : Nat), r.1.cur = ⟨m, (s : Int), false⟩ ∧
        (At t₀ f m s Lo Hi ∨ ∃ Lo' x, Lo = Lo' ++ [x] ∧ At t₀ f m s Lo' (x :: Hi))))

def searchIdxD (nd : Node) (k : Int) : Nat :=
  if nd.count > 0 then sortSearch nd.count (fun i => decide ((nd.slot i).key > k)) else 0

theorem find_step_desc {t₀ : BTree} (hw : WFR t₀) (hsorted : Sorted t₀.abs) {f : Nat} {m p : NodeId}
    {pre post : List Item} {nd : Node} (hctx : Ctx t₀ f m p pre post) (hg : t₀.get? m = some nd) (k : Int)
    (hpre : ∀ x ∈ pre, x.key ≤ k) (hpost : ∀ x ∈ post, k < x.key) :
    searchIdxD nd k ≤ nd.count ∧
    (∀ x ∈ pre ++ nd.pre (A t₀) (searchIdxD nd k), x.key ≤ k) ∧
    (∀ x ∈ nd.post (A t₀) (searchIdxD nd k) ++ post, k < x.key) ∧
    (¬ (searchIdxD nd k > 0 ∧ (nd.slot (searchIdxD nd k - 1)).key = k) →
      ∀ x ∈ nd.pre (A t₀) (searchIdxD nd k), x.key < k) := by
  obtain ⟨hsh, _⟩ := hctx.shape hw hg
  obtain ⟨hf, lo, hi, hwf⟩ := hctx.wf hw
  have habs := hctx.abs hw
  have hitems : nd.items.Pairwise (fun a b => a.key ≤ b.key) := by
    have h1 : Sorted (A t₀ m) := by
      rw [habs] at hsorted
      exact ((List.pairwise_append.mp ((List.pairwise_append.mp hsorted).1)).2.1)
    rw [A_unfold t₀ hwf hf hg] at h1
    exact List.Pairwise.sublist (items_sublist_weave _ _ _ (by rw [Node.kids_length hsh, Node.items_length hsh])) h1
  have hub : searchIdxD nd k ≤ nd.count ∧ (∀ x, x < searchIdxD nd k → (nd.slot x).key ≤ k) ∧
      (∀ x, searchIdxD nd k ≤ x → x < nd.count → k < (nd.slot x).key) := by
    unfold searchIdxD
    by_cases hc : nd.count > 0
    · simp only [hc, if_true]
      exact node_search_upper_bound nd k (by rw [hsh.1]; exact hsh.2.1) hitems
    · simp only [hc, if_false]
      exact ⟨Nat.zero_le _, fun x hx => by omega, fun x _ hx => by omega⟩
  generalize searchIdxD nd k = idx at hub ⊢
  obtain ⟨hle, hlo, hhi⟩ := hub
  rw [A_split t₀ hwf hf hg hle] at habs
  -- every element of `nd.pre idx` is `≤` the separator just before `idx`
  have hA : ∀ x ∈ nd.pre (A t₀) idx, idx > 0 ∧ x.key ≤ (nd.slot (idx - 1)).key := by
    intro x hx
    cases idx with
    | zero => rw [Node.pre_zero] at hx; simp at hx
    | succ j =>
      have hj : j < nd.count := hle
      refine ⟨Nat.succ_pos _, ?_⟩
      rw [Node.pre_succ hsh _ hj] at hx habs
      have hs : Sorted ((pre ++ nd.pre (A t₀) j ++ A t₀ (nd.child j)) ++ nd.slot j ::
          (A t₀ (nd.child (j + 1)) ++ nd.post (A t₀) (j + 1) ++ post)) := by
        rw [habs] at hsorted; simpa [List.append_assoc] using hsorted
      simp only [Nat.add_sub_cancel]
      rcases List.mem_append.mp hx with hx | hx
      · exact (sorted_mid hs).1 x (by
          rcases List.mem_append.mp hx with hx | hx
          · exact List.mem_append_left _ (List.mem_append_right _ hx)
          · exact List.mem_append_right _ hx)
      · have : x = nd.slot j := by simpa using hx
        rw [this]; exact Int.le_refl _
  have hB : ∀ x ∈ nd.post (A t₀) idx, k < x.key := by
    intro x hx
    by_cases hlt : idx < nd.count
    · rw [Node.post_of_lt hsh _ hlt] at hx habs
      have hs : Sorted ((pre ++ nd.pre (A t₀) idx ++ A t₀ (nd.child idx)) ++ nd.slot idx ::
          (weave (A t₀) (nd.kids.drop (idx + 1)) (nd.items.drop (idx + 1)) ++ post)) := by
        rw [habs] at hsorted; simpa [List.append_assoc] using hsorted
      have hk := hhi idx (Nat.le_refl _) hlt
      rcases List.mem_cons.mp hx with rfl | hx
      · exact hk
      · have := (sorted_mid hs).2 x (List.mem_append_left _ hx); omega
    · have : idx = nd.count := by omega
      rw [this, Node.post_count hsh] at hx
      simp at hx
  refine ⟨hle, ?_, ?_, ?_⟩
  · intro x hx
    rcases List.mem_append.mp hx with hx | hx
    · exact hpre x hx
    · obtain ⟨hpos, hle'⟩ := hA x hx
      have := hlo (idx - 1) (by omega)
      omega
  · intro x hx
    rcases List.mem_append.mp hx with hx | hx
    · exact hB x hx
    · exact hpost x hx
  · intro hnh x hx
    obtain ⟨hpos, hle'⟩ := hA x hx
    have h1 := hlo (idx - 1) (by omega)
    have : (nd.slot (idx - 1)).key ≠ k := fun e => hnh ⟨hpos, e⟩
    omega

/-- the invariant of the descending descent about the remembered hit: it is the last item before the subtree -/
def FoundInvD (t₀ : BTree) (k : Int) (pre mid post : List Item) : Option (NodeId × Nat) → Prop
  | none => ∀ x ∈ pre, x.key ≠ k
  | some (fn, fi) => ∃ ff P y, pre = P ++ [y] ∧ y.key = k ∧ At t₀ ff fn fi P (y :: (mid ++ post))

theorem findDescAux_spec {t₀ : BTree} (hw : WFR t₀) (hsorted : Sorted t₀.abs) (hne : t₀.abs ≠ []) (k : Int) :
    ∀ (fuel : Nat) (t : BTree) (f : Nat) (m p : NodeId) (pre post : List Item) (found : Option (NodeId × Nat)),
    HeapEq t₀ t → t.panicked = false → Ctx t₀ f m p pre post → f ≤ fuel →
    (∀ x ∈ pre, x.key ≤ k) → (∀ x ∈ post, k < x.key) → FoundInvD t₀ k pre (A t₀ m) post found →
    FindDescResult t₀ k (findDescAux k fuel t m found)
  | 0, t, f, m, p, pre, post, found, he, hp, hctx, hfuel, hpre, hpost, hfound => by
    have := (hctx.wf hw).2
    obtain ⟨lo, hi, hwf⟩ := this
    cases f with
    | zero => exact absurd hwf (by simp [WFNode])
    | succ f => omega
  | fuel + 1, t, f, m, p, pre, post, found, he, hp, hctx, hfuel, hpre, hpost, hfound => by
    obtain ⟨nd, hg⟩ : ∃ nd, t₀.get? m = some nd := by
      obtain ⟨_, lo, hi, hwf⟩ := hctx.wf hw
      cases f with
      | zero => exact absurd hwf (by simp [WFNode])
      | succ f => obtain ⟨_, nd, hg, _⟩ := hwf; exact ⟨nd, hg⟩
    obtain ⟨hsh, hpar, hnonempty, hm0, f', hf'⟩ := hctx.shape hw hg
    subst hf'
    obtain ⟨hf, lo, hi, hwf⟩ := hctx.wf hw
    obtain ⟨hcore, _⟩ := he.node hg
    obtain ⟨hidx, hA, hB, hC⟩ := find_step_desc hw hsorted hctx hg k hpre hpost
    have hcnt : (t.get m).count = nd.count := (core_eq hcore).2.2.2.1
    have hslot : ∀ i, (t.get m).slot i = nd.slot i := core_eq_slot hcore
    have hgap : Gap t₀ (f' + 1) m (searchIdxD nd k) (pre ++ nd.pre (A t₀) (searchIdxD nd k) ++ A t₀ (nd.child (searchIdxD nd k)))
        (nd.post (A t₀) (searchIdxD nd k) ++ post) := ⟨p, pre, post, nd, hctx, hg, hidx, rfl, rfl⟩
    have hsplit := A_split t₀ hwf hf hg hidx
    have habs := hgap.abs hw
    rw [findDescAux]
    simp only [hm0, if_false]
    have hidx_eq : (if nd.count > 0 then sortSearch nd.count (fun i => decide ((nd.slot i).key > k)) else 0)
        = searchIdxD nd k := rfl
    simp only [hcnt, hslot, core_eq_hasChildren hcore, core_eq_child hcore]
    simp only [hidx_eq]
    generalize hidxdef : searchIdxD nd k = idx at *
    -- the new remembered hit and its invariant
    have hfound' : ∃ found', (if (decide (nd.count > 0) && decide (idx > 0) && ((nd.slot (idx - 1)).key == k)) = true
          then some (m, idx - 1) else found) = found' ∧
        FoundInvD t₀ k (pre ++ nd.pre (A t₀) idx) (A t₀ (nd.child idx)) (nd.post (A t₀) idx ++ post) found' := by
      by_cases hhit : idx > 0 ∧ (nd.slot (idx - 1)).key = k
      · obtain ⟨hpos, hkey⟩ := hhit
        have hhitb : (decide (nd.count > 0) && decide (idx > 0) && ((nd.slot (idx - 1)).key == k)) = true := by
          simp [hpos, hkey]; omega
        refine ⟨some (m, idx - 1), by simp only [hhitb, if_true], ?_⟩
        obtain ⟨j, rfl⟩ : ∃ j, idx = j + 1 := ⟨idx - 1, by omega⟩
        have hj : j < nd.count := hidx
        simp only [Nat.add_sub_cancel] at hkey ⊢
        refine ⟨f' + 1, pre ++ nd.pre (A t₀) j ++ A t₀ (nd.child j), nd.slot j, ?_, hkey,
          ⟨p, pre, post, nd, hctx, hg, Nat.le_of_lt hj, rfl, ?_⟩, nd, hg, hj⟩
        · rw [Node.pre_succ hsh _ hj]; simp [List.append_assoc]
        · rw [Node.post_of_lt hsh _ hj, Node.weave_drop_succ hsh _ hj]; simp [List.append_assoc]
      · have hhitb : (decide (nd.count > 0) && decide (idx > 0) && ((nd.slot (idx - 1)).key == k)) = false := by
          rcases Nat.eq_zero_or_pos idx with h0 | hpos
          · simp [h0]
          · have : (nd.slot (idx - 1)).key ≠ k := fun e => hhit ⟨hpos, e⟩
            simp [this]
        refine ⟨found, by simp only [hhitb, Bool.false_eq_true, if_false], ?_⟩
        have hC' := hC hhit
        cases found with
        | none =>
          intro x hx
          rcases List.mem_append.mp hx with hx | hx
          · exact hfound x hx
          · have := hC' x hx; omega
        | some fp =>
          obtain ⟨fn, fi⟩ := fp
          obtain ⟨ff, P, y, hP, hy, hat⟩ := hfound
          have hnil : nd.pre (A t₀) idx = [] := by
            cases hpo : nd.pre (A t₀) idx with
            | nil => rfl
            | cons z zs =>
              exfalso
              have hz := hC' z (by rw [hpo]; exact List.mem_cons_self)
              have hs : Sorted (P ++ y :: (z :: zs ++ A t₀ (nd.child idx) ++ (nd.post (A t₀) idx ++ post))) := by
                rw [habs, hpo, hP] at hsorted; simpa [List.append_assoc] using hsorted
              have := (sorted_mid hs).2 z (by simp)
              omega
          refine ⟨ff, P, y, by rw [hnil, List.append_nil]; exact hP, hy, ?_⟩
          rw [hsplit, hnil, List.nil_append] at hat
          simpa [List.append_assoc] using hat
    obtain ⟨found', hfe, hfi⟩ := hfound'
    simp only [hfe]
    -- what happens when the descent stops here
    have hstop : nd.child idx = 0 → FindDescResult t₀ k (findTail t found' m idx) := by
      intro hc0
      rw [hc0, A_zero, List.append_nil] at hgap habs
      rw [hc0, A_zero] at hfi
      cases found' with
      | some fp =>
        obtain ⟨fn, fi⟩ := fp
        obtain ⟨ff, P, y, hP, hy, hat⟩ := hfi
        rw [findTail_some]
        refine ⟨he.setCur _ _, hp, Or.inl ⟨rfl, ff, fn, fi, P, y, _, rfl, by simpa using hat, hy, ?_, hB⟩⟩
        intro x hx
        exact hA x (by rw [hP]; exact List.mem_append_left _ hx)
      | none =>
        have hLo : ∀ x ∈ pre ++ nd.pre (A t₀) idx, x.key < k := by
          intro x hx
          have h1 := hA x hx
          have h2 := hfi x hx
          omega
        unfold findTail
        simp only [hm0, if_false, hcnt]
        by_cases hlt : idx < nd.count
        · have h1 : ¬ (idx = nd.count) := by omega
          simp only [h1, if_false]
          have h2 : ((idx : Int) ≥ 0 ∧ (idx : Int) < (nd.count : Int)) := by omega
          simp only [h2, and_self, if_true]
          exact ⟨he.setCur _ _, hp, Or.inr ⟨rfl, _, _, hLo, hB, f' + 1, m, idx, rfl, Or.inl ⟨hgap, nd, hg, hlt⟩⟩⟩
        · have h1 : idx = nd.count := by omega
          simp only [h1, if_true]
          by_cases hc1 : 1 ≤ nd.count
          · have h2 : (((nd.count : Nat) : Int) - 1 ≥ 0 ∧ ((nd.count : Nat) : Int) - 1 < (nd.count : Int)) := by omega
            simp only [h2, and_self, if_true]
            obtain ⟨j, hj⟩ : ∃ j, idx = j + 1 := ⟨idx - 1, by omega⟩
            have hpre' : Pre t₀ (f' + 1) m (j + 1) (pre ++ nd.pre (A t₀) idx) (nd.post (A t₀) idx ++ post) := by
              rw [← hj]
              exact hgap.toPre (fun nd' h' => by rw [hg] at h'; cases h'; exact hc0)
            obtain ⟨L', x, hLx, hat⟩ := hpre'.toAt_pred hw
            refine ⟨he.setCur _ _, hp, Or.inr ⟨rfl, _, _, hLo, hB, f' + 1, m, j, ?_, Or.inr ⟨L', x, hLx, hat⟩⟩⟩
            simp only [BTree.setCur, Cursor.mk.injEq, and_true, true_and]
            omega
          · exfalso
            have hz : nd.count = 0 := by omega
            have hi0 : idx = 0 := by omega
            rcases hnonempty with h0 | h1'
            · rcases hctx.up hw hg with ⟨_, hpre0, hpost0⟩ | ⟨_, hp0, _⟩
              · apply hne
                rw [habs, hi0, Node.pre_zero, hpre0, hpost0]
                have := Node.post_count hsh (A t₀)
                rw [hz] at this
                rw [this]; rfl
              · exact hp0 h0
            · omega
    cases hch : nd.hasChildren with
    | false =>
      simp only [Bool.false_eq_true, if_false]
      exact hstop (leaf_child_zero hch _)
    | true =>
      simp only [if_true]
      by_cases hc : nd.child idx = 0
      · simp only [hc, beq_self_eq_true, if_true]
        exact hstop hc
      · have : (nd.child idx == 0) = false := by simpa using hc
        simp only [this, Bool.false_eq_true, if_false]
        obtain ⟨cn, hgc⟩ := hctx.kid_some hw hg hidx hc
        rw [childOf_eq he hg hc hgc]
        exact findDescAux_spec hw hsorted hne k fuel t f' (nd.child idx) m _ _ found' he hp
          (Ctx.child hctx hg hidx rfl hc) (by omega) hA hB hfi

/-- `FindInDescendingOrder(k)` on a non-empty well-formed tree -/
theorem findDesc_spec {t : BTree} (hwf : WF t) (hp : t.panicked = false) (hne : t.abs ≠ []) (k : Int) :
    HeapEq t (t.findDesc k).1 ∧ (t.findDesc k).1.panicked = false ∧ (t.findDesc k).1.cur.cached = true ∧
    (((t.findDesc k).2 = true ∧ ∃ L y R, CursorPos t (t.findDesc k).1 L (y :: R) ∧ y.key = k ∧
        (∀ x ∈ L, x.key ≤ k) ∧ ∀ x ∈ R, k < x.key) ∨
     ((t.findDesc k).2 = false ∧ ∃ Lo Hi, (∀ x ∈ Lo, x.key < k) ∧ (∀ x ∈ Hi, k < x.key) ∧
        (CursorPos t (t.findDesc k).1 Lo Hi ∨ ∃ Lo' x, Lo = Lo' ++ [x] ∧ CursorPos t (t.findDesc k).1 Lo' (x :: Hi)))) := by
  obtain ⟨hc, hr⟩ := hwf.count_ne hne
  have hw := hwf.wfr hr
  have hsorted := (abs_sorted_of_WF t hwf).1
  unfold BTree.findDesc
  simp only [hc, Bool.false_eq_true, if_false, getRootNode_eq hc hr]
  have hfa := findDescAux_spec hw hsorted hne k t.fuel t _ t.root 0 [] [] none (HeapEq.refl t) hp Ctx.root
    (by simp [BTree.fuel]) (by simp) (by simp) (by simp [FoundInvD])
  generalize findDescAux k t.fuel t t.root none = r at hfa ⊢
  obtain ⟨he2, hp2, hres⟩ := hfa
  rcases hres with ⟨hr2, f, m, s, L, y, R, hcur, hat, hy, hL, hR⟩ | ⟨hr2, Lo, Hi, hLo, hHi, f, m, s, hcur, hat⟩
  · have hpos : CursorPos t r.1 L (y :: R) := ⟨he2, hp2, f, m, s, by rw [hcur], by rw [hcur], hat⟩
    obtain ⟨h3, h4⟩ := cursorPos_cache hw hpos
    exact ⟨h3.1, h3.2.1, h4, Or.inl ⟨hr2, L, y, R, h3, hy, hL, hR⟩⟩
  · rcases hat with hat | ⟨Lo', x, hLx, hat⟩
    · have hpos : CursorPos t r.1 Lo Hi := ⟨he2, hp2, f, m, s, by rw [hcur], by rw [hcur], hat⟩
      obtain ⟨h3, h4⟩ := cursorPos_cache hw hpos
      exact ⟨h3.1, h3.2.1, h4, Or.inr ⟨hr2, Lo, Hi, hLo, hHi, Or.inl h3⟩⟩
    · have hpos : CursorPos t r.1 Lo' (x :: Hi) := ⟨he2, hp2, f, m, s, by rw [hcur], by rw [hcur], hat⟩
      obtain ⟨h3, h4⟩ := cursorPos_cache hw hpos
      exact ⟨h3.1, h3.2.1, h4, Or.inr ⟨hr2, Lo, Hi, hLo, hHi, Or.inr ⟨Lo', x, hLx, h3⟩⟩⟩

end Sop.BTree
