import Sop.Lemmas.BTreeWalk
/-! `node.find` of Model B on a well-formed tree: the descent keeps "everything before the current
subtree is `< k`, everything after is `≥ k`", so it ends on the lower bound of `k`. -/
namespace Sop.BTree
set_option linter.unusedVariables false
set_option linter.unusedSimpArgs false

theorem sorted_mid {a b : List Item} {x : Item} (h : Sorted (a ++ x :: b)) :
    (∀ y ∈ a, y.key ≤ x.key) ∧ (∀ y ∈ b, x.key ≤ y.key) := by
  have h' := List.pairwise_append.mp h
  exact ⟨fun y hy => h'.2.2 y hy x (List.mem_cons_self), fun y hy => (List.pairwise_cons.mp h'.2.1).1 y hy⟩

theorem items_sublist_weave (g : NodeId → List Item) : ∀ (cs : List NodeId) (is : List Item),
    cs.length = is.length + 1 → is.Sublist (weave g cs is)
  | [], _, h => by simp at h
  | c :: cs, [], _ => List.nil_sublist _
  | c :: cs, i :: is, h => by
    simp only [weave]
    exact List.sublist_append_of_sublist_right
      (List.Sublist.cons_cons i (items_sublist_weave g cs is (by simpa using h)))

/-- outcome of `find`: a hit with the cursor on an item of key `k` (the first one in order when `first`),
    or a miss with the cursor on the lower bound of `k` or on the item just before it -/
def FindResult (t₀ : BTree) (k : Int) (first : Bool) (r : BTree × Bool) : Prop :=
  HeapEq t₀ r.1 ∧ r.1.panicked = false ∧
  ((r.2 = true ∧ ∃ (f : Nat) (m : NodeId) (s : Nat) (L : List Item) (y : Item) (R : List Item),
      r.1.cur = ⟨m, (s : Int), false⟩ ∧ At t₀ f m s L (y :: R) ∧ y.key = k ∧ (first = true → ∀ x ∈ L, x.key < k)) ∨
   (r.2 = false ∧ ∃ (Lo Hi : List Item), (∀ x ∈ Lo, x.key < k) ∧ (∀ x ∈ Hi, k < x.key) ∧
      ∃ (f : Nat) (m : NodeId) (s : Nat), r.1.cur = ⟨m, (s : Int), false⟩ ∧
        (At t₀ f m s Lo Hi ∨ ∃ Lo' x, Lo = Lo' ++ [x] ∧ At t₀ f m s Lo' (x :: Hi))))

/-- the search index inside one node -/
def searchIdx (nd : Node) (k : Int) : Nat :=
  if nd.count > 0 then sortSearch nd.count (fun i => decide ((nd.slot i).key ≥ k)) else 0

theorem find_step {t₀ : BTree} (hw : WFR t₀) (hsorted : Sorted t₀.abs) {f : Nat} {m p : NodeId}
    {pre post : List Item} {nd : Node} (hctx : Ctx t₀ f m p pre post) (hg : t₀.get? m = some nd) (k : Int)
    (hpre : ∀ x ∈ pre, x.key < k) (hpost : ∀ x ∈ post, k ≤ x.key) :
    searchIdx nd k ≤ nd.count ∧
    (∀ x ∈ pre ++ nd.pre (A t₀) (searchIdx nd k), x.key < k) ∧
    (∀ x ∈ nd.post (A t₀) (searchIdx nd k) ++ post, k ≤ x.key) ∧
    (¬ (searchIdx nd k < nd.count ∧ (nd.slot (searchIdx nd k)).key = k) →
      ∀ x ∈ nd.post (A t₀) (searchIdx nd k), k < x.key) := by
  obtain ⟨hsh, _⟩ := hctx.shape hw hg
  obtain ⟨hf, lo, hi, hwf⟩ := hctx.wf hw
  have habs := hctx.abs hw
  -- the node's own items are sorted
  have hitems : nd.items.Pairwise (fun a b => a.key ≤ b.key) := by
    have h1 : Sorted (A t₀ m) := by
      rw [habs] at hsorted
      exact ((List.pairwise_append.mp ((List.pairwise_append.mp hsorted).1)).2.1)
    rw [A_unfold t₀ hwf hf hg] at h1
    exact List.Pairwise.sublist (items_sublist_weave _ _ _ (by rw [Node.kids_length hsh, Node.items_length hsh])) h1
  have hlb : searchIdx nd k ≤ nd.count ∧ (∀ x, x < searchIdx nd k → (nd.slot x).key < k) ∧
      (∀ x, searchIdx nd k ≤ x → x < nd.count → k ≤ (nd.slot x).key) := by
    unfold searchIdx
    by_cases hc : nd.count > 0
    · simp only [hc, if_true]
      exact node_search_lower_bound nd k (by rw [hsh.1]; exact hsh.2.1) hitems
    · simp only [hc, if_false]
      exact ⟨Nat.zero_le _, fun x hx => by omega, fun x _ hx => by omega⟩
  generalize searchIdx nd k = idx at hlb ⊢
  obtain ⟨hle, hlo, hhi⟩ := hlb
  rw [A_split t₀ hwf hf hg hle] at habs
  have hA : ∀ x ∈ nd.pre (A t₀) idx, x.key < k := by
    intro x hx
    cases idx with
    | zero => rw [Node.pre_zero] at hx; simp at hx
    | succ j =>
      have hj : j < nd.count := hle
      rw [Node.pre_succ hsh _ hj] at hx habs
      have hs : Sorted ((pre ++ nd.pre (A t₀) j ++ A t₀ (nd.child j)) ++ nd.slot j ::
          (A t₀ (nd.child (j + 1)) ++ nd.post (A t₀) (j + 1) ++ post)) := by
        rw [habs] at hsorted; simpa [List.append_assoc] using hsorted
      have hk := hlo j (Nat.lt_succ_self j)
      rcases List.mem_append.mp hx with hx | hx
      · have := (sorted_mid hs).1 x (by
          rcases List.mem_append.mp hx with hx | hx
          · exact List.mem_append_left _ (List.mem_append_right _ hx)
          · exact List.mem_append_right _ hx)
        omega
      · have : x = nd.slot j := by simpa using hx
        rw [this]; exact hk
  have hB : ∀ x ∈ nd.post (A t₀) idx, idx < nd.count ∧ (nd.slot idx).key ≤ x.key := by
    intro x hx
    by_cases hlt : idx < nd.count
    · refine ⟨hlt, ?_⟩
      rw [Node.post_of_lt hsh _ hlt] at hx habs
      have hs : Sorted ((pre ++ nd.pre (A t₀) idx ++ A t₀ (nd.child idx)) ++ nd.slot idx ::
          (weave (A t₀) (nd.kids.drop (idx + 1)) (nd.items.drop (idx + 1)) ++ post)) := by
        rw [habs] at hsorted; simpa [List.append_assoc] using hsorted
      rcases List.mem_cons.mp hx with rfl | hx
      · exact Int.le_refl _
      · exact (sorted_mid hs).2 x (List.mem_append_left _ hx)
    · have : idx = nd.count := by omega
      rw [this, Node.post_count hsh] at hx
      simp at hx
  refine ⟨hle, ?_, ?_, ?_⟩
  · intro x hx
    rcases List.mem_append.mp hx with hx | hx
    · exact hpre x hx
    · exact hA x hx
  · intro x hx
    rcases List.mem_append.mp hx with hx | hx
    · obtain ⟨hlt, hle'⟩ := hB x hx
      have := hhi idx (Nat.le_refl _) hlt
      omega
    · exact hpost x hx
  · intro hnh x hx
    obtain ⟨hlt, hle'⟩ := hB x hx
    have h1 := hhi idx (Nat.le_refl _) hlt
    have : (nd.slot idx).key ≠ k := fun e => hnh ⟨hlt, e⟩
    omega

/-- `findTail` with a remembered hit -/
theorem findTail_some (t : BTree) (fn : NodeId) (fi : Nat) (n : NodeId) (i : Nat) :
    findTail t (some (fn, fi)) n i = (t.setCur fn fi, true) := rfl

/-- the invariant of the descent about the remembered hit -/
def FoundInv (t₀ : BTree) (k : Int) (pre mid post : List Item) : Option (NodeId × Nat) → Prop
  | none => ∀ x ∈ post, x.key ≠ k
  | some (fn, fi) => ∃ ff y Q, post = y :: Q ∧ y.key = k ∧ At t₀ ff fn fi (pre ++ mid) post

theorem findAux_spec {t₀ : BTree} (hw : WFR t₀) (hsorted : Sorted t₀.abs) (hne : t₀.abs ≠ []) (k : Int) (first : Bool) :
    ∀ (fuel : Nat) (t : BTree) (f : Nat) (m p : NodeId) (pre post : List Item) (found : Option (NodeId × Nat)),
    HeapEq t₀ t → t.panicked = false → Ctx t₀ f m p pre post → f ≤ fuel →
    (∀ x ∈ pre, x.key < k) → (∀ x ∈ post, k ≤ x.key) → FoundInv t₀ k pre (A t₀ m) post found →
    FindResult t₀ k first (findAux k first fuel t m found)
  | 0, t, f, m, p, pre, post, found, he, hp, hctx, hfuel, hpre, hpost, hfound => by
    have := (hctx.wf hw).2
    obtain ⟨lo, hi, hwf⟩ := this
    cases f with
    | zero => exact absurd hwf (by simp [WFNode])
    | succ f => omega
  | fuel + 1, t, f, m, p, pre, post, found, he, hp, hctx, hfuel, hpre, hpost, hfound => by
    obtain ⟨nd, hg⟩ : ∃ nd, t₀.get? m = some nd := by
      obtain ⟨_, lo, hi, hwf⟩ := hctx.wf hw
      cases f with
      | zero => exact absurd hwf (by simp [WFNode])
      | succ f => obtain ⟨_, nd, hg, _⟩ := hwf; exact ⟨nd, hg⟩
    obtain ⟨hsh, hpar, hnonempty, hm0, f', hf'⟩ := hctx.shape hw hg
    subst hf'
    obtain ⟨hf, lo, hi, hwf⟩ := hctx.wf hw
    obtain ⟨hcore, _⟩ := he.node hg
    obtain ⟨hidx, hA, hB, hC⟩ := find_step hw hsorted hctx hg k hpre hpost
    have hcnt : (t.get m).count = nd.count := (core_eq hcore).2.2.2.1
    have hslot : ∀ i, (t.get m).slot i = nd.slot i := core_eq_slot hcore
    have hgap : Gap t₀ (f' + 1) m (searchIdx nd k) (pre ++ nd.pre (A t₀) (searchIdx nd k) ++ A t₀ (nd.child (searchIdx nd k)))
        (nd.post (A t₀) (searchIdx nd k) ++ post) := ⟨p, pre, post, nd, hctx, hg, hidx, rfl, rfl⟩
    have hsplit := A_split t₀ hwf hf hg hidx
    have habs := hgap.abs hw
    rw [findAux]
    simp only [hm0, if_false]
    -- name the index and the hit test
    have hidx_eq : (if nd.count > 0 then sortSearch nd.count (fun i => decide ((nd.slot i).key ≥ k)) else 0)
        = searchIdx nd k := rfl
    simp only [hcnt, hslot, core_eq_hasChildren hcore, core_eq_child hcore]
    simp only [hidx_eq]
    generalize hidxdef : searchIdx nd k = idx at *
    -- the hit test as a proposition
    by_cases hhit : idx < nd.count ∧ (nd.slot idx).key = k
    · -- hit at this node
      obtain ⟨hlt, hkey⟩ := hhit
      have hhitb : (decide (nd.count > 0) && decide (idx < nd.count) && ((nd.slot idx).key == k)) = true := by
        simp [hlt, hkey]; omega
      simp only [hhitb, if_true, Bool.true_and]
      have hat : At t₀ (f' + 1) m idx (pre ++ nd.pre (A t₀) idx ++ A t₀ (nd.child idx)) (nd.post (A t₀) idx ++ post) :=
        ⟨hgap, nd, hg, hlt⟩
      have hpost_eq : nd.post (A t₀) idx ++ post = nd.slot idx ::
          (weave (A t₀) (nd.kids.drop (idx + 1)) (nd.items.drop (idx + 1)) ++ post) := by
        rw [Node.post_of_lt hsh _ hlt]; rfl
      have hstop : ∀ (hc0 : nd.child idx = 0), FindResult t₀ k first (findTail t (some (m, idx)) m idx) := by
        intro hc0
        rw [findTail_some]
        refine ⟨he.setCur _ _, hp, Or.inl ⟨rfl, f' + 1, m, idx, _, _, _, rfl, by rw [← hpost_eq]; exact hat, hkey, ?_⟩⟩
        intro _ x hx
        rw [hc0, A_zero, List.append_nil] at hx
        exact hA x hx
      cases hfirst : first with
      | false =>
        simp only [Bool.not_false, if_true]
        rw [findTail_some]
        exact ⟨he.setCur _ _, hp, Or.inl ⟨rfl, f' + 1, m, idx, _, _, _, rfl, by rw [← hpost_eq]; exact hat, hkey,
          fun h => absurd h (by simp)⟩⟩
      | true =>
        subst hfirst
        simp only [Bool.not_true, Bool.false_eq_true, if_false]
        cases hch : nd.hasChildren with
        | false =>
          simp only [Bool.false_eq_true, if_false]
          exact hstop (leaf_child_zero hch _)
        | true =>
          simp only [if_true]
          by_cases hc : nd.child idx = 0
          · simp only [hc, beq_self_eq_true, if_true]
            exact hstop hc
          · have : (nd.child idx == 0) = false := by simpa using hc
            simp only [this, Bool.false_eq_true, if_false]
            obtain ⟨cn, hgc⟩ := hctx.kid_some hw hg hidx hc
            rw [childOf_eq he hg hc hgc]
            exact findAux_spec hw hsorted hne k true fuel t f' (nd.child idx) m _ _ (some (m, idx)) he hp
              (Ctx.child hctx hg hidx rfl hc) (by omega) hA hB
              ⟨f' + 1, nd.slot idx, _, hpost_eq, hkey, hat⟩
    · -- no hit at this node
      have hhitb : (decide (nd.count > 0) && decide (idx < nd.count) && ((nd.slot idx).key == k)) = false := by
        rcases Nat.lt_or_ge idx nd.count with hlt | hge
        · have : (nd.slot idx).key ≠ k := fun e => hhit ⟨hlt, e⟩
          simp [this]
        · simp [Nat.not_lt.mpr hge]
      simp only [hhitb, Bool.false_eq_true, if_false, Bool.false_and]
      have hC' := hC hhit
      -- the invariant about a remembered hit carries over
      have hfound' : FoundInv t₀ k (pre ++ nd.pre (A t₀) idx) (A t₀ (nd.child idx)) (nd.post (A t₀) idx ++ post) found := by
        cases found with
        | none =>
          intro x hx
          rcases List.mem_append.mp hx with hx | hx
          · have := hC' x hx; omega
          · exact hfound x hx
        | some fp =>
          obtain ⟨fn, fi⟩ := fp
          obtain ⟨ff, y, Q, hQ, hy, hat⟩ := hfound
          have hnil : nd.post (A t₀) idx = [] := by
            cases hpo : nd.post (A t₀) idx with
            | nil => rfl
            | cons z zs =>
              exfalso
              have hz := hC' z (by rw [hpo]; exact List.mem_cons_self)
              have hs : Sorted ((pre ++ nd.pre (A t₀) idx ++ A t₀ (nd.child idx)) ++ z :: (zs ++ post)) := by
                rw [habs, hpo] at hsorted; simpa [List.append_assoc] using hsorted
              have := (sorted_mid hs).2 y (by rw [hQ]; exact List.mem_append_right _ List.mem_cons_self)
              omega
          refine ⟨ff, y, Q, by rw [hnil]; exact hQ, hy, ?_⟩
          rw [hnil, List.nil_append]
          rw [hsplit, hnil, List.append_nil] at hat
          rw [List.append_assoc]
          exact hat
      -- what happens when the descent stops here
      have hstop : nd.child idx = 0 → FindResult t₀ k first (findTail t found m idx) := by
        intro hc0
        rw [hc0, A_zero, List.append_nil] at hgap habs
        cases found with
        | some fp =>
          obtain ⟨fn, fi⟩ := fp
          obtain ⟨ff, y, Q, hQ, hy, hat⟩ := hfound'
          rw [findTail_some]
          rw [hc0, A_zero, List.append_nil, hQ] at hat
          exact ⟨he.setCur _ _, hp, Or.inl ⟨rfl, ff, fn, fi, _, y, Q, rfl, hat, hy, fun _ => hA⟩⟩
        | none =>
          have hHi : ∀ x ∈ nd.post (A t₀) idx ++ post, k < x.key := by
            intro x hx
            have h1 := hB x hx
            have h2 := hfound' x hx
            omega
          unfold findTail
          simp only [hm0, if_false, hcnt]
          by_cases hlt : idx < nd.count
          · have h1 : ¬ (idx = nd.count) := by omega
            simp only [h1, if_false]
            have h2 : ((idx : Int) ≥ 0 ∧ (idx : Int) < (nd.count : Int)) := by omega
            simp only [h2, and_self, if_true]
            exact ⟨he.setCur _ _, hp, Or.inr ⟨rfl, _, _, hA, hHi, f' + 1, m, idx, rfl, Or.inl ⟨hgap, nd, hg, hlt⟩⟩⟩
          · have h1 : idx = nd.count := by omega
            simp only [h1, if_true]
            by_cases hc1 : 1 ≤ nd.count
            · have h2 : (((nd.count : Nat) : Int) - 1 ≥ 0 ∧ ((nd.count : Nat) : Int) - 1 < (nd.count : Int)) := by omega
              simp only [h2, and_self, if_true]
              obtain ⟨j, hj⟩ : ∃ j, idx = j + 1 := ⟨idx - 1, by omega⟩
              have hpre' : Pre t₀ (f' + 1) m (j + 1) (pre ++ nd.pre (A t₀) idx) (nd.post (A t₀) idx ++ post) := by
                rw [← hj]
                exact hgap.toPre (fun nd' h' => by rw [hg] at h'; cases h'; exact hc0)
              obtain ⟨L', x, hLx, hat⟩ := hpre'.toAt_pred hw
              refine ⟨he.setCur _ _, hp, Or.inr ⟨rfl, _, _, hA, hHi, f' + 1, m, j, ?_, Or.inr ⟨L', x, hLx, hat⟩⟩⟩
              simp only [BTree.setCur, Cursor.mk.injEq, and_true, true_and]
              omega
            · -- an empty node: only the root can be empty, and then the tree is empty
              exfalso
              have hz : nd.count = 0 := by omega
              have hi0 : idx = 0 := by omega
              rcases hnonempty with h0 | h1'
              · rcases hctx.up hw hg with ⟨_, hpre0, hpost0⟩ | ⟨_, hp0, _⟩
                · apply hne
                  rw [habs, hi0, Node.pre_zero, hpre0, hpost0]
                  have := Node.post_count hsh (A t₀)
                  rw [hz] at this
                  rw [this]; rfl
                · exact hp0 h0
              · omega
      cases hch : nd.hasChildren with
      | false =>
        simp only [Bool.false_eq_true, if_false]
        exact hstop (leaf_child_zero hch _)
      | true =>
        simp only [if_true]
        by_cases hc : nd.child idx = 0
        · simp only [hc, beq_self_eq_true, if_true]
          exact hstop hc
        · have : (nd.child idx == 0) = false := by simpa using hc
          simp only [this, Bool.false_eq_true, if_false]
          obtain ⟨cn, hgc⟩ := hctx.kid_some hw hg hidx hc
          rw [childOf_eq he hg hc hgc]
          exact findAux_spec hw hsorted hne k first fuel t f' (nd.child idx) m _ _ found he hp
            (Ctx.child hctx hg hidx rfl hc) (by omega) hA hB hfound'

end Sop.BTree
