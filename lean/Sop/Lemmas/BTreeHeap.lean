import Sop.Lemmas.BTree
/-! Heap-level lemmas for Model B shared by the C17/C18 proofs: node lookup/update, the relation
"same tree up to memoised child indices and cursor" (`HeapEq`), fuel-independence of `WFNode`/`absNode`
on well-formed subtrees, the fixed-fuel abstraction `A`, and the `weave` algebra. -/
namespace Sop.BTree
set_option linter.unusedVariables false
set_option linter.unusedSimpArgs false

/-! ### lookup / update -/

theorem get?_id {t : BTree} {n : NodeId} {nd : Node} (h : t.get? n = some nd) : nd.id = n := by
  unfold BTree.get? at h
  have := List.find?_some h
  simpa using this

theorem get_of_get? {t : BTree} {n : NodeId} {nd : Node} (h : t.get? n = some nd) : t.get n = nd := by
  simp [BTree.get, h]

theorem find?_map_id (l : List Node) (g : Node → Node) (hg : ∀ x, (g x).id = x.id) (m : NodeId) :
    (l.map g).find? (fun x => x.id == m) = (l.find? (fun x => x.id == m)).map g := by
  induction l with
  | nil => rfl
  | cons x xs ih =>
    simp only [List.map_cons, List.find?_cons, hg]
    cases hx : x.id == m
    · simpa using ih
    · simp

theorem get?_upd (t : BTree) (n m : NodeId) (f : Node → Node) (hf : ∀ x, (f x).id = x.id) :
    (t.upd n f).get? m = (t.get? m).map (fun x => if m = n then f x else x) := by
  unfold BTree.upd BTree.get?
  simp only
  rw [find?_map_id _ _ (by intro x; split <;> simp [hf])]
  cases h : List.find? (fun x => x.id == m) t.nodes with
  | none => rfl
  | some nd =>
    have hid : nd.id = m := by simpa using List.find?_some h
    simp [hid]

theorem get?_upd_ne (t : BTree) {n m : NodeId} (f : Node → Node) (hf : ∀ x, (f x).id = x.id) (h : m ≠ n) :
    (t.upd n f).get? m = t.get? m := by
  rw [get?_upd _ _ _ _ hf]; cases t.get? m <;> simp [h]

theorem get?_upd_eq (t : BTree) (n : NodeId) (f : Node → Node) (hf : ∀ x, (f x).id = x.id) :
    (t.upd n f).get? n = (t.get? n).map f := by
  rw [get?_upd _ _ _ _ hf]; cases t.get? n <;> simp

@[simp] theorem upd_nodes_length (t : BTree) (n : NodeId) (f : Node → Node) :
    (t.upd n f).nodes.length = t.nodes.length := by simp [BTree.upd]

@[simp] theorem setCur_get? (t : BTree) (n : NodeId) (i : Int) (m : NodeId) : (t.setCur n i).get? m = t.get? m := rfl
@[simp] theorem setCur_nodes (t : BTree) (n : NodeId) (i : Int) : (t.setCur n i).nodes = t.nodes := rfl

/-! ### `weave` algebra -/

/-- the part of `weave` after a child: the next separator and the rest -/
def weaveTail (g : NodeId → List Item) : List NodeId → List Item → List Item
  | _, [] => []
  | cs, i :: is => i :: weave g cs is

theorem weave_congr {g g' : NodeId → List Item} : ∀ (cs : List NodeId) (is : List Item),
    (∀ c ∈ cs, g c = g' c) → weave g cs is = weave g' cs is
  | [], _, _ => by simp [weave]
  | c :: cs, [], h => by
    simp only [weave]
    rw [h c (List.mem_cons_self), weave_congr cs [] (fun x hx => h x (List.mem_cons_of_mem _ hx))]
  | c :: cs, i :: is, h => by
    simp only [weave]
    rw [h c (List.mem_cons_self), weave_congr cs is (fun x hx => h x (List.mem_cons_of_mem _ hx))]

/-- splitting a `weave` at child `i` -/
theorem weave_split (g : NodeId → List Item) : ∀ (i : Nat) (cs : List NodeId) (is : List Item),
    cs.length = is.length + 1 → i ≤ is.length →
    weave g cs is = weave g (cs.take i) (is.take i) ++ g (cs.getD i 0) ++ weaveTail g (cs.drop (i + 1)) (is.drop i)
  | 0, c :: cs, [], _, _ => by
    cases cs with
    | nil => simp [weave, weaveTail]
    | cons _ _ => simp at *
  | 0, c :: cs, x :: is, _, _ => by simp [weave, weaveTail]
  | 0, [], _, h, _ => by simp at h
  | i + 1, [], _, h, _ => by simp at h
  | i + 1, c :: cs, [], _, hi => by simp at hi
  | i + 1, c :: cs, x :: is, h, hi => by
    have ih := weave_split g i cs is (by simpa using h) (by simpa using hi)
    simp only [weave, List.take_succ_cons, List.drop_succ_cons, List.getD_cons_succ, List.append_assoc,
      List.cons_append]
    rw [ih]
    simp [List.append_assoc]

theorem weave_take_succ (g : NodeId → List Item) : ∀ (i : Nat) (cs : List NodeId) (is : List Item),
    i < is.length → i + 1 < cs.length →
    weave g (cs.take (i + 1)) (is.take (i + 1)) = weave g (cs.take i) (is.take i) ++ g (cs.getD i 0) ++ [is.getD i {}]
  | 0, c :: cs, x :: is, _, _ => by simp [weave]
  | i + 1, c :: cs, x :: is, hi, hc => by
    have ih := weave_take_succ g i cs is (by simpa using hi) (by simpa using hc)
    simp only [List.take_succ_cons, weave, List.getD_cons_succ]
    rw [ih]; simp [List.append_assoc]
  | _, [], _, _, hc => by simp at hc
  | _, _ :: _, [], hi, _ => by simp at hi

theorem weaveTail_drop (g : NodeId → List Item) (cs : List NodeId) (is : List Item) (i : Nat) (hi : i < is.length) :
    weaveTail g (cs.drop (i + 1)) (is.drop i) = is.getD i {} :: weave g (cs.drop (i + 1)) (is.drop (i + 1)) := by
  have : is.drop i = is.getD i {} :: is.drop (i + 1) := by
    rw [List.getD_eq_getElem?_getD, List.getElem?_eq_getElem hi]; exact List.drop_eq_getElem_cons hi
  rw [this]; rfl

theorem weave_drop_split (g : NodeId → List Item) (cs : List NodeId) (is : List Item) (i : Nat)
    (hc : cs.length = is.length + 1) (hi : i ≤ is.length) :
    weave g (cs.drop i) (is.drop i) = g (cs.getD i 0) ++ weaveTail g (cs.drop (i + 1)) (is.drop i) := by
  have h := weave_split g 0 (cs.drop i) (is.drop i) (by simp; omega) (Nat.zero_le _)
  simp only [List.take_zero, weave, List.nil_append, List.drop_drop, List.drop_zero] at h
  rw [h]
  congr 2
  simp [List.getD_eq_getElem?_getD]

theorem weave_zero (g : NodeId → List Item) (g0 : g 0 = []) : ∀ (is : List Item) (k : Nat), k = is.length + 1 →
    weave g (List.replicate k 0) is = is
  | [], k, hk => by subst hk; simp [weave, List.replicate, g0]
  | x :: is, k, hk => by
    subst hk
    have ih := weave_zero g g0 is _ rfl
    simp only [List.replicate_succ] at ih
    simp only [List.length_cons, List.replicate_succ, weave, g0, List.nil_append, ih]

/-! ### KidsOk helpers -/

theorem KidsOk.imp {P Q : NodeId → Option Int → Option Int → Prop} (hPQ : ∀ c l h, P c l h → Q c l h) :
    ∀ (cs : List NodeId) (is : List Item) (lo hi : Option Int), KidsOk P lo hi cs is → KidsOk Q lo hi cs is
  | [], _, _, _, _ => trivial
  | c :: cs, [], lo, hi, h => ⟨h.1.imp id (hPQ _ _ _), h.2⟩
  | c :: cs, i :: is, lo, hi, h => ⟨h.1.imp id (hPQ _ _ _), h.2.1, h.2.2.1, h.2.2.2.1, KidsOk.imp hPQ cs is _ _ h.2.2.2.2⟩

theorem KidsOk.mem {P : NodeId → Option Int → Option Int → Prop} :
    ∀ (cs : List NodeId) (is : List Item) (lo hi : Option Int), KidsOk P lo hi cs is →
      ∀ c ∈ cs, c = 0 ∨ ∃ l h, P c l h
  | [], _, _, _, _, c, hc => by simp at hc
  | c :: cs, [], lo, hi, h, x, hx => by
    obtain ⟨h1, h2⟩ := h
    subst h2
    have : x = c := by simpa using hx
    subst this
    exact h1.imp id (fun h => ⟨_, _, h⟩)
  | c :: cs, i :: is, lo, hi, h, x, hx => by
    rcases List.mem_cons.mp hx with rfl | hx
    · exact h.1.imp id (fun h => ⟨_, _, h⟩)
    · exact KidsOk.mem cs is _ _ h.2.2.2.2 x hx

/-! ### fuel independence -/

theorem WFNode.succ (t : BTree) : ∀ (f : Nat) (n p : NodeId) (lo hi : Option Int),
    WFNode t f n p lo hi → WFNode t (f + 1) n p lo hi
  | 0, _, _, _, _, h => absurd h (by simp [WFNode])
  | f + 1, n, p, lo, hi, h => by
    obtain ⟨hn, nd, hg, hp, hs, hne, hbody⟩ := h
    refine ⟨hn, nd, hg, hp, hs, hne, ?_⟩
    cases hc : nd.children with
    | none => rw [hc] at hbody; exact hbody
    | some cs =>
      rw [hc] at hbody
      exact KidsOk.imp (fun c l h hh => WFNode.succ t f c n l h hh) _ _ _ _ hbody

theorem WFNode.add (t : BTree) {f : Nat} {n p : NodeId} {lo hi : Option Int} (h : WFNode t f n p lo hi) :
    ∀ k, WFNode t (f + k) n p lo hi
  | 0 => h
  | k + 1 => WFNode.succ t _ _ _ _ _ (WFNode.add t h k)

theorem WFNode.le (t : BTree) {f f' : Nat} {n p : NodeId} {lo hi : Option Int} (h : WFNode t f n p lo hi)
    (hle : f ≤ f') : WFNode t f' n p lo hi := by
  have := WFNode.add t h (f' - f)
  rwa [Nat.add_sub_cancel' hle] at this

theorem absNode_succ (t : BTree) : ∀ (f : Nat) (n p : NodeId) (lo hi : Option Int),
    WFNode t f n p lo hi → absNode t (f + 1) n = absNode t f n
  | 0, _, _, _, _, h => absurd h (by simp [WFNode])
  | f + 1, n, p, lo, hi, h => by
    obtain ⟨hn, nd, hg, _, _, _, hbody⟩ := h
    rw [absNode, absNode]
    simp only [hn, if_false, hg]
    cases hc : nd.children with
    | none => rfl
    | some cs =>
      rw [hc] at hbody
      simp only
      apply weave_congr
      intro c hcm
      rcases KidsOk.mem _ _ _ _ hbody c hcm with rfl | ⟨l, h', hw⟩
      · rw [absNode_zero, absNode_zero]
      · exact absNode_succ t f c n l h' hw

theorem absNode_add (t : BTree) {f : Nat} {n p : NodeId} {lo hi : Option Int} (h : WFNode t f n p lo hi) :
    ∀ k, absNode t (f + k) n = absNode t f n
  | 0 => rfl
  | k + 1 => by
    rw [← Nat.add_assoc, absNode_succ t _ _ _ _ _ (WFNode.add t h k), absNode_add t h k]

theorem absNode_le (t : BTree) {f f' : Nat} {n p : NodeId} {lo hi : Option Int} (h : WFNode t f n p lo hi)
    (hle : f ≤ f') : absNode t f' n = absNode t f n := by
  have := absNode_add t h (f' - f)
  rwa [Nat.add_sub_cancel' hle] at this

/-- the in-order contents of the subtree at `n` with the repository-size fuel -/
def A (t : BTree) (n : NodeId) : List Item := absNode t (t.nodes.length + 1) n

theorem A_zero (t : BTree) : A t 0 = [] := absNode_zero t _

theorem abs_eq_A (t : BTree) : t.abs = A t t.root := rfl

/-- the children of a node as the list `weave` consumes (`count + 1` entries; all nil for a leaf) -/
def Node.kids (nd : Node) : List NodeId :=
  match nd.children with
  | none => List.replicate (nd.count + 1) 0
  | some cs => cs.toList.take (nd.count + 1)

theorem Node.kids_length {t : BTree} {nd : Node} (hs : NodeShape t nd) : nd.kids.length = nd.count + 1 := by
  unfold Node.kids
  cases hc : nd.children with
  | none => simp
  | some cs =>
    have := (hs.2.2.2.2 cs hc).1
    have := hs.2.1
    simp; omega

theorem Node.items_length {t : BTree} {nd : Node} (hs : NodeShape t nd) : nd.items.length = nd.count := by
  have := hs.1; have := hs.2.1
  simp [Node.items]; omega

theorem Node.kids_getD {t : BTree} {nd : Node} (hs : NodeShape t nd) {i : Nat} (hi : i ≤ nd.count) :
    nd.kids.getD i 0 = nd.child i := by
  unfold Node.kids Node.child
  cases hc : nd.children with
  | none => simp [List.getD_eq_getElem?_getD, List.getElem?_replicate, show i < nd.count + 1 by omega]
  | some cs =>
    have := (hs.2.2.2.2 cs hc).1
    have := hs.2.1
    simp only [Option.getD_some, List.getD_eq_getElem?_getD, Array.getD_eq_getD_getElem?]
    rw [List.getElem?_take]
    simp [show i < nd.count + 1 by omega]

theorem Node.items_getD {t : BTree} {nd : Node} (hs : NodeShape t nd) {i : Nat} (hi : i < nd.count) :
    nd.items.getD i {} = nd.slot i := by
  unfold Node.items Node.slot
  simp only [List.getD_eq_getElem?_getD, Array.getD_eq_getD_getElem?]
  rw [List.getElem?_take]
  simp [hi]

/-- unfolding `A` at a well-formed node -/
theorem A_unfold (t : BTree) {f : Nat} {n p : NodeId} {lo hi : Option Int} {nd : Node}
    (h : WFNode t f n p lo hi) (hf : f ≤ t.nodes.length + 1) (hg : t.get? n = some nd) :
    A t n = weave (A t) nd.kids nd.items := by
  cases f with
  | zero => exact absurd h (by simp [WFNode])
  | succ f =>
    unfold A
    rw [absNode_le t h hf]
    obtain ⟨hn, nd', hg', _, hs, _, hbody⟩ := h
    rw [hg] at hg'; cases hg'
    rw [absNode]
    simp only [hn, if_false, hg]
    unfold Node.kids
    cases hc : nd.children with
    | none =>
      simp only
      rw [weave_zero _ (absNode_zero t _) _ _ (by rw [Node.items_length hs])]
    | some cs =>
      rw [hc] at hbody
      simp only
      apply weave_congr
      intro c hcm
      rcases KidsOk.mem _ _ _ _ hbody c hcm with rfl | ⟨l, h', hw⟩
      · rw [absNode_zero, absNode_zero]
      · exact (absNode_le t hw (by omega)).symm

/-- every child entry of a well-formed node is nil or the root of a well-formed subtree one level down -/
theorem WFNode.kid {t : BTree} {f : Nat} {n p : NodeId} {lo hi : Option Int} {nd : Node}
    (h : WFNode t (f + 1) n p lo hi) (hg : t.get? n = some nd) {i : Nat} (hi' : i ≤ nd.count) :
    nd.child i = 0 ∨ ∃ l h', WFNode t f (nd.child i) n l h' := by
  obtain ⟨_, nd', hg', _, hs, _, hbody⟩ := h
  rw [hg] at hg'; cases hg'
  cases hc : nd.children with
  | none => left; simp [Node.child, hc]
  | some cs =>
    rw [hc] at hbody
    have hk : nd.kids = cs.toList.take (nd.count + 1) := by simp [Node.kids, hc]
    have hm : nd.child i ∈ nd.kids := by
      rw [← Node.kids_getD hs hi', List.getD_eq_getElem?_getD]
      have : i < nd.kids.length := by rw [Node.kids_length hs]; omega
      rw [List.getElem?_eq_getElem this]; simp
    rw [hk] at hm
    exact KidsOk.mem _ _ _ _ hbody _ hm

end Sop.BTree

