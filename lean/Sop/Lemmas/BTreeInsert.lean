import Sop.Lemmas.BTreeHeap
/-! # C17 update side, `Btree.Add`: the descent of `node.add`, the frame lemma, and STAGE 1 —
insertion into a leaf with room (`insertSlotItem`), the rejected duplicate, the first `Add` into an empty tree.
Main theorems: `descend`, `assembleG`/`assemble`, `addU_leaf_room`, `addU_dup`, `addU_dup_cur`, `addU_first`. -/
namespace Sop.BTree.Ins
open Sop.BTree
set_option linter.unusedVariables false
set_option linter.unusedSimpArgs false

/-! Insert proofs for Model B, part 1: Go slice helpers at list level, the descent target of `addLoop`,
the frame lemma, positional `KidsOk` lemmas. -/

/-! ### Go slice helpers -/

theorem writeAt_size {α} : ∀ (l : List α) (dst : Array α) (off : Nat), (writeAt dst off l).size = dst.size
  | [], _, _ => rfl
  | x :: xs, dst, off => by
    unfold writeAt
    split
    · rw [writeAt_size xs]; simp
    · rfl

theorem writeAt_getElem? {α} : ∀ (l : List α) (dst : Array α) (off k : Nat),
    (writeAt dst off l)[k]? = if off ≤ k ∧ k < off + l.length ∧ k < dst.size then l[k - off]? else dst[k]?
  | [], dst, off, k => by
    simp only [writeAt, List.length_nil, Nat.add_zero]
    rw [if_neg (by omega)]
  | x :: xs, dst, off, k => by
    unfold writeAt
    by_cases ho : off < dst.size
    · rw [if_pos ho, writeAt_getElem? xs]
      simp only [Array.size_setIfInBounds, List.length_cons]
      by_cases h1 : off + 1 ≤ k ∧ k < off + 1 + xs.length ∧ k < dst.size
      · rw [if_pos h1, if_pos (by omega)]
        have : k - off = (k - (off + 1)) + 1 := by omega
        rw [this, List.getElem?_cons_succ]
      · rw [if_neg h1]
        by_cases hk : k = off
        · subst hk
          rw [if_pos (by omega), Array.getElem?_setIfInBounds_self_of_lt ho]
          simp
        · rw [if_neg (by omega), Array.getElem?_setIfInBounds_ne (by omega)]
    · rw [if_neg ho, if_neg (by omega)]

/-- the list after `insertSlotItem`-style shifting: `copy(a[i+1:], a[i:]); a[i] = v` -/
theorem insertShift_toList {α} (a : Array α) (i : Nat) (v : α) (hi : i < a.size) :
    ((goCopy a (i + 1) a i a.size).setIfInBounds i v).toList = (a.toList.take i ++ v :: a.toList.drop i).take a.size := by
  apply List.ext_getElem?
  intro k
  rw [Array.toList_setIfInBounds, List.getElem?_set]
  simp only [goCopy, Array.length_toList, writeAt_size]
  rw [List.getElem?_take]
  by_cases hk : i = k
  · subst hk
    rw [if_pos rfl, if_pos hi, if_pos hi, List.getElem?_append_right (by simp; omega)]
    simp [Nat.min_eq_left (Nat.le_of_lt hi)]
  · rw [if_neg hk, Array.getElem?_toList, writeAt_getElem?]
    simp only [List.length_take, List.length_drop, Array.length_toList]
    by_cases hks : k < a.size
    · rw [if_pos hks]
      by_cases hlt : k < i
      · rw [if_neg (by omega), List.getElem?_append_left (by simp; omega), List.getElem?_take, if_pos hlt]
        simp
      · rw [if_pos (by omega), List.getElem?_append_right (by simp; omega)]
        simp only [List.length_take, Array.length_toList, Nat.min_eq_left (Nat.le_of_lt hi)]
        have h1 : k - i = (k - (i + 1)) + 1 := by omega
        rw [h1, List.getElem?_cons_succ, List.getElem?_take, if_pos (by omega), List.getElem?_drop]
    · rw [if_neg hks, if_neg (by omega)]
      simp [Array.getElem?_eq_none (Nat.le_of_not_lt hks)]

theorem insertShift_size {α} (a : Array α) (i : Nat) (v : α) :
    ((goCopy a (i + 1) a i a.size).setIfInBounds i v).size = a.size := by
  simp [goCopy, writeAt_size]

/-- the occupied prefix after inserting at `i ≤ c` into a list with `c` occupied entries -/
theorem insert_take {α} (l : List α) (i c : Nat) (v : α) (hic : i ≤ c) (hc : c < l.length) :
    ((l.take i ++ v :: l.drop i).take l.length).take (c + 1) = (l.take c).take i ++ v :: (l.take c).drop i := by
  rw [List.take_take, Nat.min_eq_left (by omega), List.take_append]
  simp only [List.length_take, Nat.min_eq_left (show i ≤ l.length by omega)]
  rw [List.take_of_length_le (by simp; omega)]
  have : c + 1 - i = (c - i) + 1 := by omega
  rw [this, List.take_succ_cons, List.take_take, Nat.min_eq_left hic, List.drop_take]

/-- the unoccupied tail after the insertion is a tail of the old unoccupied part -/
theorem insert_drop_mem {α} (l : List α) (i c : Nat) (v : α) (hic : i ≤ c) (hc : c < l.length) (x : α)
    (hx : x ∈ ((l.take i ++ v :: l.drop i).take l.length).drop (c + 1)) : x ∈ l.drop c := by
  rw [List.drop_take] at hx
  have hx := List.mem_of_mem_take hx
  rw [List.drop_append] at hx
  simp only [List.length_take, Nat.min_eq_left (show i ≤ l.length by omega)] at hx
  rw [List.drop_of_length_le (by simp; omega)] at hx
  have : c + 1 - i = (c - i) + 1 := by omega
  rw [this, List.nil_append, List.drop_succ_cons, List.drop_drop] at hx
  have : i + (c - i) = c := by omega
  rwa [this] at hx

/-! Insert proofs for Model B, part 2: the descent target of `addLoop`, `reach`, the frame lemma. -/

/-! ### where `addLoop` ends -/

/-- how the descent of `node.add` ends -/
inductive Target where
  | dup (n : NodeId) (i : Nat)      -- the key exists (unique store): cursor parked, nothing added
  | nilc (n : NodeId) (i : Nat)     -- nil child `i` of inner node `n`: `addItemOnNodeWithNilChild`
  | leaf (n : NodeId) (i : Nat)     -- `addOnLeaf` on leaf `n` at slot `i`
  | stuck                           -- a child id that is not in the repository
  | fuel
deriving Repr, DecidableEq, Inhabited

/-- the duplicate test `node.add` makes on a leaf -/
def leafDup (t : BTree) (nd : Node) (key : Int) (index : Nat) : Option Nat :=
  if t.unique && nd.count > 0 then
    let ci := if index > 0 && index ≥ nd.count then index - 1 else index
    if (nd.slot ci).key == key then some ci else none
  else none

/-- the descent of `addLoop`, without the action at its end -/
def addTarget (key : Int) : Nat → BTree → NodeId → Target
  | 0, _, _ => .fuel
  | fuel + 1, t, n =>
    let nd := t.get n
    if (getIndexToInsertTo t nd key).2 then .dup n (getIndexToInsertTo t nd key).1
    else if nd.hasChildren then
      if nd.child (getIndexToInsertTo t nd key).1 == 0 then .nilc n (getIndexToInsertTo t nd key).1
      else if t.childOf n (getIndexToInsertTo t nd key).1 = 0 then .stuck
      else addTarget key fuel t (t.childOf n (getIndexToInsertTo t nd key).1)
    else
      match leafDup t nd key (getIndexToInsertTo t nd key).1 with
      | some ci => .dup n ci
      | none => .leaf n (getIndexToInsertTo t nd key).1

/-- the action at the end of the descent -/
def Target.apply (item : Item) (t : BTree) : Target → BTree × Bool
  | .dup n i => (t.setCur n i, false)
  | .nilc n i => (t.newChildWithItem n i item, true)
  | .leaf n i => (t.addOnLeaf n item i, true)
  | .stuck => (t, false)
  | .fuel => (t.panic, false)

theorem addLoop_eq (item : Item) : ∀ (fuel : Nat) (t : BTree) (n : NodeId),
    addLoop item fuel t n = (addTarget item.key fuel t n).apply item t
  | 0, t, n => rfl
  | fuel + 1, t, n => by
    unfold addLoop addTarget
    simp only []
    by_cases h1 : (getIndexToInsertTo t (t.get n) item.key).2 = true
    · simp only [h1, if_true, Target.apply]
    · simp only [h1, if_false, Bool.false_eq_true]
      by_cases h2 : (t.get n).hasChildren = true
      · simp only [h2, if_true]
        by_cases h3 : ((t.get n).child (getIndexToInsertTo t (t.get n) item.key).1 == 0) = true
        · simp only [h3, if_true, Target.apply]
        · simp only [h3, if_false, Bool.false_eq_true]
          by_cases h4 : t.childOf n (getIndexToInsertTo t (t.get n) item.key).1 = 0
          · simp only [h4, if_true, Target.apply]
          · simp only [h4, if_false]
            exact addLoop_eq item fuel t _
      · simp only [h2, if_false, Bool.false_eq_true]
        have key : ∀ d : Option Nat,
            (match d with
              | some ci => (t.setCur n ci, false)
              | none => (t.addOnLeaf n item (getIndexToInsertTo t (t.get n) item.key).1, true)) =
            Target.apply item t (match d with
              | some ci => Target.dup n ci
              | none => Target.leaf n (getIndexToInsertTo t (t.get n) item.key).1) := by
          intro d; cases d <;> rfl
        exact key (leafDup t (t.get n) item.key (getIndexToInsertTo t (t.get n) item.key).1)


/-! ### `reach` -/

/-- the children array prefix `reach`/`WFNode`/`absNode` walk over -/
def Node.kidArr (nd : Node) : List NodeId := (nd.children.getD #[]).toList.take (nd.count + 1)

theorem reach_zero (t : BTree) : ∀ f, reach t f 0 = []
  | 0 => rfl
  | _ + 1 => by simp [reach]

theorem reach_succ {t : BTree} {f : Nat} {m : NodeId} {nd : Node} (hn : m ≠ 0) (hg : t.get? m = some nd) :
    reach t (f + 1) m = m :: (Node.kidArr nd).flatMap (reach t f) := by
  simp [reach, hn, hg, Node.kidArr]

theorem mem_reach_isSome (t : BTree) : ∀ (f : Nat) (m x : NodeId), x ∈ reach t f m → (t.get? x).isSome
  | 0, _, _, h => by simp [reach] at h
  | f + 1, m, x, h => by
    by_cases hn : m = 0
    · subst hn; rw [reach_zero] at h; simp at h
    · cases hg : t.get? m with
      | none => simp [reach, hn, hg] at h
      | some nd =>
        rw [reach_succ hn hg] at h
        rcases List.mem_cons.mp h with rfl | h
        · simp [hg]
        · obtain ⟨c, _, hc⟩ := List.mem_flatMap.mp h
          exact mem_reach_isSome t f c x hc

theorem flatMap_congr' {α β} {f g : α → List β} : ∀ (l : List α), (∀ c ∈ l, f c = g c) → l.flatMap f = l.flatMap g
  | [], _ => rfl
  | c :: cs, h => by
    simp only [List.flatMap_cons]
    rw [h c (List.mem_cons_self), flatMap_congr' cs (fun x hx => h x (List.mem_cons_of_mem _ hx))]

theorem KidsOk.imp_mem {P Q : NodeId → Option Int → Option Int → Prop} :
    ∀ (cs : List NodeId) (is : List Item) (lo hi : Option Int), (∀ c ∈ cs, ∀ l h, P c l h → Q c l h) →
      KidsOk P lo hi cs is → KidsOk Q lo hi cs is
  | [], _, _, _, _, _ => trivial
  | c :: cs, [], lo, hi, hPQ, h => ⟨h.1.imp id (hPQ c (List.mem_cons_self) _ _), h.2⟩
  | c :: cs, i :: is, lo, hi, hPQ, h =>
    ⟨h.1.imp id (hPQ c (List.mem_cons_self) _ _), h.2.1, h.2.2.1, h.2.2.2.1,
      KidsOk.imp_mem cs is _ _ (fun x hx => hPQ x (List.mem_cons_of_mem _ hx)) h.2.2.2.2⟩

theorem nodeShape_congr {t t' : BTree} (hsl : t'.sl = t.sl) {nd : Node} (h : NodeShape t nd) : NodeShape t' nd := by
  unfold NodeShape at *
  rw [hsl]; exact h

/-- FRAME: a subtree none of whose nodes changed is as well-formed as before, with the same contents
    and the same node set -/
theorem frame {t t' : BTree} (hsl : t'.sl = t.sl) : ∀ (f : Nat) (m p : NodeId) (lo hi : Option Int),
    (∀ x ∈ reach t f m, t'.get? x = t.get? x) → WFNode t f m p lo hi →
    WFNode t' f m p lo hi ∧ absNode t' f m = absNode t f m ∧ reach t' f m = reach t f m
  | 0, _, _, _, _, _, h => absurd h (by simp [WFNode])
  | f + 1, m, p, lo, hi, H, h => by
    obtain ⟨hn, nd, hg, hp, hs, hne, hbody⟩ := h
    have hr := reach_succ (f := f) hn hg
    have hg' : t'.get? m = some nd := by rw [H m (by rw [hr]; exact List.mem_cons_self)]; exact hg
    have hsub : ∀ c ∈ Node.kidArr nd, ∀ x ∈ reach t f c, t'.get? x = t.get? x := by
      intro c hc x hx
      apply H
      rw [hr]
      exact List.mem_cons_of_mem _ (List.mem_flatMap.mpr ⟨c, hc, hx⟩)
    cases hc : nd.children with
    | none =>
      rw [hc] at hbody
      refine ⟨⟨hn, nd, hg', hp, nodeShape_congr hsl hs, hne, by rw [hc]; exact hbody⟩, ?_, ?_⟩
      · simp [absNode, hn, hg, hg', hc]
      · rw [hr, reach_succ hn hg']
        simp [Node.kidArr, hc]
    | some cs =>
      rw [hc] at hbody
      have hka : Node.kidArr nd = cs.toList.take (nd.count + 1) := by simp [Node.kidArr, hc]
      have hkid : ∀ c ∈ cs.toList.take (nd.count + 1), c = 0 ∨ ∃ l h', WFNode t f c m l h' :=
        fun c hcm => KidsOk.mem _ _ _ _ hbody c hcm
      refine ⟨⟨hn, nd, hg', hp, nodeShape_congr hsl hs, hne, ?_⟩, ?_, ?_⟩
      · rw [hc]
        refine KidsOk.imp_mem _ _ _ _ ?_ hbody
        intro c hcm l h' hw
        exact (frame hsl f c m l h' (hsub c (by rw [hka]; exact hcm)) hw).1
      · simp only [absNode, hn, if_false, hg, hg', hc]
        apply weave_congr
        intro c hcm
        rcases hkid c hcm with rfl | ⟨l, h', hw⟩
        · rw [absNode_zero, absNode_zero]
        · exact (frame hsl f c m l h' (hsub c (by rw [hka]; exact hcm)) hw).2.1
      · rw [hr, reach_succ hn hg']
        congr 1
        apply flatMap_congr'
        intro c hcm
        rw [hka] at hcm
        rcases hkid c hcm with rfl | ⟨l, h', hw⟩
        · rw [reach_zero, reach_zero]
        · exact (frame hsl f c m l h' (hsub c (by rw [hka]; exact hcm)) hw).2.2


/-! ### fuel independence of `reach` -/

theorem reach_fuel_succ (t : BTree) : ∀ (f : Nat) (n p : NodeId) (lo hi : Option Int),
    WFNode t f n p lo hi → reach t (f + 1) n = reach t f n
  | 0, _, _, _, _, h => absurd h (by simp [WFNode])
  | f + 1, n, p, lo, hi, h => by
    obtain ⟨hn, nd, hg, _, _, _, hbody⟩ := h
    rw [reach_succ hn hg, reach_succ hn hg]
    congr 1
    cases hc : nd.children with
    | none => simp [Node.kidArr, hc]
    | some cs =>
      rw [hc] at hbody
      have hka : Node.kidArr nd = cs.toList.take (nd.count + 1) := by simp [Node.kidArr, hc]
      rw [hka]
      apply flatMap_congr'
      intro c hcm
      rcases KidsOk.mem _ _ _ _ hbody c hcm with rfl | ⟨l, h', hw⟩
      · rw [reach_zero, reach_zero]
      · exact reach_fuel_succ t f c n l h' hw

theorem reach_fuel_add (t : BTree) {f : Nat} {n p : NodeId} {lo hi : Option Int} (h : WFNode t f n p lo hi) :
    ∀ k, reach t (f + k) n = reach t f n
  | 0 => rfl
  | k + 1 => by
    rw [← Nat.add_assoc, reach_fuel_succ t _ _ _ _ _ (WFNode.add t h k), reach_fuel_add t h k]

theorem reach_fuel_le (t : BTree) {f f' : Nat} {n p : NodeId} {lo hi : Option Int} (h : WFNode t f n p lo hi)
    (hle : f ≤ f') : reach t f' n = reach t f n := by
  have := reach_fuel_add t h (f' - f)
  rwa [Nat.add_sub_cancel' hle] at this

/-! Insert proofs for Model B, part 3: positional `KidsOk` lemmas and the descent lemma. -/

/-! ### positional `KidsOk` lemmas -/

theorem getD_of_lt {α} (l : List α) (j : Nat) (d : α) (h : j < l.length) : l.getD j d = l[j] := by
  rw [List.getD_eq_getElem?_getD, List.getElem?_eq_getElem h]; rfl

theorem KidsOk.imp_idx {P Q : NodeId → Option Int → Option Int → Prop} :
    ∀ (cs : List NodeId) (is : List Item) (lo hi : Option Int),
      (∀ j, j < cs.length → ∀ l h, P (cs.getD j 0) l h → Q (cs.getD j 0) l h) →
      KidsOk P lo hi cs is → KidsOk Q lo hi cs is
  | [], _, _, _, _, _ => trivial
  | c :: cs, [], lo, hi, hPQ, h => ⟨h.1.imp id (hPQ 0 (by simp) _ _), h.2⟩
  | c :: cs, i :: is, lo, hi, hPQ, h =>
    ⟨h.1.imp id (hPQ 0 (by simp) _ _), h.2.1, h.2.2.1, h.2.2.2.1,
      KidsOk.imp_idx cs is _ _ (fun j hj l h' => by
        have := hPQ (j + 1) (by simpa using hj) l h'
        simpa using this) h.2.2.2.2⟩

/-- replace the predicate at the child position `idx` the search key belongs to (the new predicate
    may use that the key is inside the child's bounds), keep the others -/
theorem KidsOk.replace {P Q : NodeId → Option Int → Option Int → Prop} (key : Int) :
    ∀ (idx : Nat) (cs : List NodeId) (is : List Item) (lo hi : Option Int),
      cs.length = is.length + 1 → idx ≤ is.length → KidsOk P lo hi cs is →
      (∀ x ∈ is.take idx, x.key < key) → (∀ x ∈ is.drop idx, key ≤ x.key) → LeO lo key → OLe key hi →
      (∀ l h, P (cs.getD idx 0) l h → LeO l key → OLe key h → Q (cs.getD idx 0) l h) →
      (∀ j, j < cs.length → j ≠ idx → ∀ l h, P (cs.getD j 0) l h → Q (cs.getD j 0) l h) →
      KidsOk Q lo hi cs is
  | 0, [], _, _, _, hl, _, _, _, _, _, _, _, _ => by simp at hl
  | _ + 1, [], _, _, _, hl, _, _, _, _, _, _, _, _ => by simp at hl
  | 0, c :: cs, [], lo, hi, hl, _, h, _, _, hlo, hhi, hidx, _ =>
    ⟨h.1.imp id (fun hp => hidx _ _ hp hlo hhi), h.2⟩
  | 0, c :: cs, x :: is, lo, hi, hl, _, h, _, hdrop, hlo, hhi, hidx, hoth => by
    refine ⟨h.1.imp id (fun hp => hidx _ _ hp hlo ?_), h.2.1, h.2.2.1, h.2.2.2.1, ?_⟩
    · intro b hb; cases hb; exact hdrop x (by simp)
    · refine KidsOk.imp_idx cs is _ _ (fun j hj l h' => ?_) h.2.2.2.2
      have := hoth (j + 1) (by simpa using hj) (by omega) l h'
      simpa using this
  | idx + 1, c :: cs, [], _, _, _, hi', _, _, _, _, _, _, _ => by simp at hi'
  | idx + 1, c :: cs, x :: is, lo, hi, hl, hi', h, htake, hdrop, hlo, hhi, hidx, hoth => by
    have hx : x.key < key := htake x (by simp)
    refine ⟨h.1.imp id (fun hp => ?_), h.2.1, h.2.2.1, h.2.2.2.1, ?_⟩
    · have := hoth 0 (by simp) (by omega) lo (some x.key)
      simpa using this hp
    · refine KidsOk.replace key idx cs is (some x.key) hi (by simpa using hl) (by simpa using hi') h.2.2.2.2
        (fun y hy => htake y (by simp [hy])) (fun y hy => hdrop y (by simpa using hy))
        (fun b hb => by cases hb; omega) hhi ?_ ?_
      · intro l h' hp h1 h2
        have := hidx l h'
        simp only [List.getD_cons_succ] at this
        exact this hp h1 h2
      · intro j hj hne l h' hp
        have := hoth (j + 1) (by simpa using hj) (by omega) l h'
        simp only [List.getD_cons_succ] at this
        exact this hp

/-- the child at the position the search key belongs to is nil or well-formed inside bounds that
    contain the key -/
theorem KidsOk.at {P : NodeId → Option Int → Option Int → Prop} (key : Int) :
    ∀ (idx : Nat) (cs : List NodeId) (is : List Item) (lo hi : Option Int),
      cs.length = is.length + 1 → idx ≤ is.length → KidsOk P lo hi cs is →
      (∀ x ∈ is.take idx, x.key < key) → (∀ x ∈ is.drop idx, key ≤ x.key) → LeO lo key → OLe key hi →
      cs.getD idx 0 = 0 ∨ ∃ l h, P (cs.getD idx 0) l h ∧ LeO l key ∧ OLe key h
  | 0, [], _, _, _, hl, _, _, _, _, _, _ => by simp at hl
  | _ + 1, [], _, _, _, hl, _, _, _, _, _, _ => by simp at hl
  | 0, c :: cs, [], lo, hi, hl, _, h, _, _, hlo, hhi => by
    simpa using h.1.imp id (fun hp => ⟨lo, hi, hp, hlo, hhi⟩)
  | 0, c :: cs, x :: is, lo, hi, hl, _, h, _, hdrop, hlo, hhi => by
    have : OLe key (some x.key) := by intro b hb; cases hb; exact hdrop x (by simp)
    simpa using h.1.imp id (fun hp => ⟨lo, some x.key, hp, hlo, this⟩)
  | idx + 1, c :: cs, [], _, _, _, hi', _, _, _, _, _ => by simp at hi'
  | idx + 1, c :: cs, x :: is, lo, hi, hl, hi', h, htake, hdrop, hlo, hhi => by
    have hx : x.key < key := htake x (by simp)
    have := KidsOk.at key idx cs is (some x.key) hi (by simpa using hl) (by simpa using hi') h.2.2.2.2
        (fun y hy => htake y (by simp [hy])) (fun y hy => hdrop y (by simpa using hy))
        (fun b hb => by cases hb; omega) hhi
    simpa using this

theorem KidsOk.take_tight {P : NodeId → Option Int → Option Int → Prop} :
    ∀ (k : Nat) (cs : List NodeId) (is : List Item) (lo hi : Option Int) (b : Int), k ≤ is.length →
      KidsOk P lo hi cs is → (∀ x ∈ is.take k, x.key ≤ b) → KidsOk P lo (some b) (cs.take k) (is.take k)
  | 0, _, _, _, _, _, _, _, _ => by simp [KidsOk]
  | k + 1, [], _, _, _, _, _, _, _ => by simp [KidsOk]
  | k + 1, c :: cs, [], _, _, _, hk, _, _ => by simp at hk
  | k + 1, c :: cs, x :: is, lo, hi, b, hk, h, hb => by
    simp only [List.take_succ_cons]
    refine ⟨h.1, h.2.1, ?_, h.2.2.2.1, ?_⟩
    · intro b' hb'; cases hb'; exact hb x (by simp)
    · exact KidsOk.take_tight k cs is (some x.key) hi b (by simpa using hk) h.2.2.2.2
        (fun y hy => hb y (by simp [hy]))

theorem KidsOk.drop_succ {P : NodeId → Option Int → Option Int → Prop} :
    ∀ (k : Nat) (cs : List NodeId) (is : List Item) (lo hi : Option Int), k < is.length →
      KidsOk P lo hi cs is → KidsOk P (some (is.getD k {}).key) hi (cs.drop (k + 1)) (is.drop (k + 1))
  | _, [], _, _, _, _, _ => by simp [KidsOk]
  | _, c :: cs, [], _, _, hk, _ => by simp at hk
  | 0, c :: cs, x :: is, lo, hi, hk, h => by simpa using h.2.2.2.2
  | k + 1, c :: cs, x :: is, lo, hi, hk, h => by
    simpa using KidsOk.drop_succ k cs is (some x.key) hi (by simpa using hk) h.2.2.2.2

theorem KidsOk.itemsOk {P : NodeId → Option Int → Option Int → Prop} :
    ∀ (cs : List NodeId) (is : List Item) (lo hi : Option Int), cs.length = is.length + 1 →
      KidsOk P lo hi cs is → ItemsOk lo hi is
  | _, [], _, _, _, _ => trivial
  | [], x :: is, _, _, hl, _ => by simp at hl
  | c :: cs, x :: is, lo, hi, hl, h =>
    ⟨h.2.1, h.2.2.1, h.2.2.2.1, KidsOk.itemsOk cs is _ _ (by simpa using hl) h.2.2.2.2⟩

theorem good_itemsOk : ∀ (l : List Item) (lo hi : Option Int), Good lo hi l → ItemsOk lo hi l
  | [], _, _, _ => trivial
  | i :: is, lo, hi, h => by
    have hp := List.pairwise_cons.mp h.1
    have hi' := h.2 i (List.mem_cons_self)
    refine ⟨hi'.1, hi'.2.1, hi'.2.2, good_itemsOk is _ _ ⟨hp.2, ?_⟩⟩
    intro x hx
    have hx' := h.2 x (List.mem_cons_of_mem _ hx)
    exact ⟨fun b hb => by cases hb; exact hp.1 x hx, hx'.2.1, hx'.2.2⟩

theorem weaveTail_congr {g g' : NodeId → List Item} (cs : List NodeId) (is : List Item)
    (h : ∀ c ∈ cs, g c = g' c) : weaveTail g cs is = weaveTail g' cs is := by
  cases is with
  | nil => rfl
  | cons i is => simp only [weaveTail]; rw [weave_congr cs is h]

/-! Insert proofs for Model B, part 4: the descent lemma. -/

/-- `getIndexToInsertTo` returns the lower bound of the key among the occupied slots -/
theorem insIdx_spec (t : BTree) (nd : Node) (key : Int) (hs : NodeShape t nd) (hsorted : Sorted nd.items) :
    (getIndexToInsertTo t nd key).1 ≤ nd.count ∧
    (∀ x ∈ nd.items.take (getIndexToInsertTo t nd key).1, x.key < key) ∧
    (∀ x ∈ nd.items.drop (getIndexToInsertTo t nd key).1, key ≤ x.key) := by
  have hlen := Node.items_length hs
  by_cases h0 : nd.count = 0
  · have e : (getIndexToInsertTo t nd key).1 = 0 := by simp [getIndexToInsertTo, h0]
    have hnil : nd.items = [] := List.eq_nil_of_length_eq_zero (by omega)
    rw [e, hnil]; simp
  · have e : (getIndexToInsertTo t nd key).1 = sortSearch nd.count (fun i => decide ((nd.slot i).key ≥ key)) := by
      unfold getIndexToInsertTo
      simp only [h0, if_false]
      split <;> rfl
    rw [e]
    have hlb := node_search_lower_bound nd key (by have := hs.1; have := hs.2.1; omega) hsorted
    simp only at hlb
    refine ⟨hlb.1, ?_, ?_⟩
    · intro x hx
      obtain ⟨j, hj, rfl⟩ := List.mem_take_iff_getElem.mp hx
      have hj' : j < nd.count := by omega
      have := Node.items_getD hs hj'
      rw [getD_of_lt _ _ _ (by omega)] at this
      rw [this]
      exact hlb.2.1 j (by omega)
    · intro x hx
      obtain ⟨j, hj, rfl⟩ := List.mem_drop_iff_getElem.mp hx
      have hj' : sortSearch nd.count (fun i => decide ((nd.slot i).key ≥ key)) + j < nd.count := by omega
      have := Node.items_getD hs hj'
      rw [getD_of_lt _ _ _ (by omega)] at this
      rw [this]
      exact hlb.2.2 _ (by omega) hj'

/-- what the action at the target node `n` guarantees, whatever parent and bounds `n` has
    (`d` = by how much the subtree may have grown in depth, `news` = the node ids it created) -/
structure LocalOk (t t' : BTree) (n : NodeId) (item : Item) (d : Nat) (news : List NodeId) : Prop where
  sl : t'.sl = t.sl
  frame : ∀ x, x ≠ n → (t.get? x).isSome → t'.get? x = t.get? x
  newsNone : ∀ x ∈ news, t.get? x = none
  newsNodup : news.Nodup
  wf : ∀ f p l h, WFNode t f n p l h → (reach t f n).Nodup → LeO l item.key → OLe item.key h →
    WFNode t' (f + d) n p l h ∧ (reach t' (f + d) n).Perm (reach t f n ++ news) ∧
      ∃ L R, absNode t f n = L ++ R ∧ absNode t' (f + d) n = L ++ item :: R ∧
        (∀ x ∈ L, x.key < item.key) ∧ (∀ x ∈ R, item.key ≤ x.key)

/-- the general form of `LocalOk` used by the descent lemma: the action may rewrite the whole subtree
    of `n` (nodes outside it, as far as they exist, are untouched) -/
structure LocalOkG (t t' : BTree) (n : NodeId) (item : Item) (d : Nat) (news : List NodeId) : Prop where
  sl : t'.sl = t.sl
  frame : ∀ f p l h, WFNode t f n p l h → f ≤ t.nodes.length + 1 → (reach t f n).Nodup → LeO l item.key → OLe item.key h →
    ∀ x, (t.get? x).isSome → x ∉ reach t f n → t'.get? x = t.get? x
  newsNone : ∀ x ∈ news, t.get? x = none
  newsNodup : news.Nodup
  wf : ∀ f p l h, WFNode t f n p l h → f ≤ t.nodes.length + 1 → (reach t f n).Nodup → LeO l item.key → OLe item.key h →
    WFNode t' (f + d) n p l h ∧ (reach t' (f + d) n).Perm (reach t f n ++ news) ∧
      ∃ L R, absNode t f n = L ++ R ∧ absNode t' (f + d) n = L ++ item :: R ∧
        (∀ x ∈ L, x.key < item.key) ∧ (∀ x ∈ R, item.key ≤ x.key)

theorem self_mem_reach {t : BTree} {f : Nat} {n p : NodeId} {l h : Option Int} (hw : WFNode t f n p l h) :
    n ∈ reach t f n := by
  cases f with
  | zero => exact absurd hw (by simp [WFNode])
  | succ f =>
    obtain ⟨hn, nd, hg, _⟩ := hw
    rw [reach_succ hn hg]; exact List.mem_cons_self

theorem LocalOk.toG {t t' : BTree} {n : NodeId} {item : Item} {d : Nat} {news : List NodeId}
    (h : LocalOk t t' n item d news) : LocalOkG t t' n item d news :=
  ⟨h.sl, fun f p l hh hw _ _ _ _ x hs hx => h.frame x (fun e => hx (by rw [e]; exact self_mem_reach hw)) hs, h.newsNone, h.newsNodup,
    fun f p l hh hw _ => h.wf f p l hh hw⟩

/-- `q` is one of the nodes `node.add` visits on its way down from `m` -/
def onPath (key : Int) : Nat → BTree → NodeId → NodeId → Prop
  | 0, _, _, _ => False
  | fuel + 1, t, m, q =>
    q = m ∨ ((getIndexToInsertTo t (t.get m) key).2 = false ∧ (t.get m).hasChildren = true ∧
      t.childOf m (getIndexToInsertTo t (t.get m) key).1 ≠ 0 ∧
      onPath key fuel t (t.childOf m (getIndexToInsertTo t (t.get m) key).1) q)

def Target.node : Target → NodeId
  | .dup n _ => n
  | .nilc n _ => n
  | .leaf n _ => n
  | _ => 0

def Target.isAdd : Target → Bool
  | .nilc _ _ => true
  | .leaf _ _ => true
  | _ => false

theorem target_onPath (key : Int) : ∀ (fuel : Nat) (t : BTree) (m : NodeId),
    (addTarget key fuel t m).isAdd = true → onPath key fuel t m (addTarget key fuel t m).node
  | 0, _, _, h => by simp [addTarget, Target.isAdd] at h
  | fuel + 1, t, m, h => by
    unfold addTarget at h ⊢
    unfold onPath
    simp only at h ⊢
    split
    · rename_i h1; simp [h1, Target.isAdd] at h
    · rename_i h1
      split
      · rename_i h2
        split
        · left; rfl
        · rename_i h3
          split
          · rename_i h4; simp [h1, h2, h3, h4, Target.isAdd] at h
          · rename_i h4
            right
            simp only [h1, h2, h3, h4, if_false, if_true, Bool.false_eq_true] at h
            exact ⟨by simpa using h1, h2, h4, target_onPath key fuel t _ h⟩
      · split
        · left; rfl
        · left; rfl

theorem childOf_eq {t : BTree} {n : NodeId} {i : Nat} (h : t.childOf n i ≠ 0) :
    t.childOf n i = (t.get n).child i ∧ (t.get n).child i ≠ 0 := by
  unfold BTree.childOf at h ⊢
  simp only at h ⊢
  split at h
  · exact absurd rfl h
  · split at h
    · rename_i h1 h2
      simp [h1, h2]
    · exact absurd rfl h

/-- all items of a `weave` prefix over the first `k` children/items are below `key` when the items are -/
theorem prefix_lt {t : BTree} {f : Nat} {m : NodeId} (key : Int) (k : Nat) (cs : List NodeId) (is : List Item)
    (lo hi : Option Int) (hk : k ≤ is.length)
    (h : KidsOk (fun c l h => WFNode t f c m l h) lo hi cs is) (hb : ∀ x ∈ is.take k, x.key < key) :
    ∀ y ∈ weave (absNode t f) (cs.take k) (is.take k), y.key < key := by
  have h1 := KidsOk.take_tight k cs is lo hi (key - 1) hk h (fun x hx => by have := hb x hx; omega)
  have h2 := weave_good (absNode_zero t f) (fun c l h' hh => wfNode_good t f c m l h' hh) _ _ _ _ h1
  intro y hy
  have := (h2.2 y hy).2.1 _ rfl
  omega

/-- all items after the child the key belongs to are `≥ key` -/
theorem suffix_ge {t : BTree} {f : Nat} {m : NodeId} (key : Int) (k : Nat) (cs : List NodeId) (is : List Item)
    (lo hi : Option Int) (hk : k ≤ is.length)
    (h : KidsOk (fun c l h => WFNode t f c m l h) lo hi cs is) (hb : ∀ x ∈ is.drop k, key ≤ x.key) :
    ∀ y ∈ weaveTail (absNode t f) (cs.drop (k + 1)) (is.drop k), key ≤ y.key := by
  rcases Nat.lt_or_ge k is.length with hlt | hge
  · rw [weaveTail_drop _ _ _ _ hlt]
    have h1 := KidsOk.drop_succ k cs is lo hi hlt h
    have h2 := weave_good (absNode_zero t f) (fun c l h' hh => wfNode_good t f c m l h' hh) _ _ _ _ h1
    have hmem : is.getD k {} ∈ is.drop k := by
      rw [getD_of_lt _ _ _ hlt]
      exact List.mem_drop_iff_getElem.mpr ⟨0, by omega, by simp⟩
    have hk1 := hb _ hmem
    intro y hy
    rcases List.mem_cons.mp hy with rfl | hy
    · exact hk1
    · have := (h2.2 y hy).1 _ rfl
      omega
  · rw [List.drop_of_length_le hge]
    intro y hy
    simp [weaveTail] at hy

/-! Insert proofs for Model B, part 5: the descent lemma. -/

/-- positional disjointness of the sibling subtrees, from `Nodup` of the parent's `reach` -/
theorem reach_disjoint {t : BTree} {f : Nat} {cs : List NodeId} (h : (cs.flatMap (reach t f)).Nodup)
    {i j : Nat} (hi : i < cs.length) (hj : j < cs.length) (hij : i ≠ j) {x : NodeId}
    (hx : x ∈ reach t f (cs.getD i 0)) : x ∉ reach t f (cs.getD j 0) := by
  have hp := (List.pairwise_flatMap.mp h).2
  rw [List.pairwise_iff_getElem] at hp
  rw [getD_of_lt _ _ _ hi] at hx
  rw [getD_of_lt _ _ _ hj]
  intro hy
  rcases Nat.lt_or_gt_of_ne hij with hlt | hgt
  · exact hp i j hi hj hlt x hx x hy rfl
  · exact hp j i hj hi hgt x hy x hx rfl

theorem reach_child_nodup {t : BTree} {f : Nat} {cs : List NodeId} (h : (cs.flatMap (reach t f)).Nodup)
    {i : Nat} (hi : i < cs.length) : (reach t f (cs.getD i 0)).Nodup := by
  have hp := (List.pairwise_flatMap.mp h).1
  rw [getD_of_lt _ _ _ hi]
  exact hp _ (List.getElem_mem hi)

theorem flatMap_pointwise {β} {g g' : NodeId → List β} : ∀ (cs cs' : List NodeId), cs.length = cs'.length →
    (∀ j, j < cs.length → g' (cs'.getD j 0) = g (cs.getD j 0)) → cs'.flatMap g' = cs.flatMap g
  | [], [], _, _ => rfl
  | [], _ :: _, h, _ => by simp at h
  | _ :: _, [], h, _ => by simp at h
  | c :: cs, c' :: cs', hl, h => by
    simp only [List.flatMap_cons]
    have h0 := h 0 (by simp)
    simp only [List.getD_cons_zero] at h0
    rw [h0, flatMap_pointwise cs cs' (by simpa using hl) (fun j hj => by
      have := h (j + 1) (by simpa using hj)
      simpa using this)]

/-- one position of a `flatMap` gains the elements `N` (up to order), the others are unchanged -/
theorem flatMap_perm_at {β} {g g' : NodeId → List β} {N : List β} : ∀ (idx : Nat) (cs cs' : List NodeId),
    cs.length = cs'.length → idx < cs.length →
    (g' (cs'.getD idx 0)).Perm (g (cs.getD idx 0) ++ N) →
    (∀ j, j < cs.length → j ≠ idx → g' (cs'.getD j 0) = g (cs.getD j 0)) →
    (cs'.flatMap g').Perm (cs.flatMap g ++ N)
  | _, [], _, _, hi, _, _ => by simp at hi
  | _, _ :: _, [], hl, _, _, _ => by simp at hl
  | 0, c :: cs, c' :: cs', hl, _, hp, h => by
    simp only [List.flatMap_cons]
    simp only [List.getD_cons_zero] at hp
    rw [flatMap_pointwise cs cs' (by simpa using hl) (fun j hj => by
      have := h (j + 1) (by simpa using hj) (by omega)
      simpa using this)]
    have h1 : (g' c' ++ cs.flatMap g).Perm ((g c ++ N) ++ cs.flatMap g) := List.Perm.append_right _ hp
    refine h1.trans ?_
    rw [List.append_assoc, List.append_assoc]
    exact List.Perm.append_left _ List.perm_append_comm
  | idx + 1, c :: cs, c' :: cs', hl, hi, hp, h => by
    simp only [List.flatMap_cons]
    have h0 := h 0 (by simp) (by omega)
    simp only [List.getD_cons_zero] at h0
    rw [h0, List.append_assoc]
    apply List.Perm.append_left
    exact flatMap_perm_at idx cs cs' (by simpa using hl) (by simpa using hi) (by simpa using hp)
      (fun j hj hne => by
        have := h (j + 1) (by simpa using hj) (by omega)
        simpa using this)

/-- DESCENT: `addLoop` walks from a well-formed subtree root `m` whose bounds contain the key through
    the node `n`; if the action is locally correct at `n` (it may rewrite the subtree of `n`), the whole
    subtree at `m` is well-formed again and its contents gained exactly the item, at the lower-bound
    position -/
theorem descend {t t' : BTree} {n : NodeId} {item : Item} {d : Nat} {news : List NodeId}
    (hloc : LocalOkG t t' n item d news) :
    ∀ (f : Nat) (m p : NodeId) (lo hi : Option Int) (fuel : Nat), WFNode t f m p lo hi → (reach t f m).Nodup →
      LeO lo item.key → OLe item.key hi → f ≤ fuel → f ≤ t.nodes.length + 1 → onPath item.key fuel t m n →
      (∃ fn pn ln hn, WFNode t fn n pn ln hn ∧ fn ≤ t.nodes.length + 1 ∧ (reach t fn n).Nodup ∧ LeO ln item.key ∧
        OLe item.key hn ∧ ∀ x ∈ reach t fn n, x ∈ reach t f m) ∧
        WFNode t' (f + d) m p lo hi ∧ (reach t' (f + d) m).Perm (reach t f m ++ news) ∧
        ∃ L R, absNode t f m = L ++ R ∧ absNode t' (f + d) m = L ++ item :: R ∧
          (∀ x ∈ L, x.key < item.key) ∧ (∀ x ∈ R, item.key ≤ x.key)
  | 0, _, _, _, _, _, h, _, _, _, _, _, _ => absurd h (by simp [WFNode])
  | f + 1, m, p, lo, hi, 0, _, _, _, _, hf, _, _ => by omega
  | f + 1, m, p, lo, hi, fuel + 1, hW, hnd, hlo, hhi, hf, hfl, hpath => by
    have hW' := hW
    obtain ⟨hn, nd, hg, hp, hs, hne, hbody⟩ := hW
    have hget := get_of_get? hg
    have hr := reach_succ (f := f) hn hg
    unfold onPath at hpath
    rw [hget] at hpath
    rcases hpath with e | ⟨h1, h2, h4, hrec⟩
    · -- the local case: `n` is `m` itself
      subst e
      exact ⟨⟨f + 1, p, lo, hi, hW', hfl, hnd, hlo, hhi, fun x hx => hx⟩, hloc.wf _ _ _ _ hW' hfl hnd hlo hhi⟩
    · -- the recursive case: `n` is below the child the key belongs to
      obtain ⟨hce, hc0⟩ := childOf_eq h4
      rw [hget] at hce hc0
      rw [hce] at hrec
      obtain ⟨cs, hcs⟩ : ∃ cs, nd.children = some cs := by
        cases hh : nd.children with
        | none => simp [Node.hasChildren, hh] at h2
        | some cs => exact ⟨cs, rfl⟩
      rw [hcs] at hbody
      simp only at hbody
      have hkids : nd.kids = cs.toList.take (nd.count + 1) := by simp [Node.kids, hcs]
      have hka : Node.kidArr nd = nd.kids := by simp [Node.kidArr, hcs, hkids]
      rw [← hkids] at hbody
      have hklen := Node.kids_length hs
      have hilen := Node.items_length hs
      have hsorted : Sorted nd.items :=
        (itemsOk_good _ _ _ (KidsOk.itemsOk _ _ _ _ (by omega) hbody)).1
      obtain ⟨hidx, htake, hdrop⟩ := insIdx_spec t nd item.key hs hsorted
      generalize hI : (getIndexToInsertTo t nd item.key).1 = idx at *
      have hcI : nd.kids.getD idx 0 = nd.child idx := Node.kids_getD hs hidx
      rw [hr, hka] at hnd
      have hnd' := List.nodup_cons.mp hnd
      have hIlt : idx < nd.kids.length := by omega
      -- the child's own facts
      rcases KidsOk.at item.key idx nd.kids nd.items lo hi (by omega) (by omega) hbody htake hdrop hlo hhi with
        h0 | ⟨l, h', hwc, hlc, hhc⟩
      · rw [hcI] at h0; exact absurd h0 hc0
      rw [hcI] at hwc
      have hcnd : (reach t f (nd.child idx)).Nodup := by
        have := reach_child_nodup hnd'.2 hIlt
        rwa [hcI] at this
      have ih := descend hloc f (nd.child idx) m l h' fuel hwc hcnd hlc hhc (by omega) (by omega) hrec
      obtain ⟨⟨fn, pn, ln, hn', hwn, hfnl, hfnd, hfnlo, hfnhi, hsub⟩, hwc', hperm, L, R, hL, hL', hLb, hRb⟩ := ih
      have hcmem : nd.child idx ∈ nd.kids := by
        rw [← hcI, getD_of_lt _ _ _ hIlt]; exact List.getElem_mem hIlt
      -- nodes outside the child's subtree are untouched
      have hfr : ∀ x, (t.get? x).isSome → x ∉ reach t f (nd.child idx) → t'.get? x = t.get? x :=
        fun x hs' hx => hloc.frame fn pn ln hn' hwn hfnl hfnd hfnlo hfnhi x hs' (fun hh => hx (hsub x hh))
      have hmc : m ∉ reach t f (nd.child idx) :=
        fun hh => hnd'.1 (List.mem_flatMap.mpr ⟨nd.child idx, hcmem, hh⟩)
      have hg' : t'.get? m = some nd := by
        rw [hfr m (by simp [hg]) hmc]; exact hg
      -- siblings are untouched
      have hsib : ∀ j, j < nd.kids.length → j ≠ idx → ∀ l h, WFNode t f (nd.kids.getD j 0) m l h →
          WFNode t' f (nd.kids.getD j 0) m l h ∧ absNode t' f (nd.kids.getD j 0) = absNode t f (nd.kids.getD j 0) := by
        intro j hj hji l2 h2' hw
        have := frame hloc.sl f (nd.kids.getD j 0) m l2 h2' ?_ hw
        · exact ⟨this.1, this.2.1⟩
        · intro x hx
          apply hfr x (mem_reach_isSome t f _ x hx)
          intro hh
          have hh' : x ∈ reach t f (nd.kids.getD idx 0) := by rw [hcI]; exact hh
          exact reach_disjoint hnd'.2 hIlt hj (Ne.symm hji) hh' hx
      have hsibA : ∀ c, (∃ j, j < nd.kids.length ∧ j ≠ idx ∧ c = nd.kids.getD j 0) →
          absNode t' (f + d) c = absNode t f c := by
        rintro c ⟨j, hj, hji, rfl⟩
        have hm : nd.kids.getD j 0 ∈ nd.kids := by rw [getD_of_lt _ _ _ hj]; exact List.getElem_mem hj
        rcases KidsOk.mem _ _ _ _ hbody _ hm with h0 | ⟨l2, h2', hw⟩
        · rw [h0, absNode_zero, absNode_zero]
        · have := hsib j hj hji l2 h2' hw
          rw [absNode_le t' this.1 (Nat.le_add_right f d), this.2]
      have e1 : f + 1 + d = (f + d) + 1 := by omega
      refine ⟨⟨fn, pn, ln, hn', hwn, hfnl, hfnd, hfnlo, hfnhi, fun x hx => by
        rw [hr, hka]
        exact List.mem_cons_of_mem _ (List.mem_flatMap.mpr ⟨nd.child idx, hcmem, hsub x hx⟩)⟩, ?_, ?_, ?_⟩
      · rw [e1]
        refine ⟨hn, nd, hg', hp, nodeShape_congr hloc.sl hs, hne, ?_⟩
        rw [hcs]
        simp only
        rw [← hkids]
        refine KidsOk.replace item.key idx nd.kids nd.items lo hi (by omega) (by omega) hbody htake hdrop hlo hhi ?_ ?_
        · intro l2 h2' hw hl2 hh2
          rw [hcI] at hw ⊢
          exact (descend hloc f (nd.child idx) m l2 h2' fuel hw hcnd hl2 hh2 (by omega) (by omega) hrec).2.1
        · intro j hj hji l2 h2' hw
          exact WFNode.le t' (hsib j hj hji l2 h2' hw).1 (Nat.le_add_right f d)
      · rw [e1, reach_succ hn hg', hr, hka, List.cons_append]
        apply List.Perm.cons
        refine flatMap_perm_at idx nd.kids nd.kids rfl hIlt (by rw [hcI]; exact hperm) ?_
        intro j hj hji
        have hm : nd.kids.getD j 0 ∈ nd.kids := by rw [getD_of_lt _ _ _ hj]; exact List.getElem_mem hj
        rcases KidsOk.mem _ _ _ _ hbody _ hm with h0 | ⟨l2, h2', hw⟩
        · rw [h0, reach_zero, reach_zero]
        · have hs1 := hsib j hj hji l2 h2' hw
          rw [reach_fuel_le t' hs1.1 (Nat.le_add_right f d)]
          exact (frame hloc.sl f _ m l2 h2' (fun x hx => by
            apply hfr x (mem_reach_isSome t f _ x hx)
            intro hh
            have hh' : x ∈ reach t f (nd.kids.getD idx 0) := by rw [hcI]; exact hh
            exact reach_disjoint hnd'.2 hIlt hj (Ne.symm hji) hh' hx) hw).2.2
      · have hA : absNode t (f + 1) m = weave (absNode t f) nd.kids nd.items := by
          simp [absNode, hn, hg, hcs, hkids]
        have hA' : absNode t' (f + 1 + d) m = weave (absNode t' (f + d)) nd.kids nd.items := by
          rw [e1]; simp [absNode, hn, hg', hcs, hkids]
        rw [hA, hA', weave_split _ idx nd.kids nd.items (by omega) (by omega),
          weave_split (absNode t' (f + d)) idx nd.kids nd.items (by omega) (by omega), hcI, hL, hL']
        have hpre : weave (absNode t' (f + d)) (nd.kids.take idx) (nd.items.take idx) =
            weave (absNode t f) (nd.kids.take idx) (nd.items.take idx) := by
          apply weave_congr
          intro c hc
          obtain ⟨j, hj, rfl⟩ := List.mem_take_iff_getElem.mp hc
          apply hsibA
          exact ⟨j, by omega, by omega, (getD_of_lt _ _ _ (by omega)).symm⟩
        have hsuf : weaveTail (absNode t' (f + d)) (nd.kids.drop (idx + 1)) (nd.items.drop idx) =
            weaveTail (absNode t f) (nd.kids.drop (idx + 1)) (nd.items.drop idx) := by
          apply weaveTail_congr
          intro c hc
          obtain ⟨j, hj, rfl⟩ := List.mem_drop_iff_getElem.mp hc
          apply hsibA
          exact ⟨idx + 1 + j, by omega, by omega, (getD_of_lt _ _ _ (by omega)).symm⟩
        rw [hpre, hsuf]
        refine ⟨weave (absNode t f) (nd.kids.take idx) (nd.items.take idx) ++ L,
          R ++ weaveTail (absNode t f) (nd.kids.drop (idx + 1)) (nd.items.drop idx), ?_, ?_, ?_, ?_⟩
        · simp [List.append_assoc]
        · simp [List.append_assoc]
        · intro x hx
          rcases List.mem_append.mp hx with hx | hx
          · exact prefix_lt item.key idx _ _ lo hi (by omega) hbody htake x hx
          · exact hLb x hx
        · intro x hx
          rcases List.mem_append.mp hx with hx | hx
          · exact hRb x hx
          · exact suffix_ge item.key idx _ _ lo hi (by omega) hbody hdrop x hx

/-! Insert proofs for Model B, part 6: stage 1 — leaf insertion without split, the duplicate path,
the first `Add` into an empty tree. -/

/-! ### extra hypotheses beyond `WF` -/

/-- no deferred distribute/promote action is pending (true between public calls) -/
def Idle (t : BTree) : Prop := t.distSrc = 0 ∧ t.promTarget = 0

/-- ids handed out by the counter are new: non-nil and above every node id in the repository -/
def Fresh (t : BTree) : Prop := 0 < t.nextId ∧ ∀ nd ∈ t.nodes, nd.id < t.nextId

/-! ### inserting into a sorted list at the lower bound -/

theorem good_insert {lo hi : Option Int} {l : List Item} {item : Item} (i : Nat) (hg : Good lo hi l)
    (h1 : ∀ x ∈ l.take i, x.key < item.key) (h2 : ∀ x ∈ l.drop i, item.key ≤ x.key)
    (hlo : LeO lo item.key) (hhi : OLe item.key hi) (hid : item.id ≠ 0) :
    Good lo hi (l.take i ++ item :: l.drop i) := by
  refine ⟨?_, ?_⟩
  · refine List.pairwise_append.mpr ⟨List.Pairwise.sublist (List.take_sublist i l) hg.1,
      List.pairwise_cons.mpr ⟨h2, List.Pairwise.sublist (List.drop_sublist i l) hg.1⟩, ?_⟩
    intro a ha b hb
    have := h1 a ha
    rcases List.mem_cons.mp hb with rfl | hb
    · omega
    · have := h2 b hb; omega
  · intro x hx
    rcases List.mem_append.mp hx with hx | hx
    · exact hg.2 x (List.mem_of_mem_take hx)
    · rcases List.mem_cons.mp hx with rfl | hx
      · exact ⟨hlo, hhi, hid⟩
      · exact hg.2 x (List.mem_of_mem_drop hx)

/-! ### what the target says about its node -/

theorem target_leaf (key : Int) {n : NodeId} {i : Nat} : ∀ (fuel : Nat) (t : BTree) (m : NodeId),
    addTarget key fuel t m = .leaf n i →
    (t.get n).hasChildren = false ∧ i = (getIndexToInsertTo t (t.get n) key).1
  | 0, _, _, h => by simp [addTarget] at h
  | fuel + 1, t, m, h => by
    unfold addTarget at h
    simp only at h
    split at h
    · cases h
    · split at h
      · split at h
        · cases h
        · split at h
          · cases h
          · exact target_leaf key fuel t _ h
      · rename_i hch
        split at h
        · cases h
        · cases h
          exact ⟨by simpa using hch, rfl⟩

/-! ### `reach` only looks at the children prefix -/

theorem reach_congr {t t' : BTree} (h : ∀ x, (t'.get? x).map Node.kidArr = (t.get? x).map Node.kidArr) :
    ∀ (f : Nat) (m : NodeId), reach t' f m = reach t f m
  | 0, _ => rfl
  | f + 1, m => by
    by_cases hn : m = 0
    · subst hn; rw [reach_zero, reach_zero]
    · have hm := h m
      cases hg : t.get? m with
      | none =>
        cases hg' : t'.get? m with
        | none => simp [reach, hn, hg, hg']
        | some nd' => rw [hg, hg'] at hm; simp at hm
      | some nd =>
        cases hg' : t'.get? m with
        | none => rw [hg, hg'] at hm; simp at hm
        | some nd' =>
          rw [hg, hg'] at hm
          simp only [Option.map_some, Option.some.injEq] at hm
          rw [reach_succ hn hg, reach_succ hn hg', hm]
          congr 1
          exact flatMap_congr' _ (fun c _ => reach_congr h f c)

/-! ### stage 1: the local action `insertSlotItem` -/

/-- `insertSlotItem` on the node -/
def insSlot (item : Item) (index : Nat) (x : Node) : Node :=
  { x with slots := (goCopy x.slots (index + 1) x.slots index x.slots.size).setIfInBounds index item,
           count := x.count + 1 }

theorem addOnLeaf_room {t : BTree} {n : NodeId} {item : Item} {i : Nat} (h : (t.get n).count < t.sl) :
    t.addOnLeaf n item i = t.upd n (insSlot item i) := by
  unfold BTree.addOnLeaf
  simp only [h, if_true]
  rfl

theorem insSlot_items {t : BTree} {nd : Node} (hs : NodeShape t nd) {item : Item} {i : Nat}
    (hi : i ≤ nd.count) (hc : nd.count < t.sl) :
    (insSlot item i nd).items = nd.items.take i ++ item :: nd.items.drop i := by
  have hsz := hs.1
  unfold Node.items insSlot
  simp only
  rw [insertShift_toList _ _ _ (by omega)]
  have := insert_take nd.slots.toList i nd.count item hi (by simp; omega)
  simpa using this

theorem insSlot_shape {t : BTree} {nd : Node} (hs : NodeShape t nd) (hleaf : nd.children = none) {item : Item} {i : Nat}
    (hi : i ≤ nd.count) (hc : nd.count < t.sl) : NodeShape t (insSlot item i nd) := by
  obtain ⟨h1, h2, h3, h4, h5⟩ := hs
  refine ⟨?_, ?_, h3, ?_, ?_⟩
  · show ((goCopy nd.slots (i + 1) nd.slots i nd.slots.size).setIfInBounds i item).size = t.sl
    rw [insertShift_size, h1]
  · simp [insSlot]; omega
  · intro x hx
    apply h4
    unfold insSlot at hx
    simp only at hx
    rw [insertShift_toList _ _ _ (by omega)] at hx
    exact insert_drop_mem nd.slots.toList i nd.count item hi (by simp; omega) x (by simpa using hx)
  · intro cs hcs
    simp [insSlot, hleaf] at hcs

theorem localOk_leaf {t : BTree} {n : NodeId} {item : Item} {i : Nat}
    (hleaf : (t.get n).hasChildren = false) (hi : i = (getIndexToInsertTo t (t.get n) item.key).1)
    (hroom : (t.get n).count < t.sl) (hid : item.id ≠ 0) :
    LocalOk t (t.upd n (insSlot item i)) n item 0 [] := by
  have hfid : ∀ x, (insSlot item i x).id = x.id := fun _ => rfl
  refine ⟨rfl, fun x hx _ => get?_upd_ne t _ hfid hx, fun x hx => by simp at hx, List.nodup_nil, ?_⟩
  intro f p l h hW _ hl hh
  cases f with
  | zero => exact absurd hW (by simp [WFNode])
  | succ f =>
    obtain ⟨hn, nd, hg, hp, hs, hne, hbody⟩ := hW
    have hget := get_of_get? hg
    rw [hget] at hleaf hi hroom
    have hch : nd.children = none := by
      cases hc : nd.children with
      | none => rfl
      | some cs => simp [Node.hasChildren, hc] at hleaf
    rw [hch] at hbody
    simp only at hbody
    have hgood := itemsOk_good _ _ _ hbody
    obtain ⟨hidx, htake, hdrop⟩ := insIdx_spec t nd item.key hs hgood.1
    rw [← hi] at hidx htake hdrop
    have hg' : (t.upd n (insSlot item i)).get? n = some (insSlot item i nd) := by
      rw [get?_upd_eq _ _ _ hfid, hg]; rfl
    have hitems := insSlot_items hs (item := item) hidx hroom
    have hch' : (insSlot item i nd).children = none := hch
    refine ⟨⟨hn, insSlot item i nd, hg', hp, insSlot_shape hs hch hidx hroom, ?_, ?_⟩, ?_, ?_⟩
    · right; simp [insSlot]
    · rw [hch']
      simp only
      rw [hitems]
      exact good_itemsOk _ _ _ (good_insert i hgood htake hdrop hl hh hid)
    · rw [Nat.add_zero, reach_succ hn hg', reach_succ hn hg]
      simp [Node.kidArr, hch, hch']
    · refine ⟨nd.items.take i, nd.items.drop i, ?_, ?_, htake, hdrop⟩
      · simp [absNode, hn, hg, hch]
      · simp only [Nat.add_zero, absNode, hn, if_false, hg', hch']
        exact hitems

/-! Insert proofs for Model B, part 7: `addU` — start state, stage 1 theorems. -/

/-- the state `node.add` starts from (`Btree.Add` took an id for the item, fetched or created the
    root, set the call's uniqueness flag) and the root id -/
def addStart (t : BTree) (uniq : Bool) : BTree × NodeId :=
  (({ ({ t with nextId := t.nextId + 1 } : BTree).getRootNode.1 with unique := uniq } : BTree),
   ({ t with nextId := t.nextId + 1 } : BTree).getRootNode.2)

/-- where the descent of this `Add` ends -/
def addTargetOf (t : BTree) (uniq : Bool) (key : Int) : Target :=
  addTarget key (addStart t uniq).1.fuel (addStart t uniq).1 (addStart t uniq).2

/-- the rest of `Btree.Add` after `node.add` returned -/
def addFinish (saved : Bool) (r : BTree × Bool) : BTree × Bool :=
  let t : BTree := { r.1 with unique := saved }
  if !r.2 then (t, false)
  else
    let t := distributeLoop (t.fuel + 2) t
    let t := promoteLoop (t.fuel + 2) t
    ({ t with count := t.count + 1 }, true)

theorem addU_eq (t : BTree) (uniq : Bool) (key : Int) (val : Nat) :
    t.addU uniq key val =
      addFinish ({ t with nextId := t.nextId + 1 } : BTree).getRootNode.1.unique
        ((addTargetOf t uniq key).apply ⟨t.nextId, key, val⟩ (addStart t uniq).1) := by
  unfold BTree.addU BTree.newId addTargetOf
  simp only [addLoop_eq]
  rfl


/-! ### the start state -/

theorem getRootNode_of_root {t : BTree} {nd : Node} (hg : t.get? t.root = some nd) (hr : t.root ≠ 0) :
    t.getRootNode = (t, t.root) := by
  have hid := get?_id hg
  unfold BTree.getRootNode
  by_cases hc : t.count = 0
  · simp [hr, hc, hg, hid]
  · simp [hr, hc]

theorem getRootNode_empty {t : BTree} (hr : t.root = 0) :
    t.getRootNode = ({ (t.newNode 0).1.put (t.newNode 0).2 with root := (t.newNode 0).2.id }, (t.newNode 0).2.id) := by
  unfold BTree.getRootNode
  simp [hr]

/-- trees with the same repository and slot length agree on `WFNode`/`absNode`/`reach` -/
theorem sameNodes {t t' : BTree} (hn : t'.nodes = t.nodes) (hsl : t'.sl = t.sl) {f : Nat} {m p : NodeId}
    {lo hi : Option Int} (h : WFNode t f m p lo hi) :
    WFNode t' f m p lo hi ∧ absNode t' f m = absNode t f m ∧ reach t' f m = reach t f m :=
  frame hsl f m p lo hi (fun x _ => by unfold BTree.get?; rw [hn]) h

/-- the root `getRootNode` creates for the first `Add` -/
def firstRoot (id sl : Nat) : Node := { id := id, parent := 0, slots := zeros sl, count := 0, children := none, ion := -1 }

theorem getRootNode_first {t1 : BTree} (hr : t1.root = 0) (hnil : t1.nodes = []) :
    t1.getRootNode =
      ({ t1 with nodes := [firstRoot t1.nextId t1.sl], root := t1.nextId, nextId := t1.nextId + 1 }, t1.nextId) := by
  rw [getRootNode_empty hr]
  simp [BTree.newNode, BTree.newId, BTree.put, hnil, putNode, firstRoot]

/-- what `Btree.Add` has established when `node.add` starts -/
structure StartOk (t : BTree) (uniq : Bool) : Prop where
  wf : WF (addStart t uniq).1
  root : (addStart t uniq).1.root ≠ 0
  rootEq : (addStart t uniq).2 = (addStart t uniq).1.root
  abs : (addStart t uniq).1.abs = t.abs
  count : (addStart t uniq).1.count = t.count
  sl : (addStart t uniq).1.sl = t.sl
  ok : (addStart t uniq).1.panicked = t.panicked
  idle : (addStart t uniq).1.distSrc = t.distSrc ∧ (addStart t uniq).1.promTarget = t.promTarget
  lb : (addStart t uniq).1.lb = t.lb
  saved : ({ t with nextId := t.nextId + 1 } : BTree).getRootNode.1.unique = t.unique
  nextId : t.nextId < (addStart t uniq).1.nextId
  fresh : Fresh t → Fresh (addStart t uniq).1
  same : t.root ≠ 0 → (addStart t uniq).1.nodes = t.nodes ∧ (addStart t uniq).1.root = t.root
  cur : (addStart t uniq).1.cur = t.cur
  keep : ∀ x, (t.get? x).isSome → ((addStart t uniq).1.get? x).isSome
  fix : (addStart t uniq).1.fixFast = t.fixFast ∧ (addStart t uniq).1.fixErr = t.fixErr ∧
    (addStart t uniq).1.fixId = t.fixId

theorem addStart_ok (t : BTree) (uniq : Bool) (hwf : WF t) : StartOk t uniq := by
  by_cases hr : t.root = 0
  · -- the first `Add`: `getRootNode` creates the root
    have hw := hwf
    unfold WF at hw
    rw [if_pos hr] at hw
    obtain ⟨hsl, hnil, hcnt⟩ := hw
    have e := getRootNode_first (t1 := { t with nextId := t.nextId + 1 }) hr hnil
    have es : addStart t uniq =
        ({ t with nodes := [firstRoot (t.nextId + 1) t.sl], root := t.nextId + 1, nextId := t.nextId + 1 + 1,
                  unique := uniq }, t.nextId + 1) := by
      unfold addStart; rw [e]
    have hget : (addStart t uniq).1.get? (t.nextId + 1) = some (firstRoot (t.nextId + 1) t.sl) := by
      rw [es]; simp [BTree.get?, firstRoot]
    have habs : (addStart t uniq).1.abs = [] := by
      unfold BTree.abs
      have : (addStart t uniq).1.root = t.nextId + 1 := by rw [es]
      rw [this]
      have : (addStart t uniq).1.nodes.length + 1 = 1 + 1 := by rw [es]; rfl
      rw [this]
      simp [absNode, hget, Node.items, firstRoot]
    have habs0 : t.abs = [] := by simp [BTree.abs, hr, absNode_zero]
    refine ⟨?_, ?_, ?_, by rw [habs, habs0], ?_, ?_, ?_, ?_, ?_, ?_, ?_, ?_, fun h => absurd hr h,
      by rw [es], fun x hx => by (unfold BTree.get? at hx; rw [hnil] at hx; simp at hx),
      by rw [es]; exact ⟨rfl, rfl, rfl⟩⟩
    · unfold WF
      have h1 : (addStart t uniq).1.root = t.nextId + 1 := by rw [es]
      have h2 : (addStart t uniq).1.nodes.length = 1 := by rw [es]; rfl
      have h3 : (addStart t uniq).1.sl = t.sl := by rw [es]
      have h4 : (addStart t uniq).1.count = 0 := by rw [es]; exact hcnt
      rw [h3, h1, if_neg (Nat.succ_ne_zero _), habs, h2, h4]
      refine ⟨hsl, ?_, ?_, ?_, by simp⟩
      · refine ⟨Nat.succ_ne_zero _, _, hget, rfl, ?_, Or.inl rfl, ?_⟩
        · refine ⟨by simp [firstRoot, zeros, h3], by simp [firstRoot], by simp [firstRoot], ?_, by simp [firstRoot]⟩
          intro i hi
          simp [firstRoot, zeros] at hi
          exact hi.2
        · simp [Node.items, ItemsOk, firstRoot]
      · simp [reach, hget, firstRoot]
      · simp [reach, hget, firstRoot]
    · rw [es]; exact Nat.succ_ne_zero _
    · rw [es]
    · rw [es]
    · rw [es]
    · rw [es]
    · rw [es]; exact ⟨rfl, rfl⟩
    · rw [es]
    · rw [e]
    · rw [es]; show t.nextId < t.nextId + 1 + 1; omega
    · intro _
      rw [es]
      refine ⟨by show 0 < t.nextId + 1 + 1; omega, ?_⟩
      intro nd hnd
      have : nd = firstRoot (t.nextId + 1) t.sl := by simpa using hnd
      subst this
      show t.nextId + 1 < t.nextId + 1 + 1
      omega
  · have hw := hwf
    unfold WF at hw
    rw [if_neg hr] at hw
    obtain ⟨hsl, hW, hN, hL, hC⟩ := hw
    have hW' := hW
    obtain ⟨_, nd, hg, _⟩ := hW'
    have e : ({ t with nextId := t.nextId + 1 } : BTree).getRootNode = ({ t with nextId := t.nextId + 1 }, t.root) :=
      getRootNode_of_root (t := { t with nextId := t.nextId + 1 }) hg hr
    have es : addStart t uniq = ({ t with nextId := t.nextId + 1, unique := uniq }, t.root) := by
      unfold addStart; rw [e]
    refine ⟨?_, ?_, ?_, ?_, ?_, ?_, ?_, ?_, ?_, ?_, ?_, ?_, fun _ => ?_,
      by rw [es], fun x hx => by (rw [es]; exact hx), by rw [es]; exact ⟨rfl, rfl, rfl⟩⟩
    · rw [es]
      have sn := sameNodes (t := t) (t' := { t with nextId := t.nextId + 1, unique := uniq }) rfl rfl hW
      unfold WF
      rw [if_neg hr]
      refine ⟨hsl, sn.1, ?_, ?_, ?_⟩
      · rw [sn.2.2]; exact hN
      · rw [sn.2.2]; exact hL
      · unfold BTree.abs; rw [sn.2.1]; exact hC
    · rw [es]; exact hr
    · rw [es]
    · rw [es]
      have sn := sameNodes (t := t) (t' := { t with nextId := t.nextId + 1, unique := uniq }) rfl rfl hW
      unfold BTree.abs; exact sn.2.1
    · rw [es]
    · rw [es]
    · rw [es]
    · rw [es]; exact ⟨rfl, rfl⟩
    · rw [es]
    · rw [e]
    · rw [es]; show t.nextId < t.nextId + 1; omega
    · intro hf
      rw [es]
      exact ⟨by show 0 < t.nextId + 1; omega, fun nd hnd => Nat.lt_succ_of_lt (hf.2 nd hnd)⟩
    · rw [es]; exact ⟨rfl, rfl⟩

/-! Insert proofs for Model B, part 8: assembling `WF` of the result; stage 1 theorems. -/

theorem distributeLoop_idle {t : BTree} (h : t.distSrc = 0) (k : Nat) : distributeLoop (k + 1) t = t := by
  unfold distributeLoop; simp [h]

theorem promoteLoop_idle {t : BTree} (h : t.promTarget = 0) (k : Nat) : promoteLoop (k + 1) t = t := by
  unfold promoteLoop; simp [h]

/-- `Btree.Add`'s tail when `node.add` left no deferred action -/
theorem addFinish_idle (saved : Bool) {T' : BTree} (h1 : T'.distSrc = 0) (h2 : T'.promTarget = 0) :
    addFinish saved (T', true) = ({ T' with unique := saved, count := T'.count + 1 }, true) := by
  unfold addFinish
  simp only [Bool.not_true, Bool.false_eq_true, if_false]
  rw [distributeLoop_idle (by exact h1), promoteLoop_idle (by exact h2)]

theorem leO_none (k : Int) : LeO none k := fun _ h => by cases h
theorem oLe_none (k : Int) : OLe k none := fun _ h => by cases h

/-- ASSEMBLY: from a locally correct action at the descent target to `WF` of the whole result -/
theorem assembleG {T T' : BTree} {n : NodeId} {item : Item} {d : Nat} {news : List NodeId} (saved : Bool)
    (hT : WF T) (hroot : T.root ≠ 0) (hloc : LocalOkG T T' n item d news)
    (hroot' : T'.root = T.root) (hlen : T'.nodes.length = T.nodes.length + news.length) (hd : d ≤ news.length)
    (hcount : T'.count = T.count)
    (hpath : onPath item.key T.fuel T T.root n) :
    WF ({ T' with unique := saved, count := T'.count + 1 } : BTree) ∧
    ∃ L R, T.abs = L ++ R ∧ ({ T' with unique := saved, count := T'.count + 1 } : BTree).abs = L ++ item :: R ∧
      (∀ x ∈ L, x.key < item.key) ∧ (∀ x ∈ R, item.key ≤ x.key) := by
  have hw := hT
  unfold WF at hw
  rw [if_neg hroot] at hw
  obtain ⟨hsl, hW, hN, hL, hC⟩ := hw
  obtain ⟨_, hW', hperm, L, R, hA, hA', hLb, hRb⟩ :=
    descend hloc (T.nodes.length + 1) T.root 0 none none T.fuel hW hN (leO_none _) (oLe_none _)
      (by unfold BTree.fuel; omega) (Nat.le_refl _) hpath
  have hW'' : WFNode T' (T'.nodes.length + 1) T'.root 0 none none := by
    rw [hroot']; exact WFNode.le T' hW' (by omega)
  have habs' : absNode T' (T'.nodes.length + 1) T'.root = L ++ item :: R := by
    rw [hroot', absNode_le T' hW' (by omega), hA']
  have hreach' : (reach T' (T'.nodes.length + 1) T'.root).Perm (reach T (T.nodes.length + 1) T.root ++ news) := by
    rw [hroot', reach_fuel_le T' hW' (by omega)]; exact hperm
  have hN' : (reach T' (T'.nodes.length + 1) T'.root).Nodup := by
    rw [hreach'.nodup_iff, List.nodup_append]
    refine ⟨hN, hloc.newsNodup, ?_⟩
    intro a ha b hb e
    subst e
    have h1 := mem_reach_isSome T _ _ a ha
    rw [hloc.newsNone a hb] at h1
    simp at h1
  have hL' : (reach T' (T'.nodes.length + 1) T'.root).length = T'.nodes.length := by
    rw [hreach'.length_eq, List.length_append, hL, hlen]
  have sn := sameNodes (t := T') (t' := { T' with unique := saved, count := T'.count + 1 }) rfl rfl hW''
  have hFabs : ({ T' with unique := saved, count := T'.count + 1 } : BTree).abs = L ++ item :: R := by
    unfold BTree.abs; rw [← habs']; exact sn.2.1
  refine ⟨?_, L, R, hA, hFabs, hLb, hRb⟩
  unfold WF
  rw [if_neg (by show T'.root ≠ 0; rw [hroot']; exact hroot)]
  refine ⟨by show 2 ≤ T'.sl ∧ T'.sl % 2 = 0; rw [hloc.sl]; exact hsl, sn.1, ?_, ?_, ?_⟩
  · rw [sn.2.2]; exact hN'
  · rw [sn.2.2]; exact hL'
  · rw [hFabs]
    show T'.count + 1 = _
    have hA0 : T.abs = L ++ R := hA
    rw [hcount, hC, hA0]
    simp only [List.length_append, List.length_cons]
    omega

/-- `assembleG` for an action that only rewrites the descent target itself -/
theorem assemble {T T' : BTree} {n : NodeId} {item : Item} {d : Nat} {news : List NodeId} (saved : Bool)
    (hT : WF T) (hroot : T.root ≠ 0) (hloc : LocalOk T T' n item d news)
    (hroot' : T'.root = T.root) (hlen : T'.nodes.length = T.nodes.length + news.length) (hd : d ≤ news.length)
    (hcount : T'.count = T.count)
    (hadd : (addTarget item.key T.fuel T T.root).isAdd = true)
    (hnode : (addTarget item.key T.fuel T T.root).node = n) :
    WF ({ T' with unique := saved, count := T'.count + 1 } : BTree) ∧
    ∃ L R, T.abs = L ++ R ∧ ({ T' with unique := saved, count := T'.count + 1 } : BTree).abs = L ++ item :: R ∧
      (∀ x ∈ L, x.key < item.key) ∧ (∀ x ∈ R, item.key ≤ x.key) :=
  assembleG saved hT hroot hloc.toG hroot' hlen hd hcount (by rw [← hnode]; exact target_onPath _ _ _ _ hadd)

/-! Insert proofs for Model B, part 9: stage 1 theorems. -/

/-- what a successful `Add` guarantees -/
structure AddOk (t : BTree) (key : Int) (val : Nat) (r : BTree × Bool) : Prop where
  ret : r.2 = true
  wf : WF r.1
  ok : r.1.panicked = false
  idle : Idle r.1
  fresh : Fresh r.1
  count : r.1.count = t.count + 1
  abs : ∃ L R, t.abs = L ++ R ∧ r.1.abs = L ++ (⟨t.nextId, key, val⟩ : Item) :: R ∧
    (∀ x ∈ L, x.key < key) ∧ (∀ x ∈ R, key ≤ x.key)
  cfg : r.1.sl = t.sl ∧ r.1.unique = t.unique ∧ r.1.lb = t.lb ∧
    r.1.fixFast = t.fixFast ∧ r.1.fixErr = t.fixErr ∧ r.1.fixId = t.fixId
  next : t.nextId < r.1.nextId
  cur : r.1.cur = t.cur
  keep : ∀ x, (t.get? x).isSome → (r.1.get? x).isSome

theorem keep_upd (t : BTree) (n : NodeId) (F : Node → Node) (hF : ∀ x, (F x).id = x.id) (x : NodeId)
    (h : (t.get? x).isSome) : ((t.upd n F).get? x).isSome := by
  rw [get?_upd _ _ _ _ hF]
  cases hg : t.get? x with
  | none => rw [hg] at h; simp at h
  | some nd => simp

theorem fresh_upd {T : BTree} (h : Fresh T) (n : NodeId) (F : Node → Node) (hF : ∀ x, (F x).id = x.id) :
    Fresh (T.upd n F) := by
  refine ⟨h.1, ?_⟩
  intro nd hnd
  unfold BTree.upd at hnd
  simp only [List.mem_map] at hnd
  obtain ⟨x, hx, rfl⟩ := hnd
  have := h.2 x hx
  show (if (x.id == n) = true then F x else x).id < T.nextId
  split
  · rw [hF]; exact this
  · exact this

/-- STAGE 1a: `Add` whose descent ends in a leaf with room (`insertSlotItem`, no split) -/
theorem addU_leaf_room (t : BTree) (uniq : Bool) (key : Int) (val : Nat) (n : NodeId) (i : Nat)
    (hwf : WF t) (hok : t.panicked = false) (hidle : Idle t) (hfresh : Fresh t)
    (htgt : addTargetOf t uniq key = .leaf n i) (hroom : ((addStart t uniq).1.get n).count < t.sl) :
    AddOk t key val (t.addU uniq key val) := by
  have so := addStart_ok t uniq hwf
  rw [addU_eq, htgt]
  unfold addTargetOf at htgt
  obtain ⟨T, hTdef⟩ : ∃ T, T = (addStart t uniq).1 := ⟨_, rfl⟩
  have hsl : T.sl = t.sl := by rw [hTdef]; exact so.sl
  have hroom' : (T.get n).count < T.sl := by rw [hsl, hTdef]; exact hroom
  have hroot : T.root ≠ 0 := by rw [hTdef]; exact so.root
  have hT : WF T := by rw [hTdef]; exact so.wf
  rw [so.rootEq, ← hTdef] at htgt
  rw [← hTdef]
  simp only [Target.apply]
  rw [addOnLeaf_room hroom']
  obtain ⟨hleaf, hi⟩ := target_leaf key _ _ _ htgt
  have hid : (⟨t.nextId, key, val⟩ : Item).id ≠ 0 := by have := hfresh.1; show t.nextId ≠ 0; omega
  have hloc := localOk_leaf (t := T) (n := n) (item := ⟨t.nextId, key, val⟩) hleaf hi hroom' hid
  have hd1 : (T.upd n (insSlot ⟨t.nextId, key, val⟩ i)).distSrc = 0 := by
    show T.distSrc = 0; rw [hTdef, so.idle.1]; exact hidle.1
  have hd2 : (T.upd n (insSlot ⟨t.nextId, key, val⟩ i)).promTarget = 0 := by
    show T.promTarget = 0; rw [hTdef, so.idle.2]; exact hidle.2
  rw [addFinish_idle _ hd1 hd2]
  have hasm := assemble (T := T) (T' := T.upd n (insSlot ⟨t.nextId, key, val⟩ i)) (n := n)
    (({ t with nextId := t.nextId + 1 } : BTree).getRootNode.1.unique) hT hroot hloc rfl (by simp) (Nat.le_refl _)
    rfl (by rw [htgt]; rfl) (by rw [htgt]; rfl)
  obtain ⟨hWF, L, R, hA, hA', hLb, hRb⟩ := hasm
  have hTabs : T.abs = t.abs := by rw [hTdef]; exact so.abs
  rw [hTabs] at hA
  refine ⟨rfl, hWF, ?_, ⟨hd1, hd2⟩, ?_, ?_, ⟨L, R, hA, hA', hLb, hRb⟩, ⟨hsl, so.saved, ?_, ?_, ?_, ?_⟩, ?_, ?_, ?_⟩
  · show T.panicked = false; rw [hTdef, so.ok]; exact hok
  · have hf : Fresh T := by rw [hTdef]; exact so.fresh hfresh
    exact fresh_upd hf n _ (fun _ => rfl)
  · show T.count + 1 = t.count + 1; rw [hTdef, so.count]
  · show T.lb = t.lb; rw [hTdef]; exact so.lb
  · show T.fixFast = t.fixFast; rw [hTdef]; exact so.fix.1
  · show T.fixErr = t.fixErr; rw [hTdef]; exact so.fix.2.1
  · show T.fixId = t.fixId; rw [hTdef]; exact so.fix.2.2
  · show t.nextId < T.nextId; rw [hTdef]; exact so.nextId
  · show T.cur = t.cur; rw [hTdef]; exact so.cur
  · intro x hx
    have h1 : (T.get? x).isSome := by rw [hTdef]; exact so.keep x hx
    exact keep_upd T n (insSlot ⟨t.nextId, key, val⟩ i) (fun _ => rfl) x h1


/-- `WF` and `abs` only depend on the repository, the slot length, the root and the count -/
theorem WF_sameNodes {T T' : BTree} (hT : WF T) (hn : T'.nodes = T.nodes) (hsl : T'.sl = T.sl)
    (hr : T'.root = T.root) (hc : T'.count = T.count) : WF T' ∧ T'.abs = T.abs := by
  unfold WF at hT ⊢
  by_cases hroot : T.root = 0
  · rw [if_pos hroot] at hT
    rw [if_pos (by rw [hr]; exact hroot), hsl, hn, hc]
    refine ⟨hT, ?_⟩
    unfold BTree.abs
    rw [hr, hroot, absNode_zero, absNode_zero]
  · rw [if_neg hroot] at hT
    obtain ⟨h0, hW, hN, hL, hC⟩ := hT
    have sn := sameNodes hn hsl hW
    have habs : T'.abs = T.abs := by
      unfold BTree.abs; rw [hn, hr]; exact sn.2.1
    rw [if_neg (by rw [hr]; exact hroot), hsl, hn, hr, hc, habs]
    refine ⟨⟨h0, sn.1, ?_, ?_, hC⟩, rfl⟩
    · rw [sn.2.2]; exact hN
    · rw [sn.2.2]; exact hL

/-- what a rejected `Add` (the key exists in a unique store) guarantees -/
structure AddRejected (t : BTree) (r : BTree × Bool) : Prop where
  ret : r.2 = false
  wf : WF r.1
  ok : r.1.panicked = false
  idle : Idle r.1
  fresh : Fresh r.1
  count : r.1.count = t.count
  abs : r.1.abs = t.abs
  nodes : t.root ≠ 0 → r.1.nodes = t.nodes ∧ r.1.root = t.root
  cfg : r.1.sl = t.sl ∧ r.1.unique = t.unique ∧ r.1.lb = t.lb ∧
    r.1.fixFast = t.fixFast ∧ r.1.fixErr = t.fixErr ∧ r.1.fixId = t.fixId
  next : t.nextId < r.1.nextId
  keep : ∀ x, (t.get? x).isSome → (r.1.get? x).isSome

/-- STAGE 1b: `Add` rejected because the key exists (`itemExists` on the way down or the duplicate test
    on the leaf): returns false, only the cursor (and the id counter) moved -/
theorem addU_dup (t : BTree) (uniq : Bool) (key : Int) (val : Nat) (n : NodeId) (i : Nat)
    (hwf : WF t) (hok : t.panicked = false) (hidle : Idle t) (hfresh : Fresh t)
    (htgt : addTargetOf t uniq key = .dup n i) :
    AddRejected t (t.addU uniq key val) := by
  have so := addStart_ok t uniq hwf
  rw [addU_eq, htgt]
  obtain ⟨T, hTdef⟩ : ∃ T, T = (addStart t uniq).1 := ⟨_, rfl⟩
  rw [← hTdef]
  have hT : WF T := by rw [hTdef]; exact so.wf
  simp only [Target.apply, addFinish, Bool.not_false, if_true]
  have h := WF_sameNodes (T := T)
    (T' := { T.setCur n i with unique := ({ t with nextId := t.nextId + 1 } : BTree).getRootNode.1.unique })
    hT rfl rfl rfl rfl
  refine ⟨rfl, h.1, ?_, ⟨?_, ?_⟩, ?_, ?_, ?_, ?_, ⟨?_, so.saved, ?_, ?_, ?_, ?_⟩, ?_, ?_⟩
  · show T.panicked = false; rw [hTdef, so.ok]; exact hok
  · show T.distSrc = 0; rw [hTdef, so.idle.1]; exact hidle.1
  · show T.promTarget = 0; rw [hTdef, so.idle.2]; exact hidle.2
  · have hf : Fresh T := by rw [hTdef]; exact so.fresh hfresh
    exact hf
  · show T.count = t.count; rw [hTdef, so.count]
  · rw [h.2, hTdef]; exact so.abs
  · intro hr
    show T.nodes = t.nodes ∧ T.root = t.root
    rw [hTdef]; exact so.same hr
  · show T.sl = t.sl; rw [hTdef]; exact so.sl
  · show T.lb = t.lb; rw [hTdef]; exact so.lb
  · show T.fixFast = t.fixFast; rw [hTdef]; exact so.fix.1
  · show T.fixErr = t.fixErr; rw [hTdef]; exact so.fix.2.1
  · show T.fixId = t.fixId; rw [hTdef]; exact so.fix.2.2
  · show t.nextId < T.nextId; rw [hTdef]; exact so.nextId
  · intro x hx
    show (T.get? x).isSome
    rw [hTdef]; exact so.keep x hx

/-- the cursor after a rejected `Add` is parked on the existing key -/
theorem addU_dup_cur (t : BTree) (uniq : Bool) (key : Int) (val : Nat) (n : NodeId) (i : Nat)
    (htgt : addTargetOf t uniq key = .dup n i) :
    (t.addU uniq key val).1.cur = ⟨n, (i : Int), false⟩ ∧ 0 ≤ (t.addU uniq key val).1.cur.idx := by
  rw [addU_eq, htgt]
  simp only [Target.apply, addFinish, Bool.not_false, if_true]
  exact ⟨rfl, Int.natCast_nonneg i⟩

theorem addStart_first (t : BTree) (uniq : Bool) (hr : t.root = 0) (hnil : t.nodes = []) :
    addStart t uniq =
      ({ t with nodes := [firstRoot (t.nextId + 1) t.sl], root := t.nextId + 1, nextId := t.nextId + 1 + 1,
                unique := uniq }, t.nextId + 1) := by
  have e := getRootNode_first (t1 := { t with nextId := t.nextId + 1 }) hr hnil
  unfold addStart; rw [e]

/-- the first `Add` into an empty tree always ends on the fresh root leaf, which has room -/
theorem addTargetOf_first (t : BTree) (uniq : Bool) (key : Int) (hwf : WF t) (hr : t.root = 0) :
    addTargetOf t uniq key = .leaf (t.nextId + 1) 0 ∧ ((addStart t uniq).1.get (t.nextId + 1)).count < t.sl := by
  have hw := hwf
  unfold WF at hw
  rw [if_pos hr] at hw
  obtain ⟨hsl, hnil, hcnt⟩ := hw
  have es := addStart_first t uniq hr hnil
  have hget : (addStart t uniq).1.get (t.nextId + 1) = firstRoot (t.nextId + 1) t.sl := by
    rw [es]; simp [BTree.get, BTree.get?, firstRoot]
  refine ⟨?_, ?_⟩
  · unfold addTargetOf
    have h2 : (addStart t uniq).2 = t.nextId + 1 := by rw [es]
    have h3 : (addStart t uniq).1.fuel = 3 + 1 := by rw [es]; rfl
    rw [h2, h3]
    unfold addTarget
    simp only [hget]
    simp [getIndexToInsertTo, firstRoot, Node.hasChildren, leafDup]
  · rw [hget]; simp [firstRoot]; omega

/-- STAGE 1c: the first `Add` into an empty tree (`getRootNode` creates the root) -/
theorem addU_first (t : BTree) (uniq : Bool) (key : Int) (val : Nat)
    (hwf : WF t) (hr : t.root = 0) (hok : t.panicked = false) (hidle : Idle t) (hfresh : Fresh t) :
    AddOk t key val (t.addU uniq key val) :=
  addU_leaf_room t uniq key val _ _ hwf hok hidle hfresh (addTargetOf_first t uniq key hwf hr).1
    (addTargetOf_first t uniq key hwf hr).2

/-- non-vacuity of `addU_leaf_room`: the second `Add` into a slot-length-4 store meets every hypothesis -/
def exTree : BTree := ((BTree.new 4 false false true).add 5 1).1

theorem exTree_hyps : WF exTree ∧ exTree.panicked = false ∧ Idle exTree ∧ Fresh exTree ∧
    addTargetOf exTree false 3 = .leaf 2 0 ∧ ((addStart exTree false).1.get 2).count < exTree.sl := by
  refine ⟨checkWF_sound _ (by decide), by decide, ⟨by decide, by decide⟩, ⟨by decide, by decide⟩, by decide, by decide⟩

/-- non-vacuity of `addU_dup`: adding an existing key to a unique store -/
def exTreeU : BTree := ((BTree.new 4 true false true).add 5 1).1

theorem exTreeU_hyps : WF exTreeU ∧ exTreeU.panicked = false ∧ Idle exTreeU ∧ Fresh exTreeU ∧
    addTargetOf exTreeU true 5 = .dup 2 0 := by
  refine ⟨checkWF_sound _ (by decide), by decide, ⟨by decide, by decide⟩, ⟨by decide, by decide⟩, by decide⟩

/-- non-vacuity of `addU_first` -/
theorem exEmpty_hyps : WF (BTree.new 4 false false true) ∧ (BTree.new 4 false false true).root = 0 ∧
    Idle (BTree.new 4 false false true) ∧ Fresh (BTree.new 4 false false true) := by
  refine ⟨checkWF_sound _ (by decide), by decide, ⟨by decide, by decide⟩, ⟨by decide, by decide⟩⟩

end Sop.BTree.Ins
