import Sop.Lemmas.BTreeInsert
/-! # C17 update side, `Btree.Add`, STAGE 2 — `addItemOnNodeWithNilChild`: a fresh leaf holding the item is
linked at the nil child position the key belongs to.  Main theorem: `addU_nilc`. -/
namespace Sop.BTree.Ins
open Sop.BTree
set_option linter.unusedVariables false
set_option linter.unusedSimpArgs false

/-! Insert proofs for Model B, part 10: STAGE 2 — `addItemOnNodeWithNilChild`. -/

/-! ### `put` -/

theorem find?_putNode (nd : Node) (x : NodeId) : ∀ (l : List Node),
    (putNode nd l).find? (fun y => y.id == x) = if nd.id = x then some nd else l.find? (fun y => y.id == x)
  | [] => by
    by_cases h : nd.id = x <;> simp [putNode, h]
  | y :: ys => by
    unfold putNode
    by_cases hy : (y.id == nd.id) = true
    · rw [if_pos hy]
      have hy' : y.id = nd.id := by simpa using hy
      by_cases h : nd.id = x
      · simp [h]
      · have : ¬ y.id = x := by rw [hy']; exact h
        simp [h, this]
    · rw [if_neg hy]
      have hy' : ¬ y.id = nd.id := by simpa using hy
      by_cases hyx : y.id = x
      · have : ¬ nd.id = x := by rw [← hyx]; exact fun e => hy' e.symm
        simp [hyx, this]
      · simp only [List.find?_cons, show (y.id == x) = false by simpa using hyx]
        exact find?_putNode nd x ys

theorem get?_put (t : BTree) (nd : Node) (x : NodeId) :
    (t.put nd).get? x = if nd.id = x then some nd else t.get? x := by
  unfold BTree.put BTree.get?
  exact find?_putNode nd x t.nodes

theorem putNode_length_fresh (nd : Node) : ∀ (l : List Node), l.find? (fun y => y.id == nd.id) = none →
    (putNode nd l).length = l.length + 1
  | [], _ => rfl
  | y :: ys, h => by
    unfold putNode
    have hy : (y.id == nd.id) = false := by
      cases hb : (y.id == nd.id) with
      | false => rfl
      | true => simp [List.find?_cons, hb] at h
    rw [if_neg (by simp [hy])]
    simp only [List.find?_cons, hy] at h
    simp [putNode_length_fresh nd ys h]

theorem mem_putNode {nd x : Node} : ∀ (l : List Node), x ∈ putNode nd l → x = nd ∨ x ∈ l
  | [], h => by simp [putNode] at h; exact Or.inl h
  | y :: ys, h => by
    unfold putNode at h
    split at h
    · rcases List.mem_cons.mp h with h | h
      · exact Or.inl h
      · exact Or.inr (List.mem_cons_of_mem _ h)
    · rcases List.mem_cons.mp h with h | h
      · exact Or.inr (h ▸ List.mem_cons_self)
      · rcases mem_putNode ys h with h | h
        · exact Or.inl h
        · exact Or.inr (List.mem_cons_of_mem _ h)

theorem fresh_get? {T : BTree} (h : Fresh T) {x : NodeId} (hx : T.nextId ≤ x) : T.get? x = none := by
  unfold BTree.get?
  rw [List.find?_eq_none]
  intro nd hnd
  have := h.2 nd hnd
  simp only [beq_iff_eq]
  intro e
  rw [e] at this
  exact absurd this (Nat.not_lt.mpr hx)

/-! ### the fresh leaf -/

/-- the node `addItemOnNodeWithNilChild` creates -/
def newLeaf (id parent : NodeId) (sl : Nat) (item : Item) : Node :=
  { id := id, parent := parent, slots := (zeros sl).setIfInBounds 0 item, count := 1, children := none, ion := -1 }

theorem newChildWithItem_eq (t : BTree) (n : NodeId) (i : Nat) (item : Item) :
    t.newChildWithItem n i item =
      (({ t with nextId := t.nextId + 1 } : BTree).upd n (fun x => x.setChild i t.nextId)).put
        (newLeaf t.nextId n t.sl item) := rfl

theorem newLeaf_items (id parent : NodeId) {sl : Nat} (item : Item) (hsl : 0 < sl) :
    (newLeaf id parent sl item).items = [item] := by
  unfold Node.items newLeaf zeros
  simp only [Array.toList_setIfInBounds, Array.toList_replicate]
  cases sl with
  | zero => omega
  | succ k => simp [List.replicate_succ]

theorem newLeaf_shape {t : BTree} (id parent : NodeId) (item : Item) (hsl : 0 < t.sl) :
    NodeShape t (newLeaf id parent t.sl item) := by
  refine ⟨by simp [newLeaf, zeros], by simp [newLeaf]; omega, by simp [newLeaf], ?_, by simp [newLeaf]⟩
  intro x hx
  unfold newLeaf zeros at hx
  simp only [Array.toList_setIfInBounds, Array.toList_replicate] at hx
  rw [List.drop_set_of_lt (by omega)] at hx
  exact List.eq_of_mem_replicate (List.mem_of_mem_drop hx)

/-- a fresh one-item leaf is a well-formed subtree inside any bounds that contain its key -/
theorem newLeaf_wf {t' : BTree} {c parent : NodeId} {item : Item} {sl : Nat} (hsl : 0 < sl) (hsl' : t'.sl = sl)
    (hc : c ≠ 0)
    (hg : t'.get? c = some (newLeaf c parent sl item)) (hid : item.id ≠ 0) (f : Nat) (l h : Option Int)
    (hl : LeO l item.key) (hh : OLe item.key h) :
    WFNode t' (f + 1) c parent l h ∧ absNode t' (f + 1) c = [item] ∧ reach t' (f + 1) c = [c] := by
  subst hsl'
  refine ⟨⟨hc, _, hg, rfl, newLeaf_shape c parent item hsl, Or.inr (by simp [newLeaf]), ?_⟩, ?_, ?_⟩
  · have : (newLeaf c parent t'.sl item).children = none := rfl
    rw [this]
    simp only
    rw [newLeaf_items c parent item hsl]
    exact ⟨hl, hh, hid, trivial⟩
  · simp only [absNode, hc, if_false, hg]
    have : (newLeaf c parent t'.sl item).children = none := rfl
    rw [this]
    exact newLeaf_items c parent item hsl
  · rw [reach_succ hc hg]
    simp [Node.kidArr, newLeaf]

/-! ### positional `KidsOk`: a new child at the key's position -/

theorem KidsOk.setAt {P Q : NodeId → Option Int → Option Int → Prop} (key : Int) (c' : NodeId) :
    ∀ (idx : Nat) (cs : List NodeId) (is : List Item) (lo hi : Option Int),
      cs.length = is.length + 1 → idx ≤ is.length → KidsOk P lo hi cs is →
      (∀ x ∈ is.take idx, x.key < key) → (∀ x ∈ is.drop idx, key ≤ x.key) → LeO lo key → OLe key hi →
      (∀ l h, LeO l key → OLe key h → Q c' l h) →
      (∀ j, j < cs.length → j ≠ idx → ∀ l h, P (cs.getD j 0) l h → Q (cs.getD j 0) l h) →
      KidsOk Q lo hi (cs.set idx c') is
  | 0, [], _, _, _, hl, _, _, _, _, _, _, _, _ => by simp at hl
  | _ + 1, [], _, _, _, hl, _, _, _, _, _, _, _, _ => by simp at hl
  | 0, c :: cs, [], lo, hi, hl, _, h, _, _, hlo, hhi, hidx, _ =>
    ⟨Or.inr (hidx _ _ hlo hhi), h.2⟩
  | 0, c :: cs, x :: is, lo, hi, hl, _, h, _, hdrop, hlo, hhi, hidx, hoth => by
    refine ⟨Or.inr (hidx _ _ hlo ?_), h.2.1, h.2.2.1, h.2.2.2.1, ?_⟩
    · intro b hb; cases hb; exact hdrop x (by simp)
    · refine KidsOk.imp_idx cs is _ _ (fun j hj l h' => ?_) h.2.2.2.2
      have := hoth (j + 1) (by simpa using hj) (by omega) l h'
      simpa using this
  | idx + 1, c :: cs, [], _, _, _, hi', _, _, _, _, _, _, _ => by simp at hi'
  | idx + 1, c :: cs, x :: is, lo, hi, hl, hi', h, htake, hdrop, hlo, hhi, hidx, hoth => by
    have hx : x.key < key := htake x (by simp)
    simp only [List.set_cons_succ]
    refine ⟨h.1.imp id (fun hp => ?_), h.2.1, h.2.2.1, h.2.2.2.1, ?_⟩
    · have := hoth 0 (by simp) (by omega) lo (some x.key)
      simpa using this hp
    · refine KidsOk.setAt key c' idx cs is (some x.key) hi (by simpa using hl) (by simpa using hi') h.2.2.2.2
        (fun y hy => htake y (by simp [hy])) (fun y hy => hdrop y (by simpa using hy))
        (fun b hb => by cases hb; omega) hhi hidx ?_
      intro j hj hne l h' hp
      have := hoth (j + 1) (by simpa using hj) (by omega) l h'
      simp only [List.getD_cons_succ] at this
      exact this hp

theorem target_nilc (key : Int) {n : NodeId} {i : Nat} : ∀ (fuel : Nat) (t : BTree) (m : NodeId),
    addTarget key fuel t m = .nilc n i →
    (t.get n).hasChildren = true ∧ (t.get n).child i = 0 ∧ i = (getIndexToInsertTo t (t.get n) key).1
  | 0, _, _, h => by simp [addTarget] at h
  | fuel + 1, t, m, h => by
    unfold addTarget at h
    simp only at h
    split at h
    · cases h
    · split at h
      · rename_i hch
        split at h
        · rename_i h0
          cases h
          exact ⟨hch, by simpa using h0, rfl⟩
        · split at h
          · cases h
          · exact target_nilc key fuel t _ h
      · split at h
        · cases h
        · cases h

/-! Insert proofs for Model B, part 11: STAGE 2 — the local lemma for `addItemOnNodeWithNilChild`. -/

theorem getD_set_ne {α} (l : List α) (i j : Nat) (a d : α) (h : j ≠ i) : (l.set i a).getD j d = l.getD j d := by
  simp only [List.getD_eq_getElem?_getD]
  rw [List.getElem?_set_ne (Ne.symm h)]

theorem getD_set_self {α} (l : List α) (i : Nat) (a d : α) (h : i < l.length) : (l.set i a).getD i d = a := by
  simp only [List.getD_eq_getElem?_getD]
  rw [List.getElem?_set_self h]; rfl

theorem setChild_kids {t : BTree} {nd : Node} (hs : NodeShape t nd) {cs : Array NodeId} (hcs : nd.children = some cs)
    (i : Nat) (c : NodeId) : (nd.setChild i c).kids = nd.kids.set i c := by
  unfold Node.kids Node.setChild
  simp only [hcs, Option.map_some, Array.toList_setIfInBounds]
  rw [List.take_set]

theorem setChild_shape {t : BTree} {nd : Node} (hs : NodeShape t nd) {i : Nat} (hi : i ≤ nd.count) (c : NodeId) :
    NodeShape t (nd.setChild i c) := by
  obtain ⟨h1, h2, h3, h4, h5⟩ := hs
  refine ⟨h1, h2, h3, h4, ?_⟩
  intro cs' hcs'
  cases hc : nd.children with
  | none => simp [Node.setChild, hc] at hcs'
  | some cs =>
    simp only [Node.setChild, hc, Option.map_some, Option.some.injEq] at hcs'
    subst hcs'
    obtain ⟨h6, h7⟩ := h5 cs hc
    refine ⟨by simp [h6], ?_⟩
    intro x hx
    simp only [Array.toList_setIfInBounds] at hx
    rw [List.drop_set_of_lt (by show i < nd.count + 1; omega)] at hx
    exact h7 x hx

/-- STAGE 2, local: a fresh leaf holding the item at the nil child position the key belongs to -/
theorem localOk_nilc {T : BTree} {n : NodeId} {item : Item} {i : Nat}
    (hch : (T.get n).hasChildren = true) (h0 : (T.get n).child i = 0)
    (hi : i = (getIndexToInsertTo T (T.get n) item.key).1)
    (hfresh : Fresh T) (hsl : 0 < T.sl) (hid : item.id ≠ 0) :
    LocalOk T (T.newChildWithItem n i item) n item 1 [T.nextId] := by
  have hcnone : T.get? T.nextId = none := fresh_get? hfresh (Nat.le_refl _)
  have hc0 : T.nextId ≠ 0 := by have := hfresh.1; omega
  have hFid : ∀ x : Node, (x.setChild i T.nextId).id = x.id := fun _ => rfl
  -- lookups in the new tree
  have hgetc : (T.newChildWithItem n i item).get? T.nextId = some (newLeaf T.nextId n T.sl item) := by
    rw [newChildWithItem_eq, get?_put, if_pos (by rfl)]
  have hgeto : ∀ x, x ≠ T.nextId → (T.newChildWithItem n i item).get? x =
      (T.get? x).map (fun y => if x = n then y.setChild i T.nextId else y) := by
    intro x hx
    rw [newChildWithItem_eq, get?_put, if_neg (by exact fun e => hx e.symm),
      get?_upd _ _ _ _ hFid]
    rfl
  have hframe : ∀ x, x ≠ n → (T.get? x).isSome → (T.newChildWithItem n i item).get? x = T.get? x := by
    intro x hxn hsome
    have hxc : x ≠ T.nextId := by
      intro e; rw [e, hcnone] at hsome; simp at hsome
    rw [hgeto x hxc]
    cases T.get? x with
    | none => rfl
    | some y => simp [hxn]
  refine ⟨rfl, hframe, ?_, by simp, ?_⟩
  · intro x hx
    have : x = T.nextId := by simpa using hx
    rw [this]; exact hcnone
  intro f p l h hW hnd hl hh
  cases f with
  | zero => exact absurd hW (by simp [WFNode])
  | succ f =>
    obtain ⟨hn, nd, hg, hp, hs, hne, hbody⟩ := hW
    have hget := get_of_get? hg
    rw [hget] at hch h0 hi
    obtain ⟨cs, hcs⟩ : ∃ cs, nd.children = some cs := by
      cases hh : nd.children with
      | none => simp [Node.hasChildren, hh] at hch
      | some cs => exact ⟨cs, rfl⟩
    rw [hcs] at hbody
    simp only at hbody
    have hkids : nd.kids = cs.toList.take (nd.count + 1) := by simp [Node.kids, hcs]
    have hka : Node.kidArr nd = nd.kids := by simp [Node.kidArr, hcs, hkids]
    rw [← hkids] at hbody
    have hklen := Node.kids_length hs
    have hilen := Node.items_length hs
    have hsorted : Sorted nd.items := (itemsOk_good _ _ _ (KidsOk.itemsOk _ _ _ _ (by omega) hbody)).1
    obtain ⟨hidx, htake, hdrop⟩ := insIdx_spec T nd item.key hs hsorted
    rw [← hi] at hidx htake hdrop
    have hcI : nd.kids.getD i 0 = 0 := by rw [Node.kids_getD hs hidx]; exact h0
    have hIlt : i < nd.kids.length := by omega
    have hr := reach_succ (f := f) hn hg
    rw [hr, hka] at hnd
    have hnd' := List.nodup_cons.mp hnd
    have hnc : n ≠ T.nextId := by intro e; rw [e, hcnone] at hg; cases hg
    have hg' : (T.newChildWithItem n i item).get? n = some (nd.setChild i T.nextId) := by
      rw [hgeto n hnc, hg]; simp
    -- the old children are untouched
    have hkid : ∀ c ∈ nd.kids, ∀ l2 h2, WFNode T f c n l2 h2 →
        WFNode (T.newChildWithItem n i item) f c n l2 h2 ∧
        absNode (T.newChildWithItem n i item) f c = absNode T f c ∧
        reach (T.newChildWithItem n i item) f c = reach T f c := by
      intro c hc l2 h2 hw
      refine frame (t := T) (t' := T.newChildWithItem n i item) rfl f c n l2 h2 ?_ hw
      intro x hx
      apply hframe x _ (mem_reach_isSome T f c x hx)
      intro e
      subst e
      exact hnd'.1 (List.mem_flatMap.mpr ⟨c, hc, hx⟩)
    have hkidA : ∀ c ∈ nd.kids, absNode (T.newChildWithItem n i item) (f + 1) c = absNode T f c := by
      intro c hc
      rcases KidsOk.mem _ _ _ _ hbody c hc with h0' | ⟨l2, h2, hw⟩
      · rw [h0', absNode_zero, absNode_zero]
      · have := hkid c hc l2 h2 hw
        rw [absNode_succ _ _ _ _ _ _ this.1, this.2.1]
    have hkidR : ∀ c ∈ nd.kids, reach (T.newChildWithItem n i item) (f + 1) c = reach T f c := by
      intro c hc
      rcases KidsOk.mem _ _ _ _ hbody c hc with h0' | ⟨l2, h2, hw⟩
      · rw [h0', reach_zero, reach_zero]
      · have := hkid c hc l2 h2 hw
        rw [reach_fuel_succ _ _ _ _ _ _ this.1, this.2.2]
    have hmemj : ∀ j, j < nd.kids.length → nd.kids.getD j 0 ∈ nd.kids := by
      intro j hj; rw [getD_of_lt _ _ _ hj]; exact List.getElem_mem hj
    have hleaf := fun (l2 h2 : Option Int) (a : LeO l2 item.key) (b : OLe item.key h2) =>
      newLeaf_wf (t' := T.newChildWithItem n i item) (c := T.nextId) (parent := n) (item := item) hsl rfl hc0
        hgetc hid f l2 h2 a b
    have hkids' : (nd.setChild i T.nextId).kids = nd.kids.set i T.nextId := setChild_kids hs hcs i _
    have hcs' : (nd.setChild i T.nextId).children = some (cs.setIfInBounds i T.nextId) := by
      simp [Node.setChild, hcs]
    have hkids'' : (cs.setIfInBounds i T.nextId).toList.take (nd.count + 1) = nd.kids.set i T.nextId := by
      rw [Array.toList_setIfInBounds, List.take_set, ← hkids]
    have hka' : Node.kidArr (nd.setChild i T.nextId) = nd.kids.set i T.nextId := by
      show ((nd.setChild i T.nextId).children.getD #[]).toList.take (nd.count + 1) = _
      rw [hcs']; exact hkids''
    have e1 : f + 1 + 1 = (f + 1) + 1 := rfl
    refine ⟨?_, ?_, ?_⟩
    · refine ⟨hn, _, hg', hp, setChild_shape hs hidx _, hne, ?_⟩
      rw [hcs']
      simp only
      show KidsOk _ l h ((cs.setIfInBounds i T.nextId).toList.take (nd.count + 1)) nd.items
      rw [hkids'']
      refine KidsOk.setAt item.key T.nextId i nd.kids nd.items l h (by omega) (by omega) hbody htake hdrop hl hh ?_ ?_
      · intro l2 h2 a b
        exact (hleaf l2 h2 a b).1
      · intro j hj hji l2 h2 hw
        exact WFNode.succ _ _ _ _ _ _ (hkid _ (hmemj j hj) l2 h2 hw).1
    · rw [reach_succ hn hg', hr, hka, hka', List.cons_append]
      apply List.Perm.cons
      refine flatMap_perm_at i nd.kids (nd.kids.set i T.nextId) (by simp) hIlt ?_ ?_
      · rw [getD_set_self _ _ _ _ hIlt, hcI, reach_zero, (hleaf none none (leO_none _) (oLe_none _)).2.2]
        exact List.Perm.refl _
      · intro j hj hji
        rw [getD_set_ne _ _ _ _ _ hji]
        exact hkidR _ (hmemj j hj)
    · have hA : absNode T (f + 1) n = weave (absNode T f) nd.kids nd.items := by
        simp [absNode, hn, hg, hcs, hkids]
      have hA' : absNode (T.newChildWithItem n i item) (f + 1 + 1) n =
          weave (absNode (T.newChildWithItem n i item) (f + 1)) (nd.kids.set i T.nextId) nd.items := by
        simp only [absNode, hn, if_false, hg', hcs']
        show weave _ ((cs.setIfInBounds i T.nextId).toList.take (nd.count + 1)) nd.items = _
        rw [hkids'']
      rw [hA, hA', weave_split _ i nd.kids nd.items (by omega) (by omega),
        weave_split (absNode (T.newChildWithItem n i item) (f + 1)) i (nd.kids.set i T.nextId) nd.items
          (by simp; omega) (by omega),
        getD_set_self _ _ _ _ hIlt, hcI, absNode_zero, (hleaf none none (leO_none _) (oLe_none _)).2.1]
      have hpre : weave (absNode (T.newChildWithItem n i item) (f + 1)) ((nd.kids.set i T.nextId).take i) (nd.items.take i) =
          weave (absNode T f) (nd.kids.take i) (nd.items.take i) := by
        rw [List.take_set_of_le (Nat.le_refl i)]
        apply weave_congr
        intro c hc
        exact hkidA c (List.mem_of_mem_take hc)
      have hsuf : weaveTail (absNode (T.newChildWithItem n i item) (f + 1)) ((nd.kids.set i T.nextId).drop (i + 1)) (nd.items.drop i) =
          weaveTail (absNode T f) (nd.kids.drop (i + 1)) (nd.items.drop i) := by
        rw [List.drop_set_of_lt (Nat.lt_succ_self i)]
        apply weaveTail_congr
        intro c hc
        exact hkidA c (List.mem_of_mem_drop hc)
      rw [hpre, hsuf]
      refine ⟨weave (absNode T f) (nd.kids.take i) (nd.items.take i),
        weaveTail (absNode T f) (nd.kids.drop (i + 1)) (nd.items.drop i), by simp, by simp, ?_, ?_⟩
      · exact prefix_lt item.key i _ _ l h (by omega) hbody htake
      · exact suffix_ge item.key i _ _ l h (by omega) hbody hdrop

/-! Insert proofs for Model B, part 12: STAGE 2 theorem. -/

theorem newChildWithItem_length {T : BTree} (hfresh : Fresh T) (n : NodeId) (i : Nat) (item : Item) :
    (T.newChildWithItem n i item).nodes.length = T.nodes.length + 1 := by
  have hcnone : T.get? T.nextId = none := fresh_get? hfresh (Nat.le_refl _)
  have h1 : (({ T with nextId := T.nextId + 1 } : BTree).upd n (fun x => x.setChild i T.nextId)).get? T.nextId = none := by
    rw [get?_upd _ n T.nextId (fun x => x.setChild i T.nextId) (fun _ => rfl)]
    show Option.map _ (T.get? T.nextId) = none
    rw [hcnone]; rfl
  rw [newChildWithItem_eq]
  unfold BTree.get? at h1
  show (putNode _ _).length = _
  rw [putNode_length_fresh _ _ (by exact h1)]
  simp [BTree.upd]

theorem newChildWithItem_fresh {T : BTree} (hfresh : Fresh T) (n : NodeId) (i : Nat) (item : Item) :
    Fresh (T.newChildWithItem n i item) := by
  rw [newChildWithItem_eq]
  refine ⟨Nat.succ_pos _, ?_⟩
  intro nd hnd
  show nd.id < T.nextId + 1
  rcases mem_putNode _ hnd with h | h
  · rw [h]; exact Nat.lt_succ_self _
  · have hf : Fresh ({ T with nextId := T.nextId + 1 } : BTree) :=
      ⟨Nat.succ_pos _, fun x hx => Nat.lt_succ_of_lt (hfresh.2 x hx)⟩
    exact (fresh_upd hf n (fun x => x.setChild i T.nextId) (fun _ => rfl)).2 nd h

theorem keep_put (t : BTree) (nd : Node) (x : NodeId) (h : (t.get? x).isSome) : ((t.put nd).get? x).isSome := by
  rw [get?_put]
  split
  · rfl
  · exact h

/-- STAGE 2: `Add` whose descent meets a nil child at the key's position in an inner node
    (`addItemOnNodeWithNilChild`): a fresh leaf holding the item is linked there -/
theorem addU_nilc (t : BTree) (uniq : Bool) (key : Int) (val : Nat) (n : NodeId) (i : Nat)
    (hwf : WF t) (hok : t.panicked = false) (hidle : Idle t) (hfresh : Fresh t)
    (htgt : addTargetOf t uniq key = .nilc n i) :
    AddOk t key val (t.addU uniq key val) := by
  have so := addStart_ok t uniq hwf
  rw [addU_eq, htgt]
  unfold addTargetOf at htgt
  obtain ⟨T, hTdef⟩ : ∃ T, T = (addStart t uniq).1 := ⟨_, rfl⟩
  have hsl : T.sl = t.sl := by rw [hTdef]; exact so.sl
  have hroot : T.root ≠ 0 := by rw [hTdef]; exact so.root
  have hT : WF T := by rw [hTdef]; exact so.wf
  have hf : Fresh T := by rw [hTdef]; exact so.fresh hfresh
  rw [so.rootEq, ← hTdef] at htgt
  rw [← hTdef]
  simp only [Target.apply]
  obtain ⟨hch, h0, hi⟩ := target_nilc key _ _ _ htgt
  have hid : (⟨t.nextId, key, val⟩ : Item).id ≠ 0 := by have := hfresh.1; show t.nextId ≠ 0; omega
  have hslpos : 0 < T.sl := by have := hT.1.1; omega
  have hloc := localOk_nilc (T := T) (n := n) (item := ⟨t.nextId, key, val⟩) hch h0 hi hf hslpos hid
  have hd1 : (T.newChildWithItem n i ⟨t.nextId, key, val⟩).distSrc = 0 := by
    show T.distSrc = 0; rw [hTdef, so.idle.1]; exact hidle.1
  have hd2 : (T.newChildWithItem n i ⟨t.nextId, key, val⟩).promTarget = 0 := by
    show T.promTarget = 0; rw [hTdef, so.idle.2]; exact hidle.2
  rw [addFinish_idle _ hd1 hd2]
  have hasm := assemble (T := T) (T' := T.newChildWithItem n i ⟨t.nextId, key, val⟩) (n := n)
    (({ t with nextId := t.nextId + 1 } : BTree).getRootNode.1.unique) hT hroot hloc rfl
    (by rw [newChildWithItem_length hf]; rfl) (Nat.le_refl _)
    rfl (by rw [htgt]; rfl) (by rw [htgt]; rfl)
  obtain ⟨hWF, L, R, hA, hA', hLb, hRb⟩ := hasm
  have hTabs : T.abs = t.abs := by rw [hTdef]; exact so.abs
  rw [hTabs] at hA
  refine ⟨rfl, hWF, ?_, ⟨hd1, hd2⟩, ?_, ?_, ⟨L, R, hA, hA', hLb, hRb⟩, ⟨hsl, so.saved, ?_, ?_, ?_, ?_⟩, ?_, ?_, ?_⟩
  · show T.panicked = false; rw [hTdef, so.ok]; exact hok
  · exact newChildWithItem_fresh hf n i _
  · show T.count + 1 = t.count + 1; rw [hTdef, so.count]
  · show T.lb = t.lb; rw [hTdef]; exact so.lb
  · show T.fixFast = t.fixFast; rw [hTdef]; exact so.fix.1
  · show T.fixErr = t.fixErr; rw [hTdef]; exact so.fix.2.1
  · show T.fixId = t.fixId; rw [hTdef]; exact so.fix.2.2
  · show t.nextId < T.nextId + 1; have : t.nextId < T.nextId := by rw [hTdef]; exact so.nextId
    omega
  · show T.cur = t.cur; rw [hTdef]; exact so.cur
  · intro x hx
    have h1 : (T.get? x).isSome := by rw [hTdef]; exact so.keep x hx
    show ((T.newChildWithItem n i ⟨t.nextId, key, val⟩).get? x).isSome
    rw [newChildWithItem_eq]
    exact keep_put _ _ x (keep_upd _ n (fun y => y.setChild i T.nextId) (fun _ => rfl) x h1)

/-- non-vacuity of `addU_nilc`: slot length 2, after a root split and the removal of the left leaf's
    only item the root has a nil child at position 0; `Add 0` lands there -/
def exNil : BTree := (BTree.new 2 false false true).run [.add 1 1, .add 2 2, .add 3 3, .remove 1]

theorem exNil_hyps : WF exNil ∧ exNil.panicked = false ∧ Idle exNil ∧ Fresh exNil ∧
    addTargetOf exNil false 0 = .nilc 2 0 := by
  refine ⟨checkWF_sound _ (by decide +kernel), by decide +kernel, ⟨by decide +kernel, by decide +kernel⟩, ⟨by decide +kernel, by decide +kernel⟩, by decide +kernel⟩

end Sop.BTree.Ins
