import Sop.Lemmas.BTreeInsert2
/-! # C17 update side, `Btree.Add`, STAGE 3 — split of a full ROOT leaf (`addOnLeaf`, `isRoot` branch): the root
keeps the middle item and gets two fresh leaf children.  Main theorem: `addU_root_split`. -/
namespace Sop.BTree.Ins
open Sop.BTree
set_option linter.unusedVariables false
set_option linter.unusedSimpArgs false

/-! Insert proofs for Model B, part 13: STAGE 3 — split of a root leaf: the arrays. -/

/-- the `sl + 1`-slot scratch array of `addOnLeaf`'s split: the full node plus the new item in order -/
def splitTemp (slots : Array Item) (sl idx : Nat) (item : Item) : Array Item :=
  (goCopy (goCopy (zeros (sl + 1)) 0 slots 0 slots.size) (idx + 1) (goCopy (zeros (sl + 1)) 0 slots 0 slots.size) idx
    (goCopy (zeros (sl + 1)) 0 slots 0 slots.size).size).setIfInBounds idx item

def leftHalf (t : BTree) (n : NodeId) (temp : Array Item) : Node :=
  { id := t.nextId + 1, parent := n, slots := goCopy (zeros t.sl) 0 temp 0 (t.sl / 2), count := t.sl / 2,
    children := none, ion := -1 }

def rightHalf (t : BTree) (n : NodeId) (temp : Array Item) : Node :=
  { id := t.nextId, parent := n, slots := goCopy (zeros t.sl) 0 temp (t.sl / 2 + 1) (t.sl / 2 + 1 + t.sl / 2),
    count := t.sl / 2, children := none, ion := -1 }

/-- the root after the split: one item, two children -/
def rootAfter (t : BTree) (mid : Item) (x : Node) : Node :=
  { x with slots := (zeros x.slots.size).setIfInBounds 0 mid, count := 1,
           children := some (((zeroIds (t.sl + 1)).setIfInBounds 0 (t.nextId + 1)).setIfInBounds 1 t.nextId) }

def splitF1 (mid : Item) (x : Node) : Node :=
  { x with slots := (zeros x.slots.size).setIfInBounds 0 mid, count := 1 }

def splitF2 (t : BTree) (x : Node) : Node :=
  { x with children := some (((zeroIds (t.sl + 1)).setIfInBounds 0 (t.nextId + 1)).setIfInBounds 1 t.nextId) }

/-- `addOnLeaf`'s root-leaf split, spelled out -/
def rootSplit (t : BTree) (n : NodeId) (item : Item) (idx : Nat) : BTree :=
  (((({ t with nextId := t.nextId + 1 + 1 } : BTree).upd n
      (splitF1 ((splitTemp (t.get n).slots t.sl idx item).getD (t.sl / 2) {}))).put
      (leftHalf t n (splitTemp (t.get n).slots t.sl idx item))).put
      (rightHalf t n (splitTemp (t.get n).slots t.sl idx item))).upd n (splitF2 t)

theorem addOnLeaf_rootSplit {t : BTree} {n : NodeId} {item : Item} {idx : Nat}
    (h1 : ¬ (t.get n).count < t.sl) (h2 : (t.get n).isRoot = true) :
    t.addOnLeaf n item idx = rootSplit t n item idx := by
  unfold BTree.addOnLeaf
  simp only [h1, if_false, h2, Bool.not_true, Bool.false_eq_true]
  rfl


/-! ### the arrays of a split, as lists -/

theorem writeAt0_toList {α} (z : α) (k : Nat) (l : List α) (hl : l.length ≤ k) :
    (writeAt (Array.replicate k z) 0 l).toList = l ++ List.replicate (k - l.length) z := by
  apply List.ext_getElem?
  intro j
  rw [Array.getElem?_toList, writeAt_getElem?]
  simp only [Array.size_replicate, Nat.zero_add, Nat.sub_zero, Nat.zero_le, true_and]
  by_cases hj : j < l.length
  · rw [if_pos ⟨hj, by omega⟩, List.getElem?_append_left hj]
  · rw [if_neg (by omega), List.getElem?_append_right (by omega)]
    by_cases hjk : j < k
    · simp [Array.getElem?_replicate, List.getElem?_replicate, hjk, show j - l.length < k - l.length by omega]
    · simp [Array.getElem?_replicate, List.getElem?_replicate, hjk, show ¬ j - l.length < k - l.length by omega]

theorem goCopy0_toList (k : Nat) (src : Array Item) (s e : Nat) (hk : e - s ≤ k) (he : e ≤ src.size) :
    (goCopy (zeros k) 0 src s e).toList = (src.toList.drop s).take (e - s) ++ List.replicate (k - (e - s)) ({} : Item) := by
  unfold goCopy zeros
  have hlen : ((src.toList.drop s).take (e - s)).length = e - s := by
    simp; omega
  rw [writeAt0_toList _ _ _ (by rw [hlen]; exact hk), hlen]

theorem goCopy0_size (k : Nat) (src : Array Item) (s e : Nat) : (goCopy (zeros k) 0 src s e).size = k := by
  simp [goCopy, writeAt_size, zeros]

theorem splitTemp_toList (slots : Array Item) (sl idx : Nat) (item : Item) (hs : slots.size = sl) (hi : idx ≤ sl) :
    (splitTemp slots sl idx item).toList = slots.toList.take idx ++ item :: slots.toList.drop idx := by
  unfold splitTemp
  have h1 : (goCopy (zeros (sl + 1)) 0 slots 0 slots.size).toList = slots.toList ++ [({} : Item)] := by
    rw [goCopy0_toList _ _ _ _ (by omega) (Nat.le_refl _)]
    simp [hs, List.take_of_length_le]
  have h2 : (goCopy (zeros (sl + 1)) 0 slots 0 slots.size).size = sl + 1 := goCopy0_size _ _ _ _
  rw [insertShift_toList _ _ _ (by omega), h1, h2]
  have hlen : slots.toList.length = sl := by simp [hs]
  have e1 : (slots.toList ++ [({} : Item)]).take idx = slots.toList.take idx :=
    List.take_append_of_le_length (by omega)
  have e2 : (slots.toList ++ [({} : Item)]).drop idx = slots.toList.drop idx ++ [({} : Item)] :=
    List.drop_append_of_le_length (by omega)
  rw [e1, e2]
  have : slots.toList.take idx ++ item :: (slots.toList.drop idx ++ [({} : Item)]) =
      (slots.toList.take idx ++ item :: slots.toList.drop idx) ++ [({} : Item)] := by simp
  rw [this, List.take_append_of_le_length (by simp; omega), List.take_of_length_le (by simp; omega)]

theorem splitTemp_size (slots : Array Item) (sl idx : Nat) (item : Item) : (splitTemp slots sl idx item).size = sl + 1 := by
  unfold splitTemp
  rw [insertShift_size, goCopy0_size]

/-! Insert proofs for Model B, part 14: STAGE 3 — split of a root leaf: lookups, helper lemmas. -/

theorem good_split {lo hi : Option Int} {A B : List Item} {m : Item} (h : Good lo hi (A ++ m :: B)) :
    Good lo (some m.key) A ∧ (LeO lo m.key ∧ OLe m.key hi ∧ m.id ≠ 0) ∧ Good (some m.key) hi B := by
  obtain ⟨hs, hb⟩ := h
  have hp := List.pairwise_append.mp hs
  have hp2 := List.pairwise_cons.mp hp.2.1
  refine ⟨⟨hp.1, ?_⟩, hb m (by simp), ⟨hp2.2, ?_⟩⟩
  · intro x hx
    have := hb x (by simp [hx])
    exact ⟨this.1, fun b hb' => by cases hb'; exact hp.2.2 x hx m (by simp), this.2.2⟩
  · intro x hx
    have := hb x (by simp [hx])
    exact ⟨fun b hb' => by cases hb'; exact hp2.1 x hx, this.2.1, this.2.2⟩

/-- a leaf node with sorted, bounded, live items is a well-formed subtree -/
theorem leafNode_wf {t' : BTree} {c parent : NodeId} {lf : Node} (hc : c ≠ 0) (hg : t'.get? c = some lf)
    (hp : lf.parent = parent) (hs : NodeShape t' lf) (hcnt : 1 ≤ lf.count) (hch : lf.children = none)
    {lo hi : Option Int} (hgood : Good lo hi lf.items) (f : Nat) :
    WFNode t' (f + 1) c parent lo hi ∧ absNode t' (f + 1) c = lf.items ∧ reach t' (f + 1) c = [c] := by
  refine ⟨⟨hc, lf, hg, hp, hs, Or.inr hcnt, ?_⟩, ?_, ?_⟩
  · rw [hch]; exact good_itemsOk _ _ _ hgood
  · simp [absNode, hc, hg, hch]
  · rw [reach_succ hc hg]; simp [Node.kidArr, hch]

theorem rootSplit_get? (T : BTree) (n : NodeId) (item : Item) (idx : Nat) (x : NodeId)
    (h0 : n ≠ T.nextId) (h1 : n ≠ T.nextId + 1) :
    (rootSplit T n item idx).get? x =
      if x = n then (T.get? n).map (rootAfter T ((splitTemp (T.get n).slots T.sl idx item).getD (T.sl / 2) {}))
      else if x = T.nextId then some (rightHalf T n (splitTemp (T.get n).slots T.sl idx item))
      else if x = T.nextId + 1 then some (leftHalf T n (splitTemp (T.get n).slots T.sl idx item))
      else T.get? x := by
  unfold rootSplit
  rw [get?_upd _ n x (splitF2 T) (fun _ => rfl), get?_put, get?_put,
    get?_upd _ n x (splitF1 ((splitTemp (T.get n).slots T.sl idx item).getD (T.sl / 2) {})) (fun _ => rfl)]
  have hT : ∀ y, ({ T with nextId := T.nextId + 1 + 1 } : BTree).get? y = T.get? y := fun _ => rfl
  rw [hT]
  by_cases hxn : x = n
  · subst hxn
    have e0 : ¬ (rightHalf T x (splitTemp (T.get x).slots T.sl idx item)).id = x := fun e => h0 e.symm
    have e1 : ¬ (leftHalf T x (splitTemp (T.get x).slots T.sl idx item)).id = x := fun e => h1 e.symm
    rw [if_neg e0, if_neg e1, if_pos rfl]
    cases T.get? x with
    | none => rfl
    | some nd => simp [rootAfter, splitF1, splitF2]
  · rw [if_neg hxn]
    by_cases hx0 : x = T.nextId
    · have e0 : (rightHalf T n (splitTemp (T.get n).slots T.sl idx item)).id = x := hx0.symm
      rw [if_pos e0, if_pos hx0]; simp [hxn]
    · have e0 : ¬ (rightHalf T n (splitTemp (T.get n).slots T.sl idx item)).id = x := fun e => hx0 e.symm
      rw [if_neg e0, if_neg hx0]
      by_cases hx1 : x = T.nextId + 1
      · have e1 : (leftHalf T n (splitTemp (T.get n).slots T.sl idx item)).id = x := hx1.symm
        rw [if_pos e1, if_pos hx1]; simp [hxn]
      · have e1 : ¬ (leftHalf T n (splitTemp (T.get n).slots T.sl idx item)).id = x := fun e => hx1 e.symm
        rw [if_neg e1, if_neg hx1]
        cases T.get? x with
        | none => rfl
        | some nd => simp [hxn]


/-! ### the three nodes of a root-leaf split -/

theorem leftHalf_facts {T T' : BTree} (n : NodeId) {temp : Array Item} {X : List Item} (hX : temp.toList = X)
    (hXlen : X.length = T.sl + 1) (hsl : 2 ≤ T.sl ∧ T.sl % 2 = 0) (hsl' : T'.sl = T.sl) :
    NodeShape T' (leftHalf T n temp) ∧ (leftHalf T n temp).items = X.take (T.sl / 2) := by
  have hsz : temp.size = T.sl + 1 := by rw [← Array.length_toList, hX, hXlen]
  have hl : (leftHalf T n temp).slots.toList = X.take (T.sl / 2) ++ List.replicate (T.sl - T.sl / 2) ({} : Item) := by
    show (goCopy (zeros T.sl) 0 temp 0 (T.sl / 2)).toList = _
    rw [goCopy0_toList _ _ _ _ (by omega) (by omega), hX]; simp
  have hlen : (X.take (T.sl / 2)).length = T.sl / 2 := by simp; omega
  refine ⟨⟨?_, ?_, by simp [leftHalf], ?_, by simp [leftHalf]⟩, ?_⟩
  · show (goCopy (zeros T.sl) 0 temp 0 (T.sl / 2)).size = T'.sl
    rw [goCopy0_size, hsl']
  · show T.sl / 2 ≤ T'.sl; omega
  · intro x hx
    have hx' : x ∈ (leftHalf T n temp).slots.toList.drop (T.sl / 2) := hx
    rw [hl, List.drop_append_of_le_length (by omega), List.drop_of_length_le (by omega)] at hx'
    exact List.eq_of_mem_replicate (by simpa using hx')
  · show (leftHalf T n temp).slots.toList.take (T.sl / 2) = _
    rw [hl, List.take_append_of_le_length (by omega), List.take_of_length_le (by omega)]

theorem rightHalf_facts {T T' : BTree} (n : NodeId) {temp : Array Item} {X : List Item} (hX : temp.toList = X)
    (hXlen : X.length = T.sl + 1) (hsl : 2 ≤ T.sl ∧ T.sl % 2 = 0) (hsl' : T'.sl = T.sl) :
    NodeShape T' (rightHalf T n temp) ∧ (rightHalf T n temp).items = X.drop (T.sl / 2 + 1) := by
  have hsz : temp.size = T.sl + 1 := by rw [← Array.length_toList, hX, hXlen]
  have hlen : (X.drop (T.sl / 2 + 1)).length = T.sl / 2 := by simp; omega
  have hl : (rightHalf T n temp).slots.toList =
      X.drop (T.sl / 2 + 1) ++ List.replicate (T.sl - T.sl / 2) ({} : Item) := by
    show (goCopy (zeros T.sl) 0 temp (T.sl / 2 + 1) (T.sl / 2 + 1 + T.sl / 2)).toList = _
    rw [goCopy0_toList _ _ _ _ (by omega) (by omega), hX]
    have e : T.sl / 2 + 1 + T.sl / 2 - (T.sl / 2 + 1) = T.sl / 2 := by omega
    rw [e, List.take_of_length_le (by omega)]
  refine ⟨⟨?_, ?_, by simp [rightHalf], ?_, by simp [rightHalf]⟩, ?_⟩
  · show (goCopy (zeros T.sl) 0 temp _ _).size = T'.sl
    rw [goCopy0_size, hsl']
  · show T.sl / 2 ≤ T'.sl; omega
  · intro x hx
    have hx' : x ∈ (rightHalf T n temp).slots.toList.drop (T.sl / 2) := hx
    rw [hl, List.drop_append_of_le_length (by omega), List.drop_of_length_le (by omega)] at hx'
    exact List.eq_of_mem_replicate (by simpa using hx')
  · show (rightHalf T n temp).slots.toList.take (T.sl / 2) = _
    rw [hl, List.take_append_of_le_length (by omega), List.take_of_length_le (by omega)]

theorem rootAfter_facts {T T' : BTree} {nd : Node} (hs : NodeShape T nd) (mid : Item) (hsl : 2 ≤ T.sl)
    (hsl' : T'.sl = T.sl) :
    NodeShape T' (rootAfter T mid nd) ∧ (rootAfter T mid nd).items = [mid] ∧
      Node.kidArr (rootAfter T mid nd) = [T.nextId + 1, T.nextId] ∧ (rootAfter T mid nd).kids = [T.nextId + 1, T.nextId] := by
  obtain ⟨h1, h2, h3, h4, h5⟩ := hs
  have hz : (zeros nd.slots.size).toList = ({} : Item) :: List.replicate (T.sl - 1) {} := by
    rw [h1]
    have : T.sl = (T.sl - 1) + 1 := by omega
    conv => lhs; rw [this]
    simp [zeros, List.replicate_succ]
  have hk : (((zeroIds (T.sl + 1)).setIfInBounds 0 (T.nextId + 1)).setIfInBounds 1 T.nextId).toList =
      (T.nextId + 1) :: T.nextId :: List.replicate (T.sl - 1) 0 := by
    have : T.sl + 1 = (T.sl - 1) + 1 + 1 := by omega
    rw [this]
    simp [zeroIds, List.replicate_succ]
  have hkids : ((((zeroIds (T.sl + 1)).setIfInBounds 0 (T.nextId + 1)).setIfInBounds 1 T.nextId).toList).take (1 + 1) =
      [T.nextId + 1, T.nextId] := by rw [hk]; rfl
  refine ⟨⟨?_, ?_, by rw [hsl']; exact h3, ?_, ?_⟩, ?_, ?_, ?_⟩
  · show ((zeros nd.slots.size).setIfInBounds 0 mid).size = T'.sl
    simp [zeros, h1, hsl']
  · show 1 ≤ T'.sl; omega
  · intro x hx
    have hx' : x ∈ ((zeros nd.slots.size).setIfInBounds 0 mid).toList.drop 1 := hx
    rw [Array.toList_setIfInBounds, hz] at hx'
    simp only [List.set_cons_zero, List.drop_succ_cons, List.drop_zero] at hx'
    exact List.eq_of_mem_replicate hx'
  · intro cs hcs
    have : cs = (((zeroIds (T.sl + 1)).setIfInBounds 0 (T.nextId + 1)).setIfInBounds 1 T.nextId) := by
      have h : (rootAfter T mid nd).children = some _ := rfl
      rw [h] at hcs; exact (Option.some.inj hcs).symm
    subst this
    refine ⟨by simp [zeroIds, hsl'], ?_⟩
    intro c hc
    have hc' : c ∈ ((((zeroIds (T.sl + 1)).setIfInBounds 0 (T.nextId + 1)).setIfInBounds 1 T.nextId).toList).drop (1 + 1) := hc
    rw [hk] at hc'
    simp only [List.drop_succ_cons, List.drop_zero] at hc'
    exact List.eq_of_mem_replicate hc'
  · show ((zeros nd.slots.size).setIfInBounds 0 mid).toList.take 1 = [mid]
    rw [Array.toList_setIfInBounds, hz]; rfl
  · exact hkids
  · exact hkids

/-! Insert proofs for Model B, part 15: STAGE 3 — split of a root leaf: the local lemma. -/

theorem list_split_at {α} (X : List α) (k : Nat) (d : α) (h : k < X.length) :
    X = X.take k ++ X.getD k d :: X.drop (k + 1) := by
  rw [getD_of_lt _ _ _ h]
  conv => lhs; rw [← List.take_append_drop k X, List.drop_eq_getElem_cons h]

/-- STAGE 3, local: a full leaf `n` (all `sl` slots occupied, `sl` even) is split in place: `n` keeps the
    middle item and gets two fresh leaf children with the lower and upper halves -/
theorem localOk_rootSplit {T : BTree} {n : NodeId} {item : Item} {i : Nat}
    (hleaf : (T.get n).hasChildren = false) (hi : i = (getIndexToInsertTo T (T.get n) item.key).1)
    (hfull : ¬ (T.get n).count < T.sl) (hfresh : Fresh T) (hsl : 2 ≤ T.sl ∧ T.sl % 2 = 0) (hid : item.id ≠ 0) :
    LocalOk T (rootSplit T n item i) n item 1 [T.nextId, T.nextId + 1] := by
  have hc0none : T.get? T.nextId = none := fresh_get? hfresh (Nat.le_refl _)
  have hc1none : T.get? (T.nextId + 1) = none := fresh_get? hfresh (Nat.le_succ _)
  have hc0 : T.nextId ≠ 0 := by have := hfresh.1; omega
  obtain ⟨nd0, hg0⟩ : ∃ nd, T.get? n = some nd := by
    cases h : T.get? n with
    | some nd => exact ⟨nd, rfl⟩
    | none =>
      have : (T.get n).count = 0 := by simp [BTree.get, h]
      rw [this] at hfull
      exact absurd (by omega) hfull
  have hn0 : n ≠ T.nextId := by intro e; rw [e, hc0none] at hg0; cases hg0
  have hn1 : n ≠ T.nextId + 1 := by intro e; rw [e, hc1none] at hg0; cases hg0
  have hframe : ∀ x, x ≠ n → (T.get? x).isSome → (rootSplit T n item i).get? x = T.get? x := by
    intro x hxn hsome
    rw [rootSplit_get? T n item i x hn0 hn1, if_neg hxn]
    have hx0 : x ≠ T.nextId := by intro e; rw [e, hc0none] at hsome; simp at hsome
    have hx1 : x ≠ T.nextId + 1 := by intro e; rw [e, hc1none] at hsome; simp at hsome
    rw [if_neg hx0, if_neg hx1]
  refine ⟨rfl, hframe, ?_, ?_, ?_⟩
  · intro x hx
    simp only [List.mem_cons, List.not_mem_nil, or_false] at hx
    rcases hx with rfl | rfl
    · exact hc0none
    · exact hc1none
  · simp
  intro f p l h hW _ hl hh
  cases f with
  | zero => exact absurd hW (by simp [WFNode])
  | succ f =>
    obtain ⟨hn, nd, hg, hp, hs, hne, hbody⟩ := hW
    have hget := get_of_get? hg
    rw [hget] at hleaf hi hfull
    have hch : nd.children = none := by
      cases hc : nd.children with
      | none => rfl
      | some cs => simp [Node.hasChildren, hc] at hleaf
    rw [hch] at hbody
    simp only at hbody
    have hcnt : nd.count = T.sl := by have := hs.2.1; omega
    have hsz : nd.slots.size = T.sl := hs.1
    have hitemsS : nd.items = nd.slots.toList := by
      unfold Node.items; rw [List.take_of_length_le (by simp; omega)]
    have hgood := itemsOk_good _ _ _ hbody
    obtain ⟨hidx, htake, hdrop⟩ := insIdx_spec T nd item.key hs hgood.1
    rw [← hi] at hidx htake hdrop
    have hgoodX := good_insert i hgood htake hdrop hl hh hid
    rw [hitemsS] at hgoodX htake hdrop
    -- the scratch array
    have hX := splitTemp_toList nd.slots T.sl i item hsz (by omega)
    have hXsz := splitTemp_size nd.slots T.sl i item
    generalize hXdef : nd.slots.toList.take i ++ item :: nd.slots.toList.drop i = X at hX hgoodX
    have hXlen : X.length = T.sl + 1 := by rw [← hX]; simp [hXsz]
    have hsl0 := hsl
    obtain ⟨hsl2, hsle⟩ := hsl
    have hmid : (splitTemp nd.slots T.sl i item).getD (T.sl / 2) {} = X.getD (T.sl / 2) {} := by
      rw [← hX]; simp [Array.getD_eq_getD_getElem?, List.getD_eq_getElem?_getD]
    have hXsplit := list_split_at X (T.sl / 2) ({} : Item) (by omega)
    have hgoodX' := hgoodX
    rw [hXsplit] at hgoodX'
    obtain ⟨hgL, ⟨hm1, hm2, hm3⟩, hgR⟩ := good_split hgoodX'
    -- lookups
    have hgetn : (rootSplit T n item i).get? n =
        some (rootAfter T (X.getD (T.sl / 2) {}) nd) := by
      rw [rootSplit_get? T n item i n hn0 hn1, if_pos rfl, hg, hget, hmid]; rfl
    have h01 : T.nextId + 1 ≠ T.nextId := by omega
    have hget0 : (rootSplit T n item i).get? T.nextId = some (rightHalf T n (splitTemp nd.slots T.sl i item)) := by
      rw [rootSplit_get? T n item i _ hn0 hn1, if_neg (Ne.symm hn0), if_pos rfl, hget]
    have hget1 : (rootSplit T n item i).get? (T.nextId + 1) = some (leftHalf T n (splitTemp nd.slots T.sl i item)) := by
      rw [rootSplit_get? T n item i _ hn0 hn1, if_neg (Ne.symm hn1), if_neg h01, if_pos rfl, hget]
    have hslT : (rootSplit T n item i).sl = T.sl := rfl
    obtain ⟨hLs, hLi⟩ := leftHalf_facts (T := T) (T' := rootSplit T n item i) n hX hXlen hsl0 hslT
    obtain ⟨hRs, hRi⟩ := rightHalf_facts (T := T) (T' := rootSplit T n item i) n hX hXlen hsl0 hslT
    obtain ⟨hNs, hNi, hNk, hNkids⟩ := rootAfter_facts (T := T) (T' := rootSplit T n item i) hs (X.getD (T.sl / 2) {}) hsl2 hslT
    have hLw := fun (lo hi : Option Int) (g : Good lo hi (X.take (T.sl / 2))) =>
      leafNode_wf (t' := rootSplit T n item i) (c := T.nextId + 1) (parent := n) (Nat.succ_ne_zero _) hget1 rfl hLs
        (by show 1 ≤ T.sl / 2; omega) rfl (lo := lo) (hi := hi) (by rw [hLi]; exact g) f
    have hRw := fun (lo hi : Option Int) (g : Good lo hi (X.drop (T.sl / 2 + 1))) =>
      leafNode_wf (t' := rootSplit T n item i) (c := T.nextId) (parent := n) hc0 hget0 rfl hRs
        (by show 1 ≤ T.sl / 2; omega) rfl (lo := lo) (hi := hi) (by rw [hRi]; exact g) f
    have hL := hLw _ _ hgL
    have hR := hRw _ _ hgR
    rw [hLi] at hL
    rw [hRi] at hR
    have hchN : (rootAfter T (X.getD (T.sl / 2) {}) nd).children =
        some (((zeroIds (T.sl + 1)).setIfInBounds 0 (T.nextId + 1)).setIfInBounds 1 T.nextId) := rfl
    have hkk : (((zeroIds (T.sl + 1)).setIfInBounds 0 (T.nextId + 1)).setIfInBounds 1 T.nextId).toList.take
        ((rootAfter T (X.getD (T.sl / 2) {}) nd).count + 1) = [T.nextId + 1, T.nextId] := by
      exact hNk
    refine ⟨⟨hn, _, hgetn, hp, hNs, Or.inr (Nat.le_refl 1), ?_⟩, ?_, ?_⟩
    · rw [hchN]
      simp only
      rw [hkk, hNi]
      exact ⟨Or.inr hL.1, hm1, hm2, hm3, Or.inr hR.1, rfl⟩
    · rw [reach_succ hn hgetn, reach_succ hn hg, hNk]
      have : Node.kidArr nd = [] := by simp [Node.kidArr, hch]
      rw [this]
      simp only [List.flatMap_cons, List.flatMap_nil, List.append_nil, hL.2.2, hR.2.2, List.cons_append,
        List.nil_append]
      exact List.Perm.cons _ (List.Perm.swap _ _ _)
    · refine ⟨nd.slots.toList.take i, nd.slots.toList.drop i, ?_, ?_, htake, hdrop⟩
      · simp [absNode, hn, hg, hch, hitemsS]
      · have hA' : absNode (rootSplit T n item i) (f + 1 + 1) n =
            weave (absNode (rootSplit T n item i) (f + 1)) [T.nextId + 1, T.nextId] [X.getD (T.sl / 2) {}] := by
          rw [absNode]
          simp only [hn, if_false, hgetn, hchN]
          rw [hkk, hNi]
        rw [hA']
        simp only [weave]
        rw [hL.2.1, hR.2.1, List.append_nil, hXdef]
        exact hXsplit.symm

/-! Insert proofs for Model B, part 16: STAGE 3 theorem. -/

theorem fresh_put {t : BTree} (h : Fresh t) {nd : Node} (hid : nd.id < t.nextId) : Fresh (t.put nd) := by
  refine ⟨h.1, ?_⟩
  intro x hx
  rcases mem_putNode _ hx with e | hx
  · rw [e]; exact hid
  · exact h.2 x hx

theorem put_length_fresh (t : BTree) (nd : Node) (h : t.get? nd.id = none) :
    (t.put nd).nodes.length = t.nodes.length + 1 := by
  unfold BTree.get? at h
  exact putNode_length_fresh nd t.nodes h

theorem rootSplit_length {T : BTree} (hfresh : Fresh T) (n : NodeId) (item : Item) (i : Nat) :
    (rootSplit T n item i).nodes.length = T.nodes.length + 2 := by
  have hc0none : T.get? T.nextId = none := fresh_get? hfresh (Nat.le_refl _)
  have hc1none : T.get? (T.nextId + 1) = none := fresh_get? hfresh (Nat.le_succ _)
  unfold rootSplit
  rw [upd_nodes_length, put_length_fresh, put_length_fresh, upd_nodes_length]
  · show (({ T with nextId := T.nextId + 1 + 1 } : BTree).upd n _).get? (T.nextId + 1) = none
    rw [get?_upd _ n _ (splitF1 _) (fun _ => rfl)]
    show Option.map _ (T.get? (T.nextId + 1)) = none
    rw [hc1none]; rfl
  · rw [get?_put]
    show (if T.nextId + 1 = T.nextId then _ else _) = none
    rw [if_neg (by omega), get?_upd _ n _ (splitF1 _) (fun _ => rfl)]
    show Option.map _ (T.get? T.nextId) = none
    rw [hc0none]; rfl

theorem rootSplit_fresh {T : BTree} (hfresh : Fresh T) (n : NodeId) (item : Item) (i : Nat) :
    Fresh (rootSplit T n item i) := by
  unfold rootSplit
  have h1 : Fresh ({ T with nextId := T.nextId + 1 + 1 } : BTree) :=
    ⟨Nat.succ_pos _, fun x hx => Nat.lt_succ_of_lt (Nat.lt_succ_of_lt (hfresh.2 x hx))⟩
  refine fresh_upd ?_ n (splitF2 T) (fun _ => rfl)
  refine fresh_put (fresh_put (fresh_upd h1 n (splitF1 _) (fun _ => rfl)) ?_) ?_
  · show T.nextId + 1 < T.nextId + 1 + 1; omega
  · show T.nextId < T.nextId + 1 + 1; omega

/-- STAGE 3: `Add` whose descent ends in a full ROOT leaf: the leaf is split in place (`addOnLeaf`'s
    `isRoot` branch): the root keeps the middle item and gets two fresh leaf children -/
theorem addU_root_split (t : BTree) (uniq : Bool) (key : Int) (val : Nat) (n : NodeId) (i : Nat)
    (hwf : WF t) (hok : t.panicked = false) (hidle : Idle t) (hfresh : Fresh t)
    (htgt : addTargetOf t uniq key = .leaf n i) (hfull : ¬ ((addStart t uniq).1.get n).count < t.sl)
    (hisroot : ((addStart t uniq).1.get n).isRoot = true) :
    AddOk t key val (t.addU uniq key val) := by
  have so := addStart_ok t uniq hwf
  rw [addU_eq, htgt]
  unfold addTargetOf at htgt
  obtain ⟨T, hTdef⟩ : ∃ T, T = (addStart t uniq).1 := ⟨_, rfl⟩
  have hsl : T.sl = t.sl := by rw [hTdef]; exact so.sl
  have hroot : T.root ≠ 0 := by rw [hTdef]; exact so.root
  have hT : WF T := by rw [hTdef]; exact so.wf
  have hf : Fresh T := by rw [hTdef]; exact so.fresh hfresh
  have hfull' : ¬ (T.get n).count < T.sl := by rw [hsl, hTdef]; exact hfull
  have hisroot' : (T.get n).isRoot = true := by rw [hTdef]; exact hisroot
  rw [so.rootEq, ← hTdef] at htgt
  rw [← hTdef]
  simp only [Target.apply]
  rw [addOnLeaf_rootSplit hfull' hisroot']
  obtain ⟨hleaf, hi⟩ := target_leaf key _ _ _ htgt
  have hid : (⟨t.nextId, key, val⟩ : Item).id ≠ 0 := by have := hfresh.1; show t.nextId ≠ 0; omega
  have hloc := localOk_rootSplit (T := T) (n := n) (item := ⟨t.nextId, key, val⟩) hleaf hi hfull' hf hT.1 hid
  have hd1 : (rootSplit T n ⟨t.nextId, key, val⟩ i).distSrc = 0 := by
    show T.distSrc = 0; rw [hTdef, so.idle.1]; exact hidle.1
  have hd2 : (rootSplit T n ⟨t.nextId, key, val⟩ i).promTarget = 0 := by
    show T.promTarget = 0; rw [hTdef, so.idle.2]; exact hidle.2
  rw [addFinish_idle _ hd1 hd2]
  have hasm := assemble (T := T) (T' := rootSplit T n ⟨t.nextId, key, val⟩ i) (n := n)
    (({ t with nextId := t.nextId + 1 } : BTree).getRootNode.1.unique) hT hroot hloc rfl
    (by rw [rootSplit_length hf]; rfl) (by show 1 ≤ 2; omega)
    rfl (by rw [htgt]; rfl) (by rw [htgt]; rfl)
  obtain ⟨hWF, L, R, hA, hA', hLb, hRb⟩ := hasm
  have hTabs : T.abs = t.abs := by rw [hTdef]; exact so.abs
  rw [hTabs] at hA
  refine ⟨rfl, hWF, ?_, ⟨hd1, hd2⟩, ?_, ?_, ⟨L, R, hA, hA', hLb, hRb⟩, ⟨hsl, so.saved, ?_, ?_, ?_, ?_⟩, ?_, ?_, ?_⟩
  · show T.panicked = false; rw [hTdef, so.ok]; exact hok
  · exact rootSplit_fresh hf n _ i
  · show T.count + 1 = t.count + 1; rw [hTdef, so.count]
  · show T.lb = t.lb; rw [hTdef]; exact so.lb
  · show T.fixFast = t.fixFast; rw [hTdef]; exact so.fix.1
  · show T.fixErr = t.fixErr; rw [hTdef]; exact so.fix.2.1
  · show T.fixId = t.fixId; rw [hTdef]; exact so.fix.2.2
  · show t.nextId < T.nextId + 1 + 1; have : t.nextId < T.nextId := by rw [hTdef]; exact so.nextId
    omega
  · show T.cur = t.cur; rw [hTdef]; exact so.cur
  · intro x hx
    have h1 : (T.get? x).isSome := by rw [hTdef]; exact so.keep x hx
    show ((rootSplit T n ⟨t.nextId, key, val⟩ i).get? x).isSome
    unfold rootSplit
    exact keep_upd _ n (splitF2 T) (fun _ => rfl) x
      (keep_put _ _ x (keep_put _ _ x (keep_upd _ n (splitF1 _) (fun _ => rfl) x h1)))

/-- non-vacuity of `addU_root_split`: slot length 2, the root leaf holds 2 items; `Add 0` splits it -/
def exFull : BTree := (BTree.new 2 false false true).run [.add 1 1, .add 2 2]

theorem exFull_hyps : WF exFull ∧ exFull.panicked = false ∧ Idle exFull ∧ Fresh exFull ∧
    addTargetOf exFull false 0 = .leaf 2 0 ∧ ¬ ((addStart exFull false).1.get 2).count < exFull.sl ∧
    ((addStart exFull false).1.get 2).isRoot = true := by
  refine ⟨checkWF_sound _ (by decide +kernel), by decide +kernel, ⟨by decide +kernel, by decide +kernel⟩,
    ⟨by decide +kernel, by decide +kernel⟩, by decide +kernel, by decide +kernel, by decide +kernel⟩

end Sop.BTree.Ins
