import Sop.Lemmas.BTreeInsert3
/-! # C17 update side, `Btree.Add`, STAGE 4 — split of a full NON-ROOT leaf whose parent has room (leaf load
balancing off): `addOnLeaf` keeps the lower half in the leaf, creates the right sibling, and one `promote` step
inserts the middle item and the sibling into the parent.  Main theorem: `addU_leaf_split_room`. -/
namespace Sop.BTree.Ins
open Sop.BTree
set_option linter.unusedVariables false
set_option linter.unusedSimpArgs false

/-! Insert proofs for Model B, part 17: STAGE 4 — list lemmas for inserting a separator and a new right
sibling into an inner node. -/

theorem OLe_some_of_le {a b : Int} (h : a ≤ b) : OLe a (some b) := fun _ hb => by cases hb; exact h
theorem LeO_some_of_le {a b : Int} (h : a ≤ b) : LeO (some a) b := fun _ hb => by cases hb; exact h

/-- the child at the key's position was split into itself and a new right sibling `r` with separator
    `sep`: the parent's lists with `sep`/`r` inserted are `KidsOk` again -/
theorem KidsOk.insertAt {P Q : NodeId → Option Int → Option Int → Prop} (key : Int) (r : NodeId) (sep : Item) :
    ∀ (idx : Nat) (cs : List NodeId) (is : List Item) (lo hi : Option Int),
      cs.length = is.length + 1 → idx ≤ is.length → KidsOk P lo hi cs is →
      (∀ x ∈ is.take idx, x.key < key) → (∀ x ∈ is.drop idx, key ≤ x.key) → LeO lo key → OLe key hi →
      (∀ l h, P (cs.getD idx 0) l h → LeO l key → OLe key h →
        Q (cs.getD idx 0) l (some sep.key) ∧ Q r (some sep.key) h ∧ LeO l sep.key ∧ OLe sep.key h ∧ sep.id ≠ 0) →
      cs.getD idx 0 ≠ 0 →
      (∀ j, j < cs.length → j ≠ idx → ∀ l h, P (cs.getD j 0) l h → Q (cs.getD j 0) l h) →
      KidsOk Q lo hi (cs.take (idx + 1) ++ r :: cs.drop (idx + 1)) (is.take idx ++ sep :: is.drop idx)
  | 0, [], _, _, _, hl, _, _, _, _, _, _, _, _, _ => by simp at hl
  | _ + 1, [], _, _, _, hl, _, _, _, _, _, _, _, _, _ => by simp at hl
  | 0, c :: cs, [], lo, hi, hl, _, h, _, _, hlo, hhi, hidx, hc0, _ => by
    have hcs : cs = [] := h.2
    subst hcs
    have hp : P c lo hi := by
      rcases h.1 with h0 | hp
      · exact absurd h0 (by simpa using hc0)
      · exact hp
    have := hidx lo hi (by simpa using hp) hlo hhi
    simp only [List.getD_cons_zero] at this
    obtain ⟨q1, q2, q3, q4, q5⟩ := this
    exact ⟨Or.inr q1, q3, q4, q5, Or.inr q2, rfl⟩
  | 0, c :: cs, x :: is, lo, hi, hl, _, h, _, hdrop, hlo, hhi, hidx, hc0, hoth => by
    have hp : P c lo (some x.key) := by
      rcases h.1 with h0 | hp
      · exact absurd h0 (by simpa using hc0)
      · exact hp
    have hkx : key ≤ x.key := hdrop x (by simp)
    have := hidx lo (some x.key) (by simpa using hp) hlo (OLe_some_of_le hkx)
    simp only [List.getD_cons_zero] at this
    obtain ⟨q1, q2, q3, q4, q5⟩ := this
    have hsx : sep.key ≤ x.key := q4 _ rfl
    show KidsOk Q lo hi (c :: r :: cs) (sep :: x :: is)
    refine ⟨Or.inr q1, q3, OLe.trans' hsx h.2.2.1, q5, Or.inr q2, LeO_some_of_le hsx, h.2.2.1, h.2.2.2.1, ?_⟩
    refine KidsOk.imp_idx cs is _ _ (fun j hj l h' => ?_) h.2.2.2.2
    have := hoth (j + 1) (by simpa using hj) (by omega) l h'
    simpa using this
  | idx + 1, c :: cs, [], _, _, _, hi', _, _, _, _, _, _, _, _ => by simp at hi'
  | idx + 1, c :: cs, x :: is, lo, hi, hl, hi', h, htake, hdrop, hlo, hhi, hidx, hc0, hoth => by
    have hx : x.key < key := htake x (by simp)
    show KidsOk Q lo hi (c :: (cs.take (idx + 1) ++ r :: cs.drop (idx + 1))) (x :: (is.take idx ++ sep :: is.drop idx))
    refine ⟨h.1.imp id (fun hp => ?_), h.2.1, h.2.2.1, h.2.2.2.1, ?_⟩
    · have := hoth 0 (by simp) (by omega) lo (some x.key)
      simpa using this hp
    · refine KidsOk.insertAt key r sep idx cs is (some x.key) hi (by simpa using hl) (by simpa using hi') h.2.2.2.2
        (fun y hy => htake y (by simp [hy])) (fun y hy => hdrop y (by simpa using hy))
        (fun b hb => by cases hb; omega) hhi ?_ (by simpa using hc0) ?_
      · intro l h' hp h1 h2
        have := hidx l h'
        simp only [List.getD_cons_succ] at this
        exact this hp h1 h2
      · intro j hj hne l h' hp
        have := hoth (j + 1) (by simpa using hj) (by omega) l h'
        simp only [List.getD_cons_succ] at this
        exact this hp

theorem weave_cons_eq (g : NodeId → List Item) (r : NodeId) (cs : List NodeId) (is : List Item)
    (hl : cs.length = is.length) : weave g (r :: cs) is = g r ++ weaveTail g cs is := by
  cases is with
  | nil =>
    have : cs = [] := List.eq_nil_of_length_eq_zero (by simpa using hl)
    subst this; simp [weave, weaveTail]
  | cons x is => simp [weave, weaveTail]

/-- the in-order contents after the insertion of `sep`/`r` behind child `idx` -/
theorem weave_insert (g : NodeId → List Item) (r : NodeId) (sep : Item) : ∀ (idx : Nat) (cs : List NodeId) (is : List Item),
    cs.length = is.length + 1 → idx ≤ is.length →
    weave g (cs.take (idx + 1) ++ r :: cs.drop (idx + 1)) (is.take idx ++ sep :: is.drop idx) =
      weave g (cs.take idx) (is.take idx) ++ g (cs.getD idx 0) ++ sep :: (g r ++ weaveTail g (cs.drop (idx + 1)) (is.drop idx))
  | _, [], _, hl, _ => by simp at hl
  | 0, c :: cs, is, hl, _ => by
    show weave g (c :: r :: cs) (sep :: is) = _
    simp only [weave, List.take_zero, List.nil_append, List.getD_cons_zero, List.drop_succ_cons, List.drop_zero]
    rw [weave_cons_eq g r cs is (by simpa using hl)]
  | idx + 1, c :: cs, [], _, hi => by simp at hi
  | idx + 1, c :: cs, x :: is, hl, hi => by
    show weave g (c :: (cs.take (idx + 1) ++ r :: cs.drop (idx + 1))) (x :: (is.take idx ++ sep :: is.drop idx)) = _
    simp only [weave, List.take_succ_cons, List.getD_cons_succ, List.drop_succ_cons, List.append_assoc, List.cons_append]
    rw [weave_insert g r sep idx cs is (by simpa using hl) (by simpa using hi)]
    simp [List.append_assoc]

/-- the node set after the insertion of `r` behind child `idx` -/
theorem flatMap_insert_perm {g g' : NodeId → List NodeId} {N : List NodeId} (r : NodeId) :
    ∀ (idx : Nat) (cs : List NodeId), idx < cs.length →
    (g' (cs.getD idx 0) ++ g' r).Perm (g (cs.getD idx 0) ++ N) →
    (∀ j, j < cs.length → j ≠ idx → g' (cs.getD j 0) = g (cs.getD j 0)) →
    ((cs.take (idx + 1) ++ r :: cs.drop (idx + 1)).flatMap g').Perm (cs.flatMap g ++ N)
  | _, [], hi, _, _ => by simp at hi
  | 0, c :: cs, _, hp, h => by
    show ((c :: r :: cs).flatMap g').Perm _
    simp only [List.flatMap_cons, List.getD_cons_zero] at hp ⊢
    have htail : cs.flatMap g' = cs.flatMap g := flatMap_pointwise cs cs rfl (fun j hj => by
      have := h (j + 1) (by simpa using hj) (by omega)
      simpa using this)
    rw [htail, ← List.append_assoc]
    refine (List.Perm.append_right _ hp).trans ?_
    rw [List.append_assoc, List.append_assoc]
    exact List.Perm.append_left _ List.perm_append_comm
  | idx + 1, c :: cs, hi, hp, h => by
    show ((c :: (cs.take (idx + 1) ++ r :: cs.drop (idx + 1))).flatMap g').Perm _
    simp only [List.flatMap_cons]
    have h0 := h 0 (by simp) (by omega)
    simp only [List.getD_cons_zero] at h0
    rw [h0, List.append_assoc]
    apply List.Perm.append_left
    exact flatMap_insert_perm r idx cs (by simpa using hi) (by simpa using hp)
      (fun j hj hne => by
        have := h (j + 1) (by simpa using hj) (by omega)
        simpa using this)

/-! Insert proofs for Model B, part 18: STAGE 4 — from the shape of the result (leaf split, separator and
new right sibling inserted into the parent) to local correctness at the parent. -/

/-- STAGE 4, pure part.  `n` is the full leaf child `idx` of `g` the key belongs to; in `T'` the leaf `n`
    holds the lower half `X.take (sl/2)` of `X` (= its items with the new item inserted), the fresh leaf
    `r` the upper half, and `g` received the middle item as separator at `idx` and `r` behind `n`;
    nothing else changed.  Then the action is locally correct at `g`. -/
theorem localOkG_split4 {T T' : BTree} {g n r : NodeId} {item : Item} {gnd gnd' nd nL nR : Node}
    {X : List Item} {idx i : Nat} {cs' : Array NodeId}
    (hsl : T'.sl = T.sl) (hsl2 : 2 ≤ T.sl ∧ T.sl % 2 = 0)
    (hgg : T.get? g = some gnd) (hgn : T.get? n = some nd) (hrn : T.get? r = none) (hr0 : r ≠ 0)
    (hother : ∀ x, x ≠ g → x ≠ n → x ≠ r → T'.get? x = T.get? x)
    (hgg' : T'.get? g = some gnd') (hgn' : T'.get? n = some nL) (hgr' : T'.get? r = some nR)
    (hgch : gnd.hasChildren = true) (hidx : idx = (getIndexToInsertTo T gnd item.key).1)
    (hchild : gnd.child idx = n) (hn0 : n ≠ 0)
    (hleaf : nd.hasChildren = false) (hfull : nd.count = T.sl) (hi : i = (getIndexToInsertTo T nd item.key).1)
    (hX : X = nd.items.take i ++ item :: nd.items.drop i)
    (hL : NodeShape T' nL ∧ nL.parent = g ∧ nL.children = none ∧ nL.count = T.sl / 2 ∧ nL.items = X.take (T.sl / 2))
    (hR : NodeShape T' nR ∧ nR.parent = g ∧ nR.children = none ∧ nR.count = T.sl / 2 ∧ nR.items = X.drop (T.sl / 2 + 1))
    (hG : NodeShape T' gnd' ∧ gnd'.parent = gnd.parent ∧ gnd'.count = gnd.count + 1 ∧
      gnd'.items = gnd.items.take idx ++ X.getD (T.sl / 2) {} :: gnd.items.drop idx ∧
      gnd'.children = some cs' ∧
      cs'.toList.take (gnd'.count + 1) = gnd.kids.take (idx + 1) ++ r :: gnd.kids.drop (idx + 1))
    (hid : item.id ≠ 0) :
    LocalOkG T T' g item 0 [r] := by
  have hgetg := get_of_get? hgg
  have hgr : g ≠ r := by intro e; rw [e, hrn] at hgg; cases hgg
  have hnr : n ≠ r := by intro e; rw [e, hrn] at hgn; cases hgn
  obtain ⟨hLs, hLp, hLc, hLcnt, hLi⟩ := hL
  obtain ⟨hRs, hRp, hRc, hRcnt, hRi⟩ := hR
  obtain ⟨hGs, hGp, hGcnt, hGi, hGc, hGk⟩ := hG
  -- facts available from any `WFNode` of `g`
  have hkidn : ∀ f p l h, WFNode T (f + 1) g p l h → ∃ l2 h2, WFNode T f n g l2 h2 := by
    intro f p l h hW
    have hW' := hW
    obtain ⟨_, nd0, hg0, _, hs0, _, hb0⟩ := hW
    rw [hgg] at hg0; cases hg0
    obtain ⟨cs, hcs⟩ : ∃ cs, gnd.children = some cs := by
      cases hh : gnd.children with
      | none => simp [Node.hasChildren, hh] at hgch
      | some cs => exact ⟨cs, rfl⟩
    rw [hcs] at hb0
    simp only at hb0
    have hkids : gnd.kids = cs.toList.take (gnd.count + 1) := by simp [Node.kids, hcs]
    rw [← hkids] at hb0
    have hsorted : Sorted gnd.items :=
      (itemsOk_good _ _ _ (KidsOk.itemsOk _ _ _ _ (by rw [Node.kids_length hs0, Node.items_length hs0]) hb0)).1
    obtain ⟨hidx', _, _⟩ := insIdx_spec T gnd item.key hs0 hsorted
    rw [← hidx] at hidx'
    rcases WFNode.kid hW' hgg hidx' with h0 | ⟨l2, h2, hw⟩
    · rw [hchild] at h0; exact absurd h0 hn0
    · rw [hchild] at hw; exact ⟨l2, h2, hw⟩
  refine ⟨hsl, ?_, ?_, by simp, ?_⟩
  · intro f p l h hW _ _ _ _ x hs hx
    cases f with
    | zero => exact absurd hW (by simp [WFNode])
    | succ f =>
      obtain ⟨l2, h2, hwn⟩ := hkidn f p l h hW
      have hself := self_mem_reach hW
      obtain ⟨hg0, nd0, hg1, _, hs0, _, _⟩ := hW
      rw [hgg] at hg1; cases hg1
      apply hother x
      · intro e; exact hx (e ▸ hself)
      · intro e
        apply hx
        rw [e, reach_succ hg0 hgg]
        refine List.mem_cons_of_mem _ (List.mem_flatMap.mpr ⟨n, ?_, self_mem_reach hwn⟩)
        have hidx' : idx ≤ gnd.count := by
          by_cases hle : idx ≤ gnd.count
          · exact hle
          · exfalso
            have : gnd.child idx = 0 := by
              unfold Node.child
              cases hc : gnd.children with
              | none => rfl
              | some cs =>
                have hz := (hs0.2.2.2.2 cs hc)
                simp only [Option.getD_some]
                by_cases hlt : idx < cs.size
                · apply hz.2
                  rw [List.mem_drop_iff_getElem]
                  exact ⟨idx - (gnd.count + 1), by simp; omega, by
                    simp [Array.getD, hlt, show gnd.count + 1 + (idx - (gnd.count + 1)) = idx by omega]⟩
                · simp [Array.getD, hlt]
            rw [hchild] at this; exact hn0 this
        have hka : Node.kidArr gnd = gnd.kids := by
          unfold Node.kidArr Node.kids
          cases hc : gnd.children with
          | none => simp [Node.hasChildren, hc] at hgch
          | some cs => rfl
        rw [hka, ← hchild, ← Node.kids_getD hs0 hidx', getD_of_lt _ _ _ (by rw [Node.kids_length hs0]; omega)]
        exact List.getElem_mem _
      · intro e; rw [e, hrn] at hs; simp at hs
  · intro x hx
    have : x = r := by simpa using hx
    rw [this]; exact hrn
  intro f p l h hW _ hnd hl hh
  cases f with
  | zero => exact absurd hW (by simp [WFNode])
  | succ f =>
    obtain ⟨l0, h0, hwn0⟩ := hkidn f p l h hW
    obtain ⟨hg0, nd0, hg1, hp, hs, hne, hbody⟩ := hW
    rw [hgg] at hg1; cases hg1
    cases f with
    | zero => exact absurd hwn0 (by simp [WFNode])
    | succ f =>
    obtain ⟨cs, hcs⟩ : ∃ cs, gnd.children = some cs := by
      cases hh : gnd.children with
      | none => simp [Node.hasChildren, hh] at hgch
      | some cs => exact ⟨cs, rfl⟩
    rw [hcs] at hbody
    simp only at hbody
    have hkids : gnd.kids = cs.toList.take (gnd.count + 1) := by simp [Node.kids, hcs]
    have hka : Node.kidArr gnd = gnd.kids := by simp [Node.kidArr, hcs, hkids]
    rw [← hkids] at hbody
    have hklen := Node.kids_length hs
    have hilen := Node.items_length hs
    have hsorted : Sorted gnd.items := (itemsOk_good _ _ _ (KidsOk.itemsOk _ _ _ _ (by omega) hbody)).1
    obtain ⟨hidx', htake, hdrop⟩ := insIdx_spec T gnd item.key hs hsorted
    rw [← hidx] at hidx' htake hdrop
    have hcI : gnd.kids.getD idx 0 = n := by rw [Node.kids_getD hs hidx']; exact hchild
    have hIlt : idx < gnd.kids.length := by omega
    have hr := reach_succ (f := f + 1) hg0 hgg
    rw [hr, hka] at hnd
    have hnd' := List.nodup_cons.mp hnd
    have hnmem : n ∈ gnd.kids := by rw [← hcI, getD_of_lt _ _ _ hIlt]; exact List.getElem_mem hIlt
    -- the leaf in `T`
    have hleafT : ∀ l2 h2, WFNode T (f + 1) n g l2 h2 →
        ItemsOk l2 h2 nd.items ∧ absNode T (f + 1) n = nd.items ∧ reach T (f + 1) n = [n] ∧ NodeShape T nd := by
      intro l2 h2 hw
      obtain ⟨_, nd1, hg2, _, hs1, _, hb1⟩ := hw
      rw [hgn] at hg2; cases hg2
      have hch : nd.children = none := by
        cases hc : nd.children with
        | none => rfl
        | some cs => simp [Node.hasChildren, hc] at hleaf
      rw [hch] at hb1
      refine ⟨hb1, by simp [absNode, hn0, hgn, hch], ?_, hs1⟩
      rw [reach_succ hn0 hgn]; simp [Node.kidArr, hch]
    have hhalf : T.sl = 2 * (T.sl / 2) := by omega
    -- the two halves in `T'`
    have hsplit : ∀ l2 h2, WFNode T (f + 1) n g l2 h2 → LeO l2 item.key → OLe item.key h2 →
        (WFNode T' (f + 1) n g l2 (some (X.getD (T.sl / 2) {}).key) ∧ WFNode T' (f + 1) r g (some (X.getD (T.sl / 2) {}).key) h2 ∧
          LeO l2 (X.getD (T.sl / 2) {}).key ∧ OLe (X.getD (T.sl / 2) {}).key h2 ∧ (X.getD (T.sl / 2) {}).id ≠ 0) ∧
        absNode T' (f + 1) n = X.take (T.sl / 2) ∧ absNode T' (f + 1) r = X.drop (T.sl / 2 + 1) ∧
        reach T' (f + 1) n = [n] ∧ reach T' (f + 1) r = [r] ∧
        (∀ x ∈ nd.items.take i, x.key < item.key) ∧ (∀ x ∈ nd.items.drop i, item.key ≤ x.key) ∧
        X.length = T.sl + 1 := by
      intro l2 h2 hw hl2 hh2
      obtain ⟨hio, _, _, hsn⟩ := hleafT l2 h2 hw
      have hgood := itemsOk_good _ _ _ hio
      obtain ⟨hidxn, htn, hdn⟩ := insIdx_spec T nd item.key hsn hgood.1
      rw [← hi] at hidxn htn hdn
      have hgoodX := good_insert i hgood htn hdn hl2 hh2 hid
      rw [← hX] at hgoodX
      have hXlen : X.length = T.sl + 1 := by
        rw [hX]; simp [Node.items_length hsn]; omega
      have hXsplit := list_split_at X (T.sl / 2) ({} : Item) (by omega)
      have hgoodX' := hgoodX
      rw [hXsplit] at hgoodX'
      obtain ⟨hgL, ⟨hm1, hm2, hm3⟩, hgR⟩ := good_split hgoodX'
      have hLw := leafNode_wf (t' := T') (c := n) (parent := g) hn0 hgn' hLp hLs (by rw [hLcnt]; omega) hLc
        (lo := l2) (hi := some (X.getD (T.sl / 2) {}).key) (by rw [hLi]; exact hgL) f
      have hRw := leafNode_wf (t' := T') (c := r) (parent := g) hr0 hgr' hRp hRs (by rw [hRcnt]; omega) hRc
        (lo := some (X.getD (T.sl / 2) {}).key) (hi := h2) (by rw [hRi]; exact hgR) f
      exact ⟨⟨hLw.1, hRw.1, hm1, hm2, hm3⟩, by rw [hLw.2.1, hLi], by rw [hRw.2.1, hRi], hLw.2.2, hRw.2.2, htn, hdn, hXlen⟩
    -- siblings are untouched
    have hsib : ∀ j, j < gnd.kids.length → j ≠ idx → ∀ l2 h2, WFNode T (f + 1) (gnd.kids.getD j 0) g l2 h2 →
        WFNode T' (f + 1) (gnd.kids.getD j 0) g l2 h2 ∧
        absNode T' (f + 1) (gnd.kids.getD j 0) = absNode T (f + 1) (gnd.kids.getD j 0) ∧
        reach T' (f + 1) (gnd.kids.getD j 0) = reach T (f + 1) (gnd.kids.getD j 0) := by
      intro j hj hji l2 h2 hw
      refine frame hsl (f + 1) _ g l2 h2 ?_ hw
      intro x hx
      have hxs := mem_reach_isSome T _ _ x hx
      have hjm : gnd.kids.getD j 0 ∈ gnd.kids := by rw [getD_of_lt _ _ _ hj]; exact List.getElem_mem hj
      apply hother x
      · intro e; exact hnd'.1 (e ▸ List.mem_flatMap.mpr ⟨_, hjm, hx⟩)
      · intro e
        have hh' : x ∈ reach T (f + 1) (gnd.kids.getD idx 0) := by
          rw [hcI, e]; exact self_mem_reach hwn0
        exact reach_disjoint hnd'.2 hIlt hj (Ne.symm hji) hh' hx
      · intro e; rw [e, hrn] at hxs; simp at hxs
    have hsibA : ∀ c, (∃ j, j < gnd.kids.length ∧ j ≠ idx ∧ c = gnd.kids.getD j 0) →
        absNode T' (f + 1) c = absNode T (f + 1) c := by
      rintro c ⟨j, hj, hji, rfl⟩
      have hm : gnd.kids.getD j 0 ∈ gnd.kids := by rw [getD_of_lt _ _ _ hj]; exact List.getElem_mem hj
      rcases KidsOk.mem _ _ _ _ hbody _ hm with h0' | ⟨l2, h2', hw⟩
      · rw [h0', absNode_zero, absNode_zero]
      · exact (hsib j hj hji l2 h2' hw).2.1
    rcases KidsOk.at item.key idx gnd.kids gnd.items l h (by omega) (by omega) hbody htake hdrop hl hh with
      hz | ⟨l3, h3, hw3, hl3, hh3⟩
    · rw [hcI] at hz; exact absurd hz hn0
    rw [hcI] at hw3
    obtain ⟨_, hAn, hAr, hRn, hRr, htn, hdn, hXlen⟩ := hsplit l3 h3 hw3 hl3 hh3
    obtain ⟨_, hATn, hRTn, _⟩ := hleafT l3 h3 hw3
    have hkA' : Node.kidArr gnd' = gnd.kids.take (idx + 1) ++ r :: gnd.kids.drop (idx + 1) := by
      rw [← hGk]; simp [Node.kidArr, hGc]
    refine ⟨?_, ?_, ?_⟩
    · refine ⟨hg0, gnd', hgg', by rw [hGp]; exact hp, hGs, Or.inr (by rw [hGcnt]; omega), ?_⟩
      rw [hGc]
      simp only
      rw [hGk, hGi]
      refine KidsOk.insertAt item.key r (X.getD (T.sl / 2) {}) idx gnd.kids gnd.items l h (by omega) (by omega)
        hbody htake hdrop hl hh ?_ (by rw [hcI]; exact hn0) ?_
      · intro l2 h2 hw a b
        rw [hcI] at hw ⊢
        exact (hsplit l2 h2 hw a b).1
      · intro j hj hji l2 h2 hw
        exact (hsib j hj hji l2 h2 hw).1
    · rw [Nat.add_zero, reach_succ hg0 hgg', hr, hka, hkA', List.cons_append]
      apply List.Perm.cons
      refine flatMap_insert_perm r idx gnd.kids hIlt ?_ ?_
      · rw [hcI, hRn, hRr, hRTn]
      · intro j hj hji
        have hm : gnd.kids.getD j 0 ∈ gnd.kids := by rw [getD_of_lt _ _ _ hj]; exact List.getElem_mem hj
        rcases KidsOk.mem _ _ _ _ hbody _ hm with h0' | ⟨l2, h2', hw⟩
        · rw [h0', reach_zero, reach_zero]
        · exact (hsib j hj hji l2 h2' hw).2.2
    · have hA : absNode T (f + 1 + 1) g = weave (absNode T (f + 1)) gnd.kids gnd.items := by
        rw [absNode]; simp [hg0, hgg, hcs, hkids]
      have hA' : absNode T' (f + 1 + 1 + 0) g = weave (absNode T' (f + 1))
          (gnd.kids.take (idx + 1) ++ r :: gnd.kids.drop (idx + 1))
          (gnd.items.take idx ++ X.getD (T.sl / 2) {} :: gnd.items.drop idx) := by
        rw [Nat.add_zero, absNode]
        simp only [hg0, if_false, hgg', hGc]
        rw [hGk, hGi]
      rw [hA, hA', weave_split _ idx gnd.kids gnd.items (by omega) (by omega),
        weave_insert _ r _ idx gnd.kids gnd.items (by omega) (by omega), hcI, hAn, hAr, hATn]
      have hpre : weave (absNode T' (f + 1)) (gnd.kids.take idx) (gnd.items.take idx) =
          weave (absNode T (f + 1)) (gnd.kids.take idx) (gnd.items.take idx) := by
        apply weave_congr
        intro c hc
        obtain ⟨j, hj, rfl⟩ := List.mem_take_iff_getElem.mp hc
        apply hsibA
        exact ⟨j, by omega, by omega, (getD_of_lt _ _ _ (by omega)).symm⟩
      have hsuf : weaveTail (absNode T' (f + 1)) (gnd.kids.drop (idx + 1)) (gnd.items.drop idx) =
          weaveTail (absNode T (f + 1)) (gnd.kids.drop (idx + 1)) (gnd.items.drop idx) := by
        apply weaveTail_congr
        intro c hc
        obtain ⟨j, hj, rfl⟩ := List.mem_drop_iff_getElem.mp hc
        apply hsibA
        exact ⟨idx + 1 + j, by omega, by omega, (getD_of_lt _ _ _ (by omega)).symm⟩
      rw [hpre, hsuf]
      have hXs := list_split_at X (T.sl / 2) ({} : Item) (by omega)
      refine ⟨weave (absNode T (f + 1)) (gnd.kids.take idx) (gnd.items.take idx) ++ nd.items.take i,
        nd.items.drop i ++ weaveTail (absNode T (f + 1)) (gnd.kids.drop (idx + 1)) (gnd.items.drop idx), ?_, ?_, ?_, ?_⟩
      · rw [List.append_assoc, List.append_assoc, ← List.append_assoc (nd.items.take i), List.take_append_drop]
      · have : X.take (T.sl / 2) ++ X.getD (T.sl / 2) {} :: (X.drop (T.sl / 2 + 1) ++
            weaveTail (absNode T (f + 1)) (gnd.kids.drop (idx + 1)) (gnd.items.drop idx)) =
            X ++ weaveTail (absNode T (f + 1)) (gnd.kids.drop (idx + 1)) (gnd.items.drop idx) := by
          conv => rhs; rw [hXs]
          simp [List.append_assoc]
        rw [List.append_assoc, this, hX]
        simp [List.append_assoc]
      · intro x hx
        rcases List.mem_append.mp hx with hx | hx
        · exact prefix_lt item.key idx _ _ l h (by omega) hbody htake x hx
        · exact htn x hx
      · intro x hx
        rcases List.mem_append.mp hx with hx | hx
        · exact hdn x hx
        · exact suffix_ge item.key idx _ _ l h (by omega) hbody hdrop x hx

/-! Insert proofs for Model B, part 19: STAGE 4 — `shiftSlots` + set as list insertion. -/

theorem shiftSlots_size {α} (a : Array α) (pos occ : Nat) : (shiftSlots a pos occ).size = a.size := by
  unfold shiftSlots moveElems
  split
  · split
    · rfl
    · simp [goCopy, writeAt_size]
  · rfl

/-- `shiftSlots(a, pos, occ); a[pos] = v`, element by element -/
theorem shiftSet_getElem? {α} (a : Array α) (pos occ : Nat) (v : α) (hpo : pos ≤ occ) (ho : occ < a.size) (k : Nat) :
    ((shiftSlots a pos occ).setIfInBounds pos v)[k]? =
      if k < pos then a[k]? else if k = pos then some v else if k ≤ occ then a[k - 1]? else a[k]? := by
  rw [Array.getElem?_setIfInBounds]
  rw [shiftSlots_size]
  by_cases hkp : pos = k
  · subst hkp
    rw [if_pos rfl, if_pos (by omega), if_neg (by omega), if_pos rfl]
  · rw [if_neg hkp]
    unfold shiftSlots
    by_cases hlt : pos < occ
    · rw [if_pos hlt]
      have hsh : moveElems a (pos + 1) pos ((occ : Int) - (pos : Int)) =
          writeAt a (pos + 1) ((a.toList.drop pos).take (occ - pos)) := by
        unfold moveElems
        have hc : ¬ (((occ : Int) - (pos : Int)) ≤ 0 ∨ pos + 1 ≥ a.size ∨ pos ≥ a.size) := by omega
        rw [if_neg hc]
        have htn : ((occ : Int) - (pos : Int)).toNat = occ - pos := by omega
        have hmin : min (pos + (occ - pos)) a.size = occ := by omega
        simp only [htn, hmin, goCopy]
      rw [hsh]
      have hlen : ((a.toList.drop pos).take (occ - pos)).length = occ - pos := by simp; omega
      have hL : (writeAt a (pos + 1) ((a.toList.drop pos).take (occ - pos)))[k]? =
          if pos + 1 ≤ k ∧ k ≤ occ then a[k - 1]? else a[k]? := by
        rw [writeAt_getElem?, hlen]
        by_cases hc : pos + 1 ≤ k ∧ k ≤ occ
        · rw [if_pos (by omega), if_pos hc, List.getElem?_take, if_pos (by omega), List.getElem?_drop]
          have : pos + (k - (pos + 1)) = k - 1 := by omega
          rw [this, Array.getElem?_toList]
        · rw [if_neg (by omega), if_neg hc]
      rw [hL]
      by_cases hk1 : k < pos
      · rw [if_neg (by omega), if_pos hk1]
      · have hk0 : ¬ k = pos := fun e => hkp e.symm
        by_cases hk2 : k ≤ occ
        · rw [if_pos (by omega), if_neg hk1, if_neg hk0, if_pos hk2]
        · rw [if_neg (by omega), if_neg hk1, if_neg hk0, if_neg hk2]
    · rw [if_neg hlt]
      have : pos = occ := by omega
      subst this
      have hk0 : ¬ k = pos := fun e => hkp e.symm
      by_cases hk1 : k < pos
      · rw [if_pos hk1]
      · rw [if_neg hk1, if_neg hk0, if_neg (by omega)]

/-- the occupied prefix after the shift-insert: the old occupied prefix with `v` inserted at `pos` -/
theorem shiftSet_take {α} (a : Array α) (pos occ : Nat) (v : α) (hpo : pos ≤ occ) (ho : occ < a.size) :
    ((shiftSlots a pos occ).setIfInBounds pos v).toList.take (occ + 1) =
      (a.toList.take occ).take pos ++ v :: (a.toList.take occ).drop pos := by
  apply List.ext_getElem?
  intro k
  rw [List.getElem?_take]
  by_cases hk : k < occ + 1
  · rw [if_pos hk, Array.getElem?_toList, shiftSet_getElem? a pos occ v hpo ho k]
    by_cases hk1 : k < pos
    · rw [if_pos hk1, List.getElem?_append_left (by simp; omega), List.getElem?_take, if_pos hk1,
        List.getElem?_take, if_pos (by omega), Array.getElem?_toList]
    · rw [if_neg hk1, List.getElem?_append_right (by simp; omega)]
      have hl : ((a.toList.take occ).take pos).length = pos := by simp; omega
      rw [hl]
      by_cases hk2 : k = pos
      · subst hk2; simp
      · rw [if_neg hk2, if_pos (by omega)]
        have : k - pos = (k - pos - 1) + 1 := by omega
        rw [this, List.getElem?_cons_succ, List.getElem?_drop, List.getElem?_take, if_pos (by omega)]
        have : pos + (k - pos - 1) = k - 1 := by omega
        rw [this, Array.getElem?_toList]
  · rw [if_neg hk]
    symm
    rw [List.getElem?_eq_none_iff]
    simp; omega

/-- the unoccupied rest after the shift-insert is the old one minus its first entry -/
theorem shiftSet_drop {α} (a : Array α) (pos occ : Nat) (v : α) (hpo : pos ≤ occ) (ho : occ < a.size) :
    ((shiftSlots a pos occ).setIfInBounds pos v).toList.drop (occ + 1) = a.toList.drop (occ + 1) := by
  apply List.ext_getElem?
  intro k
  rw [List.getElem?_drop, List.getElem?_drop, Array.getElem?_toList, shiftSet_getElem? a pos occ v hpo ho,
    if_neg (by omega), if_neg (by omega), if_neg (by omega), Array.getElem?_toList]

theorem shiftSet_size {α} (a : Array α) (pos occ : Nat) (v : α) :
    ((shiftSlots a pos occ).setIfInBounds pos v).size = a.size := by
  simp [shiftSlots_size]

/-! Insert proofs for Model B, part 20: STAGE 4 — the model's computation: leaf split of a non-root leaf,
`getIndexOfChild`, `promoteStep` into a parent with room. -/

/-! ### `getIndexOfChild` -/

theorem scan_spec' (pn cn : Node) (cs : Array NodeId) (i : Nat) (hi : i ≤ pn.slots.size) (hci : cs.getD i 0 = cn.id)
    (hid : cn.id ≠ 0) (huniq : ∀ j, cs.getD j 0 = cn.id → j = i) :
    ∀ (fuel k : Nat), k ≤ i → i < k + fuel → BTree.getIndexOfChild.scan pn cn cs fuel k = i
  | 0, k, _, h => by omega
  | fuel + 1, k, hk, h => by
    rw [BTree.getIndexOfChild.scan]
    have hk' : k ≤ pn.slots.size := by omega
    simp only [hk', if_true]
    by_cases hkz : cs.getD k 0 = 0
    · simp only [hkz, beq_self_eq_true, if_true]
      have : k ≠ i := by intro e; subst e; rw [hci] at hkz; exact hid hkz
      exact scan_spec' pn cn cs i hi hci hid huniq fuel (k + 1) (by omega) (by omega)
    · have : (cs.getD k 0 == 0) = false := by simpa using hkz
      simp only [this, Bool.false_eq_true, if_false]
      by_cases hke : cs.getD k 0 = cn.id
      · simp only [hke, beq_self_eq_true, if_true]
        exact huniq k hke
      · have h2 : (cs.getD k 0 == cn.id) = false := by simpa using hke
        simp only [h2, Bool.false_eq_true, if_false]
        have : k ≠ i := by intro e; subst e; exact hke hci
        exact scan_spec' pn cn cs i hi hci hid huniq fuel (k + 1) (by omega) (by omega)

/-- the index of child `c` in parent `p`: the unique position of `c` in the children array; at most the
    child's memo changes -/
theorem getIndexOfChild_val {S : BTree} {p c : NodeId} {pn cn : Node} {cs : Array NodeId} {i : Nat}
    (hgp : S.get? p = some pn) (hgc : S.get? c = some cn) (hcs : pn.children = some cs)
    (hc0 : c ≠ 0) (hi : i ≤ pn.slots.size) (hci : cs.getD i 0 = c) (huniq : ∀ j, cs.getD j 0 = c → j = i)
    (hion1 : -1 ≤ cn.ion) (hion2 : cn.ion < cs.size) :
    (S.getIndexOfChild p c).2 = (i : Int) ∧
      ((S.getIndexOfChild p c).1 = S ∨ (S.getIndexOfChild p c).1 = S.upd c (fun x => { x with ion := (i : Int) })) := by
  have hcid : cn.id = c := get?_id hgc
  unfold BTree.getIndexOfChild
  simp only [get_of_get? hgp, get_of_get? hgc, hcs]
  have hnot : ¬ (cn.ion ≥ (cs.size : Int)) := by omega
  simp only [hnot, if_false]
  split
  · have hscan := scan_spec' pn cn cs i hi (by rw [hcid]; exact hci) (by rw [hcid]; exact hc0)
      (by rw [hcid]; exact huniq) (pn.slots.size + 2) 0 (Nat.zero_le _) (by omega)
    simp only [hscan]
    exact ⟨trivial, Or.inr trivial⟩
  · rename_i hmemo
    simp only [Bool.or_eq_true, beq_iff_eq, bne_iff_ne, ne_eq, not_or, Decidable.not_not] at hmemo
    have h1 : cn.ion ≠ -1 := hmemo.1
    have h2 := hmemo.2
    rw [hcid] at h2
    have := huniq _ h2.symm
    refine ⟨?_, Or.inl rfl⟩
    simp only
    omega

/-! ### `promoteStep` into a node with room -/

/-- the parent after `promote` inserted the separator and the new right child -/
def promoteRoom (t : BTree) (gnd : Node) (cs : Array NodeId) (idx : Nat) (x : Node) : Node :=
  { x with slots := (shiftSlots gnd.slots idx gnd.count).setIfInBounds idx t.tempParent,
           children := some ((shiftSlots (cs.setIfInBounds idx t.tpc0) (idx + 1) (gnd.count + 1)).setIfInBounds (idx + 1) t.tpc1),
           count := gnd.count + 1 }

theorem promoteStep_room {t : BTree} {g : NodeId} {gnd : Node} {cs : Array NodeId} {idx : Nat}
    (hg : t.get? g = some gnd) (hcs : gnd.children = some cs) (hroom : gnd.count < t.sl) (hidx : idx ≤ gnd.count)
    (hsz : cs.size = t.sl + 1) :
    t.promoteStep g (idx : Int) = t.upd g (promoteRoom t gnd cs idx) := by
  unfold BTree.promoteStep
  simp only [get_of_get? hg, hcs]
  have h1 : ¬ ((idx : Int) < 0) := by omega
  simp only [h1, if_false, hroom, if_true, Int.toNat_natCast]
  have h2 : ¬ idx > gnd.count := by omega
  simp only [h2, if_false]
  have h3 : ¬ (idx + 1 ≥ (cs.setIfInBounds idx t.tpc0).size + 1) := by simp; omega
  have h3' : ¬ (idx + 1 ≥ cs.size + 1) := by omega
  simp only [h3', if_false]
  rfl

/-! Insert proofs for Model B, part 21: STAGE 4 — `addOnLeaf` on a full non-root leaf, spelled out. -/

/-- the split leaf keeps the lower half -/
def leafKeep (t : BTree) (temp : Array Item) (x : Node) : Node :=
  { x with slots := goCopy (zeros x.slots.size) 0 temp 0 (t.sl / 2), count := t.sl / 2 }

/-- the state of `addOnLeaf`'s non-root split just before it asks the parent for the leaf's index -/
def leafSplitPre (t : BTree) (n : NodeId) (item : Item) (idx : Nat) : BTree :=
  ({ (({ t with nextId := t.nextId + 1 } : BTree).upd n (leafKeep t (splitTemp (t.get n).slots t.sl idx item))) with
       tempParent := (splitTemp (t.get n).slots t.sl idx item).getD (t.sl / 2) {}, tpc0 := n, tpc1 := t.nextId } : BTree).put
    (rightHalf t (t.get n).parent (splitTemp (t.get n).slots t.sl idx item))

/-- `addOnLeaf` on a full non-root leaf, load balancing off -/
def leafSplit (t : BTree) (n : NodeId) (item : Item) (idx : Nat) : BTree :=
  { ((leafSplitPre t n item idx).getIndexOfChild (t.get n).parent n).1 with
      promTarget := (t.get n).parent, promIdx := ((leafSplitPre t n item idx).getIndexOfChild (t.get n).parent n).2 }

theorem addOnLeaf_leafSplit {t : BTree} {n : NodeId} {item : Item} {idx : Nat}
    (h1 : ¬ (t.get n).count < t.sl) (h2 : (t.get n).isRoot = false) (hlb : t.lb = false)
    (hp : (t.get? (t.get n).parent).isSome) :
    t.addOnLeaf n item idx = leafSplit t n item idx := by
  unfold BTree.addOnLeaf
  simp only [h1, if_false, h2, Bool.not_false, if_true, hlb, Bool.false_eq_true, Bool.or_self, Bool.and_false,
    Bool.and_self]
  split
  · rename_i hnone
    exfalso
    have hF : ∀ x : Node, (leafKeep t (splitTemp (t.get n).slots t.sl idx item) x).id = x.id := fun _ => rfl
    have : (({ t with nextId := t.nextId + 1 } : BTree).upd n
        (leafKeep t (splitTemp (t.get n).slots t.sl idx item))).get? (t.get n).parent = none := hnone
    rw [get?_upd _ n _ _ hF] at this
    have h3 : ({ t with nextId := t.nextId + 1 } : BTree).get? (t.get n).parent = t.get? (t.get n).parent := rfl
    rw [h3] at this
    cases hg : t.get? (t.get n).parent with
    | none => rw [hg] at hp; simp at hp
    | some y => rw [hg] at this; simp at this
  · rfl

/-! Insert proofs for Model B, part 22: STAGE 4 — the nodes of the result. -/

/-- the kept lower half of a split leaf (whatever its memoised index became) -/
theorem leafKeep_facts {T T' : BTree} {nd : Node} (hs : NodeShape T nd) (hch : nd.children = none)
    {temp : Array Item} {X : List Item} (hX : temp.toList = X)
    (hXlen : X.length = T.sl + 1) (hsl : 2 ≤ T.sl ∧ T.sl % 2 = 0) (hsl' : T'.sl = T.sl) (ion : Int)
    (hion : -1 ≤ ion ∧ ion ≤ (T.sl : Int)) :
    NodeShape T' ({ leafKeep T temp nd with ion := ion } : Node) ∧
      ({ leafKeep T temp nd with ion := ion } : Node).items = X.take (T.sl / 2) := by
  obtain ⟨hLs, hLi⟩ := leftHalf_facts (T := T) (T' := T') 0 hX hXlen hsl hsl'
  have e : ({ leafKeep T temp nd with ion := ion } : Node).slots = (leftHalf T 0 temp).slots := by
    show goCopy (zeros nd.slots.size) 0 temp 0 (T.sl / 2) = goCopy (zeros T.sl) 0 temp 0 (T.sl / 2)
    rw [hs.1]
  refine ⟨⟨?_, hLs.2.1, by rw [hsl']; exact hion, ?_, ?_⟩, ?_⟩
  · rw [e]; exact hLs.1
  · intro x hx
    have hx' : x ∈ ({ leafKeep T temp nd with ion := ion } : Node).slots.toList.drop (T.sl / 2) := hx
    rw [e] at hx'
    exact hLs.2.2.2.1 x hx'
  · intro cs hcs
    have : ({ leafKeep T temp nd with ion := ion } : Node).children = nd.children := rfl
    rw [this, hch] at hcs; cases hcs
  · show ({ leafKeep T temp nd with ion := ion } : Node).slots.toList.take (T.sl / 2) = _
    rw [e]; exact hLi

/-- the parent after `promote` with room: shape, items, children -/
theorem promoteRoom_facts {T T' Tm : BTree} {gnd : Node} {cs : Array NodeId} {idx : Nat} {n : NodeId}
    (hs : NodeShape T gnd) (hcs : gnd.children = some cs) (hroom : gnd.count < T.sl) (hidx : idx ≤ gnd.count)
    (hci : cs.getD idx 0 = n) (htpc0 : Tm.tpc0 = n) (hsl' : T'.sl = T.sl) :
    NodeShape T' (promoteRoom Tm gnd cs idx gnd) ∧
    (promoteRoom Tm gnd cs idx gnd).items = gnd.items.take idx ++ Tm.tempParent :: gnd.items.drop idx ∧
    ∃ cs', (promoteRoom Tm gnd cs idx gnd).children = some cs' ∧
      cs'.toList.take ((promoteRoom Tm gnd cs idx gnd).count + 1) =
        gnd.kids.take (idx + 1) ++ Tm.tpc1 :: gnd.kids.drop (idx + 1) := by
  obtain ⟨h1, h2, h3, h4, h5⟩ := hs
  obtain ⟨h6, h7⟩ := h5 cs hcs
  have hkids : gnd.kids = cs.toList.take (gnd.count + 1) := by simp [Node.kids, hcs]
  have hset : (cs.setIfInBounds idx Tm.tpc0).toList = cs.toList := by
    rw [Array.toList_setIfInBounds, htpc0]
    apply List.ext_getElem?
    intro k
    rw [List.getElem?_set]
    by_cases hk : idx = k
    · subst hk
      rw [if_pos rfl, if_pos (by simp; omega)]
      have : cs.toList[idx]? = some (cs.getD idx 0) := by
        simp [Array.getD, show idx < cs.size by omega]
      rw [this, hci]
    · rw [if_neg hk]
  have hsetsz : (cs.setIfInBounds idx Tm.tpc0).size = T.sl + 1 := by simp [h6]
  refine ⟨⟨?_, ?_, by rw [hsl']; exact h3, ?_, ?_⟩, ?_, _, rfl, ?_⟩
  · show ((shiftSlots gnd.slots idx gnd.count).setIfInBounds idx Tm.tempParent).size = T'.sl
    rw [shiftSet_size, h1, hsl']
  · show gnd.count + 1 ≤ T'.sl; omega
  · intro x hx
    have hx' : x ∈ ((shiftSlots gnd.slots idx gnd.count).setIfInBounds idx Tm.tempParent).toList.drop (gnd.count + 1) := hx
    rw [shiftSet_drop _ _ _ _ hidx (by omega)] at hx'
    apply h4
    rw [← List.drop_drop] at hx'
    exact List.mem_of_mem_drop hx'
  · intro cs'' hcs''
    have : cs'' = (shiftSlots (cs.setIfInBounds idx Tm.tpc0) (idx + 1) (gnd.count + 1)).setIfInBounds (idx + 1) Tm.tpc1 := by
      have h : (promoteRoom Tm gnd cs idx gnd).children = some _ := rfl
      rw [h] at hcs''; exact (Option.some.inj hcs'').symm
    subst this
    refine ⟨by rw [shiftSet_size, hsetsz, hsl'], ?_⟩
    intro c hc
    have hc' : c ∈ ((shiftSlots (cs.setIfInBounds idx Tm.tpc0) (idx + 1) (gnd.count + 1)).setIfInBounds (idx + 1)
        Tm.tpc1).toList.drop (gnd.count + 1 + 1) := hc
    rw [shiftSet_drop _ _ _ _ (by omega) (by omega), hset] at hc'
    apply h7
    rw [← List.drop_drop] at hc'
    exact List.mem_of_mem_drop hc'
  · show ((shiftSlots gnd.slots idx gnd.count).setIfInBounds idx Tm.tempParent).toList.take (gnd.count + 1) = _
    rw [shiftSet_take _ _ _ _ hidx (by omega)]
    rfl
  · show ((shiftSlots (cs.setIfInBounds idx Tm.tpc0) (idx + 1) (gnd.count + 1)).setIfInBounds (idx + 1)
        Tm.tpc1).toList.take (gnd.count + 1 + 1) = _
    rw [shiftSet_take _ _ _ _ (by omega) (by omega), hset, hkids]

/-! Insert proofs for Model B, part 23: STAGE 4 — the model's result has the shape `localOkG_split4` needs. -/

/-- what `getIndexOfChild` may have done to the tree: nothing, or set the child's memo -/
theorem gi_facts {S GI1 : BTree} {n : NodeId} {idx : Nat} {cn : Node} (hgc : S.get? n = some cn)
    (h : GI1 = S ∨ GI1 = S.upd n (fun x => { x with ion := (idx : Int) })) :
    (∀ x, x ≠ n → GI1.get? x = S.get? x) ∧
    (∃ ion', (ion' = cn.ion ∨ ion' = (idx : Int)) ∧ GI1.get? n = some { cn with ion := ion' }) ∧
    GI1.nodes.length = S.nodes.length ∧ (Fresh S → Fresh GI1) ∧ ({ GI1 with nodes := S.nodes } : BTree) = S := by
  rcases h with rfl | rfl
  · exact ⟨fun _ _ => rfl, ⟨cn.ion, Or.inl rfl, hgc⟩, rfl, id, rfl⟩
  · refine ⟨fun x hx => get?_upd_ne _ _ (fun _ => rfl) hx, ⟨(idx : Int), Or.inr rfl, ?_⟩, by simp,
      fun hf => fresh_upd hf n _ (fun _ => rfl), rfl⟩
    rw [get?_upd_eq S n (fun x => { x with ion := (idx : Int) }) (fun _ => rfl), hgc]; rfl

theorem promoteLoop_one {t : BTree} {g : NodeId} (hg : t.promTarget = g) (hg0 : g ≠ 0) (hok : t.panicked = false)
    (hdone : (({ t with promTarget := 0, promIdx := 0 } : BTree).promoteStep g t.promIdx).promTarget = 0) (k : Nat) :
    promoteLoop (k + 2) t = ({ t with promTarget := 0, promIdx := 0 } : BTree).promoteStep g t.promIdx := by
  rw [promoteLoop]
  have h1 : ¬ (t.promTarget = 0 ∨ t.panicked = true) := by rw [hg, hok]; simp [hg0]
  rw [if_neg h1]
  simp only [hg]
  rw [promoteLoop, if_pos (Or.inl hdone)]

/-! Insert proofs for Model B, part 24: STAGE 4 — the model's computation meets `localOkG_split4`. -/

/-- the tree after the leaf split and the one `promote` step into a parent with room -/
def split4Result (T : BTree) (saved : Bool) (n : NodeId) (item : Item) (i : Nat) (g : NodeId) (gnd : Node)
    (cs : Array NodeId) (idx : Nat) : BTree :=
  ({ leafSplit T n item i with unique := saved, promTarget := 0, promIdx := 0 } : BTree).upd g
    (promoteRoom ({ leafSplit T n item i with unique := saved, promTarget := 0, promIdx := 0 } : BTree) gnd cs idx)

theorem leafSplitPre_get? (T : BTree) (n : NodeId) (item : Item) (i : Nat) (x : NodeId) :
    (leafSplitPre T n item i).get? x =
      if T.nextId = x then some (rightHalf T (T.get n).parent (splitTemp (T.get n).slots T.sl i item))
      else (T.get? x).map (fun y => if x = n then leafKeep T (splitTemp (T.get n).slots T.sl i item) y else y) := by
  unfold leafSplitPre
  rw [get?_put]
  have h1 : (rightHalf T (T.get n).parent (splitTemp (T.get n).slots T.sl i item)).id = T.nextId := rfl
  rw [h1]
  have h2 : ∀ (B : BTree) (a : Item) (b c : NodeId), ({ B with tempParent := a, tpc0 := b, tpc1 := c } : BTree).get? x = B.get? x :=
    fun _ _ _ _ => rfl
  rw [h2, get?_upd _ n x (leafKeep T (splitTemp (T.get n).slots T.sl i item)) (fun _ => rfl)]
  rfl


/-- STAGE 4, computation: on a full non-root leaf `n` (child `idx` of `g`, which has room) the model's
    `addOnLeaf` + `promote` produce `split4Result`, which is locally correct at `g` -/
theorem split4_localOk {T : BTree} {g n : NodeId} {item : Item} {i idx : Nat} {gnd nd : Node} {cs : Array NodeId}
    (saved : Bool)
    (hgg : T.get? g = some gnd) (hgn : T.get? n = some nd) (hpar : nd.parent = g) (hg0 : g ≠ 0) (hn0 : n ≠ 0)
    (hgs : NodeShape T gnd) (hns : NodeShape T nd)
    (hcs : gnd.children = some cs) (hidxle : idx ≤ gnd.count) (hci : cs.getD idx 0 = n)
    (huniq : ∀ j, cs.getD j 0 = n → j = idx)
    (hroom : gnd.count < T.sl) (hfull : nd.count = T.sl) (hleaf : nd.children = none)
    (hidx : idx = (getIndexToInsertTo T gnd item.key).1) (hi : i = (getIndexToInsertTo T nd item.key).1)
    (hile : i ≤ nd.count)
    (hfresh : Fresh T) (hsl2 : 2 ≤ T.sl ∧ T.sl % 2 = 0) (hid : item.id ≠ 0) (hok : T.panicked = false) :
    (∀ k, promoteLoop (k + 2) ({ leafSplit T n item i with unique := saved } : BTree) =
      split4Result T saved n item i g gnd cs idx) ∧
    LocalOkG T (split4Result T saved n item i g gnd cs idx) g item 0 [T.nextId] ∧
    (split4Result T saved n item i g gnd cs idx).nodes.length = T.nodes.length + 1 ∧
    Fresh (split4Result T saved n item i g gnd cs idx) ∧
    (∀ x, (T.get? x).isSome → ((split4Result T saved n item i g gnd cs idx).get? x).isSome) ∧
    (leafSplit T n item i).distSrc = T.distSrc ∧
    ({ split4Result T saved n item i g gnd cs idx with nodes := T.nodes } : BTree) =
      { T with nextId := T.nextId + 1, unique := saved, promTarget := 0, promIdx := 0,
               tempParent := (splitTemp nd.slots T.sl i item).getD (T.sl / 2) {}, tpc0 := n, tpc1 := T.nextId } := by
  have hgetn := get_of_get? hgn
  have hrn : T.get? T.nextId = none := fresh_get? hfresh (Nat.le_refl _)
  have hgr : g ≠ T.nextId := by intro e; rw [e, hrn] at hgg; cases hgg
  have hnr : n ≠ T.nextId := by intro e; rw [e, hrn] at hgn; cases hgn
  have hgn' : g ≠ n := by
    intro e; rw [e, hgn] at hgg; cases hgg; rw [hleaf] at hcs; cases hcs
  have hcssz : cs.size = T.sl + 1 := (hgs.2.2.2.2 cs hcs).1
  -- the state before `getIndexOfChild`
  have hSg : (leafSplitPre T n item i).get? g = some gnd := by
    rw [leafSplitPre_get?, if_neg (Ne.symm hgr), hgg]; simp [hgn']
  have hSn : (leafSplitPre T n item i).get? n = some (leafKeep T (splitTemp nd.slots T.sl i item) nd) := by
    rw [leafSplitPre_get?, if_neg (Ne.symm hnr), hgn, hgetn]; simp
  have hSr : (leafSplitPre T n item i).get? T.nextId = some (rightHalf T g (splitTemp nd.slots T.sl i item)) := by
    rw [leafSplitPre_get?, if_pos rfl, hgetn, hpar]
  have hSo : ∀ x, x ≠ n → x ≠ T.nextId → (leafSplitPre T n item i).get? x = T.get? x := by
    intro x hxn hxr
    rw [leafSplitPre_get?, if_neg (Ne.symm hxr)]
    cases T.get? x with
    | none => rfl
    | some y => simp [hxn]
  obtain ⟨hGI2, hGI1⟩ := getIndexOfChild_val (S := leafSplitPre T n item i) (p := g) (c := n) (i := idx)
    hSg hSn hcs hn0 (by rw [hgs.1]; have := hgs.2.1; omega) hci huniq
    (by show -1 ≤ nd.ion; exact hns.2.2.1.1) (by show nd.ion < (cs.size : Int); rw [hcssz]; have := hns.2.2.1.2; omega)
  obtain ⟨ga, ⟨ion', hion', gb⟩, gc, gd, ge⟩ := gi_facts hSn hGI1
  have hpg : (T.get n).parent = g := by rw [hgetn]; exact hpar
  -- field facts of the state after `getIndexOfChild`
  have hfield : ∀ {α} (F : BTree → α), (∀ B : BTree, ∀ l, F { B with nodes := l } = F B) →
      F ((leafSplitPre T n item i).getIndexOfChild g n).1 = F (leafSplitPre T n item i) := by
    intro α F hF
    rw [← hF _ (leafSplitPre T n item i).nodes, ge]
  have hsl' : (split4Result T saved n item i g gnd cs idx).sl = T.sl := by
    show ((leafSplitPre T n item i).getIndexOfChild (T.get n).parent n).1.sl = T.sl
    rw [hpg, hfield (·.sl) (fun _ _ => rfl)]; rfl
  have htp : ((leafSplitPre T n item i).getIndexOfChild g n).1.tempParent =
      (splitTemp nd.slots T.sl i item).getD (T.sl / 2) {} := by
    rw [hfield (·.tempParent) (fun _ _ => rfl)]; show (splitTemp (T.get n).slots T.sl i item).getD _ _ = _; rw [hgetn]
  have ht0 : ((leafSplitPre T n item i).getIndexOfChild g n).1.tpc0 = n := by
    rw [hfield (·.tpc0) (fun _ _ => rfl)]; rfl
  have ht1 : ((leafSplitPre T n item i).getIndexOfChild g n).1.tpc1 = T.nextId := by
    rw [hfield (·.tpc1) (fun _ _ => rfl)]; rfl
  have hpan : ((leafSplitPre T n item i).getIndexOfChild g n).1.panicked = false := by
    rw [hfield (·.panicked) (fun _ _ => rfl)]; exact hok
  -- lookups in the result
  have hFid : ∀ x : Node, (promoteRoom ({ leafSplit T n item i with unique := saved, promTarget := 0, promIdx := 0 } : BTree)
      gnd cs idx x).id = x.id := fun _ => rfl
  have hRget : ∀ x, (split4Result T saved n item i g gnd cs idx).get? x =
      (((leafSplitPre T n item i).getIndexOfChild g n).1.get? x).map (fun y => if x = g then
        promoteRoom ({ leafSplit T n item i with unique := saved, promTarget := 0, promIdx := 0 } : BTree) gnd cs idx y else y) := by
    intro x
    unfold split4Result
    rw [get?_upd _ g x _ hFid]
    show Option.map _ (((leafSplitPre T n item i).getIndexOfChild (T.get n).parent n).1.get? x) = _
    rw [hpg]
  have hRg : (split4Result T saved n item i g gnd cs idx).get? g = some
      (promoteRoom ({ leafSplit T n item i with unique := saved, promTarget := 0, promIdx := 0 } : BTree) gnd cs idx gnd) := by
    rw [hRget, ga g hgn', hSg]; simp
  have hRn : (split4Result T saved n item i g gnd cs idx).get? n =
      some { leafKeep T (splitTemp nd.slots T.sl i item) nd with ion := ion' } := by
    rw [hRget, gb]; simp [Ne.symm hgn']
  have hRr : (split4Result T saved n item i g gnd cs idx).get? T.nextId =
      some (rightHalf T g (splitTemp nd.slots T.sl i item)) := by
    rw [hRget, ga _ (Ne.symm hnr), hSr]; simp [Ne.symm hgr]
  have hRo : ∀ x, x ≠ g → x ≠ n → x ≠ T.nextId → (split4Result T saved n item i g gnd cs idx).get? x = T.get? x := by
    intro x h1 h2 h3
    rw [hRget, ga x h2, hSo x h2 h3]
    cases T.get? x with
    | none => rfl
    | some y => simp [h1]
  -- the nodes
  have hitems : nd.items = nd.slots.toList := by
    unfold Node.items; rw [List.take_of_length_le (by simp; have := hns.1; omega)]
  have hX := splitTemp_toList nd.slots T.sl i item hns.1 (by omega)
  rw [← hitems] at hX
  have hXlen : (nd.items.take i ++ item :: nd.items.drop i).length = T.sl + 1 := by
    rw [← hX]; simp [splitTemp_size]
  have hmid : (splitTemp nd.slots T.sl i item).getD (T.sl / 2) {} =
      (nd.items.take i ++ item :: nd.items.drop i).getD (T.sl / 2) {} := by
    rw [← hX]; simp [Array.getD_eq_getD_getElem?, List.getD_eq_getElem?_getD]
  have hionb : -1 ≤ ion' ∧ ion' ≤ (T.sl : Int) := by
    rcases hion' with e | e
    · rw [e]; exact hns.2.2.1
    · rw [e]
      have h1 := hgs.2.1
      have h2 : (0 : Int) ≤ (idx : Int) := Int.natCast_nonneg idx
      have h3 : (idx : Int) ≤ (gnd.count : Int) := Int.ofNat_le.mpr hidxle
      have h4 : (gnd.count : Int) ≤ (T.sl : Int) := Int.ofNat_le.mpr h1
      exact ⟨by omega, Int.le_trans h3 h4⟩
  obtain ⟨hLs, hLi⟩ := leafKeep_facts (T := T) (T' := split4Result T saved n item i g gnd cs idx) hns hleaf hX hXlen hsl2
    hsl' ion' hionb
  obtain ⟨hRs, hRi⟩ := rightHalf_facts (T := T) (T' := split4Result T saved n item i g gnd cs idx) g hX hXlen hsl2 hsl'
  have htpc0 : ({ leafSplit T n item i with unique := saved, promTarget := 0, promIdx := 0 } : BTree).tpc0 = n := by
    show ((leafSplitPre T n item i).getIndexOfChild (T.get n).parent n).1.tpc0 = n
    rw [hpg]; exact ht0
  obtain ⟨hGs, hGi, cs', hGc, hGk⟩ := promoteRoom_facts (T := T) (T' := split4Result T saved n item i g gnd cs idx)
    (Tm := ({ leafSplit T n item i with unique := saved, promTarget := 0, promIdx := 0 } : BTree)) hgs hcs hroom hidxle hci
    htpc0 hsl'
  have htpT : ({ leafSplit T n item i with unique := saved, promTarget := 0, promIdx := 0 } : BTree).tempParent =
      (nd.items.take i ++ item :: nd.items.drop i).getD (T.sl / 2) {} := by
    show ((leafSplitPre T n item i).getIndexOfChild (T.get n).parent n).1.tempParent = _
    rw [hpg, htp, hmid]
  have htpc1 : ({ leafSplit T n item i with unique := saved, promTarget := 0, promIdx := 0 } : BTree).tpc1 = T.nextId := by
    show ((leafSplitPre T n item i).getIndexOfChild (T.get n).parent n).1.tpc1 = _
    rw [hpg]; exact ht1
  rw [htpT] at hGi
  rw [htpc1] at hGk
  have hchild : gnd.child idx = n := by simp [Node.child, hcs, hci]
  have hloc := localOkG_split4 (T := T) (T' := split4Result T saved n item i g gnd cs idx) (g := g) (n := n)
    (r := T.nextId) (item := item) (idx := idx) (i := i) hsl' hsl2 hgg hgn hrn (Nat.ne_of_gt hfresh.1) hRo hRg hRn hRr
    (by simp [Node.hasChildren, hcs]) hidx hchild hn0 (by simp [Node.hasChildren, hleaf]) hfull hi rfl
    ⟨hLs, hpar, hleaf, rfl, hLi⟩ ⟨hRs, rfl, rfl, rfl, hRi⟩ ⟨hGs, rfl, rfl, hGi, hGc, hGk⟩ hid
  refine ⟨?_, hloc, ?_, ?_, ?_, ?_, ?_⟩
  · intro k
    have hT0g : ({ leafSplit T n item i with unique := saved } : BTree).promTarget = g := hpg
    have hT0i : ({ leafSplit T n item i with unique := saved } : BTree).promIdx = (idx : Int) := by
      show ((leafSplitPre T n item i).getIndexOfChild (T.get n).parent n).2 = _
      rw [hpg]; exact hGI2
    have hT0p : ({ leafSplit T n item i with unique := saved } : BTree).panicked = false := by
      show ((leafSplitPre T n item i).getIndexOfChild (T.get n).parent n).1.panicked = false
      rw [hpg]; exact hpan
    have hTmg : ({ leafSplit T n item i with unique := saved, promTarget := 0, promIdx := 0 } : BTree).get? g = some gnd := by
      show ((leafSplitPre T n item i).getIndexOfChild (T.get n).parent n).1.get? g = some gnd
      rw [hpg, ga g hgn', hSg]
    have hstep := promoteStep_room (t := ({ leafSplit T n item i with unique := saved, promTarget := 0, promIdx := 0 } : BTree))
      (g := g) (idx := idx) hTmg hcs (by
        show gnd.count < ((leafSplitPre T n item i).getIndexOfChild (T.get n).parent n).1.sl
        rw [hpg, hfield (·.sl) (fun _ _ => rfl)]; exact hroom) hidxle (by
        show cs.size = ((leafSplitPre T n item i).getIndexOfChild (T.get n).parent n).1.sl + 1
        rw [hpg, hfield (·.sl) (fun _ _ => rfl)]; exact hcssz)
    rw [promoteLoop_one hT0g hg0 hT0p (by rw [hT0i]; exact (by rw [hstep]; rfl)) k, hT0i]
    exact hstep
  · show (List.map _ ((leafSplitPre T n item i).getIndexOfChild (T.get n).parent n).1.nodes).length = _
    rw [List.length_map, hpg, gc]
    show (putNode _ _).length = _
    rw [putNode_length_fresh]
    · simp [BTree.upd]
    · have : (({ T with nextId := T.nextId + 1 } : BTree).upd n
          (leafKeep T (splitTemp (T.get n).slots T.sl i item))).get? T.nextId = none := by
        rw [get?_upd _ n _ (leafKeep T _) (fun _ => rfl)]
        show Option.map _ (T.get? T.nextId) = none
        rw [hrn]; rfl
      exact this
  · unfold split4Result
    refine fresh_upd ?_ g _ hFid
    have h1 : Fresh (leafSplitPre T n item i) := by
      unfold leafSplitPre
      refine fresh_put (t := ({ (({ T with nextId := T.nextId + 1 } : BTree).upd n _) with
        tempParent := _, tpc0 := n, tpc1 := T.nextId } : BTree)) ?_ (by show T.nextId < T.nextId + 1; omega)
      have h0 : Fresh ({ T with nextId := T.nextId + 1 } : BTree) :=
        ⟨Nat.succ_pos _, fun x hx => Nat.lt_succ_of_lt (hfresh.2 x hx)⟩
      exact fresh_upd h0 n (leafKeep T _) (fun _ => rfl)
    have h2 := gd h1
    rw [← hpg] at h2
    exact h2
  · intro x hx
    rw [hRget]
    by_cases hxn : x = n
    · subst hxn; rw [gb]; rfl
    · rw [ga x hxn, leafSplitPre_get?]
      by_cases hxr : T.nextId = x
      · rw [if_pos hxr]; rfl
      · rw [if_neg hxr]
        cases hT : T.get? x with
        | none => rw [hT] at hx; simp at hx
        | some y => rfl
  · show ((leafSplitPre T n item i).getIndexOfChild (T.get n).parent n).1.distSrc = T.distSrc
    rw [hpg, hfield (·.distSrc) (fun _ _ => rfl)]; rfl
  · have hq : ({ split4Result T saved n item i g gnd cs idx with nodes := T.nodes } : BTree) =
        { ({ ((leafSplitPre T n item i).getIndexOfChild (T.get n).parent n).1 with nodes := (leafSplitPre T n item i).nodes } : BTree) with
          nodes := T.nodes, unique := saved, promTarget := 0, promIdx := 0 } := rfl
    rw [hq, hpg, ge]
    unfold leafSplitPre
    rw [hgetn]
    rfl

/-! Insert proofs for Model B, part 25: STAGE 4 — path lemmas. -/

/-- every node on the descent path is the root of a well-formed subtree whose bounds contain the key -/
theorem onPath_wf {t : BTree} (key : Int) {q : NodeId} :
    ∀ (f : Nat) (m p : NodeId) (lo hi : Option Int) (fuel : Nat), WFNode t f m p lo hi → (reach t f m).Nodup →
      LeO lo key → OLe key hi → f ≤ fuel → onPath key fuel t m q →
      ∃ fq pq lq hq, fq ≤ f ∧ WFNode t fq q pq lq hq ∧ (reach t fq q).Nodup ∧ LeO lq key ∧ OLe key hq
  | 0, _, _, _, _, _, h, _, _, _, _, _ => absurd h (by simp [WFNode])
  | f + 1, m, p, lo, hi, 0, _, _, _, _, hf, _ => by omega
  | f + 1, m, p, lo, hi, fuel + 1, hW, hnd, hlo, hhi, hf, hpath => by
    have hW' := hW
    obtain ⟨hn, nd, hg, hp, hs, hne, hbody⟩ := hW
    have hget := get_of_get? hg
    have hr := reach_succ (f := f) hn hg
    unfold onPath at hpath
    rw [hget] at hpath
    rcases hpath with e | ⟨h1, h2, h4, hrec⟩
    · subst e
      exact ⟨f + 1, p, lo, hi, Nat.le_refl _, hW', hnd, hlo, hhi⟩
    · obtain ⟨hce, hc0⟩ := childOf_eq h4
      rw [hget] at hce hc0
      rw [hce] at hrec
      obtain ⟨cs, hcs⟩ : ∃ cs, nd.children = some cs := by
        cases hh : nd.children with
        | none => simp [Node.hasChildren, hh] at h2
        | some cs => exact ⟨cs, rfl⟩
      rw [hcs] at hbody
      simp only at hbody
      have hkids : nd.kids = cs.toList.take (nd.count + 1) := by simp [Node.kids, hcs]
      have hka : Node.kidArr nd = nd.kids := by simp [Node.kidArr, hcs, hkids]
      rw [← hkids] at hbody
      have hklen := Node.kids_length hs
      have hilen := Node.items_length hs
      have hsorted : Sorted nd.items :=
        (itemsOk_good _ _ _ (KidsOk.itemsOk _ _ _ _ (by omega) hbody)).1
      obtain ⟨hidx, htake, hdrop⟩ := insIdx_spec t nd key hs hsorted
      generalize hI : (getIndexToInsertTo t nd key).1 = idx at *
      have hcI : nd.kids.getD idx 0 = nd.child idx := Node.kids_getD hs hidx
      rw [hr, hka] at hnd
      have hnd' := List.nodup_cons.mp hnd
      have hIlt : idx < nd.kids.length := by omega
      rcases KidsOk.at key idx nd.kids nd.items lo hi (by omega) (by omega) hbody htake hdrop hlo hhi with
        h0 | ⟨l, h', hwc, hlc, hhc⟩
      · rw [hcI] at h0; exact absurd h0 hc0
      rw [hcI] at hwc
      have hcnd : (reach t f (nd.child idx)).Nodup := by
        have := reach_child_nodup hnd'.2 hIlt
        rwa [hcI] at this
      obtain ⟨fq, pq, lq, hq', hle, hrest⟩ := onPath_wf key f (nd.child idx) m l h' fuel hwc hcnd hlc hhc (by omega) hrec
      exact ⟨fq, pq, lq, hq', by omega, hrest⟩

/-- the node above the descent target is on the path, and the target is the child the key selects there -/
theorem target_parent (key : Int) {n : NodeId} {i : Nat} : ∀ (fuel : Nat) (t : BTree) (m : NodeId),
    addTarget key fuel t m = .leaf n i → n ≠ m →
    ∃ g, onPath key fuel t m g ∧ (t.get g).hasChildren = true ∧
      t.childOf g (getIndexToInsertTo t (t.get g) key).1 = n ∧ n ≠ 0
  | 0, _, _, h, _ => by simp [addTarget] at h
  | fuel + 1, t, m, h, hnm => by
    unfold addTarget at h
    simp only at h
    split at h
    · cases h
    · rename_i h1
      split at h
      · rename_i h2
        split at h
        · cases h
        · split at h
          · cases h
          · rename_i h4
            by_cases hc : n = t.childOf m (getIndexToInsertTo t (t.get m) key).1
            · refine ⟨m, ?_, h2, hc.symm, by rw [hc]; exact h4⟩
              unfold onPath; left; rfl
            · obtain ⟨g, hp, hg1, hg2, hg3⟩ := target_parent key fuel t _ h hc
              refine ⟨g, ?_, hg1, hg2, hg3⟩
              unfold onPath
              right
              exact ⟨by simpa using h1, h2, h4, hp⟩
      · split at h
        · cases h
        · cases h; exact absurd rfl hnm

/-! Insert proofs for Model B, part 26: STAGE 4 theorem. -/

theorem child_zero_of_gt {t : BTree} {nd : Node} (hs : NodeShape t nd) {j : Nat} (hj : nd.count < j) : nd.child j = 0 := by
  unfold Node.child
  cases hc : nd.children with
  | none => rfl
  | some cs =>
    have hz := (hs.2.2.2.2 cs hc)
    simp only [Option.getD_some]
    by_cases hlt : j < cs.size
    · apply hz.2
      rw [List.mem_drop_iff_getElem]
      exact ⟨j - (nd.count + 1), by simp; omega, by
        simp [Array.getD, hlt, show nd.count + 1 + (j - (nd.count + 1)) = j by omega]⟩
    · simp [Array.getD, hlt]

/-- STAGE 4: `Add` whose descent ends in a full NON-ROOT leaf whose parent has room (leaf load balancing
    off): the leaf is split, the new right sibling and the middle item go to the parent (`promote`, one step) -/
theorem addU_leaf_split_room (t : BTree) (uniq : Bool) (key : Int) (val : Nat) (n : NodeId) (i : Nat)
    (hwf : WF t) (hok : t.panicked = false) (hidle : Idle t) (hfresh : Fresh t) (hlb : t.lb = false)
    (htgt : addTargetOf t uniq key = .leaf n i)
    (hfull : ¬ ((addStart t uniq).1.get n).count < t.sl)
    (hnotroot : ((addStart t uniq).1.get n).isRoot = false)
    (hroom : ((addStart t uniq).1.get ((addStart t uniq).1.get n).parent).count < t.sl) :
    AddOk t key val (t.addU uniq key val) := by
  have so := addStart_ok t uniq hwf
  rw [addU_eq, htgt]
  unfold addTargetOf at htgt
  obtain ⟨saved, hsaved⟩ : ∃ b, b = ({ t with nextId := t.nextId + 1 } : BTree).getRootNode.1.unique := ⟨_, rfl⟩
  rw [← hsaved]
  have hsaved' : saved = t.unique := by rw [hsaved]; exact so.saved
  obtain ⟨T, hTdef⟩ : ∃ T, T = (addStart t uniq).1 := ⟨_, rfl⟩
  have hsl : T.sl = t.sl := by rw [hTdef]; exact so.sl
  have hroot : T.root ≠ 0 := by rw [hTdef]; exact so.root
  have hT : WF T := by rw [hTdef]; exact so.wf
  have hf : Fresh T := by rw [hTdef]; exact so.fresh hfresh
  have hfull' : ¬ (T.get n).count < T.sl := by rw [hsl, hTdef]; exact hfull
  have hnotroot' : (T.get n).isRoot = false := by rw [hTdef]; exact hnotroot
  have hroom' : (T.get (T.get n).parent).count < T.sl := by rw [hsl, hTdef]; exact hroom
  have hlb' : T.lb = false := by rw [hTdef, so.lb]; exact hlb
  have hok' : T.panicked = false := by rw [hTdef, so.ok]; exact hok
  rw [so.rootEq, ← hTdef] at htgt
  rw [← hTdef]
  simp only [Target.apply]
  have hw := hT
  unfold WF at hw
  rw [if_neg hroot] at hw
  obtain ⟨hsl2, hW, hN, hL, hC⟩ := hw
  obtain ⟨hleaf, hi⟩ := target_leaf key _ _ _ htgt
  -- the target is not the root
  have hnroot : n ≠ T.root := by
    intro e
    obtain ⟨_, rd, hgr, hpr, _⟩ := hW
    rw [e, get_of_get? hgr] at hnotroot'
    simp [Node.isRoot, hpr] at hnotroot'
  obtain ⟨g, hpath, hgch, hchildOf, hn0⟩ := target_parent key _ _ _ htgt hnroot
  obtain ⟨fq, pq, lq, hq, _, hWg, hNg, hlq, hhq⟩ :=
    onPath_wf key (T.nodes.length + 1) T.root 0 none none T.fuel hW hN (leO_none _) (oLe_none _)
      (by unfold BTree.fuel; omega) hpath
  cases fq with
  | zero => exact absurd hWg (by simp [WFNode])
  | succ f =>
  have hWg' := hWg
  obtain ⟨hg0, gnd, hgg, hgp, hgs, hgne, hgbody⟩ := hWg
  have hgetg := get_of_get? hgg
  rw [hgetg] at hgch hchildOf
  obtain ⟨cs, hcs⟩ : ∃ cs, gnd.children = some cs := by
    cases hh : gnd.children with
    | none => simp [Node.hasChildren, hh] at hgch
    | some cs => exact ⟨cs, rfl⟩
  rw [hcs] at hgbody
  simp only at hgbody
  have hkids : gnd.kids = cs.toList.take (gnd.count + 1) := by simp [Node.kids, hcs]
  have hka : Node.kidArr gnd = gnd.kids := by simp [Node.kidArr, hcs, hkids]
  rw [← hkids] at hgbody
  have hklen := Node.kids_length hgs
  have hilen := Node.items_length hgs
  have hsorted : Sorted gnd.items := (itemsOk_good _ _ _ (KidsOk.itemsOk _ _ _ _ (by omega) hgbody)).1
  obtain ⟨hidx, htake, hdrop⟩ := insIdx_spec T gnd key hgs hsorted
  obtain ⟨hce, hc0⟩ := childOf_eq (by rw [hchildOf]; exact hn0 : T.childOf g (getIndexToInsertTo T gnd key).1 ≠ 0)
  rw [hgetg] at hce hc0
  rw [hchildOf] at hce
  generalize hI : (getIndexToInsertTo T gnd key).1 = idx at *
  have hcI : gnd.kids.getD idx 0 = n := by rw [Node.kids_getD hgs hidx]; exact hce.symm
  have hIlt : idx < gnd.kids.length := by omega
  have hr := reach_succ (f := f) hg0 hgg
  rw [hr, hka] at hNg
  have hNg' := List.nodup_cons.mp hNg
  rcases KidsOk.at key idx gnd.kids gnd.items lq hq (by omega) (by omega) hgbody htake hdrop hlq hhq with
    hz | ⟨l2, h2, hwn, hl2, hh2⟩
  · rw [hcI] at hz; exact absurd hz hn0
  rw [hcI] at hwn
  cases f with
  | zero => exact absurd hwn (by simp [WFNode])
  | succ f =>
  have hwn' := hwn
  obtain ⟨_, nd, hgn, hnp, hns, _, hnbody⟩ := hwn
  have hgetn := get_of_get? hgn
  rw [hgetn] at hleaf hi hfull' hnotroot' hroom'
  rw [hnp, hgetg] at hroom'
  have hnch : nd.children = none := by
    cases hc : nd.children with
    | none => rfl
    | some cs => simp [Node.hasChildren, hc] at hleaf
  rw [hnch] at hnbody
  simp only at hnbody
  have hile : i ≤ nd.count := by
    rw [hi]; exact (insIdx_spec T nd key hns (itemsOk_good _ _ _ hnbody).1).1
  have hci : cs.getD idx 0 = n := by
    have : gnd.child idx = n := hce.symm
    simpa [Node.child, hcs] using this
  have huniq : ∀ j, cs.getD j 0 = n → j = idx := by
    intro j hj
    have hcj : gnd.child j = n := by simp [Node.child, hcs, hj]
    by_cases hjc : j ≤ gnd.count
    · by_cases hji : j = idx
      · exact hji
      · exfalso
        have hjl : j < gnd.kids.length := by omega
        have hkj : gnd.kids.getD j 0 = n := by rw [Node.kids_getD hgs hjc]; exact hcj
        have h1 : n ∈ reach T (f + 1) (gnd.kids.getD idx 0) := by rw [hcI]; exact self_mem_reach hwn'
        have h2' : n ∈ reach T (f + 1) (gnd.kids.getD j 0) := by rw [hkj]; exact self_mem_reach hwn'
        exact reach_disjoint hNg'.2 hIlt hjl (Ne.symm hji) h1 h2'
    · exfalso
      have := child_zero_of_gt hgs (Nat.lt_of_not_le hjc)
      rw [hcj] at this; exact hn0 this
  have hid : (⟨t.nextId, key, val⟩ : Item).id ≠ 0 := Nat.ne_of_gt hfresh.1
  obtain ⟨hloop, hloc, hlen, hfr, hkeep, hdist, hfields⟩ :=
    split4_localOk (T := T) (g := g) (n := n) (item := ⟨t.nextId, key, val⟩) (i := i) (idx := idx) saved
      hgg hgn hnp hg0 hn0 hgs hns hcs hidx hci huniq hroom' (by have := hns.2.1; omega) hnch hI.symm hi hile hf hsl2 hid hok'
  -- the model's computation
  have hpsome : (T.get? (T.get n).parent).isSome := by rw [hgetn, hnp, hgg]; rfl
  rw [addOnLeaf_leafSplit (by rw [hgetn]; exact hfull') (by rw [hgetn]; exact hnotroot') hlb' hpsome]
  have hd0 : (leafSplit T n ⟨t.nextId, key, val⟩ i).distSrc = 0 := by
    rw [hdist, hTdef, so.idle.1]; exact hidle.1
  unfold addFinish
  simp only [Bool.not_true, Bool.false_eq_true, if_false]
  rw [distributeLoop_idle (by exact hd0), hloop]
  -- from here on the result tree is opaque
  obtain ⟨T', hT'⟩ : ∃ T', T' = split4Result T saved n ⟨t.nextId, key, val⟩ i g gnd cs idx := ⟨_, rfl⟩
  rw [← hT'] at hloc hlen hfr hkeep hfields ⊢
  have hfld : ∀ {α : Type} (F : BTree → α), F ({ T' with nodes := T.nodes } : BTree) = F _ := fun F => congrArg F hfields
  have hroot' : T'.root = T.root := hfld (·.root)
  have hcount' : T'.count = T.count := hfld (·.count)
  have hu : T'.unique = saved := hfld (·.unique)
  have hasm := assembleG (T := T) (T' := T') (n := g) saved hT hroot hloc hroot' (by rw [hlen]; rfl) (Nat.zero_le _)
    hcount' hpath
  have heq : ({ T' with unique := saved, count := T'.count + 1 } : BTree) = { T' with count := T'.count + 1 } := by
    rw [← hu]
  rw [heq] at hasm
  obtain ⟨hWF, L, R, hA, hA', hLb, hRb⟩ := hasm
  have hTabs : T.abs = t.abs := by rw [hTdef]; exact so.abs
  rw [hTabs] at hA
  refine ⟨rfl, hWF, ?_, ⟨?_, ?_⟩, hfr, ?_, ⟨L, R, hA, hA', hLb, hRb⟩, ⟨?_, ?_, ?_, ?_, ?_, ?_⟩, ?_, ?_, ?_⟩
  · show T'.panicked = false
    rw [show T'.panicked = T.panicked from hfld (·.panicked)]; exact hok'
  · show T'.distSrc = 0
    rw [show T'.distSrc = T.distSrc from hfld (·.distSrc), hTdef, so.idle.1]; exact hidle.1
  · show T'.promTarget = 0
    exact hfld (·.promTarget)
  · show T'.count + 1 = t.count + 1; rw [hcount', hTdef, so.count]
  · show T'.sl = t.sl; rw [show T'.sl = T.sl from hfld (·.sl)]; exact hsl
  · show T'.unique = t.unique; rw [hu]; exact hsaved'
  · show T'.lb = t.lb; rw [show T'.lb = T.lb from hfld (·.lb), hTdef]; exact so.lb
  · show T'.fixFast = t.fixFast; rw [show T'.fixFast = T.fixFast from hfld (·.fixFast), hTdef]; exact so.fix.1
  · show T'.fixErr = t.fixErr; rw [show T'.fixErr = T.fixErr from hfld (·.fixErr), hTdef]; exact so.fix.2.1
  · show T'.fixId = t.fixId; rw [show T'.fixId = T.fixId from hfld (·.fixId), hTdef]; exact so.fix.2.2
  · show t.nextId < T'.nextId
    rw [show T'.nextId = T.nextId + 1 from hfld (·.nextId)]
    have : t.nextId < T.nextId := by rw [hTdef]; exact so.nextId
    omega
  · show T'.cur = t.cur
    rw [show T'.cur = T.cur from hfld (·.cur), hTdef]; exact so.cur
  · intro x hx
    have h1 : (T.get? x).isSome := by rw [hTdef]; exact so.keep x hx
    exact hkeep x h1

/-- non-vacuity of `addU_leaf_split_room`: slot length 2, root `[2]` over leaves `[1]` and `[3,4]`; `Add 5`
    splits the full right leaf and promotes `4` into the root, which has room -/
def exSplit : BTree := (BTree.new 2 false false true).run [.add 1 1, .add 2 2, .add 3 3, .add 4 4]

theorem exSplit_hyps : WF exSplit ∧ exSplit.panicked = false ∧ Idle exSplit ∧ Fresh exSplit ∧ exSplit.lb = false ∧
    addTargetOf exSplit false 5 = .leaf 5 2 ∧ ¬ ((addStart exSplit false).1.get 5).count < exSplit.sl ∧
    ((addStart exSplit false).1.get 5).isRoot = false ∧
    ((addStart exSplit false).1.get ((addStart exSplit false).1.get 5).parent).count < exSplit.sl := by
  refine ⟨checkWF_sound _ (by decide +kernel), by decide +kernel, ⟨by decide +kernel, by decide +kernel⟩,
    ⟨by decide +kernel, by decide +kernel⟩, by decide +kernel, by decide +kernel, by decide +kernel, by decide +kernel,
    by decide +kernel⟩

end Sop.BTree.Ins
