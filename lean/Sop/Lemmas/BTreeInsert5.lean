import Sop.Lemmas.BTreeInsert4
/-! # C17 update side, `Btree.Add`, STAGE 5 (part 1, pure) — the promote loop invariant: a split pending at a node
(`Pending`), the over-full virtual node (`virt`), the last step into a node with room (`room_step`), an inner
split (`split_step`); re-parenting a subtree; `updateChildrenParent`. -/
namespace Sop.BTree.Ins
open Sop.BTree
set_option linter.unusedVariables false
set_option linter.unusedSimpArgs false

/-! Insert proofs for Model B, part 27: STAGE 5 — foundations: re-parenting a subtree, `updateChildrenParent`,
splitting `KidsOk`/`weave` in two halves. -/

/-- a subtree whose root got a new parent link and whose other nodes are unchanged -/
theorem reparent {t t' : BTree} (hsl : t'.sl = t.sl) {f : Nat} {m p p' : NodeId} {lo hi : Option Int}
    (hW : WFNode t f m p lo hi) (hp0 : p ≠ 0)
    (hroot : t'.get? m = (t.get? m).map (fun y => { y with parent := p' }))
    (hrest : ∀ x ∈ reach t f m, x ≠ m → t'.get? x = t.get? x) (hnd : (reach t f m).Nodup) :
    WFNode t' f m p' lo hi ∧ absNode t' f m = absNode t f m ∧ reach t' f m = reach t f m := by
  cases f with
  | zero => exact absurd hW (by simp [WFNode])
  | succ f =>
    obtain ⟨hn, nd, hg, hp, hs, hne, hbody⟩ := hW
    have hr := reach_succ (f := f) hn hg
    have hg' : t'.get? m = some { nd with parent := p' } := by rw [hroot, hg]; rfl
    have hs' : NodeShape t' ({ nd with parent := p' } : Node) := nodeShape_congr hsl hs
    have hcnt : 1 ≤ nd.count := by rcases hne with h | h; exact absurd h hp0; exact h
    rw [hr] at hnd
    have hnd' := List.nodup_cons.mp hnd
    have hsub : ∀ c ∈ Node.kidArr nd, ∀ x ∈ reach t f c, t'.get? x = t.get? x := by
      intro c hc x hx
      have hxm : x ∈ (Node.kidArr nd).flatMap (reach t f) := List.mem_flatMap.mpr ⟨c, hc, hx⟩
      apply hrest x (by rw [hr]; exact List.mem_cons_of_mem _ hxm)
      intro e; exact hnd'.1 (e ▸ hxm)
    cases hc : nd.children with
    | none =>
      rw [hc] at hbody
      have hc' : ({ nd with parent := p' } : Node).children = none := hc
      refine ⟨⟨hn, _, hg', rfl, hs', Or.inr hcnt, by rw [hc']; exact hbody⟩, ?_, ?_⟩
      · simp [absNode, hn, hg, hg', hc, hc', Node.items]
      · rw [hr, reach_succ hn hg']; simp [Node.kidArr, hc, hc']
    | some cs =>
      rw [hc] at hbody
      have hc' : ({ nd with parent := p' } : Node).children = some cs := hc
      have hka : Node.kidArr nd = cs.toList.take (nd.count + 1) := by simp [Node.kidArr, hc]
      have hka' : Node.kidArr ({ nd with parent := p' } : Node) = cs.toList.take (nd.count + 1) := by
        simp [Node.kidArr, hc]
      have hkid : ∀ c ∈ cs.toList.take (nd.count + 1), c = 0 ∨ ∃ l h', WFNode t f c m l h' :=
        fun c hcm => KidsOk.mem _ _ _ _ hbody c hcm
      refine ⟨⟨hn, _, hg', rfl, hs', Or.inr hcnt, ?_⟩, ?_, ?_⟩
      · rw [hc']
        refine KidsOk.imp_mem _ _ _ _ ?_ hbody
        intro c hcm l h' hw
        exact (frame hsl f c m l h' (hsub c (by rw [hka]; exact hcm)) hw).1
      · simp only [absNode, hn, if_false, hg, hg', hc, hc']
        apply weave_congr
        intro c hcm
        rcases hkid c hcm with rfl | ⟨l, h', hw⟩
        · rw [absNode_zero, absNode_zero]
        · exact (frame hsl f c m l h' (hsub c (by rw [hka]; exact hcm)) hw).2.1
      · rw [hr, reach_succ hn hg', hka, hka']
        congr 1
        apply flatMap_congr'
        intro c hcm
        rcases hkid c hcm with rfl | ⟨l, h', hw⟩
        · rw [reach_zero, reach_zero]
        · exact (frame hsl f c m l h' (hsub c (by rw [hka]; exact hcm)) hw).2.2

/-! ### `updateChildrenParent` -/

theorem updParent_foldl (p : NodeId) : ∀ (l : List NodeId) (t : BTree) (x : NodeId),
    (l.foldl (fun t c => if c = 0 then t else t.upd c (fun y => { y with parent := p })) t).get? x =
      (t.get? x).map (fun y => if x ≠ 0 ∧ x ∈ l then { y with parent := p } else y)
  | [], t, x => by
    simp only [List.foldl_nil, List.not_mem_nil, and_false, if_false]
    cases t.get? x <;> rfl
  | c :: l, t, x => by
    rw [List.foldl_cons, updParent_foldl p l]
    by_cases hc0 : c = 0
    · rw [if_pos hc0]
      cases hg : t.get? x with
      | none => rfl
      | some y =>
        simp only [Option.map_some, Option.some.injEq, List.mem_cons]
        by_cases h1 : x ≠ 0 ∧ x ∈ l
        · rw [if_pos h1, if_pos ⟨h1.1, Or.inr h1.2⟩]
        · rw [if_neg h1, if_neg]
          rintro ⟨hx0, hx | hx⟩
          · exact hx0 (hx.trans hc0)
          · exact h1 ⟨hx0, hx⟩
    · rw [if_neg hc0, get?_upd _ c x (fun y => { y with parent := p }) (fun _ => rfl)]
      cases hg : t.get? x with
      | none => rfl
      | some y =>
        simp only [Option.map_some, Option.some.injEq, List.mem_cons]
        by_cases hxc : x = c
        · subst hxc
          simp only [if_true, hc0, ne_eq, not_false_eq_true, true_or, and_self]
          split <;> rfl
        · rw [if_neg hxc]
          by_cases h1 : x ≠ 0 ∧ x ∈ l
          · rw [if_pos h1, if_pos ⟨h1.1, Or.inr h1.2⟩]
          · rw [if_neg h1, if_neg]
            rintro ⟨hx0, hx | hx⟩
            · exact hxc hx
            · exact h1 ⟨hx0, hx⟩

theorem updateChildrenParent_get? (t : BTree) (p : NodeId) (ks : Array NodeId) (x : NodeId) :
    (t.updateChildrenParent p ks).get? x =
      (t.get? x).map (fun y => if x ≠ 0 ∧ x ∈ ks.toList then { y with parent := p } else y) := by
  unfold BTree.updateChildrenParent
  rw [← Array.foldl_toList]
  exact updParent_foldl p ks.toList t x

theorem updParent_foldl_fields (p : NodeId) : ∀ (l : List NodeId) (t : BTree),
    ({ (l.foldl (fun t c => if c = 0 then t else t.upd c (fun y => { y with parent := p })) t) with nodes := t.nodes } : BTree) = t ∧
    (l.foldl (fun t c => if c = 0 then t else t.upd c (fun y => { y with parent := p })) t).nodes.length = t.nodes.length ∧
    (Fresh t → Fresh (l.foldl (fun t c => if c = 0 then t else t.upd c (fun y => { y with parent := p })) t))
  | [], t => ⟨rfl, rfl, id⟩
  | c :: l, t => by
    rw [List.foldl_cons]
    by_cases hc0 : c = 0
    · rw [if_pos hc0]; exact updParent_foldl_fields p l t
    · rw [if_neg hc0]
      obtain ⟨h1, h2, h3⟩ := updParent_foldl_fields p l (t.upd c (fun y => { y with parent := p }))
      refine ⟨?_, by rw [h2]; simp, fun hf => h3 (fresh_upd hf c _ (fun _ => rfl))⟩
      have := congrArg (fun b : BTree => ({ b with nodes := t.nodes } : BTree)) h1
      exact this

/-! Insert proofs for Model B, part 28: STAGE 5 — splitting `KidsOk`/`weave` in two halves; id-array copies. -/

theorem KidsOk.items_ge {P : NodeId → Option Int → Option Int → Prop} {cs : List NodeId} {is : List Item}
    {lo hi : Option Int} (hl : cs.length = is.length + 1) (h : KidsOk P lo hi cs is) :
    ∀ y ∈ is, LeO lo y.key ∧ OLe y.key hi :=
  fun y hy => ⟨((itemsOk_good _ _ _ (KidsOk.itemsOk _ _ _ _ hl h)).2 y hy).1,
    ((itemsOk_good _ _ _ (KidsOk.itemsOk _ _ _ _ hl h)).2 y hy).2.1⟩

/-- the left half of a node's children/items, up to and including child `k`, bounded by item `k` -/
theorem KidsOk.takeSucc {P : NodeId → Option Int → Option Int → Prop} :
    ∀ (k : Nat) (cs : List NodeId) (is : List Item) (lo hi : Option Int), cs.length = is.length + 1 → k < is.length →
      KidsOk P lo hi cs is → KidsOk P lo (some (is.getD k {}).key) (cs.take (k + 1)) (is.take k)
  | _, [], _, _, _, hl, _, _ => by simp at hl
  | _, c :: cs, [], _, _, _, hk, _ => by simp at hk
  | 0, c :: cs, x :: is, lo, hi, _, _, h => by
    show KidsOk P lo (some x.key) [c] []
    exact ⟨h.1, rfl⟩
  | k + 1, c :: cs, x :: is, lo, hi, hl, hk, h => by
    show KidsOk P lo (some (is.getD k {}).key) (c :: cs.take (k + 1)) (x :: is.take k)
    have hk' : k < is.length := by simpa using hk
    have hmem : is.getD k {} ∈ is := by rw [getD_of_lt _ _ _ hk']; exact List.getElem_mem hk'
    have hge := (KidsOk.items_ge (by simpa using hl) h.2.2.2.2 _ hmem).1
    exact ⟨h.1, h.2.1, OLe_some_of_le (hge _ rfl), h.2.2.2.1,
      KidsOk.takeSucc k cs is (some x.key) hi (by simpa using hl) hk' h.2.2.2.2⟩

theorem weave_halves (g : NodeId → List Item) : ∀ (k : Nat) (cs : List NodeId) (is : List Item),
    cs.length = is.length + 1 → k < is.length →
    weave g cs is = weave g (cs.take (k + 1)) (is.take k) ++ is.getD k {} :: weave g (cs.drop (k + 1)) (is.drop (k + 1))
  | _, [], _, hl, _ => by simp at hl
  | _, c :: cs, [], _, hk => by simp at hk
  | 0, c :: cs, x :: is, _, _ => by simp [weave]
  | k + 1, c :: cs, x :: is, hl, hk => by
    show weave g (c :: cs) (x :: is) = weave g (c :: cs.take (k + 1)) (x :: is.take k) ++
      is.getD k {} :: weave g (cs.drop (k + 1)) (is.drop (k + 1))
    simp only [weave]
    rw [weave_halves g k cs is (by simpa using hl) (by simpa using hk)]
    simp [List.append_assoc]

theorem goCopy0Ids_toList (k : Nat) (src : Array NodeId) (s e : Nat) (hk : e - s ≤ k) (he : e ≤ src.size) :
    (goCopy (zeroIds k) 0 src s e).toList = (src.toList.drop s).take (e - s) ++ List.replicate (k - (e - s)) 0 := by
  unfold goCopy zeroIds
  have hlen : ((src.toList.drop s).take (e - s)).length = e - s := by simp; omega
  rw [writeAt0_toList _ _ _ (by rw [hlen]; exact hk), hlen]

theorem goCopy0Ids_size (k : Nat) (src : Array NodeId) (s e : Nat) : (goCopy (zeroIds k) 0 src s e).size = k := by
  simp [goCopy, writeAt_size, zeroIds]

/-! Insert proofs for Model B, part 29: STAGE 5 — the pending promotion and the virtual (over-full) node. -/

/-- in `Tk` the subtree `c` (child `idx` of `g` in `T`, at fuel `f`) has been split into `c` and the new `r`
    with separator `sep`; `g` itself has not been told yet -/
structure Pending (T Tk : BTree) (item : Item) (g c r : NodeId) (sep : Item) (f : Nat) (news : List NodeId) : Prop where
  sl : Tk.sl = T.sl
  frame : ∀ x, (T.get? x).isSome → x ∉ reach T f c → Tk.get? x = T.get? x
  newsNone : ∀ x ∈ news, T.get? x = none
  newsNodup : news.Nodup
  reach : (reach Tk f c ++ reach Tk f r).Perm (reach T f c ++ news)
  wf : ∀ l h, WFNode T f c g l h → LeO l item.key → OLe item.key h →
    WFNode Tk f c g l (some sep.key) ∧ WFNode Tk f r g (some sep.key) h ∧ LeO l sep.key ∧ OLe sep.key h ∧ sep.id ≠ 0
  abs : ∀ l h, WFNode T f c g l h → LeO l item.key → OLe item.key h →
    ∃ L R, absNode T f c = L ++ R ∧ absNode Tk f c ++ sep :: absNode Tk f r = L ++ item :: R ∧
      (∀ x ∈ L, x.key < item.key) ∧ (∀ x ∈ R, item.key ≤ x.key)

/-- the children/items of `g` with the pending separator and right sibling inserted -/
def kidsIns (nd : Node) (idx : Nat) (r : NodeId) : List NodeId := nd.kids.take (idx + 1) ++ r :: nd.kids.drop (idx + 1)
def itemsIns (nd : Node) (idx : Nat) (sep : Item) : List Item := nd.items.take idx ++ sep :: nd.items.drop idx

/-- VIRTUAL NODE: seen from `g`, the pending split is a well-formed over-full node in `Tk` -/
theorem virt {T Tk : BTree} {item : Item} {g gg c r : NodeId} {sep : Item} {f : Nat} {news : List NodeId}
    {lo hi : Option Int} {gnd : Node} {idx : Nat}
    (hP : Pending T Tk item g c r sep f news)
    (hW : WFNode T (f + 1) g gg lo hi) (hN : (reach T (f + 1) g).Nodup) (hlo : LeO lo item.key) (hhi : OLe item.key hi)
    (hgg : T.get? g = some gnd) (hgch : gnd.hasChildren = true)
    (hidx : idx = (getIndexToInsertTo T gnd item.key).1) (hchild : gnd.child idx = c) (hc0 : c ≠ 0) :
    Tk.get? g = some gnd ∧ idx ≤ gnd.count ∧
    KidsOk (fun x l h => WFNode Tk f x g l h) lo hi (kidsIns gnd idx r) (itemsIns gnd idx sep) ∧
    ((kidsIns gnd idx r).flatMap (reach Tk f)).Perm (gnd.kids.flatMap (reach T f) ++ news) ∧
    (∃ L R, absNode T (f + 1) g = L ++ R ∧
      weave (absNode Tk f) (kidsIns gnd idx r) (itemsIns gnd idx sep) = L ++ item :: R ∧
      (∀ x ∈ L, x.key < item.key) ∧ (∀ x ∈ R, item.key ≤ x.key)) ∧
    (∀ x, (T.get? x).isSome → x ∉ reach T (f + 1) g → Tk.get? x = T.get? x) ∧
    g ∉ (kidsIns gnd idx r).flatMap (reach Tk f) ∧ ((kidsIns gnd idx r).flatMap (reach Tk f)).Nodup := by
  obtain ⟨hg0, nd0, hg1, hp, hs, hne, hbody⟩ := hW
  rw [hgg] at hg1; cases hg1
  obtain ⟨cs, hcs⟩ : ∃ cs, gnd.children = some cs := by
    cases hh : gnd.children with
    | none => simp [Node.hasChildren, hh] at hgch
    | some cs => exact ⟨cs, rfl⟩
  rw [hcs] at hbody
  simp only at hbody
  have hkids : gnd.kids = cs.toList.take (gnd.count + 1) := by simp [Node.kids, hcs]
  have hka : Node.kidArr gnd = gnd.kids := by simp [Node.kidArr, hcs, hkids]
  rw [← hkids] at hbody
  have hklen := Node.kids_length hs
  have hilen := Node.items_length hs
  have hsorted : Sorted gnd.items := (itemsOk_good _ _ _ (KidsOk.itemsOk _ _ _ _ (by omega) hbody)).1
  obtain ⟨hidx', htake, hdrop⟩ := insIdx_spec T gnd item.key hs hsorted
  rw [← hidx] at hidx' htake hdrop
  have hcI : gnd.kids.getD idx 0 = c := by rw [Node.kids_getD hs hidx']; exact hchild
  have hIlt : idx < gnd.kids.length := by omega
  have hr := reach_succ (f := f) hg0 hgg
  rw [hr, hka] at hN
  have hN' := List.nodup_cons.mp hN
  have hcmem : c ∈ gnd.kids := by rw [← hcI, getD_of_lt _ _ _ hIlt]; exact List.getElem_mem hIlt
  have hgc : g ∉ reach T f c := fun hh => hN'.1 (List.mem_flatMap.mpr ⟨c, hcmem, hh⟩)
  have hgk : Tk.get? g = some gnd := by rw [hP.frame g (by simp [hgg]) hgc]; exact hgg
  -- siblings are untouched
  have hsib : ∀ j, j < gnd.kids.length → j ≠ idx → ∀ l2 h2, WFNode T f (gnd.kids.getD j 0) g l2 h2 →
      WFNode Tk f (gnd.kids.getD j 0) g l2 h2 ∧
      absNode Tk f (gnd.kids.getD j 0) = absNode T f (gnd.kids.getD j 0) ∧
      reach Tk f (gnd.kids.getD j 0) = reach T f (gnd.kids.getD j 0) := by
    intro j hj hji l2 h2 hw
    refine frame hP.sl f _ g l2 h2 ?_ hw
    intro x hx
    apply hP.frame x (mem_reach_isSome T _ _ x hx)
    intro hh
    have hh' : x ∈ reach T f (gnd.kids.getD idx 0) := by rw [hcI]; exact hh
    exact reach_disjoint hN'.2 hIlt hj (Ne.symm hji) hh' hx
  have hsibA : ∀ x, (∃ j, j < gnd.kids.length ∧ j ≠ idx ∧ x = gnd.kids.getD j 0) →
      absNode Tk f x = absNode T f x := by
    rintro x ⟨j, hj, hji, rfl⟩
    have hm : gnd.kids.getD j 0 ∈ gnd.kids := by rw [getD_of_lt _ _ _ hj]; exact List.getElem_mem hj
    rcases KidsOk.mem _ _ _ _ hbody _ hm with h0' | ⟨l2, h2', hw⟩
    · rw [h0', absNode_zero, absNode_zero]
    · exact (hsib j hj hji l2 h2' hw).2.1
  have hperm : ((kidsIns gnd idx r).flatMap (reach Tk f)).Perm (gnd.kids.flatMap (reach T f) ++ news) := by
    refine flatMap_insert_perm r idx gnd.kids hIlt ?_ ?_
    · rw [hcI]; exact hP.reach
    · intro j hj hji
      have hm : gnd.kids.getD j 0 ∈ gnd.kids := by rw [getD_of_lt _ _ _ hj]; exact List.getElem_mem hj
      rcases KidsOk.mem _ _ _ _ hbody _ hm with h0' | ⟨l2, h2', hw⟩
      · rw [h0', reach_zero, reach_zero]
      · exact (hsib j hj hji l2 h2' hw).2.2
  have hndT : (gnd.kids.flatMap (reach T f) ++ news).Nodup := by
    rw [List.nodup_append]
    refine ⟨hN'.2, hP.newsNodup, ?_⟩
    intro a ha b hb e
    subst e
    obtain ⟨x, _, hx⟩ := List.mem_flatMap.mp ha
    have h1 := mem_reach_isSome T _ _ a hx
    rw [hP.newsNone a hb] at h1
    simp at h1
  refine ⟨hgk, hidx', ?_, hperm, ?_, ?_, ?_, hperm.nodup_iff.mpr hndT⟩
  rotate_left 3
  · intro hh
    rcases List.mem_append.mp (hperm.mem_iff.mp hh) with h1 | h1
    · exact hN'.1 h1
    · have := hP.newsNone g h1
      rw [hgg] at this; cases this
  · refine KidsOk.insertAt item.key r sep idx gnd.kids gnd.items lo hi (by omega) (by omega)
      hbody htake hdrop hlo hhi ?_ (by rw [hcI]; exact hc0) ?_
    · intro l2 h2 hw a b
      rw [hcI] at hw ⊢
      exact hP.wf l2 h2 hw a b
    · intro j hj hji l2 h2 hw
      exact (hsib j hj hji l2 h2 hw).1
  · rcases KidsOk.at item.key idx gnd.kids gnd.items lo hi (by omega) (by omega) hbody htake hdrop hlo hhi with
      hz | ⟨l3, h3, hw3, hl3, hh3⟩
    · rw [hcI] at hz; exact absurd hz hc0
    rw [hcI] at hw3
    obtain ⟨L, R, hA, hA', hLb, hRb⟩ := hP.abs l3 h3 hw3 hl3 hh3
    have hAg : absNode T (f + 1) g = weave (absNode T f) gnd.kids gnd.items := by
      rw [absNode]; simp [hg0, hgg, hcs, hkids]
    rw [hAg, weave_split _ idx gnd.kids gnd.items (by omega) (by omega)]
    unfold kidsIns itemsIns
    rw [weave_insert _ r _ idx gnd.kids gnd.items (by omega) (by omega), hcI, hA]
    have hpre : weave (absNode Tk f) (gnd.kids.take idx) (gnd.items.take idx) =
        weave (absNode T f) (gnd.kids.take idx) (gnd.items.take idx) := by
      apply weave_congr
      intro x hx
      obtain ⟨j, hj, rfl⟩ := List.mem_take_iff_getElem.mp hx
      apply hsibA
      exact ⟨j, by omega, by omega, (getD_of_lt _ _ _ (by omega)).symm⟩
    have hsuf : weaveTail (absNode Tk f) (gnd.kids.drop (idx + 1)) (gnd.items.drop idx) =
        weaveTail (absNode T f) (gnd.kids.drop (idx + 1)) (gnd.items.drop idx) := by
      apply weaveTail_congr
      intro x hx
      obtain ⟨j, hj, rfl⟩ := List.mem_drop_iff_getElem.mp hx
      apply hsibA
      exact ⟨idx + 1 + j, by omega, by omega, (getD_of_lt _ _ _ (by omega)).symm⟩
    rw [hpre, hsuf]
    refine ⟨weave (absNode T f) (gnd.kids.take idx) (gnd.items.take idx) ++ L,
      R ++ weaveTail (absNode T f) (gnd.kids.drop (idx + 1)) (gnd.items.drop idx), ?_, ?_, ?_, ?_⟩
    · simp [List.append_assoc]
    · have e : absNode Tk f c ++ sep :: (absNode Tk f r ++
          weaveTail (absNode T f) (gnd.kids.drop (idx + 1)) (gnd.items.drop idx)) =
          (absNode Tk f c ++ sep :: absNode Tk f r) ++
          weaveTail (absNode T f) (gnd.kids.drop (idx + 1)) (gnd.items.drop idx) := by simp
      rw [List.append_assoc, e, hA']
      simp [List.append_assoc]
    · intro x hx
      rcases List.mem_append.mp hx with hx | hx
      · exact prefix_lt item.key idx _ _ lo hi (by omega) hbody htake x hx
      · exact hLb x hx
    · intro x hx
      rcases List.mem_append.mp hx with hx | hx
      · exact hRb x hx
      · exact suffix_ge item.key idx _ _ lo hi (by omega) hbody hdrop x hx
  · intro x hs' hx
    apply hP.frame x hs'
    intro hh
    apply hx
    rw [hr, hka]
    exact List.mem_cons_of_mem _ (List.mem_flatMap.mpr ⟨c, hcmem, hh⟩)

/-! Insert proofs for Model B, part 30: STAGE 5 — the last promote step: the parent has room. -/

/-- the virtual node becomes real: `g` receives the separator and the new child; nothing else changes -/
theorem room_step {T Tk T' : BTree} {item : Item} {g gg r : NodeId} {sep : Item} {f : Nat} {news : List NodeId}
    {lo hi : Option Int} {gnd gnd' : Node} {idx : Nat} {cs' : Array NodeId}
    (hslk : Tk.sl = T.sl) (hsl' : T'.sl = T.sl) (hg0 : g ≠ 0) (hgp : gnd.parent = gg)
    (hV1 : KidsOk (fun x l h => WFNode Tk f x g l h) lo hi (kidsIns gnd idx r) (itemsIns gnd idx sep))
    (hV3 : ((kidsIns gnd idx r).flatMap (reach Tk f)).Perm (gnd.kids.flatMap (reach T f) ++ news))
    (hV2 : ∃ L R, absNode T (f + 1) g = L ++ R ∧
      weave (absNode Tk f) (kidsIns gnd idx r) (itemsIns gnd idx sep) = L ++ item :: R ∧
      (∀ x ∈ L, x.key < item.key) ∧ (∀ x ∈ R, item.key ≤ x.key))
    (hVg : g ∉ (kidsIns gnd idx r).flatMap (reach Tk f))
    (hother : ∀ x, x ≠ g → T'.get? x = Tk.get? x) (hgg' : T'.get? g = some gnd')
    (hG : NodeShape T' gnd' ∧ gnd'.parent = gnd.parent ∧ 1 ≤ gnd'.count ∧ gnd'.items = itemsIns gnd idx sep ∧
      gnd'.children = some cs' ∧ cs'.toList.take (gnd'.count + 1) = kidsIns gnd idx r)
    (hreachT : reach T (f + 1) g = g :: gnd.kids.flatMap (reach T f)) :
    WFNode T' (f + 1) g gg lo hi ∧ (reach T' (f + 1) g).Perm (reach T (f + 1) g ++ news) ∧
      ∃ L R, absNode T (f + 1) g = L ++ R ∧ absNode T' (f + 1) g = L ++ item :: R ∧
        (∀ x ∈ L, x.key < item.key) ∧ (∀ x ∈ R, item.key ≤ x.key) := by
  obtain ⟨hGs, hGp, hGcnt, hGi, hGc, hGk⟩ := hG
  have hslx : T'.sl = Tk.sl := by rw [hsl', hslk]
  have hk : ∀ x ∈ kidsIns gnd idx r, ∀ l h, WFNode Tk f x g l h →
      WFNode T' f x g l h ∧ absNode T' f x = absNode Tk f x ∧ reach T' f x = reach Tk f x := by
    intro x hx l h hw
    refine frame hslx f x g l h ?_ hw
    intro y hy
    apply hother y
    intro e
    exact hVg (e ▸ List.mem_flatMap.mpr ⟨x, hx, hy⟩)
  have hkA : Node.kidArr gnd' = kidsIns gnd idx r := by rw [← hGk]; simp [Node.kidArr, hGc]
  refine ⟨⟨hg0, gnd', hgg', by rw [hGp]; exact hgp, hGs, Or.inr hGcnt, ?_⟩, ?_, ?_⟩
  · rw [hGc]
    simp only
    rw [hGk, hGi]
    exact KidsOk.imp_mem _ _ _ _ (fun x hx l h hw => (hk x hx l h hw).1) hV1
  · rw [reach_succ hg0 hgg', hreachT, hkA, List.cons_append]
    apply List.Perm.cons
    have : (kidsIns gnd idx r).flatMap (reach T' f) = (kidsIns gnd idx r).flatMap (reach Tk f) := by
      apply flatMap_congr'
      intro x hx
      rcases KidsOk.mem _ _ _ _ hV1 x hx with h0 | ⟨l, h, hw⟩
      · rw [h0, reach_zero, reach_zero]
      · exact (hk x hx l h hw).2.2
    rw [this]; exact hV3
  · obtain ⟨L, R, hA, hA', hLb, hRb⟩ := hV2
    refine ⟨L, R, hA, ?_, hLb, hRb⟩
    rw [absNode]
    simp only [hg0, if_false, hgg', hGc]
    rw [hGk, hGi, ← hA']
    apply weave_congr
    intro x hx
    rcases KidsOk.mem _ _ _ _ hV1 x hx with h0 | ⟨l, h, hw⟩
    · rw [h0, absNode_zero, absNode_zero]
    · exact (hk x hx l h hw).2.1

/-! Insert proofs for Model B, part 31: STAGE 5 — an inner promote step that splits the over-full node: pure part. -/

theorem mem_kid_reach {t : BTree} {f : Nat} {g : NodeId} {lo hi : Option Int} {K : List NodeId} {X : List Item}
    (h : KidsOk (fun x l h => WFNode t f x g l h) lo hi K X) {x : NodeId} (hx : x ∈ K) (hx0 : x ≠ 0) :
    x ∈ reach t f x := by
  rcases KidsOk.mem _ _ _ _ h x hx with h0 | ⟨l, h', hw⟩
  · exact absurd h0 hx0
  · exact self_mem_reach hw

/-- two different positions of the children list cannot hold the same non-nil node -/
theorem kid_pos_unique {t : BTree} {f : Nat} {g : NodeId} {lo hi : Option Int} {K : List NodeId} {X : List Item}
    (h : KidsOk (fun x l h => WFNode t f x g l h) lo hi K X) (hnd : (K.flatMap (reach t f)).Nodup)
    {j1 j2 : Nat} (h1 : j1 < K.length) (h2 : j2 < K.length) (he : K.getD j1 0 = K.getD j2 0) (h0 : K.getD j1 0 ≠ 0) :
    j1 = j2 := by
  by_cases hj : j1 = j2
  · exact hj
  · exfalso
    have hm1 : K.getD j1 0 ∈ K := by rw [getD_of_lt _ _ _ h1]; exact List.getElem_mem h1
    have hs := mem_kid_reach h hm1 h0
    have hs2 : K.getD j1 0 ∈ reach t f (K.getD j2 0) := by rw [← he]; exact hs
    exact reach_disjoint hnd h1 h2 hj hs hs2


theorem mem_reach_ne_zero (t : BTree) : ∀ (f : Nat) (m x : NodeId), x ∈ reach t f m → x ≠ 0
  | 0, _, _, h => by simp [reach] at h
  | f + 1, m, x, h => by
    by_cases hn : m = 0
    · subst hn; rw [reach_zero] at h; simp at h
    · cases hg : t.get? m with
      | none => simp [reach, hn, hg] at h
      | some nd =>
        rw [reach_succ hn hg] at h
        rcases List.mem_cons.mp h with rfl | h
        · exact hn
        · obtain ⟨c, _, hc⟩ := List.mem_flatMap.mp h
          exact mem_reach_ne_zero t f c x hc

/-- STAGE 5, pure part of an inner split: the over-full virtual node `g` is cut at the middle item into `g`
    (lower half) and the fresh `r'` (upper half); the upper children are re-parented -/
theorem split_step {T Tk T' : BTree} {item : Item} {g gg r r' : NodeId} {sep : Item} {f : Nat} {news : List NodeId}
    {lo hi : Option Int} {gnd gL gR : Node} {idx : Nat} {csL csR : Array NodeId}
    (hslk : Tk.sl = T.sl) (hsl' : T'.sl = T.sl) (hsl2 : 2 ≤ T.sl ∧ T.sl % 2 = 0)
    (hg0 : g ≠ 0) (hgg0 : gg ≠ 0) (hfull : gnd.count = T.sl) (hshape : NodeShape T gnd) (hidxle : idx ≤ gnd.count)
    (hV1 : KidsOk (fun x l h => WFNode Tk f x g l h) lo hi (kidsIns gnd idx r) (itemsIns gnd idx sep))
    (hV3 : ((kidsIns gnd idx r).flatMap (reach Tk f)).Perm (gnd.kids.flatMap (reach T f) ++ news))
    (hV2 : ∃ L R, absNode T (f + 1) g = L ++ R ∧
      weave (absNode Tk f) (kidsIns gnd idx r) (itemsIns gnd idx sep) = L ++ item :: R ∧
      (∀ x ∈ L, x.key < item.key) ∧ (∀ x ∈ R, item.key ≤ x.key))
    (hVg : g ∉ (kidsIns gnd idx r).flatMap (reach Tk f))
    (hVnd : ((kidsIns gnd idx r).flatMap (reach Tk f)).Nodup)
    (hr'k : Tk.get? r' = none) (hr'0 : r' ≠ 0)
    (hgL : T'.get? g = some gL) (hgR : T'.get? r' = some gR)
    (hother : ∀ y, y ≠ g → y ≠ r' → T'.get? y =
      ((Tk.get? y).map (fun n => if y ≠ 0 ∧ y ∈ (kidsIns gnd idx r).drop (T.sl / 2 + 1) then { n with parent := r' } else n)).map
        (fun n => if y ≠ 0 ∧ y ∈ (kidsIns gnd idx r).take (T.sl / 2 + 1) then { n with parent := g } else n))
    (hL : NodeShape T' gL ∧ gL.parent = gg ∧ gL.count = T.sl / 2 ∧ gL.items = (itemsIns gnd idx sep).take (T.sl / 2) ∧
      gL.children = some csL ∧ csL.toList.take (T.sl / 2 + 1) = (kidsIns gnd idx r).take (T.sl / 2 + 1))
    (hR : NodeShape T' gR ∧ gR.parent = gg ∧ gR.count = T.sl / 2 ∧ gR.items = (itemsIns gnd idx sep).drop (T.sl / 2 + 1) ∧
      gR.children = some csR ∧ csR.toList.take (T.sl / 2 + 1) = (kidsIns gnd idx r).drop (T.sl / 2 + 1))
    (hreachT : reach T (f + 1) g = g :: gnd.kids.flatMap (reach T f)) :
    WFNode T' (f + 1) g gg lo (some ((itemsIns gnd idx sep).getD (T.sl / 2) {}).key) ∧
    WFNode T' (f + 1) r' gg (some ((itemsIns gnd idx sep).getD (T.sl / 2) {}).key) hi ∧
    LeO lo ((itemsIns gnd idx sep).getD (T.sl / 2) {}).key ∧ OLe ((itemsIns gnd idx sep).getD (T.sl / 2) {}).key hi ∧
    ((itemsIns gnd idx sep).getD (T.sl / 2) {}).id ≠ 0 ∧
    (reach T' (f + 1) g ++ reach T' (f + 1) r').Perm (reach T (f + 1) g ++ (news ++ [r'])) ∧
    ∃ L R, absNode T (f + 1) g = L ++ R ∧
      absNode T' (f + 1) g ++ (itemsIns gnd idx sep).getD (T.sl / 2) {} :: absNode T' (f + 1) r' = L ++ item :: R ∧
      (∀ x ∈ L, x.key < item.key) ∧ (∀ x ∈ R, item.key ≤ x.key) := by
  obtain ⟨hLs, hLp, hLcnt, hLi, hLc, hLk⟩ := hL
  obtain ⟨hRs, hRp, hRcnt, hRi, hRc, hRk⟩ := hR
  have hhalf : T.sl = 2 * (T.sl / 2) := by omega
  have hklen0 := Node.kids_length hshape
  have hilen0 := Node.items_length hshape
  have hKlen : (kidsIns gnd idx r).length = T.sl + 2 := by
    unfold kidsIns; simp; omega
  have hXlen : (itemsIns gnd idx sep).length = T.sl + 1 := by
    unfold itemsIns; simp; omega
  generalize hK : kidsIns gnd idx r = K at *
  generalize hX : itemsIns gnd idx sep = X at *
  have hslx : T'.sl = Tk.sl := by rw [hsl', hslk]
  -- every child subtree, re-parented
  have hkid : ∀ j, j < K.length → K.getD j 0 ≠ 0 → ∀ l h, WFNode Tk f (K.getD j 0) g l h →
      WFNode T' f (K.getD j 0) (if j ≤ T.sl / 2 then g else r') l h ∧
      absNode T' f (K.getD j 0) = absNode Tk f (K.getD j 0) ∧ reach T' f (K.getD j 0) = reach Tk f (K.getD j 0) := by
    intro j hj hj0 l h hw
    have hjm : K.getD j 0 ∈ K := by rw [getD_of_lt _ _ _ hj]; exact List.getElem_mem hj
    have hxg : K.getD j 0 ≠ g := fun e => hVg (e ▸ List.mem_flatMap.mpr ⟨_, hjm, self_mem_reach hw⟩)
    have hxr : K.getD j 0 ≠ r' := by
      intro e
      obtain ⟨_, nd, hgx, _⟩ := (show WFNode Tk (f - 1 + 1) (K.getD j 0) g l h by
        cases f with
        | zero => exact absurd hw (by simp [WFNode])
        | succ f => exact hw)
      rw [e, hr'k] at hgx; cases hgx
    refine reparent hslx hw hg0 ?_ ?_ (reach_child_nodup hVnd hj)
    · rw [hother _ hxg hxr]
      by_cases hle : j ≤ T.sl / 2
      · rw [if_pos hle]
        have hin : K.getD j 0 ∈ K.take (T.sl / 2 + 1) := by
          rw [getD_of_lt _ _ _ hj]
          exact List.mem_take_iff_getElem.mpr ⟨j, by omega, rfl⟩
        have hnot : ¬ (K.getD j 0 ∈ K.drop (T.sl / 2 + 1)) := by
          intro hd
          obtain ⟨j2, hj2, e2⟩ := List.mem_drop_iff_getElem.mp hd
          have := kid_pos_unique hV1 hVnd hj (show T.sl / 2 + 1 + j2 < K.length by omega)
            (by rw [getD_of_lt _ _ _ (show T.sl / 2 + 1 + j2 < K.length by omega), e2]) hj0
          omega
        have c1 : K.getD j 0 ≠ 0 ∧ K.getD j 0 ∈ K.take (T.sl / 2 + 1) := ⟨hj0, hin⟩
        have c2 : ¬ (K.getD j 0 ≠ 0 ∧ K.getD j 0 ∈ K.drop (T.sl / 2 + 1)) := fun h => hnot h.2
        cases Tk.get? (K.getD j 0) with
        | none => rfl
        | some n => simp only [Option.map_some, if_pos c1, if_neg c2]
      · rw [if_neg hle]
        have hin : K.getD j 0 ∈ K.drop (T.sl / 2 + 1) := by
          rw [getD_of_lt _ _ _ hj]
          exact List.mem_drop_iff_getElem.mpr ⟨j - (T.sl / 2 + 1), by omega, by
            congr 1; omega⟩
        have hnot : ¬ (K.getD j 0 ∈ K.take (T.sl / 2 + 1)) := by
          intro hd
          obtain ⟨j2, hj2, e2⟩ := List.mem_take_iff_getElem.mp hd
          have := kid_pos_unique hV1 hVnd hj (show j2 < K.length by omega)
            (by rw [getD_of_lt _ _ _ (show j2 < K.length by omega), e2]) hj0
          omega
        have c1 : ¬ (K.getD j 0 ≠ 0 ∧ K.getD j 0 ∈ K.take (T.sl / 2 + 1)) := fun h => hnot h.2
        have c2 : K.getD j 0 ≠ 0 ∧ K.getD j 0 ∈ K.drop (T.sl / 2 + 1) := ⟨hj0, hin⟩
        cases Tk.get? (K.getD j 0) with
        | none => rfl
        | some n => simp only [Option.map_some, if_neg c1, if_pos c2]
    · intro y hy hyx
      have hy0 := mem_reach_ne_zero Tk f _ y hy
      have hyg : y ≠ g := fun e => hVg (e ▸ List.mem_flatMap.mpr ⟨_, hjm, hy⟩)
      have hyr : y ≠ r' := by
        intro e
        have := mem_reach_isSome Tk f _ y hy
        rw [e, hr'k] at this; simp at this
      have hyK : y ∉ K := by
        intro hyK
        obtain ⟨j2, hj2, e2⟩ := List.mem_iff_getElem.mp hyK
        have e2' : K.getD j2 0 = y := by rw [getD_of_lt _ _ _ hj2]; exact e2
        have hself : y ∈ reach Tk f (K.getD j2 0) := by
          rw [e2']
          have := mem_kid_reach hV1 hyK hy0
          exact this
        by_cases hjj : j2 = j
        · subst hjj; exact hyx e2'.symm
        · exact reach_disjoint hVnd hj hj2 (Ne.symm hjj) hy hself
      rw [hother y hyg hyr]
      have h1 : ¬ (y ≠ 0 ∧ y ∈ K.drop (T.sl / 2 + 1)) := fun h => hyK (List.mem_of_mem_drop h.2)
      have h2 : ¬ (y ≠ 0 ∧ y ∈ K.take (T.sl / 2 + 1)) := fun h => hyK (List.mem_of_mem_take h.2)
      cases Tk.get? y with
      | none => rfl
      | some n => simp only [Option.map_some, if_neg h1, if_neg h2]
  -- pointwise facts over the two halves
  have hkidz : ∀ j, j < K.length → (K.getD j 0 = 0 ∨ ∃ l h, WFNode Tk f (K.getD j 0) g l h) := by
    intro j hj
    have hjm : K.getD j 0 ∈ K := by rw [getD_of_lt _ _ _ hj]; exact List.getElem_mem hj
    exact KidsOk.mem _ _ _ _ hV1 _ hjm
  have hA : ∀ x ∈ K, absNode T' f x = absNode Tk f x := by
    intro x hx
    obtain ⟨j, hj, e⟩ := List.mem_iff_getElem.mp hx
    have e' : K.getD j 0 = x := by rw [getD_of_lt _ _ _ hj]; exact e
    rcases hkidz j hj with h0 | ⟨l, h, hw⟩
    · rw [← e', h0, absNode_zero, absNode_zero]
    · rw [← e']
      by_cases hz : K.getD j 0 = 0
      · rw [hz, absNode_zero, absNode_zero]
      · exact (hkid j hj hz l h hw).2.1
  have hRch : ∀ x ∈ K, reach T' f x = reach Tk f x := by
    intro x hx
    obtain ⟨j, hj, e⟩ := List.mem_iff_getElem.mp hx
    have e' : K.getD j 0 = x := by rw [getD_of_lt _ _ _ hj]; exact e
    rcases hkidz j hj with h0 | ⟨l, h, hw⟩
    · rw [← e', h0, reach_zero, reach_zero]
    · rw [← e']
      by_cases hz : K.getD j 0 = 0
      · rw [hz, reach_zero, reach_zero]
      · exact (hkid j hj hz l h hw).2.2
  have hmidmem : X.getD (T.sl / 2) {} ∈ X := by
    rw [getD_of_lt _ _ _ (by omega)]; exact List.getElem_mem _
  have hmid := (itemsOk_good _ _ _ (KidsOk.itemsOk _ _ _ _ (by omega) hV1)).2 _ hmidmem
  have hKL : KidsOk (fun x l h => WFNode T' f x g l h) lo (some (X.getD (T.sl / 2) {}).key)
      (K.take (T.sl / 2 + 1)) (X.take (T.sl / 2)) := by
    have h1 := KidsOk.takeSucc (T.sl / 2) K X lo hi (by omega) (by omega) hV1
    refine KidsOk.imp_idx _ _ _ _ ?_ h1
    intro j hj l h hw
    have hj' : j < T.sl / 2 + 1 := by simp at hj; omega
    have e : (K.take (T.sl / 2 + 1)).getD j 0 = K.getD j 0 := by
      simp only [List.getD_eq_getElem?_getD, List.getElem?_take, hj', if_true]
    rw [e] at hw ⊢
    by_cases hz : K.getD j 0 = 0
    · exfalso
      rw [hz] at hw
      cases f with
      | zero => exact absurd hw (by simp [WFNode])
      | succ f => exact hw.1 rfl
    · have := (hkid j (by omega) hz l h hw).1
      rwa [if_pos (by omega)] at this
  have hKR : KidsOk (fun x l h => WFNode T' f x r' l h) (some (X.getD (T.sl / 2) {}).key) hi
      (K.drop (T.sl / 2 + 1)) (X.drop (T.sl / 2 + 1)) := by
    have h1 := KidsOk.drop_succ (T.sl / 2) K X lo hi (by omega) hV1
    refine KidsOk.imp_idx _ _ _ _ ?_ h1
    intro j hj l h hw
    have hj' : T.sl / 2 + 1 + j < K.length := by simp at hj; omega
    have e : (K.drop (T.sl / 2 + 1)).getD j 0 = K.getD (T.sl / 2 + 1 + j) 0 := by
      simp only [List.getD_eq_getElem?_getD, List.getElem?_drop]
    rw [e] at hw ⊢
    by_cases hz : K.getD (T.sl / 2 + 1 + j) 0 = 0
    · exfalso
      rw [hz] at hw
      cases f with
      | zero => exact absurd hw (by simp [WFNode])
      | succ f => exact hw.1 rfl
    · have := (hkid _ hj' hz l h hw).1
      rwa [if_neg (by omega)] at this
  have hkAL : Node.kidArr gL = K.take (T.sl / 2 + 1) := by rw [← hLk]; simp [Node.kidArr, hLc, hLcnt]
  have hkAR : Node.kidArr gR = K.drop (T.sl / 2 + 1) := by rw [← hRk]; simp [Node.kidArr, hRc, hRcnt]
  have hAL : absNode T' (f + 1) g = weave (absNode Tk f) (K.take (T.sl / 2 + 1)) (X.take (T.sl / 2)) := by
    rw [absNode]
    simp only [hg0, if_false, hgL, hLc]
    rw [hLcnt, hLk, hLi]
    exact weave_congr _ _ (fun x hx => hA x (List.mem_of_mem_take hx))
  have hAR : absNode T' (f + 1) r' = weave (absNode Tk f) (K.drop (T.sl / 2 + 1)) (X.drop (T.sl / 2 + 1)) := by
    rw [absNode]
    simp only [hr'0, if_false, hgR, hRc]
    rw [hRcnt, hRk, hRi]
    exact weave_congr _ _ (fun x hx => hA x (List.mem_of_mem_drop hx))
  have hRL : reach T' (f + 1) g = g :: (K.take (T.sl / 2 + 1)).flatMap (reach Tk f) := by
    rw [reach_succ hg0 hgL, hkAL]
    congr 1
    exact flatMap_congr' _ (fun x hx => hRch x (List.mem_of_mem_take hx))
  have hRR : reach T' (f + 1) r' = r' :: (K.drop (T.sl / 2 + 1)).flatMap (reach Tk f) := by
    rw [reach_succ hr'0 hgR, hkAR]
    congr 1
    exact flatMap_congr' _ (fun x hx => hRch x (List.mem_of_mem_drop hx))
  refine ⟨⟨hg0, gL, hgL, hLp, hLs, Or.inr (by rw [hLcnt]; omega), ?_⟩,
    ⟨hr'0, gR, hgR, hRp, hRs, Or.inr (by rw [hRcnt]; omega), ?_⟩, hmid.1, hmid.2.1, hmid.2.2, ?_, ?_⟩
  · rw [hLc]; simp only; rw [hLcnt, hLk, hLi]; exact hKL
  · rw [hRc]; simp only; rw [hRcnt, hRk, hRi]; exact hKR
  · rw [hRL, hRR, hreachT]
    have hsplit : K.flatMap (reach Tk f) =
        (K.take (T.sl / 2 + 1)).flatMap (reach Tk f) ++ (K.drop (T.sl / 2 + 1)).flatMap (reach Tk f) := by
      rw [← List.flatMap_append, List.take_append_drop]
    rw [hsplit] at hV3
    simp only [List.cons_append]
    apply List.Perm.cons
    refine (List.perm_middle).trans ?_
    refine (List.Perm.cons r' hV3).trans ?_
    rw [← List.append_assoc]
    exact (List.perm_append_singleton r' _).symm
  · obtain ⟨L, R, hA0, hA1, hLb, hRb⟩ := hV2
    refine ⟨L, R, hA0, ?_, hLb, hRb⟩
    rw [hAL, hAR, ← hA1]
    exact (weave_halves _ (T.sl / 2) K X (by omega) (by omega)).symm

end Sop.BTree.Ins
