import Sop.Lemmas.BTreeInsert5
/-! # C17 update side, `Btree.Add`, STAGE 5 (part 2) — `promoteStep` on a full non-root inner node spelled out
(`promoteStep_split`), its arrays as lists, the loop state `PState`, its base case after the leaf split
(`leaf_pstate`) and its preservation by one splitting step (`inner_step`). -/
namespace Sop.BTree.Ins
open Sop.BTree
set_option linter.unusedVariables false
set_option linter.unusedSimpArgs false

/-! Insert proofs for Model B, part 32: STAGE 5 — `promoteStep` on a full non-root node, spelled out. -/

/-- the `sl + 1` items of the over-full node -/
def innerTemp (t : BTree) (gnd : Node) (idx : Nat) : Array Item :=
  (shiftSlots (goCopy (zeros (t.sl + 1)) 0 gnd.slots 0 t.sl) idx t.sl).setIfInBounds idx t.tempParent

/-- the `sl + 2` children of the over-full node -/
def innerTc (t : BTree) (gnd : Node) (cs : Array NodeId) (idx : Nat) : Array NodeId :=
  (shiftSlots ((goCopy (zeroIds (t.sl + 2)) 0 cs 0 (t.sl + 1)).setIfInBounds idx t.tpc0) (idx + 1)
    (gnd.count + 1)).setIfInBounds (idx + 1) t.tpc1

def innerRight (t : BTree) (gnd : Node) (temp : Array Item) (tc : Array NodeId) : Node :=
  { id := t.nextId, parent := gnd.parent, slots := goCopy (zeros t.sl) 0 temp (t.sl / 2 + 1) (t.sl / 2 + 1 + t.sl / 2),
    count := t.sl / 2,
    children := some (goCopy (zeroIds (t.sl + 1)) 0 tc (t.sl / 2 + 1) (t.sl / 2 + 1 + t.sl / 2 + 1)), ion := -1 }

def innerLeftF (t : BTree) (temp : Array Item) (tc : Array NodeId) (x : Node) : Node :=
  { x with slots := goCopy (zeros x.slots.size) 0 temp 0 (t.sl / 2), count := t.sl / 2,
           children := some (goCopy (zeroIds (t.sl + 1)) 0 tc 0 (t.sl / 2 + 1)) }

def setTemp (t : BTree) (a : Item) (b c : NodeId) : BTree := { t with tempParent := a, tpc0 := b, tpc1 := c }
def setProm (t : BTree) (p : NodeId) (i : Int) : BTree := { t with promTarget := p, promIdx := i }

/-- a splitting `promote` step after the new right node was stored -/
def innerT4 (t : BTree) (g : NodeId) (gnd : Node) (cs : Array NodeId) (idx : Nat) : BTree :=
  ((({ t with nextId := t.nextId + 1 } : BTree).upd g (innerLeftF t (innerTemp t gnd idx) (innerTc t gnd cs idx))).updateChildrenParent
    (innerRight t gnd (innerTemp t gnd idx) (innerTc t gnd cs idx)).id
    ((innerRight t gnd (innerTemp t gnd idx) (innerTc t gnd cs idx)).children.getD #[])).put
    (innerRight t gnd (innerTemp t gnd idx) (innerTc t gnd cs idx))

/-- the state of a splitting `promote` step just before it looks up the grandparent -/
def innerPre (t : BTree) (g : NodeId) (gnd : Node) (cs : Array NodeId) (idx : Nat) : BTree :=
  setTemp ((innerT4 t g gnd cs idx).updateChildrenParent g (((innerT4 t g gnd cs idx).get g).children.getD #[]))
    ((innerTemp t gnd idx).getD (t.sl / 2) {}) g (innerRight t gnd (innerTemp t gnd idx) (innerTc t gnd cs idx)).id

/-- the tail of a splitting `promote` step: look up the grandparent and the node's index in it -/
def innerTail (pre : BTree) (g : NodeId) : BTree :=
  if pre.parentOf g = 0 then pre.panic
  else setProm (pre.getIndexOfChild (pre.parentOf g) g).1 (pre.parentOf g) (pre.getIndexOfChild (pre.parentOf g) g).2

def innerSplit (t : BTree) (g : NodeId) (gnd : Node) (cs : Array NodeId) (idx : Nat) : BTree :=
  innerTail (innerPre t g gnd cs idx) g

theorem promoteStep_split {t : BTree} {g : NodeId} {gnd : Node} {cs : Array NodeId} {idx : Nat}
    (hg : t.get? g = some gnd) (hcs : gnd.children = some cs) (hfull : ¬ gnd.count < t.sl) (hidx : idx ≤ t.sl)
    (hnr : gnd.isRoot = false) :
    t.promoteStep g (idx : Int) = innerSplit t g gnd cs idx := by
  unfold BTree.promoteStep
  simp only [get_of_get? hg, hcs]
  have h1 : ¬ ((idx : Int) < 0) := by omega
  have h2 : ¬ idx > t.sl := by omega
  simp only [h1, if_false, hfull, Int.toNat_natCast, h2, hnr, Bool.false_eq_true]
  unfold innerSplit innerTail innerPre innerT4 innerRight innerLeftF innerTemp innerTc setTemp setProm BTree.newNode BTree.newId
  simp only []

/-! Insert proofs for Model B, part 33: STAGE 5 — lookups after a splitting `promote` step. -/

theorem innerT4_get? (t : BTree) (g : NodeId) (gnd : Node) (cs : Array NodeId) (idx : Nat) (y : NodeId) :
    (innerT4 t g gnd cs idx).get? y =
      if t.nextId = y then some (innerRight t gnd (innerTemp t gnd idx) (innerTc t gnd cs idx))
      else ((t.get? y).map (fun n => if y = g then innerLeftF t (innerTemp t gnd idx) (innerTc t gnd cs idx) n else n)).map
        (fun n => if y ≠ 0 ∧ y ∈ (goCopy (zeroIds (t.sl + 1)) 0 (innerTc t gnd cs idx) (t.sl / 2 + 1)
          (t.sl / 2 + 1 + t.sl / 2 + 1)).toList then { n with parent := t.nextId } else n) := by
  unfold innerT4
  rw [get?_put]
  have h1 : (innerRight t gnd (innerTemp t gnd idx) (innerTc t gnd cs idx)).id = t.nextId := rfl
  rw [h1, updateChildrenParent_get?,
    get?_upd _ g y (innerLeftF t (innerTemp t gnd idx) (innerTc t gnd cs idx)) (fun _ => rfl)]
  rfl

theorem innerPre_get? (t : BTree) (g : NodeId) (gnd : Node) (cs : Array NodeId) (idx : Nat) (y : NodeId) :
    (innerPre t g gnd cs idx).get? y =
      ((innerT4 t g gnd cs idx).get? y).map (fun n => if y ≠ 0 ∧ y ∈ (((innerT4 t g gnd cs idx).get g).children.getD #[]).toList
        then { n with parent := g } else n) := by
  unfold innerPre setTemp
  have h2 : ∀ (B : BTree) (a : Item) (b c : NodeId), ({ B with tempParent := a, tpc0 := b, tpc1 := c } : BTree).get? y = B.get? y :=
    fun _ _ _ _ => rfl
  rw [h2, updateChildrenParent_get?]


theorem ucp_fields (t : BTree) (p : NodeId) (ks : Array NodeId) :
    ({ t.updateChildrenParent p ks with nodes := t.nodes } : BTree) = t ∧
    (t.updateChildrenParent p ks).nodes.length = t.nodes.length ∧
    (Fresh t → Fresh (t.updateChildrenParent p ks)) := by
  unfold BTree.updateChildrenParent
  rw [← Array.foldl_toList]
  exact updParent_foldl_fields p ks.toList t

/-- the fields of the state before the grandparent lookup -/
theorem innerPre_fields (t : BTree) (g : NodeId) (gnd : Node) (cs : Array NodeId) (idx : Nat)
    (hnone : t.get? t.nextId = none) :
    ({ innerPre t g gnd cs idx with nodes := t.nodes } : BTree) =
      { t with nextId := t.nextId + 1, tempParent := (innerTemp t gnd idx).getD (t.sl / 2) {}, tpc0 := g, tpc1 := t.nextId } ∧
    (innerPre t g gnd cs idx).nodes.length = t.nodes.length + 1 ∧
    (Fresh t → Fresh (innerPre t g gnd cs idx)) := by
  obtain ⟨A, hA⟩ : ∃ A, A = ({ t with nextId := t.nextId + 1 } : BTree).upd g
      (innerLeftF t (innerTemp t gnd idx) (innerTc t gnd cs idx)) := ⟨_, rfl⟩
  have hAf : ({ A with nodes := t.nodes } : BTree) = { t with nextId := t.nextId + 1 } := by rw [hA]; rfl
  have hAl : A.nodes.length = t.nodes.length := by rw [hA]; simp
  have hAg : A.get? t.nextId = none := by
    rw [hA, get?_upd _ g _ (innerLeftF t _ _) (fun _ => rfl)]
    show Option.map _ (t.get? t.nextId) = none
    rw [hnone]; rfl
  obtain ⟨hB1, hB2, hB3⟩ := ucp_fields A t.nextId
    ((innerRight t gnd (innerTemp t gnd idx) (innerTc t gnd cs idx)).children.getD #[])
  obtain ⟨B, hB⟩ : ∃ B, B = A.updateChildrenParent t.nextId
      ((innerRight t gnd (innerTemp t gnd idx) (innerTc t gnd cs idx)).children.getD #[]) := ⟨_, rfl⟩
  rw [← hB] at hB1 hB2 hB3
  have hBg : B.get? t.nextId = none := by
    rw [hB, updateChildrenParent_get?, hAg]; rfl
  have hT4 : innerT4 t g gnd cs idx = B.put (innerRight t gnd (innerTemp t gnd idx) (innerTc t gnd cs idx)) := by
    unfold innerT4; rw [hB, hA]; rfl
  obtain ⟨C, hC⟩ : ∃ C, C = B.put (innerRight t gnd (innerTemp t gnd idx) (innerTc t gnd cs idx)) := ⟨_, rfl⟩
  have hCf : ({ C with nodes := B.nodes } : BTree) = B := by rw [hC]; rfl
  have hCl : C.nodes.length = B.nodes.length + 1 := by
    rw [hC]; exact put_length_fresh B _ (by exact hBg)
  obtain ⟨hD1, hD2, hD3⟩ := ucp_fields C g ((C.get g).children.getD #[])
  have hP : innerPre t g gnd cs idx = setTemp (C.updateChildrenParent g ((C.get g).children.getD #[]))
      ((innerTemp t gnd idx).getD (t.sl / 2) {}) g t.nextId := by
    unfold innerPre; rw [hT4, ← hC]; rfl
  obtain ⟨D, hD⟩ : ∃ D, D = C.updateChildrenParent g ((C.get g).children.getD #[]) := ⟨_, rfl⟩
  rw [← hD] at hD1 hD2 hD3 hP
  rw [hP]
  refine ⟨?_, ?_, ?_⟩
  · have e1 : ({ D with nodes := t.nodes } : BTree) = { t with nextId := t.nextId + 1 } := by
      have h1 := congrArg (fun b : BTree => ({ b with nodes := t.nodes } : BTree)) hD1
      have h2 := congrArg (fun b : BTree => ({ b with nodes := t.nodes } : BTree)) hCf
      have h3 := congrArg (fun b : BTree => ({ b with nodes := t.nodes } : BTree)) hB1
      simp only at h1 h2 h3
      rw [h1, h2, h3, hAf]
    have := congrArg (fun b : BTree => setTemp b ((innerTemp t gnd idx).getD (t.sl / 2) {}) g t.nextId) e1
    exact this
  · show D.nodes.length = _
    rw [hD2, hCl, hB2, hAl]
  · intro hf
    show Fresh (setTemp D _ _ _)
    have hfA : Fresh A := by
      rw [hA]
      have h0 : Fresh ({ t with nextId := t.nextId + 1 } : BTree) :=
        ⟨Nat.succ_pos _, fun x hx => Nat.lt_succ_of_lt (hf.2 x hx)⟩
      exact fresh_upd h0 g _ (fun _ => rfl)
    have hfC : Fresh C := by
      rw [hC]; exact fresh_put (hB3 hfA) (by
        show t.nextId < B.nextId
        have h9 := congrArg (fun b : BTree => b.nextId) hB1
        have : B.nextId = A.nextId := h9
        rw [this, hA]; show t.nextId < t.nextId + 1; omega)
    exact hD3 hfC

/-! Insert proofs for Model B, part 34: STAGE 5 — the arrays of a splitting `promote` step as lists. -/

theorem innerTemp_toList {t : BTree} {gnd : Node} {idx : Nat} (hs : NodeShape t gnd) (hfull : gnd.count = t.sl)
    (hidx : idx ≤ gnd.count) :
    (innerTemp t gnd idx).toList = itemsIns gnd idx t.tempParent ∧ (innerTemp t gnd idx).size = t.sl + 1 := by
  have hsz : (goCopy (zeros (t.sl + 1)) 0 gnd.slots 0 t.sl).size = t.sl + 1 := goCopy0_size _ _ _ _
  have h0 : (goCopy (zeros (t.sl + 1)) 0 gnd.slots 0 t.sl).toList = gnd.slots.toList ++ [({} : Item)] := by
    rw [goCopy0_toList _ _ _ _ (by omega) (by rw [hs.1]; omega)]
    simp [List.take_of_length_le, hs.1]
  have hsize : (innerTemp t gnd idx).size = t.sl + 1 := by unfold innerTemp; rw [shiftSet_size, hsz]
  refine ⟨?_, hsize⟩
  have hitems : gnd.items = gnd.slots.toList := by
    unfold Node.items; rw [List.take_of_length_le (by simp; have := hs.1; omega)]
  have := shiftSet_take (goCopy (zeros (t.sl + 1)) 0 gnd.slots 0 t.sl) idx t.sl t.tempParent (by omega) (by omega)
  have hall : (innerTemp t gnd idx).toList.take (t.sl + 1) = (innerTemp t gnd idx).toList :=
    List.take_of_length_le (by simp [hsize])
  have e1 : (goCopy (zeros (t.sl + 1)) 0 gnd.slots 0 t.sl).toList.take t.sl = gnd.items := by
    rw [h0, List.take_append_of_le_length (by simp [hs.1]), List.take_of_length_le (by simp [hs.1]), hitems]
  unfold innerTemp at hall ⊢
  rw [← hall, this, e1]
  rfl

theorem innerTc_toList {t : BTree} {gnd : Node} {cs : Array NodeId} {idx : Nat} (hs : NodeShape t gnd)
    (hcs : gnd.children = some cs) (hfull : gnd.count = t.sl) (hidx : idx ≤ gnd.count)
    (hci : cs.getD idx 0 = t.tpc0) :
    (innerTc t gnd cs idx).toList = kidsIns gnd idx t.tpc1 ∧ (innerTc t gnd cs idx).size = t.sl + 2 := by
  have hcsz : cs.size = t.sl + 1 := (hs.2.2.2.2 cs hcs).1
  have hkids : gnd.kids = cs.toList := by
    simp only [Node.kids, hcs]; rw [List.take_of_length_le (by simp; omega)]
  have hsz0 : (goCopy (zeroIds (t.sl + 2)) 0 cs 0 (t.sl + 1)).size = t.sl + 2 := goCopy0Ids_size _ _ _ _
  have h0 : (goCopy (zeroIds (t.sl + 2)) 0 cs 0 (t.sl + 1)).toList = cs.toList ++ [0] := by
    rw [goCopy0Ids_toList _ _ _ _ (by omega) (by omega)]
    simp [List.take_of_length_le, hcsz]
  have hset : ((goCopy (zeroIds (t.sl + 2)) 0 cs 0 (t.sl + 1)).setIfInBounds idx t.tpc0).toList = cs.toList ++ [0] := by
    rw [Array.toList_setIfInBounds, h0]
    apply List.ext_getElem?
    intro k
    rw [List.getElem?_set]
    by_cases hk : idx = k
    · subst hk
      rw [if_pos rfl, if_pos (by simp; omega), List.getElem?_append_left (by simp; omega)]
      have : cs.toList[idx]? = some (cs.getD idx 0) := by simp [Array.getD, show idx < cs.size by omega]
      rw [this, hci]
    · rw [if_neg hk]
  have hsz1 : ((goCopy (zeroIds (t.sl + 2)) 0 cs 0 (t.sl + 1)).setIfInBounds idx t.tpc0).size = t.sl + 2 := by
    simp [hsz0]
  have hsize : (innerTc t gnd cs idx).size = t.sl + 2 := by unfold innerTc; rw [shiftSet_size, hsz1]
  refine ⟨?_, hsize⟩
  have := shiftSet_take ((goCopy (zeroIds (t.sl + 2)) 0 cs 0 (t.sl + 1)).setIfInBounds idx t.tpc0) (idx + 1)
    (gnd.count + 1) t.tpc1 (by omega) (by omega)
  have hall : (innerTc t gnd cs idx).toList.take (gnd.count + 1 + 1) = (innerTc t gnd cs idx).toList :=
    List.take_of_length_le (by simp [hsize]; omega)
  have e1 : ((goCopy (zeroIds (t.sl + 2)) 0 cs 0 (t.sl + 1)).setIfInBounds idx t.tpc0).toList.take (gnd.count + 1) =
      gnd.kids := by
    rw [hset, List.take_append_of_le_length (by simp; omega), List.take_of_length_le (by simp; omega), hkids]
  unfold innerTc at hall ⊢
  rw [← hall, this, e1]
  rfl

/-- membership of a non-nil id in a zero-padded copy -/
theorem mem_pad_iff (l : List NodeId) (k : Nat) (y : NodeId) :
    (y ≠ 0 ∧ y ∈ l ++ List.replicate k 0) ↔ (y ≠ 0 ∧ y ∈ l) := by
  constructor
  · rintro ⟨h0, h⟩
    rcases List.mem_append.mp h with h | h
    · exact ⟨h0, h⟩
    · exact absurd (List.eq_of_mem_replicate h) h0
  · rintro ⟨h0, h⟩
    exact ⟨h0, List.mem_append_left _ h⟩

/-! Insert proofs for Model B, part 35: STAGE 5 — the state of the promote loop; the base case (leaf split). -/

/-- the fields a promote loop never touches -/
def SameBase (T Tk : BTree) : Prop :=
  Tk.root = T.root ∧ Tk.count = T.count ∧ Tk.cur = T.cur ∧ Tk.lb = T.lb ∧ Tk.fixFast = T.fixFast ∧
  Tk.fixErr = T.fixErr ∧ Tk.fixId = T.fixId ∧ Tk.distSrc = T.distSrc

/-- the state of the promote loop while a split is pending at `g` -/
structure PState (T Tk : BTree) (saved : Bool) (item : Item) (g c r : NodeId) (sep : Item) (f : Nat)
    (news : List NodeId) (idx : Nat) : Prop where
  pend : Pending T Tk item g c r sep f news
  prom : Tk.promTarget = g ∧ Tk.promIdx = (idx : Int) ∧ Tk.tempParent = sep ∧ Tk.tpc0 = c ∧ Tk.tpc1 = r
  ok : Tk.panicked = false
  len : Tk.nodes.length = T.nodes.length + news.length
  fresh : Fresh Tk
  nextId : T.nextId < Tk.nextId
  base : SameBase T Tk
  uniq : Tk.unique = saved
  keep : ∀ x, (T.get? x).isSome → (Tk.get? x).isSome
  news1 : 1 ≤ news.length
  nextEq : Tk.nextId = T.nextId + news.length
  newsEq : news = List.range' T.nextId news.length

/-- BASE: after `addOnLeaf` split the full non-root leaf `n` (child `idx` of `g`), the split is pending at `g` -/
theorem leaf_pstate {T : BTree} {g n : NodeId} {item : Item} {i idx : Nat} {gnd nd : Node} {cs : Array NodeId}
    (saved : Bool)
    (hgg : T.get? g = some gnd) (hgn : T.get? n = some nd) (hpar : nd.parent = g) (hg0 : g ≠ 0) (hn0 : n ≠ 0)
    (hgs : NodeShape T gnd) (hns : NodeShape T nd)
    (hcs : gnd.children = some cs) (hidxle : idx ≤ gnd.count) (hci : cs.getD idx 0 = n)
    (huniq : ∀ j, cs.getD j 0 = n → j = idx)
    (hfull : nd.count = T.sl) (hleaf : nd.children = none)
    (hi : i = (getIndexToInsertTo T nd item.key).1) (hile : i ≤ nd.count)
    (hfresh : Fresh T) (hsl2 : 2 ≤ T.sl ∧ T.sl % 2 = 0) (hid : item.id ≠ 0) (hok : T.panicked = false) (f : Nat) :
    PState T ({ leafSplit T n item i with unique := saved } : BTree) saved item g n T.nextId
      ((nd.items.take i ++ item :: nd.items.drop i).getD (T.sl / 2) {}) (f + 1) [T.nextId] idx := by
  have hgetn := get_of_get? hgn
  have hrn : T.get? T.nextId = none := fresh_get? hfresh (Nat.le_refl _)
  have hgr : g ≠ T.nextId := by intro e; rw [e, hrn] at hgg; cases hgg
  have hnr : n ≠ T.nextId := by intro e; rw [e, hrn] at hgn; cases hgn
  have hgn' : g ≠ n := by
    intro e; rw [e, hgn] at hgg; cases hgg; rw [hleaf] at hcs; cases hcs
  have hcssz : cs.size = T.sl + 1 := (hgs.2.2.2.2 cs hcs).1
  have hSg : (leafSplitPre T n item i).get? g = some gnd := by
    rw [leafSplitPre_get?, if_neg (Ne.symm hgr), hgg]; simp [hgn']
  have hSn : (leafSplitPre T n item i).get? n = some (leafKeep T (splitTemp nd.slots T.sl i item) nd) := by
    rw [leafSplitPre_get?, if_neg (Ne.symm hnr), hgn, hgetn]; simp
  have hSr : (leafSplitPre T n item i).get? T.nextId = some (rightHalf T g (splitTemp nd.slots T.sl i item)) := by
    rw [leafSplitPre_get?, if_pos rfl, hgetn, hpar]
  have hSo : ∀ x, x ≠ n → x ≠ T.nextId → (leafSplitPre T n item i).get? x = T.get? x := by
    intro x hxn hxr
    rw [leafSplitPre_get?, if_neg (Ne.symm hxr)]
    cases T.get? x with
    | none => rfl
    | some y => simp [hxn]
  obtain ⟨hGI2, hGI1⟩ := getIndexOfChild_val (S := leafSplitPre T n item i) (p := g) (c := n) (i := idx)
    hSg hSn hcs hn0 (by rw [hgs.1]; have := hgs.2.1; omega) hci huniq
    (by show -1 ≤ nd.ion; exact hns.2.2.1.1) (by show nd.ion < (cs.size : Int); rw [hcssz]; have := hns.2.2.1.2; omega)
  obtain ⟨ga, ⟨ion', hion', gb⟩, gc, gd, ge⟩ := gi_facts hSn hGI1
  have hpg : (T.get n).parent = g := by rw [hgetn]; exact hpar
  have hfield : ∀ {α} (F : BTree → α), (∀ B : BTree, ∀ l, F { B with nodes := l } = F B) →
      F ((leafSplitPre T n item i).getIndexOfChild g n).1 = F (leafSplitPre T n item i) := by
    intro α F hF
    rw [← hF _ (leafSplitPre T n item i).nodes, ge]
  -- the pending state
  obtain ⟨T0, hT0⟩ : ∃ T0, T0 = ({ leafSplit T n item i with unique := saved } : BTree) := ⟨_, rfl⟩
  rw [← hT0]
  have hT0get : ∀ x, T0.get? x = ((leafSplitPre T n item i).getIndexOfChild g n).1.get? x := by
    intro x; rw [hT0]
    show ((leafSplitPre T n item i).getIndexOfChild (T.get n).parent n).1.get? x = _
    rw [hpg]
  have hT0f : ∀ {α} (F : BTree → α), (∀ B : BTree, ∀ l, F { B with nodes := l } = F B) →
      (∀ B : BTree, ∀ a b c, F { B with unique := a, promTarget := b, promIdx := c } = F B) →
      F T0 = F (leafSplitPre T n item i) := by
    intro α F hF hF2
    rw [hT0]
    have : F ({ leafSplit T n item i with unique := saved } : BTree) =
        F ((leafSplitPre T n item i).getIndexOfChild (T.get n).parent n).1 :=
      hF2 ((leafSplitPre T n item i).getIndexOfChild (T.get n).parent n).1 saved _ _
    rw [this, hpg, hfield F hF]
  have hsl' : T0.sl = T.sl := by rw [hT0f (·.sl) (fun _ _ => rfl) (fun _ _ _ _ => rfl)]; rfl
  have hRn : T0.get? n = some { leafKeep T (splitTemp nd.slots T.sl i item) nd with ion := ion' } := by
    rw [hT0get, gb]
  have hRr : T0.get? T.nextId = some (rightHalf T g (splitTemp nd.slots T.sl i item)) := by
    rw [hT0get, ga _ (Ne.symm hnr), hSr]
  have hRo : ∀ x, x ≠ n → x ≠ T.nextId → T0.get? x = T.get? x := by
    intro x h2 h3
    rw [hT0get, ga x h2, hSo x h2 h3]
  have hitems : nd.items = nd.slots.toList := by
    unfold Node.items; rw [List.take_of_length_le (by simp; have := hns.1; omega)]
  have hX := splitTemp_toList nd.slots T.sl i item hns.1 (by omega)
  rw [← hitems] at hX
  have hXlen : (nd.items.take i ++ item :: nd.items.drop i).length = T.sl + 1 := by
    rw [← hX]; simp [splitTemp_size]
  have hmid : (splitTemp nd.slots T.sl i item).getD (T.sl / 2) {} =
      (nd.items.take i ++ item :: nd.items.drop i).getD (T.sl / 2) {} := by
    rw [← hX]; simp [Array.getD_eq_getD_getElem?, List.getD_eq_getElem?_getD]
  have hionb : -1 ≤ ion' ∧ ion' ≤ (T.sl : Int) := by
    rcases hion' with e | e
    · rw [e]; exact hns.2.2.1
    · rw [e]
      have h1 := hgs.2.1
      have h2 : (0 : Int) ≤ (idx : Int) := Int.natCast_nonneg idx
      have h3 : (idx : Int) ≤ (gnd.count : Int) := Int.ofNat_le.mpr hidxle
      have h4 : (gnd.count : Int) ≤ (T.sl : Int) := Int.ofNat_le.mpr h1
      exact ⟨by omega, Int.le_trans h3 h4⟩
  obtain ⟨hLs, hLi⟩ := leafKeep_facts (T := T) (T' := T0) hns hleaf hX hXlen hsl2 hsl' ion' hionb
  obtain ⟨hRs, hRi⟩ := rightHalf_facts (T := T) (T' := T0) g hX hXlen hsl2 hsl'
  have hr0 : T.nextId ≠ 0 := Nat.ne_of_gt hfresh.1
  have hhalf : T.sl = 2 * (T.sl / 2) := by omega
  have hXs := list_split_at (nd.items.take i ++ item :: nd.items.drop i) (T.sl / 2) ({} : Item) (by omega)
  -- the leaf in `T`
  have hleafT : ∀ l2 h2, WFNode T (f + 1) n g l2 h2 →
      ItemsOk l2 h2 nd.items ∧ absNode T (f + 1) n = nd.items ∧ reach T (f + 1) n = [n] := by
    intro l2 h2 hw
    obtain ⟨_, nd1, hg2, _, hs1, _, hb1⟩ := hw
    rw [hgn] at hg2; cases hg2
    rw [hleaf] at hb1
    refine ⟨hb1, by simp [absNode, hn0, hgn, hleaf], ?_⟩
    rw [reach_succ hn0 hgn]; simp [Node.kidArr, hleaf]
  have hrT : reach T (f + 1) n = [n] := by rw [reach_succ hn0 hgn]; simp [Node.kidArr, hleaf]
  have hAL := fun (lo hi : Option Int) (gd : Good lo hi ((nd.items.take i ++ item :: nd.items.drop i).take (T.sl / 2))) =>
    leafNode_wf (t' := T0) (c := n) (parent := g) hn0 hRn hpar hLs (by show 1 ≤ T.sl / 2; omega) hleaf
      (lo := lo) (hi := hi) (by rw [hLi]; exact gd) f
  have hAR := fun (lo hi : Option Int) (gd : Good lo hi ((nd.items.take i ++ item :: nd.items.drop i).drop (T.sl / 2 + 1))) =>
    leafNode_wf (t' := T0) (c := T.nextId) (parent := g) hr0 hRr rfl hRs (by show 1 ≤ T.sl / 2; omega) rfl
      (lo := lo) (hi := hi) (by rw [hRi]; exact gd) f
  have hrn' : reach T0 (f + 1) n = [n] := by
    rw [reach_succ hn0 hRn]; simp [Node.kidArr, leafKeep, hleaf]
  have hrr' : reach T0 (f + 1) T.nextId = [T.nextId] := by
    rw [reach_succ hr0 hRr]; simp [Node.kidArr, rightHalf]
  have han' : absNode T0 (f + 1) n = (nd.items.take i ++ item :: nd.items.drop i).take (T.sl / 2) := by
    rw [← hLi]; simp [absNode, hn0, hRn, leafKeep, hleaf]
  have har' : absNode T0 (f + 1) T.nextId = (nd.items.take i ++ item :: nd.items.drop i).drop (T.sl / 2 + 1) := by
    rw [← hRi]; simp [absNode, hr0, hRr, rightHalf]
  refine ⟨⟨hsl', ?_, ?_, by simp, ?_, ?_, ?_⟩, ?_, ?_, ?_, ?_, ?_, ?_, ?_, ?_, by simp, ?_, by simp [List.range']⟩
  · intro x hs hx
    rw [hrT] at hx
    apply hRo x (by simpa using hx)
    intro e; rw [e, hrn] at hs; simp at hs
  · intro x hx
    have : x = T.nextId := by simpa using hx
    rw [this]; exact hrn
  · rw [hrn', hrr', hrT]
  · intro l2 h2 hw hl2 hh2
    obtain ⟨hio, _, _⟩ := hleafT l2 h2 hw
    have hgood := itemsOk_good _ _ _ hio
    obtain ⟨_, htn, hdn⟩ := insIdx_spec T nd item.key hns hgood.1
    rw [← hi] at htn hdn
    have hgoodX := good_insert i hgood htn hdn hl2 hh2 hid
    rw [hXs] at hgoodX
    obtain ⟨hgL, ⟨hm1, hm2, hm3⟩, hgR⟩ := good_split hgoodX
    exact ⟨(hAL _ _ hgL).1, (hAR _ _ hgR).1, hm1, hm2, hm3⟩
  · intro l2 h2 hw hl2 hh2
    obtain ⟨hio, hAn, _⟩ := hleafT l2 h2 hw
    have hgood := itemsOk_good _ _ _ hio
    obtain ⟨_, htn, hdn⟩ := insIdx_spec T nd item.key hns hgood.1
    rw [← hi] at htn hdn
    refine ⟨nd.items.take i, nd.items.drop i, by rw [hAn, List.take_append_drop], ?_, htn, hdn⟩
    rw [han', har']
    exact hXs.symm
  · -- prom
    have h1 : T0.promTarget = g := by rw [hT0]; exact hpg
    have h2 : T0.promIdx = (idx : Int) := by
      rw [hT0]
      show ((leafSplitPre T n item i).getIndexOfChild (T.get n).parent n).2 = _
      rw [hpg]; exact hGI2
    have h3 : T0.tempParent = (nd.items.take i ++ item :: nd.items.drop i).getD (T.sl / 2) {} := by
      rw [hT0f (·.tempParent) (fun _ _ => rfl) (fun _ _ _ _ => rfl), ← hmid]
      show (splitTemp (T.get n).slots T.sl i item).getD _ _ = _
      rw [hgetn]
    have h4 : T0.tpc0 = n := by rw [hT0f (·.tpc0) (fun _ _ => rfl) (fun _ _ _ _ => rfl)]; rfl
    have h5 : T0.tpc1 = T.nextId := by rw [hT0f (·.tpc1) (fun _ _ => rfl) (fun _ _ _ _ => rfl)]; rfl
    exact ⟨h1, h2, h3, h4, h5⟩
  · rw [hT0f (·.panicked) (fun _ _ => rfl) (fun _ _ _ _ => rfl)]; exact hok
  · have : T0.nodes.length = ((leafSplitPre T n item i).getIndexOfChild g n).1.nodes.length := by
      rw [hT0]
      show ((leafSplitPre T n item i).getIndexOfChild (T.get n).parent n).1.nodes.length = _
      rw [hpg]
    rw [this, gc]
    show (putNode _ _).length = _
    rw [putNode_length_fresh]
    · simp [BTree.upd]
    · have : (({ T with nextId := T.nextId + 1 } : BTree).upd n
          (leafKeep T (splitTemp (T.get n).slots T.sl i item))).get? T.nextId = none := by
        rw [get?_upd _ n _ (leafKeep T _) (fun _ => rfl)]
        show Option.map _ (T.get? T.nextId) = none
        rw [hrn]; rfl
      exact this
  · have h1 : Fresh (leafSplitPre T n item i) := by
      unfold leafSplitPre
      refine fresh_put (t := ({ (({ T with nextId := T.nextId + 1 } : BTree).upd n _) with
        tempParent := _, tpc0 := n, tpc1 := T.nextId } : BTree)) ?_ (by show T.nextId < T.nextId + 1; omega)
      have h0 : Fresh ({ T with nextId := T.nextId + 1 } : BTree) :=
        ⟨Nat.succ_pos _, fun x hx => Nat.lt_succ_of_lt (hfresh.2 x hx)⟩
      exact fresh_upd h0 n (leafKeep T _) (fun _ => rfl)
    have h2 := gd h1
    rw [hT0]
    rw [← hpg] at h2
    exact h2
  · rw [hT0f (·.nextId) (fun _ _ => rfl) (fun _ _ _ _ => rfl)]
    show T.nextId < T.nextId + 1; omega
  · refine ⟨?_, ?_, ?_, ?_, ?_, ?_, ?_, ?_⟩
    · rw [hT0f (·.root) (fun _ _ => rfl) (fun _ _ _ _ => rfl)]; rfl
    · rw [hT0f (·.count) (fun _ _ => rfl) (fun _ _ _ _ => rfl)]; rfl
    · rw [hT0f (·.cur) (fun _ _ => rfl) (fun _ _ _ _ => rfl)]; rfl
    · rw [hT0f (·.lb) (fun _ _ => rfl) (fun _ _ _ _ => rfl)]; rfl
    · rw [hT0f (·.fixFast) (fun _ _ => rfl) (fun _ _ _ _ => rfl)]; rfl
    · rw [hT0f (·.fixErr) (fun _ _ => rfl) (fun _ _ _ _ => rfl)]; rfl
    · rw [hT0f (·.fixId) (fun _ _ => rfl) (fun _ _ _ _ => rfl)]; rfl
    · rw [hT0f (·.distSrc) (fun _ _ => rfl) (fun _ _ _ _ => rfl)]; rfl
  · rw [hT0]
  · intro x hx
    rw [hT0get]
    by_cases hxn : x = n
    · subst hxn; rw [gb]; rfl
    · rw [ga x hxn, leafSplitPre_get?]
      by_cases hxr : T.nextId = x
      · rw [if_pos hxr]; rfl
      · rw [if_neg hxr]
        cases hT : T.get? x with
        | none => rw [hT] at hx; simp at hx
        | some y => rfl
  · rw [hT0f (·.nextId) (fun _ _ => rfl) (fun _ _ _ _ => rfl)]
    rfl

/-! Insert proofs for Model B, part 36: STAGE 5 — the two nodes a splitting `promote` step writes. -/

/-- shape and contents of the lower-half node (whatever its memoised index is) and the upper-half node -/
theorem inner_nodes {T T' t : BTree} {gnd : Node} {cs : Array NodeId} {idx : Nat} {X : List Item} {K : List NodeId}
    (hs : NodeShape T gnd) (htsl : t.sl = T.sl) (hsl' : T'.sl = T.sl) (hsl2 : 2 ≤ T.sl ∧ T.sl % 2 = 0)
    (hX : (innerTemp t gnd idx).toList = X) (hXlen : X.length = T.sl + 1)
    (hK : (innerTc t gnd cs idx).toList = K) (hKlen : K.length = T.sl + 2)
    (ion : Int) (hion : -1 ≤ ion ∧ ion ≤ (T.sl : Int)) :
    (NodeShape T' ({ innerLeftF t (innerTemp t gnd idx) (innerTc t gnd cs idx) gnd with ion := ion } : Node) ∧
      ({ innerLeftF t (innerTemp t gnd idx) (innerTc t gnd cs idx) gnd with ion := ion } : Node).items = X.take (T.sl / 2) ∧
      (goCopy (zeroIds (t.sl + 1)) 0 (innerTc t gnd cs idx) 0 (t.sl / 2 + 1)).toList.take (T.sl / 2 + 1) = K.take (T.sl / 2 + 1) ∧
      (goCopy (zeroIds (t.sl + 1)) 0 (innerTc t gnd cs idx) 0 (t.sl / 2 + 1)).toList =
        K.take (T.sl / 2 + 1) ++ List.replicate (T.sl + 1 - (T.sl / 2 + 1)) 0) ∧
    (NodeShape T' (innerRight t gnd (innerTemp t gnd idx) (innerTc t gnd cs idx)) ∧
      (innerRight t gnd (innerTemp t gnd idx) (innerTc t gnd cs idx)).items = X.drop (T.sl / 2 + 1) ∧
      (goCopy (zeroIds (t.sl + 1)) 0 (innerTc t gnd cs idx) (t.sl / 2 + 1) (t.sl / 2 + 1 + t.sl / 2 + 1)).toList.take (T.sl / 2 + 1) =
        K.drop (T.sl / 2 + 1) ∧
      (goCopy (zeroIds (t.sl + 1)) 0 (innerTc t gnd cs idx) (t.sl / 2 + 1) (t.sl / 2 + 1 + t.sl / 2 + 1)).toList =
        K.drop (T.sl / 2 + 1) ++ List.replicate (T.sl + 1 - (T.sl / 2 + 1)) 0) := by
  have hhalf : T.sl = 2 * (T.sl / 2) := by omega
  have htcsz : (innerTc t gnd cs idx).size = T.sl + 2 := by rw [← Array.length_toList, hK, hKlen]
  obtain ⟨hLs, hLi⟩ := leftHalf_facts (T := T) (T' := T') 0 hX hXlen hsl2 hsl'
  obtain ⟨hRs, hRi⟩ := rightHalf_facts (T := T) (T' := T') 0 hX hXlen hsl2 hsl'
  have hLA : (goCopy (zeroIds (t.sl + 1)) 0 (innerTc t gnd cs idx) 0 (t.sl / 2 + 1)).toList =
      K.take (T.sl / 2 + 1) ++ List.replicate (T.sl + 1 - (T.sl / 2 + 1)) 0 := by
    rw [htsl, goCopy0Ids_toList _ _ _ _ (by omega) (by omega), hK]; simp
  have hRA : (goCopy (zeroIds (t.sl + 1)) 0 (innerTc t gnd cs idx) (t.sl / 2 + 1) (t.sl / 2 + 1 + t.sl / 2 + 1)).toList =
      K.drop (T.sl / 2 + 1) ++ List.replicate (T.sl + 1 - (T.sl / 2 + 1)) 0 := by
    rw [htsl, goCopy0Ids_toList _ _ _ _ (by omega) (by omega), hK]
    have e : T.sl / 2 + 1 + T.sl / 2 + 1 - (T.sl / 2 + 1) = T.sl / 2 + 1 := by omega
    rw [e, List.take_of_length_le (by simp; omega)]
  have hlenL : (K.take (T.sl / 2 + 1)).length = T.sl / 2 + 1 := by simp; omega
  have hlenR : (K.drop (T.sl / 2 + 1)).length = T.sl / 2 + 1 := by simp; omega
  have eL : ({ innerLeftF t (innerTemp t gnd idx) (innerTc t gnd cs idx) gnd with ion := ion } : Node).slots =
      (leftHalf T 0 (innerTemp t gnd idx)).slots := by
    show goCopy (zeros gnd.slots.size) 0 _ 0 (t.sl / 2) = goCopy (zeros T.sl) 0 _ 0 (T.sl / 2)
    rw [hs.1, htsl]
  have eR : (innerRight t gnd (innerTemp t gnd idx) (innerTc t gnd cs idx)).slots = (rightHalf T 0 (innerTemp t gnd idx)).slots := by
    show goCopy (zeros t.sl) 0 _ (t.sl / 2 + 1) (t.sl / 2 + 1 + t.sl / 2) = goCopy (zeros T.sl) 0 _ (T.sl / 2 + 1) (T.sl / 2 + 1 + T.sl / 2)
    rw [htsl]
  refine ⟨⟨⟨?_, ?_, by rw [hsl']; exact hion, ?_, ?_⟩, ?_, ?_, hLA⟩, ⟨⟨?_, ?_, ?_, ?_, ?_⟩, ?_, ?_, hRA⟩⟩
  · rw [eL]; exact hLs.1
  · show t.sl / 2 ≤ T'.sl; rw [htsl, hsl']; omega
  · intro x hx
    have hx' : x ∈ ({ innerLeftF t (innerTemp t gnd idx) (innerTc t gnd cs idx) gnd with ion := ion } : Node).slots.toList.drop (t.sl / 2) := hx
    rw [eL, htsl] at hx'
    exact hLs.2.2.2.1 x hx'
  · intro cs' hcs'
    have : cs' = goCopy (zeroIds (t.sl + 1)) 0 (innerTc t gnd cs idx) 0 (t.sl / 2 + 1) := by
      have h : ({ innerLeftF t (innerTemp t gnd idx) (innerTc t gnd cs idx) gnd with ion := ion } : Node).children = some _ := rfl
      rw [h] at hcs'; exact (Option.some.inj hcs').symm
    subst this
    refine ⟨by rw [goCopy0Ids_size, htsl, hsl'], ?_⟩
    intro c hc
    have hc' : c ∈ (goCopy (zeroIds (t.sl + 1)) 0 (innerTc t gnd cs idx) 0 (t.sl / 2 + 1)).toList.drop (t.sl / 2 + 1) := hc
    rw [hLA, htsl, List.drop_append_of_le_length (by omega), List.drop_of_length_le (by omega)] at hc'
    exact List.eq_of_mem_replicate (by simpa using hc')
  · show ({ innerLeftF t (innerTemp t gnd idx) (innerTc t gnd cs idx) gnd with ion := ion } : Node).slots.toList.take (t.sl / 2) = _
    rw [eL, htsl]; exact hLi
  · rw [hLA, List.take_append_of_le_length (by omega), List.take_of_length_le (by omega)]
  · rw [eR]; exact hRs.1
  · show t.sl / 2 ≤ T'.sl; rw [htsl, hsl']; omega
  · show -1 ≤ (-1 : Int) ∧ (-1 : Int) ≤ (T'.sl : Int); omega
  · intro x hx
    have hx' : x ∈ (innerRight t gnd (innerTemp t gnd idx) (innerTc t gnd cs idx)).slots.toList.drop (t.sl / 2) := hx
    rw [eR, htsl] at hx'
    exact hRs.2.2.2.1 x hx'
  · intro cs' hcs'
    have : cs' = goCopy (zeroIds (t.sl + 1)) 0 (innerTc t gnd cs idx) (t.sl / 2 + 1) (t.sl / 2 + 1 + t.sl / 2 + 1) := by
      have h : (innerRight t gnd (innerTemp t gnd idx) (innerTc t gnd cs idx)).children = some _ := rfl
      rw [h] at hcs'; exact (Option.some.inj hcs').symm
    subst this
    refine ⟨by rw [goCopy0Ids_size, htsl, hsl'], ?_⟩
    intro c hc
    have hc' : c ∈ (goCopy (zeroIds (t.sl + 1)) 0 (innerTc t gnd cs idx) (t.sl / 2 + 1)
        (t.sl / 2 + 1 + t.sl / 2 + 1)).toList.drop (t.sl / 2 + 1) := hc
    rw [hRA, htsl, List.drop_append_of_le_length (by omega), List.drop_of_length_le (by omega)] at hc'
    exact List.eq_of_mem_replicate (by simpa using hc')
  · show (innerRight t gnd (innerTemp t gnd idx) (innerTc t gnd cs idx)).slots.toList.take (t.sl / 2) = _
    rw [eR, htsl]; exact hRi
  · rw [hRA, List.take_append_of_le_length (by omega), List.take_of_length_le (by omega)]

/-! Insert proofs for Model B, part 37: STAGE 5 — one splitting `promote` step keeps the loop state. -/

theorem setProm_get? (t : BTree) (p : NodeId) (i : Int) (x : NodeId) : (setProm t p i).get? x = t.get? x := rfl
theorem setProm_nodes (t : BTree) (p : NodeId) (i : Int) : (setProm t p i).nodes = t.nodes := rfl
theorem setProm_promTarget (t : BTree) (p : NodeId) (i : Int) : (setProm t p i).promTarget = p := rfl
theorem setProm_promIdx (t : BTree) (p : NodeId) (i : Int) : (setProm t p i).promIdx = i := rfl
theorem setProm_fresh (t : BTree) (p : NodeId) (i : Int) (h : Fresh t) : Fresh (setProm t p i) := h

/-- STEP: the over-full inner node `g` (non-root, child `idxg` of `gg`) is split by `promote`; the split is
    then pending at `gg` -/
theorem inner_step {T Tk : BTree} {saved : Bool} {item : Item} {g gg c r : NodeId} {sep : Item} {f : Nat}
    {news : List NodeId} {idx idxg : Nat} {lo hi : Option Int} {gnd ggnd : Node} {cs csg : Array NodeId}
    (hS : PState T Tk saved item g c r sep f news idx)
    (hW : WFNode T (f + 1) g gg lo hi) (hN : (reach T (f + 1) g).Nodup) (hlo : LeO lo item.key) (hhi : OLe item.key hi)
    (hgg : T.get? g = some gnd) (hcs : gnd.children = some cs)
    (hidx : idx = (getIndexToInsertTo T gnd item.key).1) (hchild : gnd.child idx = c) (hc0 : c ≠ 0)
    (hfull : gnd.count = T.sl) (hgg0 : gg ≠ 0)
    (hggg : T.get? gg = some ggnd) (hggs : NodeShape T ggnd) (hcsg : ggnd.children = some csg)
    (hcig : csg.getD idxg 0 = g) (huniqg : ∀ j, csg.getD j 0 = g → j = idxg) (hidxg : idxg ≤ ggnd.count)
    (hggnot : gg ∉ reach T (f + 1) g)
    (hfreshT : Fresh T) (hsl2 : 2 ≤ T.sl ∧ T.sl % 2 = 0) :
    PState T (({ Tk with promTarget := 0, promIdx := 0 } : BTree).promoteStep g (idx : Int)) saved item gg g Tk.nextId
      ((itemsIns gnd idx sep).getD (T.sl / 2) {}) (f + 1) (news ++ [Tk.nextId]) idxg := by
  obtain ⟨hP, ⟨hp1, hp2, hp3, hp4, hp5⟩, hok, hlen, hfr, hnext, hbase, huq, hkeep, hnews1, hnexteq, hnewseq⟩ := hS
  have hgch : gnd.hasChildren = true := by simp [Node.hasChildren, hcs]
  obtain ⟨hgk, hidxle, hV1, hV3, hV2, hVfr, hVg, hVnd⟩ := virt hP hW hN hlo hhi hgg hgch hidx hchild hc0
  have hW' := hW
  obtain ⟨hg0, nd0, hg1, hgp, hgs, _, _⟩ := hW
  rw [hgg] at hg1; cases hg1
  have hreachT : reach T (f + 1) g = g :: gnd.kids.flatMap (reach T f) := by
    rw [reach_succ hg0 hgg]; simp [Node.kidArr, Node.kids, hcs]
  -- the step is a split
  obtain ⟨Tk0, hTk0⟩ : ∃ Tk0, Tk0 = ({ Tk with promTarget := 0, promIdx := 0 } : BTree) := ⟨_, rfl⟩
  have h0get : ∀ x, Tk0.get? x = Tk.get? x := by intro x; rw [hTk0]; rfl
  have h0sl : Tk0.sl = T.sl := by rw [hTk0]; exact hP.sl
  have h0next : Tk0.nextId = Tk.nextId := by rw [hTk0]
  have h0tp : Tk0.tempParent = sep := by rw [hTk0]; exact hp3
  have h0c : Tk0.tpc0 = c := by rw [hTk0]; exact hp4
  have h0r : Tk0.tpc1 = r := by rw [hTk0]; exact hp5
  rw [← hTk0]
  have hnr : gnd.isRoot = false := by simp [Node.isRoot, hgp, hgg0]
  rw [promoteStep_split (t := Tk0) (by rw [h0get]; exact hgk) hcs (by rw [h0sl, hfull]; omega) (by rw [h0sl, ← hfull]; exact hidxle) hnr]
  -- the arrays
  have hci : cs.getD idx 0 = Tk0.tpc0 := by
    rw [h0c, ← hchild]; simp [Node.child, hcs]
  have hgs0 : NodeShape Tk0 gnd := nodeShape_congr h0sl hgs
  obtain ⟨hXl, hXsz⟩ := innerTemp_toList (t := Tk0) hgs0 (by rw [h0sl]; exact hfull) hidxle
  obtain ⟨hKl, hKsz⟩ := innerTc_toList (t := Tk0) hgs0 hcs (by rw [h0sl]; exact hfull) hidxle hci
  rw [h0tp] at hXl
  rw [h0r] at hKl
  have hklen0 := Node.kids_length hgs
  have hilen0 := Node.items_length hgs
  have hKlen : (kidsIns gnd idx r).length = T.sl + 2 := by unfold kidsIns; simp; omega
  have hXlen : (itemsIns gnd idx sep).length = T.sl + 1 := by unfold itemsIns; simp; omega
  generalize hKdef : kidsIns gnd idx r = K at *
  generalize hXdef : itemsIns gnd idx sep = X at *
  have hhalf : T.sl = 2 * (T.sl / 2) := by omega
  -- who is (not) among the children
  have hKflat : ∀ y ∈ K, y ≠ 0 → y ∈ K.flatMap (reach Tk f) :=
    fun y hy hy0 => List.mem_flatMap.mpr ⟨y, hy, mem_kid_reach hV1 hy hy0⟩
  have hgK : ∀ (l : List NodeId), (∀ y ∈ l, y ∈ K) → ¬ (g ≠ 0 ∧ g ∈ l) := fun l hl h => hVg (hKflat g (hl g h.2) h.1)
  have hr'k : Tk.get? Tk.nextId = none := fresh_get? hfr (Nat.le_refl _)
  have hr'0 : Tk.nextId ≠ 0 := Nat.ne_of_gt hfr.1
  have hr'K : ∀ (l : List NodeId), (∀ y ∈ l, y ∈ K) → ¬ (Tk.nextId ≠ 0 ∧ Tk.nextId ∈ l) := by
    intro l hl h
    obtain ⟨x, _, hx⟩ := List.mem_flatMap.mp (hKflat _ (hl _ h.2) h.1)
    have := mem_reach_isSome Tk f x _ hx
    rw [hr'k] at this; simp at this
  have hinT : ∀ y ∈ K, y ≠ 0 → y ∈ reach T (f + 1) g ∨ y ∈ news := by
    intro y hy hy0
    rcases List.mem_append.mp (hV3.mem_iff.mp (hKflat y hy hy0)) with h | h
    · left; rw [hreachT]; exact List.mem_cons_of_mem _ h
    · right; exact h
  have hggK : ∀ (l : List NodeId), (∀ y ∈ l, y ∈ K) → ¬ (gg ≠ 0 ∧ gg ∈ l) := by
    intro l hl h
    rcases hinT gg (hl _ h.2) h.1 with h1 | h1
    · exact hggnot h1
    · have := hP.newsNone gg h1; rw [hggg] at this; cases this
  have hgr' : g ≠ Tk.nextId := by intro e; rw [e, hr'k] at hgk; cases hgk
  have hggk : Tk.get? gg = some ggnd := by rw [hVfr gg (by simp [hggg]) hggnot]; exact hggg
  have hggr' : gg ≠ Tk.nextId := by intro e; rw [e, hr'k] at hggk; cases hggk
  have hggg' : gg ≠ g := fun e => hggnot (by rw [e]; exact self_mem_reach hW')
  -- the node arrays
  obtain ⟨⟨_, _, hLAk, hLA⟩, ⟨_, _, hRAk, hRA⟩⟩ := inner_nodes (T := T) (T' := T) (t := Tk0) (cs := cs) hgs h0sl rfl hsl2
    hXl hXlen hKl hKlen (-1) (by omega)
  have hLAmem : ∀ y ∈ (goCopy (zeroIds (Tk0.sl + 1)) 0 (innerTc Tk0 gnd cs idx) 0 (Tk0.sl / 2 + 1)).toList, y ≠ 0 → y ∈ K := by
    intro y hy hy0
    rw [hLA] at hy
    exact List.mem_of_mem_take ((mem_pad_iff _ _ y).mp ⟨hy0, hy⟩).2
  have hRAmem : ∀ y ∈ (goCopy (zeroIds (Tk0.sl + 1)) 0 (innerTc Tk0 gnd cs idx) (Tk0.sl / 2 + 1)
      (Tk0.sl / 2 + 1 + Tk0.sl / 2 + 1)).toList, y ≠ 0 → y ∈ K := by
    intro y hy hy0
    rw [hRA] at hy
    exact List.mem_of_mem_drop ((mem_pad_iff _ _ y).mp ⟨hy0, hy⟩).2
  have hnotin : ∀ z : NodeId, (∀ (l : List NodeId), (∀ y ∈ l, y ∈ K) → ¬ (z ≠ 0 ∧ z ∈ l)) →
      ¬ (z ≠ 0 ∧ z ∈ (goCopy (zeroIds (Tk0.sl + 1)) 0 (innerTc Tk0 gnd cs idx) 0 (Tk0.sl / 2 + 1)).toList) ∧
      ¬ (z ≠ 0 ∧ z ∈ (goCopy (zeroIds (Tk0.sl + 1)) 0 (innerTc Tk0 gnd cs idx) (Tk0.sl / 2 + 1)
        (Tk0.sl / 2 + 1 + Tk0.sl / 2 + 1)).toList) := by
    intro z hz
    refine ⟨fun h => hz (K.filter (· = z)) (fun y hy => (List.mem_filter.mp hy).1)
      ⟨h.1, List.mem_filter.mpr ⟨hLAmem z h.2 h.1, by simp⟩⟩,
      fun h => hz (K.filter (· = z)) (fun y hy => (List.mem_filter.mp hy).1)
      ⟨h.1, List.mem_filter.mpr ⟨hRAmem z h.2 h.1, by simp⟩⟩⟩
  -- lookups after the new node was stored
  have hT4g : (innerT4 Tk0 g gnd cs idx).get? g =
      some (innerLeftF Tk0 (innerTemp Tk0 gnd idx) (innerTc Tk0 gnd cs idx) gnd) := by
    rw [innerT4_get?, h0next, if_neg (Ne.symm hgr'), h0get, hgk]
    simp only [Option.map_some, if_true, if_neg (hnotin g hgK).2]
  have hLAeq : ((innerT4 Tk0 g gnd cs idx).get g).children.getD #[] =
      goCopy (zeroIds (Tk0.sl + 1)) 0 (innerTc Tk0 gnd cs idx) 0 (Tk0.sl / 2 + 1) := by
    rw [get_of_get? hT4g]; rfl
  have hPg : (innerPre Tk0 g gnd cs idx).get? g =
      some (innerLeftF Tk0 (innerTemp Tk0 gnd idx) (innerTc Tk0 gnd cs idx) gnd) := by
    rw [innerPre_get?, hT4g, hLAeq]
    simp only [Option.map_some, if_neg (hnotin g hgK).1]
  have hPr : (innerPre Tk0 g gnd cs idx).get? Tk.nextId =
      some (innerRight Tk0 gnd (innerTemp Tk0 gnd idx) (innerTc Tk0 gnd cs idx)) := by
    rw [innerPre_get?, innerT4_get?, h0next, if_pos rfl, hLAeq]
    simp only [Option.map_some, if_neg (hnotin _ hr'K).1]
  have hPgg : (innerPre Tk0 g gnd cs idx).get? gg = some ggnd := by
    rw [innerPre_get?, innerT4_get?, h0next, if_neg (Ne.symm hggr'), h0get, hggk, hLAeq]
    simp only [Option.map_some, if_neg hggg', if_neg (hnotin gg hggK).1, if_neg (hnotin gg hggK).2]
  have hPo : ∀ y, y ≠ g → y ≠ Tk.nextId → (innerPre Tk0 g gnd cs idx).get? y =
      ((Tk.get? y).map (fun n => if y ≠ 0 ∧ y ∈ K.drop (T.sl / 2 + 1) then { n with parent := Tk.nextId } else n)).map
        (fun n => if y ≠ 0 ∧ y ∈ K.take (T.sl / 2 + 1) then { n with parent := g } else n) := by
    intro y hyg hyr
    rw [innerPre_get?, innerT4_get?, h0next, if_neg (Ne.symm hyr), h0get, hLAeq, hLA, hRA]
    have e1 : (y ≠ 0 ∧ y ∈ K.drop (T.sl / 2 + 1) ++ List.replicate (T.sl + 1 - (T.sl / 2 + 1)) 0) =
        (y ≠ 0 ∧ y ∈ K.drop (T.sl / 2 + 1)) := propext (mem_pad_iff _ _ y)
    have e2 : (y ≠ 0 ∧ y ∈ K.take (T.sl / 2 + 1) ++ List.replicate (T.sl + 1 - (T.sl / 2 + 1)) 0) =
        (y ≠ 0 ∧ y ∈ K.take (T.sl / 2 + 1)) := propext (mem_pad_iff _ _ y)
    cases Tk.get? y with
    | none => rfl
    | some n =>
      simp only [Option.map_some, if_neg hyg, Option.some.injEq]
      simp only [e1, e2]
  -- the grandparent lookup
  have hpar : (innerPre Tk0 g gnd cs idx).parentOf g = gg := by
    unfold BTree.parentOf
    rw [get_of_get? hPg]
    show (if gnd.parent = 0 then 0 else if ((innerPre Tk0 g gnd cs idx).get? gnd.parent).isSome then gnd.parent else 0) = gg
    rw [hgp, if_neg hgg0, hPgg]; rfl
  have hcsgsz : csg.size = T.sl + 1 := (hggs.2.2.2.2 csg hcsg).1
  obtain ⟨hGI2, hGI1⟩ := getIndexOfChild_val (S := innerPre Tk0 g gnd cs idx) (p := gg) (c := g) (i := idxg)
    hPgg hPg hcsg hg0 (by rw [hggs.1]; have := hggs.2.1; omega) hcig huniqg
    (by show -1 ≤ gnd.ion; exact hgs.2.2.1.1) (by show gnd.ion < (csg.size : Int); rw [hcsgsz]; have := hgs.2.2.1.2; omega)
  obtain ⟨ga, ⟨ion', hion', gb⟩, gc, gd, ge⟩ := gi_facts hPg hGI1
  have hionb : -1 ≤ ion' ∧ ion' ≤ (T.sl : Int) := by
    rcases hion' with e | e
    · rw [e]; exact hgs.2.2.1
    · rw [e]
      have h1 := hggs.2.1
      have h2 : (0 : Int) ≤ (idxg : Int) := Int.natCast_nonneg idxg
      have h3 : (idxg : Int) ≤ (ggnd.count : Int) := Int.ofNat_le.mpr hidxg
      have h4 : (ggnd.count : Int) ≤ (T.sl : Int) := Int.ofNat_le.mpr h1
      exact ⟨by omega, Int.le_trans h3 h4⟩
  have hTail : innerSplit Tk0 g gnd cs idx =
      setProm ((innerPre Tk0 g gnd cs idx).getIndexOfChild gg g).1 gg ((innerPre Tk0 g gnd cs idx).getIndexOfChild gg g).2 := by
    unfold innerSplit innerTail
    rw [hpar, if_neg hgg0]
  rw [hTail]
  obtain ⟨T', hT'⟩ : ∃ T', T' = setProm ((innerPre Tk0 g gnd cs idx).getIndexOfChild gg g).1 gg
      ((innerPre Tk0 g gnd cs idx).getIndexOfChild gg g).2 := ⟨_, rfl⟩
  rw [← hT']
  have hT'get : ∀ x, T'.get? x = ((innerPre Tk0 g gnd cs idx).getIndexOfChild gg g).1.get? x := by
    intro x; rw [hT', setProm_get?]
  have hfield : ∀ {α} (F : BTree → α), (∀ B : BTree, ∀ l, F { B with nodes := l } = F B) →
      (∀ B : BTree, ∀ a b, F (setProm B a b) = F B) → F T' = F (innerPre Tk0 g gnd cs idx) := by
    intro α F hF hF2
    rw [hT', hF2, ← hF _ (innerPre Tk0 g gnd cs idx).nodes, ge]
  obtain ⟨ipf1, ipf2, ipf3⟩ := innerPre_fields Tk0 g gnd cs idx (by rw [h0get, h0next]; exact hr'k)
  have hPf : ∀ {α} (F : BTree → α), (∀ B : BTree, ∀ l, F { B with nodes := l } = F B) →
      (∀ B : BTree, ∀ a b, F (setProm B a b) = F B) →
      F T' = F ({ Tk0 with nextId := Tk0.nextId + 1, tempParent := (innerTemp Tk0 gnd idx).getD (Tk0.sl / 2) {},
                           tpc0 := g, tpc1 := Tk0.nextId } : BTree) := by
    intro α F hF hF2
    rw [hfield F hF hF2, ← hF _ Tk0.nodes, ipf1]
  have hsl' : T'.sl = T.sl := by
    rw [hPf (·.sl) (fun _ _ => rfl) (fun _ _ _ => rfl)]; exact h0sl
  have hgL : T'.get? g = some { innerLeftF Tk0 (innerTemp Tk0 gnd idx) (innerTc Tk0 gnd cs idx) gnd with ion := ion' } := by
    rw [hT'get, gb]
  have hgR : T'.get? Tk.nextId = some (innerRight Tk0 gnd (innerTemp Tk0 gnd idx) (innerTc Tk0 gnd cs idx)) := by
    rw [hT'get, ga _ (Ne.symm hgr'), hPr]
  have hother : ∀ y, y ≠ g → y ≠ Tk.nextId → T'.get? y =
      ((Tk.get? y).map (fun n => if y ≠ 0 ∧ y ∈ K.drop (T.sl / 2 + 1) then { n with parent := Tk.nextId } else n)).map
        (fun n => if y ≠ 0 ∧ y ∈ K.take (T.sl / 2 + 1) then { n with parent := g } else n) := by
    intro y hyg hyr
    rw [hT'get, ga y hyg, hPo y hyg hyr]
  obtain ⟨⟨hLs, hLi, hLk, _⟩, ⟨hRs, hRi, hRk, _⟩⟩ := inner_nodes (T := T) (T' := T') (t := Tk0) (cs := cs) hgs h0sl hsl' hsl2
    hXl hXlen hKl hKlen ion' hionb
  -- the step, for any bounds
  have main : ∀ l h, WFNode T (f + 1) g gg l h → LeO l item.key → OLe item.key h →
      WFNode T' (f + 1) g gg l (some (X.getD (T.sl / 2) {}).key) ∧
      WFNode T' (f + 1) Tk.nextId gg (some (X.getD (T.sl / 2) {}).key) h ∧
      LeO l (X.getD (T.sl / 2) {}).key ∧ OLe (X.getD (T.sl / 2) {}).key h ∧ (X.getD (T.sl / 2) {}).id ≠ 0 ∧
      (reach T' (f + 1) g ++ reach T' (f + 1) Tk.nextId).Perm (reach T (f + 1) g ++ (news ++ [Tk.nextId])) ∧
      ∃ L R, absNode T (f + 1) g = L ++ R ∧
        absNode T' (f + 1) g ++ X.getD (T.sl / 2) {} :: absNode T' (f + 1) Tk.nextId = L ++ item :: R ∧
        (∀ x ∈ L, x.key < item.key) ∧ (∀ x ∈ R, item.key ≤ x.key) := by
    intro l h hw hl hh
    obtain ⟨_, _, hV1', hV3', hV2', _, hVg', hVnd'⟩ := virt hP hw hN hl hh hgg hgch hidx hchild hc0
    rw [hKdef, hXdef] at hV1' hV2'
    rw [hKdef] at hV3' hVg' hVnd'
    have := split_step (T := T) (Tk := Tk) (T' := T') (item := item) (g := g) (gg := gg) (r := r) (r' := Tk.nextId)
      (sep := sep) (f := f) (news := news) (lo := l) (hi := h) (gnd := gnd) (idx := idx)
      hP.sl hsl' hsl2 hg0 hgg0 hfull hgs hidxle (by rw [hKdef, hXdef]; exact hV1') (by rw [hKdef]; exact hV3')
      (by rw [hKdef, hXdef]; exact hV2') (by rw [hKdef]; exact hVg') (by rw [hKdef]; exact hVnd') hr'k hr'0 hgL hgR
      (by rw [hKdef]; rw [h0sl] at *; exact hother)
      ⟨hLs, hgp, by show Tk0.sl / 2 = T.sl / 2; rw [h0sl], by rw [hXdef]; exact hLi, rfl, by rw [hKdef]; exact hLk⟩
      ⟨hRs, hgp, by show Tk0.sl / 2 = T.sl / 2; rw [h0sl], by rw [hXdef]; exact hRi, rfl, by rw [hKdef]; exact hRk⟩ hreachT
    rw [hXdef] at this
    exact this
  have hnewsSome : ∀ x ∈ news, (Tk.get? x).isSome := by
    intro x hx
    have : x ∈ reach Tk f c ++ reach Tk f r := hP.reach.mem_iff.mpr (List.mem_append_right _ hx)
    rcases List.mem_append.mp this with h | h
    · exact mem_reach_isSome Tk f c x h
    · exact mem_reach_isSome Tk f r x h
  have hTr' : T.get? Tk.nextId = none := fresh_get? hfreshT (Nat.le_of_lt hnext)
  obtain ⟨m1, m2, m3, m4, m5, m6, m7⟩ := main lo hi hW' hlo hhi
  refine ⟨⟨hsl', ?_, ?_, ?_, m6, fun l h hw hl hh => ?_, fun l h hw hl hh => ?_⟩, ⟨?_, ?_, ?_, ?_, ?_⟩, ?_, ?_, ?_, ?_, ?_, ?_, ?_, ?_, ?_, ?_⟩
  · intro x hs hx
    have hxg : x ≠ g := fun e => hx (by rw [e]; exact self_mem_reach hW')
    have hxr : x ≠ Tk.nextId := by intro e; rw [e, hTr'] at hs; simp at hs
    have hxK : ∀ (l : List NodeId), (∀ y ∈ l, y ∈ K) → ¬ (x ≠ 0 ∧ x ∈ l) := by
      intro l hl h
      rcases hinT x (hl _ h.2) h.1 with h1 | h1
      · exact hx h1
      · have := hP.newsNone x h1; rw [this] at hs; simp at hs
    rw [hother x hxg hxr, hVfr x hs hx]
    have c1 := hxK (K.drop (T.sl / 2 + 1)) (fun y hy => List.mem_of_mem_drop hy)
    have c2 := hxK (K.take (T.sl / 2 + 1)) (fun y hy => List.mem_of_mem_take hy)
    cases T.get? x with
    | none => rfl
    | some n => simp only [Option.map_some, if_neg c1, if_neg c2]
  · intro x hx
    rcases List.mem_append.mp hx with h | h
    · exact hP.newsNone x h
    · have : x = Tk.nextId := by simpa using h
      rw [this]; exact hTr'
  · rw [List.nodup_append]
    refine ⟨hP.newsNodup, by simp, ?_⟩
    intro a ha b hb e
    have hb' : b = Tk.nextId := by simpa using hb
    have := hnewsSome a ha
    rw [e, hb', hr'k] at this; simp at this
  · obtain ⟨a1, a2, a3, a4, a5, _, _⟩ := main l h hw hl hh
    exact ⟨a1, a2, a3, a4, a5⟩
  · exact (main l h hw hl hh).2.2.2.2.2.2
  · rw [hT', setProm_promTarget]
  · rw [hT', setProm_promIdx]; exact hGI2
  · rw [hPf (·.tempParent) (fun _ _ => rfl) (fun _ _ _ => rfl)]
    show (innerTemp Tk0 gnd idx).getD (Tk0.sl / 2) {} = X.getD (T.sl / 2) {}
    rw [h0sl, ← hXl]; simp [Array.getD_eq_getD_getElem?, List.getD_eq_getElem?_getD]
  · rw [hPf (·.tpc0) (fun _ _ => rfl) (fun _ _ _ => rfl)]
  · rw [hPf (·.tpc1) (fun _ _ => rfl) (fun _ _ _ => rfl)]; exact h0next
  · rw [hPf (·.panicked) (fun _ _ => rfl) (fun _ _ _ => rfl), hTk0]; exact hok
  · have h1 : T'.nodes.length = ((innerPre Tk0 g gnd cs idx).getIndexOfChild gg g).1.nodes.length := by
      rw [hT', setProm_nodes]
    have h0len : Tk0.nodes.length = Tk.nodes.length := by rw [hTk0]
    rw [h1, gc, ipf2, h0len, hlen, List.length_append]; simp; omega
  · have h1 : Fresh ((innerPre Tk0 g gnd cs idx).getIndexOfChild gg g).1 := gd (ipf3 (by rw [hTk0]; exact hfr))
    rw [hT']; exact setProm_fresh _ _ _ h1
  · rw [hPf (·.nextId) (fun _ _ => rfl) (fun _ _ _ => rfl)]
    show T.nextId < Tk0.nextId + 1
    rw [h0next]; omega
  · obtain ⟨b1, b2, b3, b4, b5, b6, b7, b8⟩ := hbase
    refine ⟨?_, ?_, ?_, ?_, ?_, ?_, ?_, ?_⟩
    · rw [hPf (·.root) (fun _ _ => rfl) (fun _ _ _ => rfl), hTk0]; exact b1
    · rw [hPf (·.count) (fun _ _ => rfl) (fun _ _ _ => rfl), hTk0]; exact b2
    · rw [hPf (·.cur) (fun _ _ => rfl) (fun _ _ _ => rfl), hTk0]; exact b3
    · rw [hPf (·.lb) (fun _ _ => rfl) (fun _ _ _ => rfl), hTk0]; exact b4
    · rw [hPf (·.fixFast) (fun _ _ => rfl) (fun _ _ _ => rfl), hTk0]; exact b5
    · rw [hPf (·.fixErr) (fun _ _ => rfl) (fun _ _ _ => rfl), hTk0]; exact b6
    · rw [hPf (·.fixId) (fun _ _ => rfl) (fun _ _ _ => rfl), hTk0]; exact b7
    · rw [hPf (·.distSrc) (fun _ _ => rfl) (fun _ _ _ => rfl), hTk0]; exact b8
  · rw [hPf (·.unique) (fun _ _ => rfl) (fun _ _ _ => rfl), hTk0]; exact huq
  · intro x hx
    have hk := hkeep x hx
    by_cases hxg : x = g
    · rw [hxg, hgL]; rfl
    · have hxr : x ≠ Tk.nextId := by intro e; rw [e, hr'k] at hk; simp at hk
      rw [hother x hxg hxr]
      cases hT : Tk.get? x with
      | none => rw [hT] at hk; simp at hk
      | some n => rfl
  · simp
  · rw [hPf (·.nextId) (fun _ _ => rfl) (fun _ _ _ => rfl)]
    show Tk0.nextId + 1 = _
    rw [h0next, hnexteq, List.length_append]; simp; omega
  · rw [List.length_append, List.length_singleton, List.range'_concat, ← hnewseq, hnexteq]
    simp

end Sop.BTree.Ins
