import Sop.Lemmas.BTreeInsert6
/-! # C17 update side, `Btree.Add`, STAGE 5 (part 3) — the last promote step (`room_final`), induction up the
path (`up`), the promote loop as iteration, and the theorem `addU_leaf_split_cascade`: a full non-root leaf under any
number of full ancestors below an ancestor with room. -/
namespace Sop.BTree.Ins
open Sop.BTree
set_option linter.unusedVariables false
set_option linter.unusedSimpArgs false

/-! Insert proofs for Model B, part 38: STAGE 5 — the last step of the promote loop: a node with room. -/

/-- LAST STEP: the pending split reaches a node `g` with room: `promote` inserts the separator and the new
    child, the loop stops, and the subtree of `g` is well-formed again with the item inserted -/
theorem room_final {T Tk : BTree} {saved : Bool} {item : Item} {g gg c r : NodeId} {sep : Item} {f : Nat}
    {news : List NodeId} {idx : Nat} {lo hi : Option Int} {gnd : Node} {cs : Array NodeId}
    (hS : PState T Tk saved item g c r sep f news idx)
    (hW : WFNode T (f + 1) g gg lo hi) (hN : (reach T (f + 1) g).Nodup) (hlo : LeO lo item.key) (hhi : OLe item.key hi)
    (hgg : T.get? g = some gnd) (hcs : gnd.children = some cs)
    (hidx : idx = (getIndexToInsertTo T gnd item.key).1) (hchild : gnd.child idx = c) (hc0 : c ≠ 0)
    (hroom : gnd.count < T.sl) :
    (∀ l h, WFNode T (f + 1) g gg l h → LeO l item.key → OLe item.key h →
      WFNode (({ Tk with promTarget := 0, promIdx := 0 } : BTree).promoteStep g (idx : Int)) (f + 1) g gg l h ∧
      (reach (({ Tk with promTarget := 0, promIdx := 0 } : BTree).promoteStep g (idx : Int)) (f + 1) g).Perm
        (reach T (f + 1) g ++ news) ∧
      ∃ L R, absNode T (f + 1) g = L ++ R ∧
        absNode (({ Tk with promTarget := 0, promIdx := 0 } : BTree).promoteStep g (idx : Int)) (f + 1) g = L ++ item :: R ∧
        (∀ x ∈ L, x.key < item.key) ∧ (∀ x ∈ R, item.key ≤ x.key)) ∧
    (∀ x, (T.get? x).isSome → x ∉ reach T (f + 1) g →
      (({ Tk with promTarget := 0, promIdx := 0 } : BTree).promoteStep g (idx : Int)).get? x = T.get? x) ∧
    (({ Tk with promTarget := 0, promIdx := 0 } : BTree).promoteStep g (idx : Int)) =
      ({ Tk with promTarget := 0, promIdx := 0 } : BTree).upd g
        (promoteRoom ({ Tk with promTarget := 0, promIdx := 0 } : BTree) gnd cs idx) := by
  obtain ⟨hP, ⟨hp1, hp2, hp3, hp4, hp5⟩, hok, hlen, hfr, hnext, hbase, huq, hkeep, hnews1, _, _⟩ := hS
  have hgch : gnd.hasChildren = true := by simp [Node.hasChildren, hcs]
  obtain ⟨hgk, hidxle, _, _, _, hVfr, _, _⟩ := virt hP hW hN hlo hhi hgg hgch hidx hchild hc0
  have hW' := hW
  obtain ⟨hg0, nd0, hg1, hgp, hgs, _, _⟩ := hW
  rw [hgg] at hg1; cases hg1
  have hreachT : reach T (f + 1) g = g :: gnd.kids.flatMap (reach T f) := by
    rw [reach_succ hg0 hgg]; simp [Node.kidArr, Node.kids, hcs]
  obtain ⟨Tk0, hTk0⟩ : ∃ Tk0, Tk0 = ({ Tk with promTarget := 0, promIdx := 0 } : BTree) := ⟨_, rfl⟩
  have h0get : ∀ x, Tk0.get? x = Tk.get? x := by intro x; rw [hTk0]; rfl
  have h0sl : Tk0.sl = T.sl := by rw [hTk0]; exact hP.sl
  have h0tp : Tk0.tempParent = sep := by rw [hTk0]; exact hp3
  have h0c : Tk0.tpc0 = c := by rw [hTk0]; exact hp4
  have h0r : Tk0.tpc1 = r := by rw [hTk0]; exact hp5
  rw [← hTk0]
  have hcssz : cs.size = T.sl + 1 := (hgs.2.2.2.2 cs hcs).1
  have hstep := promoteStep_room (t := Tk0) (g := g) (idx := idx) (by rw [h0get]; exact hgk) hcs
    (by rw [h0sl]; exact hroom) hidxle (by rw [h0sl]; exact hcssz)
  rw [hstep]
  obtain ⟨T', hT'⟩ : ∃ T', T' = Tk0.upd g (promoteRoom Tk0 gnd cs idx) := ⟨_, rfl⟩
  rw [← hT']
  have hFid : ∀ x : Node, (promoteRoom Tk0 gnd cs idx x).id = x.id := fun _ => rfl
  have hsl' : T'.sl = T.sl := by rw [hT']; exact h0sl
  have hother : ∀ x, x ≠ g → T'.get? x = Tk.get? x := by
    intro x hx; rw [hT', get?_upd_ne _ _ hFid hx, h0get]
  have hgg' : T'.get? g = some (promoteRoom Tk0 gnd cs idx gnd) := by
    rw [hT', get?_upd_eq _ _ _ hFid, h0get, hgk]; rfl
  have hci : cs.getD idx 0 = c := by rw [← hchild]; simp [Node.child, hcs]
  obtain ⟨hGs, hGi, cs', hGc, hGk⟩ := promoteRoom_facts (T := T) (T' := T') (Tm := Tk0) hgs hcs hroom hidxle hci h0c hsl'
  rw [h0tp] at hGi
  rw [h0r] at hGk
  refine ⟨?_, ?_, rfl⟩
  · intro l h hw hl hh
    obtain ⟨_, _, hV1, hV3, hV2, _, hVg, _⟩ := virt hP hw hN hl hh hgg hgch hidx hchild hc0
    exact room_step (T := T) (Tk := Tk) (T' := T') (gnd := gnd) (gnd' := promoteRoom Tk0 gnd cs idx gnd) hP.sl hsl' hg0 hgp
      hV1 hV3 hV2 hVg hother hgg'
      ⟨hGs, rfl, by show 1 ≤ gnd.count + 1; omega, hGi, hGc, hGk⟩ hreachT
  · intro x hs hx
    have hxg : x ≠ g := fun e => hx (by rw [e]; exact self_mem_reach hW')
    rw [hother x hxg, hVfr x hs hx]

/-! Insert proofs for Model B, part 39: STAGE 5 — the child the key selects; the promote loop as iteration. -/

/-- facts about the child `c` the key selects in a well-formed inner node `g` -/
theorem child_facts {T : BTree} {key : Int} {g gg c : NodeId} {f : Nat} {lo hi : Option Int} {gnd : Node}
    {cs : Array NodeId} {idx : Nat}
    (hW : WFNode T (f + 1) g gg lo hi) (hN : (reach T (f + 1) g).Nodup) (hlo : LeO lo key) (hhi : OLe key hi)
    (hgg : T.get? g = some gnd) (hcs : gnd.children = some cs)
    (hidx : idx = (getIndexToInsertTo T gnd key).1) (hchild : gnd.child idx = c) (hc0 : c ≠ 0) :
    idx ≤ gnd.count ∧ cs.getD idx 0 = c ∧ (∀ j, cs.getD j 0 = c → j = idx) ∧ NodeShape T gnd ∧ gnd.parent = gg ∧ g ≠ 0 ∧
    g ∉ reach T f c ∧ (reach T f c).Nodup ∧ ∃ l h, WFNode T f c g l h ∧ LeO l key ∧ OLe key h := by
  obtain ⟨hg0, nd0, hg1, hgp, hgs, _, hgbody⟩ := hW
  rw [hgg] at hg1; cases hg1
  rw [hcs] at hgbody
  simp only at hgbody
  have hkids : gnd.kids = cs.toList.take (gnd.count + 1) := by simp [Node.kids, hcs]
  have hka : Node.kidArr gnd = gnd.kids := by simp [Node.kidArr, hcs, hkids]
  rw [← hkids] at hgbody
  have hklen := Node.kids_length hgs
  have hilen := Node.items_length hgs
  have hsorted : Sorted gnd.items := (itemsOk_good _ _ _ (KidsOk.itemsOk _ _ _ _ (by omega) hgbody)).1
  obtain ⟨hidx', htake, hdrop⟩ := insIdx_spec T gnd key hgs hsorted
  rw [← hidx] at hidx' htake hdrop
  have hcI : gnd.kids.getD idx 0 = c := by rw [Node.kids_getD hgs hidx']; exact hchild
  have hIlt : idx < gnd.kids.length := by omega
  have hr := reach_succ (f := f) hg0 hgg
  rw [hr, hka] at hN
  have hN' := List.nodup_cons.mp hN
  have hcmem : c ∈ gnd.kids := by rw [← hcI, getD_of_lt _ _ _ hIlt]; exact List.getElem_mem hIlt
  rcases KidsOk.at key idx gnd.kids gnd.items lo hi (by omega) (by omega) hgbody htake hdrop hlo hhi with
    hz | ⟨l2, h2, hwn, hl2, hh2⟩
  · rw [hcI] at hz; exact absurd hz hc0
  rw [hcI] at hwn
  have hci : cs.getD idx 0 = c := by simpa [Node.child, hcs] using hchild
  refine ⟨hidx', hci, ?_, hgs, hgp, hg0, fun hh => hN'.1 (List.mem_flatMap.mpr ⟨c, hcmem, hh⟩), ?_, l2, h2, hwn, hl2, hh2⟩
  · intro j hj
    have hcj : gnd.child j = c := by simp [Node.child, hcs, hj]
    by_cases hjc : j ≤ gnd.count
    · by_cases hji : j = idx
      · exact hji
      · exfalso
        have hjl : j < gnd.kids.length := by omega
        have hkj : gnd.kids.getD j 0 = c := by rw [Node.kids_getD hgs hjc]; exact hcj
        have h1 : c ∈ reach T f (gnd.kids.getD idx 0) := by rw [hcI]; exact self_mem_reach hwn
        have h2' : c ∈ reach T f (gnd.kids.getD j 0) := by rw [hkj]; exact self_mem_reach hwn
        exact reach_disjoint hN'.2 hIlt hjl (Ne.symm hji) h1 h2'
    · exfalso
      have := child_zero_of_gt hgs (Nat.lt_of_not_le hjc)
      rw [hcj] at this; exact hc0 this
  · have := reach_child_nodup hN'.2 hIlt
    rwa [hcI] at this

/-- one iteration of `Btree.promote`'s controller loop -/
def pstep (t : BTree) : BTree := ({ t with promTarget := 0, promIdx := 0 } : BTree).promoteStep t.promTarget t.promIdx

def iter : Nat → BTree → BTree
  | 0, t => t
  | k + 1, t => pstep (iter k t)

theorem promoteLoop_succ (k : Nat) (t : BTree) (h1 : t.promTarget ≠ 0) (h2 : t.panicked = false) :
    promoteLoop (k + 1) t = promoteLoop k (pstep t) := by
  rw [promoteLoop]
  have : ¬ (t.promTarget = 0 ∨ t.panicked = true) := by rw [h2]; simp [h1]
  rw [if_neg this]
  rfl

theorem promoteLoop_iter : ∀ (k m : Nat) (t : BTree),
    (∀ j, j < k → (iter j t).promTarget ≠ 0 ∧ (iter j t).panicked = false) →
    promoteLoop (k + m) t = promoteLoop m (iter k t)
  | 0, m, t, _ => by simp [iter]
  | k + 1, m, t, h => by
    have h0 := h 0 (Nat.succ_pos _)
    have e : k + 1 + m = (k + m) + 1 := by omega
    have h00 : t.promTarget ≠ 0 ∧ t.panicked = false := h0
    rw [e, promoteLoop_succ _ _ h00.1 h00.2]
    have hk : ∀ j, j < k → (iter j (pstep t)).promTarget ≠ 0 ∧ (iter j (pstep t)).panicked = false := by
      intro j hj
      have := h (j + 1) (by omega)
      have e2 : ∀ j t, iter (j + 1) t = iter j (pstep t) := by
        intro j
        induction j with
        | zero => intro t; rfl
        | succ j ih => intro t; show pstep (iter (j + 1) t) = pstep (iter j (pstep t)); rw [ih]
      rw [e2] at this
      exact this
    rw [promoteLoop_iter k m (pstep t) hk]
    have e2 : ∀ j t, iter (j + 1) t = iter j (pstep t) := by
      intro j
      induction j with
      | zero => intro t; rfl
      | succ j ih => intro t; show pstep (iter (j + 1) t) = pstep (iter j (pstep t)); rw [ih]
    rw [e2]

/-- every node from `c` down the descent path to the target leaf `n` is full -/
def fullPath (key : Int) : Nat → BTree → NodeId → NodeId → Prop
  | 0, _, _, _ => False
  | fuel + 1, t, c, n =>
    ¬ (t.get c).count < t.sl ∧
    (c = n ∨ ((t.get c).hasChildren = true ∧ t.childOf c (getIndexToInsertTo t (t.get c) key).1 ≠ 0 ∧
      fullPath key fuel t (t.childOf c (getIndexToInsertTo t (t.get c) key).1) n))

/-! Insert proofs for Model B, part 40: STAGE 5 — induction up the path: the promote loop keeps `PState`. -/

/-- UP THE PATH: if every node from `c` (the child of `g` the key selects) down to the target leaf `n` is
    full, then after the leaf split and as many splitting promote steps as there are inner nodes on that path
    the split is pending at `g` -/
theorem up {T : BTree} (saved : Bool) {item : Item} {n : NodeId} {i : Nat}
    (hfreshT : Fresh T) (hsl2 : 2 ≤ T.sl ∧ T.sl % 2 = 0) (hid : item.id ≠ 0) (hok : T.panicked = false)
    (hleafn : (T.get n).hasChildren = false) (hieq : i = (getIndexToInsertTo T (T.get n) item.key).1) (hn0 : n ≠ 0) :
    ∀ (f : Nat) (g gg c : NodeId) (lo hi : Option Int) (fuel : Nat) (gnd : Node) (cs : Array NodeId) (idx : Nat),
      WFNode T (f + 1) g gg lo hi → (reach T (f + 1) g).Nodup → LeO lo item.key → OLe item.key hi →
      T.get? g = some gnd → gnd.children = some cs → idx = (getIndexToInsertTo T gnd item.key).1 →
      gnd.child idx = c → c ≠ 0 → f ≤ fuel → fullPath item.key fuel T c n →
      ∃ k r sep news, k ≤ f ∧
        PState T (iter k ({ leafSplit T n item i with unique := saved } : BTree)) saved item g c r sep f news idx ∧
        (∀ j, j < k → (iter j ({ leafSplit T n item i with unique := saved } : BTree)).promTarget ≠ 0 ∧
          (iter j ({ leafSplit T n item i with unique := saved } : BTree)).panicked = false) ∧
        ({ leafSplit T n item i with unique := saved } : BTree).nodes.length = T.nodes.length + 1
  | 0, g, gg, c, lo, hi, fuel, gnd, cs, idx, hW, hN, hlo, hhi, hgg, hcs, hidx, hchild, hc0, _, _ => by
    obtain ⟨_, _, _, _, _, _, _, _, l, h, hw, _, _⟩ := child_facts hW hN hlo hhi hgg hcs hidx hchild hc0
    exact absurd hw (by simp [WFNode])
  | f + 1, g, gg, c, lo, hi, 0, gnd, cs, idx, _, _, _, _, _, _, _, _, _, hf, _ => by omega
  | f + 1, g, gg, c, lo, hi, fuel + 1, gnd, cs, idx, hW, hN, hlo, hhi, hgg, hcs, hidx, hchild, hc0, hf, hfp => by
    obtain ⟨hidxle, hci, huniq, hgs, hgp, hg0, hgnot, hcN, l, h, hwc, hlc, hhc⟩ :=
      child_facts hW hN hlo hhi hgg hcs hidx hchild hc0
    have hwc' := hwc
    obtain ⟨_, cnd, hgc, hcp, hcsh, _, hcbody⟩ := hwc
    have hgetc := get_of_get? hgc
    unfold fullPath at hfp
    rw [hgetc] at hfp
    obtain ⟨hfullc, hcase⟩ := hfp
    have hcfull : cnd.count = T.sl := by have := hcsh.2.1; omega
    rcases hcase with e | ⟨hcch, hc'0, hrec⟩
    · -- the child is the target leaf
      subst e
      rw [hgetc] at hleafn hieq
      have hcleaf : cnd.children = none := by
        cases hc : cnd.children with
        | none => rfl
        | some cs => simp [Node.hasChildren, hc] at hleafn
      rw [hcleaf] at hcbody
      simp only at hcbody
      have hile : i ≤ cnd.count := by
        rw [hieq]; exact (insIdx_spec T cnd item.key hcsh (itemsOk_good _ _ _ hcbody).1).1
      have hlp := leaf_pstate saved hgg hgc hcp hg0 hn0 hgs hcsh hcs hidxle hci huniq hcfull hcleaf hieq hile hfreshT hsl2 hid hok f
      exact ⟨0, _, _, _, Nat.zero_le _, hlp, fun j hj => absurd hj (Nat.not_lt_zero j), hlp.len⟩
    · -- the child is a full inner node: recurse, then one splitting step
      obtain ⟨ccs, hccs⟩ : ∃ ccs, cnd.children = some ccs := by
        cases hc : cnd.children with
        | none => simp [Node.hasChildren, hc] at hcch
        | some cs => exact ⟨cs, rfl⟩
      obtain ⟨hce, hce0⟩ := childOf_eq hc'0
      rw [hgetc] at hce hce0
      rw [hce] at hrec
      obtain ⟨k, r, sep, news, hkf, hS, hrun, hlen0⟩ := up saved hfreshT hsl2 hid hok hleafn hieq hn0 f c g
        (cnd.child (getIndexToInsertTo T cnd item.key).1) l h fuel cnd ccs _ hwc' hcN hlc hhc hgc hccs rfl rfl hce0
        (by omega) hrec
      have hstep := inner_step (idxg := idx) hS hwc' hcN hlc hhc hgc hccs rfl rfl hce0 hcfull hg0 hgg hgs hcs hci huniq
        hidxle hgnot hfreshT hsl2
      have hpe : iter (k + 1) ({ leafSplit T n item i with unique := saved } : BTree) =
          ({ iter k ({ leafSplit T n item i with unique := saved } : BTree) with promTarget := 0, promIdx := 0 } : BTree).promoteStep c
            (((getIndexToInsertTo T cnd item.key).1 : Nat) : Int) := by
        show pstep _ = _
        unfold pstep
        rw [hS.prom.1, hS.prom.2.1]
      rw [← hpe] at hstep
      refine ⟨k + 1, _, _, _, by omega, hstep, ?_, hlen0⟩
      intro j hj
      by_cases hjk : j < k
      · exact hrun j hjk
      · have : j = k := by omega
        subst this
        exact ⟨by rw [hS.prom.1]; exact hc0, hS.ok⟩

/-! Insert proofs for Model B, part 41: STAGE 5 — the whole promote loop, seen from the first ancestor with room. -/

/-- what is known about the tree after the promote loop -/
structure CascadeOut (T Tfin : BTree) (saved : Bool) (news : List NodeId) : Prop where
  newsEq : news = List.range' T.nextId (Tfin.nodes.length - T.nodes.length)
  newsNone : ∀ x ∈ news, T.get? x = none
  newsNodup : news.Nodup
  len : Tfin.nodes.length = T.nodes.length + news.length
  sl : Tfin.sl = T.sl
  prom : Tfin.promTarget = 0
  ok : Tfin.panicked = false
  fresh : Fresh Tfin
  base : SameBase T Tfin
  uniq : Tfin.unique = saved
  nextId : T.nextId < Tfin.nextId
  keep : ∀ x, (T.get? x).isSome → (Tfin.get? x).isSome

/-- the promote loop after a leaf split below `q`, when `q` has room and everything between `q` and the
    leaf is full: the loop ends at `q`, whose subtree is well-formed again with the item inserted -/
theorem cascade_at {T : BTree} (saved : Bool) {item : Item} {q n : NodeId} {i idx : Nat} {gnd : Node} {cs : Array NodeId}
    (hfreshT : Fresh T) (hsl2 : 2 ≤ T.sl ∧ T.sl % 2 = 0) (hid : item.id ≠ 0) (hok : T.panicked = false)
    (hleafn : (T.get n).hasChildren = false) (hieq : i = (getIndexToInsertTo T (T.get n) item.key).1) (hn0 : n ≠ 0)
    (hgq : T.get? q = some gnd) (hcs : gnd.children = some cs) (hidx : idx = (getIndexToInsertTo T gnd item.key).1)
    (hc0 : gnd.child idx ≠ 0) (hroom : gnd.count < T.sl) (hfp : fullPath item.key T.fuel T (gnd.child idx) n)
    {f : Nat} {p : NodeId} {l h : Option Int} (hW : WFNode T (f + 1) q p l h) (hfl : f + 1 ≤ T.nodes.length + 1)
    (hN : (reach T (f + 1) q).Nodup) (hl : LeO l item.key) (hh : OLe item.key h) :
    ∃ news,
      (WFNode (promoteLoop (({ leafSplit T n item i with unique := saved } : BTree).fuel + 2)
          ({ leafSplit T n item i with unique := saved } : BTree)) (f + 1) q p l h ∧
        (reach (promoteLoop (({ leafSplit T n item i with unique := saved } : BTree).fuel + 2)
          ({ leafSplit T n item i with unique := saved } : BTree)) (f + 1) q).Perm (reach T (f + 1) q ++ news) ∧
        ∃ L R, absNode T (f + 1) q = L ++ R ∧
          absNode (promoteLoop (({ leafSplit T n item i with unique := saved } : BTree).fuel + 2)
            ({ leafSplit T n item i with unique := saved } : BTree)) (f + 1) q = L ++ item :: R ∧
          (∀ x ∈ L, x.key < item.key) ∧ (∀ x ∈ R, item.key ≤ x.key)) ∧
      (∀ x, (T.get? x).isSome → x ∉ reach T (f + 1) q →
        (promoteLoop (({ leafSplit T n item i with unique := saved } : BTree).fuel + 2)
          ({ leafSplit T n item i with unique := saved } : BTree)).get? x = T.get? x) ∧
      CascadeOut T (promoteLoop (({ leafSplit T n item i with unique := saved } : BTree).fuel + 2)
          ({ leafSplit T n item i with unique := saved } : BTree)) saved news := by
  obtain ⟨T0, hT0⟩ : ∃ T0, T0 = ({ leafSplit T n item i with unique := saved } : BTree) := ⟨_, rfl⟩
  rw [← hT0]
  obtain ⟨k, r, sep, news, hkf, hS, hrun, hlen0⟩ := up saved hfreshT hsl2 hid hok hleafn hieq hn0 f q p (gnd.child idx) l h
    T.fuel gnd cs idx hW hN hl hh hgq hcs hidx rfl hc0 (by unfold BTree.fuel; omega) hfp
  rw [← hT0] at hS hrun hlen0
  obtain ⟨hwf, hframe, heq⟩ := room_final hS hW hN hl hh hgq hcs hidx rfl hc0 hroom
  obtain ⟨Tk, hTk⟩ : ∃ Tk, Tk = iter k T0 := ⟨_, rfl⟩
  rw [← hTk] at hS hwf hframe heq
  have hq0 : q ≠ 0 := hW.1
  -- the loop ends with this step
  have hfin : promoteLoop (T0.fuel + 2) T0 = ({ Tk with promTarget := 0, promIdx := 0 } : BTree).promoteStep q (idx : Int) := by
    have hfuel : T0.fuel + 2 = k + ((T0.fuel - k) + 2) := by
      unfold BTree.fuel; omega
    rw [hfuel, promoteLoop_iter k _ T0 hrun, ← hTk]
    have hdone : (({ Tk with promTarget := 0, promIdx := 0 } : BTree).promoteStep q Tk.promIdx).promTarget = 0 := by
      rw [hS.prom.2.1, heq]; rfl
    rw [promoteLoop_one hS.prom.1 hq0 hS.ok hdone, hS.prom.2.1]
  rw [hfin]
  refine ⟨news, hwf l h hW hl hh, hframe, ?_⟩
  rw [heq]
  obtain ⟨b1, b2, b3, b4, b5, b6, b7, b8⟩ := hS.base
  have hlenT : (({ Tk with promTarget := 0, promIdx := 0 } : BTree).upd q
      (promoteRoom ({ Tk with promTarget := 0, promIdx := 0 } : BTree) gnd cs idx)).nodes.length = T.nodes.length + news.length := by
    rw [upd_nodes_length]; exact hS.len
  refine ⟨?_, hS.pend.newsNone, hS.pend.newsNodup, hlenT, hS.pend.sl, rfl, hS.ok, ?_, ⟨b1, b2, b3, b4, b5, b6, b7, b8⟩, hS.uniq,
    hS.nextId, ?_⟩
  · rw [hlenT, Nat.add_sub_cancel_left]; exact hS.newsEq
  · exact fresh_upd (T := ({ Tk with promTarget := 0, promIdx := 0 } : BTree)) hS.fresh q _ (fun _ => rfl)
  · intro x hx
    exact keep_upd ({ Tk with promTarget := 0, promIdx := 0 } : BTree) q
      (promoteRoom ({ Tk with promTarget := 0, promIdx := 0 } : BTree) gnd cs idx) (fun _ => rfl) x (hS.keep x hx)

/-! Insert proofs for Model B, part 42: STAGE 5 theorem — the promote cascade ending at an ancestor with room. -/

theorem getIndexOfChild_distSrc (t : BTree) (p c : NodeId) : (t.getIndexOfChild p c).1.distSrc = t.distSrc := by
  unfold BTree.getIndexOfChild
  simp only
  split
  · rfl
  · split
    · rfl
    · split <;> rfl

theorem leafSplit_distSrc (T : BTree) (n : NodeId) (item : Item) (i : Nat) : (leafSplit T n item i).distSrc = T.distSrc := by
  show ((leafSplitPre T n item i).getIndexOfChild (T.get n).parent n).1.distSrc = _
  rw [getIndexOfChild_distSrc]; rfl

/-- STAGE 5 (cascade ending at an ancestor with room): the descent ends in a full non-root leaf `n`; `q` is a
    node on the path that has room, and every node on the path strictly between `q` and `n`, and `n` itself, is
    full (leaf load balancing off).  The leaf is split, `promote` splits every full inner node on the way up and
    finally inserts into `q`. -/
theorem addU_leaf_split_cascade (t : BTree) (uniq : Bool) (key : Int) (val : Nat) (n : NodeId) (i : Nat) (q : NodeId)
    (hwf : WF t) (hok : t.panicked = false) (hidle : Idle t) (hfresh : Fresh t) (hlb : t.lb = false)
    (htgt : addTargetOf t uniq key = .leaf n i)
    (hfull : ¬ ((addStart t uniq).1.get n).count < t.sl)
    (hnotroot : ((addStart t uniq).1.get n).isRoot = false)
    (hq : onPath key (addStart t uniq).1.fuel (addStart t uniq).1 (addStart t uniq).1.root q)
    (hroom : ((addStart t uniq).1.get q).count < t.sl)
    (hqc : (addStart t uniq).1.childOf q (getIndexToInsertTo (addStart t uniq).1 ((addStart t uniq).1.get q) key).1 ≠ 0)
    (hfp : fullPath key (addStart t uniq).1.fuel (addStart t uniq).1
      ((addStart t uniq).1.childOf q (getIndexToInsertTo (addStart t uniq).1 ((addStart t uniq).1.get q) key).1) n) :
    AddOk t key val (t.addU uniq key val) := by
  have so := addStart_ok t uniq hwf
  rw [addU_eq, htgt]
  unfold addTargetOf at htgt
  obtain ⟨saved, hsaved⟩ : ∃ b, b = ({ t with nextId := t.nextId + 1 } : BTree).getRootNode.1.unique := ⟨_, rfl⟩
  rw [← hsaved]
  have hsaved' : saved = t.unique := by rw [hsaved]; exact so.saved
  obtain ⟨T, hTdef⟩ : ∃ T, T = (addStart t uniq).1 := ⟨_, rfl⟩
  rw [← hTdef] at hq hqc hfp hfull hnotroot hroom
  have hsl : T.sl = t.sl := by rw [hTdef]; exact so.sl
  have hroot : T.root ≠ 0 := by rw [hTdef]; exact so.root
  have hT : WF T := by rw [hTdef]; exact so.wf
  have hf : Fresh T := by rw [hTdef]; exact so.fresh hfresh
  rw [← hsl] at hfull hroom
  have hlb' : T.lb = false := by rw [hTdef, so.lb]; exact hlb
  have hok' : T.panicked = false := by rw [hTdef, so.ok]; exact hok
  rw [so.rootEq, ← hTdef] at htgt
  rw [← hTdef]
  simp only [Target.apply]
  have hw := hT
  unfold WF at hw
  rw [if_neg hroot] at hw
  obtain ⟨hsl2, hW, hN, hL, hC⟩ := hw
  obtain ⟨hleaf, hi⟩ := target_leaf key _ _ _ htgt
  -- the leaf's parent exists
  have hnroot : n ≠ T.root := by
    intro e
    obtain ⟨_, rd, hgr, hpr, _⟩ := hW
    rw [e, get_of_get? hgr] at hnotroot
    simp [Node.isRoot, hpr] at hnotroot
  obtain ⟨g0, hpath0, hg0ch, hchildOf0, hn0⟩ := target_parent key _ _ _ htgt hnroot
  have hpsome : (T.get? (T.get n).parent).isSome := by
    obtain ⟨fq, pq, lq, hq', _, hWg, hNg, hlq, hhq⟩ :=
      onPath_wf key (T.nodes.length + 1) T.root 0 none none T.fuel hW hN (leO_none _) (oLe_none _)
        (by unfold BTree.fuel; omega) hpath0
    cases fq with
    | zero => exact absurd hWg (by simp [WFNode])
    | succ f =>
    obtain ⟨_, gnd0, hgg0, _⟩ := hWg
    have hWg' : WFNode T (f + 1) g0 pq lq hq' := ⟨by assumption, gnd0, hgg0, by assumption⟩
    have hgetg := get_of_get? hgg0
    rw [hgetg] at hg0ch hchildOf0
    obtain ⟨cs0, hcs0⟩ : ∃ cs, gnd0.children = some cs := by
      cases hh : gnd0.children with
      | none => simp [Node.hasChildren, hh] at hg0ch
      | some cs => exact ⟨cs, rfl⟩
    obtain ⟨hce, hc0⟩ := childOf_eq (by rw [hchildOf0]; exact hn0 : T.childOf g0 (getIndexToInsertTo T gnd0 key).1 ≠ 0)
    rw [hgetg, hchildOf0] at hce
    obtain ⟨_, _, _, _, _, _, _, _, l2, h2, hwn, _, _⟩ :=
      child_facts hWg' hNg hlq hhq hgg0 hcs0 rfl hce.symm hn0
    cases f with
    | zero => exact absurd hwn (by simp [WFNode])
    | succ f =>
    obtain ⟨_, nd, hgn, hnp, _⟩ := hwn
    rw [get_of_get? hgn, hnp, hgg0]; rfl
  -- the node with room
  obtain ⟨fq, pq, lq, hq', hfqle, hWq, hNq, hlq, hhq⟩ :=
    onPath_wf key (T.nodes.length + 1) T.root 0 none none T.fuel hW hN (leO_none _) (oLe_none _)
      (by unfold BTree.fuel; omega) hq
  cases fq with
  | zero => exact absurd hWq (by simp [WFNode])
  | succ f =>
  obtain ⟨gnd, hgq⟩ : ∃ gnd, T.get? q = some gnd := by
    obtain ⟨_, gnd, hg, _⟩ := hWq; exact ⟨gnd, hg⟩
  have hgetq := get_of_get? hgq
  rw [hgetq] at hroom hqc hfp
  obtain ⟨hce, hc0⟩ := childOf_eq hqc
  rw [hgetq] at hce hc0
  rw [hce] at hfp
  obtain ⟨cs, hcs⟩ : ∃ cs, gnd.children = some cs := by
    cases hh : gnd.children with
    | none => simp [Node.child, hh] at hc0
    | some cs => exact ⟨cs, rfl⟩
  have hid : (⟨t.nextId, key, val⟩ : Item).id ≠ 0 := Nat.ne_of_gt hfresh.1
  obtain ⟨news, _, _, hout⟩ := cascade_at (T := T) saved (item := ⟨t.nextId, key, val⟩) (q := q) (n := n) (i := i)
    hf hsl2 hid hok' hleaf hi hn0 hgq hcs rfl hc0 hroom hfp hWq hfqle hNq hlq hhq
  -- local correctness at `q`
  have hloc : LocalOkG T (promoteLoop (({ leafSplit T n ⟨t.nextId, key, val⟩ i with unique := saved } : BTree).fuel + 2)
      ({ leafSplit T n ⟨t.nextId, key, val⟩ i with unique := saved } : BTree)) q ⟨t.nextId, key, val⟩ 0 news := by
    refine ⟨hout.sl, ?_, hout.newsNone, hout.newsNodup, ?_⟩
    · intro f' p l h hw hfl hnd hl hh x hs hx
      cases f' with
      | zero => exact absurd hw (by simp [WFNode])
      | succ f' =>
        obtain ⟨_, _, hfr', _⟩ := cascade_at (T := T) saved (item := ⟨t.nextId, key, val⟩) (q := q) (n := n) (i := i)
          hf hsl2 hid hok' hleaf hi hn0 hgq hcs rfl hc0 hroom hfp hw hfl hnd hl hh
        exact hfr' x hs hx
    · intro f' p l h hw hfl hnd hl hh
      cases f' with
      | zero => exact absurd hw (by simp [WFNode])
      | succ f' =>
        obtain ⟨news', hwf', _, ho'⟩ := cascade_at (T := T) saved (item := ⟨t.nextId, key, val⟩) (q := q) (n := n) (i := i)
          hf hsl2 hid hok' hleaf hi hn0 hgq hcs rfl hc0 hroom hfp hw hfl hnd hl hh
        have : news' = news := by rw [ho'.newsEq, hout.newsEq]
        rw [this] at hwf'
        exact hwf'
  -- the model's computation
  rw [addOnLeaf_leafSplit hfull hnotroot hlb' hpsome]
  have hd0 : (leafSplit T n ⟨t.nextId, key, val⟩ i).distSrc = 0 := by
    rw [leafSplit_distSrc, hTdef, so.idle.1]; exact hidle.1
  unfold addFinish
  simp only [Bool.not_true, Bool.false_eq_true, if_false]
  rw [distributeLoop_idle (by exact hd0)]
  obtain ⟨T', hT'⟩ : ∃ T', T' = promoteLoop (({ leafSplit T n ⟨t.nextId, key, val⟩ i with unique := saved } : BTree).fuel + 2)
      ({ leafSplit T n ⟨t.nextId, key, val⟩ i with unique := saved } : BTree) := ⟨_, rfl⟩
  rw [← hT'] at hloc hout ⊢
  obtain ⟨b1, b2, b3, b4, b5, b6, b7, b8⟩ := hout.base
  have hasm := assembleG (T := T) (T' := T') (n := q) saved hT hroot hloc b1 hout.len (Nat.zero_le _) b2 hq
  have heq : ({ T' with unique := saved, count := T'.count + 1 } : BTree) = { T' with count := T'.count + 1 } := by
    rw [← hout.uniq]
  rw [heq] at hasm
  obtain ⟨hWF, L, R, hA, hA', hLb, hRb⟩ := hasm
  have hTabs : T.abs = t.abs := by rw [hTdef]; exact so.abs
  rw [hTabs] at hA
  refine ⟨rfl, hWF, hout.ok, ⟨?_, hout.prom⟩, hout.fresh, ?_, ⟨L, R, hA, hA', hLb, hRb⟩, ⟨?_, ?_, ?_, ?_, ?_, ?_⟩, ?_, ?_, ?_⟩
  · show T'.distSrc = 0
    rw [b8, hTdef, so.idle.1]; exact hidle.1
  · show T'.count + 1 = t.count + 1; rw [b2, hTdef, so.count]
  · show T'.sl = t.sl; rw [hout.sl]; exact hsl
  · show T'.unique = t.unique; rw [hout.uniq]; exact hsaved'
  · show T'.lb = t.lb; rw [b4, hTdef]; exact so.lb
  · show T'.fixFast = t.fixFast; rw [b5, hTdef]; exact so.fix.1
  · show T'.fixErr = t.fixErr; rw [b6, hTdef]; exact so.fix.2.1
  · show T'.fixId = t.fixId; rw [b7, hTdef]; exact so.fix.2.2
  · show t.nextId < T'.nextId
    have h1 : t.nextId < T.nextId := by rw [hTdef]; exact so.nextId
    have h2 := hout.nextId
    omega
  · show T'.cur = t.cur; rw [b3, hTdef]; exact so.cur
  · intro x hx
    have h1 : (T.get? x).isSome := by rw [hTdef]; exact so.keep x hx
    exact hout.keep x h1

/-- the path hypotheses of the cascade theorem are decidable -/
instance onPathDec (key : Int) : ∀ (fuel : Nat) (t : BTree) (m q : NodeId), Decidable (onPath key fuel t m q)
  | 0, _, _, _ => isFalse (fun h => h)
  | fuel + 1, t, m, q => by
    unfold onPath
    have := onPathDec key fuel t (t.childOf m (getIndexToInsertTo t (t.get m) key).1) q
    exact inferInstance

instance fullPathDec (key : Int) : ∀ (fuel : Nat) (t : BTree) (c n : NodeId), Decidable (fullPath key fuel t c n)
  | 0, _, _, _ => isFalse (fun h => h)
  | fuel + 1, t, c, n => by
    unfold fullPath
    have := fullPathDec key fuel t (t.childOf c (getIndexToInsertTo t (t.get c) key).1) n
    exact inferInstance

/-- non-vacuity of `addU_leaf_split_cascade`: slot length 2, keys 1..10 added in order; `Add 11` ends in the
    full leaf 17 whose parent 14 is full too; the root 2 has room: the leaf and its parent are split -/
def exCascade : BTree :=
  (BTree.new 2 false false true).run [.add 1 1, .add 2 2, .add 3 3, .add 4 4, .add 5 5, .add 6 6, .add 7 7, .add 8 8,
    .add 9 9, .add 10 10]

theorem exCascade_hyps : WF exCascade ∧ exCascade.panicked = false ∧ Idle exCascade ∧ Fresh exCascade ∧
    exCascade.lb = false ∧ addTargetOf exCascade false 11 = .leaf 17 2 ∧
    ¬ ((addStart exCascade false).1.get 17).count < exCascade.sl ∧
    ((addStart exCascade false).1.get 17).isRoot = false ∧
    onPath 11 (addStart exCascade false).1.fuel (addStart exCascade false).1 (addStart exCascade false).1.root 2 ∧
    ((addStart exCascade false).1.get 2).count < exCascade.sl ∧
    (addStart exCascade false).1.childOf 2
      (getIndexToInsertTo (addStart exCascade false).1 ((addStart exCascade false).1.get 2) 11).1 ≠ 0 ∧
    fullPath 11 (addStart exCascade false).1.fuel (addStart exCascade false).1
      ((addStart exCascade false).1.childOf 2
        (getIndexToInsertTo (addStart exCascade false).1 ((addStart exCascade false).1.get 2) 11).1) 17 := by
  refine ⟨checkWF_sound _ (by decide +kernel), by decide +kernel, ⟨by decide +kernel, by decide +kernel⟩,
    ⟨by decide +kernel, by decide +kernel⟩, by decide +kernel, by decide +kernel, by decide +kernel, by decide +kernel,
    by decide +kernel, by decide +kernel, by decide +kernel, by decide +kernel⟩

end Sop.BTree.Ins
